#!/bin/sh
# setup_cmd: build the framework from files on disk only (offline).
set -e
cd "$(dirname "$0")"
export GOFLAGS=-mod=mod GOPROXY=off GOSUMDB=off GOTOOLCHAIN=local
mkdir -p .build evidence
python3 lib/vcheck.py --setup-all
