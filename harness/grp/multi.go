package grp

// Multi-member scenarios: 2-3 REAL ConsumerGroup members share one group on the simulated cluster's multi-member
// coordinator (join barrier, held syncs, rebalances caused by joins / leaves / expiry).  Every member runs Consume in a
// loop until its life time is over, then Closes.  Oracles: the per-member C07 life-cycle and identity rules (each
// member's own requests and callbacks), claims within that member's assignment, claim start = committed offset,
// nothing skipped per partition over all members' sessions, no partition claimed by two sessions of one generation;
// C12: every Consume / Close returns.

import (
	"context"
	"fmt"
	"sort"
	"strconv"
	"strings"
	"sync"
	"time"

	"github.com/Shopify/sarama"
	"verif/harness/hlib"
	"verif/harness/life"
)

type MMember struct {
	StartMs    int
	LifeMs     int
	Behaviour  []string // per Consume round
	EarlyAfter []int
}

type MScenario struct {
	Seed          uint64
	Partitions    int32
	LogLen        []int
	Stored        []int64
	Strategy      string
	InitialOldest bool
	AutoCommit    bool
	RetryMax      int
	Version       sarama.KafkaVersion
	Script        map[string]map[int]sarama.KError
	Members       []MMember
}

const mRounds = 10

func GenMulti(seed uint64) *MScenario {
	r := hlib.NewRand(seed ^ 0x6d756c7469)
	sc := &MScenario{Seed: seed}
	sc.Partitions = int32(r.Range(1, 5))
	for p := int32(0); p < sc.Partitions; p++ {
		n := r.Range(0, 12)
		sc.LogLen = append(sc.LogLen, n)
		switch r.Intn(4) {
		case 0:
			sc.Stored = append(sc.Stored, -1)
		case 1:
			sc.Stored = append(sc.Stored, int64(n+r.Range(1, 5)))
		default:
			sc.Stored = append(sc.Stored, int64(r.Range(0, n)))
		}
	}
	sc.Strategy = []string{"range", "roundrobin", "sticky"}[r.Intn(3)]
	sc.InitialOldest = r.Chance(2, 3)
	sc.AutoCommit = r.Chance(3, 4)
	sc.RetryMax = r.Pick(0, 1, 2, 4, 4)
	versions := []sarama.KafkaVersion{sarama.V0_10_2_0, sarama.V0_11_0_0, sarama.V1_0_0_0, sarama.V2_1_0_0, sarama.V2_8_0_0}
	sc.Version = versions[r.Intn(len(versions))]
	sc.Script = map[string]map[int]sarama.KError{}
	nf := r.Pick(0, 0, 1, 2)
	kinds := []string{"join", "sync", "heartbeat", "heartbeat", "commit"}
	for i := 0; i < nf; i++ {
		k := kinds[r.Intn(len(kinds))]
		if sc.Script[k] == nil {
			sc.Script[k] = map[int]sarama.KError{}
		}
		c := codes[r.Intn(len(codes))]
		sc.Script[k][r.Range(1, 12)] = c
	}
	nm := r.Range(2, 3)
	for i := 0; i < nm; i++ {
		m := MMember{StartMs: r.Pick(0, 0, 20, 60, 150), LifeMs: r.Pick(150, 300, 450, 600)}
		for k := 0; k < mRounds; k++ {
			m.Behaviour = append(m.Behaviour, []string{"drain", "drain", "drain", "early", "prefix"}[r.Intn(5)])
			m.EarlyAfter = append(m.EarlyAfter, r.Range(0, 4))
		}
		sc.Members = append(sc.Members, m)
	}
	return sc
}

func (sc *MScenario) String() string {
	var fs []string
	var ks []string
	for k := range sc.Script {
		ks = append(ks, k)
	}
	sort.Strings(ks)
	for _, k := range ks {
		var ns []int
		for n := range sc.Script[k] {
			ns = append(ns, n)
		}
		sort.Ints(ns)
		for _, n := range ns {
			fs = append(fs, fmt.Sprintf("%s#%d=%d", k, n, int(sc.Script[k][n])))
		}
	}
	var ms []string
	for _, m := range sc.Members {
		ms = append(ms, fmt.Sprintf("{start=%dms life=%dms beh=%v early=%v}", m.StartMs, m.LifeMs, m.Behaviour[:3], m.EarlyAfter[:3]))
	}
	return fmt.Sprintf("multi seed=%d parts=%d log=%v stored=%v strat=%s oldest=%v auto=%v retry=%d ver=%s script=[%s] members=%s",
		sc.Seed, sc.Partitions, sc.LogLen, sc.Stored, sc.Strategy, sc.InitialOldest, sc.AutoCommit, sc.RetryMax, sc.Version, strings.Join(fs, ","), strings.Join(ms, ""))
}

type MResult struct {
	Sc        *MScenario
	Events    []HEvent
	Reqs      []sarama.VerifSimGroupReq
	NewErr    string
	Hang      string
	Panic     string
	Life      []string
	LifePanic []string
}

func RunMulti(sc *MScenario) *MResult {
	res := &MResult{Sc: sc}
	sim := sarama.VerifNewSim(2, map[string]int32{"t": sc.Partitions})
	defer sim.Close()
	sim.GroupMulti = true
	sim.FetchMaxRecords = 3
	for p := int32(0); p < sc.Partitions; p++ {
		for i := 0; i < sc.LogLen[p]; i++ {
			sim.AppendRaw("t", p, []byte(fmt.Sprintf("k%d", i)), []byte(fmt.Sprintf("v%d.%d", p, i)), nil, time.Unix(1600000000+int64(i), 0))
		}
		if sc.Stored[p] >= 0 {
			sim.SetGroupStoreMulti("g", "t", p, sc.Stored[p])
		}
	}
	sim.GroupScript = func(kind string, n int) sarama.KError {
		if m, ok := sc.Script[kind]; ok {
			if v, ok := m[n]; ok {
				return v
			}
		}
		return sarama.ErrNoError
	}
	if rec := life.Begin(fmt.Sprintf("gm:%d", sc.Seed)); rec != nil {
		sarama.VerifSinkKV = rec.Event
		defer func() {
			res.Life, res.LifePanic = rec.End()
			sarama.VerifSinkKV = nil
		}()
	}
	var mu sync.Mutex
	var wg sync.WaitGroup
	hang := func(s string) {
		mu.Lock()
		if res.Hang == "" {
			res.Hang = s
		}
		mu.Unlock()
	}
	// the harness reuses the single-member handler; it needs a Result to append events to
	shared := &Result{Sc: &Scenario{}}
	for who := range sc.Members {
		who := who
		mm := sc.Members[who]
		wg.Add(1)
		go func() {
			defer wg.Done()
			time.Sleep(time.Duration(mm.StartMs) * time.Millisecond)
			cfg := sarama.NewConfig()
			cfg.ClientID = fmt.Sprintf("m%d", who)
			cfg.Version = sc.Version
			cfg.Consumer.Return.Errors = true
			cfg.Consumer.Offsets.Initial = sarama.OffsetNewest
			if sc.InitialOldest {
				cfg.Consumer.Offsets.Initial = sarama.OffsetOldest
			}
			cfg.Consumer.Offsets.AutoCommit.Enable = sc.AutoCommit
			cfg.Consumer.Offsets.AutoCommit.Interval = 4 * time.Millisecond
			cfg.Consumer.Offsets.Retry.Max = 2
			cfg.Consumer.Group.Heartbeat.Interval = 3 * time.Millisecond
			cfg.Consumer.Group.Session.Timeout = 100 * time.Millisecond
			cfg.Consumer.Group.Rebalance.Timeout = 200 * time.Millisecond
			cfg.Consumer.Group.Rebalance.Retry.Max = sc.RetryMax
			cfg.Consumer.Group.Rebalance.Retry.Backoff = time.Millisecond
			cfg.Consumer.MaxWaitTime = 5 * time.Millisecond
			cfg.Consumer.Retry.Backoff = time.Millisecond
			cfg.Metadata.Retry.Max = 1
			cfg.Metadata.Retry.Backoff = time.Millisecond
			cfg.Net.ReadTimeout = 900 * time.Millisecond
			cfg.Net.DialTimeout = 500 * time.Millisecond
			switch sc.Strategy {
			case "range":
				cfg.Consumer.Group.Rebalance.Strategy = sarama.BalanceStrategyRange
			case "roundrobin":
				cfg.Consumer.Group.Rebalance.Strategy = sarama.BalanceStrategyRoundRobin
			default:
				cfg.Consumer.Group.Rebalance.Strategy = sarama.BalanceStrategySticky
			}
			g, err := sarama.NewConsumerGroup(sim.Addrs(), "g", cfg)
			if err != nil {
				mu.Lock()
				res.NewErr = err.Error()
				mu.Unlock()
				return
			}
			go func() {
				for range g.Errors() {
				}
			}()
			end := time.Now().Add(time.Duration(mm.LifeMs) * time.Millisecond)
			for round := 0; round < mRounds && time.Now().Before(end); round++ {
				sNo := who*100 + round
				h := &handler{res: shared, sim: sim, mu: &mu, session: sNo, beh: mm.Behaviour[round], early: mm.EarlyAfter[round], sc: shared.Sc}
				ctx, cancel := context.WithDeadline(context.Background(), end)
				done := make(chan error, 1)
				go func() {
					defer func() {
						if r := recover(); r != nil {
							done <- fmt.Errorf("panic: %v", r)
						}
					}()
					done <- g.Consume(ctx, []string{"t"}, h)
				}()
				var cerr error
				select {
				case cerr = <-done:
				case <-time.After(time.Until(end) + 8*time.Second):
					hang(fmt.Sprintf("member %d: Consume of round %d did not return within 8s after its context ended", who, round))
					cancel()
					return
				}
				cancel()
				e := HEvent{Kind: "return", Session: sNo}
				if cerr != nil {
					e.Err = cerr.Error()
					if strings.HasPrefix(e.Err, "panic:") {
						mu.Lock()
						res.Panic = e.Err
						mu.Unlock()
					}
				}
				e.Seq = sim.GroupSeq()
				mu.Lock()
				shared.Events = append(shared.Events, e)
				mu.Unlock()
				if cerr != nil {
					time.Sleep(2 * time.Millisecond)
				}
			}
			cdone := make(chan error, 1)
			go func() { cdone <- g.Close() }()
			select {
			case <-cdone:
			case <-time.After(8 * time.Second):
				hang(fmt.Sprintf("member %d: Close did not return within 8s", who))
			}
		}()
	}
	wg.Wait()
	mu.Lock()
	res.Events = append([]HEvent(nil), shared.Events...)
	mu.Unlock()
	res.Reqs = sim.GroupRequests()
	return res
}

func whoOfClient(c string) int {
	n, err := strconv.Atoi(strings.TrimPrefix(c, "m"))
	if err != nil {
		return -1
	}
	return n
}

// CheckMulti evaluates the C07 / C12 oracles of a multi-member scenario.
func CheckMulti(res *MResult) []Fail {
	var fails []Fail
	add := func(sig, format string, a ...interface{}) {
		fails = append(fails, Fail{sig, fmt.Sprintf(format, a...)})
	}
	sc := res.Sc
	if res.NewErr != "" {
		return nil
	}
	if res.Hang != "" {
		add("C12:group-hang", "%s", res.Hang)
		return fails
	}
	if res.Panic != "" {
		add("C12:group-panic", "%s", res.Panic)
	}
	if len(res.LifePanic) > 0 {
		add("C12:group-goroutine-panic", "recovered in one of sarama's goroutines: %s", strings.Join(res.LifePanic, " | "))
	}
	checkLifecycle(res.Events, add)

	type item struct {
		seq int
		ev  *HEvent
		rq  *sarama.VerifSimGroupReq
	}
	var items []item
	for i := range res.Events {
		items = append(items, item{seq: res.Events[i].Seq, ev: &res.Events[i]})
	}
	for i := range res.Reqs {
		items = append(items, item{seq: res.Reqs[i].Seq, rq: &res.Reqs[i]})
	}
	sort.Slice(items, func(i, j int) bool { return items[i].seq < items[j].seq })

	type mst struct {
		curMember    string
		curGen       int32
		fenced       bool
		assigned     map[string][]int32
		sessionStore map[int32]int64
	}
	ms := map[int]*mst{}
	get := func(w int) *mst {
		if ms[w] == nil {
			ms[w] = &mst{curGen: -1, sessionStore: map[int32]int64{}}
		}
		return ms[w]
	}
	store := map[int32]int64{}
	for p := int32(0); p < sc.Partitions; p++ {
		store[p] = -1
		if sc.Stored[p] >= 0 {
			store[p] = sc.Stored[p]
		}
	}
	claimedInGen := map[string]int{} // "gen/partition" -> session
	sessGen := map[int]int32{}
	for _, it := range items {
		if it.rq != nil {
			r := it.rq
			w := whoOfClient(r.ClientID)
			if w < 0 {
				continue
			}
			m := get(w)
			switch r.Kind {
			case "join":
				if m.fenced && r.MemberID != "" {
					add("C07:fenced-member-rejoined-with-old-identity", "member %d: join after UnknownMemberId/IllegalGeneration carries member id %q", w, r.MemberID)
				}
				if r.MemberID != "" && r.MemberID != m.curMember && !m.fenced {
					add("C07:join-with-foreign-member-id", "member %d: join carries member id %q, the coordinator last issued it %q", w, r.MemberID, m.curMember)
				}
				m.fenced = false
				if r.Verdict == sarama.ErrNoError && !r.Dropped {
					m.curMember, m.curGen = r.IssuedMember, r.IssuedGen
				}
				if r.Verdict == sarama.ErrUnknownMemberId || r.Verdict == sarama.ErrIllegalGeneration {
					m.fenced = true
				}
			case "sync", "heartbeat":
				if r.MemberID != m.curMember || r.Generation != m.curGen {
					add("C07:request-with-wrong-identity", "member %d: %s carries (%q, %d), the coordinator issued (%q, %d)", w, r.Kind, r.MemberID, r.Generation, m.curMember, m.curGen)
				}
				if r.Kind == "sync" {
					if r.Verdict == sarama.ErrUnknownMemberId || r.Verdict == sarama.ErrIllegalGeneration {
						m.fenced = true
					}
					if r.Verdict == sarama.ErrNoError && !r.Dropped {
						m.assigned = r.Assigned
						for p, o := range store {
							m.sessionStore[p] = o
						}
					}
				}
			case "commit":
				if r.MemberID != m.curMember || r.Generation != m.curGen {
					add("C07:request-with-wrong-identity", "member %d: commit carries (%q, %d), the coordinator issued (%q, %d)", w, r.MemberID, r.Generation, m.curMember, m.curGen)
				}
				if r.Verdict == sarama.ErrNoError && !r.Dropped {
					for k, o := range r.Offsets {
						var p int32
						fmt.Sscanf(k, "t/%d", &p)
						store[p] = o
					}
				}
			}
			continue
		}
		e := it.ev
		w := e.Session / 100
		m := get(w)
		switch e.Kind {
		case "setup":
			sessGen[e.Session] = e.Gen
			if e.Member != m.curMember || e.Gen != m.curGen {
				add("C07:session-identity-differs-from-join", "member %d session %d reports (%q, %d), the coordinator issued (%q, %d)", w, e.Session, e.Member, e.Gen, m.curMember, m.curGen)
			}
		case "claim-start":
			ok := false
			for _, p := range m.assigned["t"] {
				if p == e.P {
					ok = true
				}
			}
			if !ok {
				add("C07:claim-outside-assignment", "member %d session %d: ConsumeClaim for partition %d, assignment is %v", w, e.Session, e.P, m.assigned["t"])
			}
			k := fmt.Sprintf("%d/%d", e.Gen, e.P)
			if other, dup := claimedInGen[k]; dup && other != e.Session {
				add("C07:partition-claimed-twice-in-generation", "partition %d claimed in generation %d by sessions %d and %d", e.P, e.Gen, other, e.Session)
			}
			claimedInGen[k] = e.Session
			want := m.sessionStore[e.P]
			initial := sarama.OffsetNewest
			if sc.InitialOldest {
				initial = sarama.OffsetOldest
			}
			if want < 0 || want > int64(sc.LogLen[e.P]) {
				want = initial
			}
			if e.Off != want && e.Off != store[e.P] {
				add("C07:claim-start-offset", "member %d session %d partition %d: claim started at %d, committed offset was %d (now %d; log length %d, initial %d)", w, e.Session, e.P, e.Off, m.sessionStore[e.P], store[e.P], sc.LogLen[e.P], initial)
			}
		}
	}
	// nothing skipped per partition over all members' sessions
	delivered := map[int32][]int64{}
	evs := append([]HEvent(nil), res.Events...)
	sort.Slice(evs, func(i, j int) bool { return evs[i].Seq < evs[j].Seq })
	for _, e := range evs {
		if e.Kind == "msg" {
			delivered[e.P] = append(delivered[e.P], e.Off)
		}
	}
	for p, offs := range delivered {
		maxSeen := int64(-1)
		for _, o := range offs {
			if o > maxSeen+1 && maxSeen >= 0 {
				add("C07:record-skipped-across-sessions", "partition %d: offset %d delivered although %d was never delivered (first delivered %d)", p, o, maxSeen+1, offs[0])
				break
			}
			if o > maxSeen {
				maxSeen = o
			}
		}
	}
	return fails
}

// TraceLinesMulti renders, member by member, that member's own requests and callbacks for the Lean session model.
func TraceLinesMulti(res *MResult) []string {
	var lines []string
	for who := range res.Sc.Members {
		r1 := &Result{Sc: &Scenario{RetryMax: res.Sc.RetryMax}}
		for _, e := range res.Events {
			if e.Session/100 == who {
				r1.Events = append(r1.Events, e)
			}
		}
		for _, r := range res.Reqs {
			if whoOfClient(r.ClientID) == who {
				r1.Reqs = append(r1.Reqs, r)
			}
		}
		lines = append(lines, TraceLines(r1)...)
	}
	return lines
}

// TraceLinesWorld renders the whole scenario, interleaved as it happened, for the Lean world model: every request and
// callback tagged with its client, and after every successful sync the assignment the coordinator answered with.
func TraceLinesWorld(res *MResult) []string {
	type item struct {
		seq   int
		lines []string
	}
	var items []item
	for _, e := range res.Events {
		r1 := &Result{Sc: &Scenario{}, Events: []HEvent{e}}
		ls := TraceLines(r1)[1:]
		if len(ls) == 1 {
			items = append(items, item{e.Seq, []string{fmt.Sprintf("gw %d %s", e.Session/100, ls[0])}})
		}
	}
	for _, r := range res.Reqs {
		w := whoOfClient(r.ClientID)
		if w < 0 {
			continue
		}
		r1 := &Result{Sc: &Scenario{}, Reqs: []sarama.VerifSimGroupReq{r}}
		ls := TraceLines(r1)[1:]
		if len(ls) != 1 {
			continue
		}
		out := []string{fmt.Sprintf("gw %d %s", w, ls[0])}
		if r.Kind == "sync" && r.Verdict == sarama.ErrNoError && !r.Dropped {
			ps := "-"
			if len(r.Assigned["t"]) > 0 {
				ps = hlib.Ints32(r.Assigned["t"])
			}
			out = append(out, fmt.Sprintf("gw %d plan %s", w, ps))
		}
		items = append(items, item{r.Seq, out})
	}
	sort.SliceStable(items, func(i, j int) bool { return items[i].seq < items[j].seq })
	lines := []string{"gw reset"}
	for _, it := range items {
		lines = append(lines, it.lines...)
	}
	return lines
}

const RuleMulti = "multi-member group scenario = f(seed): 2-3 real members with start delays 0-150 ms and life times 150-600 ms, each looping Consume until its life time ends, then Close; 1-5 partitions with logs 0-12, pre-set committed offsets; coordinator = join barrier + held syncs + rebalance on join/leave/expiry, fault script on join/sync/heartbeat/commit"

// RunAllMulti runs n multi-member scenarios (seeds derived from the run seed).
func RunAllMulti(run *hlib.Run, sigPrefixes []string, n int) {
	var seeds []uint64
	if lines := run.ReplayLines(); lines != nil {
		for _, l := range lines {
			t := strings.Fields(l)
			if len(t) >= 2 && t[0] == "gm" {
				s, _ := strconv.ParseUint(t[1], 10, 64)
				for k := 0; k < 10; k++ {
					seeds = append(seeds, s)
				}
			}
		}
	} else {
		for i := 0; i < n; i++ {
			seeds = append(seeds, run.Seed*1000003+900000+uint64(i))
		}
	}
	hangs := 0
	for idx, s := range seeds {
		if !run.Mine(idx) {
			continue
		}
		if hangs >= 6 {
			run.Count("skipped-after-repeated-hangs")
			continue
		}
		sc := GenMulti(s)
		life.Breadcrumb(run.OutDir, "gm "+strconv.FormatUint(s, 10))
		res := RunMulti(sc)
		life.Breadcrumb(run.OutDir, "")
		desc := "gm " + strconv.FormatUint(s, 10) + " # " + sc.String()
		if res.Hang != "" {
			hangs++
		}
		if res.NewErr != "" {
			run.Count("multi-group-not-created")
			run.Case(desc + " => " + res.NewErr)
			continue
		}
		run.Case(desc)
		run.Count("multi-scenarios")
		setups, gens, expelled := 0, map[int32]bool{}, 0
		sharedGen := map[int32]map[int]bool{}
		for _, e := range res.Events {
			if e.Kind == "setup" {
				setups++
				gens[e.Gen] = true
				if sharedGen[e.Gen] == nil {
					sharedGen[e.Gen] = map[int]bool{}
				}
				sharedGen[e.Gen][e.Session/100] = true
			}
		}
		for _, r := range res.Reqs {
			if r.Kind == "expelled" {
				expelled++
			}
		}
		both := 0
		for _, m := range sharedGen {
			if len(m) >= 2 {
				both++
			}
		}
		if setups > 12 {
			setups = 12
		}
		run.Count(fmt.Sprintf("multi-sessions-with-setup=%d", setups))
		if both > 0 {
			run.Count("multi-generation-shared-by-several-members")
			run.Nontrivial(fmt.Sprintf("multi|%d|%s|%d|%v", len(sc.Members), sc.Strategy, sc.Partitions, sc.AutoCommit))
		}
		if expelled > 0 {
			run.Count("multi-member-expelled")
		}
		run.Emit("scmark gm "+strconv.FormatUint(s, 10), "ok")
		for _, l := range TraceLinesMulti(res) {
			run.Emit(l, "ok")
		}
		for _, l := range TraceLinesWorld(res) {
			run.Emit(l, "ok")
		}
		for _, f := range CheckMulti(res) {
			mine := false
			for _, p := range sigPrefixes {
				if strings.HasPrefix(f.Sig, p) {
					mine = true
				}
			}
			if mine {
				run.IOFail(f.Sig, "gm "+strconv.FormatUint(s, 10), f.Detail+" | "+sc.String())
			} else {
				run.Count("other-property-oracle:" + f.Sig)
			}
		}
	}
}
