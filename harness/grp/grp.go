// Package grp: end-to-end scenarios of the real ConsumerGroup against the simulated cluster's group coordinator:
// successive sessions of one real member (plus scripted ghost members in the join response), coordinator fault
// scripts per request kind, handler behaviours (drain / return early / mark a prefix), context cancellation and
// Close at arbitrary moments.  Oracles of C07 (session life-cycle, claim start offsets, identity carried by every
// request, fresh identity after fencing, nothing skipped across sessions) and C12 (Consume/Close complete).
package grp

import (
	"context"
	"fmt"
	"sort"
	"strings"
	"sync"
	"time"

	"github.com/Shopify/sarama"
	"verif/harness/hlib"
	"verif/harness/life"
)

type Scenario struct {
	Seed             uint64
	Focus            string
	Brokers          int
	Partitions       int32
	LogLen           []int
	Stored           []int64 // pre-set committed offset per partition (-1 none; may be out of range)
	Ghosts           int
	Strategy         string
	InitialOldest    bool
	AutoCommit       bool
	RetryMax         int
	Version          sarama.KafkaVersion
	Script           map[string]map[int]sarama.KError // kind -> n -> verdict (KError(-2) = drop the connection)
	Sessions         int
	Behaviour        []string              // per session: drain | early | prefix
	EarlyAfter       []int                 // per session: messages after which an "early" claim returns / a "prefix" claim stops marking
	CancelAfterMs    []int                 // per session: cancel the context after this many ms (0 = when all claims are idle)
	CloseInSession   int                   // call group.Close() during this session instead of cancelling (-1 never)
	Retention        int                   // Consumer.Offsets.Retention in hours (0 = unset)
	OffsetFaultAt    map[int]sarama.KError // n-th ListOffsets request -> error code (claim creation fails)
	FinalCommitFault bool                  // no periodic commits; the one commit of the first session (the final one) is answered with a retriable error once
	CleanupMarks     bool                  // the handler marks, in Cleanup, everything its claims were delivered (documented use of Cleanup)
	Follower         bool                  // another member leads the group; this member gets FollowerParts
	FollowerParts    []int32
	GrowBy           int // the topic gains this many partitions between the first and the second Consume call (LogLen / Stored hold their entries too)
}

type HEvent struct {
	Seq       int
	Session   int
	Kind      string // setup | claim-start | msg | claim-end | cleanup | return
	P         int32
	Off       int64
	Member    string
	Gen       int32
	Err       string
	T         int64 // ms since the scenario started
	ByHarness bool  // return events: the harness ended the session (cancel / Close), it did not end by itself
}

type Result struct {
	Sc         *Scenario
	Events     []HEvent
	Reqs       []sarama.VerifSimGroupReq
	NewErr     string
	Hang       string
	Panic      string
	Errors     []string
	Logs       map[int32]int
	StoreEnd   map[int32]int64
	Life       []string // lifecycle hook events (C12 only)
	LifePanic  []string // panics recovered in sarama's own goroutines (C12 only)
	GrownAtSeq int      // coordinator sequence number at which the topic grew (0 = it did not)
}

var codes = []sarama.KError{sarama.ErrRebalanceInProgress, sarama.ErrUnknownMemberId, sarama.ErrIllegalGeneration,
	sarama.ErrNotCoordinatorForConsumer, sarama.KError(-2)}

func Gen(seed uint64, focus string) *Scenario {
	r := hlib.NewRand(seed)
	sc := &Scenario{Seed: seed, Focus: focus, CloseInSession: -1}
	sc.Brokers = r.Range(1, 2)
	sc.Partitions = int32(r.Range(1, 3))
	for p := int32(0); p < sc.Partitions; p++ {
		n := r.Range(0, 14)
		sc.LogLen = append(sc.LogLen, n)
		switch r.Intn(4) {
		case 0:
			sc.Stored = append(sc.Stored, -1)
		case 1:
			sc.Stored = append(sc.Stored, int64(n+r.Range(1, 5))) // out of range
		default:
			sc.Stored = append(sc.Stored, int64(r.Range(0, n)))
		}
	}
	sc.Ghosts = r.Pick(0, 0, 1, 2)
	sc.Strategy = []string{"range", "roundrobin", "sticky"}[r.Intn(3)]
	sc.InitialOldest = r.Chance(2, 3)
	sc.AutoCommit = r.Chance(3, 4)
	sc.RetryMax = r.Pick(0, 1, 2, 4)
	versions := []sarama.KafkaVersion{sarama.V0_10_2_0, sarama.V0_11_0_0, sarama.V1_0_0_0, sarama.V2_1_0_0, sarama.V2_8_0_0}
	sc.Version = versions[r.Intn(len(versions))]
	sc.Script = map[string]map[int]sarama.KError{}
	nf := r.Pick(0, 1, 2, 3, 4)
	kinds := []string{"join", "sync", "heartbeat", "heartbeat", "commit", "findcoord", "offsetfetch"}
	for i := 0; i < nf; i++ {
		k := kinds[r.Intn(len(kinds))]
		if sc.Script[k] == nil {
			sc.Script[k] = map[int]sarama.KError{}
		}
		c := codes[r.Intn(len(codes))]
		if k == "commit" && r.Bool() {
			c = sarama.ErrRequestTimedOut
		}
		if k == "offsetfetch" || k == "findcoord" {
			c = []sarama.KError{sarama.ErrNotCoordinatorForConsumer, sarama.KError(-2), sarama.ErrOffsetsLoadInProgress}[r.Intn(3)]
		}
		sc.Script[k][r.Range(1, 6)] = c
	}
	sc.Sessions = r.Range(1, 4)
	for i := 0; i < sc.Sessions; i++ {
		sc.Behaviour = append(sc.Behaviour, []string{"drain", "drain", "early", "prefix"}[r.Intn(4)])
		sc.EarlyAfter = append(sc.EarlyAfter, r.Range(0, 5))
		sc.CancelAfterMs = append(sc.CancelAfterMs, r.Pick(0, 0, 2, 5, 15))
	}
	if r.Chance(1, 4) {
		sc.CloseInSession = r.Intn(sc.Sessions)
	}
	if r.Chance(1, 4) {
		sc.Retention = r.Pick(1, 24)
	}
	if r.Chance(1, 6) {
		// creating a claim fails: the partition leader answers the offset look-up of ConsumePartition with an error
		// (client.GetOffset retries once after a metadata refresh: two requests in a row are answered with the error)
		at := r.Range(1, 4)
		code := []sarama.KError{sarama.ErrNotLeaderForPartition, sarama.ErrLeaderNotAvailable, sarama.ErrUnknown}[r.Intn(3)]
		sc.OffsetFaultAt = map[int]sarama.KError{at: code, at + 1: code}
		if r.Bool() {
			sc.CancelAfterMs[0] = 0
		}
	}
	sc.CleanupMarks = r.Chance(1, 3) // claims only collect; everything delivered is marked in Cleanup
	if sc.CleanupMarks && r.Bool() {
		sc.Script = map[string]map[int]sarama.KError{}
	}
	if r.Chance(1, 8) {
		// the final commit of the first session gets a retriable verdict once; the next attempt is accepted: what was
		// marked must be committed when Consume returns
		sc.FinalCommitFault = true
		sc.AutoCommit = true
		sc.CleanupMarks = true
		sc.OffsetFaultAt = nil
		sc.Ghosts = 0
		sc.CloseInSession = -1
		sc.Behaviour[0], sc.CancelAfterMs[0] = "drain", 0
		code := []sarama.KError{sarama.ErrNotCoordinatorForConsumer, sarama.ErrOffsetsLoadInProgress, sarama.ErrRequestTimedOut}[r.Intn(3)]
		sc.Script = map[string]map[int]sarama.KError{"commit": {1: code}}
		return sc
	}
	if r.Chance(1, 4) {
		sc.Follower = true
		for p := int32(0); p < sc.Partitions; p++ {
			if r.Chance(1, 3) {
				sc.FollowerParts = append(sc.FollowerParts, p)
			}
		}
	}
	// the subscribed topic grows between two Consume calls (own PRNG: the other choices of the scenario are unchanged)
	// (focus C08 only: the end-to-end stream of the C08 check; the C07 / C12 scenario streams are as they were)
	if g := hlib.NewRand(seed ^ 0x67726f777468); focus == "C08" {
		sc.Follower, sc.FollowerParts, sc.Ghosts, sc.CloseInSession = false, nil, 0, -1
		for sc.Sessions < 3 {
			sc.Sessions++
			sc.Behaviour = append(sc.Behaviour, "drain")
			sc.EarlyAfter = append(sc.EarlyAfter, 0)
			sc.CancelAfterMs = append(sc.CancelAfterMs, g.Pick(0, 5, 15))
		}
		sc.GrowBy = g.Range(1, 3)
		for i := 0; i < sc.GrowBy; i++ {
			sc.LogLen = append(sc.LogLen, g.Range(0, 6))
			sc.Stored = append(sc.Stored, -1)
		}
	}
	return sc
}

// clean: nothing scripted can end the first session or keep a claim from starting, and the one real member is assigned
// every partition: the first session must give every partition a claim and deliver everything visible from its start offset
func (sc *Scenario) clean() bool {
	return len(sc.Script) == 0 && len(sc.OffsetFaultAt) == 0 && sc.Ghosts == 0 && !sc.Follower && sc.CloseInSession != 0 &&
		len(sc.Behaviour) > 0 && sc.Behaviour[0] != "early" && sc.CancelAfterMs[0] == 0
}

// effective start offset of a partition in the first session
func (sc *Scenario) firstStart(p int32) int64 {
	st := sc.Stored[p]
	if st < 0 || st > int64(sc.LogLen[p]) {
		if sc.InitialOldest {
			return 0
		}
		return int64(sc.LogLen[p])
	}
	return st
}

func (sc *Scenario) expectedFirstSession() int {
	n := 0
	for p := int32(0); p < sc.Partitions; p++ {
		n += sc.LogLen[p] - int(sc.firstStart(p))
	}
	return n
}

func (sc *Scenario) String() string {
	var fs []string
	var ks []string
	for k := range sc.Script {
		ks = append(ks, k)
	}
	sort.Strings(ks)
	for _, k := range ks {
		var ns []int
		for n := range sc.Script[k] {
			ns = append(ns, n)
		}
		sort.Ints(ns)
		for _, n := range ns {
			fs = append(fs, fmt.Sprintf("%s#%d=%d", k, n, int(sc.Script[k][n])))
		}
	}
	return fmt.Sprintf("seed=%d brokers=%d parts=%d log=%v stored=%v ghosts=%d strat=%s oldest=%v auto=%v retry=%d ver=%s script=[%s] sessions=%d beh=%v early=%v cancel=%v closeIn=%d",
		sc.Seed, sc.Brokers, sc.Partitions, sc.LogLen, sc.Stored, sc.Ghosts, sc.Strategy, sc.InitialOldest, sc.AutoCommit, sc.RetryMax, sc.Version,
		strings.Join(fs, ","), sc.Sessions, sc.Behaviour, sc.EarlyAfter, sc.CancelAfterMs, sc.CloseInSession) + fmt.Sprintf(" retention=%dh follower=%v/%v cleanupMarks=%v offsetFault=%v finalCommitFault=%v", sc.Retention, sc.Follower, sc.FollowerParts, sc.CleanupMarks, sc.OffsetFaultAt, sc.FinalCommitFault) + fmt.Sprintf(" growBy=%d", sc.GrowBy)
}

type handler struct {
	res          *Result
	sim          *sarama.VerifSim
	mu           *sync.Mutex
	session      int
	beh          string
	early        int
	idle         chan struct{} // closed when every started claim has seen all currently available messages
	sc           *Scenario
	started      int
	idleCnt      int
	maxDelivered map[int32]int64
}

func (h *handler) delivered(p int32, off int64) {
	h.mu.Lock()
	if h.maxDelivered == nil {
		h.maxDelivered = map[int32]int64{}
	}
	if cur, ok := h.maxDelivered[p]; !ok || off > cur {
		h.maxDelivered[p] = off
	}
	h.mu.Unlock()
}

var t0 = time.Now()

func (h *handler) ev(e HEvent) {
	e.Seq = h.sim.GroupSeq()
	e.T = time.Since(t0).Milliseconds()
	e.Session = h.session
	h.mu.Lock()
	h.res.Events = append(h.res.Events, e)
	h.mu.Unlock()
}

func (h *handler) Setup(s sarama.ConsumerGroupSession) error {
	h.ev(HEvent{Kind: "setup", Member: s.MemberID(), Gen: s.GenerationID()})
	return nil
}
func (h *handler) Cleanup(s sarama.ConsumerGroupSession) error {
	h.ev(HEvent{Kind: "cleanup", Member: s.MemberID(), Gen: s.GenerationID()})
	if h.sc != nil && h.sc.CleanupMarks {
		h.mu.Lock()
		md := map[int32]int64{}
		for p, o := range h.maxDelivered {
			md[p] = o
		}
		h.mu.Unlock()
		for p, o := range md {
			s.MarkOffset("t", p, o+1, "cleanup")
			h.ev(HEvent{Kind: "cleanup-mark", P: p, Off: o + 1})
		}
	}
	return nil
}
func (h *handler) ConsumeClaim(s sarama.ConsumerGroupSession, c sarama.ConsumerGroupClaim) error {
	h.ev(HEvent{Kind: "claim-start", P: c.Partition(), Off: c.InitialOffset(), Member: s.MemberID(), Gen: s.GenerationID()})
	defer h.ev(HEvent{Kind: "claim-end", P: c.Partition()})
	n := 0
	for {
		select {
		case m, ok := <-c.Messages():
			if !ok {
				return nil
			}
			h.ev(HEvent{Kind: "msg", P: m.Partition, Off: m.Offset})
			h.delivered(m.Partition, m.Offset)
			n++
			if !(h.beh == "prefix" && n > h.early) && !(h.sc != nil && h.sc.CleanupMarks) {
				s.MarkMessage(m, fmt.Sprintf("s%d", h.session))
			}
			if h.beh == "early" && n >= h.early {
				return nil
			}
		case <-time.After(30 * time.Millisecond):
			// nothing more for now: tell the driver this claim is idle (once), keep waiting for the session to end
			h.mu.Lock()
			h.idleCnt++
			h.mu.Unlock()
			select {
			case m, ok := <-c.Messages():
				if !ok {
					return nil
				}
				h.ev(HEvent{Kind: "msg", P: m.Partition, Off: m.Offset})
				h.delivered(m.Partition, m.Offset)
				if !(h.sc != nil && h.sc.CleanupMarks) {
					s.MarkMessage(m, fmt.Sprintf("s%d", h.session))
				}
			case <-s.Context().Done():
				for range c.Messages() {
				}
				return nil
			}
		}
	}
}

func Run(sc *Scenario) *Result {
	res := &Result{Sc: sc, Logs: map[int32]int{}, StoreEnd: map[int32]int64{}}
	sim := sarama.VerifNewSim(sc.Brokers, map[string]int32{"t": sc.Partitions})
	defer sim.Close()
	sim.FetchMaxRecords = 3
	for p := int32(0); p < sc.Partitions; p++ {
		for i := 0; i < sc.LogLen[p]; i++ {
			sim.AppendRaw("t", p, []byte(fmt.Sprintf("k%d", i)), []byte(fmt.Sprintf("v%d.%d", p, i)), nil, time.Unix(1600000000+int64(i), 0))
		}
		res.Logs[p] = sc.LogLen[p]
		if sc.Stored[p] >= 0 {
			sim.SetGroupStore("g", "t", p, sc.Stored[p])
		}
	}
	sim.GroupGhosts = sc.Ghosts
	sim.GroupFollower, sim.GroupFollowerTopic, sim.GroupFollowerParts = sc.Follower, "t", sc.FollowerParts
	sim.GroupScript = func(kind string, n int) sarama.KError {
		if m, ok := sc.Script[kind]; ok {
			if v, ok := m[n]; ok {
				return v
			}
		}
		return sarama.ErrNoError
	}
	if len(sc.OffsetFaultAt) > 0 {
		sim.OffsetFault = func(n int) sarama.KError { return sc.OffsetFaultAt[n] }
	}
	cfg := sarama.NewConfig()
	cfg.Version = sc.Version
	cfg.Consumer.Return.Errors = true
	cfg.Consumer.Offsets.Initial = sarama.OffsetNewest
	if sc.InitialOldest {
		cfg.Consumer.Offsets.Initial = sarama.OffsetOldest
	}
	cfg.Consumer.Offsets.AutoCommit.Enable = sc.AutoCommit
	cfg.Consumer.Offsets.AutoCommit.Interval = 4 * time.Millisecond
	if sc.FinalCommitFault {
		cfg.Consumer.Offsets.AutoCommit.Interval = 20 * time.Second // only the final commit of a session is sent
	}
	cfg.Consumer.Offsets.Retry.Max = 2
	cfg.Consumer.Offsets.Retention = time.Duration(sc.Retention) * time.Hour
	cfg.Consumer.Group.Heartbeat.Interval = 3 * time.Millisecond
	cfg.Consumer.Group.Session.Timeout = 100 * time.Millisecond
	cfg.Consumer.Group.Rebalance.Timeout = 200 * time.Millisecond
	cfg.Consumer.Group.Rebalance.Retry.Max = sc.RetryMax
	cfg.Consumer.Group.Rebalance.Retry.Backoff = time.Millisecond
	cfg.Consumer.MaxWaitTime = 5 * time.Millisecond
	cfg.Consumer.Retry.Backoff = time.Millisecond
	cfg.Metadata.Retry.Max = 1
	cfg.Metadata.Retry.Backoff = time.Millisecond
	cfg.Net.ReadTimeout = 200 * time.Millisecond
	cfg.Net.DialTimeout = 500 * time.Millisecond
	switch sc.Strategy {
	case "range":
		cfg.Consumer.Group.Rebalance.Strategy = sarama.BalanceStrategyRange
	case "roundrobin":
		cfg.Consumer.Group.Rebalance.Strategy = sarama.BalanceStrategyRoundRobin
	default:
		cfg.Consumer.Group.Rebalance.Strategy = sarama.BalanceStrategySticky
	}
	if err := cfg.Validate(); err != nil {
		res.NewErr = "config: " + err.Error()
		return res
	}
	if rec := life.Begin(fmt.Sprintf("gs:%d", sc.Seed)); rec != nil {
		sarama.VerifSinkKV = rec.Event
		defer func() {
			res.Life, res.LifePanic = rec.End()
			sarama.VerifSinkKV = nil
		}()
	}
	g, err := sarama.NewConsumerGroup(sim.Addrs(), "g", cfg)
	if err != nil {
		res.NewErr = err.Error()
		return res
	}
	var mu sync.Mutex
	go func() {
		for e := range g.Errors() {
			mu.Lock()
			res.Errors = append(res.Errors, e.Error())
			mu.Unlock()
		}
	}()
	closed := false
	for sNo := 0; sNo < sc.Sessions && !closed; sNo++ {
		h := &handler{res: res, sim: sim, mu: &mu, session: sNo, beh: sc.Behaviour[sNo], early: sc.EarlyAfter[sNo], sc: sc}
		ctx, cancel := context.WithCancel(context.Background())
		done := make(chan error, 1)
		go func() {
			defer func() {
				if r := recover(); r != nil {
					done <- fmt.Errorf("panic: %v", r)
				}
			}()
			done <- g.Consume(ctx, []string{"t"}, h)
		}()
		// end the session: after CancelAfterMs, or when every claim has gone idle (bounded)
		wait := time.Duration(sc.CancelAfterMs[sNo]) * time.Millisecond
		if wait == 0 {
			wait = 400 * time.Millisecond
		}
		var cerr error
		finished := false
		if sc.clean() && sNo == 0 {
			// a fault-free first session is given up to 2 s, and is ended as soon as everything visible was delivered
			deadline := time.After(2 * time.Second)
		poll:
			for {
				select {
				case cerr = <-done:
					finished = true
					break poll
				case <-deadline:
					break poll
				case <-time.After(10 * time.Millisecond):
					mu.Lock()
					n := 0
					for _, e := range res.Events {
						if e.Kind == "msg" {
							n++
						}
					}
					mu.Unlock()
					if n >= sc.expectedFirstSession() {
						time.Sleep(40 * time.Millisecond)
						break poll
					}
				}
			}
		} else {
			select {
			case cerr = <-done:
				finished = true
			case <-time.After(wait):
			}
		}
		if !finished {
			if sc.CloseInSession == sNo {
				cdone := make(chan error, 1)
				go func() { cdone <- g.Close() }()
				select {
				case <-cdone:
				case <-time.After(8 * time.Second):
					res.Hang = fmt.Sprintf("Close during session %d did not return within 8s", sNo)
					cancel()
					return res
				}
				closed = true
			} else {
				cancel()
			}
			select {
			case cerr = <-done:
			case <-time.After(8 * time.Second):
				res.Hang = fmt.Sprintf("Consume of session %d did not return within 8s after cancel/close", sNo)
				cancel()
				return res
			}
		}
		cancel()
		e := HEvent{Kind: "return", Session: sNo, ByHarness: !finished, T: time.Since(t0).Milliseconds()}
		if cerr != nil {
			e.Err = cerr.Error()
			if strings.HasPrefix(e.Err, "panic:") {
				res.Panic = e.Err
			}
		}
		e.Seq = sim.GroupSeq()
		mu.Lock()
		res.Events = append(res.Events, e)
		mu.Unlock()
		if sNo == 0 && sc.GrowBy > 0 {
			// no Consume call is running: the next one refreshes the metadata of its topics before it joins
			sim.AddPartitions("t", sc.GrowBy)
			for p := sc.Partitions; p < sc.Partitions+int32(sc.GrowBy); p++ {
				for i := 0; i < sc.LogLen[p]; i++ {
					sim.AppendRaw("t", p, []byte(fmt.Sprintf("k%d", i)), []byte(fmt.Sprintf("v%d.%d", p, i)), nil, time.Unix(1600000000+int64(i), 0))
				}
				res.Logs[p] = sc.LogLen[p]
			}
			mu.Lock()
			res.GrownAtSeq = sim.GroupSeq()
			mu.Unlock()
		}
	}
	if !closed {
		cdone := make(chan error, 1)
		go func() { cdone <- g.Close() }()
		select {
		case <-cdone:
		case <-time.After(8 * time.Second):
			res.Hang = "final Close did not return within 8s"
			return res
		}
	}
	// closing twice is harmless
	func() {
		defer func() {
			if r := recover(); r != nil {
				res.Panic = fmt.Sprint("second Close panicked: ", r)
			}
		}()
		_ = g.Close()
	}()
	res.Reqs = sim.GroupRequests()
	for p := int32(0); p < sc.Partitions; p++ {
		o, _ := sim.GroupStore("g", "t", p)
		res.StoreEnd[p] = o
	}
	return res
}

// checkLifecycle: per session, Setup once, claims between Setup and Cleanup, at most one claim per partition,
// Cleanup once after every claim returned, Consume returns after Cleanup.
func checkLifecycle(events []HEvent, add func(sig, format string, a ...interface{})) {
	bySession := map[int][]HEvent{}
	for _, e := range events {
		bySession[e.Session] = append(bySession[e.Session], e)
	}
	for sNo, evs := range bySession {
		sort.Slice(evs, func(i, j int) bool { return evs[i].Seq < evs[j].Seq })
		setups, cleanups := 0, 0
		started := map[int32]int{}
		ended := map[int32]int{}
		cleanupSeq, returnSeq, setupSeq := -1, -1, -1
		for _, e := range evs {
			switch e.Kind {
			case "setup":
				setups++
				setupSeq = e.Seq
			case "cleanup":
				cleanups++
				cleanupSeq = e.Seq
				for p, n := range started {
					if ended[p] < n {
						add("C07:cleanup-before-claim-returned", "session %d: Cleanup ran while ConsumeClaim of partition %d had not returned", sNo, p)
					}
				}
			case "claim-start":
				started[e.P]++
				if setups == 0 {
					add("C07:claim-before-setup", "session %d: ConsumeClaim(partition %d) started before Setup", sNo, e.P)
				}
				if cleanups > 0 {
					add("C07:claim-after-cleanup", "session %d: ConsumeClaim(partition %d) started after Cleanup", sNo, e.P)
				}
			case "claim-end":
				ended[e.P]++
			case "return":
				returnSeq = e.Seq
			}
		}
		_ = setupSeq
		if setups > 1 {
			add("C07:setup-twice", "session %d: Setup ran %d times", sNo, setups)
		}
		if cleanups > 1 {
			add("C07:cleanup-twice", "session %d: Cleanup ran %d times", sNo, cleanups)
		}
		if setups == 1 && cleanups == 0 && returnSeq >= 0 {
			add("C07:no-cleanup", "session %d: Setup ran but Consume returned without Cleanup", sNo)
		}
		for p, n := range started {
			if n > 1 {
				add("C07:claim-twice", "session %d: ConsumeClaim started %d times for partition %d", sNo, n, p)
			}
		}
		if cleanupSeq >= 0 && returnSeq >= 0 && returnSeq < cleanupSeq {
			add("C07:return-before-cleanup", "session %d: Consume returned before Cleanup", sNo)
		}
	}
}

type Fail struct{ Sig, Detail string }

// Check evaluates the C07 / C12 oracles.
func Check(res *Result) []Fail {
	var fails []Fail
	add := func(sig, format string, a ...interface{}) {
		fails = append(fails, Fail{sig, fmt.Sprintf(format, a...)})
	}
	sc := res.Sc
	if res.NewErr != "" {
		return nil
	}
	if res.Hang != "" {
		add("C12:group-hang", "%s", res.Hang)
		return fails
	}
	if res.Panic != "" {
		add("C12:group-panic", "%s", res.Panic)
	}
	if len(res.LifePanic) > 0 {
		add("C12:group-goroutine-panic", "recovered in one of sarama's goroutines: %s", strings.Join(res.LifePanic, " | "))
	}
	// merge handler events and coordinator requests into one sequence
	type item struct {
		seq int
		ev  *HEvent
		rq  *sarama.VerifSimGroupReq
	}
	var items []item
	for i := range res.Events {
		items = append(items, item{seq: res.Events[i].Seq, ev: &res.Events[i]})
	}
	for i := range res.Reqs {
		items = append(items, item{seq: res.Reqs[i].Seq, rq: &res.Reqs[i]})
	}
	sort.Slice(items, func(i, j int) bool { return items[i].seq < items[j].seq })

	checkLifecycle(res.Events, add)
	// identity carried; fresh identity after fencing; claims within assignment; claim start offset; final commit after cleanup
	curMember, curGen := "", int32(-1)
	fenced := false
	var assigned map[string][]int32
	store := map[int32]int64{}
	for p := int32(0); int(p) < len(sc.Stored); p++ {
		store[p] = -1
		if sc.Stored[p] >= 0 {
			store[p] = sc.Stored[p]
		}
	}
	sessionStore := map[int32]int64{} // store as of the last successful sync (what the session's offset manager fetched at the latest)
	lastCleanupSeq := -1
	cleanupMarks := map[int32]int64{}
	commitsAfterCleanup := 0
	marked := false
	for _, it := range items {
		if it.rq != nil {
			r := it.rq
			switch r.Kind {
			case "join":
				if fenced && r.MemberID != "" {
					add("C07:fenced-member-rejoined-with-old-identity", "join after UnknownMemberId/IllegalGeneration carries member id %q", r.MemberID)
				}
				if r.MemberID != "" && r.MemberID != curMember && !fenced {
					add("C07:join-with-foreign-member-id", "join carries member id %q, the coordinator last issued %q", r.MemberID, curMember)
				}
				fenced = false
				if r.Verdict == sarama.ErrNoError && !r.Dropped {
					curMember, curGen = r.IssuedMember, r.IssuedGen
				}
				if r.Verdict == sarama.ErrUnknownMemberId || r.Verdict == sarama.ErrIllegalGeneration {
					fenced = true
				}
			case "sync", "heartbeat":
				if r.MemberID != curMember || r.Generation != curGen {
					add("C07:request-with-wrong-identity", "%s carries (%q, %d), the coordinator issued (%q, %d)", r.Kind, r.MemberID, r.Generation, curMember, curGen)
				}
				if r.Kind == "sync" {
					if r.Verdict == sarama.ErrUnknownMemberId || r.Verdict == sarama.ErrIllegalGeneration {
						fenced = true
					}
					if r.Verdict == sarama.ErrNoError && !r.Dropped {
						assigned = r.Assigned
						if res.GrownAtSeq > 0 && r.Seq > res.GrownAtSeq && sc.Ghosts == 0 && !sc.Follower {
							// the topic grew while no Consume call was running; this generation was joined by a Consume call
							// that refreshed the topic's metadata first: the plan of the only member holds every partition
							have := map[int32]bool{}
							for _, p := range r.Assigned["t"] {
								have[p] = true
							}
							for p := int32(0); p < sc.Partitions+int32(sc.GrowBy); p++ {
								if !have[p] {
									add("C08:plan-misses-partition-of-subscribed-topic", "generation %d (joined after the topic grew from %d to %d partitions): the leader's plan gives its only member %v, partition %d is assigned to nobody", r.Generation, sc.Partitions, sc.Partitions+int32(sc.GrowBy), r.Assigned["t"], p)
									break
								}
							}
						}
						for p, o := range store {
							sessionStore[p] = o
						}
						lastCleanupSeq = -1
						commitsAfterCleanup = 0
						marked = false
					}
				}
			case "commit":
				if sc.Version.IsAtLeast(sarama.V0_9_0_0) && (r.MemberID != curMember || r.Generation != curGen) {
					add("C07:request-with-wrong-identity", "commit carries (%q, %d), the coordinator issued (%q, %d)", r.MemberID, r.Generation, curMember, curGen)
				}
				if r.Verdict == sarama.ErrNoError && !r.Dropped {
					for k, o := range r.Offsets {
						var p int32
						fmt.Sscanf(k, "t/%d", &p)
						store[p] = o
					}
				}
				if lastCleanupSeq >= 0 {
					commitsAfterCleanup++
				}
			}
			continue
		}
		e := it.ev
		switch e.Kind {
		case "setup":
			if e.Member != curMember || e.Gen != curGen {
				add("C07:session-identity-differs-from-join", "session %d reports (%q, %d), the coordinator issued (%q, %d)", e.Session, e.Member, e.Gen, curMember, curGen)
			}
		case "claim-start":
			ok := false
			for _, p := range assigned["t"] {
				if p == e.P {
					ok = true
				}
			}
			if !ok {
				add("C07:claim-outside-assignment", "session %d: ConsumeClaim for partition %d, assignment is %v", e.Session, e.P, assigned["t"])
			}
			// start offset: the committed offset known when the session started (or a later commit of this very member), else the initial position
			want := sessionStore[e.P]
			initial := sarama.OffsetNewest
			if sc.InitialOldest {
				initial = sarama.OffsetOldest
			}
			if want < 0 || want > int64(sc.LogLen[e.P]) {
				want = initial
			}
			if e.Off != want && e.Off != store[e.P] {
				add("C07:claim-start-offset", "session %d partition %d: claim started at %d, committed offset was %d (log length %d, initial %d)", e.Session, e.P, e.Off, sessionStore[e.P], sc.LogLen[e.P], initial)
			}
		case "msg":
			marked = true
		case "cleanup":
			lastCleanupSeq = e.Seq
		case "cleanup-mark":
			cleanupMarks[e.P] = e.Off
		case "return":
			_ = marked
			// "Cleanup once; then, with auto-commit on, a final commit of the marked offsets; only then does Consume return":
			// what the handler marked in Cleanup is in the coordinator's store when Consume returns (scenarios without
			// scripted coordinator faults, where nothing can make the final commit fail)
			if sc.AutoCommit && (len(sc.Script) == 0 || sc.FinalCommitFault) && e.Err == "" {
				for p, o := range cleanupMarks {
					if store[p] < o {
						add("C07:cleanup-mark-not-committed", "session %d: Cleanup marked partition %d at %d, the coordinator holds %d when Consume returns", e.Session, p, o, store[p])
					}
				}
			}
			cleanupMarks = map[int32]int64{}
		}
	}
	// every assigned partition gets its ConsumeClaim; a session that cannot give one ends
	{
		type sinfo struct {
			setupT, returnT  int64
			byHarness, setup bool
			claimed          map[int32]bool
		}
		ss := map[int]*sinfo{}
		get := func(n int) *sinfo {
			if ss[n] == nil {
				ss[n] = &sinfo{claimed: map[int32]bool{}}
			}
			return ss[n]
		}
		for _, e := range res.Events {
			si := get(e.Session)
			switch e.Kind {
			case "setup":
				si.setup, si.setupT = true, e.T
			case "claim-start":
				si.claimed[e.P] = true
			case "return":
				si.returnT, si.byHarness = e.T, e.ByHarness
			}
		}
		if !sc.Follower && sc.Ghosts == 0 {
			for n, si := range ss {
				if !si.setup || !si.byHarness || si.returnT-si.setupT < 300 {
					continue
				}
				// the session ran for at least 300 ms after Setup until the harness ended it: it was not "already ending"
				for p := int32(0); p < sc.Partitions; p++ {
					if !si.claimed[p] {
						add("C07:running-session-without-claim-for-assigned-partition", "session %d ran %d ms after Setup until the harness ended it; partition %d of its assignment never got a ConsumeClaim", n, si.returnT-si.setupT, p)
					}
				}
			}
		}
		if sc.clean() {
			got := map[int32]map[int64]bool{}
			for _, e := range res.Events {
				if e.Kind == "msg" && e.Session == 0 {
					if got[e.P] == nil {
						got[e.P] = map[int64]bool{}
					}
					got[e.P][e.Off] = true
				}
			}
			for p := int32(0); p < sc.Partitions; p++ {
				for o := sc.firstStart(p); o < int64(sc.LogLen[p]); o++ {
					if !got[p][o] {
						add("C07:assigned-partition-not-delivered", "fault-free first session: partition %d (committed %d, log length %d) starts at %d, offset %d was never delivered", p, sc.Stored[p], sc.LogLen[p], sc.firstStart(p), o)
						break
					}
				}
			}
		}
	}
	// nothing skipped across sessions: per partition the delivered offsets, in order of delivery, never jump forward over an undelivered offset
	type span struct{ lo, hi int64 }
	delivered := map[int32][]int64{}
	evs := append([]HEvent(nil), res.Events...)
	sort.Slice(evs, func(i, j int) bool { return evs[i].Seq < evs[j].Seq })
	firstStart := map[int32]int64{}
	for _, e := range evs {
		if e.Kind == "msg" {
			delivered[e.P] = append(delivered[e.P], e.Off)
		}
	}
	for p, offs := range delivered {
		seen := map[int64]bool{}
		maxSeen := int64(-1)
		first := offs[0]
		firstStart[p] = first
		for _, o := range offs {
			if o > maxSeen+1 && maxSeen >= 0 {
				add("C07:record-skipped-across-sessions", "partition %d: offset %d delivered although %d was never delivered (first delivered %d)", p, o, maxSeen+1, first)
				break
			}
			seen[o] = true
			if o > maxSeen {
				maxSeen = o
			}
		}
	}
	return fails
}
