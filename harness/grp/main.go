package grp

import (
	"fmt"
	"strconv"
	"strings"

	"verif/harness/hlib"
	"verif/harness/life"
)

const Rule = "group scenario = f(seed): 1-2 brokers, 1-3 partitions with logs 0-14, pre-set committed offsets (none / valid / out of range), 0-2 ghost members, range/roundrobin/sticky, initial oldest/newest, auto-commit on/off, Rebalance.Retry.Max 0-4, coordinator script per request kind (rebalance in progress, unknown member, illegal generation, not coordinator, connection loss, load in progress), 1-4 successive sessions with handler behaviours drain / return early / mark a prefix, context cancel after a delay or Close during a session. non-trivial = distinct (script kinds, behaviours, ghosts, strategy) with at least one session that ran Setup"

func RunAll(run *hlib.Run, prop string, sigPrefixes []string, n int) {
	if n == 0 {
		n = run.N
	}
	if n == 0 {
		n = 200
		if run.Tier == "thorough" {
			n = 4000
		}
	}
	var seeds []uint64
	if lines := run.ReplayLines(); lines != nil {
		for _, l := range lines {
			t := strings.Fields(l)
			s, ok := life.ReplaySeed(t, "gs")
			if len(t) >= 2 && t[0] == "gs" {
				s, _ = strconv.ParseUint(t[1], 10, 64)
				ok = true
			}
			if ok {
				for k := 0; k < 10; k++ {
					seeds = append(seeds, s)
				}
			}
		}
	} else {
		for i := 0; i < n; i++ {
			seeds = append(seeds, run.Seed*1000003+700000+uint64(i))
		}
	}
	hangs := 0
	for idx, s := range seeds {
		if !run.Mine(idx) {
			continue
		}
		if hangs >= 6 {
			run.Count("skipped-after-repeated-hangs") // every hang costs its 8 s bound; the violation is already recorded
			continue
		}
		sc := Gen(s, prop)
		life.Breadcrumb(run.OutDir, "gs "+strconv.FormatUint(s, 10))
		res := Run(sc)
		life.Breadcrumb(run.OutDir, "")
		desc := "gs " + strconv.FormatUint(s, 10) + " # " + sc.String()
		if res.Hang != "" {
			hangs++
		}
		if res.NewErr != "" {
			run.Count("group-not-created")
			run.Case(desc + " => " + res.NewErr)
			continue
		}
		run.Case(desc)
		setups := 0
		for _, e := range res.Events {
			if e.Kind == "setup" {
				setups++
			}
		}
		run.Count(fmt.Sprintf("sessions-with-setup=%d", setups))
		var ks []string
		for k, m := range sc.Script {
			for _, v := range m {
				ks = append(ks, fmt.Sprintf("%s=%d", k, int(v)))
				run.Count("script:" + k)
			}
		}
		if setups > 0 {
			run.Nontrivial(fmt.Sprintf("%v|%v|%d|%s|%v|%d", ks, sc.Behaviour, sc.Ghosts, sc.Strategy, sc.AutoCommit, sc.CloseInSession))
		}
		run.Emit("scmark gs "+strconv.FormatUint(s, 10), "ok")
		for _, l := range TraceLines(res) {
			run.Emit(l, "ok")
		}
		if res.Hang == "" {
			for _, l := range res.Life {
				run.Emit(l, "ok")
			}
		}
		for _, f := range Check(res) {
			mine := false
			for _, p := range sigPrefixes {
				if strings.HasPrefix(f.Sig, p) {
					mine = true
				}
			}
			if mine {
				run.IOFail(f.Sig, "gs "+strconv.FormatUint(s, 10), f.Detail+" | "+sc.String())
			} else {
				run.Count("other-property-oracle:" + f.Sig)
			}
		}
	}
}

// RunGrowth: the end-to-end stream of the C08 check.  One real member leads the group; between its first and its second
// Consume call the subscribed topic gains partitions.  Only the "C08:" oracle is reported: every plan the leader syncs
// after the growth holds every partition of the topic.
func RunGrowth(run *hlib.Run, n int) {
	var seeds []uint64
	if lines := run.ReplayLines(); lines != nil {
		for _, l := range lines {
			t := strings.Fields(l)
			if len(t) >= 3 && t[0] == "e2e" && t[1] == "gs" {
				if s, err := strconv.ParseUint(t[2], 10, 64); err == nil {
					seeds = append(seeds, s, s, s)
				}
			}
		}
	} else {
		for i := 0; i < n; i++ {
			seeds = append(seeds, run.Seed*1000003+900000+uint64(i))
		}
	}
	for idx, s := range seeds {
		if !run.Mine(idx) {
			continue
		}
		sc := Gen(s, "C08")
		res := Run(sc)
		desc := "e2e gs " + strconv.FormatUint(s, 10) + " # " + sc.String()
		if res.NewErr != "" {
			run.Count("group-not-created")
			run.Case(desc + " => " + res.NewErr)
			continue
		}
		run.Case(desc)
		syncsAfter := 0
		for _, r := range res.Reqs {
			if r.Kind == "sync" && r.Verdict == 0 && !r.Dropped && res.GrownAtSeq > 0 && r.Seq > res.GrownAtSeq {
				syncsAfter++
			}
		}
		run.Count(fmt.Sprintf("plans-synced-after-growth=%d", syncsAfter))
		if syncsAfter > 0 {
			run.Nontrivial(fmt.Sprintf("%s|%d|%d|%v", sc.Strategy, sc.Partitions, sc.GrowBy, len(sc.Script) > 0))
		}
		for _, f := range Check(res) {
			if strings.HasPrefix(f.Sig, "C08:") {
				run.IOFail(strings.TrimPrefix(f.Sig, "C08:"), "e2e gs "+strconv.FormatUint(s, 10), f.Detail+" | "+sc.String())
			} else {
				run.Count("other-property-oracle:" + f.Sig)
			}
		}
	}
}

// TraceLines renders handler events and coordinator requests, merged by their global sequence numbers, as
// operation lines for the Lean session model.
func TraceLines(res *Result) []string {
	type item struct {
		seq  int
		line string
	}
	var items []item
	for _, e := range res.Events {
		l := ""
		switch e.Kind {
		case "setup":
			l = fmt.Sprintf("h setup %d %s %d", e.Session, memberNo(e.Member), e.Gen)
		case "claim-start":
			l = fmt.Sprintf("h claimstart %d %d %d", e.Session, e.P, e.Off)
		case "claim-end":
			l = fmt.Sprintf("h claimend %d %d", e.Session, e.P)
		case "cleanup":
			l = fmt.Sprintf("h cleanup %d", e.Session)
		case "return":
			l = fmt.Sprintf("h return %d", e.Session)
		default:
			continue
		}
		items = append(items, item{e.Seq, l})
	}
	for _, r := range res.Reqs {
		d := 0
		if r.Dropped {
			d = 1
		}
		switch r.Kind {
		case "join":
			items = append(items, item{r.Seq, fmt.Sprintf("q join %s %d %d %s %d", memberNo(r.MemberID), int(r.Verdict), d, memberNo(r.IssuedMember), r.IssuedGen)})
		case "sync", "heartbeat", "commit":
			items = append(items, item{r.Seq, fmt.Sprintf("q %s %s %d %d %d", r.Kind, memberNo(r.MemberID), r.Generation, int(r.Verdict), d)})
		}
	}
	for i := 1; i < len(items); i++ {
		for j := i; j > 0 && items[j].seq < items[j-1].seq; j-- {
			items[j], items[j-1] = items[j-1], items[j]
		}
	}
	lines := []string{fmt.Sprintf("greset %d", res.Sc.RetryMax)}
	for _, it := range items {
		lines = append(lines, it.line)
	}
	return lines
}

// memberNo maps "member-7" to "7" and "" to "0"
func memberNo(m string) string {
	if m == "" {
		return "0"
	}
	return strings.TrimPrefix(m, "member-")
}
