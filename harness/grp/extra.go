package grp

// A second, self-contained stream of the C07 check (no trace lines, oracles only): one real member, TWO subscribed
// topics, and handlers that linger after their claim's channel has closed for longer than Rebalance.Timeout.
//   * every (topic, partition) of the session's assignment gets exactly one ConsumeClaim, and none outside it;
//   * Cleanup runs only after every started ConsumeClaim has returned, and Consume returns after Cleanup - however long
//     a handler takes to return.

import (
	"context"
	"fmt"
	"strconv"
	"strings"
	"sync"
	"sync/atomic"
	"time"

	"github.com/Shopify/sarama"
	"verif/harness/hlib"
)

type XScenario struct {
	Seed       uint64
	Brokers    int
	PartsT     int32
	PartsU     int32
	LogLen     int
	Strategy   string
	Version    sarama.KafkaVersion
	AutoCommit bool
	LingerMs   int // a handler returns this long after its claim's channel was closed
	Sessions   int
}

func GenExtra(seed uint64) *XScenario {
	r := hlib.NewRand(seed ^ 0x6578747261)
	sc := &XScenario{Seed: seed}
	sc.Brokers = r.Range(1, 2)
	sc.PartsT = int32(r.Range(1, 3))
	sc.PartsU = int32(r.Range(1, 2))
	sc.LogLen = r.Range(0, 5)
	sc.Strategy = []string{"range", "roundrobin", "sticky"}[r.Intn(3)]
	versions := []sarama.KafkaVersion{sarama.V0_10_2_0, sarama.V1_0_0_0, sarama.V2_1_0_0, sarama.V2_8_0_0}
	sc.Version = versions[r.Intn(len(versions))]
	sc.AutoCommit = r.Chance(3, 4)
	sc.LingerMs = r.Pick(0, 0, 260, 350)
	sc.Sessions = r.Range(1, 2)
	return sc
}

func (sc *XScenario) String() string {
	return fmt.Sprintf("seed=%d brokers=%d t=%d u=%d log=%d strat=%s ver=%s auto=%v linger=%dms sessions=%d", sc.Seed, sc.Brokers, sc.PartsT, sc.PartsU,
		sc.LogLen, sc.Strategy, sc.Version, sc.AutoCommit, sc.LingerMs, sc.Sessions)
}

type xHandler struct {
	sc      *XScenario
	session int
	mu      *sync.Mutex
	ctr     *int64
	events  *[]HEvent
	claims  *map[int]map[string][]int32
}

func xKey(topic string, p int32) int32 {
	if topic == "u" {
		return 100 + p
	}
	return p
}

func (h *xHandler) ev(kind string, p int32) {
	h.mu.Lock()
	*h.events = append(*h.events, HEvent{Seq: int(atomic.AddInt64(h.ctr, 1)), Session: h.session, Kind: kind, P: p})
	h.mu.Unlock()
}

func (h *xHandler) Setup(s sarama.ConsumerGroupSession) error {
	h.mu.Lock()
	(*h.claims)[h.session] = s.Claims()
	h.mu.Unlock()
	h.ev("setup", 0)
	return nil
}
func (h *xHandler) Cleanup(s sarama.ConsumerGroupSession) error {
	h.ev("cleanup", 0)
	return nil
}
func (h *xHandler) ConsumeClaim(s sarama.ConsumerGroupSession, c sarama.ConsumerGroupClaim) error {
	k := xKey(c.Topic(), c.Partition())
	h.ev("claim-start", k)
	for m := range c.Messages() {
		s.MarkMessage(m, "")
	}
	if h.sc.LingerMs > 0 {
		time.Sleep(time.Duration(h.sc.LingerMs) * time.Millisecond)
	}
	h.ev("claim-end", k)
	return nil
}

type XResult struct {
	Sc     *XScenario
	Events []HEvent
	Claims map[int]map[string][]int32
	RanMs  map[int]int64
	NewErr string
	Hang   string
}

func RunExtraOne(sc *XScenario) *XResult {
	res := &XResult{Sc: sc, Claims: map[int]map[string][]int32{}, RanMs: map[int]int64{}}
	sim := sarama.VerifNewSim(sc.Brokers, map[string]int32{"t": sc.PartsT, "u": sc.PartsU})
	defer sim.Close()
	for _, tp := range []struct {
		t string
		n int32
	}{{"t", sc.PartsT}, {"u", sc.PartsU}} {
		for p := int32(0); p < tp.n; p++ {
			for i := 0; i < sc.LogLen; i++ {
				sim.AppendRaw(tp.t, p, []byte("k"), []byte(fmt.Sprintf("%s.%d.%d", tp.t, p, i)), nil, time.Unix(1600000000, 0))
			}
		}
	}
	cfg := sarama.NewConfig()
	cfg.Version = sc.Version
	cfg.Consumer.Return.Errors = true
	cfg.Consumer.Offsets.Initial = sarama.OffsetOldest
	cfg.Consumer.Offsets.AutoCommit.Enable = sc.AutoCommit
	cfg.Consumer.Offsets.AutoCommit.Interval = 4 * time.Millisecond
	cfg.Consumer.Group.Heartbeat.Interval = 3 * time.Millisecond
	cfg.Consumer.Group.Session.Timeout = 100 * time.Millisecond
	cfg.Consumer.Group.Rebalance.Timeout = 200 * time.Millisecond
	cfg.Consumer.Group.Rebalance.Retry.Max = 2
	cfg.Consumer.Group.Rebalance.Retry.Backoff = time.Millisecond
	cfg.Consumer.MaxWaitTime = 5 * time.Millisecond
	cfg.Consumer.Retry.Backoff = time.Millisecond
	cfg.Metadata.Retry.Max = 1
	cfg.Metadata.Retry.Backoff = time.Millisecond
	cfg.Net.ReadTimeout = 200 * time.Millisecond
	switch sc.Strategy {
	case "range":
		cfg.Consumer.Group.Rebalance.Strategy = sarama.BalanceStrategyRange
	case "roundrobin":
		cfg.Consumer.Group.Rebalance.Strategy = sarama.BalanceStrategyRoundRobin
	default:
		cfg.Consumer.Group.Rebalance.Strategy = sarama.BalanceStrategySticky
	}
	g, err := sarama.NewConsumerGroup(sim.Addrs(), "g", cfg)
	if err != nil {
		res.NewErr = err.Error()
		return res
	}
	go func() {
		for range g.Errors() {
		}
	}()
	var mu sync.Mutex
	var ctr int64
	for sNo := 0; sNo < sc.Sessions; sNo++ {
		h := &xHandler{sc: sc, session: sNo, mu: &mu, ctr: &ctr, events: &res.Events, claims: &res.Claims}
		ctx, cancel := context.WithCancel(context.Background())
		done := make(chan error, 1)
		start := time.Now()
		go func() { done <- g.Consume(ctx, []string{"t", "u"}, h) }()
		byHarness := false
		// end the session 300 ms after its Setup (it is not "already ending" when its claims start); no Setup within 2 s: end it anyway
		setupSeen := false
		var finished bool
		var deadline = time.Now().Add(2 * time.Second)
	wait:
		for time.Now().Before(deadline) {
			select {
			case <-done:
				finished = true
				break wait
			case <-time.After(5 * time.Millisecond):
			}
			if !setupSeen {
				mu.Lock()
				for _, e := range res.Events {
					if e.Session == sNo && e.Kind == "setup" {
						setupSeen = true
						deadline = time.Now().Add(300 * time.Millisecond)
					}
				}
				mu.Unlock()
			}
		}
		if !finished {
			byHarness = setupSeen
			cancel()
			select {
			case <-done:
			case <-time.After(8 * time.Second):
				res.Hang = fmt.Sprintf("Consume of session %d did not return within 8s after cancel", sNo)
				cancel()
				return res
			}
		}
		cancel()
		mu.Lock()
		res.Events = append(res.Events, HEvent{Seq: int(atomic.AddInt64(&ctr, 1)), Session: sNo, Kind: "return", ByHarness: byHarness})
		if byHarness {
			res.RanMs[sNo] = time.Since(start).Milliseconds()
		}
		mu.Unlock()
	}
	cdone := make(chan error, 1)
	go func() { cdone <- g.Close() }()
	select {
	case <-cdone:
	case <-time.After(8 * time.Second):
		res.Hang = "final Close did not return within 8s"
	}
	// a lingering handler may still be running if the library did not wait for it: give it time to report its claim-end
	if sc.LingerMs > 0 {
		time.Sleep(time.Duration(sc.LingerMs+50) * time.Millisecond)
	}
	mu.Lock()
	res.Events = append([]HEvent(nil), res.Events...)
	mu.Unlock()
	return res
}

func CheckExtra(res *XResult) []Fail {
	var fails []Fail
	add := func(sig, format string, a ...interface{}) {
		fails = append(fails, Fail{sig, fmt.Sprintf(format, a...)})
	}
	if res.NewErr != "" {
		return nil
	}
	if res.Hang != "" {
		add("C12:group-hang", "%s", res.Hang)
		return fails
	}
	checkLifecycle(res.Events, add)
	for sNo, claims := range res.Claims {
		if _, ok := res.RanMs[sNo]; !ok {
			continue // the session ended by itself
		}
		want := map[int32]bool{}
		for t, ps := range claims {
			for _, p := range ps {
				want[xKey(t, p)] = true
			}
		}
		got := map[int32]int{}
		for _, e := range res.Events {
			if e.Session == sNo && e.Kind == "claim-start" {
				got[e.P]++
			}
		}
		for k := range want {
			if got[k] == 0 {
				add("C07:running-session-without-claim-for-assigned-partition", "session %d ran until the harness ended it 300 ms after Setup; assignment %v, (topic,partition) key %d (u = 100+p) never got a ConsumeClaim; claims started: %v", sNo, claims, k, got)
			}
		}
		for k := range got {
			if !want[k] {
				add("C07:claim-outside-assignment", "session %d: ConsumeClaim for key %d (u = 100+p), assignment is %v", sNo, k, claims)
			}
		}
	}
	return fails
}

func RunAllExtra(run *hlib.Run, sigPrefixes []string, n int) {
	var seeds []uint64
	if lines := run.ReplayLines(); lines != nil {
		for _, l := range lines {
			t := strings.Fields(l)
			if len(t) >= 2 && t[0] == "gx" {
				if s, err := strconv.ParseUint(t[1], 10, 64); err == nil {
					seeds = append(seeds, s, s, s)
				}
			}
		}
	} else {
		for i := 0; i < n; i++ {
			seeds = append(seeds, run.Seed*1000003+800000+uint64(i))
		}
	}
	for idx, s := range seeds {
		if !run.Mine(idx) {
			continue
		}
		sc := GenExtra(s)
		res := RunExtraOne(sc)
		desc := "gx " + strconv.FormatUint(s, 10) + " # " + sc.String()
		if res.NewErr != "" {
			run.Count("group-not-created")
			run.Case(desc + " => " + res.NewErr)
			continue
		}
		run.Case(desc)
		run.Count(fmt.Sprintf("two-topics linger=%d", sc.LingerMs))
		for _, f := range CheckExtra(res) {
			mine := false
			for _, p := range sigPrefixes {
				if strings.HasPrefix(f.Sig, p) {
					mine = true
				}
			}
			if mine {
				run.IOFail(f.Sig, "gx "+strconv.FormatUint(s, 10), f.Detail+" | "+sc.String())
			} else {
				run.Count("other-property-oracle:" + f.Sig)
			}
		}
	}
}
