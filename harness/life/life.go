// Package life records the shutdown-handshake hook events (`lc.*`, plus the feeder's `cf.*` events mapped to the
// partition consumer they belong to) of one scenario as operation lines for the Lean lifecycle acceptors
// (Model/Lifecycle.lean, replayed by Driver/LifecycleTrace.lean):
//
//	lreset <tag>
//	lc <tag> <event> <key|-> <object id> <value>
//
// Object ids are the per-process serial numbers of sarama's verifID, renumbered relative to the scenario start;
// events of objects created before the scenario started (goroutines of an earlier scenario that are still winding
// down) are dropped.  Recording is off unless the harness sets IDMark (only the C12 harness does).
package life

import (
	"fmt"
	"os"
	"path/filepath"
	"strings"
	"sync"
	"time"

	"github.com/Shopify/sarama"
)

// IDMark returns the highest object id handed out so far (overlay function sarama.VerifIDMark); nil = recording off.
var IDMark func() int64

type Rec struct {
	mu     sync.Mutex
	tag    string
	mark   int64
	lines  []string
	tp     map[string]int64 // topic/partition -> partition consumer id (most recently started)
	born   map[string]bool  // "<component>/<id>": objects whose creation event was seen in this scenario
	panics []string
	closed bool
}

// Begin starts recording a scenario (nil when recording is off). It installs sarama.PanicHandler so that a panic
// in one of sarama's own goroutines is recorded instead of killing the process.
func Begin(tag string) *Rec {
	if IDMark == nil {
		return nil
	}
	r := &Rec{tag: tag, mark: IDMark(), tp: map[string]int64{}, born: map[string]bool{}}
	sarama.PanicHandler = func(v interface{}) {
		r.mu.Lock()
		r.panics = append(r.panics, fmt.Sprint(v))
		r.mu.Unlock()
	}
	return r
}

func (r *Rec) add(event, key string, a, b int64) {
	if key == "" {
		key = "-"
	}
	r.lines = append(r.lines, fmt.Sprintf("lc %s %s %s %d %d", r.tag, event, key, a, b))
}

// idValued lists the events whose value is an object id as well (renumbered like the object id).
var idValued = map[string]bool{
	"pc.input.send": true, "pc.unref": true, "pc.feeder.send": true, "pc.trigger.close": true, "pc.trigger.send": true,
	"cons.child.add": true, "cons.child.remove": true, "bc.sub.add": true,
	"sess.start": true, "sess.offsets.close": true, "pom.new": true, "pom.errors.close": true, "cli.broker.close": true,
}

// creation lists the events that introduce an object. Events of a partition consumer, broker worker, session, POM
// or broker connection whose creation was not seen in this scenario are dropped: they belong to goroutines of an
// earlier scenario of this process that never finished (that scenario was reported as a hang).
var creation = map[string]bool{"pc.start": true, "bc.new": true, "sess.start": true, "pom.new": true, "br.open": true}

func component(ev string) string {
	if i := strings.IndexByte(ev, '.'); i > 0 {
		switch ev[:i] {
		case "pc", "bc", "sess", "pom", "br":
			return ev[:i]
		}
	}
	return ""
}

// Event is the VerifSinkKV callback.
func (r *Rec) Event(kind, key string, a, b int64) {
	if r == nil {
		return
	}
	r.mu.Lock()
	defer r.mu.Unlock()
	if r.closed {
		return
	}
	switch {
	case strings.HasPrefix(kind, "lc."):
		if a <= r.mark {
			return // an object of an earlier scenario
		}
		ev := kind[3:]
		a -= r.mark
		if idValued[ev] && b > 0 {
			if b <= r.mark {
				return
			}
			b -= r.mark
		}
		if c := component(ev); c != "" {
			k := fmt.Sprintf("%s/%d", c, a)
			if creation[ev] {
				r.born[k] = true
			} else if !r.born[k] {
				return
			}
		}
		if ev == "pc.start" {
			r.tp[fmt.Sprintf("%s/%d", key, b)] = a
			key = ""
		}
		r.add(ev, key, a, b)
	case strings.HasPrefix(kind, "cf."):
		id, ok := r.tp[fmt.Sprintf("%s/%d", key, a)]
		if !ok {
			return
		}
		switch kind {
		case "cf.parsed":
			r.add("pc.feeder.recv", "", id, b)
		case "cf.deliver":
			r.add("pc.messages.send", "", id, b)
		case "cf.ack":
			r.add("pc.ack", "", id, b)
		case "cf.closed":
			r.add("pc.feeder.exit", "", id, 0)
		}
	}
}

// End stops recording and returns the operation lines (starting with lreset) and the recorded panics.
func (r *Rec) End() (lines []string, panics []string) {
	if r == nil {
		return nil, nil
	}
	r.mu.Lock()
	defer r.mu.Unlock()
	r.closed = true
	sarama.PanicHandler = nil
	return append([]string{"lreset " + r.tag}, r.lines...), r.panics
}

// ReplaySeed extracts the scenario seed from a replayed lifecycle line `lc <prefix>:<seed> ...` / `lreset <prefix>:<seed>`.
func ReplaySeed(fields []string, prefix string) (uint64, bool) {
	if len(fields) >= 2 && (fields[0] == "lc" || fields[0] == "lreset") && strings.HasPrefix(fields[1], prefix+":") {
		var s uint64
		if _, err := fmt.Sscanf(fields[1][len(prefix)+1:], "%d", &s); err == nil {
			return s, true
		}
	}
	return 0, false
}

// Breadcrumb notes the scenario a worker process is about to run (empty = none), so that the supervising process
// can name it when the worker dies (a panic in a goroutine nobody can recover from) and the watchdog can name it
// when it never finishes.
func Breadcrumb(outDir, scenario string) {
	if IDMark == nil || outDir == "" {
		return
	}
	crumbMu.Lock()
	crumb, crumbSince = scenario, time.Now()
	crumbMu.Unlock()
	_ = os.WriteFile(filepath.Join(outDir, "current.txt"), []byte(scenario), 0o644)
}

var (
	crumbMu    sync.Mutex
	crumb      string
	crumbSince time.Time
)

// Watchdog calls stuck(scenario) once when one scenario has been running for longer than limit (every wait inside a
// scenario is bounded by 8 s, so this means the scenario's own tear-down is wedged - e.g. a connection that can no
// longer be closed). stuck is expected to record the failure, flush and end the process.
func Watchdog(limit time.Duration, stuck func(scenario string, d time.Duration)) {
	go func() {
		for {
			time.Sleep(500 * time.Millisecond)
			crumbMu.Lock()
			sc, since := crumb, crumbSince
			crumbMu.Unlock()
			if sc != "" && time.Since(since) > limit {
				stuck(sc, time.Since(since))
				return
			}
		}
	}()
}
