package cons

// Subscription bursts: many partitions of one broker are subscribed at the same moment (what a rebalance, or many
// re-dispatched partitions, produce).  Every subscribed partition of a reachable broker must deliver its log.

import (
	"fmt"
	"sync"
	"time"

	"github.com/Shopify/sarama"
	"verif/harness/hlib"
)

// Burst runs `rounds` rounds with `parts` partitions on one broker; returns the failures (C03 signatures).
func Burst(run *hlib.Run, rounds, parts int) {
	for round := 0; round < rounds; round++ {
		sim := sarama.VerifNewSim(1, map[string]int32{"t": int32(parts)})
		for p := 0; p < parts; p++ {
			for i := 0; i < 3; i++ {
				sim.AppendRaw("t", int32(p), []byte("k"), []byte(fmt.Sprintf("v%d.%d", p, i)), nil, time.Unix(1600000000, 0))
			}
		}
		cfg := sarama.NewConfig()
		cfg.Version = sarama.V2_1_0_0
		cfg.Consumer.Return.Errors = true
		cfg.Consumer.MaxWaitTime = 5 * time.Millisecond
		cfg.Consumer.Retry.Backoff = time.Millisecond
		cfg.Metadata.Retry.Backoff = time.Millisecond
		c, err := sarama.NewConsumer(sim.Addrs(), cfg)
		if err != nil {
			sim.Close()
			run.Count("burst-consumer-not-created")
			continue
		}
		got := make([]int, parts)
		why := make([]string, parts)
		var wg sync.WaitGroup
		var mu sync.Mutex
		pcs := make([]sarama.PartitionConsumer, parts)
		start := make(chan struct{})
		for p := 0; p < parts; p++ {
			p := p
			wg.Add(1)
			go func() {
				defer wg.Done()
				<-start
				// an error returned by ConsumePartition is visible to the application and not a C03 matter: try again a few
				// times; only a partition whose subscription was ACCEPTED and that then stays silent is judged
				var pc sarama.PartitionConsumer
				var err error
				for try := 0; try < 8; try++ {
					pc, err = c.ConsumePartition("t", int32(p), sarama.OffsetOldest)
					if err == nil {
						break
					}
					run.Count("burst-consumepartition-error")
					run.Count("burst-consumepartition-error:" + err.Error())
					time.Sleep(5 * time.Millisecond)
				}
				if err != nil {
					mu.Lock()
					why[p] = "ConsumePartition: " + err.Error()
					got[p] = -1
					mu.Unlock()
					return
				}
				mu.Lock()
				pcs[p] = pc
				mu.Unlock()
				deadline := time.After(3 * time.Second)
				for n := 0; n < 3; {
					select {
					case m := <-pc.Messages():
						if m != nil && m.Offset == int64(n) {
							n++
							mu.Lock()
							got[p] = n
							mu.Unlock()
						}
					case e := <-pc.Errors():
						mu.Lock()
						if e != nil {
							why[p] += " error: " + e.Error()
						}
						mu.Unlock()
					case <-deadline:
						return
					}
				}
			}()
		}
		close(start)
		wg.Wait()
		var missing []int
		mu.Lock()
		for p := 0; p < parts; p++ {
			if got[p] >= 0 && got[p] < 3 {
				missing = append(missing, p)
			}
		}
		mu.Unlock()
		run.Count("burst-rounds")
		if len(missing) > 0 {
			run.IOFail("C03:subscribed-partition-never-delivered", fmt.Sprintf("burst %d %d", round, parts),
				fmt.Sprintf("%d partitions subscribed at once on one reachable broker; partitions %v did not deliver their 3 records within 3 s (%v)", parts, missing, whyOf(why, missing)))
		}
		done := make(chan struct{})
		go func() {
			for _, pc := range pcs {
				if pc != nil {
					pc.AsyncClose()
				}
			}
			c.Close()
			close(done)
		}()
		select {
		case <-done:
		case <-time.After(8 * time.Second):
			run.Count("other-property-oracle:C12:consumer-close-hang")
		}
		sim.Close()
		if len(missing) > 0 {
			return
		}
	}
}

func whyOf(why []string, ps []int) []string {
	var out []string
	for _, p := range ps {
		out = append(out, fmt.Sprintf("p%d: delivered so far, notes: %q", p, why[p]))
	}
	return out
}

// CloseRace: every partition consumer of a round is closed by three goroutines at the same moment (an application's
// signal handler calling AsyncClose while the reader calls Close; the consumer group does it itself: the session
// watcher and the claim goroutine both call AsyncClose).  Closing twice is harmless under every schedule.
func CloseRace(run *hlib.Run, rounds, parts int) {
	for round := 0; round < rounds; round++ {
		if !run.Mine(round) {
			continue
		}
		sim := sarama.VerifNewSim(1, map[string]int32{"t": int32(parts)})
		cfg := sarama.NewConfig()
		cfg.Version = sarama.V2_1_0_0
		cfg.Consumer.Return.Errors = true
		cfg.Consumer.MaxWaitTime = 5 * time.Millisecond
		cfg.Consumer.Retry.Backoff = time.Millisecond
		cfg.Metadata.Retry.Backoff = time.Millisecond
		c, err := sarama.NewConsumer(sim.Addrs(), cfg)
		if err != nil {
			sim.Close()
			continue
		}
		var pcs []sarama.PartitionConsumer
		for p := 0; p < parts; p++ {
			for try := 0; try < 8; try++ {
				pc, err := c.ConsumePartition("t", int32(p), sarama.OffsetOldest)
				if err == nil {
					pcs = append(pcs, pc)
					break
				}
				time.Sleep(2 * time.Millisecond)
			}
		}
		var wg sync.WaitGroup
		var mu sync.Mutex
		panics := ""
		start := make(chan struct{})
		for _, pc := range pcs {
			for k := 0; k < 3; k++ {
				pc, k := pc, k
				wg.Add(1)
				go func() {
					defer wg.Done()
					defer func() {
						if r := recover(); r != nil {
							mu.Lock()
							panics = fmt.Sprint(r)
							mu.Unlock()
						}
					}()
					<-start
					if k == 2 {
						done := make(chan struct{})
						go func() {
							defer func() {
								if r := recover(); r != nil {
									mu.Lock()
									panics = fmt.Sprint(r)
									mu.Unlock()
								}
								close(done)
							}()
							pc.Close()
						}()
						select {
						case <-done:
						case <-time.After(8 * time.Second):
							mu.Lock()
							if panics == "" {
								panics = "hang"
							}
							mu.Unlock()
						}
					} else {
						pc.AsyncClose()
					}
				}()
			}
		}
		close(start)
		wg.Wait()
		run.Count("close-race-rounds")
		mu.Lock()
		p := panics
		mu.Unlock()
		if p == "hang" {
			run.IOFail("C12:partition-consumer-concurrent-close-hang", fmt.Sprintf("closerace %d %d", round, parts), "Close did not return within 8 s when three goroutines closed every partition consumer at the same moment")
		} else if p != "" {
			run.IOFail("C12:partition-consumer-concurrent-close-panic", fmt.Sprintf("closerace %d %d", round, parts), "closing a partition consumer from three goroutines at once panicked: "+p)
		}
		cd := make(chan struct{})
		go func() { c.Close(); close(cd) }()
		select {
		case <-cd:
		case <-time.After(8 * time.Second):
		}
		sim.Close()
	}
}
