package cons

// StallClose: "read until the record I wanted, then Close" after the reader had stalled.  One partition whose fetch
// responses carry several records; the application reads a little, does not read for several MaxProcessingTime periods
// (the feeder takes its expiry path with most of the response still in hand), comes back, reads a few more messages and
// calls Close without reading further.  Close must return and both output channels must be closed.

import (
	"fmt"
	"strconv"
	"strings"
	"time"

	"github.com/Shopify/sarama"
	"verif/harness/hlib"
)

func stallCloseOne(seed uint64) (sig, detail, desc string) {
	r := hlib.NewRand(seed ^ 0x7374616c6c)
	recs := r.Range(6, 14)
	perFetch := r.Range(4, 9)
	buf := r.Pick(0, 0, 1, 2)
	first := r.Range(0, 2)
	after := r.Range(1, 3)
	stallMs := r.Pick(60, 90, 130)
	version := []sarama.KafkaVersion{sarama.V0_10_2_0, sarama.V1_0_0_0, sarama.V2_1_0_0}[r.Intn(3)]
	desc = fmt.Sprintf("records=%d perFetch=%d chanBuf=%d readFirst=%d stall=%dms readAfter=%d ver=%s maxProcessing=15ms", recs, perFetch, buf, first, stallMs, after, version)
	sim := sarama.VerifNewSim(1, map[string]int32{"t": 1})
	defer sim.Close()
	sim.FetchMaxRecords = perFetch
	for i := 0; i < recs; i++ {
		sim.AppendRaw("t", 0, []byte("k"), []byte(fmt.Sprintf("v%d", i)), nil, time.Unix(1600000000, 0))
	}
	cfg := sarama.NewConfig()
	cfg.Version = version
	cfg.ChannelBufferSize = buf
	cfg.Consumer.Return.Errors = true
	cfg.Consumer.MaxWaitTime = 5 * time.Millisecond
	cfg.Consumer.MaxProcessingTime = 15 * time.Millisecond
	cfg.Consumer.Retry.Backoff = time.Millisecond
	cfg.Metadata.Retry.Backoff = time.Millisecond
	c, err := sarama.NewConsumer(sim.Addrs(), cfg)
	if err != nil {
		return "", "", desc
	}
	defer func() {
		cd := make(chan struct{})
		go func() { c.Close(); close(cd) }()
		select {
		case <-cd:
		case <-time.After(8 * time.Second):
		}
	}()
	var pc sarama.PartitionConsumer
	for try := 0; try < 8 && pc == nil; try++ {
		if p, err := c.ConsumePartition("t", 0, sarama.OffsetOldest); err == nil {
			pc = p
		} else {
			time.Sleep(2 * time.Millisecond)
		}
	}
	if pc == nil {
		return "", "", desc
	}
	read := func(n int) {
		for i := 0; i < n; i++ {
			select {
			case _, ok := <-pc.Messages():
				if !ok {
					return
				}
			case <-time.After(2 * time.Second):
				return
			}
		}
	}
	read(first)
	time.Sleep(time.Duration(stallMs) * time.Millisecond)
	read(after)
	done := make(chan string, 1)
	go func() {
		defer func() {
			if r := recover(); r != nil {
				done <- fmt.Sprint("panic: ", r)
			}
		}()
		pc.Close()
		done <- ""
	}()
	select {
	case p := <-done:
		if p != "" {
			return "C12:partition-consumer-close-panic-after-stall", p, desc
		}
	case <-time.After(6 * time.Second):
		return "C12:partition-consumer-close-hang-after-stall", "PartitionConsumer.Close() had not returned 6 s after the call (the reader had stalled, came back, read a few messages and closed without reading further)", desc
	}
	for name, open := range map[string]func() bool{
		"Messages": func() bool {
			for {
				select {
				case _, ok := <-pc.Messages():
					if !ok {
						return false
					}
				case <-time.After(time.Second):
					return true
				}
			}
		},
		"Errors": func() bool {
			for {
				select {
				case _, ok := <-pc.Errors():
					if !ok {
						return false
					}
				case <-time.After(time.Second):
					return true
				}
			}
		},
	} {
		if open() {
			return "C12:partition-consumer-channel-open-after-close", name + "() is not closed 1 s after Close returned", desc
		}
	}
	return "", "", desc
}

func StallClose(run *hlib.Run, rounds int) {
	var seeds []uint64
	if lines := run.ReplayLines(); lines != nil {
		for _, l := range lines {
			t := strings.Fields(l)
			if len(t) >= 2 && t[0] == "stallclose" {
				if s, err := strconv.ParseUint(t[1], 10, 64); err == nil {
					seeds = append(seeds, s, s, s)
				}
			}
		}
	} else {
		for i := 0; i < rounds; i++ {
			seeds = append(seeds, run.Seed*1000003+600000+uint64(i))
		}
	}
	for idx, s := range seeds {
		if !run.Mine(idx) {
			continue
		}
		sig, detail, desc := stallCloseOne(s)
		run.Case("stallclose " + strconv.FormatUint(s, 10) + " # " + desc)
		run.Count("stall-close-rounds")
		if sig != "" {
			run.IOFail(sig, "stallclose "+strconv.FormatUint(s, 10), detail+" | "+desc)
		}
	}
}
