// Package cons: end-to-end scenarios of the real Consumer / PartitionConsumer against the simulated cluster:
// pre-populated partition logs, per-fetch faults, reader pace relative to MaxProcessingTime, consumer
// interceptors, close at arbitrary moments.  Oracles of C03 (log delivered exactly once, in order, unaltered),
// C18 (consumer interceptors exactly once per delivered message) and C12 (close completes, channels closed).
package cons

import (
	"bytes"
	"fmt"
	"sort"
	"strings"
	"sync"
	"sync/atomic"
	"time"

	"github.com/Shopify/sarama"
	"verif/harness/hlib"
	"verif/harness/life"
)

type Scenario struct {
	Seed        uint64
	Focus       string
	Brokers     int
	Partitions  int32
	LogLen      []int // per partition
	Start       []int64
	StartKind   []string // "literal" | "oldest" | "newest"
	Version     sarama.KafkaVersion
	MaxRecs     int
	ChanBuf     int
	Icepts      int
	PanicIcept  int
	ProcMs      int         // MaxProcessingTime in ms
	SlowAt      map[int]int // message index (global delivery count) -> sleep ms
	Faults      map[int]sarama.VerifSimFetchFault
	MoveAt      int  // fetch number after which leadership of partition 0 moves (0 = never)
	LoseAt      int  // fetch number at which partition 0 loses its leader for good: it is closed while unreachable (0 = never)
	ZeroBackoff bool // Consumer.Retry.Backoff = 0
	CloseAfter  int  // close after this many delivered messages (-1: after everything was delivered)
	Appends     int  // records appended while consuming (to partition 0)
}

type Delivered struct {
	Partition int32
	Offset    int64
	Key, Val  []byte
	Headers   []string
	Ts        time.Time
}

type Result struct {
	Sc        *Scenario
	Delivered map[int32][]Delivered
	Errors    []string
	CloseHang bool
	Panic     string
	NewErr    string
	ChanOpen  bool // a channel was still open after Close returned
	Logs      map[int32][]sarama.VerifSimRecord
	Fetches   []sarama.VerifSimFetchInfo
	StartAt   map[int32]int64 // resolved start offset
	Reached   bool            // every expected message arrived before the close
	Trace     []string        // feeder hook events: "cf <kind> <partition> <value>"
	Life      []string        // lifecycle hook events (C12 only): "lreset <tag>" / "lc <tag> <event> <key> <id> <value>"
	LifePanic []string        // panics recovered in sarama's own goroutines (C12 only)
}

func Gen(seed uint64, focus string) *Scenario {
	r := hlib.NewRand(seed)
	sc := &Scenario{Seed: seed, Focus: focus, PanicIcept: -1, CloseAfter: -1}
	sc.Brokers = r.Range(1, 3)
	sc.Partitions = int32(r.Range(1, 3))
	versions := []sarama.KafkaVersion{sarama.V0_8_2_0, sarama.V0_9_0_0, sarama.V0_10_0_0, sarama.V0_10_1_0, sarama.V0_11_0_0, sarama.V1_0_0_0, sarama.V2_1_0_0, sarama.V2_8_0_0}
	sc.Version = versions[r.Intn(len(versions))]
	sc.MaxRecs = r.Range(1, 5)
	sc.ChanBuf = r.Pick(0, 1, 2, 8, 256)
	sc.ProcMs = r.Pick(2, 3, 5, 100)
	if focus == "C18" || r.Chance(1, 3) {
		sc.Icepts = r.Range(1, 3)
		if r.Chance(1, 4) {
			sc.PanicIcept = r.Intn(sc.Icepts)
		}
	}
	total := 0
	for p := int32(0); p < sc.Partitions; p++ {
		n := r.Range(0, 20)
		sc.LogLen = append(sc.LogLen, n)
		switch r.Intn(5) {
		case 0:
			sc.StartKind = append(sc.StartKind, "oldest")
			sc.Start = append(sc.Start, 0)
		case 1:
			sc.StartKind = append(sc.StartKind, "newest")
			sc.Start = append(sc.Start, int64(n))
		default:
			sc.StartKind = append(sc.StartKind, "literal")
			sc.Start = append(sc.Start, int64(r.Range(0, n)))
		}
		total += n - int(sc.Start[p])
	}
	sc.Appends = r.Pick(0, 0, 3, 6)
	total += sc.Appends
	sc.SlowAt = map[int]int{}
	if focus == "C18" || focus == "C03" || r.Chance(1, 2) {
		k := r.Range(1, 4)
		for i := 0; i < k && total > 0; i++ {
			sc.SlowAt[r.Intn(total)] = r.Range(sc.ProcMs*2+1, sc.ProcMs*4+4)
		}
	}
	sc.Faults = map[int]sarama.VerifSimFetchFault{}
	nf := r.Pick(0, 0, 1, 2, 3)
	for i := 0; i < nf; i++ {
		f := sarama.VerifSimFetchFault{}
		switch r.Intn(5) {
		case 0:
			f.Kind = "drop"
		case 1:
			f.Kind = "empty"
		case 2:
			f.Kind, f.Code = "err", []sarama.KError{sarama.ErrNotLeaderForPartition, sarama.ErrLeaderNotAvailable, sarama.ErrUnknownTopicOrPartition, sarama.ErrReplicaNotAvailable}[r.Intn(4)]
		case 3:
			f.Kind, f.Code = "err", []sarama.KError{sarama.ErrUnknown, sarama.ErrRequestTimedOut}[r.Intn(2)]
		case 4:
			f.Kind = "noReply"
		}
		sc.Faults[r.Range(1, 8)] = f
	}
	if sc.Brokers > 1 && r.Chance(1, 4) {
		sc.MoveAt = r.Range(1, 5)
	}
	if focus == "C12" || r.Chance(1, 6) {
		sc.CloseAfter = r.Range(0, total)
	}
	if r.Chance(1, 8) {
		// partition 0 loses its leader for good while being consumed; its consumer keeps re-dispatching in vain and is
		// then closed (shutdown must complete while the cluster is unreachable, whatever the back-off)
		sc.LoseAt = r.Range(1, 4)
		sc.ZeroBackoff = r.Bool()
		sc.MoveAt = 0
		sc.CloseAfter = -1
		sc.Faults[sc.LoseAt] = sarama.VerifSimFetchFault{Kind: "err", Code: sarama.ErrNotLeaderForPartition}
		return sc
	}
	if focus != "C12" && r.Chance(1, 7) {
		// a slow reader on one partition gets unsubscribed from the broker worker (two expiry ticks) while the worker,
		// still fetching for the other partition on the same broker, loses its connection
		sc.Brokers, sc.Partitions = 1, 2
		sc.LogLen = []int{r.Range(8, 16), r.Range(8, 16)}
		sc.StartKind, sc.Start = []string{"oldest", "oldest"}, []int64{0, 0}
		sc.MaxRecs = r.Range(2, 3)
		sc.ChanBuf = r.Pick(0, 0, 1)
		sc.ProcMs = r.Pick(2, 3)
		sc.Appends = 0
		sc.CloseAfter = -1
		sc.MoveAt = 0
		sc.SlowAt = map[int]int{r.Range(1, 5): r.Pick(25, 40, 60)}
		sc.Faults = map[int]sarama.VerifSimFetchFault{}
		for _, at := range []int{r.Range(3, 6), r.Range(5, 9)} {
			sc.Faults[at] = sarama.VerifSimFetchFault{Kind: []string{"drop", "drop", "noReply"}[r.Intn(3)]}
		}
	}
	return sc
}

func (sc *Scenario) String() string {
	var fs []string
	var ks []int
	for k := range sc.Faults {
		ks = append(ks, k)
	}
	sort.Ints(ks)
	for _, k := range ks {
		fs = append(fs, fmt.Sprintf("%d:%s/%d", k, sc.Faults[k].Kind, int(sc.Faults[k].Code)))
	}
	return fmt.Sprintf("seed=%d focus=%s brokers=%d parts=%d log=%v start=%v/%v ver=%s maxrecs=%d buf=%d icepts=%d/%d proc=%dms slow=%v faults=[%s] move=%d closeAfter=%d appends=%d",
		sc.Seed, sc.Focus, sc.Brokers, sc.Partitions, sc.LogLen, sc.StartKind, sc.Start, sc.Version, sc.MaxRecs, sc.ChanBuf, sc.Icepts, sc.PanicIcept,
		sc.ProcMs, sc.SlowAt, strings.Join(fs, ","), sc.MoveAt, sc.CloseAfter, sc.Appends) + fmt.Sprintf(" loseAt=%d zeroBackoff=%v", sc.LoseAt, sc.ZeroBackoff)
}

type cicept struct {
	k     int
	panic bool
	n     int32
}

func (c *cicept) OnConsume(m *sarama.ConsumerMessage) {
	m.Headers = append(m.Headers, &sarama.RecordHeader{Key: []byte(fmt.Sprintf("i%d", c.k)), Value: []byte("x")})
	if c.panic {
		scriptedPanic(int(atomic.AddInt32(&c.n, 1)), "consumer interceptor panic (scripted)")
	}
}

func recKey(p int32, i int) []byte {
	if i%5 == 3 {
		return nil
	}
	return []byte(fmt.Sprintf("k%d.%d", p, i))
}
func recVal(p int32, i int) []byte {
	return []byte(fmt.Sprintf("v%d.%d.%s", p, i, strings.Repeat("x", i%7)))
}

func Run(sc *Scenario) *Result {
	res := &Result{Sc: sc, Delivered: map[int32][]Delivered{}, Logs: map[int32][]sarama.VerifSimRecord{}, StartAt: map[int32]int64{}}
	sim := sarama.VerifNewSim(sc.Brokers, map[string]int32{"t": sc.Partitions})
	defer sim.Close()
	sim.FetchMaxRecords = sc.MaxRecs
	for p := int32(0); p < sc.Partitions; p++ {
		for i := 0; i < sc.LogLen[p]; i++ {
			var hs []sarama.RecordHeader
			if i%4 == 1 {
				hs = []sarama.RecordHeader{{Key: []byte("h"), Value: []byte(fmt.Sprint(i))}}
			}
			sim.AppendRaw("t", p, recKey(p, i), recVal(p, i), hs, time.Unix(1600000000+int64(i), 0))
		}
	}
	sim.FetchFault = func(n int, broker int32) sarama.VerifSimFetchFault {
		if sc.LoseAt > 0 && n == sc.LoseAt {
			sim.SetLeader("t", 0, -1)
		}
		if sc.MoveAt > 0 && n == sc.MoveAt {
			cur := sim.Leader("t", 0)
			sim.SetLeader("t", 0, cur%int32(sc.Brokers)+1)
		}
		if f, ok := sc.Faults[n]; ok {
			return f
		}
		return sarama.VerifSimFetchFault{Kind: "ok"}
	}
	cfg := sarama.NewConfig()
	cfg.Version = sc.Version
	cfg.ChannelBufferSize = sc.ChanBuf
	cfg.Consumer.Return.Errors = true
	cfg.Consumer.MaxProcessingTime = time.Duration(sc.ProcMs) * time.Millisecond
	cfg.Consumer.Retry.Backoff = time.Millisecond
	if sc.ZeroBackoff {
		cfg.Consumer.Retry.Backoff = 0
	}
	cfg.Consumer.MaxWaitTime = 5 * time.Millisecond
	cfg.Net.ReadTimeout = 150 * time.Millisecond
	cfg.Net.DialTimeout = 500 * time.Millisecond
	cfg.Metadata.Retry.Max = 2
	cfg.Metadata.Retry.Backoff = time.Millisecond
	for k := 0; k < sc.Icepts; k++ {
		cfg.Consumer.Interceptors = append(cfg.Consumer.Interceptors, &cicept{k: k, panic: k == sc.PanicIcept})
	}
	sinkMu.Lock()
	defer sinkMu.Unlock()
	var evMu sync.Mutex
	rec := life.Begin(fmt.Sprintf("cs:%d", sc.Seed))
	sarama.VerifSinkKV = func(kind string, key string, a, b int64) {
		if strings.HasPrefix(kind, "cf.") {
			evMu.Lock()
			res.Trace = append(res.Trace, fmt.Sprintf("cf %s %d %d", kind[3:], a, b))
			evMu.Unlock()
		}
		rec.Event(kind, key, a, b)
	}
	var ownPanics []string
	if rec == nil {
		// no life-cycle recording: still keep a panic inside one of the library's goroutines from taking the harness
		// process down; it is an outcome of the scenario
		sarama.PanicHandler = func(v interface{}) {
			evMu.Lock()
			ownPanics = append(ownPanics, fmt.Sprint(v))
			evMu.Unlock()
		}
	}
	defer func() {
		res.Life, res.LifePanic = rec.End()
		if rec == nil {
			sarama.PanicHandler = nil
			evMu.Lock()
			res.LifePanic = append(res.LifePanic, ownPanics...)
			evMu.Unlock()
		}
		sarama.VerifSinkKV = nil
	}()
	c, err := sarama.NewConsumer(sim.Addrs(), cfg)
	if err != nil {
		res.NewErr = err.Error()
		return res
	}
	var mu sync.Mutex
	var wg sync.WaitGroup
	var pcs []sarama.PartitionConsumer
	expected := 0
	delivered := 0
	closing := make(chan struct{})
	for p := int32(0); p < sc.Partitions; p++ {
		off := sc.Start[p]
		switch sc.StartKind[p] {
		case "oldest":
			off = sarama.OffsetOldest
			res.StartAt[p] = 0
		case "newest":
			off = sarama.OffsetNewest
			res.StartAt[p] = int64(sc.LogLen[p])
		default:
			res.StartAt[p] = sc.Start[p]
		}
		pc, err := c.ConsumePartition("t", p, off)
		if err != nil {
			res.NewErr = err.Error()
			c.Close()
			return res
		}
		pcs = append(pcs, pc)
		expected += sc.LogLen[p] - int(res.StartAt[p])
		wg.Add(2)
		go func(p int32, pc sarama.PartitionConsumer) {
			defer wg.Done()
			for m := range pc.Messages() {
				mu.Lock()
				idx := delivered
				delivered++
				var hs []string
				for _, h := range m.Headers {
					hs = append(hs, string(h.Key)+"="+string(h.Value))
				}
				res.Delivered[p] = append(res.Delivered[p], Delivered{m.Partition, m.Offset, m.Key, m.Value, hs, m.Timestamp})
				sl := sc.SlowAt[idx]
				mu.Unlock()
				if sl > 0 {
					select {
					case <-time.After(time.Duration(sl) * time.Millisecond):
					case <-closing:
					}
				}
			}
		}(p, pc)
		go func(pc sarama.PartitionConsumer) {
			defer wg.Done()
			for e := range pc.Errors() {
				mu.Lock()
				res.Errors = append(res.Errors, e.Err.Error())
				mu.Unlock()
			}
		}(pc)
	}
	// records appended while consuming
	for i := 0; i < sc.Appends; i++ {
		n := sc.LogLen[0] + i
		sim.AppendRaw("t", 0, recKey(0, n), recVal(0, n), nil, time.Unix(1600000000+int64(n), 0))
		if i%2 == 0 {
			time.Sleep(time.Millisecond)
		}
	}
	expected += sc.Appends
	target := expected
	if sc.CloseAfter >= 0 && sc.CloseAfter < target {
		target = sc.CloseAfter
	}
	deadline := time.Now().Add(8 * time.Second)
	if sc.LoseAt > 0 {
		deadline = time.Now().Add(250 * time.Millisecond) // partition 0 will not get there: close it while it is unreachable
	}
	for time.Now().Before(deadline) {
		mu.Lock()
		d := delivered
		mu.Unlock()
		if d >= target {
			break
		}
		time.Sleep(time.Millisecond)
	}
	mu.Lock()
	res.Reached = delivered >= expected
	mu.Unlock()
	close(closing)
	done := make(chan string, 1)
	go func() {
		defer func() {
			if r := recover(); r != nil {
				done <- fmt.Sprint("panic: ", r)
			}
		}()
		for i, pc := range pcs {
			if i%2 == 0 {
				pc.AsyncClose()
			} else {
				_ = pc.Close()
			}
		}
		wg.Wait() // Messages and Errors channels of every partition consumer are closed
		for _, pc := range pcs {
			_ = pc.Close() // closing twice is harmless
		}
		_ = c.Close()
		done <- ""
	}()
	select {
	case s := <-done:
		res.Panic = s
	case <-time.After(8 * time.Second):
		res.CloseHang = true
	}
	for p := int32(0); p < sc.Partitions; p++ {
		res.Logs[p] = sim.Log("t", p)
	}
	res.Fetches = sim.Fetches()
	return res
}

var sinkMu sync.Mutex

type Fail struct{ Sig, Detail string }

func Check(res *Result) []Fail {
	var fails []Fail
	add := func(sig, format string, a ...interface{}) {
		fails = append(fails, Fail{sig, fmt.Sprintf(format, a...)})
	}
	sc := res.Sc
	if res.NewErr != "" {
		return nil
	}
	if res.CloseHang {
		add("C12:consumer-close-hang", "closing the partition consumers / consumer did not complete within 8s")
		// what was delivered before the close is still judged below (a stalled partition usually cannot be closed either)
	}
	if res.Panic != "" {
		add("C12:consumer-close-panic", "%s", res.Panic)
	}
	if len(res.LifePanic) > 0 {
		add("C12:consumer-goroutine-panic", "recovered in one of the consumer's goroutines: %s", strings.Join(res.LifePanic, " | "))
		if sc.PanicIcept >= 0 {
			// "a panicking interceptor is contained": its panic must not reach the goroutine that ran it
			add("C18:consumer-interceptor-panic-escaped", "an interceptor's panic escaped into the feeder goroutine: %s", strings.Join(res.LifePanic, " | "))
		}
	}
	for p := int32(0); p < sc.Partitions; p++ {
		log := res.Logs[p]
		start := res.StartAt[p]
		d := res.Delivered[p]
		// delivered must be a prefix of log[start:], complete when everything was awaited
		for i, m := range d {
			want := start + int64(i)
			if m.Offset != want {
				sig := "C03:gap-or-reorder"
				if m.Offset < want {
					sig = "C03:duplicate-or-reorder"
				}
				add(sig, "partition %d: delivery #%d has offset %d, expected %d (start %d)", p, i, m.Offset, want, start)
				break
			}
			if want >= int64(len(log)) {
				add("C03:phantom-message", "partition %d: offset %d delivered but the log has %d records", p, want, len(log))
				break
			}
			r := log[want]
			if !bytes.Equal(r.Key, m.Key) || !bytes.Equal(r.Value, m.Val) {
				add("C03:payload-altered", "partition %d offset %d: delivered key=%q value=%q, log has key=%q value=%q", p, want, m.Key, m.Val, r.Key, r.Value)
			}
			if sc.Version.IsAtLeast(sarama.V0_10_0_0) && !m.Ts.Equal(r.Ts) {
				add("C03:timestamp-altered", "partition %d offset %d: delivered timestamp %v, log has %v", p, want, m.Ts, r.Ts)
			}
			var app []string
			var marks []string
			for _, h := range m.Headers {
				if strings.HasPrefix(h, "i") {
					marks = append(marks, strings.SplitN(h, "=", 2)[0])
				} else {
					app = append(app, h)
				}
			}
			if sc.Version.IsAtLeast(sarama.V0_11_0_0) {
				var want []string
				for _, h := range r.Headers {
					want = append(want, string(h.Key)+"="+string(h.Value))
				}
				if strings.Join(app, ",") != strings.Join(want, ",") {
					add("C03:headers-altered", "partition %d offset %d: delivered headers %v, log has %v", p, m.Offset, app, want)
				}
			}
			var wantMarks []string
			for k := 0; k < sc.Icepts; k++ {
				wantMarks = append(wantMarks, fmt.Sprintf("i%d", k))
			}
			if strings.Join(marks, ",") != strings.Join(wantMarks, ",") {
				sig := "C18:consumer-interceptor-not-exactly-once"
				if len(marks) > len(wantMarks) {
					sig = "C18:consumer-interceptor-applied-again"
				}
				add(sig, "partition %d offset %d carries interceptor marks %v, expected %v", p, m.Offset, marks, wantMarks)
			}
		}
		if sc.CloseAfter < 0 && !res.Reached && sc.LoseAt == 0 {
			got := len(d)
			want := len(log) - int(start)
			if got < want {
				add("C03:delivery-stalled", "partition %d: %d of %d visible records delivered within 8s (errors: %v)", p, got, want, res.Errors)
			}
		}
	}
	return fails
}

type panicCode int

// scriptedPanic panics with values of different kinds in turn: a string, an error, a value of a private integer type,
// a struct, and a genuine runtime error
func scriptedPanic(n int, text string) {
	switch n % 5 {
	case 0:
		panic(text)
	case 1:
		panic(fmt.Errorf("%s", text))
	case 2:
		panic(panicCode(42))
	case 3:
		panic(struct{ Why string }{text})
	default:
		var m map[string]int
		m[text] = 1 // assignment to entry in nil map
	}
}
