package cons

import (
	"fmt"
	"strconv"
	"strings"

	"verif/harness/hlib"
	"verif/harness/life"
)

const Rule = "consumer scenario = f(seed): brokers 1-3, partitions 1-3, pre-populated logs 0-20 records, start literal/oldest/newest, version 0.8.2-2.8 (message sets v0/v1, record batches), 1-5 records per fetch, per-fetch faults (drop, empty, error classes, no reply), leader move, reader pauses longer than MaxProcessingTime, interceptors, appends while consuming, optional early close. non-trivial = distinct (version class, fault kinds, slow reader, interceptors) with at least one delivered message"

// RunAll runs the consumer scenarios of this worker.
// OracleOnly runs consumer scenarios for their oracles alone (no trace lines for a model driver): used by checks whose
// model driver does not replay the feeder's hook events.
func OracleOnly(run *hlib.Run, prop string, sigPrefixes []string, n int) {
	noTrace = true
	RunAll(run, prop, sigPrefixes, n)
	noTrace = false
}

var noTrace bool

func RunAll(run *hlib.Run, prop string, sigPrefixes []string, n int) {
	if n == 0 {
		n = run.N
	}
	if n == 0 {
		n = 250
		if run.Tier == "thorough" {
			n = 6000
		}
	}
	var seeds []uint64
	if lines := run.ReplayLines(); lines != nil {
		for _, l := range lines {
			t := strings.Fields(l)
			s, ok := life.ReplaySeed(t, "cs")
			if len(t) >= 2 && t[0] == "cs" {
				s, _ = strconv.ParseUint(t[1], 10, 64)
				ok = true
			}
			if ok {
				for k := 0; k < 20; k++ {
					seeds = append(seeds, s)
				}
			}
		}
	} else {
		for i := 0; i < n; i++ {
			seeds = append(seeds, run.Seed*1000003+500000+uint64(i))
		}
	}
	hangs := 0
	for idx, s := range seeds {
		if !run.Mine(idx) {
			continue
		}
		if hangs >= 6 {
			run.Count("skipped-after-repeated-hangs") // every hang costs its time bound; the violation is already recorded
			continue
		}
		sc := Gen(s, prop)
		life.Breadcrumb(run.OutDir, "cs "+strconv.FormatUint(s, 10))
		res := Run(sc)
		life.Breadcrumb(run.OutDir, "")
		if res.CloseHang {
			hangs++
		}
		desc := "cs " + strconv.FormatUint(s, 10) + " # " + sc.String()
		if res.NewErr != "" {
			run.Count("consumer-not-created")
			run.Case(desc + " => " + res.NewErr)
			continue
		}
		run.Case(desc)
		total := 0
		for _, d := range res.Delivered {
			total += len(d)
		}
		var ks []string
		for _, f := range sc.Faults {
			ks = append(ks, f.Kind)
			run.Count("fetch-fault:" + f.Kind)
		}
		if len(sc.SlowAt) > 0 {
			run.Count("slow-reader")
		}
		if sc.Icepts > 0 {
			run.Count("consumer-interceptors")
		}
		if sc.CloseAfter >= 0 {
			run.Count("consumer-early-close")
		}
		if total > 0 {
			run.Nontrivial(fmt.Sprintf("%v|%v|%d|%d|%d|%d", sc.Version, ks, len(sc.SlowAt), sc.Icepts, sc.MaxRecs, total))
		}
		if !res.CloseHang && !noTrace {
			run.Emit("scmark cs "+strconv.FormatUint(s, 10), "ok")
			run.Emit("creset", "ok")
			for _, l := range res.Trace {
				run.Emit(l, "ok")
			}
			for _, l := range res.Life {
				run.Emit(l, "ok")
			}
		}
		for _, f := range Check(res) {
			mine := false
			for _, p := range sigPrefixes {
				if strings.HasPrefix(f.Sig, p) {
					mine = true
				}
			}
			if mine {
				run.IOFail(f.Sig, "cs "+strconv.FormatUint(s, 10), f.Detail+" | "+sc.String())
			} else {
				run.Count("other-property-oracle:" + f.Sig)
			}
		}
	}
	if prop == "C12" && run.ReplayLines() == nil {
		rounds := 28
		if run.Tier == "thorough" {
			rounds = 600
		}
		CloseRace(run, rounds, 32)
	}
	if prop == "C12" {
		rounds := 40
		if run.Tier == "thorough" {
			rounds = 800
		}
		StallClose(run, rounds)
	}
}
