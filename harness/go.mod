module verif/harness

go 1.13

require github.com/Shopify/sarama v0.0.0

replace github.com/Shopify/sarama => /repo
