// Package cli: Client close scenarios against the simulated cluster: goroutines use the client API (RefreshMetadata,
// Partitions, Leader, GetOffset, Coordinator) while the metadata answers are delayed, and Close is called at an
// arbitrary moment, then a second time.  Oracle (C12): nothing panics, every call returns within the bound,
// Close returns, the second Close reports ErrClosedClient.
package cli

import (
	"fmt"
	"strconv"
	"strings"
	"sync"
	"time"

	"github.com/Shopify/sarama"
	"verif/harness/hlib"
	"verif/harness/life"
)

const Rule = "client-close scenario = f(seed): 1-3 brokers, 1-3 topics, metadata answers delayed 0-6 ms, 1-4 goroutines calling RefreshMetadata(topic)/Partitions/Leader/WritablePartitions/GetOffset in a loop, Close after 0-12 ms, then Close again. non-trivial = at least one call was in flight when Close was called"

type Fail struct{ Sig, Detail string }

// run1 runs one scenario; with lifecycle recording on (C12) it also returns the hook events of the client and its
// brokers as operation lines for the Lean lifecycle acceptors.
func run1(seed uint64) (fails []Fail, inflight bool, desc string, lifeLines []string) {
	rec := life.Begin(fmt.Sprintf("cl:%d", seed))
	if rec != nil {
		sarama.VerifSinkKV = rec.Event
	}
	fails, inflight, desc = run1core(seed)
	if rec != nil {
		var panics []string
		lifeLines, panics = rec.End()
		sarama.VerifSinkKV = nil
		if len(panics) > 0 {
			fails = append(fails, Fail{"C12:client-goroutine-panic", "recovered in one of sarama's goroutines: " + strings.Join(panics, " | ")})
		}
	}
	return
}

func run1core(seed uint64) (fails []Fail, inflight bool, desc string) {
	r := hlib.NewRand(seed)
	brokers := r.Range(1, 3)
	topics := map[string]int32{}
	nt := r.Range(1, 3)
	for i := 0; i < nt; i++ {
		topics[fmt.Sprintf("t%d", i)] = int32(r.Range(1, 3))
	}
	delay := r.Pick(0, 1, 2, 4, 6)
	workers := r.Range(1, 4)
	closeAfter := r.Pick(0, 1, 2, 3, 5, 8, 12)
	desc = fmt.Sprintf("seed=%d brokers=%d topics=%d metaDelay=%dms workers=%d closeAfter=%dms", seed, brokers, nt, delay, workers, closeAfter)
	sim := sarama.VerifNewSim(brokers, topics)
	defer sim.Close()
	cfg := sarama.NewConfig()
	cfg.Version = sarama.V2_1_0_0
	cfg.Metadata.Retry.Max = 1
	cfg.Metadata.Retry.Backoff = time.Millisecond
	cfg.Metadata.RefreshFrequency = time.Duration(r.Pick(0, 3, 7)) * time.Millisecond
	cfg.Net.ReadTimeout = 200 * time.Millisecond
	cfg.Net.DialTimeout = 500 * time.Millisecond
	c, err := sarama.NewClient(sim.Addrs(), cfg)
	if err != nil {
		return nil, false, desc + " newclient: " + err.Error()
	}
	sim.MetaDelayMs = delay
	var mu sync.Mutex
	add := func(sig, format string, a ...interface{}) {
		mu.Lock()
		fails = append(fails, Fail{sig, fmt.Sprintf(format, a...)})
		mu.Unlock()
	}
	stop := make(chan struct{})
	var wg sync.WaitGroup
	var calls, flying int32
	for w := 0; w < workers; w++ {
		wg.Add(1)
		wr := r.Fork()
		go func() {
			defer wg.Done()
			defer func() {
				if p := recover(); p != nil {
					add("C12:client-close-panic", "a client call panicked while/after Close: %v", p)
				}
			}()
			for {
				select {
				case <-stop:
					return
				default:
				}
				t := fmt.Sprintf("t%d", wr.Intn(nt))
				mu.Lock()
				calls++
				flying++
				mu.Unlock()
				switch wr.Intn(5) {
				case 0:
					_ = c.RefreshMetadata(t)
				case 1:
					_, _ = c.Partitions(t)
				case 2:
					_, _ = c.Leader(t, 0)
				case 3:
					_, _ = c.WritablePartitions(t)
				case 4:
					_, _ = c.GetOffset(t, 0, sarama.OffsetNewest)
				}
				mu.Lock()
				flying--
				mu.Unlock()
			}
		}()
	}
	time.Sleep(time.Duration(closeAfter) * time.Millisecond)
	mu.Lock()
	inflight = flying > 0
	mu.Unlock()
	done := make(chan error, 1)
	go func() {
		defer func() {
			if p := recover(); p != nil {
				add("C12:client-close-panic", "Close panicked: %v", p)
				done <- nil
			}
		}()
		done <- c.Close()
	}()
	select {
	case <-done:
	case <-time.After(8 * time.Second):
		add("C12:client-close-hang", "Client.Close did not return within 8s")
		close(stop)
		return fails, inflight, desc
	}
	// let in-flight answers arrive after Close returned
	time.Sleep(time.Duration(delay+2) * time.Millisecond)
	close(stop)
	wd := make(chan struct{})
	go func() { wg.Wait(); close(wd) }()
	select {
	case <-wd:
	case <-time.After(8 * time.Second):
		add("C12:client-call-hang-after-close", "a client call did not return within 8s after Close")
	}
	func() {
		defer func() {
			if p := recover(); p != nil {
				add("C12:client-close-panic", "second Close panicked: %v", p)
			}
		}()
		if err := c.Close(); err != sarama.ErrClosedClient {
			add("C12:client-second-close", "second Close returned %v, want ErrClosedClient", err)
		}
	}()
	return fails, inflight, desc
}

func RunAll(run *hlib.Run, prop string, sigPrefixes []string, n int) {
	if n == 0 {
		n = run.N
	}
	if n == 0 {
		n = 200
		if run.Tier == "thorough" {
			n = 4000
		}
	}
	var seeds []uint64
	if lines := run.ReplayLines(); lines != nil {
		for _, l := range lines {
			t := strings.Fields(l)
			s, ok := life.ReplaySeed(t, "cl")
			if len(t) >= 2 && t[0] == "cl" {
				s, _ = strconv.ParseUint(t[1], 10, 64)
				ok = true
			}
			if ok {
				for k := 0; k < 30; k++ {
					seeds = append(seeds, s)
				}
			}
		}
	} else {
		for i := 0; i < n; i++ {
			seeds = append(seeds, run.Seed*1000003+900000+uint64(i))
		}
	}
	for idx, s := range seeds {
		if !run.Mine(idx) {
			continue
		}
		life.Breadcrumb(run.OutDir, "cl "+strconv.FormatUint(s, 10))
		fails, inflight, desc, lifeLines := run1(s)
		life.Breadcrumb(run.OutDir, "")
		run.Case("cl " + strconv.FormatUint(s, 10) + " # " + desc)
		hung := false
		for _, f := range fails {
			if strings.Contains(f.Sig, "hang") {
				hung = true
			}
		}
		if !hung {
			for _, l := range lifeLines {
				run.Emit(l, "ok")
			}
		}
		if inflight {
			run.Count("client-close-with-call-in-flight")
			run.Nontrivial(desc)
		} else {
			run.Count("client-close-idle")
		}
		for _, f := range fails {
			mine := false
			for _, p := range sigPrefixes {
				if strings.HasPrefix(f.Sig, p) {
					mine = true
				}
			}
			if mine {
				run.IOFail(f.Sig, "cl "+strconv.FormatUint(s, 10), f.Detail+" | "+desc)
			}
		}
	}
}
