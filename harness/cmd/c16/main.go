// Harness for C16: size / count limits of produce requests and the flush predicates, on the REAL produceSet,
// dispatcher, request encoder and brokerProducer.run loop.
//
// Every case is a list of op lines (syntax: lean/SaramaVerif/Driver/C16.lean).  The same interpreter executes
// generated and replayed lines; the generators look at the real set to aim sizes at the limits.
package main

import (
	"verif/harness/pipe"
	"fmt"
	"strconv"
	"strings"
	"time"

	"github.com/Shopify/sarama"
	"verif/harness/cmd/c16/psh"
	"verif/harness/hlib"
)

var run *hlib.Run

type tpKey struct {
	t int
	p int32
}

// interp executes op lines against the real code.
type interp struct {
	conf      psh.Conf
	cfg       *sarama.Config
	stub      *sarama.VerifStub
	set       *sarama.VerifSet
	topicLens []int
	lines     []string // op lines of the current case (replay input for oracle failures)
	inSet     map[tpKey][]psh.Msg
	plain     bool // the case contains adds without the overflow discipline: the limits do not apply

	bp       *sarama.VerifBP
	bpBuf    map[tpKey][]psh.Msg // messages in the run loop's buffer
	inflight []*flight
}

type flight struct {
	set  *sarama.VerifSet
	msgs map[tpKey][]psh.Msg
}

func (it *interp) input() string { return strings.Join(it.lines, "\n") }

func (it *interp) fail(sig, detail string) { run.IOFail(sig, it.input(), detail) }

// slowFail: a failure that was detected by running into the 8 s timeout; after a few of them the run-loop
// stream stops (otherwise a broken loop turns every remaining op into a timeout)
func (it *interp) slowFail(sig, detail string) {
	slowFails++
	it.fail(sig, detail)
}

var slowFails int

func (it *interp) reset(c psh.Conf) {
	if it.bp != nil {
		it.bp.Stop()
		it.bp = nil
	}
	it.conf = c
	it.cfg = c.Config()
	pid := int64(-1)
	if c.Idem {
		pid = 4711
	}
	it.stub = sarama.VerifNewStub(it.cfg, pid, 0, 1<<16)
	it.set = it.stub.NewSet()
	it.inSet = map[tpKey][]psh.Msg{}
	it.bpBuf = map[tpKey][]psh.Msg{}
	it.inflight = nil
	it.plain = false
}

func b2s(b bool) string {
	if b {
		return "1"
	}
	return "0"
}

func kvLen(m psh.Msg) int {
	n := 0
	if m.KLen > 0 {
		n += m.KLen
	}
	if m.VLen > 0 {
		n += m.VLen
	}
	return n
}

// checkLimits evaluates the limits of the property statement on a set that could be handed over now.
func (it *interp) checkLimits(set *sarama.VerifSet, in map[tpKey][]psh.Msg, where string) {
	c := it.conf
	if c.MaxM > 0 && set.BufferCount() > c.MaxM {
		it.fail("count-limit-exceeded", fmt.Sprintf("%s: bufferCount %d > Flush.MaxMessages %d", where, set.BufferCount(), c.MaxM))
	}
	total := 0
	for k, ms := range in {
		bb, real, ok := set.Part(psh.TopicName(k.t, it.tlen(k.t)), k.p)
		if !ok || len(real) != len(ms) {
			it.fail("partition-set-differs-from-submitted", fmt.Sprintf("%s: %v has %d messages, submitted %d", where, k, len(real), len(ms)))
			continue
		}
		total += len(ms)
		sum := 0
		for _, m := range ms {
			sum += kvLen(m)
		}
		if len(ms) >= 2 && sum > c.MMB {
			it.fail("batch-bytes-exceed-MaxMessageBytes", fmt.Sprintf("%s: %v carries %d key+value bytes in %d messages, MaxMessageBytes %d", where, k, sum, len(ms), c.MMB))
		}
		if len(ms) >= 2 && bb >= c.MMB {
			// the stronger invariant the proof establishes (batch_bytes_limit): the running estimate stays below the limit
			it.fail("batch-estimate-reaches-MaxMessageBytes", fmt.Sprintf("%s: %v bufferBytes %d with %d messages, MaxMessageBytes %d", where, k, bb, len(ms), c.MMB))
		}
	}
	if total != set.BufferCount() {
		it.fail("buffer-count-differs-from-submitted", fmt.Sprintf("%s: bufferCount %d, submitted %d", where, set.BufferCount(), total))
	}
}

func (it *interp) tlen(t int) int {
	if t < len(it.topicLens) {
		return it.topicLens[t]
	}
	return 1
}

// readyOracle: the trigger table of the property statement.
func (it *interp) readyOracle(set *sarama.VerifSet, got bool) {
	c := it.conf
	want := false
	switch {
	case set.BufferCount() == 0:
		want = false
	case c.FF == 0 && c.FB == 0 && c.FM == 0:
		want = true
	case c.FM > 0 && set.BufferCount() >= c.FM:
		want = true
	case c.FB > 0 && set.BufferBytes() >= c.FB:
		want = true
	}
	if got != want {
		it.fail("ready-to-flush-wrong", fmt.Sprintf("count %d bytes %d Flush{Messages %d Bytes %d Frequency %d}: readyToFlush %v", set.BufferCount(), set.BufferBytes(), c.FM, c.FB, c.FF, got))
	}
}

func (it *interp) exec(line string) {
	t := strings.Fields(line)
	if len(t) == 0 {
		return
	}
	if t[0] == "conf" {
		it.lines = nil
	}
	it.lines = append(it.lines, line)
	out := run.Safe(it.input(), func() string { return it.do(t) })
	run.Emit(line, out)
}

func (it *interp) do(t []string) string {
	switch t[0] {
	case "conf":
		it.reset(psh.ParseConf(t))
		// re-emit with the gates the real code answers (a replayed line may carry stale flags)
		return "ok"
	case "topics":
		it.topicLens = nil
		for _, x := range psh.ParseHdrs(t[1]) {
			it.topicLens = append(it.topicLens, x)
		}
		return "ok"
	case "consts":
		a, b, c := sarama.VerifConsts()
		return fmt.Sprintf("pmo=%d mro=%d rbo=%d mv32=%d margin=%d mrs=%d", a, b, c, 5, 10*1024, defaultMRS)
	case "bs":
		m := psh.Msg{KLen: parseLen(t[2]), VLen: parseLen(t[3]), Hdrs: psh.ParseHdrs(t[4]), TS: -1}
		return strconv.Itoa(sarama.VerifByteSize(m.Build(it.topicLens), hlib.Atoi(t[1])))
	case "disp":
		return it.doDisp(t)
	case "add":
		return it.doAdd(t)
	case "drop":
		k := tpKey{hlib.Atoi(t[1]), int32(hlib.Atoi(t[2]))}
		dropped := it.set.DropPartition(psh.TopicName(k.t, it.tlen(k.t)), k.p)
		if len(dropped) != len(it.inSet[k]) {
			it.fail("drop-partition-returned-wrong-messages", fmt.Sprintf("%v: %d returned, %d submitted", k, len(dropped), len(it.inSet[k])))
		}
		delete(it.inSet, k)
		if !it.plain {
			it.checkLimits(it.set, it.inSet, "after drop")
		}
		rtf := it.set.ReadyToFlush()
		it.readyOracle(it.set, rtf)
		return fmt.Sprintf("n=%d bb=%d bc=%d rtf=%s empty=%s", len(dropped), it.set.BufferBytes(), it.set.BufferCount(), b2s(rtf), b2s(it.set.Empty()))
	case "wire":
		return it.doWire(t)
	case "bpmsg", "bptimer", "bptake", "bpdrop":
		return it.doBP(t)
	}
	return "bad-op"
}

func parseLen(s string) int {
	if s == "n" {
		return -1
	}
	return hlib.Atoi(s)
}

var defaultMRS int32

func (it *interp) doDisp(t []string) string {
	m := psh.Msg{KLen: parseLen(t[2]), VLen: parseLen(t[3]), Hdrs: psh.ParseHdrs(t[4]), TS: -1}
	pm := m.Build(it.topicLens)
	if t[1] == "1" && pm.Headers == nil {
		pm.Headers = []sarama.RecordHeader{}
	}
	stub := sarama.VerifNewStub(it.cfg, -1, 0, 16)
	res := stub.Dispatch([]*sarama.ProducerMessage{pm}, 10*time.Second)[0]
	_, v2, _ := it.conf.Gates()
	ver := 1
	if v2 {
		ver = 2
	}
	// property statement: a message whose size exceeds MaxMessageBytes is rejected instead of being sent
	if res == "forward" && (kvLen(m) > it.conf.MMB || sarama.VerifByteSize(pm, ver) > it.conf.MMB) {
		it.fail("oversize-message-forwarded", fmt.Sprintf("key+value %d, byteSize %d, MaxMessageBytes %d", kvLen(m), sarama.VerifByteSize(pm, ver), it.conf.MMB))
	}
	if res == "tooLarge" && sarama.VerifByteSize(pm, ver) <= it.conf.MMB {
		it.fail("fitting-message-rejected", fmt.Sprintf("byteSize %d, MaxMessageBytes %d", sarama.VerifByteSize(pm, ver), it.conf.MMB))
	}
	switch res {
	case "forward":
		return "forward"
	case "tooLarge":
		return "errTooLarge"
	case "confErr":
		return "errHeaders"
	}
	it.fail("dispatcher-lost-message", res)
	return res
}

func (it *interp) doAdd(t []string) string {
	chk := t[1] == "1"
	if !chk {
		it.plain = true
	}
	m := psh.ParseMsg(t[3:])
	pm := m.Build(it.topicLens)
	wo := it.set.WouldOverflow(pm)
	if wo && chk {
		// hand-over point: this set goes to the bridge as it is
		if !it.plain {
			it.checkLimits(it.set, it.inSet, "hand-over")
		}
		it.set = it.stub.NewSet()
		it.inSet = map[tpKey][]psh.Msg{}
		run.Count("hand-over")
	}
	err := it.set.Add(pm)
	k := tpKey{m.Topic, m.Part}
	if err == nil {
		it.inSet[k] = append(it.inSet[k], m)
	}
	if chk && !it.plain {
		// every state of the buffer may be handed over (the bridge takes it whenever it is free)
		it.checkLimits(it.set, it.inSet, "after add")
	}
	rtf := it.set.ReadyToFlush()
	it.readyOracle(it.set, rtf)
	pbb, pms, ok := it.set.Part(pm.Topic, pm.Partition)
	ps := "pbb=- pn=0"
	if ok {
		ps = fmt.Sprintf("pbb=%d pn=%d", pbb, len(pms))
	}
	if wo {
		run.Count("add-overflow")
	} else {
		run.Count("add-fits")
	}
	return fmt.Sprintf("wo=%s ok=%s bb=%d bc=%d %s rtf=%s empty=%s", b2s(wo), b2s(err == nil), it.set.BufferBytes(), it.set.BufferCount(), ps, b2s(rtf), b2s(it.set.Empty()))
}

// doWire: real buildRequest + real framed encode of the current set; the size limit of the property on the bytes.
func (it *interp) doWire(t []string) string {
	cid := strings.Repeat("c", hlib.Atoi(t[1]))
	req := it.set.BuildRequest()
	b, err := sarama.VerifEncodeRequest(req, cid, 7)
	if err != nil {
		if _, ok := err.(sarama.PacketEncodingError); !ok {
			it.fail("encode-failed-otherwise", err.Error())
		}
		run.Count("wire-rejected")
		return "acc=0"
	}
	if len(b) > it.conf.MRS {
		it.fail("request-exceeds-MaxRequestSize", fmt.Sprintf("%d bytes on the wire, MaxRequestSize %d", len(b), it.conf.MRS))
	}
	run.Count("wire-accepted")
	return fmt.Sprintf("acc=1 size=%d", len(b))
}

// sizeOnly: encode check for sets whose exact size the model does not predict (compression, clock-dependent deltas).
func (it *interp) sizeOnly(set *sarama.VerifSet) { it.sizeOnlySig(set, "buildRequest-panics") }

func (it *interp) sizeOnlySig(set *sarama.VerifSet, sig string) {
	defer func() {
		if p := recover(); p != nil {
			run.Count("size-panic")
			in := it.input()
			if len(it.lines) > 200 {
				in = it.lines[0] + "\n" + it.lines[1] + fmt.Sprintf("\n# ... %d more lines, last: ", len(it.lines)-2) + it.lines[len(it.lines)-1]
			}
			run.IOFail(sig, in, fmt.Sprintf("bufferBytes %d bufferCount %d MaxRequestSize %d: %v", set.BufferBytes(), set.BufferCount(), it.conf.MRS, p))
		}
	}()
	req := set.BuildRequest()
	b, err := sarama.VerifEncodeRequest(req, "verif", 7)
	if err != nil {
		if _, ok := err.(sarama.PacketEncodingError); !ok {
			it.fail("encode-failed-otherwise", err.Error())
		}
		run.Count("size-rejected")
		return
	}
	run.Count("size-accepted")
	if len(b) > it.conf.MRS {
		it.fail("request-exceeds-MaxRequestSize", fmt.Sprintf("%d bytes on the wire, MaxRequestSize %d", len(b), it.conf.MRS))
	}
}

// ---- the real run loop -------------------------------------------------------------------------------

const long = 8 * time.Second

func countOf(m map[tpKey][]psh.Msg) int {
	n := 0
	for _, v := range m {
		n += len(v)
	}
	return n
}

func (it *interp) startBP() {
	if it.bp == nil {
		it.bp = it.stub.StartBP()
		it.bpBuf = map[tpKey][]psh.Msg{}
	}
}

// taken: a set arrived at the bridge: check it against what the loop was given, and the limits.
func (it *interp) taken(set *sarama.VerifSet) int {
	it.checkLimits(set, it.bpBuf, "run loop hand-over")
	it.sizeOnly(set)
	it.inflight = append(it.inflight, &flight{set: set, msgs: it.bpBuf})
	n := set.BufferCount()
	it.bpBuf = map[tpKey][]psh.Msg{}
	run.Count("bp-hand-over")
	return n
}

func (it *interp) bpLine(out string) string {
	if !it.bp.Sync(long) {
		it.slowFail("run-loop-stuck", "no progress on input within 8 s")
		return "stuck"
	}
	armed, _, _, bc := it.bp.Peek()
	return fmt.Sprintf("armed=%s bc=%d out=%s", b2s(armed), bc, out)
}

func (it *interp) doBP(t []string) string {
	it.startBP()
	if !it.bp.Sync(long) {
		it.slowFail("run-loop-stuck", "no progress on input within 8 s")
		return "stuck"
	}
	switch t[0] {
	case "bpmsg":
		m := psh.ParseMsg(t[2:])
		pm := m.Build(it.topicLens)
		wo := it.bp.Buffer().WouldOverflow(pm)
		if !it.bp.Send(pm, long) {
			it.slowFail("run-loop-stuck", "message not accepted within 8 s")
			return "stuck"
		}
		out := "-"
		if wo {
			// the loop now sits in waitForSpace until the bridge takes the buffer
			set := it.bp.Take(long)
			if set == nil {
				it.slowFail("overflowing-buffer-not-handed-over", "nothing on the output within 8 s although the message would overflow")
				return "stuck"
			}
			out = strconv.Itoa(it.taken(set))
		}
		k := tpKey{m.Topic, m.Part}
		it.bpBuf[k] = append(it.bpBuf[k], m)
		if !it.bp.Sync(long) {
			it.slowFail("run-loop-stuck", "no progress after a message within 8 s")
			return "stuck"
		}
		it.checkLimits(it.bp.Buffer(), it.bpBuf, "run loop buffer")
		return it.bpLine(out)
	case "bptimer":
		// wait for the real timer (Flush.Frequency must be short in such a case)
		deadline := time.Now().Add(long)
		for {
			if !it.bp.Sync(long) {
				return "stuck"
			}
			armed, fired, _, _ := it.bp.Peek()
			if fired || !armed || time.Now().After(deadline) {
				if armed && !fired {
					it.slowFail("flush-timer-never-fired", fmt.Sprintf("Flush.Frequency %d ns, waited 8 s", it.conf.FF))
				}
				return "fired=" + b2s(fired) + " " + it.bpLine("-")
			}
			time.Sleep(200 * time.Microsecond)
		}
	case "bptake":
		_, fired, ready, bc := it.bp.Peek()
		want := fired || ready
		wait := 3 * time.Millisecond
		if want {
			wait = long
		}
		set := it.bp.Take(wait)
		out := "-"
		if set != nil {
			if !want {
				it.fail("output-enabled-though-no-trigger-fired", fmt.Sprintf("buffer of %d messages was handed over; timer fired %v, readyToFlush %v", bc, fired, ready))
			}
			out = strconv.Itoa(it.taken(set))
		} else if want {
			// property: a buffered message is sent once a trigger fires, without waiting for further input
			it.slowFail("buffer-not-offered-though-trigger-fired", fmt.Sprintf("%d messages buffered, timer fired %v, readyToFlush %v, nothing on the output within 8 s", bc, fired, ready))
		}
		return it.bpLine(out)
	case "bpdrop":
		k := tpKey{hlib.Atoi(t[1]), int32(hlib.Atoi(t[2]))}
		// a response for the oldest in-flight set: retriable error for k, success for the rest
		if len(it.inflight) == 0 {
			return it.bpLine("-")
		}
		f := it.inflight[0]
		it.inflight = it.inflight[1:]
		res := &sarama.ProduceResponse{}
		for kk := range f.msgs {
			e := sarama.ErrNoError
			if kk == k {
				e = sarama.ErrNotLeaderForPartition
			}
			res.AddTopicPartition(psh.TopicName(kk.t, it.tlen(kk.t)), kk.p, e)
		}
		if !it.bp.Respond(f.set, res, long) {
			it.slowFail("run-loop-stuck", "response not accepted within 8 s")
			return "stuck"
		}
		delete(it.bpBuf, k)
		line := it.bpLine("-")
		it.bp.Drain()
		return line
	}
	return "bad-op"
}

// ---- generators ---------------------------------------------------------------------------------------

type gen struct {
	r  *hlib.Rand
	it *interp
	id int
}

func (g *gen) conf(small bool) psh.Conf {
	r := g.r
	c := psh.Conf{Ver: psh.Versions[r.Intn(len(psh.Versions))], MRS: int(defaultMRS), MMB: 1000000}
	for {
		c.Codec = r.Pick(0, 0, 0, 1, 2, 3, 4)
		if c.CodecOK() || r.Chance(1, 20) {
			break
		}
	}
	if small {
		c.MMB = r.Pick(60, 100, 150, 300, 1000, 5000)
		if r.Chance(1, 2) {
			c.MRS = 10240 + r.Pick(200, 500, 1000, 3000, 20000)
		}
	}
	if r.Chance(1, 2) {
		c.MaxM = r.Range(1, 6)
	}
	switch r.Intn(4) {
	case 0: // nothing set: flush as fast as possible
	case 1:
		c.FM = r.Range(1, 5)
	case 2:
		c.FB = r.Pick(1, 50, 200, 1000)
	case 3:
		c.FM, c.FB = r.Range(0, 4), r.Pick(0, 100, 400)
	}
	if r.Chance(1, 3) {
		c.FF = int64(time.Hour)
	}
	_, v2, _ := c.Gates()
	if v2 && r.Chance(1, 6) {
		c.Idem = true
	}
	return c
}

func (g *gen) topics() []int {
	n := g.r.Range(1, 4)
	out := make([]int, n)
	for i := range out {
		out[i] = g.r.Pick(1, 1, 3, 8, 40, 249)
	}
	return out
}

func (g *gen) hdrs(v2 bool) []int {
	if !v2 || g.r.Chance(2, 3) {
		return nil
	}
	n := g.r.Range(1, 3)
	var h []int
	for i := 0; i < n; i++ {
		h = append(h, g.r.Pick(0, 1, 3, 20), g.r.Pick(0, 1, 5, 40))
	}
	return h
}

// msg aims the size of the next message at one of the limits of the current set.
func (g *gen) msg(set *sarama.VerifSet, c psh.Conf, ntopics int, allTS bool) psh.Msg {
	r := g.r
	g.id++
	_, v2, _ := c.Gates()
	m := psh.Msg{ID: g.id, Topic: r.Intn(ntopics), Part: int32(r.Intn(3)), TS: -1, Hdrs: g.hdrs(v2)}
	if allTS || r.Chance(1, 2) {
		m.TS = 1600000000000 + int64(r.Intn(5000))
	}
	over := 26
	if v2 {
		over = 36
		for i := 0; i+1 < len(m.Hdrs); i += 2 {
			over += m.Hdrs[i] + m.Hdrs[i+1] + 10
		}
	}
	pbb, _, _ := set.Part(psh.TopicName(m.Topic, g.it.tlen(m.Topic)), m.Part)
	payload := 0
	switch r.Intn(8) {
	case 0, 1: // small
		payload = r.Range(0, 12)
	case 2, 3: // partition batch limit: pbb + over + payload == MMB + d
		payload = c.MMB - pbb - over + r.Range(-2, 2)
	case 4: // request limit
		payload = c.MRS - 10240 - set.BufferBytes() - over + r.Range(-2, 2)
	case 5: // the message's own limit (dispatcher)
		payload = c.MMB - over + r.Range(-2, 2)
	case 6:
		payload = r.Range(0, c.MMB/2+1)
	case 7:
		payload = r.Range(0, 40)
	}
	if payload < 0 {
		payload = r.Range(0, 5)
	}
	if payload > 200000 {
		payload = 200000 - r.Intn(100)
	}
	switch r.Intn(4) {
	case 0:
		m.KLen, m.VLen = -1, payload
	case 1:
		m.KLen, m.VLen = payload, -1
	case 2:
		k := r.Intn(payload + 1)
		m.KLen, m.VLen = k, payload-k
	default:
		m.KLen, m.VLen = 0, payload
	}
	return m
}

func lensTok(l []int) string { return psh.HdrTok(l) }

// setCase: op sequences through a produce set under the broker producer's discipline.
func (g *gen) setCase() {
	it := g.it
	c := g.conf(true)
	it.exec(c.Line())
	tl := g.topics()
	it.exec("topics " + lensTok(tl))
	_, v2, _ := c.Gates()
	exact := c.Codec == 0 // the model predicts the exact wire size of uncompressed requests
	allTS := exact && v2
	n := g.r.Range(3, 40)
	chk := "1"
	if g.r.Chance(1, 8) {
		chk = "0" // plain add sequences (no overflow discipline): estimates and predicates only
	}
	nontrivial := false
	for i := 0; i < n; i++ {
		if g.r.Chance(1, 15) && len(it.inSet) > 0 {
			first := true
			var k tpKey
			for kk := range it.inSet { // smallest key: independent of map order
				if first || kk.t < k.t || (kk.t == k.t && kk.p < k.p) {
					k, first = kk, false
				}
			}
			it.exec(fmt.Sprintf("drop %d %d", k.t, k.p))
			continue
		}
		m := g.msg(it.set, c, len(tl), allTS)
		if c.Idem {
			m.Seq = int32(g.r.Range(0, 6))
		}
		pm := m.Build(tl)
		if chk == "1" && it.set.WouldOverflow(pm) {
			nontrivial = true
			g.wire(exact)
		}
		it.exec("add " + chk + " 0 " + m.Tokens())
	}
	g.wire(exact)
	if nontrivial {
		run.Nontrivial(it.input())
	}
	run.Count(fmt.Sprintf("set-case v=%s codec=%d", c.Ver, c.Codec))
}

func (g *gen) wire(exact bool) {
	if g.it.set.Empty() && g.r.Chance(3, 4) {
		return
	}
	if exact {
		g.it.exec(fmt.Sprintf("wire %d", g.r.Pick(0, 5, 30)))
	} else if !g.it.plain {
		g.it.sizeOnly(g.it.set)
	}
}

// gridCase: exhaustive small grid around each limit for one version generation.
func (g *gen) grid(ver string) {
	it := g.it
	for _, mmb := range []int{120, 200} {
		for _, maxm := range []int{0, 1, 2, 3} {
			for _, fm := range []int{0, 1, 2} {
				for _, fb := range []int{0, 150} {
					for _, ff := range []int64{0, int64(time.Hour)} {
						c := psh.Conf{Ver: ver, MRS: 10240 + 400, MMB: mmb, MaxM: maxm, FM: fm, FB: fb, FF: ff}
						it.exec(c.Line())
						it.exec("topics 2,5")
						_, v2, _ := c.Gates()
						over := 26
						if v2 {
							over = 36
						}
						// second message of a partition hits MMB-1, MMB, MMB+1 in turn; then a third partition fills the request
						for _, d := range []int{-1, 0, 1} {
							g.id++
							it.exec("add 1 0 " + psh.Msg{ID: g.id, KLen: -1, VLen: 10, TS: 1600000000000}.Tokens())
							first, _, _ := it.set.Part(psh.TopicName(0, 2), 0)
							g.id++
							it.exec("add 1 0 " + psh.Msg{ID: g.id, KLen: 3, VLen: mmb - first - over - 3 + d, TS: 1600000000001}.Tokens())
							g.id++
							it.exec("add 1 0 " + psh.Msg{ID: g.id, Topic: 1, Part: 2, KLen: 0, VLen: 400 - it.set.BufferBytes() - over + d, TS: 1600000000002}.Tokens())
							it.exec("wire 4")
							g.id++
							it.exec("add 1 0 " + psh.Msg{ID: g.id, Topic: 1, Part: 1, KLen: -1, VLen: -1, TS: 1600000000003}.Tokens())
						}
						run.Count("grid-case")
					}
				}
			}
		}
	}
}

func (g *gen) dispCases(n int) {
	it := g.it
	for i := 0; i < n; i++ {
		c := g.conf(true)
		it.exec(c.Line())
		_, v2, _ := c.Gates()
		over := 26
		if v2 {
			over = 36
		}
		for _, d := range []int{-40, -27, -26, -25, -1, 0, 1, 2, 37} {
			pl := c.MMB - over + d
			if pl < 0 {
				continue
			}
			k := g.r.Intn(pl + 1)
			it.exec(fmt.Sprintf("disp 0 %d %d -", k, pl-k))
		}
		if v2 {
			it.exec(fmt.Sprintf("disp 1 3 %d 2,3", c.MMB-36-15-3+g.r.Range(-1, 1)))
		} else {
			it.exec(fmt.Sprintf("disp 1 3 %d -", g.r.Range(0, c.MMB)))
			it.exec("disp 1 3 4 1,1")
		}
		it.exec(fmt.Sprintf("bs %d %d %d %s", g.r.Range(0, 3), g.r.Range(0, 50), g.r.Range(0, 50), psh.HdrTok(g.hdrs(true))))
		run.Count("disp-case")
	}
}

// bpCase: the real run loop, with the harness as partition producers, bridge and broker.
func (g *gen) bpCase(timer bool) {
	it := g.it
	c := g.conf(true)
	c.Idem = false
	if timer {
		c.FF = int64(2 * time.Millisecond)
		if c.FM == 0 && c.FB == 0 {
			c.FM = g.r.Range(2, 5) // otherwise everything is ready at once and the timer never matters
		}
	} else if c.FF != 0 {
		c.FF = int64(time.Hour)
	}
	it.exec(c.Line())
	tl := g.topics()
	it.exec("topics " + lensTok(tl))
	n := g.r.Range(3, 25)
	retrying := map[tpKey]bool{}
	timerEmitted := false
	for i := 0; i < n && slowFails < 3; i++ {
		it.startBP()
		it.bp.Sync(long)
		armed, _, _, bc := it.bp.Peek()
		switch x := g.r.Intn(10); {
		case x < 6:
			m := g.msg(it.bp.Buffer(), c, len(tl), false)
			if retrying[tpKey{m.Topic, m.Part}] {
				continue
			}
			if it.bp.Buffer().WouldOverflow(m.Build(tl)) {
				timerEmitted = false
			}
			it.exec("bpmsg 0 " + m.Tokens())
			if bc == 0 {
				timerEmitted = false
			}
		case x < 9:
			if timer && armed && !timerEmitted {
				it.exec("bptimer")
				timerEmitted = true
			}
			it.exec("bptake")
			timerEmitted = false
		default:
			if len(it.inflight) > 0 {
				f := it.inflight[0]
				k := tpKey{99, 0} // a partition that is not in the response's set: plain success for all
				if g.r.Chance(2, 3) {
					first := true
					for kk := range f.msgs { // smallest key: independent of map order
						if first || kk.t < k.t || (kk.t == k.t && kk.p < k.p) {
							k = kk
							first = false
						}
					}
					retrying[k] = true
				}
				_, has := it.bpBuf[k]
				it.exec(fmt.Sprintf("bpdrop %d %d", k.t, k.p))
				if has && countOf(it.bpBuf) == 0 {
					timerEmitted = false
				}
			}
		}
	}
	if timer {
		it.bp.Sync(long)
		if armed, _, _, _ := it.bp.Peek(); armed && !timerEmitted {
			it.exec("bptimer")
		}
		it.exec("bptake")
	}
	run.Nontrivial(it.input())
	run.Count("bp-case")
	it.bp.Stop()
	it.bp = nil
}

func main() {
	defaultMRS = sarama.MaxRequestSize
	run = hlib.Start("C16")
	it := &interp{}
	if lines := run.ReplayLines(); lines != nil {
		it.reset(psh.Conf{Ver: "1.0.0", MRS: int(defaultMRS), MMB: 1000000})
		for _, l := range lines {
			if strings.HasPrefix(l, "sc ") {
				continue // a pipeline scenario: replayed below
			}
			it.exec(l)
		}
		pipe.OracleOnly(run, "C16", []string{"C16:"}, 0)
		run.Finish("replay")
		return
	}
	g := &gen{r: hlib.NewRand(run.Seed), it: it}
	n := run.N
	if n == 0 {
		n = 1500
		if run.Tier == "thorough" {
			n = 40000
		}
	}
	it.reset(psh.Conf{Ver: "1.0.0", MRS: int(defaultMRS), MMB: 1000000})
	it.exec("consts")
	for _, v := range []string{"0.8.2.0", "0.10.2.1", "0.11.0.0", "2.1.0"} {
		g.grid(v)
	}
	g.dispCases(n / 30)
	for i := 0; i < n; i++ {
		g.setCase()
	}
	for i := 0; i < n/12 && slowFails < 3; i++ {
		g.bpCase(false)
	}
	for i := 0; i < n/60 && slowFails < 3; i++ {
		g.bpCase(true)
	}
	g.undercount()
	// default limits: one request-limit case with the real 100 MiB MaxRequestSize and 1 MB messages
	g.bigCase()
	// end-to-end: the real pipeline against the simulated cluster (broker latency, tight limits, fault scripts);
	// the C16 oracles are evaluated on what the brokers received and on the success events
	pipe.OracleOnly(run, "C16", []string{"C16:"}, 160)
	run.Finish("set cases: conf x topics x 3..40 adds/drops with sizes aimed at MaxMessageBytes / MaxRequestSize-10KiB / own size limit (+-2), " +
		"grid: MMB x MaxMessages x Flush.Messages x Flush.Bytes x Frequency x version generation with the boundary hit at -1/0/+1; " +
		"disp: dispatcher verdict at byteSize = MMB-1,MMB,MMB+1; bp: the real run loop. non-trivial = a case in which at least one add met wouldOverflow=true (or any run-loop case)")
}

// bigCase: default MaxRequestSize, messages just under 1 MB until the request limit is hit.
func (g *gen) bigCase() {
	it := g.it
	c := psh.Conf{Ver: "2.1.0", MRS: int(defaultMRS), MMB: 1000000}
	it.exec(c.Line())
	it.exec("topics 4")
	for i := 0; i < 110; i++ {
		g.id++
		m := psh.Msg{ID: g.id, Part: int32(i), KLen: -1, VLen: 999900 + g.r.Range(0, 64), TS: 1600000000000}
		if it.set.WouldOverflow(m.Build([]int{4})) {
			it.exec("wire 5")
		}
		it.exec("add 1 0 " + m.Tokens())
	}
	run.Count("big-case")
}

// undercount: format-1 messages cost 34 bytes on the wire but 26 in the estimate; after 1280 messages of one
// request the 10 KiB margin is used up.  Uncompressed: the encoder refuses the request (the size limit holds);
// compressed: see known_findings.d/C16.json.
func (g *gen) undercount() {
	it := g.it
	for _, codec := range []int{0, 1} {
		c := psh.Conf{Ver: "0.10.2.1", Codec: codec, MRS: 60000, MMB: 55000}
		it.exec(c.Line())
		it.exec("topics 1")
		for i := 0; i < 1913; i++ {
			g.id++
			it.exec("add 1 0 " + psh.Msg{ID: g.id, KLen: -1, VLen: 0, TS: 1600000000000}.Tokens())
		}
		if codec == 0 {
			it.exec("wire 0")
		} else {
			it.sizeOnlySig(it.set, "buildRequest-panics-inner-set-exceeds-MaxRequestSize")
		}
		run.Count("undercount-case")
	}
}
