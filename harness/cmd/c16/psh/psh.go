// Package psh: shared pieces of the C16 and C04 harnesses (op-line syntax of the produce-set model drivers,
// deterministic construction of configurations and messages).
package psh

import (
	"bytes"
	"fmt"
	"strconv"
	"strings"
	"time"

	"github.com/Shopify/sarama"
)

// Versions the generators draw from (one or more per generation of the produce path).
var Versions = []string{"0.8.2.0", "0.9.0.1", "0.10.0.0", "0.10.2.1", "0.11.0.0", "1.0.0", "2.0.1", "2.1.0", "2.8.0"}

// Conf is the configuration part a produce set reads.
type Conf struct {
	Ver   string
	Codec int
	Idem  bool
	MRS   int // sarama.MaxRequestSize
	MMB   int
	FM    int
	FB    int
	FF    int64 // Flush.Frequency in ns
	MaxM  int
}

func b2s(b bool) string {
	if b {
		return "1"
	}
	return "0"
}

func (c Conf) Version() sarama.KafkaVersion {
	v, err := sarama.ParseKafkaVersion(c.Ver)
	if err != nil {
		panic(err)
	}
	return v
}

// Gates are the answers of the real KafkaVersion.IsAtLeast for the three thresholds the produce path uses.
func (c Conf) Gates() (v1, v2, v21 bool) {
	v := c.Version()
	return v.IsAtLeast(sarama.V0_10_0_0), v.IsAtLeast(sarama.V0_11_0_0), v.IsAtLeast(sarama.V2_1_0_0)
}

// Line is the `conf` op line.
func (c Conf) Line() string {
	v1, v2, v21 := c.Gates()
	return fmt.Sprintf("conf %s %s %s %s %d %s %d %d %d %d %d %d", c.Ver, b2s(v1), b2s(v2), b2s(v21), c.Codec, b2s(c.Idem),
		c.MRS, c.MMB, c.FM, c.FB, c.FF, c.MaxM)
}

func atoi(s string) int {
	n, _ := strconv.Atoi(s)
	return n
}

// ParseConf reads a `conf` op line (the gate flags on the line are ignored: they are recomputed).
func ParseConf(t []string) Conf {
	ff, _ := strconv.ParseInt(t[11], 10, 64)
	return Conf{Ver: t[1], Codec: atoi(t[5]), Idem: t[6] == "1", MRS: atoi(t[7]), MMB: atoi(t[8]), FM: atoi(t[9]), FB: atoi(t[10]),
		FF: ff, MaxM: atoi(t[12])}
}

// Config builds the sarama configuration and sets the global MaxRequestSize.
func (c Conf) Config() *sarama.Config {
	cfg := sarama.NewConfig()
	cfg.Version = c.Version()
	cfg.Producer.Compression = sarama.CompressionCodec(c.Codec)
	cfg.Producer.Idempotent = c.Idem
	if c.Idem {
		cfg.Producer.RequiredAcks = sarama.WaitForAll
		cfg.Net.MaxOpenRequests = 1
	}
	cfg.Producer.MaxMessageBytes = c.MMB
	cfg.Producer.Flush.Messages = c.FM
	cfg.Producer.Flush.Bytes = c.FB
	cfg.Producer.Flush.Frequency = time.Duration(c.FF)
	cfg.Producer.Flush.MaxMessages = c.MaxM
	cfg.Producer.Return.Successes = true
	cfg.Producer.Return.Errors = true
	cfg.Producer.Retry.Max = 3
	cfg.Producer.Retry.Backoff = 0
	cfg.MetricRegistry = nil
	sarama.MaxRequestSize = int32(c.MRS)
	return cfg
}

// CodecOK: the combinations Config.Validate accepts.
func (c Conf) CodecOK() bool {
	v1, _, v21 := c.Gates()
	switch c.Codec {
	case 3:
		return v1
	case 4:
		return v21
	}
	return true
}

// Msg describes one message of an op line. KLen/VLen -1 = nil encoder; Hdrs nil = no headers (nil slice),
// otherwise pairs (len key, len value); TS -1 = no timestamp supplied, else ms since the epoch.
type Msg struct {
	ID    int
	Topic int
	Part  int32
	KLen  int
	VLen  int
	Hdrs  []int
	TS    int64
	Seq   int32
}

func lenTok(n int) string {
	if n < 0 {
		return "n"
	}
	return strconv.Itoa(n)
}

func parseLen(s string) int {
	if s == "n" {
		return -1
	}
	return atoi(s)
}

func HdrTok(h []int) string {
	if len(h) == 0 {
		return "-"
	}
	s := make([]string, len(h))
	for i, x := range h {
		s[i] = strconv.Itoa(x)
	}
	return strings.Join(s, ",")
}

func ParseHdrs(s string) []int {
	if s == "-" {
		return nil
	}
	var out []int
	for _, t := range strings.Split(s, ",") {
		out = append(out, atoi(t))
	}
	return out
}

// Tokens: "id topic part klen vlen hdrs ts seq"
func (m Msg) Tokens() string {
	ts := "-"
	if m.TS >= 0 {
		ts = strconv.FormatInt(m.TS, 10)
	}
	return fmt.Sprintf("%d %d %d %s %s %s %s %d", m.ID, m.Topic, m.Part, lenTok(m.KLen), lenTok(m.VLen), HdrTok(m.Hdrs), ts, m.Seq)
}

func ParseMsg(t []string) Msg {
	m := Msg{ID: atoi(t[0]), Topic: atoi(t[1]), Part: int32(atoi(t[2])), KLen: parseLen(t[3]), VLen: parseLen(t[4]), Hdrs: ParseHdrs(t[5]), TS: -1,
		Seq: int32(atoi(t[7]))}
	if t[6] != "-" {
		m.TS, _ = strconv.ParseInt(t[6], 10, 64)
	}
	return m
}

// Content: n deterministic bytes derived from (id, which).
func Content(id, which, n int) []byte {
	if n < 0 {
		return nil
	}
	b := make([]byte, n)
	x := uint32(id)*2654435761 + uint32(which)*40503 + 12345
	for i := range b {
		x = x*1664525 + 1013904223
		b[i] = byte(x >> 24)
	}
	// the first bytes spell the id, so that different messages differ
	tag := []byte(fmt.Sprintf("%d.%d|", id, which))
	copy(b, tag)
	return b
}

// TopicName: a name of exactly n bytes (n >= number of digits of idx) that is unique per idx.
func TopicName(idx, n int) string {
	s := strconv.Itoa(idx)
	if n < len(s) {
		n = len(s)
	}
	return s + strings.Repeat("x", n-len(s))
}

func TimeOf(ms int64) time.Time { return time.Unix(ms/1000, (ms%1000)*int64(time.Millisecond)) }

// Build constructs the ProducerMessage.
func (m Msg) Build(topicLens []int) *sarama.ProducerMessage {
	n := 1
	if m.Topic < len(topicLens) {
		n = topicLens[m.Topic]
	}
	pm := &sarama.ProducerMessage{Topic: TopicName(m.Topic, n), Partition: m.Part, Metadata: m.ID}
	if m.KLen >= 0 {
		pm.Key = sarama.ByteEncoder(Content(m.ID, 0, m.KLen))
	}
	if m.VLen >= 0 {
		pm.Value = sarama.ByteEncoder(Content(m.ID, 1, m.VLen))
	}
	for i := 0; i+1 < len(m.Hdrs); i += 2 {
		pm.Headers = append(pm.Headers, sarama.RecordHeader{Key: Content(m.ID, 2+i, m.Hdrs[i]), Value: Content(m.ID, 3+i, m.Hdrs[i+1])})
	}
	if m.TS >= 0 {
		pm.Timestamp = TimeOf(m.TS)
	}
	sarama.VerifSetSequence(pm, m.Seq)
	return pm
}

// SameBytes compares a decoded byte string with the submitted one, including nil-ness when strict.
func SameBytes(got, want []byte) bool {
	return bytes.Equal(got, want) && (got == nil) == (want == nil)
}

// KV returns the key and value bytes a message was built with (nil for a nil encoder).
func (m Msg) KV() ([]byte, []byte) { return Content(m.ID, 0, m.KLen), Content(m.ID, 1, m.VLen) }

func (m Msg) Header(i int) ([]byte, []byte) {
	return Content(m.ID, 2+2*i, m.Hdrs[2*i]), Content(m.ID, 3+2*i, m.Hdrs[2*i+1])
}
