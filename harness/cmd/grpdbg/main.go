package main

import (
	"fmt"
	"os"
	"strconv"

	"verif/harness/grp"
)

func main() {
	s, _ := strconv.ParseUint(os.Args[1], 10, 64)
	sc := grp.Gen(s, "C07")
	fmt.Println(sc.String())
	res := grp.Run(sc)
	fmt.Println("newerr", res.NewErr, "hang", res.Hang, "panic", res.Panic, "errors", res.Errors)
	for _, l := range grp.TraceLines(res) {
		fmt.Println("  ", l)
	}
	for _, f := range grp.Check(res) {
		fmt.Println("FAIL", f.Sig, f.Detail)
	}
}
