// debugging aid: run one scenario and dump everything observed
package main

import (
	"fmt"
	"os"
	"strconv"

	"verif/harness/pipe"
)

func main() {
	s, _ := strconv.ParseUint(os.Args[1], 10, 64)
	focus := "C01"
	if len(os.Args) > 2 {
		focus = os.Args[2]
	}
	sc := pipe.Gen(s, focus)
	fmt.Println(sc.String())
	for _, m := range sc.Msgs {
		fmt.Printf("  msg %+v\n", m)
	}
	res := pipe.Run(sc)
	fmt.Println("gopanic", res.GoPanic)
	fmt.Println("submitted", res.Submitted, "closedOK", res.ClosedOK, "hang", res.CloseHang, "newerr", res.NewErr)
	for _, o := range res.Outcomes {
		fmt.Printf("  outcome %+v\n", o)
	}
	for _, b := range res.Batches {
		var ids []string
		for _, r := range b.Records {
			ids = append(ids, fmt.Sprintf("%q/%q", r.Key, r.Value))
		}
		fmt.Printf("  batch req=%d br=%d p=%d pid=%d ep=%d seq=%d verdict=%d appended=%v dup=%v base=%d %v\n", b.ReqNo, b.Broker, b.Partition, b.Pid, b.Epoch, b.FirstSeq, int(b.Verdict), b.Appended, b.Dup, b.Base, ids)
	}
	for p, l := range res.Logs {
		for _, r := range l {
			fmt.Printf("  log p=%d off=%d key=%q val=%q\n", p, r.Offset, r.Key, r.Value)
		}
	}
	if len(os.Args) > 3 {
		for _, e := range res.Events {
			fmt.Printf("  ev %+v\n", e)
		}
	}
	for _, f := range pipe.Check(res) {
		fmt.Println("FAIL", f.Sig, f.Detail)
	}
}
