// Harness for C12: close-point enumeration. Producer scenarios are run once to count the hook events, then
// re-run with AsyncClose issued after the k-th event for k spread over the run (fault scripts active);
// consumer scenarios close partition consumers / the consumer after the k-th delivered message, twice.
// Oracle: Close returns within the bound, public channels are closed, nothing panics, every submitted message
// still gets exactly one event.
package main

import (
	"github.com/Shopify/sarama"
	"verif/harness/cli"
	"verif/harness/cons"
	"verif/harness/grp"
	"verif/harness/hlib"
	"verif/harness/life"
	"verif/harness/pipe"
)

func main() {
	run := hlib.StartParallel("C12", 14)
	life.IDMark = sarama.VerifIDMark // lifecycle hook events are recorded (consumer, group, client scenarios)
	pipe.RunAll(run, "C12", []string{"C12:", "C01:"}, 0)
	cons.RunAll(run, "C12", []string{"C12:"}, 0)
	grp.RunAll(run, "C12", []string{"C12:"}, 0)
	cli.RunAll(run, "C12", []string{"C12:"}, 0)
	run.Finish(pipe.Rule + " || " + cons.Rule + " || " + grp.Rule + " || " + cli.Rule + " || C12: every producer scenario is re-run with AsyncClose after the k-th hook event for k spread over the run")
}
