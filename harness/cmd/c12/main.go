// Harness for C12: close-point enumeration. Producer scenarios are run once to count the hook events, then
// re-run with AsyncClose issued after the k-th event for k spread over the run (fault scripts active);
// consumer scenarios close partition consumers / the consumer after the k-th delivered message, twice; group
// scenarios cancel or Close during a session; client scenarios Close with calls in flight, then again; offset-manager
// scenarios close partition managers and the manager while the coordinator fails.
// Oracle: Close returns within the bound, public channels are closed, nothing panics, every submitted message
// still gets exactly one event.  The consumer / group / client scenarios also record the lifecycle hook events
// (harness/life) for the Lean acceptors of the shutdown hand-shakes.
//
// The four scenario families run in separate process groups under a small supervisor: a panic in a goroutine
// that nobody can recover from (sarama starts some without withRecover) kills only its worker process; the
// supervisor reports it as an oracle failure naming the scenario that was running (breadcrumb file).
package main

import (
	"encoding/json"
	"fmt"
	"os"
	"os/exec"
	"path/filepath"
	"sort"
	"strings"
	"syscall"
	"time"

	"github.com/Shopify/sarama"
	"verif/harness/cli"
	"verif/harness/cons"
	"verif/harness/grp"
	"verif/harness/hlib"
	"verif/harness/life"
	"verif/harness/omc"
	"verif/harness/pipe"
)

var families = []string{"pipe", "cons", "grp", "cli", "omc"}

const rule = pipe.Rule + " || " + cons.Rule + " || " + grp.Rule + " || " + cli.Rule + " || " + omc.Rule + " || C12: every producer scenario is re-run with AsyncClose after the k-th hook event for k spread over the run"

func main() {
	fam := os.Getenv("C12_FAMILY")
	if fam == "" {
		supervise()
		return
	}
	run := hlib.StartParallel("C12", 14)
	life.IDMark = sarama.VerifIDMark // lifecycle hook events are recorded (consumer, group, client scenarios)
	life.Watchdog(40*time.Second, func(sc string, d time.Duration) {
		run.IOFail("C12:scenario-stuck", sc, fmt.Sprintf("the scenario did not finish within %v (every wait inside it is bounded by 8 s): its tear-down is wedged, the remaining scenarios of this worker were skipped", d.Round(time.Second)))
		run.Count("scenario-stuck")
		run.Finish(rule)
		os.Exit(0)
	})
	switch fam {
	case "pipe":
		pipe.RunAll(run, "C12", []string{"C12:", "C01:"}, 0)
	case "cons":
		cons.RunAll(run, "C12", []string{"C12:"}, 0)
	case "grp":
		grp.RunAll(run, "C12", []string{"C12:"}, 0)
	case "cli":
		cli.RunAll(run, "C12", []string{"C12:"}, 0)
	case "omc":
		omc.RunAll(run, "C12", []string{"C12:"}, 0)
	}
	run.Finish(rule)
}

// supervise runs every family as a child process (which fans out into worker processes itself) with its own
// output directory, then merges ops.txt / impl.txt / io.jsonl / stats.json into the requested directory.
func supervise() {
	out := ""
	var rest []string
	args := os.Args[1:]
	for i := 0; i < len(args); i++ {
		a := args[i]
		switch {
		case a == "-out" || a == "--out":
			if i+1 < len(args) {
				out = args[i+1]
				i++
			}
		case strings.HasPrefix(a, "-out=") || strings.HasPrefix(a, "--out="):
			out = a[strings.Index(a, "=")+1:]
		default:
			rest = append(rest, a)
		}
	}
	if out == "" {
		fmt.Fprintln(os.Stderr, "need -out")
		os.Exit(2)
	}
	_ = os.MkdirAll(out, 0o755)
	var dirs []string
	var extraIO []string
	crashed := 0
	replayCount := replaySeeds(rest)
	for _, f := range families {
		d := filepath.Join(out, "fam_"+f)
		_ = os.RemoveAll(d)
		famArgs := append([]string{"-out", d}, rest...)
		if replayCount != nil {
			// replay: only the families the replayed lines belong to, with no more workers than cases
			// (hlib's merge cannot cope with a worker that ran no case)
			n := replayCount[f]
			if n == 0 {
				continue
			}
			if n > 14 {
				n = 14
			}
			famArgs = append(famArgs, "-workers", fmt.Sprint(n))
		}
		cmd := exec.Command(os.Args[0], famArgs...)
		cmd.SysProcAttr = &syscall.SysProcAttr{Pdeathsig: syscall.SIGKILL}
		cmd.Env = append(os.Environ(), "C12_FAMILY="+f)
		var tail tailBuf
		cmd.Stdout, cmd.Stderr = &tail, &tail
		err := cmd.Run()
		if err == nil {
			dirs = append(dirs, d)
			continue
		}
		// some worker died: keep what the surviving workers wrote, name the scenarios the dead ones were running
		ws, _ := filepath.Glob(filepath.Join(d, "w*"))
		sort.Strings(ws)
		if len(ws) == 0 {
			ws = []string{d} // single-process family run
		}
		found := false
		for _, w := range ws {
			if _, e := os.Stat(filepath.Join(w, "stats.json")); e == nil {
				dirs = append(dirs, w)
				continue
			}
			cur, _ := os.ReadFile(filepath.Join(w, "current.txt"))
			input := strings.TrimSpace(string(cur))
			if input == "" {
				input = "(family " + f + ", scenario unknown)"
			}
			found = true
			crashed++
			b, _ := json.Marshal(map[string]string{"sig": "C12:process-crashed", "input": input,
				"detail": "the harness worker died while running this scenario (unrecovered panic in a goroutine?): " + tail.String()})
			extraIO = append(extraIO, string(b))
		}
		if !found {
			fmt.Fprintf(os.Stderr, "family %s failed: %v\n%s\n", f, err, tail.String())
			os.Exit(1)
		}
	}
	cat := func(name string, extra []string) {
		o, _ := os.Create(filepath.Join(out, name))
		defer o.Close()
		for _, d := range dirs {
			b, _ := os.ReadFile(filepath.Join(d, name))
			o.Write(b)
		}
		for _, l := range extra {
			o.WriteString(l + "\n")
		}
	}
	cat("ops.txt", nil)
	cat("impl.txt", nil)
	cat("io.jsonl", extraIO)
	// stats
	merged := map[string]interface{}{}
	dist := map[string]int{}
	distinct := 0
	var samples []interface{}
	evals, iof := 0, crashed
	for _, d := range dirs {
		var st map[string]interface{}
		b, _ := os.ReadFile(filepath.Join(d, "stats.json"))
		if json.Unmarshal(b, &st) != nil {
			continue
		}
		for k, v := range st {
			switch k {
			case "evaluations":
				evals += int(v.(float64))
			case "io_failures":
				iof += int(v.(float64))
			case "distinct_nontrivial":
				distinct += int(v.(float64)) // the families' keys are disjoint
			case "distribution":
				for b, n := range v.(map[string]interface{}) {
					dist[b] += int(n.(float64))
				}
			case "samples":
				l := v.([]interface{})
				if len(l) > 3 {
					l = l[:3]
				}
				samples = append(samples, l...)
			case "workers":
			default:
				if f, ok := v.(float64); ok && k != "seed" {
					if prev, ok := merged[k].(float64); ok {
						f += prev
					}
					merged[k] = f
				} else {
					merged[k] = v
				}
			}
		}
	}
	if crashed > 0 {
		dist["worker-process-crashed"] = crashed
	}
	merged["evaluations"], merged["io_failures"], merged["distinct_nontrivial"] = evals, iof, distinct
	merged["distribution"], merged["samples"], merged["rule"] = dist, samples, rule
	b, _ := json.MarshalIndent(merged, "", " ")
	_ = os.WriteFile(filepath.Join(out, "stats.json"), b, 0o644)
	for _, f := range families {
		os.RemoveAll(filepath.Join(out, "fam_"+f))
	}
}

// replaySeeds counts, per family, the cases a replay file expands to (nil when not replaying).
func replaySeeds(args []string) map[string]int {
	file := ""
	for i, a := range args {
		if (a == "-replay" || a == "--replay") && i+1 < len(args) {
			file = args[i+1]
		} else if strings.HasPrefix(a, "-replay=") || strings.HasPrefix(a, "--replay=") {
			file = a[strings.Index(a, "=")+1:]
		}
	}
	if file == "" {
		return nil
	}
	res := map[string]int{}
	b, _ := os.ReadFile(file)
	for _, l := range strings.Split(string(b), "\n") {
		t := strings.Fields(l)
		if len(t) < 2 || strings.HasPrefix(t[0], "#") {
			continue
		}
		tag := t[0]
		if tag == "lc" || tag == "lreset" {
			tag = strings.SplitN(t[1], ":", 2)[0]
		}
		switch tag {
		case "sc":
			res["pipe"] += 20
		case "cs":
			res["cons"] += 20
		case "gs":
			res["grp"] += 10
		case "cl":
			res["cli"] += 30
		case "om":
			res["omc"] += 20
		case "stallclose":
			res["cons"] += 3
		}
	}
	return res
}

// tailBuf keeps the last few KB written to it.
type tailBuf struct{ b []byte }

func (t *tailBuf) Write(p []byte) (int, error) {
	t.b = append(t.b, p...)
	if len(t.b) > 6000 {
		t.b = t.b[len(t.b)-4000:]
	}
	return len(p), nil
}
func (t *tailBuf) String() string { return string(t.b) }
