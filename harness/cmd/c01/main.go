// Harness for C01 (and, through -focus, for the other producer-pipeline properties): end-to-end scenarios of
// the real async producer against the simulated cluster; hook-event traces for the Lean producer model;
// property oracles on outcome streams and broker-side logs.
package main

import (
	"verif/harness/pipe"
)

func main() { pipe.Main("C01", []string{"C01:"}) }
