package main

import "verif/harness/hlib"

func genPieces(rnd *hlib.Rand, n int) {}

func replayPiece(t []string, l string) {}
