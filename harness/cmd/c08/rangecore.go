//go:build c08pieces
// +build c08pieces

package main

import (
	"fmt"
	"sort"
	"strconv"
	"strings"

	"github.com/Shopify/sarama"
)

// This file needs the overlay (unexported coreFn / hash function); see nopieces.go for the fallback.

const havePieces = true

// ---- range boundaries observed from the real coreFn

var boundaryCache = map[[2]int][]int{}

// rangeBoundaries runs the real coreFn on m fresh members and n partitions 0..n-1 and reads the slice
// boundaries off the plan. ok=false if the slices are not contiguous ascending runs (then no r exists).
func rangeBoundaries(n, m int) ([]int, []string, bool) {
	ids := make([]string, m)
	for i := range ids {
		ids[i] = "x" + strconv.Itoa(i)
	}
	parts := make([]int32, n)
	for i := range parts {
		parts[i] = int32(i)
	}
	plan := sarama.VerifRangeCore(ids, "t", parts)
	r := make([]int, m+1)
	sl := make([]string, m)
	ok := true
	for i, id := range ids {
		l := plan[id]["t"]
		if len(l) == 0 {
			r[i+1] = r[i]
			sl[i] = "e"
			continue
		}
		for k := range l {
			if l[k] != l[0]+int32(k) {
				ok = false
			}
		}
		if i == 0 {
			r[0] = int(l[0])
		}
		r[i+1] = int(l[0]) + len(l)
		sl[i] = fmt.Sprintf("%d-%d", l[0], int(l[0])+len(l))
	}
	return r, sl, ok
}

func boundaryRelation(n, m int, r []int) bool {
	if len(r) != m+1 || r[0] != 0 || r[m] != n {
		return false
	}
	for i := 0; i <= m; i++ {
		d := 2*m*r[i] - 2*i*n
		if d < 0 {
			d = -d
		}
		if d > m {
			return false
		}
	}
	return true
}

func intsStr(r []int) string {
	s := make([]string, len(r))
	for i, x := range r {
		s[i] = strconv.Itoa(x)
	}
	return strings.Join(s, ",")
}

func parseInts(s string) []int {
	var out []int
	for _, x := range strings.Split(s, ",") {
		n, _ := strconv.Atoi(x)
		out = append(out, n)
	}
	return out
}

// doRangeCore: op `rangecore n m r0,..,rm` -> slices; IO: boundary relation + partition of [0,n)
func doRangeCore(n, m int) {
	r, sl, ok := rangeBoundaries(n, m)
	op := fmt.Sprintf("rangecore %d %d %s", n, m, intsStr(r))
	ans := strings.Join(sl, "|")
	if !ok {
		ans = "not-contiguous " + ans
	}
	run.Emit(op, ans)
	run.Count("rangecore")
	if n%m != 0 && (2*n)%m == 0 {
		run.Count("rangecore-halfpoint")
	}
	run.Nontrivial(fmt.Sprintf("rangecore %d %d", n, m))
	if !ok {
		run.IOFail("range-slice-not-contiguous", op, ans)
		return
	}
	if !boundaryRelation(n, m, r) {
		run.IOFail("range-boundary-relation", op, "boundaries "+intsStr(r)+" violate r0=0, rm=n, |2*m*r(i)-2*i*n|<=m")
	}
	if PROP == "C13" {
		for i := 0; i < m; i++ {
			sz := r[i+1] - r[i]
			if sz < n/m || sz > (n+m-1)/m {
				run.IOFail("range-size-not-floor-or-ceil", op, fmt.Sprintf("slice %d has %d of %d/%d", i, sz, n, m))
				break
			}
		}
	}
}

func cachedBoundaries(n, m int) []int {
	k := [2]int{n, m}
	if r, ok := boundaryCache[k]; ok {
		return r
	}
	r, _, _ := rangeBoundaries(n, m)
	boundaryCache[k] = r
	return r
}

// rangeAux: per subscribed topic (sorted by name) the subscribers in the hash order the real code uses and
// the boundaries the real coreFn produces for that (n, m).  collision=true if two different members of one
// topic have the same hash (then Go's unstable sort leaves the order open and the line is not compared).
func rangeAux(g *Group) (string, bool) {
	mbt := map[string][]string{}
	for _, m := range g.Members {
		for _, t := range m.Topics {
			mbt[t] = append(mbt[t], m.Name)
		}
	}
	ts := make([]string, 0, len(mbt))
	for t := range mbt {
		ts = append(ts, t)
	}
	sort.Strings(ts)
	collision := false
	out := make([]string, len(ts))
	for i, t := range ts {
		l := mbt[t]
		sort.SliceStable(l, func(a, b int) bool { return sarama.VerifHashValue(t, l[a]) < sarama.VerifHashValue(t, l[b]) })
		for k := 1; k < len(l); k++ {
			if l[k] != l[k-1] && sarama.VerifHashValue(t, l[k]) == sarama.VerifHashValue(t, l[k-1]) {
				collision = true
			}
		}
		n := 0
		if tt := g.topic(t); tt != nil {
			n = len(tt.Parts)
		}
		out[i] = t + ":" + strings.Join(l, ",") + ":" + intsStr(cachedBoundaries(n, len(l)))
	}
	if len(out) == 0 {
		return "-", collision
	}
	return strings.Join(out, ";"), collision
}
