package main

import (
	"fmt"
	"sort"
	"strconv"
	"strings"
	"time"

	"github.com/Shopify/sarama"
	"verif/harness/hlib"
)

var run *hlib.Run

// how long a Plan call may take before the harness reports "diverges"
var planTimeout = 8 * time.Second
var rrTimeout = 3 * time.Second
var lastPanic string

// Plan calls that did not return keep spinning in their goroutine; after gaveUpLimit of them per strategy the
// harness stops calling that strategy (the failures are already recorded)
var gaveUp = map[string]int{}
var gaveUpLimit = 5

// callPlan runs the real strategy in a goroutine guarded by a timeout.
// status: ok | err | diverges | panic
func callPlan(strat string, g *Group) (sarama.BalanceStrategyPlan, string) {
	if gaveUp[strat] >= gaveUpLimit {
		return nil, "skipped"
	}
	members, topics := g.saramaInput()
	type res struct {
		plan sarama.BalanceStrategyPlan
		st   string
	}
	ch := make(chan res, 1)
	go func() {
		defer func() {
			if r := recover(); r != nil {
				lastPanic = fmt.Sprint(r)
				ch <- res{nil, "panic"}
			}
		}()
		var s sarama.BalanceStrategy
		switch strat {
		case "range":
			s = sarama.BalanceStrategyRange
		case "rr":
			s = sarama.BalanceStrategyRoundRobin
		default:
			s = sarama.VerifNewSticky()
		}
		p, err := s.Plan(members, topics)
		if err != nil {
			ch <- res{nil, "err"}
			return
		}
		ch <- res{p, "ok"}
	}()
	to := planTimeout
	if strat == "rr" {
		to = rrTimeout
	} else if size := g.size(); size <= 400 && planTimeout > 2*time.Second {
		to = 2 * time.Second // small inputs plan in well under a millisecond
	}
	select {
	case r := <-ch:
		return r.plan, r.st
	case <-time.After(to):
		gaveUp[strat]++
		return nil, "diverges"
	}
}

// size: members x partitions, a rough measure of the work of one Plan call
func (g *Group) size() int {
	n := 0
	for _, t := range g.Topics {
		n += len(t.Parts)
	}
	return n * (len(g.Members) + 1)
}

// ---- range boundaries observed from the real coreFn

var boundaryCache = map[[2]int][]int{}

// rangeBoundaries runs the real coreFn on m fresh members and n partitions 0..n-1 and reads the slice
// boundaries off the plan. ok=false if the slices are not contiguous ascending runs (then no r exists).
func rangeBoundaries(n, m int) ([]int, []string, bool) {
	ids := make([]string, m)
	for i := range ids {
		ids[i] = "x" + strconv.Itoa(i)
	}
	parts := make([]int32, n)
	for i := range parts {
		parts[i] = int32(i)
	}
	plan := sarama.VerifRangeCore(ids, "t", parts)
	r := make([]int, m+1)
	sl := make([]string, m)
	ok := true
	for i, id := range ids {
		l := plan[id]["t"]
		if len(l) == 0 {
			r[i+1] = r[i]
			sl[i] = "e"
			continue
		}
		for k := range l {
			if l[k] != l[0]+int32(k) {
				ok = false
			}
		}
		if i == 0 {
			r[0] = int(l[0])
		}
		r[i+1] = int(l[0]) + len(l)
		sl[i] = fmt.Sprintf("%d-%d", l[0], int(l[0])+len(l))
	}
	return r, sl, ok
}

func boundaryRelation(n, m int, r []int) bool {
	if len(r) != m+1 || r[0] != 0 || r[m] != n {
		return false
	}
	for i := 0; i <= m; i++ {
		d := 2*m*r[i] - 2*i*n
		if d < 0 {
			d = -d
		}
		if d > m {
			return false
		}
	}
	return true
}

func intsStr(r []int) string {
	s := make([]string, len(r))
	for i, x := range r {
		s[i] = strconv.Itoa(x)
	}
	return strings.Join(s, ",")
}

func parseInts(s string) []int {
	var out []int
	for _, x := range strings.Split(s, ",") {
		n, _ := strconv.Atoi(x)
		out = append(out, n)
	}
	return out
}

// doRangeCore: op `rangecore n m r0,..,rm` -> slices; IO: boundary relation + partition of [0,n)
func doRangeCore(n, m int) {
	r, sl, ok := rangeBoundaries(n, m)
	op := fmt.Sprintf("rangecore %d %d %s", n, m, intsStr(r))
	ans := strings.Join(sl, "|")
	if !ok {
		ans = "not-contiguous " + ans
	}
	run.Emit(op, ans)
	run.Count("rangecore")
	if n%m != 0 && (2*n)%m == 0 {
		run.Count("rangecore-halfpoint")
	}
	run.Nontrivial(fmt.Sprintf("rangecore %d %d", n, m))
	if !ok {
		run.IOFail("range-slice-not-contiguous", op, ans)
		return
	}
	if !boundaryRelation(n, m, r) {
		run.IOFail("range-boundary-relation", op, "boundaries "+intsStr(r)+" violate r0=0, rm=n, |2*m*r(i)-2*i*n|<=m")
	}
	if PROP == "C13" {
		for i := 0; i < m; i++ {
			sz := r[i+1] - r[i]
			if sz < n/m || sz > (n+m-1)/m {
				run.IOFail("range-size-not-floor-or-ceil", op, fmt.Sprintf("slice %d has %d of %d/%d", i, sz, n, m))
				break
			}
		}
	}
}

func cachedBoundaries(n, m int) []int {
	k := [2]int{n, m}
	if r, ok := boundaryCache[k]; ok {
		return r
	}
	r, _, _ := rangeBoundaries(n, m)
	boundaryCache[k] = r
	return r
}

// rangeAux: per subscribed topic (sorted by name) the subscribers in the hash order the real code uses and
// the boundaries the real coreFn produces for that (n, m).  collision=true if two different members of one
// topic have the same hash (then Go's unstable sort leaves the order open and the line is not compared).
func rangeAux(g *Group) (string, bool) {
	mbt := map[string][]string{}
	for _, m := range g.Members {
		for _, t := range m.Topics {
			mbt[t] = append(mbt[t], m.Name)
		}
	}
	ts := make([]string, 0, len(mbt))
	for t := range mbt {
		ts = append(ts, t)
	}
	sort.Strings(ts)
	collision := false
	out := make([]string, len(ts))
	for i, t := range ts {
		l := mbt[t]
		sort.SliceStable(l, func(a, b int) bool { return sarama.VerifHashValue(t, l[a]) < sarama.VerifHashValue(t, l[b]) })
		for k := 1; k < len(l); k++ {
			if l[k] != l[k-1] && sarama.VerifHashValue(t, l[k]) == sarama.VerifHashValue(t, l[k-1]) {
				collision = true
			}
		}
		n := 0
		if tt := g.topic(t); tt != nil {
			n = len(tt.Parts)
		}
		out[i] = t + ":" + strings.Join(l, ",") + ":" + intsStr(cachedBoundaries(n, len(l)))
	}
	if len(out) == 0 {
		return "-", collision
	}
	return strings.Join(out, ";"), collision
}

// classify an invalid sticky plan by the shape of the input (for the signature).  The previous-owner branch of
// performReassignments is in play when a member that does not list a topic claims one of its partitions in its
// user data and ANOTHER member claims the same partition under a higher generation (so the first one is the
// recorded previous owner).
func stickyClass(g *Group, why, detail string) string {
	genOf := func(m *Member) int {
		if strings.HasPrefix(m.UD.Kind, "g") {
			n, _ := strconv.Atoi(m.UD.Kind[1:])
			return n
		}
		return -1
	}
	claims := func(m *Member, p TP) bool {
		if m.UD.Kind == "-" || m.UD.Kind == "bad" {
			return false
		}
		for _, q := range m.UD.Parts {
			if q == p {
				return true
			}
		}
		return false
	}
	// m is a previous (not the current) claimant of p
	previousOwner := func(m *Member, p TP) bool {
		if !claims(m, p) {
			return false
		}
		for i := range g.Members {
			o := &g.Members[i]
			if o.Name != m.Name && claims(o, p) && genOf(o) > genOf(m) {
				return true
			}
		}
		return false
	}
	switch why {
	case "unassigned":
		p := parseTPs(detail)[0]
		for i := range g.Members {
			if previousOwner(&g.Members[i], p) && !subscribed(&g.Members[i], p.T) {
				return "/claimed-by-nonsubscriber"
			}
		}
	case "nonsubscriber":
		f := strings.Fields(detail)
		p := parseTPs(f[len(f)-1])[0]
		if m := g.member(f[0]); m != nil && previousOwner(m, p) {
			return "/own-stale-claim"
		}
	}
	return ""
}

// doPlan runs one strategy on one group, emits the op lines and evaluates the oracles.
// Returns the plan as an assignment (nil if no plan) and the verdict map.
func doPlan(strat, kind string, g *Group) (Asg, map[string]string) {
	ms, ts := g.membersStr(), g.topicsStr()
	plan, st := callPlan(strat, g)
	if st == "skipped" {
		run.Count(strat + "-skipped-after-divergence")
		return nil, nil
	}
	run.Count(strat)
	// 1. differential line against the executable model (range, round-robin)
	switch strat {
	case "range":
		aux, coll := rangeAux(g)
		if coll {
			run.Count("range-hash-collision")
		} else {
			op := fmt.Sprintf("range %s %s %s", ms, ts, aux)
			ans := st
			if st == "ok" {
				ans = planStr(plan, false)
			}
			run.Emit(op, ans)
		}
	case "rr":
		op := fmt.Sprintf("rr %s %s", ms, ts)
		ans := st
		if st == "ok" {
			ans = planStr(plan, false)
		}
		run.Emit(op, ans)
		if st == "diverges" {
			unsub := ""
			for _, t := range g.Topics {
				if len(t.Parts) > 0 && !g.hasSubscriber(t.Name) {
					unsub = t.Name
				}
			}
			if PROP == "C08" {
				if unsub != "" && len(g.Members) > 0 {
					run.IOFail("roundrobin-no-return-topic-without-subscriber", op, "Plan did not return within "+rrTimeout.String()+"; topic "+unsub+" has partitions and no subscriber")
				} else {
					run.IOFail("roundrobin-no-return", op, "Plan did not return within "+rrTimeout.String())
				}
			}
		}
	}
	// 2. verdict line: the property predicates on the Go plan (Go oracle vs Lean predicates)
	ptok := st
	var a Asg
	if st == "ok" {
		a = planAsg(plan)
		ptok = asgStr(a, strat == "sticky")
	}
	op := fmt.Sprintf("vplan %s %s %s %s %s", strat, kind, ms, ts, ptok)
	if st != "ok" {
		bad := false
		for _, m := range g.Members {
			bad = bad || m.UD.Kind == "bad"
		}
		expectErr := (strat == "sticky" && bad) || (strat == "rr" && (len(g.Members) == 0 || len(g.Topics) == 0))
		if strat == "sticky" && st == "diverges" {
			// the op-level sticky model has no executable counterpart of a run that does not end: oracle only
			run.Case(op + "  =>  diverges")
		} else {
			run.Emit(op, st)
		}
		if st == "panic" {
			run.IOFail(strat+"-panic", op, "Plan panicked: "+lastPanic)
		} else if st == "err" && !expectErr && PROP == "C08" {
			run.IOFail(strat+"-unexpected-error", op, "Plan returned an error")
		} else if st == "diverges" && strat != "rr" && PROP == "C08" {
			run.IOFail(strat+"-no-return", op, "Plan did not return within the time limit ("+planTimeout.String()+", 2s for small inputs)")
		}
		return nil, nil
	}
	vs, v := verdicts(strat, kind, g, a)
	run.Emit(op, vs)
	if len(a) > 0 {
		tot := 0
		for _, l := range a {
			tot += len(l)
		}
		if tot > 0 {
			run.Nontrivial(strat + " " + ms + " " + ts)
		}
	}
	if v["valid"] == "0" {
		if PROP == "C08" {
			why, detail := checkValid(g, a)
			cls := ""
			if strat == "sticky" {
				cls = stickyClass(g, why, detail)
			}
			run.IOFail(strat+"-"+why+cls, op, why+": "+detail)
		}
		return a, v
	}
	if PROP == "C13" {
		fail := func(sig, what string) { run.IOFail(sig, op, what) }
		if v["bal"] == "0" {
			fail("sticky-unbalanced", "a member holds >= 2 partitions more than a member that could take one of them")
		}
		if v["rsz"] == "0" {
			fail("range-sizes", "ranges of a topic are not contiguous or differ by more than one")
		}
		if v["rrd"] == "0" {
			fail("roundrobin-spread", "identical subscriptions but totals differ by more than one")
		}
		if v["same"] == "0" {
			fail("sticky-replan-not-identity", "unchanged group: plan differs from the previous plan")
		}
		if v["leave"] == "0" {
			fail("sticky-leave-moved", "a remaining member lost a partition when another member left")
		}
		if v["join"] == "0" {
			cls := ""
			for _, t := range g.Topics {
				if !g.hasSubscriber(t.Name) {
					cls = "/topic-without-subscriber"
				}
			}
			for i := range g.Members {
				for _, t := range g.Members[i].Topics {
					if cls == "" && listedTwice(&g.Members[i], t) {
						cls = "/topic-listed-twice"
					}
				}
			}
			fail("sticky-join-shuffled"+cls, "a partition moved between old members when a member joined")
		}
		if v["swap"] == "0" {
			fail("sticky-pairwise-swap", "two members exchanged partitions of one topic")
		}
	}
	return a, v
}
