package main

import (
	"fmt"
	"reflect"
	"strconv"
	"strings"
	"time"

	"github.com/Shopify/sarama"
	"verif/harness/hlib"
)

var run *hlib.Run

// how long a Plan call may take before the harness reports "diverges"
var planTimeout = 8 * time.Second
var rrTimeout = 3 * time.Second
var lastPanic string

// Plan calls that did not return keep spinning in their goroutine; after gaveUpLimit of them per strategy the
// harness stops calling that strategy (the failures are already recorded)
var gaveUp = map[string]int{}
var gaveUpLimit = 5

// callPlan runs the real strategy in a goroutine guarded by a timeout.
// status: ok | err | diverges | panic
func callPlan(strat string, g *Group) (sarama.BalanceStrategyPlan, string) {
	return callPlanWith(nil, strat, g)
}

// newSticky: a fresh instance of the sticky strategy's type (no unexported name needed)
func newSticky() sarama.BalanceStrategy {
	return reflect.New(reflect.TypeOf(sarama.BalanceStrategySticky).Elem()).Interface().(sarama.BalanceStrategy)
}

// callPlanWith: inst != nil = use this (long-lived) strategy value instead of a fresh one
func callPlanWith(inst sarama.BalanceStrategy, strat string, g *Group) (sarama.BalanceStrategyPlan, string) {
	if gaveUp[strat] >= gaveUpLimit {
		return nil, "skipped"
	}
	members, topics := g.saramaInput()
	type res struct {
		plan sarama.BalanceStrategyPlan
		st   string
	}
	ch := make(chan res, 1)
	go func() {
		defer func() {
			if r := recover(); r != nil {
				lastPanic = fmt.Sprint(r)
				ch <- res{nil, "panic"}
			}
		}()
		var s sarama.BalanceStrategy
		switch {
		case inst != nil:
			s = inst
		case strat == "range":
			s = sarama.BalanceStrategyRange
		case strat == "rr":
			s = sarama.BalanceStrategyRoundRobin
		default:
			// BalanceStrategySticky is a shared singleton whose movement bookkeeping would be shared with a Plan call
			// the harness has given up waiting for
			s = newSticky()
		}
		p, err := s.Plan(members, topics)
		if err != nil {
			ch <- res{nil, "err"}
			return
		}
		ch <- res{p, "ok"}
	}()
	to := planTimeout
	if strat == "rr" {
		to = rrTimeout
	} else if size := g.size(); size <= 400 && planTimeout > 2*time.Second {
		to = 2 * time.Second // small inputs plan in well under a millisecond
	}
	select {
	case r := <-ch:
		return r.plan, r.st
	case <-time.After(to):
		gaveUp[strat]++
		return nil, "diverges"
	}
}

// size: members x partitions, a rough measure of the work of one Plan call
func (g *Group) size() int {
	n := 0
	for _, t := range g.Topics {
		n += len(t.Parts)
	}
	return n * (len(g.Members) + 1)
}

// classify an invalid sticky plan by the shape of the input (for the signature).  The previous-owner branch of
// performReassignments is in play when a member that does not list a topic claims one of its partitions in its
// user data and ANOTHER member claims the same partition under a higher generation (so the first one is the
// recorded previous owner).
func stickyClass(g *Group, why, detail string) string {
	genOf := func(m *Member) int {
		if strings.HasPrefix(m.UD.Kind, "g") {
			n, _ := strconv.Atoi(m.UD.Kind[1:])
			return n
		}
		return -1
	}
	claims := func(m *Member, p TP) bool {
		if m.UD.Kind == "-" || m.UD.Kind == "bad" {
			return false
		}
		for _, q := range m.UD.Parts {
			if q == p {
				return true
			}
		}
		return false
	}
	// m is a previous (not the current) claimant of p
	previousOwner := func(m *Member, p TP) bool {
		if !claims(m, p) {
			return false
		}
		for i := range g.Members {
			o := &g.Members[i]
			if o.Name != m.Name && claims(o, p) && genOf(o) > genOf(m) {
				return true
			}
		}
		return false
	}
	switch why {
	case "unassigned":
		p := parseTPs(detail)[0]
		for i := range g.Members {
			if previousOwner(&g.Members[i], p) && !subscribed(&g.Members[i], p.T) {
				return "/claimed-by-nonsubscriber"
			}
		}
	case "nonsubscriber":
		f := strings.Fields(detail)
		p := parseTPs(f[len(f)-1])[0]
		if m := g.member(f[0]); m != nil && previousOwner(m, p) {
			return "/own-stale-claim"
		}
	}
	return ""
}

// doPlan runs one strategy on one group, emits the op lines and evaluates the oracles.
// Returns the plan as an assignment (nil if no plan) and the verdict map.
func doPlan(strat, kind string, g *Group) (Asg, map[string]string) {
	ms, ts := g.membersStr(), g.topicsStr()
	plan, st := callPlan(strat, g)
	if st == "skipped" {
		run.Count(strat + "-skipped-after-divergence")
		return nil, nil
	}
	run.Count(strat)
	// 1. differential line against the executable model (range, round-robin)
	switch strat {
	case "range":
		aux, coll := "", false
		if havePieces {
			aux, coll = rangeAux(g)
		}
		if !havePieces {
			run.Count("range-differential-skipped-no-overlay")
		} else if coll {
			run.Count("range-hash-collision")
		} else {
			op := fmt.Sprintf("range %s %s %s", ms, ts, aux)
			ans := st
			if st == "ok" {
				ans = planStr(plan, false)
			}
			run.Emit(op, ans)
		}
	case "rr":
		op := fmt.Sprintf("rr %s %s", ms, ts)
		ans := st
		if st == "ok" {
			ans = planStr(plan, false)
		}
		run.Emit(op, ans)
		if st == "diverges" {
			unsub := ""
			for _, t := range g.Topics {
				if len(t.Parts) > 0 && !g.hasSubscriber(t.Name) {
					unsub = t.Name
				}
			}
			if PROP == "C08" {
				if unsub != "" && len(g.Members) > 0 {
					run.IOFail("roundrobin-no-return-topic-without-subscriber", op, "Plan did not return within "+rrTimeout.String()+"; topic "+unsub+" has partitions and no subscriber")
				} else {
					run.IOFail("roundrobin-no-return", op, "Plan did not return within "+rrTimeout.String())
				}
			}
		}
	}
	// 2. verdict line: the property predicates on the Go plan (Go oracle vs Lean predicates)
	ptok := st
	var a Asg
	if st == "ok" {
		a = planAsg(plan)
		ptok = asgStr(a, strat == "sticky")
	}
	op := fmt.Sprintf("vplan %s %s %s %s %s", strat, kind, ms, ts, ptok)
	if st != "ok" {
		bad := false
		for _, m := range g.Members {
			bad = bad || m.UD.Kind == "bad"
		}
		expectErr := (strat == "sticky" && bad) || (strat == "rr" && (len(g.Members) == 0 || len(g.Topics) == 0))
		if strat == "sticky" && st == "diverges" {
			// the op-level sticky model has no executable counterpart of a run that does not end: oracle only
			run.Case(op + "  =>  diverges")
		} else {
			run.Emit(op, st)
		}
		if st == "panic" {
			run.IOFail(strat+"-panic", op, "Plan panicked: "+lastPanic)
		} else if st == "err" && !expectErr && PROP == "C08" {
			run.IOFail(strat+"-unexpected-error", op, "Plan returned an error")
		} else if st == "diverges" && strat != "rr" && PROP == "C08" {
			run.IOFail(strat+"-no-return", op, "Plan did not return within the time limit ("+planTimeout.String()+", 2s for small inputs)")
		}
		return nil, nil
	}
	vs, v := verdicts(strat, kind, g, a)
	run.Emit(op, vs)
	if len(a) > 0 {
		tot := 0
		for _, l := range a {
			tot += len(l)
		}
		if tot > 0 {
			run.Nontrivial(strat + " " + ms + " " + ts)
		}
	}
	judge(strat, kind, g, a, v, op)
	return a, v
}

// judge: oracle failures for one plan (C08: validity; C13: balance / stickiness of valid plans)
func judge(strat, kind string, g *Group, a Asg, v map[string]string, op string) {
	if v["valid"] == "0" {
		if PROP == "C08" {
			why, detail := checkValid(g, a)
			cls := ""
			if strat == "sticky" {
				cls = stickyClass(g, why, detail)
			}
			run.IOFail(strat+sigTag+"-"+why+cls, op, why+": "+detail)
		}
		return
	}
	if PROP == "C13" {
		fail := func(sig, what string) { run.IOFail(strings.Replace(sig, "sticky-", "sticky"+sigTag+"-", 1), op, what) }
		if v["bal"] == "0" {
			fail("sticky-unbalanced", "a member holds >= 2 partitions more than a member that could take one of them")
		}
		if v["rsz"] == "0" {
			fail("range-sizes", "ranges of a topic are not contiguous or differ by more than one")
		}
		if v["rrd"] == "0" {
			fail("roundrobin-spread", "identical subscriptions but totals differ by more than one")
		}
		if v["same"] == "0" {
			fail("sticky-replan-not-identity", "unchanged group: plan differs from the previous plan")
		}
		if v["leave"] == "0" {
			fail("sticky-leave-moved", "a remaining member lost a partition when another member left")
		}
		if v["join"] == "0" {
			cls := ""
			for _, t := range g.Topics {
				if !g.hasSubscriber(t.Name) {
					cls = "/topic-without-subscriber"
				}
			}
			for i := range g.Members {
				for _, t := range g.Members[i].Topics {
					if cls == "" && listedTwice(&g.Members[i], t) {
						cls = "/topic-listed-twice"
					}
				}
			}
			fail("sticky-join-shuffled"+cls, "a partition moved between old members when a member joined")
		}
		if v["rejoin"] == "0" {
			fail("sticky-rejoin-shuffled", "a member rejoined with stale user data and a partition moved between members of the newest generation")
		}
		if v["swap"] == "0" {
			fail("sticky-pairwise-swap", "two members exchanged partitions of one topic")
		}
	}
}

func piece(op, ans string) {
	run.Emit(op, ans)
	run.Count("piece-" + strings.Fields(op)[0])
}

// doF12: which variant of the "previous owner" branch does the tree have? (observed on the witness)
func doF12() {
	plan, st := callPlan("sticky", f12Witness())
	variant, ans := "guarded", "rejected"
	if st == "ok" {
		a := planAsg(plan)
		if ownerOf(a, []string{"A", "B", "C"}, TP{"t1", 0}) == "" {
			variant, ans = "weak", "accepted unassigned=t1/0"
		}
	} else {
		ans = st
	}
	run.Set("sticky_previous_owner_branch", variant)
	piece("f12 "+variant, ans)
}
