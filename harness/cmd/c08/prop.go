package main

// PROP selects which part of the shared balance harness raises oracle failures:
// C08 = validity of plans, C13 = balance / stickiness of (valid) plans.
const PROP = "C08"
