package main

import (
	"sort"
	"strconv"
	"strings"

	"github.com/Shopify/sarama"
)

// TP is a topic partition.
type TP struct {
	T string
	P int32
}

// UserData of a member for the sticky strategy. Kind: "-" none, "g<N>" schema V1 with generation N,
// "v0" old schema, "bad" undecodable bytes.
type UserData struct {
	Kind  string
	Parts []TP
}

type Member struct {
	Name   string
	Topics []string
	UD     UserData
}

type Topic struct {
	Name  string
	Parts []int32
}

// Group is one input of BalanceStrategy.Plan.
type Group struct {
	Members []Member
	Topics  []Topic
}

func (g *Group) clone() *Group {
	c := &Group{}
	for _, m := range g.Members {
		c.Members = append(c.Members, Member{Name: m.Name, Topics: append([]string(nil), m.Topics...),
			UD: UserData{Kind: m.UD.Kind, Parts: append([]TP(nil), m.UD.Parts...)}})
	}
	for _, t := range g.Topics {
		c.Topics = append(c.Topics, Topic{Name: t.Name, Parts: append([]int32(nil), t.Parts...)})
	}
	return c
}

func tpsStr(l []TP) string {
	s := make([]string, len(l))
	for i, p := range l {
		s[i] = p.T + "/" + strconv.Itoa(int(p.P))
	}
	return strings.Join(s, ",")
}

func parseTPs(s string) []TP {
	if s == "" {
		return nil
	}
	var out []TP
	for _, x := range strings.Split(s, ",") {
		i := strings.LastIndex(x, "/")
		n, _ := strconv.Atoi(x[i+1:])
		out = append(out, TP{x[:i], int32(n)})
	}
	return out
}

func i32sStr(l []int32) string {
	s := make([]string, len(l))
	for i, p := range l {
		s[i] = strconv.Itoa(int(p))
	}
	return strings.Join(s, ",")
}

func parseI32s(s string) []int32 {
	if s == "" {
		return nil
	}
	var out []int32
	for _, x := range strings.Split(s, ",") {
		n, _ := strconv.Atoi(x)
		out = append(out, int32(n))
	}
	return out
}

// membersStr: `m1:t1,t2:g3:t1/0,t1/1;m2::-:`   ("-" for no member)
func (g *Group) membersStr() string {
	if len(g.Members) == 0 {
		return "-"
	}
	s := make([]string, len(g.Members))
	for i, m := range g.Members {
		s[i] = m.Name + ":" + strings.Join(m.Topics, ",") + ":" + m.UD.Kind + ":" + tpsStr(m.UD.Parts)
	}
	return strings.Join(s, ";")
}

// topicsStr: `t1:0,1,2;t2:`   ("-" for no topic)
func (g *Group) topicsStr() string {
	if len(g.Topics) == 0 {
		return "-"
	}
	s := make([]string, len(g.Topics))
	for i, t := range g.Topics {
		s[i] = t.Name + ":" + i32sStr(t.Parts)
	}
	return strings.Join(s, ";")
}

func parseGroup(ms, ts string) *Group {
	g := &Group{}
	if ms != "-" {
		for _, x := range strings.Split(ms, ";") {
			f := strings.Split(x, ":")
			m := Member{Name: f[0], UD: UserData{Kind: "-"}}
			if len(f) > 1 && f[1] != "" {
				m.Topics = strings.Split(f[1], ",")
			}
			if len(f) > 2 {
				m.UD.Kind = f[2]
			}
			if len(f) > 3 && m.UD.Kind != "-" { // no user data: no claims
				m.UD.Parts = parseTPs(f[3])
			}
			g.Members = append(g.Members, m)
		}
	}
	if ts != "-" {
		for _, x := range strings.Split(ts, ";") {
			f := strings.SplitN(x, ":", 2)
			t := Topic{Name: f[0]}
			if len(f) > 1 {
				t.Parts = parseI32s(f[1])
			}
			g.Topics = append(g.Topics, t)
		}
	}
	return g
}

// encodeV0: sticky user data in the old schema (StickyAssignorUserDataV0: array of (string topic, int32 array), no
// generation), written by hand so that the Plan-level harness needs nothing unexported
func encodeV0(topics map[string][]int32) []byte {
	var b []byte
	put32 := func(x int32) { b = append(b, byte(x>>24), byte(x>>16), byte(x>>8), byte(x)) }
	names := make([]string, 0, len(topics))
	for t := range topics {
		names = append(names, t)
	}
	sort.Strings(names)
	put32(int32(len(names)))
	for _, t := range names {
		b = append(b, byte(len(t)>>8), byte(len(t)))
		b = append(b, t...)
		put32(int32(len(topics[t])))
		for _, p := range topics[t] {
			put32(p)
		}
	}
	return b
}

func groupTopics(parts []TP) map[string][]int32 {
	out := map[string][]int32{}
	for _, p := range parts {
		out[p.T] = append(out[p.T], p.P)
	}
	return out
}

// saramaInput builds the arguments of Plan. Returns ok=false if user data cannot be encoded.
func (g *Group) saramaInput() (map[string]sarama.ConsumerGroupMemberMetadata, map[string][]int32) {
	members := make(map[string]sarama.ConsumerGroupMemberMetadata, len(g.Members))
	for _, m := range g.Members {
		meta := sarama.ConsumerGroupMemberMetadata{Topics: append([]string(nil), m.Topics...)}
		switch {
		case m.UD.Kind == "-":
		case m.UD.Kind == "v0":
			meta.UserData = encodeV0(groupTopics(m.UD.Parts))
		case m.UD.Kind == "bad":
			meta.UserData = []byte{0x00, 0x00, 0x00, 0x02, 0x00}
		case strings.HasPrefix(m.UD.Kind, "g"):
			gen, _ := strconv.Atoi(m.UD.Kind[1:])
			// the exported path the consumer group itself uses to produce user data
			meta.UserData, _ = sarama.BalanceStrategySticky.AssignmentData(m.Name, groupTopics(m.UD.Parts), int32(gen))
		}
		members[m.Name] = meta
	}
	topics := make(map[string][]int32, len(g.Topics))
	for _, t := range g.Topics {
		topics[t.Name] = append([]int32{}, t.Parts...)
	}
	return members, topics
}

// planStr: canonical text of a plan: members sorted by name, topics sorted; partition lists in the order
// of the plan (sorted when `sortParts`). `m1=t1/0,t1/1;m2=`; "-" for an empty plan.
func planStr(plan sarama.BalanceStrategyPlan, sortParts bool) string {
	if len(plan) == 0 {
		return "-"
	}
	names := make([]string, 0, len(plan))
	for m := range plan {
		names = append(names, m)
	}
	sort.Strings(names)
	out := make([]string, len(names))
	for i, m := range names {
		ts := make([]string, 0, len(plan[m]))
		for t := range plan[m] {
			ts = append(ts, t)
		}
		sort.Strings(ts)
		var l []TP
		for _, t := range ts {
			ps := append([]int32(nil), plan[m][t]...)
			if sortParts {
				sort.Slice(ps, func(a, b int) bool { return ps[a] < ps[b] })
			}
			for _, p := range ps {
				l = append(l, TP{t, p})
			}
		}
		out[i] = m + "=" + tpsStr(l)
	}
	return strings.Join(out, ";")
}

// assignment in plain form: member -> partitions
type Asg map[string][]TP

func planAsg(plan sarama.BalanceStrategyPlan) Asg {
	a := Asg{}
	for m, ts := range plan {
		a[m] = []TP{}
		names := make([]string, 0, len(ts))
		for t := range ts {
			names = append(names, t)
		}
		sort.Strings(names)
		for _, t := range names {
			for _, p := range ts[t] {
				a[m] = append(a[m], TP{t, p})
			}
		}
	}
	return a
}

// asgStr: `m1=t1/0;m2=` in the given member order (or sorted by name when order is nil); lists as they are.
func asgStr(a map[string][]TP, sortLists bool) string {
	if len(a) == 0 {
		return "-"
	}
	names := make([]string, 0, len(a))
	for m := range a {
		names = append(names, m)
	}
	sort.Strings(names)
	out := make([]string, len(names))
	for i, m := range names {
		l := append([]TP(nil), a[m]...)
		if sortLists {
			sortTPs(l)
		}
		out[i] = m + "=" + tpsStr(l)
	}
	return strings.Join(out, ";")
}

func parseAsg(s string) map[string][]TP {
	a := map[string][]TP{}
	if s == "-" || s == "" {
		return a
	}
	for _, x := range strings.Split(s, ";") {
		f := strings.SplitN(x, "=", 2)
		a[f[0]] = parseTPs(f[1])
	}
	return a
}

func sortTPs(l []TP) {
	sort.Slice(l, func(i, j int) bool {
		if l[i].T != l[j].T {
			return l[i].T < l[j].T
		}
		return l[i].P < l[j].P
	})
}

func b01(b bool) string {
	if b {
		return "1"
	}
	return "0"
}
