package main

import (
	"strconv"
	"strings"

	"verif/harness/hlib"
)

// Rebalance chains planned by ONE long-lived strategy value, as a group leader does
// (Config.Consumer.Group.Rebalance.Strategy is one value used for every rebalance).  Plan must be a function of its
// inputs, not of earlier calls: every plan of such a chain has to satisfy the same predicates as the plan a fresh
// instance gives for the same inputs (the Lean model is per Plan call: movement tracking starts empty).
//
// op line: `lchain kind1 members1 topics1 plan1 kind2 members2 topics2 plan2 …` (members_k carry the user data fed
// back from plan_{k-1}); answer: the verdict lines of the steps joined by " | ".  Replay feeds the recorded inputs
// through one instance again.

// sigTag is inserted into the signatures judge() raises (history shape: long-lived strategy value)
var sigTag string

type llStep struct {
	kind string
	g    *Group
}

// runLongLived plans the steps produced by next() with one instance. next gets the last plan (nil at the start).
func runLongLived(next func(last Asg) *llStep) {
	inst := newSticky()
	var toks, outs []string
	var last Asg
	for {
		st := next(last)
		if st == nil {
			break
		}
		plan, status := callPlanWith(inst, "sticky", st.g)
		if status == "skipped" {
			break
		}
		run.Count("sticky-longlived-step-" + st.kind)
		if status != "ok" {
			op := "lchain " + strings.Join(append(append([]string(nil), toks...), st.kind, st.g.membersStr(), st.g.topicsStr(), status), " ")
			bad := false
			for _, m := range st.g.Members {
				bad = bad || m.UD.Kind == "bad"
			}
			switch {
			case status == "panic":
				run.IOFail("sticky-longlived-panic", op, "Plan panicked: "+lastPanic)
			case status == "diverges" && PROP == "C08":
				run.IOFail("sticky-no-return", op, "Plan did not return within the time limit")
			case status == "err" && !bad && PROP == "C08":
				run.IOFail("sticky-longlived-unexpected-error", op, "Plan returned an error")
			}
			break
		}
		a := planAsg(plan)
		toks = append(toks, st.kind, st.g.membersStr(), st.g.topicsStr(), asgStr(a, true))
		vs, v := verdicts("sticky", st.kind, st.g, a)
		outs = append(outs, vs)
		sigTag = "-longlived"
		judge("sticky", st.kind, st.g, a, v, "lchain "+strings.Join(toks, " "))
		sigTag = ""
		// the same inputs with a fresh instance (its own vplan line and oracle verdicts)
		doPlan("sticky", st.kind, st.g)
		last = a
	}
	if len(toks) > 0 {
		run.Emit("lchain "+strings.Join(toks, " "), strings.Join(outs, " | "))
	}
}

// longLivedChain: members join, leave and come back, topics lose ARBITRARY partitions (not only the last ones) and
// gain new ones, each plan fed back as user data with increasing generations.
func longLivedChain(rnd *hlib.Rand) {
	g := &Group{}
	T := rnd.Range(1, 2)
	var tn []string
	for t := 0; t < T; t++ {
		tn = append(tn, "t"+strconv.Itoa(t))
		g.Topics = append(g.Topics, Topic{Name: tn[t], Parts: seqParts(rnd.Range(3, 6))})
	}
	M := rnd.Range(1, 3)
	for i := 0; i < M; i++ {
		g.Members = append(g.Members, Member{Name: "m" + strconv.Itoa(i), Topics: append([]string(nil), tn...), UD: UserData{Kind: "-"}})
	}
	var away []Member
	gen, nextID, steps, n := 1, M, rnd.Range(4, 8), 0
	kind := "fresh"
	cur := g
	runLongLived(func(last Asg) *llStep {
		if n > steps {
			return nil
		}
		n++
		if last == nil {
			return &llStep{kind, cur}
		}
		nx := cur.clone()
		feedBack(nx, last, gen)
		gen++
		kind = "other"
		switch rnd.Intn(9) {
		case 0:
			kind = "same"
		case 1, 2: // join
			nx.Members = append(nx.Members, Member{Name: "m" + strconv.Itoa(nextID), Topics: append([]string(nil), tn...), UD: UserData{Kind: "-"}})
			nextID++
		case 3, 4: // leave
			if len(nx.Members) >= 2 {
				k := rnd.Intn(len(nx.Members))
				away = append(away, nx.Members[k])
				nx.Members = append(nx.Members[:k:k], nx.Members[k+1:]...)
			}
		case 5: // come back, as a new member or with the stale user data
			if len(away) > 0 {
				m := away[len(away)-1]
				away = away[:len(away)-1]
				if rnd.Bool() {
					m.UD = UserData{Kind: "-"}
				}
				nx.Members = append(nx.Members, m)
			}
		case 6, 7: // a topic loses an arbitrary subset of its partitions
			t := &nx.Topics[rnd.Intn(len(nx.Topics))]
			var keep []int32
			for _, p := range t.Parts {
				if rnd.Bool() {
					keep = append(keep, p)
				}
			}
			t.Parts = keep
		default: // a topic gains partitions
			t := &nx.Topics[rnd.Intn(len(nx.Topics))]
			max := int32(-1)
			for _, p := range t.Parts {
				if p > max {
					max = p
				}
			}
			for k := rnd.Range(1, 3); k > 0; k-- {
				max++
				t.Parts = append(t.Parts, max)
			}
		}
		cur = nx
		return &llStep{kind, cur}
	})
}

// replayLongLived: `lchain kind ms ts plan …`
func replayLongLived(t []string) {
	var steps []llStep
	for i := 1; i+3 < len(t); i += 4 {
		steps = append(steps, llStep{t[i], parseGroup(t[i+1], t[i+2])})
	}
	k := 0
	runLongLived(func(last Asg) *llStep {
		if k >= len(steps) {
			return nil
		}
		k++
		return &steps[k-1]
	})
}
