//go:build !c08pieces
// +build !c08pieces

package main

import "verif/harness/hlib"

// Fallback when the overlay (harness/overlay/c08_balance.go, which calls unexported functions of
// balance_strategy.go) does not compile against the tree under test: only the Plan-level part of the harness is
// built - the three strategies through the exported BalanceStrategy values, the property oracles, the rebalance
// chains and the round-robin differential.  The pieces, the range-core differential and cgtopics are not run.

const havePieces = false

func doRangeCore(n, m int) {}

func rangeAux(g *Group) (string, bool) { return "-", false }

func genPieces(rnd *hlib.Rand, n int) { run.Count("pieces-skipped-no-overlay") }

func replayPiece(t []string, l string) {}
