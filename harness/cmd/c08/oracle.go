package main

import (
	"fmt"
	"sort"
	"strconv"
	"strings"
)

// The predicates of the property statements, evaluated on what the real code returned.
// The same predicates are defined in Lean (Model/BalancePlan.lean); the driver evaluates them on the same
// (input, plan) line, so the two implementations are compared on every case.

func (g *Group) member(name string) *Member {
	for i := range g.Members {
		if g.Members[i].Name == name {
			return &g.Members[i]
		}
	}
	return nil
}

func (g *Group) topic(name string) *Topic {
	for i := range g.Topics {
		if g.Topics[i].Name == name {
			return &g.Topics[i]
		}
	}
	return nil
}

func subscribed(m *Member, t string) bool {
	for _, x := range m.Topics {
		if x == t {
			return true
		}
	}
	return false
}

func (g *Group) hasSubscriber(t string) bool {
	for i := range g.Members {
		if subscribed(&g.Members[i], t) {
			return true
		}
	}
	return false
}

func hasPart(t *Topic, p int32) bool {
	for _, x := range t.Parts {
		if x == p {
			return true
		}
	}
	return false
}

// checkValid: the C08 statement. kind is "" when valid, else the first violated clause.
func checkValid(g *Group, a Asg) (string, string) {
	names := make([]string, 0, len(a))
	for m := range a {
		names = append(names, m)
	}
	sort.Strings(names)
	for _, m := range names {
		if g.member(m) == nil {
			return "unknown-member", m
		}
	}
	count := map[TP]int{}
	for _, m := range names {
		mm := g.member(m)
		for _, p := range a[m] {
			t := g.topic(p.T)
			if t == nil || !hasPart(t, p.P) {
				return "nonexistent-partition", fmt.Sprintf("%s has %s/%d", m, p.T, p.P)
			}
			if !subscribed(mm, p.T) {
				return "nonsubscriber", fmt.Sprintf("%s has %s/%d", m, p.T, p.P)
			}
			count[p]++
		}
	}
	for _, t := range g.Topics {
		if !g.hasSubscriber(t.Name) {
			continue
		}
		for _, p := range t.Parts {
			if count[TP{t.Name, p}] > 1 {
				return "assigned-twice", fmt.Sprintf("%s/%d x%d", t.Name, p, count[TP{t.Name, p}])
			}
		}
	}
	for _, t := range g.Topics {
		if !g.hasSubscriber(t.Name) {
			continue
		}
		for _, p := range t.Parts {
			if count[TP{t.Name, p}] == 0 {
				return "unassigned", fmt.Sprintf("%s/%d", t.Name, p)
			}
		}
	}
	return "", ""
}

// balanced in Kafka's sense: no member holds >= 2 partitions more than another member that could take one of them
func checkBalanced(g *Group, a Asg) bool {
	for i := range g.Members {
		x := &g.Members[i]
		for j := range g.Members {
			y := &g.Members[j]
			if len(a[x.Name]) >= len(a[y.Name])+2 {
				for _, p := range a[x.Name] {
					if subscribed(y, p.T) && g.topic(p.T) != nil {
						return false
					}
				}
			}
		}
	}
	return true
}

func topicSet(m *Member) string {
	s := append([]string(nil), m.Topics...)
	sort.Strings(s)
	var d []string
	for i, x := range s {
		if i == 0 || x != s[i-1] {
			d = append(d, x)
		}
	}
	return strings.Join(d, ",")
}

func (g *Group) identicalSubs() bool {
	if len(g.Members) == 0 {
		return false
	}
	for i := range g.Members {
		if topicSet(&g.Members[i]) != topicSet(&g.Members[0]) {
			return false
		}
	}
	return true
}

func sizeSpreadLE1(g *Group, a Asg) bool {
	min, max := 1<<30, -1
	for _, m := range g.Members {
		n := len(a[m.Name])
		if n < min {
			min = n
		}
		if n > max {
			max = n
		}
	}
	return max-min <= 1
}

func listedTwice(m *Member, t string) bool {
	n := 0
	for _, x := range m.Topics {
		if x == t {
			n++
		}
	}
	return n > 1
}

// range statement: for each topic (with no doubly listed subscriber) the subscribers hold contiguous slices
// of the topic's partition list whose sizes differ by at most one.  "-" if no topic qualifies.
func checkRangeSizes(g *Group, a Asg) string {
	applicable := false
	for _, t := range g.Topics {
		subs := 0
		dup := false
		for i := range g.Members {
			if subscribed(&g.Members[i], t.Name) {
				subs++
				dup = dup || listedTwice(&g.Members[i], t.Name)
			}
		}
		if subs == 0 || dup {
			continue
		}
		applicable = true
		min, max := 1<<30, -1
		for i := range g.Members {
			m := &g.Members[i]
			if !subscribed(m, t.Name) {
				continue
			}
			var l []int32
			for _, p := range a[m.Name] {
				if p.T == t.Name {
					l = append(l, p.P)
				}
			}
			if len(l) < min {
				min = len(l)
			}
			if len(l) > max {
				max = len(l)
			}
			found := false
			for off := 0; off+len(l) <= len(t.Parts); off++ {
				eq := true
				for k := range l {
					if t.Parts[off+k] != l[k] {
						eq = false
						break
					}
				}
				if eq {
					found = true
					break
				}
			}
			if !found {
				return "0"
			}
		}
		if max-min > 1 {
			return "0"
		}
	}
	if !applicable {
		return "-"
	}
	return "1"
}

// ---- stickiness (relations between the previous plan carried in user data and the new plan)

// clean: user data is one consistent previous plan: only V1 data of one common generation (or none), claims
// pairwise disjoint and duplicate free.
func (g *Group) clean() bool {
	gen := ""
	seen := map[TP]bool{}
	for _, m := range g.Members {
		if m.UD.Kind == "-" {
			continue
		}
		if !strings.HasPrefix(m.UD.Kind, "g") {
			return false
		}
		if gen == "" {
			gen = m.UD.Kind
		} else if gen != m.UD.Kind {
			return false
		}
		for _, p := range m.UD.Parts {
			if seen[p] {
				return false
			}
			seen[p] = true
		}
	}
	return true
}

func ownerOf(a Asg, names []string, p TP) string {
	for _, m := range names {
		for _, q := range a[m] {
			if q == p {
				return m
			}
		}
	}
	return ""
}

func (g *Group) names() []string {
	out := make([]string, len(g.Members))
	for i, m := range g.Members {
		out[i] = m.Name
	}
	return out
}

func checkSwapFree(g *Group, a Asg) bool {
	names := g.names()
	type mv struct{ t, from, to string }
	moves := map[mv]bool{}
	for _, m := range g.Members {
		for _, p := range m.UD.Parts {
			o := ownerOf(a, names, p)
			if o != "" && o != m.Name {
				moves[mv{p.T, m.Name, o}] = true
			}
		}
	}
	for k := range moves {
		if moves[mv{k.t, k.to, k.from}] {
			return false
		}
	}
	return true
}

func sameSet(x, y []TP) bool {
	a := append([]TP(nil), x...)
	b := append([]TP(nil), y...)
	sortTPs(a)
	sortTPs(b)
	if len(a) != len(b) {
		return false
	}
	for i := range a {
		if a[i] != b[i] {
			return false
		}
	}
	return true
}

func checkSame(g *Group, a Asg) bool {
	for _, m := range g.Members {
		if !sameSet(m.UD.Parts, a[m.Name]) {
			return false
		}
	}
	return true
}

func checkLeave(g *Group, a Asg) bool {
	for _, m := range g.Members {
		for _, p := range m.UD.Parts {
			if ownerOf(a, []string{m.Name}, p) == "" {
				return false
			}
		}
	}
	return true
}

func checkJoin(g *Group, a Asg) bool {
	names := g.names()
	for _, m := range g.Members {
		for _, p := range m.UD.Parts {
			o := ownerOf(a, names, p)
			if o == m.Name {
				continue
			}
			if o == "" || g.member(o).UD.Kind != "-" {
				return false
			}
		}
	}
	return true
}

// ---- rejoin: a member that missed generations comes back with the user data of its last sync.  The members of the
// newest generation form the previous plan; the others (older generation, or no user data) are like joiners.

func genNum(m *Member) (int, bool) {
	if strings.HasPrefix(m.UD.Kind, "g") {
		n, err := strconv.Atoi(m.UD.Kind[1:])
		return n, err == nil
	}
	return 0, false
}

// latestClean: only V1 data or none, at least one generation, and the claims of the newest generation are pairwise
// disjoint and duplicate free.  Returns that generation.
func (g *Group) latestClean() (int, bool) {
	max, any := 0, false
	for i := range g.Members {
		m := &g.Members[i]
		if m.UD.Kind == "-" {
			continue
		}
		n, ok := genNum(m)
		if !ok {
			return 0, false
		}
		if !any || n > max {
			max, any = n, true
		}
	}
	if !any {
		return 0, false
	}
	seen := map[TP]bool{}
	for i := range g.Members {
		m := &g.Members[i]
		if n, ok := genNum(m); ok && n == max {
			for _, p := range m.UD.Parts {
				if seen[p] {
					return 0, false
				}
				seen[p] = true
			}
		}
	}
	return max, true
}

// every partition claimed by a member of the newest generation stayed or went to a member that is not of the
// newest generation (the rejoiner / a joiner)
func checkRejoin(g *Group, a Asg, latest int) bool {
	names := g.names()
	for i := range g.Members {
		m := &g.Members[i]
		if n, ok := genNum(m); !ok || n != latest {
			continue
		}
		for _, p := range m.UD.Parts {
			o := ownerOf(a, names, p)
			if o == m.Name {
				continue
			}
			if o == "" {
				return false
			}
			if n, ok := genNum(g.member(o)); ok && n == latest {
				return false
			}
		}
	}
	return true
}

// verdicts: all predicate values for one (strategy, kind, input, plan) line
func verdicts(strat, kind string, g *Group, a Asg) (string, map[string]string) {
	v := map[string]string{"rejoin": "-", "bal": "-", "rsz": "-", "rrd": "-", "same": "-", "leave": "-", "join": "-", "swap": "-"}
	why, _ := checkValid(g, a)
	v["valid"] = b01(why == "")
	switch strat {
	case "range":
		v["rsz"] = checkRangeSizes(g, a)
	case "rr":
		if g.identicalSubs() {
			v["rrd"] = b01(sizeSpreadLE1(g, a))
		}
	case "sticky":
		v["bal"] = b01(checkBalanced(g, a))
		if g.clean() {
			v["swap"] = b01(checkSwapFree(g, a))
			switch kind {
			case "same":
				v["same"] = b01(checkSame(g, a))
			case "leave":
				if g.identicalSubs() {
					v["leave"] = b01(checkLeave(g, a))
				}
			case "join":
				if g.identicalSubs() {
					v["join"] = b01(checkJoin(g, a))
				}
			}
		}
	}
	if strat == "sticky" && kind == "rejoin" && g.identicalSubs() {
		if latest, ok := g.latestClean(); ok {
			v["rejoin"] = b01(checkRejoin(g, a, latest))
		}
	}
	s := fmt.Sprintf("valid=%s bal=%s rsz=%s rrd=%s same=%s leave=%s join=%s swap=%s rejoin=%s",
		v["valid"], v["bal"], v["rsz"], v["rrd"], v["same"], v["leave"], v["join"], v["swap"], v["rejoin"])
	return s, v
}
