// Harness for C03: generated partition logs (legacy v0 / v1 message sets with compressed wrappers, record
// batches, mixed) are served by a simulated faithful broker in several fetches; every response is encoded by
// the real FetchResponse encoder, decoded by the real decoder and parsed by the real parseResponse of a
// partitionConsumer built without network (overlay c03_parse.go).  The same abstract response goes to the
// Lean model (svdrv_c03).  Oracles: see cpgen/oracle.go (per response and per history against the log).
package main

import (
	"flag"
	"fmt"
	"strings"

	"github.com/Shopify/sarama"
	"verif/harness/cmd/c03/cpgen"
	"verif/harness/cons"
	"verif/harness/hlib"
)

var run *hlib.Run
var rn *cpgen.Runner

func fetchDefaults(r *hlib.Rand) int32 {
	return int32(r.Pick(40, 64, 100, 100, 256, 1024, 1<<20))
}

func history(r *hlib.Rand, format int, small bool, start int64, lg *cpgen.Log, kv sarama.KafkaVersion) {
	o := cpgen.HistOpts{Rc: r.Chance(1, 4), FetchDef: fetchDefaults(r), Start: start, Kv: kv, Faults: r.Chance(1, 2),
		MaxUnits: r.Pick(1, 2, 3, 8, 8), MaxSteps: 80, PartialPr: r.Pick(0, 4, 8)}
	switch r.Intn(8) {
	case 0:
		o.FetchMax = o.FetchDef * int32(r.Pick(1, 2, 4)) // may be smaller than a unit: the documented skip
	case 1:
		o.FetchMax = 1 << 24
	}
	cpgen.RunHistory(rn, r, lg, o)
	run.Count([]string{"format-legacy-v0", "format-legacy-v1", "format-batches", "format-mixed"}[format])
}

func edge(r *hlib.Rand) {
	// non-faithful / boundary responses: correspondence with the model only
	kv := cpgen.KafkaVersions[r.Intn(len(cpgen.KafkaVersions))]
	format := r.Intn(4)
	kv = cpgen.PickVersion(r, format)
	lg := cpgen.GenLog(r, cpgen.LogOpts{Format: format, MaxUnits: 5, Txn: format >= 2 && r.Bool(), BigBase: r.Chance(1, 5)})
	fs := int32(r.Pick(1, 100, 1<<29, 1<<30, 1<<30+1, 2147483647, 2147483646))
	fmax := int32(r.Pick(0, 0, 100, 1<<30+5, 2147483647))
	off := lg.Base + int64(r.Intn(int(lg.End-lg.Base)+3)) - 1
	rn.Reset(r.Bool(), int32(r.Pick(100, 1<<20)), fmax, off, fs, kv)
	for k := r.Range(1, 4); k > 0; k-- {
		resp := &cpgen.Resp{Kind: 'D', NoOracle: true}
		// arbitrary sub-sequence of units (also ones wholly below the offset), arbitrary index
		var us []cpgen.Unit
		for _, u := range lg.Units {
			if r.Chance(2, 3) {
				us = append(us, u)
			}
		}
		if r.Chance(1, 3) {
			us = nil
		}
		if len(us) > 0 && r.Chance(1, 3) {
			v := us[len(us)-1]
			us = us[:len(us)-1]
			resp.Victim = &v
			resp.Cut = r.Range(1, 70)
		}
		for _, u := range us {
			if u.Bat != nil && u.Bat.Control && r.Chance(1, 6) {
				b := *u.Bat
				b.Ctl = byte(r.Pick('u', 'm'))
				ck, cv := cpgen.CtlKV(b.Ctl)
				b.Recs = []cpgen.Rec{{Key: ck, Value: cv}}
				u = cpgen.Unit{Bat: &b}
			}
			if u.Bat != nil {
				resp.Entries = append(resp.Entries, cpgen.Entry{Batch: u.Bat})
			} else if n := len(resp.Entries); n > 0 && resp.Entries[n-1].Batch == nil {
				resp.Entries[n-1].Legacy = append(resp.Entries[n-1].Legacy, *u.Blk)
			} else {
				resp.Entries = append(resp.Entries, cpgen.Entry{Legacy: []cpgen.LBlock{*u.Blk}})
			}
		}
		if rn.Ver() >= 4 {
			for _, a := range lg.Aborted {
				if r.Bool() {
					resp.Aborted = append(resp.Aborted, [2]int64{a.Pid, a.First + int64(r.Intn(3)) - 1})
				}
			}
		}
		if rn.Ver() >= 1 && r.Chance(1, 5) {
			resp.Throttle = 7
		}
		rn.Step(resp)
		run.Count("edge-response")
	}
}

func starts(r *hlib.Rand, n int) {
	edges := []int64{-3, -2, -1, 0, 1, 5, 9, 10, 11, 1 << 40}
	for _, o := range edges {
		for _, nw := range []int64{0, 10} {
			for _, ol := range []int64{0, 5, 10} {
				rn.StartOp(o, nw, ol)
			}
		}
	}
	for i := 0; i < n; i++ {
		ol := int64(r.Intn(100))
		nw := ol + int64(r.Intn(100))
		rn.StartOp(ol-3+int64(r.Intn(int(nw-ol)+7)), nw, ol)
	}
	run.Count("start-offset-choice")
}

// e2eCase: end-to-end scenario number i of a seed (replayable as the line "e2e <seed> <i>")
func e2eCase(seed uint64, i int) {
	r := hlib.NewRand(seed*1000003 + uint64(i) + 17)
	format := r.Intn(4)
	lg := cpgen.GenLog(r, cpgen.LogOpts{Format: format, MaxUnits: r.Pick(3, 6, 12), BigBase: r.Chance(1, 6)})
	so := lg.StartOffsets()
	start := so[r.Intn(len(so))]
	switch r.Intn(8) {
	case 0:
		start = sarama.OffsetOldest
	case 1:
		start = sarama.OffsetNewest
	}
	o := cpgen.E2EOpts{Rc: r.Chance(1, 4), Kv: cpgen.PickVersion(r, format), Start: start, FetchDef: int32(r.Pick(64, 100, 256, 1024, 1<<20)),
		Faults: r.Bool(), Slow: r.Chance(1, 3), ChanBuf: r.Pick(0, 1, 4, 256), MaxUnits: r.Pick(1, 2, 3, 8)}
	id := fmt.Sprintf("e2e %d %d", seed, i)
	run.Case(id)
	run.Count("e2e-scenario")
	if o.Slow {
		run.Count("e2e-slow-reader")
	}
	if o.Faults {
		run.Count("e2e-with-faults")
	}
	cpgen.RunE2E(run, id, seed*7919+uint64(i), lg, o)
}

func main() {
	burstOnly := flag.Bool("burstonly", false, "run only the subscription-burst rounds (process of its own, built with -race)")
	run = hlib.Start("C03")
	if *burstOnly {
		rounds := 12
		if run.Tier == "thorough" {
			rounds = 150
		}
		cons.Burst(run, rounds, 48)
		run.Finish("subscription bursts: 48 partitions of one broker subscribed at the same moment, every one must deliver its 3 records")
		return
	}
	rn = &cpgen.Runner{Run: run}
	if lines := run.ReplayLines(); lines != nil {
		for _, l := range lines {
			switch {
			case strings.HasPrefix(l, "reset "):
				if err := rn.ReplayReset(l); err != nil {
					run.Emit(l, "bad-op")
				}
			case strings.HasPrefix(l, "resp "):
				rn.ReplayStep(l)
			case strings.HasPrefix(l, "e2e "):
				t := strings.Fields(l)
				e2eCase(uint64(hlib.Atoi(t[1])), hlib.Atoi(t[2]))
			case strings.HasPrefix(l, "cs "):
				// a consumer scenario against the simulated cluster: handled below by cons.OracleOnly (replay mode)
			case strings.HasPrefix(l, "start "):
				t := strings.Fields(l)
				rn.StartOp(int64(hlib.Atoi(t[1])), int64(hlib.Atoi(t[2])), int64(hlib.Atoi(t[3])))
			default:
				run.Emit(l, "bad-op")
			}
		}
		cons.OracleOnly(run, "C03", []string{"C03:"}, 0)
		run.Finish("replay")
		return
	}
	r := hlib.NewRand(run.Seed)
	rn.TsW = cpgen.ProbeTsVariant()
	run.Set("v1_wrapper_timestamp_from_wrapper_attribute", rn.TsW)
	n := run.N
	if n == 0 {
		n = 5000
		if run.Tier == "thorough" {
			n = 60000
		}
	}
	starts(r, 200)
	// every format x every start offset of a small log (batch boundaries around the start offset)
	for i := 0; i < n/10; i++ {
		format := i % 4
		lg := cpgen.GenLog(r, cpgen.LogOpts{Format: format, MaxUnits: 4, BigBase: r.Chance(1, 6)})
		kv := cpgen.PickVersion(r, format)
		for _, s := range lg.StartOffsets() {
			history(r, format, true, s, lg, kv)
		}
	}
	for i := 0; i < n; i++ {
		if i%10 == 9 {
			edge(r)
			continue
		}
		format := r.Intn(4)
		lg := cpgen.GenLog(r, cpgen.LogOpts{Format: format, MaxUnits: r.Pick(3, 6, 10), BigBase: r.Chance(1, 6),
			TsSkew: r.Chance(1, 12)})
		kv := cpgen.PickVersion(r, format)
		so := lg.StartOffsets()
		history(r, format, false, so[r.Intn(len(so))], lg, kv)
	}
	ne := 60
	if run.Tier == "thorough" {
		ne = 600
	}
	for i := 0; i < ne && cpgen.E2EFailures < 3; i++ {
		e2eCase(run.Seed, i)
	}
	// the real Consumer against the simulated cluster (several partitions per broker, slow readers that get unsubscribed,
	// fetch faults, leader moves, appends while consuming): delivery = the log, in order, once, and it keeps progressing
	nc := 120
	if run.Tier == "thorough" {
		nc = 2500
	}
	cons.OracleOnly(run, "C03", []string{"C03:"}, nc)
	run.Finish("case = one fetch history (reset + responses) of a generated log served by a simulated faithful broker, or one edge case; " +
		"or one end-to-end scenario (real Consumer against MockBroker); non-trivial = distinct history / scenario that delivered at least one message")
}
