package cpgen

import (
	"fmt"
	"strings"

	"github.com/Shopify/sarama"
	"verif/harness/hlib"
)

// Msg: an application-visible record as stored in the log.
type Msg struct {
	Off     int64
	Key     []byte
	Value   []byte
	Headers [][2][]byte
	Ts      int64
}

func (m Msg) Text() string { return msgText(m.Off, m.Key, m.Value, m.Headers, m.Ts) }

// UnitMsgs: the records a unit stores, by the rules of the formats (Kafka's, not sarama's):
// batch record: base+delta, timestamp = max timestamp if log-append else first+delta;
// legacy v0: absolute offsets, no timestamp; v1 wrapper: inner offsets relative, rebased so that the last inner
// message sits at the wrapper's offset; timestamp = the wrapper's if the WRAPPER is flagged log-append (KIP-32).
func UnitMsgs(u Unit) []Msg {
	var out []Msg
	if b := u.Bat; b != nil {
		for _, r := range b.Recs {
			ts := b.FirstTs + r.TsDelta
			if b.LogAppend {
				ts = b.MaxTs
			}
			out = append(out, Msg{Off: b.Base + r.Delta, Key: r.Key, Value: r.Value, Headers: r.Headers, Ts: ts})
		}
		return out
	}
	l := u.Blk
	if !l.Wrapper {
		return []Msg{{Off: l.Off, Key: l.Key, Value: l.Value, Ts: l.Ts}}
	}
	for _, m := range l.Inner {
		off, ts := m.Off, m.Ts
		if m.Ver >= 1 {
			off += l.Off - l.Inner[len(l.Inner)-1].Off
			if l.LogAppend {
				ts = l.Ts
			}
		}
		out = append(out, Msg{Off: off, Key: m.Key, Value: m.Value, Ts: ts})
	}
	return out
}

// Visible: is the unit's content application-visible under the isolation level (ground truth of the log)?
func Visible(u Unit, rc bool) bool {
	if u.Bat != nil {
		if u.Bat.Control {
			return false
		}
		if rc && u.Bat.Txn && u.Aborted {
			return false
		}
	}
	return true
}

var tsFindingReports int

// Runner executes op lines against the real code and evaluates the oracles.
type Runner struct {
	Run *hlib.Run
	TsW bool // observed variant of the v1-wrapper timestamp rule (see ProbeTsVariant)

	// state of the current case
	child   *sarama.VerifChild
	ver     int16
	rc      bool
	fdef    int32
	fmax    int32
	start   int64
	lines   []string
	got     []sarama.VerifMsg
	failed  bool // a per-response oracle already reported this case
	skipped bool // an ErrMessageTooLarge skip or a non-faithful response happened: no log-level comparison
}

// ProbeTsVariant observes which timestamp rule the code applies to inner messages of a log-append v1 wrapper.
func ProbeTsVariant() bool {
	conf := sarama.NewConfig()
	conf.Version = sarama.V0_10_2_0
	ch := sarama.VerifNewChild(conf, 0, 1000)
	l := LBlock{Off: 0, Ver: 1, LogAppend: true, Ts: 5000, Wrapper: true, Codec: 1,
		Inner: []LMsg{{Off: 0, Ver: 1, LogAppend: false, Ts: 1000, Value: []byte{1}}}}
	r := &Resp{Kind: 'D', Entries: []Entry{{Legacy: []LBlock{l}}}}
	raw, err := r.Encode(3)
	if err != nil {
		return false
	}
	res := ch.Parse(raw, 3)
	return len(res.Msgs) == 1 && res.Msgs[0].TsMilli == 5000
}

func (rn *Runner) caseInput() string { return strings.Join(rn.lines, "\n") }

// Reset starts a new case.
func (rn *Runner) Reset(rc bool, fdef, fmax int32, off int64, fs int32, kv sarama.KafkaVersion) {
	conf := sarama.NewConfig()
	conf.Version = kv
	conf.Consumer.Fetch.Default = fdef
	conf.Consumer.Fetch.Max = fmax
	if rc {
		conf.Consumer.IsolationLevel = sarama.ReadCommitted
	}
	rn.child = sarama.VerifNewChild(conf, off, fs)
	rn.ver = sarama.VerifFetchVersion(kv)
	rn.rc, rn.fdef, rn.fmax, rn.start = rc, fdef, fmax, off
	rn.got = nil
	rn.skipped, rn.failed = false, false
	line := fmt.Sprintf("reset %s %s %d %d %d %d #kv=%s", b01(rc), b01(rn.TsW), fdef, fmax, off, fs, kv.String())
	rn.lines = []string{line}
	rn.Run.Emit(line, "ok")
}

func (rn *Runner) Delivered() int   { return len(rn.got) }
func (rn *Runner) Ver() int16      { return rn.ver }
func (rn *Runner) Offset() int64   { return rn.child.Offset() }
func (rn *Runner) FetchSize() int32 { return rn.child.FetchSize() }

// ReplayReset parses a reset line.
func (rn *Runner) ReplayReset(line string) error {
	t := strings.Fields(line)
	if len(t) < 7 {
		return fmt.Errorf("bad reset line")
	}
	kv := sarama.V2_8_0_0
	for _, x := range t[7:] {
		if strings.HasPrefix(x, "#kv=") {
			v, err := sarama.ParseKafkaVersion(x[4:])
			if err != nil {
				return err
			}
			kv = v
		}
	}
	rn.TsW = t[2] == "1"
	rn.Reset(t[1] == "1", int32(atoi64(t[3])), int32(atoi64(t[4])), atoi64(t[5]), int32(atoi64(t[6])), kv)
	return nil
}

func sameBytes(a, b []byte) bool { return Hex(a) == Hex(b) }

func sameMsg(g sarama.VerifMsg, w Msg) bool {
	return g.Offset == w.Off && sameBytes(g.Key, w.Key) && sameBytes(g.Value, w.Value) &&
		HeadersText(g.Headers) == HeadersText(w.Headers) && g.TsMilli == w.Ts
}

// Step sends one response through the real encoder/decoder/parseResponse, records the correspondence line and
// evaluates the per-response oracle (the property statement on this response alone):
//   - delivered == the visible records of the complete units of the response with offset >= asked offset,
//     in order, unaltered (so nothing below the asked offset, nothing twice, no control / aborted record);
//   - the next offset is beyond every record of every complete unit (markers included) and not beyond the
//     last complete unit's last offset + 1; unchanged by error / throttled / partial-only responses.
func (rn *Runner) Step(r *Resp) (sarama.VerifParseResult, string) {
	asked, fs0 := rn.child.Offset(), rn.child.FetchSize()
	raw, err := r.Encode(rn.ver)
	op := r.Text()
	rn.lines = append(rn.lines, op)
	if err != nil {
		rn.Run.Emit(op, "encode-error "+err.Error())
		rn.skipped = true
		return sarama.VerifParseResult{Verdict: "encode-error"}, "encode-error"
	}
	var res sarama.VerifParseResult
	ans := rn.Run.Safe(rn.caseInput(), func() string {
		res = rn.child.Parse(raw, rn.ver)
		return Answer(res)
	})
	rn.Run.Emit(op, ans)
	rn.got = append(rn.got, res.Msgs...)
	if r.NoOracle {
		rn.skipped = true
		return res, ans
	}
	in := rn.caseInput()
	fail := func(sig, detail string) {
		rn.failed = true
		if sig == "legacy-v1-wrapper-logappend-timestamp-ignored" {
			// known finding of the pinned tree: report a few witnesses only, so that the cap on recorded oracle
			// failures is left to anything else
			rn.Run.Count("oracle-" + sig)
			tsFindingReports++
			if tsFindingReports > 3 {
				return
			}
		}
		rn.Run.IOFail(sig, in, detail)
	}
	verdict := strings.Fields(ans)[0]
	switch r.Kind {
	case 'T', 'M', 'E':
		if res.Offset != asked || res.FetchSize != fs0 || len(res.Msgs) != 0 {
			fail("state-changed-by-error-response", ans)
		}
		want := map[byte]string{'T': "ok", 'M': "incomplete", 'E': "kerr"}[r.Kind]
		if verdict != want {
			fail("wrong-verdict-for-error-response", ans)
		}
		return res, ans
	}
	// data response: complete units (the decoder drops empty batches)
	var units []Unit
	malformed := false
	ei := 0
	for _, e := range r.Entries {
		if e.Batch != nil {
			f := ei < len(r.Fates) && r.Fates[ei]
			if len(e.Batch.Recs) > 0 {
				units = append(units, Unit{Bat: e.Batch, Aborted: f})
			}
			if e.Batch.Control && e.Batch.Ctl == 'm' {
				malformed = true
			}
		}
		for i := range e.Legacy {
			units = append(units, Unit{Blk: &e.Legacy[i]})
		}
		ei++
	}
	if malformed {
		rn.skipped = true
		return res, ans
	}
	if verdict != "ok" && verdict != "toolarge" {
		fail("error-on-wellformed-data-response", ans)
		return res, ans
	}
	if len(units) == 0 {
		if len(res.Msgs) != 0 {
			fail("delivered-from-empty-response", ans)
		}
		if verdict == "toolarge" {
			rn.skipped = true
			if !(r.Victim != nil && rn.fmax > 0 && fs0 == rn.fmax) || res.Offset != asked+1 {
				fail("unexpected-message-too-large-skip", ans)
			}
			return res, ans
		}
		if res.Offset != asked {
			fail("offset-moved-without-data", ans)
		}
		if r.Victim != nil {
			if rn.fmax > 0 && fs0 == rn.fmax {
				fail("partial-at-fetch-max-not-reported", ans)
			}
			if res.FetchSize <= fs0 && fs0 < 2147483647 && !(rn.fmax > 0 && fs0 >= rn.fmax) {
				fail("fetch-size-not-grown-on-partial", ans)
			}
			if rn.fmax > 0 && res.FetchSize > rn.fmax && fs0 <= rn.fmax {
				fail("fetch-size-beyond-max", ans)
			}
			// the byte budget is doubled (saturating at MaxInt32, capped by a non-zero Fetch.Max)
			want := int64(fs0) * 2
			if want > 2147483647 {
				want = 2147483647
			}
			if rn.fmax > 0 && want > int64(rn.fmax) {
				want = int64(rn.fmax)
			}
			if fs0 > 0 && int64(res.FetchSize) != want {
				fail("fetch-size-not-doubled-on-partial", fmt.Sprintf("fetch size %d -> %d, expected %d", fs0, res.FetchSize, want))
			}
		} else if res.FetchSize != fs0 {
			fail("fetch-size-changed-without-partial", ans)
		}
		return res, ans
	}
	var want []Msg
	var maxOff int64 = -1 << 62
	for _, u := range units {
		for _, m := range UnitMsgs(u) {
			if m.Off > maxOff {
				maxOff = m.Off
			}
			if m.Off >= asked && Visible(u, rn.rc) {
				want = append(want, m)
			}
		}
	}
	if len(res.Msgs) != len(want) {
		fail(rn.classify(res.Msgs, want, units, asked), fmt.Sprintf("asked %d: delivered %d messages, visible in response %d; %s", asked, len(res.Msgs), len(want), ans))
	} else {
		for i := range want {
			if !sameMsg(res.Msgs[i], want[i]) {
				fail(rn.classifyOne(res.Msgs[i], want[i], units), fmt.Sprintf("asked %d: message %d is %s, log has %s", asked, i,
					msgText(res.Msgs[i].Offset, res.Msgs[i].Key, res.Msgs[i].Value, res.Msgs[i].Headers, res.Msgs[i].TsMilli), want[i].Text()))
				break
			}
		}
	}
	hiLast := units[len(units)-1].Hi()
	if units[0].Hi() >= asked { // faithful: the first unit reaches the asked offset
		if res.Offset <= maxOff || res.Offset <= asked {
			fail("offset-not-advanced-past-parsed-records", fmt.Sprintf("asked %d, records up to %d, next offset %d", asked, maxOff, res.Offset))
		}
		if res.Offset > hiLast+1 {
			fail("offset-skips-beyond-fetched-range", fmt.Sprintf("asked %d, fetched up to %d, next offset %d", asked, hiLast, res.Offset))
		}
	} else {
		rn.skipped = true
	}
	if res.FetchSize != rn.fdef {
		fail("fetch-size-not-reset-after-data", ans)
	}
	return res, ans
}

// classify gives the failure a stable kind.
func (rn *Runner) classify(got []sarama.VerifMsg, want []Msg, units []Unit, asked int64) string {
	wantOff := map[int64]bool{}
	for _, w := range want {
		wantOff[w.Off] = true
	}
	seen := map[int64]bool{}
	for _, g := range got {
		if seen[g.Offset] {
			return "message-delivered-twice"
		}
		seen[g.Offset] = true
		if g.Offset < asked {
			return "message-below-asked-offset-delivered"
		}
		if !wantOff[g.Offset] {
			for _, u := range units {
				for _, m := range UnitMsgs(u) {
					if m.Off == g.Offset && u.Bat != nil && u.Bat.Control {
						return "control-record-delivered"
					}
					if m.Off == g.Offset && u.Bat != nil && u.Aborted {
						return "aborted-record-delivered"
					}
				}
			}
			return "message-not-in-log-delivered"
		}
	}
	for _, w := range want {
		if !seen[w.Off] {
			for _, u := range units {
				for _, m := range UnitMsgs(u) {
					if m.Off == w.Off && u.Bat != nil && u.Bat.Txn {
						return "committed-record-not-delivered"
					}
				}
			}
			return "visible-record-not-delivered"
		}
	}
	return "delivered-differs-from-log"
}

func (rn *Runner) classifyOne(g sarama.VerifMsg, w Msg, units []Unit) string {
	if g.Offset != w.Off {
		return "message-offset-differs-from-log"
	}
	if g.TsMilli != w.Ts {
		for _, u := range units {
			if u.Blk != nil && u.Blk.Wrapper && u.Blk.Ver >= 1 && u.Blk.LogAppend {
				for _, m := range UnitMsgs(u) {
					if m.Off == w.Off {
						return "legacy-v1-wrapper-logappend-timestamp-ignored"
					}
				}
			}
		}
		return "message-timestamp-differs-from-log"
	}
	return "message-payload-differs-from-log"
}

// Finish evaluates the history-level oracle against the log: everything delivered since the reset is exactly
// the visible records with start <= offset < next offset, in order (a prefix of visible(L, S)); `complete`
// additionally demands that the whole visible log was delivered.
func (rn *Runner) Finish(lg *Log, complete bool) {
	if rn.skipped || rn.failed {
		return
	}
	next := rn.child.Offset()
	var want []Msg
	for _, u := range lg.Units {
		if !Visible(u, rn.rc) {
			continue
		}
		for _, m := range UnitMsgs(u) {
			if m.Off >= rn.start && (m.Off < next || complete) {
				want = append(want, m)
			}
		}
	}
	in := rn.caseInput()
	for i := 1; i < len(rn.got); i++ {
		if rn.got[i].Offset <= rn.got[i-1].Offset {
			rn.Run.IOFail("stream-offsets-not-increasing", in, fmt.Sprintf("%d after %d", rn.got[i].Offset, rn.got[i-1].Offset))
			return
		}
	}
	if len(rn.got) != len(want) {
		sig := "stream-differs-from-visible-log"
		if complete && len(rn.got) < len(want) {
			sig = "stream-incomplete"
		}
		rn.Run.IOFail(sig, in, fmt.Sprintf("start %d next %d: delivered %d, visible %d", rn.start, next, len(rn.got), len(want)))
		return
	}
	for i := range want {
		if !sameMsg(rn.got[i], want[i]) {
			sig := "stream-differs-from-visible-log"
			if rn.got[i].Offset == want[i].Off && rn.got[i].TsMilli != want[i].Ts {
				sig = "stream-timestamp-differs-from-log"
			}
			rn.Run.IOFail(sig, in, fmt.Sprintf("position %d: got offset %d, log has %s", i, rn.got[i].Offset, want[i].Text()))
			return
		}
	}
}

// ReplayStep re-executes a "resp" line.
func (rn *Runner) ReplayStep(line string) {
	r, err := ParseResp(line)
	if err != nil || rn.child == nil {
		rn.Run.Emit(line, "bad-op")
		return
	}
	rn.Step(r)
}

// StartOp runs the real chooseStartingOffset and the decision-table oracle.
func (rn *Runner) StartOp(off, newest, oldest int64) {
	op := fmt.Sprintf("start %d %d %d", off, newest, oldest)
	got, verdict := sarama.VerifChooseStart(off, newest, oldest)
	ans := "out-of-range"
	if verdict == "ok" {
		ans = fmt.Sprintf("ok %d", got)
	} else if verdict != "kerr 1" {
		ans = verdict
	}
	rn.Run.Emit(op, ans)
	want := "out-of-range"
	switch {
	case off == sarama.OffsetNewest:
		want = fmt.Sprintf("ok %d", newest)
	case off == sarama.OffsetOldest:
		want = fmt.Sprintf("ok %d", oldest)
	case off >= oldest && off <= newest:
		want = fmt.Sprintf("ok %d", off)
	}
	if ans != want {
		rn.Run.IOFail("wrong-starting-offset", op, "got "+ans+" want "+want)
	}
}
