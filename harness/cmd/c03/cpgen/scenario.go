package cpgen

import (
	"strings"

	"github.com/Shopify/sarama"
	"verif/harness/hlib"
)

var KafkaVersions = []sarama.KafkaVersion{
	sarama.V0_8_2_0, sarama.V0_8_2_1, sarama.V0_8_2_2, sarama.V0_9_0_0, sarama.V0_9_0_1, sarama.V0_10_0_0, sarama.V0_10_0_1,
	sarama.V0_10_1_0, sarama.V0_10_1_1, sarama.V0_10_2_0, sarama.V0_10_2_1, sarama.V0_11_0_0, sarama.V0_11_0_1, sarama.V0_11_0_2,
	sarama.V1_0_0_0, sarama.V1_1_0_0, sarama.V1_1_1_0, sarama.V2_0_0_0, sarama.V2_0_1_0, sarama.V2_1_0_0, sarama.V2_2_0_0,
	sarama.V2_3_0_0, sarama.V2_4_0_0, sarama.V2_5_0_0, sarama.V2_6_0_0, sarama.V2_7_0_0, sarama.V2_8_0_0,
}

// PickVersion draws a Kafka version able to carry the format (0 legacy v0, 1 legacy v1, 2/3 batches).
func PickVersion(r *hlib.Rand, format int) sarama.KafkaVersion {
	for {
		kv := KafkaVersions[r.Intn(len(KafkaVersions))]
		fv := sarama.VerifFetchVersion(kv)
		switch {
		case format == 0, format == 1 && fv >= 2, format >= 2 && fv >= 4:
			return kv
		}
	}
}

type HistOpts struct {
	Rc        bool
	FetchDef  int32
	FetchMax  int32
	Start     int64
	Kv        sarama.KafkaVersion
	Faults    bool // interleave error / throttled / missing-block responses
	MaxUnits  int  // per response (besides the byte budget)
	Loose     bool // aborted index may list later transactions too
	MaxSteps  int
	PartialPr int // chance (in 8) to append partial trailing data when more data exists
}

var errCodes = []int16{1, 3, 5, 6, 9, 7, 2, 43}

// RunHistory plays a whole fetch history of a consumer started at o.Start against a faithful broker serving lg.
func RunHistory(rn *Runner, r *hlib.Rand, lg *Log, o HistOpts) {
	rn.Reset(o.Rc, o.FetchDef, o.FetchMax, o.Start, o.FetchDef, o.Kv)
	run := rn.Run
	steps := 0
	done := false
	for steps = 0; steps < o.MaxSteps; steps++ {
		asked := rn.Offset()
		if o.Faults && r.Chance(1, 6) {
			var resp *Resp
			switch r.Intn(3) {
			case 0:
				resp = &Resp{Kind: 'E', Code: errCodes[r.Intn(len(errCodes))]}
			case 1:
				if rn.Ver() >= 1 {
					resp = &Resp{Kind: 'T', Throttle: int32(r.Range(1, 500))}
				} else {
					resp = &Resp{Kind: 'M'}
				}
			default:
				resp = &Resp{Kind: 'M'}
			}
			rn.Step(resp)
			run.Count("resp-fault-" + string(resp.Kind))
			continue
		}
		if asked >= lg.End {
			// nothing more: an empty data response leaves everything as it is
			resp := &Resp{Kind: 'D'}
			if rn.Ver() >= 1 && r.Bool() {
				resp.Throttle = int32(r.Range(1, 50))
			}
			rn.Step(resp)
			done = true
			break
		}
		budget := int(rn.FetchSize())
		maxU := o.MaxUnits
		if r.Chance(1, 3) {
			maxU = r.Range(1, 3)
		}
		resp := lg.Fetch(r, rn.Ver(), asked, budget, maxU, true, o.Loose)
		if resp.Victim != nil && len(resp.Entries) > 0 && !r.Chance(o.PartialPr, 8) {
			resp.Victim, resp.Cut = nil, 0
		}
		if rn.Ver() >= 1 && r.Chance(1, 10) {
			resp.Throttle = int32(r.Range(1, 50))
		}
		_, ans := rn.Step(resp)
		switch {
		case len(resp.Entries) == 0 && resp.Victim != nil:
			run.Count("resp-partial-only")
		case resp.Victim != nil:
			run.Count("resp-data+partial")
		default:
			run.Count("resp-data")
		}
		if strings.HasPrefix(ans, "toolarge") {
			run.Count("resp-toolarge-skip")
		}
		if len(resp.Aborted) > 0 {
			run.Count("resp-with-aborted-index")
		}
	}
	if done {
		run.Count("history-complete")
	} else {
		run.Count("history-cut-short")
	}
	rn.Finish(lg, done)
	if rn.Delivered() > 0 {
		run.Nontrivial(rn.caseInput())
	}
}
