package cpgen

import (
	"encoding/binary"
	"hash/crc32"
	"fmt"
	"strings"
	"time"

	"github.com/Shopify/sarama"
)

func msTime(ms int64) time.Time {
	if ms < 0 {
		return time.Time{}
	}
	return time.Unix(ms/1000, (ms%1000)*int64(time.Millisecond))
}

// CtlKV: key/value bytes of a control record of the given kind (a abort, c commit, u unknown, m malformed)
func CtlKV(c byte) (k, v []byte) {
	v = []byte{0, 0, 0, 0, 0, 7}
	switch c {
	case 'a':
		k = []byte{0, 0, 0, 0}
	case 'c':
		k = []byte{0, 0, 0, 1}
	case 'u':
		k = []byte{0, 0, 0, 9}
	default: // malformed: key too short for version+type
		k = []byte{0, 0}
	}
	return
}

func (b *Batch) sarama() *sarama.RecordBatch {
	rb := &sarama.RecordBatch{
		FirstOffset: b.Base, Version: 2, Codec: sarama.CompressionCodec(b.Codec), CompressionLevel: sarama.CompressionLevelDefault,
		Control: b.Control, LogAppendTime: b.LogAppend, LastOffsetDelta: b.LastDelta, FirstTimestamp: msTime(b.FirstTs),
		MaxTimestamp: msTime(b.MaxTs), ProducerID: b.Pid, IsTransactional: b.Txn,
	}
	for _, r := range b.Recs {
		rec := &sarama.Record{OffsetDelta: r.Delta, Key: r.Key, Value: r.Value, TimestampDelta: time.Duration(r.TsDelta) * time.Millisecond}
		for _, h := range r.Headers {
			rec.Headers = append(rec.Headers, &sarama.RecordHeader{Key: h[0], Value: h[1]})
		}
		rb.Records = append(rb.Records, rec)
	}
	return rb
}

func (l *LBlock) sarama() (*sarama.MessageBlock, error) {
	m := &sarama.Message{LogAppendTime: l.LogAppend, Key: l.Key, Value: l.Value, Version: l.Ver, Timestamp: msTime(l.Ts),
		CompressionLevel: sarama.CompressionLevelDefault}
	if l.Wrapper {
		set := &sarama.MessageSet{}
		for _, im := range l.Inner {
			set.Messages = append(set.Messages, &sarama.MessageBlock{Offset: im.Off, Msg: &sarama.Message{
				LogAppendTime: im.LogAppend, Key: im.Key, Value: im.Value, Version: im.Ver, Timestamp: msTime(im.Ts)}})
		}
		raw, err := sarama.VerifEncodeMsgSet(set)
		if err != nil {
			return nil, err
		}
		m.Codec = sarama.CompressionCodec(l.Codec)
		m.Key = nil
		m.Value = raw
		if raw == nil {
			m.Value = []byte{}
		}
	}
	return &sarama.MessageBlock{Offset: l.Off, Msg: m}, nil
}

func appendEntry(set []*sarama.Records, e Entry) ([]*sarama.Records, error) {
	if e.Batch != nil {
		return append(set, &sarama.Records{RecordBatch: e.Batch.sarama()}), nil
	}
	ms := &sarama.MessageSet{}
	for i := range e.Legacy {
		mb, err := e.Legacy[i].sarama()
		if err != nil {
			return nil, err
		}
		ms.Messages = append(ms.Messages, mb)
	}
	return append(set, &sarama.Records{MsgSet: ms}), nil
}

// Encode produces the wire bytes of the response for FetchResponse version `ver` with the real encoder.
// Partial trailing data: the victim unit is encoded (real encoder) after the entries, then the last Cut bytes
// of the records section are removed and the records-size field is patched accordingly.
func (r *Resp) Encode(ver int16) ([]byte, error) {
	fr := &sarama.FetchResponse{Version: ver, ThrottleTime: time.Duration(r.Throttle) * time.Millisecond}
	mk := func(set []*sarama.Records) *sarama.FetchResponse {
		c := *fr
		blk := &sarama.FetchResponseBlock{HighWaterMarkOffset: 1 << 40, LastStableOffset: 1 << 40, PreferredReadReplica: -1, RecordsSet: set}
		for _, a := range r.Aborted {
			blk.AbortedTransactions = append(blk.AbortedTransactions, &sarama.AbortedTransaction{ProducerID: a[0], FirstOffset: a[1]})
		}
		c.Blocks = map[string]map[int32]*sarama.FetchResponseBlock{"t": {0: blk}}
		return &c
	}
	switch r.Kind {
	case 'T':
		return sarama.VerifEncode(fr)
	case 'M':
		c := *fr
		c.Blocks = map[string]map[int32]*sarama.FetchResponseBlock{"t": {1: {RecordsSet: []*sarama.Records{}}}}
		return sarama.VerifEncode(&c)
	case 'E':
		c := mk(nil)
		c.Blocks["t"][0].Err = sarama.KError(r.Code)
		c.Blocks["t"][0].AbortedTransactions = nil
		return sarama.VerifEncode(c)
	}
	var set []*sarama.Records
	var err error
	for _, e := range r.Entries {
		if set, err = appendEntry(set, e); err != nil {
			return nil, err
		}
	}
	if r.Victim == nil {
		out, err := sarama.VerifEncode(mk(set))
		if err != nil {
			return nil, err
		}
		if as, any := r.attrs(); any {
			hdr, err := sarama.VerifEncode(mk(nil))
			if err != nil {
				return nil, err
			}
			patchReserved(out, len(hdr), as)
		}
		return out, nil
	}
	// three encodings with the real encoder: without records (header length), without and with the victim
	hdr, err := sarama.VerifEncode(mk(nil))
	if err != nil {
		return nil, err
	}
	// (legacy blocks are encoded back to back, so a legacy victim continues a trailing legacy set)
	set2, err := appendEntry(append([]*sarama.Records{}, set...), r.Victim.entry())
	if err != nil {
		return nil, err
	}
	full, err := sarama.VerifEncode(mk(set2))
	if err != nil {
		return nil, err
	}
	if as, any := r.attrs(); any {
		patchReserved(full, len(hdr), as)
	}
	base, err := sarama.VerifEncode(mk(set))
	if err != nil {
		return nil, err
	}
	vlen := len(full) - len(base)
	cut := r.Cut
	if cut < 1 {
		cut = 1
	}
	if cut >= vlen {
		cut = vlen - 1
	}
	r.Cut = cut
	out := append([]byte{}, full[:len(full)-cut]...)
	recLen := len(full) - len(hdr) - cut
	binary.BigEndian.PutUint32(out[len(hdr)-4:], uint32(recLen))
	return out, nil
}

// VictimLen is the encoded size of the victim unit (to choose Cut); 0 if none.
func (r *Resp) VictimLen(ver int16) int {
	if r.Victim == nil {
		return 0
	}
	one := &Resp{Kind: 'D', Entries: []Entry{r.Victim.entry()}}
	none := &Resp{Kind: 'D'}
	a, err1 := one.Encode(ver)
	b, err2 := none.Encode(ver)
	if err1 != nil || err2 != nil {
		return 0
	}
	return len(a) - len(b)
}

// UnitLen is the encoded size of one unit.
func UnitLen(u Unit, ver int16) int {
	r := &Resp{Kind: 'D', Victim: &u}
	return r.VictimLen(ver)
}

func msgText(off int64, k, v []byte, h [][2][]byte, ts int64) string {
	return fmt.Sprintf("%d:%s:%s:%s:%d", off, Hex(k), Hex(v), HeadersText(h), ts)
}

// Answer canonicalises what the real parseResponse did, in the format of the Lean driver.
func Answer(res sarama.VerifParseResult) string {
	verdict := res.Verdict
	if strings.HasPrefix(verdict, "other") {
		verdict = "ctlerr"
	}
	if verdict == "ok" && len(res.Reported) > 0 {
		if len(res.Reported) == 1 && res.Reported[0] == "message-too-large" {
			verdict = "toolarge"
		} else {
			verdict = "ok+reported:" + strings.Join(res.Reported, ",")
		}
	}
	var sb strings.Builder
	fmt.Fprintf(&sb, "%s off=%d fs=%d |", verdict, res.Offset, res.FetchSize)
	for _, m := range res.Msgs {
		sb.WriteString(" " + msgText(m.Offset, m.Key, m.Value, m.Headers, m.TsMilli))
	}
	return sb.String()
}

var castagnoli = crc32.MakeTable(crc32.Castagnoli)

// patchReserved sets reserved attribute bits on the wire: buf holds an encoded FetchResponse whose records section
// starts at recStart and consists of the units in order (legacy message: offset(8) size(4) ...; v2 batch:
// baseOffset(8) batchLength(4) leaderEpoch(4) magic(1) crc(4) attributes(2) ...).  For every batch i with
// bits[i] != 0 the bits are ORed into the attributes field and the batch CRC (CRC-32C over attributes..end of
// batch) is recomputed - what a broker that uses those bits sends.  The real encoder cannot produce them.
func patchReserved(buf []byte, recStart int, bits []uint16) {
	p := recStart
	for _, b := range bits {
		if p+12 > len(buf) {
			return
		}
		size := int(binary.BigEndian.Uint32(buf[p+8:]))
		end := p + 12 + size
		if end > len(buf) {
			return
		}
		if b != 0 && size >= 49 && buf[p+16] == 2 {
			a := binary.BigEndian.Uint16(buf[p+21:]) | b
			binary.BigEndian.PutUint16(buf[p+21:], a)
			binary.BigEndian.PutUint32(buf[p+17:], crc32.Checksum(buf[p+21:end], castagnoli))
		}
		p = end
	}
}
