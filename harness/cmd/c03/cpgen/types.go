// Package cpgen: abstract fetch-response / log model shared by the C03 and C11 harnesses: the same data is
// (a) printed as an op line for the Lean driver, (b) turned into real sarama types, encoded by the real
// encoder, decoded by the real decoder and parsed by the real parseResponse.
package cpgen

import (
	"encoding/hex"
	"fmt"
	"strconv"
	"strings"
)

type Rec struct {
	Delta   int64
	Key     []byte
	Value   []byte
	Headers [][2][]byte
	TsDelta int64
}

type Batch struct {
	Base      int64
	LastDelta int32
	Recs      []Rec
	Control   bool
	Ctl       byte // a abort, c commit, u unknown type, m malformed key, n not a control batch
	Txn       bool
	Pid       int64
	LogAppend bool
	FirstTs   int64
	MaxTs     int64
	Codec     int8 // not seen by the model
	// AttrHigh: reserved attribute bits (outside 0x3f, e.g. 0x40 hasDeleteHorizonMs of Kafka >= 3.1) the broker sets on
	// the wire; clients must ignore them, so the model does not see them
	AttrHigh uint16
}

type LMsg struct {
	Off       int64
	Ver       int8
	LogAppend bool
	Ts        int64
	Key       []byte
	Value     []byte
}

type LBlock struct {
	Off       int64
	Ver       int8
	LogAppend bool
	Ts        int64
	Key       []byte
	Value     []byte
	Wrapper   bool
	Inner     []LMsg
	Codec     int8 // wrapper codec (1..4); not seen by the model
}

// Entry: exactly one of Legacy (a run of legacy blocks decoded into one message set) / Batch.
type Entry struct {
	Legacy []LBlock
	Batch  *Batch
}

// Unit: one storage unit of a log (a legacy block or a record batch) with the ground truth the oracle needs.
type Unit struct {
	Blk     *LBlock
	Bat     *Batch
	Aborted bool // ground truth: transactional data batch whose transaction was aborted
}

func (u Unit) Hi() int64 {
	if u.Blk != nil {
		return u.Blk.Off
	}
	return u.Bat.Base + int64(u.Bat.LastDelta)
}

type Resp struct {
	Kind     byte // T throttled-empty, M missing block, E error block, D data
	Code     int16
	Entries  []Entry
	Victim   *Unit // D: a further unit of which only the first len-Cut bytes are sent (partial trailing data)
	Cut      int
	Aborted  [][2]int64 // (producer id, first offset)
	Fates    []bool     // ground truth per entry: transactional batch of an aborted transaction
	Throttle int32      // ms, for D/E/M responses too
	NoOracle bool       // deliberately not a faithful broker answer: correspondence only
}

func Hex(b []byte) string {
	if len(b) == 0 {
		return "-"
	}
	return hex.EncodeToString(b)
}

func unhex(s string) []byte {
	if s == "-" || s == "" {
		return nil
	}
	b, err := hex.DecodeString(s)
	if err != nil {
		panic("bad hex " + s)
	}
	return b
}

func b01(b bool) string {
	if b {
		return "1"
	}
	return "0"
}

func HeadersText(h [][2][]byte) string {
	if len(h) == 0 {
		return "-"
	}
	p := make([]string, len(h))
	for i, kv := range h {
		p[i] = hex.EncodeToString(kv[0]) + "=" + hex.EncodeToString(kv[1])
	}
	return strings.Join(p, "+")
}

func parseHeaders(s string) [][2][]byte {
	if s == "-" {
		return nil
	}
	var out [][2][]byte
	for _, p := range strings.Split(s, "+") {
		kv := strings.SplitN(p, "=", 2)
		k, _ := hex.DecodeString(kv[0])
		v, _ := hex.DecodeString(kv[1])
		out = append(out, [2][]byte{k, v})
	}
	return out
}

func (b *Batch) Text() string {
	recs := "-"
	if len(b.Recs) > 0 {
		p := make([]string, len(b.Recs))
		for i, r := range b.Recs {
			p[i] = fmt.Sprintf("%d:%s:%s:%s:%d", r.Delta, Hex(r.Key), Hex(r.Value), HeadersText(r.Headers), r.TsDelta)
		}
		recs = strings.Join(p, "|")
	}
	return fmt.Sprintf("B;%d;%d;%s;%c;%s;%d;%s;%d;%d;%s", b.Base, b.LastDelta, b01(b.Control), b.Ctl, b01(b.Txn), b.Pid,
		b01(b.LogAppend), b.FirstTs, b.MaxTs, recs)
}

func (l *LBlock) Text() string {
	inner := "N"
	if l.Wrapper {
		inner = "E"
		if len(l.Inner) > 0 {
			p := make([]string, len(l.Inner))
			for i, m := range l.Inner {
				p[i] = fmt.Sprintf("%d.%d.%s.%d.%s.%s", m.Off, m.Ver, b01(m.LogAppend), m.Ts, Hex(m.Key), Hex(m.Value))
			}
			inner = strings.Join(p, "/")
		}
	}
	return fmt.Sprintf("%d,%d,%s,%d,%s,%s,%s", l.Off, l.Ver, b01(l.LogAppend), l.Ts, Hex(l.Key), Hex(l.Value), inner)
}

func (e Entry) Text() string {
	if e.Batch != nil {
		return e.Batch.Text()
	}
	p := make([]string, len(e.Legacy))
	for i := range e.Legacy {
		p[i] = e.Legacy[i].Text()
	}
	return "L;" + strings.Join(p, "|")
}

func (u Unit) entry() Entry {
	if u.Bat != nil {
		return Entry{Batch: u.Bat}
	}
	return Entry{Legacy: []LBlock{*u.Blk}}
}

// codecs of all units of the response in order (entries flattened, then the victim)
func (r *Resp) codecs() []int8 {
	var c []int8
	add := func(e Entry) {
		if e.Batch != nil {
			c = append(c, e.Batch.Codec)
		}
		for _, l := range e.Legacy {
			c = append(c, l.Codec)
		}
	}
	for _, e := range r.Entries {
		add(e)
	}
	if r.Victim != nil {
		add(r.Victim.entry())
	}
	return c
}

// reserved attribute bits of all units of the response in order (0 for legacy blocks)
func (r *Resp) attrs() ([]uint16, bool) {
	var a []uint16
	any := false
	add := func(e Entry) {
		if e.Batch != nil {
			a = append(a, e.Batch.AttrHigh)
			any = any || e.Batch.AttrHigh != 0
		}
		for range e.Legacy {
			a = append(a, 0)
		}
	}
	for _, e := range r.Entries {
		add(e)
	}
	if r.Victim != nil {
		add(r.Victim.entry())
	}
	return a, any
}

// Text is the op line ("resp ..."); tokens starting with '#' are ignored by the Lean driver and carry what
// only the implementation side needs (codecs, the cut unit, throttle time, ground-truth fates).
func (r *Resp) Text() string {
	var sb strings.Builder
	sb.WriteString("resp ")
	switch r.Kind {
	case 'T':
		sb.WriteString("T")
	case 'M':
		sb.WriteString("M")
	case 'E':
		fmt.Fprintf(&sb, "E%d", r.Code)
	default:
		ab := "-"
		if len(r.Aborted) > 0 {
			p := make([]string, len(r.Aborted))
			for i, a := range r.Aborted {
				p[i] = fmt.Sprintf("%d:%d", a[0], a[1])
			}
			ab = strings.Join(p, ",")
		}
		fmt.Fprintf(&sb, "D %s %s", b01(r.Victim != nil), ab)
		for _, e := range r.Entries {
			sb.WriteString(" " + e.Text())
		}
		cs := r.codecs()
		if len(cs) > 0 {
			p := make([]string, len(cs))
			for i, c := range cs {
				p[i] = strconv.Itoa(int(c))
			}
			sb.WriteString(" #codecs=" + strings.Join(p, ","))
		}
		if as, any := r.attrs(); any {
			p := make([]string, len(as))
			for i, a := range as {
				p[i] = strconv.Itoa(int(a))
			}
			sb.WriteString(" #attrs=" + strings.Join(p, ","))
		}
		if r.Victim != nil {
			fmt.Fprintf(&sb, " #victim=%s #cut=%d", r.Victim.entry().Text(), r.Cut)
		}
		if len(r.Fates) > 0 {
			p := make([]string, len(r.Fates))
			for i, f := range r.Fates {
				p[i] = b01(f)
			}
			sb.WriteString(" #fates=" + strings.Join(p, ","))
		}
	}
	if r.Throttle != 0 {
		fmt.Fprintf(&sb, " #throttle=%d", r.Throttle)
	}
	if r.NoOracle {
		sb.WriteString(" #nooracle")
	}
	return sb.String()
}

func atoi64(s string) int64 {
	n, err := strconv.ParseInt(s, 10, 64)
	if err != nil {
		panic("bad int " + s)
	}
	return n
}

func parseBatch(f []string) *Batch {
	if len(f) != 10 {
		panic("bad batch token")
	}
	b := &Batch{Base: atoi64(f[0]), LastDelta: int32(atoi64(f[1])), Control: f[2] == "1", Ctl: f[3][0], Txn: f[4] == "1",
		Pid: atoi64(f[5]), LogAppend: f[6] == "1", FirstTs: atoi64(f[7]), MaxTs: atoi64(f[8])}
	if f[9] != "-" {
		for _, rs := range strings.Split(f[9], "|") {
			p := strings.Split(rs, ":")
			b.Recs = append(b.Recs, Rec{Delta: atoi64(p[0]), Key: unhex(p[1]), Value: unhex(p[2]), Headers: parseHeaders(p[3]), TsDelta: atoi64(p[4])})
		}
	}
	return b
}

func parseLBlock(s string) LBlock {
	p := strings.Split(s, ",")
	l := LBlock{Off: atoi64(p[0]), Ver: int8(atoi64(p[1])), LogAppend: p[2] == "1", Ts: atoi64(p[3]), Key: unhex(p[4]), Value: unhex(p[5])}
	if p[6] != "N" {
		l.Wrapper = true
		if p[6] != "E" {
			for _, ms := range strings.Split(p[6], "/") {
				q := strings.Split(ms, ".")
				l.Inner = append(l.Inner, LMsg{Off: atoi64(q[0]), Ver: int8(atoi64(q[1])), LogAppend: q[2] == "1", Ts: atoi64(q[3]), Key: unhex(q[4]), Value: unhex(q[5])})
			}
		}
	}
	return l
}

func parseEntry(s string) Entry {
	f := strings.Split(s, ";")
	if f[0] == "B" {
		return Entry{Batch: parseBatch(f[1:])}
	}
	var e Entry
	for _, bs := range strings.Split(f[1], "|") {
		e.Legacy = append(e.Legacy, parseLBlock(bs))
	}
	return e
}

// ParseResp parses an op line produced by Resp.Text (replay).
func ParseResp(line string) (r *Resp, err error) {
	defer func() {
		if p := recover(); p != nil {
			err = fmt.Errorf("%v", p)
		}
	}()
	t := strings.Fields(line)
	if len(t) < 2 || t[0] != "resp" {
		return nil, fmt.Errorf("not a resp line")
	}
	r = &Resp{}
	var codecs []int8
	var attrs []uint16
	var plain []string
	for _, x := range t[1:] {
		switch {
		case strings.HasPrefix(x, "#codecs="):
			for _, c := range strings.Split(x[8:], ",") {
				codecs = append(codecs, int8(atoi64(c)))
			}
		case strings.HasPrefix(x, "#attrs="):
			for _, c := range strings.Split(x[7:], ",") {
				attrs = append(attrs, uint16(atoi64(c)))
			}
		case strings.HasPrefix(x, "#victim="):
			e := parseEntry(x[8:])
			if e.Batch != nil {
				r.Victim = &Unit{Bat: e.Batch}
			} else {
				r.Victim = &Unit{Blk: &e.Legacy[0]}
			}
		case strings.HasPrefix(x, "#cut="):
			r.Cut = int(atoi64(x[5:]))
		case strings.HasPrefix(x, "#fates="):
			for _, c := range strings.Split(x[7:], ",") {
				r.Fates = append(r.Fates, c == "1")
			}
		case strings.HasPrefix(x, "#throttle="):
			r.Throttle = int32(atoi64(x[10:]))
		case x == "#nooracle":
			r.NoOracle = true
		case strings.HasPrefix(x, "#"):
		default:
			plain = append(plain, x)
		}
	}
	switch {
	case plain[0] == "T":
		r.Kind = 'T'
		if r.Throttle == 0 {
			r.Throttle = 100
		}
	case plain[0] == "M":
		r.Kind = 'M'
	case plain[0][0] == 'E':
		r.Kind = 'E'
		r.Code = int16(atoi64(plain[0][1:]))
	case plain[0] == "D":
		r.Kind = 'D'
		if plain[2] != "-" {
			for _, a := range strings.Split(plain[2], ",") {
				q := strings.Split(a, ":")
				r.Aborted = append(r.Aborted, [2]int64{atoi64(q[0]), atoi64(q[1])})
			}
		}
		for _, es := range plain[3:] {
			r.Entries = append(r.Entries, parseEntry(es))
		}
		i := 0
		var curAttr uint16
		next := func() int8 {
			curAttr = 0
			if i < len(attrs) {
				curAttr = attrs[i]
			}
			if i < len(codecs) {
				i++
				return codecs[i-1]
			}
			i++
			return 0
		}
		for ei := range r.Entries {
			if r.Entries[ei].Batch != nil {
				r.Entries[ei].Batch.Codec = next()
				r.Entries[ei].Batch.AttrHigh = curAttr
			}
			for li := range r.Entries[ei].Legacy {
				r.Entries[ei].Legacy[li].Codec = next()
			}
		}
		if r.Victim != nil {
			if r.Victim.Bat != nil {
				r.Victim.Bat.Codec = next()
				r.Victim.Bat.AttrHigh = curAttr
			} else {
				r.Victim.Blk.Codec = next()
			}
		}
	default:
		return nil, fmt.Errorf("bad resp kind")
	}
	return r, nil
}
