package cpgen

import (
	"verif/harness/hlib"
)

// LogOpts steers the log generator.
type LogOpts struct {
	Format   int  // 0 legacy v0, 1 legacy v1, 2 record batches, 3 legacy v0/v1 followed by batches
	Txn      bool // transactional producers (batches only)
	MaxUnits int
	BigBase  bool // offsets above 2^32
	// TsSkew: v1 wrappers whose log-append attribute differs from their inner messages' (what a broker with
	// LogAppendTime really stores: wrapper flagged, inner messages untouched)
	TsSkew bool
	// LeaveOpen: transactions still open at the end of the log are not decided (the log then extends beyond its
	// last stable offset; only a broker that honours the isolation level of the REQUEST keeps them away from a
	// read-committed consumer)
	LeaveOpen bool
}

type AbortedTxn struct{ Pid, First, Marker int64 }

type Log struct {
	Units   []Unit
	Aborted []AbortedTxn
	Base    int64 // first offset
	End     int64 // last offset + 1 (high watermark)
	LSO     int64 // last stable offset: first offset of the earliest still open transaction, End if none
}

func rbytes(r *hlib.Rand, allowNil bool) []byte {
	if allowNil && r.Chance(1, 6) {
		return nil
	}
	n := r.Range(1, 6)
	if r.Chance(1, 10) {
		n = r.Range(20, 200)
	}
	b := make([]byte, n)
	for i := range b {
		b[i] = byte(r.Intn(256))
	}
	return b
}

func wrapperCodec(r *hlib.Rand, ver int8) int8 {
	if ver >= 1 {
		return int8(r.Range(1, 3))
	}
	return int8(r.Range(1, 2))
}

func genLegacy(r *hlib.Rand, ver int8, nx *int64, skew bool) *LBlock {
	ts := func() int64 {
		if ver == 0 || r.Chance(1, 8) {
			return -1
		}
		return int64(1500000000000) + int64(r.Intn(100000))
	}
	la := ver >= 1 && r.Chance(1, 3)
	if !r.Chance(2, 5) { // plain message
		l := &LBlock{Off: *nx, Ver: ver, LogAppend: la, Ts: ts(), Key: rbytes(r, true), Value: rbytes(r, true)}
		*nx++
		if r.Chance(1, 8) {
			*nx += int64(r.Range(1, 3)) // compaction gap
		}
		return l
	}
	k := r.Range(1, 4)
	l := &LBlock{Ver: ver, LogAppend: la, Ts: ts(), Wrapper: true, Codec: wrapperCodec(r, ver)}
	if ver == 0 {
		off := *nx
		for i := 0; i < k; i++ {
			l.Inner = append(l.Inner, LMsg{Off: off, Ver: 0, Ts: -1, Key: rbytes(r, true), Value: rbytes(r, true)})
			off++
			if r.Chance(1, 8) && i+1 < k {
				off += int64(r.Range(1, 2))
			}
		}
		l.Off = l.Inner[k-1].Off
		*nx = l.Off + 1
	} else {
		for i := 0; i < k; i++ {
			ila := la
			if skew {
				ila = false
			}
			l.Inner = append(l.Inner, LMsg{Off: int64(i), Ver: 1, LogAppend: ila, Ts: ts(), Key: rbytes(r, true), Value: rbytes(r, true)})
		}
		l.Off = *nx + int64(k) - 1
		*nx = l.Off + 1
	}
	return l
}

func genRecs(r *hlib.Rand, k int, noTs bool) ([]Rec, int64) {
	var recs []Rec
	d := int64(0)
	if r.Chance(1, 10) {
		d = int64(r.Range(1, 2)) // head removed by compaction
	}
	for i := 0; i < k; i++ {
		rec := Rec{Delta: d, Key: rbytes(r, true), Value: rbytes(r, true)}
		if !noTs {
			rec.TsDelta = int64(r.Intn(50))
		}
		for h := r.Pick(0, 0, 0, 1, 2); h > 0; h-- {
			rec.Headers = append(rec.Headers, [2][]byte{rbytes(r, false), rbytes(r, true)})
		}
		recs = append(recs, rec)
		d++
		if r.Chance(1, 8) {
			d += int64(r.Range(1, 2))
		}
	}
	return recs, d - 1
}

func genBatch(r *hlib.Rand, nx *int64, maxCodec int) *Batch {
	k := r.Range(1, 4)
	b := &Batch{Base: *nx, Ctl: 'n', Pid: -1, Codec: int8(r.Intn(maxCodec + 1)), LogAppend: r.Chance(1, 4)}
	if r.Chance(1, 25) {
		k = 0 // emptied by compaction (such a batch has an empty, uncompressed records section)
		b.Codec = 0
	}
	b.FirstTs = int64(1500000000000) + int64(r.Intn(100000))
	noTs := r.Chance(1, 10)
	if noTs {
		b.FirstTs = -1
	}
	b.MaxTs = b.FirstTs + 60
	if noTs && !r.Chance(1, 3) {
		b.MaxTs = -1
	}
	var last int64
	b.Recs, last = genRecs(r, k, noTs)
	if last < 0 {
		last = int64(r.Intn(3))
	}
	if r.Chance(1, 8) {
		last += int64(r.Range(1, 3)) // tail removed by compaction
	}
	b.LastDelta = int32(last)
	*nx = b.Base + last + 1
	return b
}

func genMarker(r *hlib.Rand, nx *int64, pid int64, kind byte) *Batch {
	k, v := CtlKV(kind)
	b := &Batch{Base: *nx, LastDelta: 0, Control: true, Ctl: kind, Txn: true, Pid: pid, FirstTs: 1500000000000 + int64(r.Intn(1000))}
	b.MaxTs = b.FirstTs
	b.Recs = []Rec{{Delta: 0, Key: k, Value: v}}
	*nx++
	return b
}

// GenLog generates a well-formed partition log.
func GenLog(r *hlib.Rand, o LogOpts) *Log {
	lg := &Log{}
	nx := int64(r.Pick(0, 0, 1, 5, 17, 1000))
	if o.BigBase {
		nx = (int64(1) << 32) + int64(r.Intn(3)) - 1 + (int64(r.Intn(3)) << 40)
	}
	lg.Base = nx
	n := r.Range(1, o.MaxUnits)
	type open struct {
		first int64
		units []int
	}
	opened := map[int64]*open{}
	pids := []int64{7, 8, 9}
	closeTxn := func(pid int64, abort bool) {
		op := opened[pid]
		delete(opened, pid)
		kind := byte('c')
		if abort {
			kind = 'a'
		}
		m := genMarker(r, &nx, pid, kind)
		lg.Units = append(lg.Units, Unit{Bat: m})
		if abort {
			for _, i := range op.units {
				lg.Units[i].Aborted = true
			}
			lg.Aborted = append(lg.Aborted, AbortedTxn{Pid: pid, First: op.first, Marker: m.Base})
		}
	}
	switchAt := n
	if o.Format == 3 {
		switchAt = r.Range(1, n)
	}
	for i := 0; i < n; i++ {
		f := o.Format
		if f == 3 {
			if i < switchAt {
				f = r.Intn(2)
			} else {
				f = 2
			}
		}
		switch f {
		case 0, 1:
			lg.Units = append(lg.Units, Unit{Blk: genLegacy(r, int8(f), &nx, o.TsSkew)})
		default:
			if !o.Txn {
				lg.Units = append(lg.Units, Unit{Bat: genBatch(r, &nx, 4)})
				continue
			}
			pid := pids[r.Intn(len(pids))]
			switch c := r.Intn(10); {
			case c < 2: // non-transactional batch (possibly idempotent producer with the same id space)
				b := genBatch(r, &nx, 4)
				if r.Bool() {
					b.Pid = pids[r.Intn(len(pids))]
				}
				lg.Units = append(lg.Units, Unit{Bat: b})
			case c < 7 || opened[pid] == nil: // transactional data
				b := genBatch(r, &nx, 4)
				b.Txn, b.Pid = true, pid
				if opened[pid] == nil {
					opened[pid] = &open{first: b.Base}
				}
				opened[pid].units = append(opened[pid].units, len(lg.Units))
				lg.Units = append(lg.Units, Unit{Bat: b})
			default:
				closeTxn(pid, r.Chance(1, 2))
			}
		}
	}
	for _, pid := range pids { // decide the open transactions (unless some are to stay open)
		if opened[pid] != nil && !(o.LeaveOpen && r.Chance(2, 3)) {
			closeTxn(pid, r.Chance(1, 2))
		}
	}
	lg.End = nx
	lg.LSO = nx
	for _, op := range opened {
		if op.first < lg.LSO {
			lg.LSO = op.first
		}
	}
	return lg
}

// FaithfulIndex: the aborted transactions a broker reports for a fetch at offset o whose returned data ends
// with a unit of last offset hi: those not finished before o that begin at or below hi; with `loose` also
// later ones (the broker's upper bound is not exact).  Shuffled.
func (lg *Log) FaithfulIndex(r *hlib.Rand, o, hi int64, loose bool) [][2]int64 {
	var out [][2]int64
	for _, a := range lg.Aborted {
		if a.Marker >= o && (a.First <= hi || loose) {
			out = append(out, [2]int64{a.Pid, a.First})
		}
	}
	for i := len(out) - 1; i > 0; i-- {
		j := r.Intn(i + 1)
		out[i], out[j] = out[j], out[i]
	}
	return out
}

// StartOffsets: the interesting start offsets of a log: every unit boundary, every record offset, one before /
// after, the end.
func (lg *Log) StartOffsets() []int64 {
	seen := map[int64]bool{}
	var out []int64
	add := func(x int64) {
		if x >= lg.Base && x <= lg.End && !seen[x] {
			seen[x] = true
			out = append(out, x)
		}
	}
	add(lg.Base)
	for _, u := range lg.Units {
		for _, m := range UnitMsgs(u) {
			add(m.Off - 1)
			add(m.Off)
			add(m.Off + 1)
		}
		add(u.Hi())
		add(u.Hi() + 1)
	}
	add(lg.End)
	return out
}

// group turns a run of units into RecordsSet entries (consecutive legacy blocks form one message set).
func group(units []Unit) ([]Entry, []bool) {
	var es []Entry
	var fates []bool
	for _, u := range units {
		if u.Blk != nil {
			if n := len(es); n > 0 && es[n-1].Batch == nil {
				es[n-1].Legacy = append(es[n-1].Legacy, *u.Blk)
				continue
			}
			es = append(es, Entry{Legacy: []LBlock{*u.Blk}})
			fates = append(fates, false)
		} else {
			es = append(es, Entry{Batch: u.Bat})
			fates = append(fates, u.Aborted)
		}
	}
	return es, fates
}

// Fetch simulates a faithful broker: the units from the first one whose last offset is >= o, as many as fit
// into `budget` bytes (at most maxUnits), then - if keepPartial - the leading bytes of the next unit.
func (lg *Log) Fetch(r *hlib.Rand, ver int16, o int64, budget int, maxUnits int, keepPartial bool, loose bool) *Resp {
	resp := &Resp{Kind: 'D'}
	i := 0
	for i < len(lg.Units) && lg.Units[i].Hi() < o {
		i++
	}
	var taken []Unit
	for i < len(lg.Units) && len(taken) < maxUnits {
		sz := UnitLen(lg.Units[i], ver)
		if sz > budget {
			break
		}
		budget -= sz
		taken = append(taken, lg.Units[i])
		i++
	}
	resp.Entries, resp.Fates = group(taken)
	if i < len(lg.Units) && keepPartial && budget >= 1 {
		sz := UnitLen(lg.Units[i], ver)
		if sz > budget {
			v := lg.Units[i]
			resp.Victim = &v
			resp.Cut = sz - budget
		} else if sz > 1 {
			v := lg.Units[i]
			resp.Victim = &v
			resp.Cut = r.Range(1, sz-1)
		}
	}
	if ver >= 4 && len(lg.Aborted) > 0 {
		hi := o
		if len(taken) > 0 {
			hi = taken[len(taken)-1].Hi()
		}
		resp.Aborted = lg.FaithfulIndex(r, o, hi, loose)
	}
	return resp
}

// FetchIso is Fetch by a broker that honours the isolation level of the REQUEST (what Kafka does):
// read committed: only units below the last stable offset, with the aborted-transaction index of the range;
// read uncommitted: units up to the high watermark and NO aborted-transaction index.
func (lg *Log) FetchIso(r *hlib.Rand, ver int16, o int64, budget int, maxUnits int, keepPartial bool, loose bool, readCommitted bool) *Resp {
	limit := lg.End
	if readCommitted {
		limit = lg.LSO
	}
	n := len(lg.Units)
	for n > 0 && lg.Units[n-1].Hi() >= limit {
		n--
	}
	view := &Log{Units: lg.Units[:n], Aborted: lg.Aborted, Base: lg.Base, End: limit, LSO: limit}
	resp := view.Fetch(r, ver, o, budget, maxUnits, keepPartial, loose)
	if !readCommitted {
		resp.Aborted = nil
	}
	return resp
}

// VisibleTo: what a consumer configured with the isolation level has to receive from offset start on: read
// committed - data records of non-transactional batches and committed transactions below the last stable offset;
// read uncommitted - all data records; never control records.
func (lg *Log) VisibleTo(rc bool, start int64) []Msg {
	var want []Msg
	for _, u := range lg.Units {
		if !Visible(u, rc) || (rc && u.Hi() >= lg.LSO) {
			continue
		}
		for _, m := range UnitMsgs(u) {
			if m.Off >= start {
				want = append(want, m)
			}
		}
	}
	return want
}
