package cpgen

import (
	"fmt"
	"strings"
	"sync"
	"time"

	"github.com/Shopify/sarama"
	"verif/harness/hlib"
)

// E2EOpts: one end-to-end scenario: a real Consumer / PartitionConsumer (all goroutines: dispatcher, feeder,
// broker worker) against sarama's in-package MockBroker which serves the generated log in several fetches.
type E2EOpts struct {
	Rc       bool
	Kv       sarama.KafkaVersion
	Start    int64 // literal offset, or sarama.OffsetOldest / OffsetNewest
	FetchDef int32
	Faults   bool
	Slow     bool // reader slower than MaxProcessingTime now and then (slow-reader path)
	ChanBuf  int
	MaxUnits int
	Loose    bool
}

func mix(a, b, c uint64) uint64 {
	r := hlib.NewRand(a*0x9E3779B97F4A7C15 ^ b*0xBF58476D1CE4E5B9 ^ c*0x94D049BB133111EB)
	return r.U64()
}

// RunE2E runs one scenario; id is the replayable name of the case ("e2e <seed> <index>").
// E2EFailures counts failed scenarios of this process (the callers stop running scenarios after a few: a broken
// consumer makes every scenario wait for its timeout).
var E2EFailures int

func RunE2E(run *hlib.Run, id string, seed uint64, lg *Log, o E2EOpts) {
	var mu sync.Mutex
	attempts := map[int64]int{}
	var asked []int64
	isoSeen := map[int8]int{}
	fetch := func(ver int16, off int64, maxBytes int32, iso int8) []byte {
		// the broker is faithful to the REQUEST: what it returns depends on the isolation level the request
		// carries, not on what the client was configured with
		reqRC := iso == 1
		limit := lg.End
		if reqRC {
			limit = lg.LSO
		}
		mu.Lock()
		isoSeen[iso]++
		k := attempts[off]
		attempts[off]++
		if len(asked) < 4096 {
			asked = append(asked, off)
		}
		mu.Unlock()
		h := mix(seed, uint64(off), uint64(k))
		rr := hlib.NewRand(h)
		var resp *Resp
		switch {
		case o.Faults && k < 3 && h%4 == 0:
			switch rr.Intn(5) {
			case 0:
				resp = &Resp{Kind: 'E', Code: 6} // not leader: redispatch
			case 1:
				resp = &Resp{Kind: 'E', Code: 3} // unknown topic or partition: redispatch
			case 2:
				resp = &Resp{Kind: 'E', Code: -1} // unknown: report and redispatch
			case 3:
				resp = &Resp{Kind: 'M'} // incomplete response: report and redispatch
			default:
				if ver >= 1 {
					resp = &Resp{Kind: 'T', Throttle: 3}
				} else {
					resp = &Resp{Kind: 'E', Code: 5}
				}
			}
		case off >= limit || off < lg.Base:
			time.Sleep(time.Millisecond)
			resp = &Resp{Kind: 'D'}
		default:
			mu := o.MaxUnits
			if rr.Chance(1, 3) {
				mu = rr.Range(1, 3)
			}
			resp = lg.FetchIso(rr, ver, off, int(maxBytes), mu, true, o.Loose, reqRC)
			if resp.Victim != nil && len(resp.Entries) > 0 && rr.Bool() {
				resp.Victim, resp.Cut = nil, 0
			}
		}
		raw, err := resp.Encode(ver)
		if err != nil {
			raw, _ = (&Resp{Kind: 'D'}).Encode(ver)
		}
		return raw
	}
	broker, rep := sarama.VerifStartBroker(fetch, lg.Base, lg.End, o.Kv)
	defer broker.Close()
	conf := sarama.NewConfig()
	conf.Version = o.Kv
	conf.Consumer.Return.Errors = true
	conf.Consumer.Retry.Backoff = time.Millisecond
	conf.Consumer.MaxWaitTime = 5 * time.Millisecond
	conf.Consumer.MaxProcessingTime = 3 * time.Millisecond
	conf.Consumer.Fetch.Default = o.FetchDef
	conf.ChannelBufferSize = o.ChanBuf
	conf.Metadata.Retry.Backoff = time.Millisecond
	if sarama.VerifFetchVersion(o.Kv) < 4 {
		o.Rc = false
	}
	if o.Rc {
		conf.Consumer.IsolationLevel = sarama.ReadCommitted
	}
	fail := func(sig, detail string) { E2EFailures++; run.IOFail(sig, id, detail) }
	cons, err := sarama.NewConsumer([]string{broker.Addr()}, conf)
	if err != nil {
		fail("e2e-setup", err.Error())
		return
	}
	defer cons.Close()
	pc, err := cons.ConsumePartition("t", 0, o.Start)
	if err != nil {
		fail("e2e-consume-partition", err.Error())
		return
	}
	start := o.Start
	if start == sarama.OffsetOldest {
		start = lg.Base
	} else if start == sarama.OffsetNewest {
		start = lg.End
	}
	want := lg.VisibleTo(o.Rc, start)
	var errs []string
	var emu sync.Mutex
	go func() {
		for e := range pc.Errors() {
			emu.Lock()
			errs = append(errs, e.Err.Error())
			emu.Unlock()
		}
	}()
	var got []sarama.VerifMsg
	deadline := time.After(8 * time.Second)
	rr := hlib.NewRand(seed ^ 0xabcdef)
	timedOut := false
loop:
	for len(got) < len(want) {
		select {
		case m, ok := <-pc.Messages():
			if !ok {
				break loop
			}
			vm := sarama.VerifMsg{Offset: m.Offset, Key: m.Key, Value: m.Value, TsMilli: -1}
			if !m.Timestamp.IsZero() {
				vm.TsMilli = m.Timestamp.UnixNano() / int64(time.Millisecond)
			}
			for _, h := range m.Headers {
				vm.Headers = append(vm.Headers, [2][]byte{h.Key, h.Value})
			}
			got = append(got, vm)
			if o.Slow && rr.Chance(1, 6) {
				time.Sleep(8 * time.Millisecond) // longer than 2 x MaxProcessingTime: the feeder gives the subscription up
			}
		case <-deadline:
			timedOut = true
			break loop
		}
	}
	// anything beyond the expected stream (duplicates, records that are not visible)?
	extra := time.After(30 * time.Millisecond)
extraLoop:
	for !timedOut {
		select {
		case m, ok := <-pc.Messages():
			if !ok {
				break extraLoop
			}
			got = append(got, sarama.VerifMsg{Offset: m.Offset, Key: m.Key, Value: m.Value})
		case <-extra:
			break extraLoop
		}
	}
	pc.AsyncClose()
	drained := make(chan struct{})
	go func() {
		for range pc.Messages() {
		}
		close(drained)
	}()
	select {
	case <-drained:
	case <-time.After(10 * time.Second):
		fail("e2e-close-hangs", "Messages() not closed 10 s after AsyncClose")
	}
	mu.Lock()
	nAsked := len(asked)
	mu.Unlock()
	desc := func() string {
		var offs []string
		for i, g := range got {
			if i > 40 {
				break
			}
			offs = append(offs, fmt.Sprint(g.Offset))
		}
		emu.Lock()
		defer emu.Unlock()
		mu.Lock()
		seen := fmt.Sprint(isoSeen)
		mu.Unlock()
		return fmt.Sprintf("config %s readCommitted=%v, start %d, want %d messages, got %d [%s], %d fetches (isolation levels in the requests: %s), errors %v, broker %v",
			o.Kv, o.Rc, start, len(want), len(got), strings.Join(offs, " "), nAsked, seen, errs, rep.Messages())
	}
	if timedOut {
		fail("e2e-stream-incomplete", "timeout: "+desc())
		return
	}
	for i := 1; i < len(got); i++ {
		if got[i].Offset <= got[i-1].Offset {
			fail("e2e-stream-offsets-not-increasing", desc())
			return
		}
	}
	wantOff := map[int64]bool{}
	for _, w := range want {
		wantOff[w.Off] = true
	}
	for _, g := range got {
		if wantOff[g.Offset] {
			continue
		}
		for _, u := range lg.Units {
			for _, m := range UnitMsgs(u) {
				if m.Off != g.Offset || u.Bat == nil {
					continue
				}
				switch {
				case u.Bat.Control:
					fail("e2e-control-record-delivered", fmt.Sprintf("offset %d; %s", g.Offset, desc()))
					return
				case o.Rc && u.Aborted:
					fail("e2e-aborted-record-delivered", fmt.Sprintf("offset %d; %s", g.Offset, desc()))
					return
				case o.Rc && u.Hi() >= lg.LSO:
					fail("e2e-open-transaction-record-delivered", fmt.Sprintf("offset %d, last stable offset %d; %s", g.Offset, lg.LSO, desc()))
					return
				}
			}
		}
	}
	if len(got) != len(want) {
		fail("e2e-stream-differs-from-visible-log", desc())
		return
	}
	for i := range want {
		if !sameMsg(got[i], want[i]) {
			if got[i].Offset == want[i].Off && sameBytes(got[i].Key, want[i].Key) && sameBytes(got[i].Value, want[i].Value) &&
				got[i].TsMilli != want[i].Ts {
				fail("e2e-legacy-v1-wrapper-logappend-timestamp-ignored", fmt.Sprintf("offset %d: timestamp %d, log has %d", got[i].Offset, got[i].TsMilli, want[i].Ts))
			} else {
				fail("e2e-stream-differs-from-visible-log", fmt.Sprintf("position %d: got offset %d, log has %s; %s", i, got[i].Offset, want[i].Text(), desc()))
			}
			return
		}
	}
	if len(got) > 0 {
		run.Nontrivial(id)
	}
}
