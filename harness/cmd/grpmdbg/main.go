package main

import (
	"fmt"
	"os"
	"strconv"

	"verif/harness/grp"
)

func main() {
	s, _ := strconv.ParseUint(os.Args[1], 10, 64)
	n := 1
	if len(os.Args) > 2 {
		n, _ = strconv.Atoi(os.Args[2])
	}
	for i := 0; i < n; i++ {
		sc := grp.GenMulti(s + uint64(i))
		res := grp.RunMulti(sc)
		fails := grp.CheckMulti(res)
		if n == 1 || len(fails) > 0 {
			fmt.Println(sc.String())
			fmt.Println("newerr", res.NewErr, "hang", res.Hang, "panic", res.Panic)
		}
		if n == 1 {
			for _, l := range grp.TraceLinesMulti(res) {
				fmt.Println("  ", l)
			}
			for _, r := range res.Reqs {
				fmt.Printf("   req %d %s client=%s member=%q gen=%d verdict=%d issued=%q/%d assigned=%v answered=%d\n", r.Seq, r.Kind, r.ClientID, r.MemberID, r.Generation, int(r.Verdict), r.IssuedMember, r.IssuedGen, r.Assigned, r.AnsweredSeq)
			}
			for _, e := range res.Events {
				fmt.Printf("   ev %d s%d %s p=%d off=%d %s/%d %s\n", e.Seq, e.Session, e.Kind, e.P, e.Off, e.Member, e.Gen, e.Err)
			}
		}
		for _, f := range fails {
			fmt.Println("FAIL", s+uint64(i), f.Sig, f.Detail)
		}
	}
}
