// Harness for C04 (produce-set / request-building / offset-arithmetic core): what the REAL produceSet puts on the
// wire decodes (with the real decoder) to exactly the submitted messages in order, for every version generation x
// codec x batching outcome; a simulated partition log appends the decoded records at a base offset; the REAL
// brokerProducer.handleSuccess then has to report, for every message, the log position that holds its content.
//
// Op-line syntax: lean/SaramaVerif/Driver/C04.lean.  One interpreter executes generated and replayed lines.
package main

import (
	"verif/harness/pipe"
	"fmt"
	"sort"
	"strconv"
	"strings"
	"time"

	"github.com/Shopify/sarama"
	"verif/harness/cmd/c16/psh"
	"verif/harness/hlib"
)

var run *hlib.Run

type tpKey struct {
	t int
	p int32
}

type logEntry struct {
	key, val []byte
	hdrs     [][2][]byte
	tsMs     int64 // -1: format has no timestamp
}

type interp struct {
	conf      psh.Conf
	cfg       *sarama.Config
	level     int
	stub      *sarama.VerifStub
	set       *sarama.VerifSet
	topicLens []int
	lines     []string
	sub       map[tpKey][]psh.Msg                 // submitted to the current set, per partition, in order
	pms       map[tpKey][]*sarama.ProducerMessage // the corresponding message objects
	decoded   *sarama.ProduceRequest              // decode(encode(buildRequest(set))) of the current set
	logs      map[tpKey]map[int64]logEntry        // simulated partition logs
	handled   map[tpKey]string                    // verdict per partition of the last handleSuccess
	hsKey     string
	dup       bool // variant of the duplicate branch observed on this tree (true: offsets assigned)
	mute      bool // probe whose outcome is only observed (the same input is reported through the op stream afterwards)
	quiet     bool // execute without emitting correspondence lines (probes outside the model's domain)
}

func (it *interp) input() string { return strings.Join(it.lines, "\n") }
func (it *interp) fail(sig, detail string) {
	if !it.mute {
		run.IOFail(sig, it.input(), detail)
	}
}

func (it *interp) tlen(t int) int {
	if t < len(it.topicLens) {
		return it.topicLens[t]
	}
	return 1
}
func (it *interp) tname(t int) string { return psh.TopicName(t, it.tlen(t)) }

func (it *interp) newSet() {
	it.set = it.stub.NewSet()
	it.sub = map[tpKey][]psh.Msg{}
	it.pms = map[tpKey][]*sarama.ProducerMessage{}
	it.decoded = nil
	it.handled = nil
}

func (it *interp) reset(c psh.Conf) {
	it.conf = c
	it.cfg = c.Config()
	it.level = sarama.CompressionLevelDefault
	pid := int64(-1)
	if c.Idem {
		pid = 4711
	}
	it.stub = sarama.VerifNewStub(it.cfg, pid, 0, 1<<16)
	it.logs = map[tpKey]map[int64]logEntry{}
	it.newSet()
}

func b2s(b bool) string {
	if b {
		return "1"
	}
	return "0"
}

func (it *interp) exec(line string) {
	t := strings.Fields(line)
	if len(t) == 0 {
		return
	}
	if t[0] == "conf" {
		it.lines = nil
	}
	it.lines = append(it.lines, line)
	out := run.Safe(it.input(), func() string { return it.do(t) })
	if !it.quiet {
		run.Emit(line, out)
	}
}

func (it *interp) do(t []string) string {
	switch t[0] {
	case "conf":
		it.reset(psh.ParseConf(t))
		return "ok"
	case "topics":
		it.topicLens = psh.ParseHdrs(t[1])
		return "ok"
	case "level":
		it.level = hlib.Atoi(t[1])
		it.cfg.Producer.CompressionLevel = it.level
		return "ok"
	case "newset":
		it.newSet()
		return "ok"
	case "add":
		m := psh.ParseMsg(t[2:])
		pm := m.Build(it.topicLens)
		err := it.set.Add(pm)
		k := tpKey{m.Topic, m.Part}
		if err == nil {
			it.sub[k] = append(it.sub[k], m)
			it.pms[k] = append(it.pms[k], pm)
		}
		it.decoded = nil
		return fmt.Sprintf("ok=%s bc=%d", b2s(err == nil), it.set.BufferCount())
	case "batch":
		return it.doBatch(t)
	case "succ":
		return it.doSucc(t)
	}
	return "bad-op"
}

// wire: real buildRequest -> real framed encode -> real decodeRequest, once per set.
func (it *interp) wire() bool {
	if it.decoded != nil {
		return true
	}
	// msgs / records alignment on the real set, before anything is built
	for k, ms := range it.sub {
		_, real, ok := it.set.Part(it.tname(k.t), k.p)
		if !ok || len(real) != len(ms) {
			it.fail("set-msgs-differ-from-submitted", fmt.Sprintf("%v: %d in set, %d submitted", k, len(real), len(ms)))
			continue
		}
		for i := range real {
			if real[i] != it.pms[k][i] {
				it.fail("set-msgs-differ-from-submitted", fmt.Sprintf("%v: message %d is another object", k, i))
			}
		}
	}
	req := it.set.BuildRequest()
	b, err := sarama.VerifEncodeRequest(req, "verif-c04", 11)
	if err != nil {
		it.fail("encode-failed", err.Error())
		return false
	}
	if len(b) > int(sarama.MaxRequestSize) {
		it.fail("request-exceeds-MaxRequestSize", fmt.Sprintf("%d bytes", len(b)))
	}
	dec, cid, err := sarama.VerifDecodeRequest(b)
	if err != nil {
		it.fail("broker-cannot-decode-request", err.Error())
		return false
	}
	if cid != "verif-c04" || dec.RequiredAcks != it.cfg.Producer.RequiredAcks {
		it.fail("request-header-differs", fmt.Sprintf("client id %q acks %d", cid, dec.RequiredAcks))
	}
	// nothing on the wire that was not submitted: the partitions of the request are the submitted ones
	var want []string
	for k := range it.sub {
		want = append(want, fmt.Sprintf("%s/%d", it.tname(k.t), k.p))
	}
	sort.Strings(want)
	var got []string
	for _, tp := range sarama.VerifRequestParts(dec) {
		got = append(got, fmt.Sprintf("%s/%d", tp.Topic, tp.Partition))
	}
	sort.Strings(got)
	if strings.Join(want, ",") != strings.Join(got, ",") {
		it.fail("request-partitions-differ-from-submitted", fmt.Sprintf("request has %v, submitted %v", got, want))
	}
	it.decoded = dec
	run.Count(fmt.Sprintf("wire rv=%d codec=%d", dec.Version, it.conf.Codec))
	return true
}

type decRec struct {
	off   int64
	entry logEntry
}

func msOf(t time.Time) int64 {
	if t.IsZero() {
		return -1
	}
	return t.UnixNano() / int64(time.Millisecond)
}

// doBatch: canonical description of what the broker decodes for one partition, and the append to the simulated log.
func (it *interp) doBatch(t []string) string {
	k := tpKey{hlib.Atoi(t[1]), int32(hlib.Atoi(t[2]))}
	base, _ := strconv.ParseInt(t[3], 10, 64)
	ms, ok := it.sub[k]
	if !ok {
		return "no-such-partition"
	}
	if !it.wire() {
		return "no-wire"
	}
	recs, ok := sarama.VerifRecords(it.decoded, it.tname(k.t), k.p)
	if !ok {
		it.fail("partition-missing-in-request", fmt.Sprint(k))
		return "missing"
	}
	var kind, wts string
	magic, codec, lod := "-", 0, "-"
	var items []decRec
	relative := false // positions come from the offsets the producer wrote
	wts = "-"
	switch {
	case recs.RecordBatch != nil:
		rb := recs.RecordBatch
		kind, magic, codec, lod = "rb", strconv.Itoa(int(rb.Version)), int(rb.Codec), strconv.Itoa(int(rb.LastOffsetDelta))
		relative = true
		if rb.Records == nil || rb.PartialTrailingRecord {
			it.fail("record-batch-not-decodable", fmt.Sprint(k))
		}
		if int(rb.LastOffsetDelta) != len(rb.Records)-1 {
			// a broker rejects such a batch (offset range does not match the record count)
			it.fail("last-offset-delta-differs-from-count", fmt.Sprintf("%v: LastOffsetDelta %d, %d records", k, rb.LastOffsetDelta, len(rb.Records)))
		}
		for _, r := range rb.Records {
			e := logEntry{key: r.Key, val: r.Value, tsMs: msOf(rb.FirstTimestamp.Add(r.TimestampDelta))}
			for _, h := range r.Headers {
				e.hdrs = append(e.hdrs, [2][]byte{h.Key, h.Value})
			}
			items = append(items, decRec{r.OffsetDelta, e})
		}
	case recs.MsgSet != nil:
		set := recs.MsgSet
		blocks := set.Messages
		if len(blocks) == 1 && blocks[0].Msg.Codec != sarama.CompressionNone && blocks[0].Msg.Set != nil {
			w := blocks[0].Msg
			kind, magic, codec = "wrap", strconv.Itoa(int(w.Version)), int(w.Codec)
			relative = w.Version >= 1
			if w.Key != nil {
				it.fail("wrapper-has-key", fmt.Sprint(k))
			}
			if w.Version >= 1 {
				wts = strconv.FormatInt(msOf(w.Timestamp), 10)
				if len(ms) > 0 && ms[0].TS < 0 {
					wts = "*"
				}
			}
			blocks = w.Set.Messages
		} else {
			kind = "set"
			if len(blocks) > 0 {
				magic = strconv.Itoa(int(blocks[0].Msg.Version))
			} else {
				magic = "?"
			}
		}
		for _, b := range blocks {
			e := logEntry{key: b.Msg.Key, val: b.Msg.Value, tsMs: -1}
			if b.Msg.Version >= 1 {
				e.tsMs = msOf(b.Msg.Timestamp)
			}
			if kind == "set" && (b.Msg.Codec != sarama.CompressionNone || strconv.Itoa(int(b.Msg.Version)) != magic) {
				it.fail("message-set-not-uniform", fmt.Sprint(k))
			}
			items = append(items, decRec{b.Offset, e})
		}
	default:
		it.fail("partition-without-records", fmt.Sprint(k))
		return "empty"
	}
	// content oracle: decoded record i is exactly submitted message i
	if len(items) != len(ms) {
		it.fail("decoded-record-count-differs", fmt.Sprintf("%v: %d decoded, %d submitted", k, len(items), len(ms)))
	}
	_, v2, _ := it.conf.Gates()
	v1, _, _ := it.conf.Gates()
	var recItems, logItems []string
	log := it.logs[k]
	if log == nil {
		log = map[int64]logEntry{}
		it.logs[k] = log
	}
	for i, d := range items {
		id := "X"
		tsTok := "-"
		if d.entry.tsMs >= 0 {
			tsTok = "*"
		}
		if i < len(ms) {
			m := ms[i]
			wk, wv := m.KV()
			same := psh.SameBytes(d.entry.key, wk) && psh.SameBytes(d.entry.val, wv)
			if !same {
				it.fail("decoded-payload-differs", fmt.Sprintf("%v record %d (message id %d): key %d/%d bytes nil=%v/%v, value %d/%d bytes nil=%v/%v", k, i, m.ID,
					len(d.entry.key), len(wk), d.entry.key == nil, wk == nil, len(d.entry.val), len(wv), d.entry.val == nil, wv == nil))
			}
			if v2 {
				nh := len(m.Hdrs) / 2
				if len(d.entry.hdrs) != nh {
					same = false
					it.fail("decoded-headers-differ", fmt.Sprintf("%v record %d: %d headers, submitted %d", k, i, len(d.entry.hdrs), nh))
				} else {
					for j := 0; j < nh; j++ {
						hk, hv := m.Header(j)
						if !psh.SameBytes(d.entry.hdrs[j][0], hk) || !psh.SameBytes(d.entry.hdrs[j][1], hv) {
							same = false
							it.fail("decoded-headers-differ", fmt.Sprintf("%v record %d header %d", k, i, j))
						}
					}
				}
			} else if len(d.entry.hdrs) != 0 {
				it.fail("decoded-headers-differ", fmt.Sprintf("%v record %d: headers in a legacy message", k, i))
			}
			if same {
				id = strconv.Itoa(m.ID)
			}
			if m.TS >= 0 && (v1 || v2) {
				tsTok = strconv.FormatInt(d.entry.tsMs, 10)
				if d.entry.tsMs != m.TS {
					sig := "decoded-timestamp-differs"
					if m.TS > maxNanoMs {
						sig = "timestamp-after-year-2262-corrupted"
					}
					it.fail(sig, fmt.Sprintf("%v record %d: %d, supplied %d", k, i, d.entry.tsMs, m.TS))
				}
			}
		}
		recItems = append(recItems, fmt.Sprintf("%d:%s:%s", d.off, id, tsTok))
		pos := base + int64(i)
		if relative {
			pos = base + d.off
		}
		if _, clash := log[pos]; clash {
			it.fail("log-position-written-twice", fmt.Sprintf("%v position %d", k, pos))
		}
		log[pos] = d.entry
		logItems = append(logItems, fmt.Sprintf("%d:%s", pos, id))
	}
	join := func(xs []string, sep string) string {
		if len(xs) == 0 {
			return "-"
		}
		return strings.Join(xs, sep)
	}
	run.Count("batch-" + kind)
	return fmt.Sprintf("kind=%s rv=%d magic=%s codec=%d lod=%s wts=%s recs=%s log=%s", kind, it.decoded.Version, magic, codec, lod, wts,
		join(recItems, ";"), join(logItems, ","))
}

// doSucc: the verdict of the real handleSuccess for one partition. The real call handles the whole set at once:
// it is made when the first `succ` line after a set arrives; its block parameters for the other partitions are
// taken from the following `succ` lines (a run of consecutive succ lines = one response).
func (it *interp) doSucc(t []string) string {
	return it.handledVerdict(t)
}

type succSpec struct {
	dup      bool
	retryMax int
	hasResp  bool
	hasBlock bool
	err      int
	base     int64
	lat      int64
	k        tpKey
}

func parseSucc(t []string) succSpec {
	s := succSpec{dup: t[1] == "1", retryMax: hlib.Atoi(t[2]), hasResp: t[3] == "1", hasBlock: t[4] == "1", err: hlib.Atoi(t[5]), lat: -1}
	s.base, _ = strconv.ParseInt(t[6], 10, 64)
	if t[7] != "-" {
		s.lat, _ = strconv.ParseInt(t[7], 10, 64)
	}
	s.k = tpKey{hlib.Atoi(t[8]), int32(hlib.Atoi(t[9]))}
	return s
}

var pending []succSpec // the succ lines of the response being assembled (generator / replay look-ahead)

func (it *interp) handledVerdict(t []string) string {
	s := parseSucc(t)
	if it.handled == nil {
		it.runHandleSuccess()
	}
	v, ok := it.handled[s.k]
	if !ok {
		return "no-such-partition"
	}
	return v
}

// runHandleSuccess: one real handleSuccess call for the current set with the blocks in `pending`.
func (it *interp) runHandleSuccess() {
	it.handled = map[tpKey]string{}
	if len(pending) == 0 {
		return
	}
	first := pending[0]
	it.cfg.Producer.Retry.Max = first.retryMax
	var res *sarama.ProduceResponse
	if first.hasResp {
		res = &sarama.ProduceResponse{Version: it.decodedVersionForResponse()}
		for _, s := range pending {
			if !s.hasBlock {
				continue
			}
			res.AddTopicPartition(it.tname(s.k.t), s.k.p, sarama.KError(s.err))
			b := res.GetBlock(it.tname(s.k.t), s.k.p)
			b.Offset = s.base
			b.Timestamp = time.Time{}
			if s.lat >= 0 {
				b.Timestamp = psh.TimeOf(s.lat)
			}
		}
	}
	const sentinel = int64(-7777)
	before := map[*sarama.ProducerMessage]time.Time{}
	for _, pms := range it.pms {
		for _, pm := range pms {
			pm.Offset = sentinel
			before[pm] = pm.Timestamp
		}
	}
	out := it.stub.HandleSuccess(it.set, res)
	where := map[*sarama.ProducerMessage]string{}
	errOf := map[*sarama.ProducerMessage]error{}
	for _, m := range out.Successes {
		where[m] += "S"
	}
	for _, e := range out.Errors {
		where[e.Msg] += "E"
		errOf[e.Msg] = e.Err
	}
	for _, m := range out.Retried {
		where[m] += "R"
	}
	v1, _, _ := it.conf.Gates()
	for _, s := range pending {
		ms, pms := it.sub[s.k], it.pms[s.k]
		if len(pms) == 0 {
			continue
		}
		kind := where[pms[0]]
		for _, pm := range pms {
			if where[pm] != kind || len(where[pm]) != 1 {
				kind = "mixed"
				it.fail("partition-messages-treated-differently", fmt.Sprintf("%v: %q vs %q", s.k, where[pm], kind))
				break
			}
		}
		ids := make([]string, len(ms))
		for i, m := range ms {
			ids[i] = strconv.Itoa(m.ID)
		}
		idl := strings.Join(ids, ",")
		switch kind {
		case "S":
			assigned := 0
			for _, pm := range pms {
				if pm.Offset != sentinel {
					assigned++
				}
			}
			log := it.logs[s.k]
			// property oracle: a reported success identifies where and what was written
			for i, pm := range pms {
				if pm.Partition != s.k.p || pm.Topic != it.tname(s.k.t) {
					it.fail("success-reports-other-partition", fmt.Sprintf("%v: %s/%d", s.k, pm.Topic, pm.Partition))
				}
				if !s.hasResp {
					continue // RequiredAcks NoResponse: no offset is promised
				}
				e, ok := log[pm.Offset]
				wk, wv := ms[i].KV()
				if !ok || !psh.SameBytes(e.key, wk) || !psh.SameBytes(e.val, wv) {
					sig := "success-offset-is-not-the-log-position"
					if s.err == 46 {
						sig = "dup-success-without-offset"
					}
					it.fail(sig, fmt.Sprintf("%v message %d (id %d): reported Offset %d; block error %d base %d; log has it at base+%d", s.k, i, ms[i].ID, pm.Offset, s.err, s.base, i))
				} else if ms[i].TS >= 0 && ms[i].TS <= maxNanoMs && e.tsMs >= 0 && e.tsMs != ms[i].TS {
					it.fail("log-timestamp-differs", fmt.Sprintf("%v message %d", s.k, i))
				}
			}
			if assigned == 0 {
				it.handled[s.k] = "succ-unassigned " + idl
				break
			}
			offs := make([]string, len(pms))
			for i, pm := range pms {
				offs[i] = fmt.Sprintf("%d:%d", ms[i].ID, pm.Offset)
			}
			ts := "-"
			if s.lat >= 0 {
				all := true
				for _, pm := range pms {
					if msOf(pm.Timestamp) != s.lat {
						all = false
					}
				}
				if all {
					ts = strconv.FormatInt(s.lat, 10)
				}
				if all != v1 {
					it.fail("log-append-time-handling", fmt.Sprintf("%v: version gate %v, timestamps replaced %v", s.k, v1, all))
				}
			}
			it.handled[s.k] = "succ " + strings.Join(offs, ",") + " ts=" + ts
		case "E":
			code := -1001
			if ke, ok := errOf[pms[0]].(sarama.KError); ok {
				code = int(ke)
			} else if errOf[pms[0]] != sarama.ErrIncompleteResponse {
				code = -9999
			}
			it.handled[s.k] = fmt.Sprintf("err %d %s", code, idl)
		case "R":
			it.handled[s.k] = fmt.Sprintf("retry %d %s", s.err, idl)
		default:
			it.handled[s.k] = "lost " + idl
			it.fail("messages-neither-succeeded-nor-failed", fmt.Sprintf("%v: %q", s.k, kind))
		}
	}
	for _, pms := range it.pms {
		for _, pm := range pms {
			pm.Timestamp = before[pm]
		}
	}
}

func (it *interp) decodedVersionForResponse() int16 {
	if it.decoded != nil {
		return it.decoded.Version
	}
	return 0
}

// execSuccRun executes a run of consecutive succ lines as one response.
func (it *interp) execSuccRun(lines []string) {
	pending = nil
	for _, l := range lines {
		pending = append(pending, parseSucc(strings.Fields(l)))
	}
	it.handled = nil
	for _, l := range lines {
		it.exec(l)
	}
	pending = nil
}

// replay groups consecutive succ lines.
func (it *interp) replay(lines []string) {
	for i := 0; i < len(lines); {
		if strings.HasPrefix(lines[i], "succ ") {
			j := i
			for j < len(lines) && strings.HasPrefix(lines[j], "succ ") {
				j++
			}
			it.execSuccRun(lines[i:j])
			i = j
			continue
		}
		it.exec(lines[i])
		i++
	}
}

// ---- generators ---------------------------------------------------------------------------------------

type gen struct {
	r  *hlib.Rand
	it *interp
	id int
}

func (g *gen) payloadLen() int {
	switch g.r.Intn(12) {
	case 0:
		return -1
	case 1, 2:
		return 0
	case 3, 4, 5:
		return g.r.Range(1, 16)
	case 6, 7, 8:
		return g.r.Range(17, 300)
	case 9, 10:
		return g.r.Range(300, 5000)
	default:
		return g.r.Range(5000, 300000)
	}
}

func (g *gen) msg(ntopics int, v2 bool, tsMode int) psh.Msg {
	g.id++
	m := psh.Msg{ID: g.id, Topic: g.r.Intn(ntopics), Part: int32(g.r.Intn(3)), KLen: g.payloadLen(), VLen: g.payloadLen(), TS: -1}
	if m.KLen > 2000 {
		m.KLen = g.r.Range(0, 2000)
	}
	if v2 && g.r.Chance(1, 3) {
		n := g.r.Range(1, 4)
		for i := 0; i < n; i++ {
			m.Hdrs = append(m.Hdrs, g.r.Pick(0, 1, 7, 200), g.r.Pick(0, 1, 9, 3000))
		}
	}
	switch tsMode {
	case 0: // none supplied
	case 1: // all supplied
		m.TS = 1600000000000 + int64(g.r.Intn(100000))
	default:
		if g.r.Bool() {
			m.TS = pick64(g.r, 0, 1, 999, 1600000000000, 1600000000000+int64(g.r.Intn(100000)), 9223372036854)
		}
	}
	return m
}

// maxNanoMs: the largest millisecond timestamp whose nanosecond count fits an int64 (Time.UnixNano's domain)
const maxNanoMs = int64(9223372036854)

// farFuture: a timestamp beyond 2262 (e.g. the common "9999-12-31" sentinel) - outside the model's domain, so the
// lines are executed without correspondence; the content oracle still applies.
func (g *gen) farFuture() {
	it := g.it
	it.quiet = true
	for _, ver := range []string{"0.10.2.1", "2.1.0"} {
		it.exec(psh.Conf{Ver: ver, MRS: int(sarama.MaxRequestSize), MMB: 1000000}.Line())
		it.exec("topics 3")
		g.id++
		it.exec("add 0 " + psh.Msg{ID: g.id, KLen: 1, VLen: 1, TS: 1600000000000}.Tokens())
		g.id++
		it.exec("add 0 " + psh.Msg{ID: g.id, KLen: 1, VLen: 1, TS: 253402300799999}.Tokens())
		it.exec("batch 0 0 0")
	}
	it.quiet = false
	run.Count("far-future-probe")
}

func pick64(r *hlib.Rand, xs ...int64) int64 { return xs[r.Intn(len(xs))] }

var levels = map[int][]int{1: {-1000, 1, 6, 9}, 2: {-1000}, 3: {-1000, 1, 9}, 4: {-1000, 1, 3, 10}}

func (g *gen) oneCase(ver string, codec int) {
	it, r := g.it, g.r
	c := psh.Conf{Ver: ver, Codec: codec, MRS: int(sarama.MaxRequestSize), MMB: 1000000}
	_, v2, _ := c.Gates()
	if v2 && r.Chance(1, 5) {
		c.Idem = true
	}
	it.exec(c.Line())
	nt := r.Range(1, 3)
	tl := make([]int, nt)
	for i := range tl {
		tl[i] = r.Pick(1, 5, 30, 249)
	}
	it.exec("topics " + psh.HdrTok(tl))
	if lv, ok := levels[codec]; ok {
		l := lv[r.Intn(len(lv))]
		if l != -1000 {
			it.exec(fmt.Sprintf("level %d", l))
		}
	}
	bases := map[tpKey]int64{}
	rounds := r.Range(1, 3)
	tsMode := r.Intn(3)
	for round := 0; round < rounds; round++ {
		if round > 0 {
			it.exec("newset")
		}
		n := r.Pick(1, 1, 2, 3, 5, 8, 20)
		if r.Chance(1, 40) {
			n = r.Range(100, 400)
		}
		seq := map[tpKey]int32{}
		for i := 0; i < n; i++ {
			m := g.msg(nt, v2, tsMode)
			if n > 50 { // keep big batches small in bytes
				m.KLen, m.VLen = r.Range(-1, 8), r.Range(-1, 20)
			}
			k := tpKey{m.Topic, m.Part}
			if c.Idem {
				m.Seq = seq[k]
				seq[k]++
			}
			it.exec("add 0 " + m.Tokens())
		}
		// the partitions of the set in canonical order
		var ks []tpKey
		for k := range it.sub {
			ks = append(ks, k)
		}
		sort.Slice(ks, func(i, j int) bool { return ks[i].t < ks[j].t || (ks[i].t == ks[j].t && ks[i].p < ks[j].p) })
		for _, k := range ks {
			if _, ok := bases[k]; !ok {
				bases[k] = pick64(r, 0, 1, 41, 2147483646, 4294967295, 1<<40, (1<<62)-5000)
			}
			it.exec(fmt.Sprintf("batch %d %d %d", k.t, k.p, bases[k]))
		}
		// the broker's answer
		retryMax := 3
		if r.Chance(1, 6) {
			retryMax = 0
		}
		hasResp := !r.Chance(1, 10)
		var lines []string
		for _, k := range ks {
			err := 0
			if !c.Idem {
				err = r.Pick(0, 0, 0, 0, 0, 0, 3, 6, 7, 10, 19, 87)
			} else if r.Chance(1, 8) {
				err = 10
			}
			hasBlock := !r.Chance(1, 12)
			lat := "-"
			if r.Chance(1, 4) {
				lat = strconv.FormatInt(1700000000000+int64(r.Intn(1000)), 10)
			}
			lines = append(lines, fmt.Sprintf("succ %s %d %s %s %d %d %s %d %d", b2s(it.dup), retryMax, b2s(hasResp), b2s(hasBlock), err, bases[k], lat, k.t, k.p))
			bases[k] += int64(len(it.sub[k]))
		}
		it.execSuccRun(lines)
		run.Nontrivial(fmt.Sprintf("%s|%d|%d|%d", ver, codec, n, len(ks)))
	}
	run.Count(fmt.Sprintf("case v=%s codec=%d", ver, codec))
}

// dupProbe: which variant of the ErrDuplicateSequenceNumber branch does this tree have?
func (g *gen) dupProbe() {
	it := g.it
	c := psh.Conf{Ver: "2.1.0", Idem: true, MRS: int(sarama.MaxRequestSize), MMB: 1000000}
	it.exec(c.Line())
	it.exec("topics 3")
	for i := 0; i < 2; i++ {
		g.id++
		it.exec("add 0 " + psh.Msg{ID: g.id, KLen: 3, VLen: 5, TS: 1600000000000, Seq: int32(i)}.Tokens())
	}
	it.exec("batch 0 0 500")
	// observe first (outside the op stream), then emit the line with the observed variant
	pending = []succSpec{{retryMax: 3, hasResp: true, hasBlock: true, err: 46, base: 500, lat: -1, k: tpKey{0, 0}}}
	saved := it.lines
	it.handled = nil
	it.mute = true
	it.runHandleSuccess()
	it.mute = false
	it.dup = strings.HasPrefix(it.handled[tpKey{0, 0}], "succ ") && !strings.HasPrefix(it.handled[tpKey{0, 0}], "succ-unassigned")
	run.Set("dup_branch_assigns_offsets", it.dup)
	it.lines = saved
	// second set, same content, through the op stream (this one reports the oracle failure with a replayable input)
	it.exec("newset")
	for i := 0; i < 2; i++ {
		g.id++
		it.exec("add 0 " + psh.Msg{ID: g.id, KLen: 3, VLen: 5, TS: 1600000000000, Seq: int32(i)}.Tokens())
	}
	it.exec("batch 0 0 600")
	it.execSuccRun([]string{fmt.Sprintf("succ %s 3 1 1 46 600 - 0 0", b2s(it.dup))})
}

func main() {
	run = hlib.Start("C04")
	it := &interp{}
	it.reset(psh.Conf{Ver: "1.0.0", MRS: int(sarama.MaxRequestSize), MMB: 1000000})
	if lines := run.ReplayLines(); lines != nil {
		var own []string
		for _, l := range lines {
			if !strings.HasPrefix(l, "sc ") { // "sc <seed>" = a pipeline scenario, replayed below
				own = append(own, l)
			}
		}
		it.replay(own)
		pipe.OracleOnly(run, "C04", []string{"C04:"}, 0)
		run.Finish("replay")
		return
	}
	g := &gen{r: hlib.NewRand(run.Seed), it: it}
	n := run.N
	if n == 0 {
		n = 40
		if run.Tier == "thorough" {
			n = 1500
		}
	}
	g.dupProbe()
	g.farFuture()
	// every version generation x every codec the version allows (+ a few combinations Validate would reject)
	for i := 0; i < n; i++ {
		for _, ver := range psh.Versions {
			for codec := 0; codec <= 4; codec++ {
				c := psh.Conf{Ver: ver, Codec: codec}
				if !c.CodecOK() && !g.r.Chance(1, 10) {
					continue
				}
				g.oneCase(ver, codec)
			}
		}
	}
	// end-to-end: the real pipeline against the simulated cluster (broker latency, tight limits, fault scripts);
	// the C04 oracles are evaluated on what the brokers received and on the success events
	pipe.OracleOnly(run, "C04", []string{"C04:"}, 160)
	run.Finish("cases: version (9 releases spanning message v0, v1, record batch v2, produce v7) x codec (none/gzip/snappy/lz4/zstd, levels) x 1..3 rounds of 1..400 messages " +
		"(nil/empty/small/large keys and values, header lists, timestamps none/all/mixed incl. 0 and year 9999) over 1..9 partitions, bases up to 2^62; " +
		"responses with success / retriable / fatal codes, missing blocks, NoResponse, log-append time. non-trivial = distinct (version, codec, message count, partition count)")
}
