// Harness for C07: consumer-group session scenarios against the simulated coordinator.
package main

import (
	"verif/harness/grp"
	"verif/harness/hlib"
)

func main() {
	run := hlib.StartParallel("C07", 14)
	grp.RunAll(run, "C07", []string{"C07:", "C12:group"}, 0)
	// several real members sharing the coordinator: a third as many scenarios (each runs for up to 0.8 s)
	nm := run.N / 3
	if run.N == 0 {
		nm = 70
	}
	grp.RunAllMulti(run, []string{"C07:", "C12:group"}, nm)
	// one member, two subscribed topics, handlers that linger after their claim's channel closed (oracles only)
	nx := run.N / 8
	if run.N == 0 {
		nx = 32
		if run.Tier == "thorough" {
			nx = 400
		}
	}
	grp.RunAllExtra(run, []string{"C07:", "C12:group"}, nx)
	run.Finish(grp.Rule + " || " + grp.RuleMulti)
}
