// Harness for C07: consumer-group session scenarios against the simulated coordinator.
package main

import (
	"verif/harness/grp"
	"verif/harness/hlib"
)

func main() {
	run := hlib.StartParallel("C07", 14)
	grp.RunAll(run, "C07", []string{"C07:", "C12:group"}, 0)
	run.Finish(grp.Rule)
}
