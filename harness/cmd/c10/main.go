// Harness for C10: malformed-input campaign against sarama's REAL decoders.
//
//   - primitive level (differential against the Lean model svdrv_c10): every getter of realDecoder on random and
//     structured buffers, push/pop of length and CRC fields, the response header, hash/crc32;
//   - entry-point level (property oracle): every response type x version, the response header, RecordBatch /
//     Records / Record / MessageSet / MessageBlock / Message, consumer group member metadata / assignment and
//     sticky assignor user data: valid encodings (built from sarama's own types and encoders) under truncation
//     at every position, every 4/2/1-byte field position set to -1, -2, 0, huge, remainder+1, oversized varints,
//     bit flips, plus purely random buffers.  Entry points that have a Lean format are differential too.
//
// All decoding happens in capped worker subprocesses (see worker.go / pool.go).  Outcome classes:
// ok / err / panic / oversize / hang / crash.  Oracle: never panic / oversize / hang / crash; a valid encoding
// followed by extra bytes is an error; a mutated batch or message set never decodes to records that are not a
// prefix of the original records.
package main

import (
	"encoding/binary"
	"fmt"
	"os"
	"sort"
	"strconv"
	"strings"
	"time"

	"github.com/Shopify/sarama"
	"verif/harness/hlib"
)

type entryInfo struct {
	Name     string
	MaxV     int16
	Records  bool   // wrong-records oracle applies
	Decomp   bool   // may reach decompress(): larger allocation allowance
	Loop     bool   // top level is a `for remaining() > 0` loop with partial-trailing semantics (no trailing-bytes oracle)
	Model    string // name of the Lean format ("" = none); only for version ModelV
	ModelV   int16
	Variant  string // which observed variant the format depends on
	ModelAll bool   // the format does not depend on the version (the version is a field inside the blob)
	Members  bool   // a response that carries group member blobs, decoded through its accessor methods
	Blob     bool   // a group member blob (metadata / assignment) written by another member
}

var entryByName = map[string]*entryInfo{}
var entryOrder []string

func initEntries() {
	for _, e := range sarama.VerifC10Entries() {
		ei := &entryInfo{Name: e.Name, MaxV: e.MaxV, Records: e.Records}
		switch e.Name {
		case "FetchResponse", "RecordBatch", "Records", "MessageSet", "MessageBlock", "Message":
			ei.Decomp = true
		}
		switch e.Name {
		case "MessageSet", "Records":
			ei.Loop = true
		}
		switch e.Name {
		case "Record":
			ei.Model, ei.Variant = "Record", "recordHeaderCount"
		case "ConsumerGroupMemberMetadata":
			ei.Model, ei.Variant, ei.ModelAll, ei.Blob = e.Name, "getStringArray", true, true
		case "ConsumerGroupMemberAssignment":
			ei.Model, ei.Variant, ei.ModelAll, ei.Blob = e.Name, "getArrayLength", true, true
		case "JoinGroupResponse.GetMembers", "DescribeGroupsResponse.members":
			ei.Members = true
		case "StickyAssignorUserDataV0", "StickyAssignorUserDataV1":
			ei.Model, ei.Variant = e.Name, "getArrayLength"
		case "MetadataResponse":
			ei.Model, ei.Variant, ei.ModelV = "MetadataResponseV0", "getArrayLength", 0
		}
		entryByName[e.Name] = ei
		entryOrder = append(entryOrder, e.Name)
	}
}

var run *hlib.Run
var rnd *hlib.Rand
var workers *pool

// ---------------------------------------------------------------------------------------------------------
// oracle bookkeeping: one IOFail per signature (the first witness in generation order)

var seenSig = map[string]int{}
var sigOrder []string

func fail(sig, input, detail string) {
	seenSig[sig]++
	if seenSig[sig] == 1 {
		sigOrder = append(sigOrder, sig)
		run.IOFail(sig, input, detail)
	}
}

// ---------------------------------------------------------------------------------------------------------
// variants of the primitives as observed on the tree under test

var variants = map[string]string{}

type probe struct {
	name    string
	op      string
	pinned  func(ans string, dead string) bool
	checked func(ans string, dead string) bool
}

func has(s, sub string) bool { return strings.HasPrefix(s, sub) }

func observeVariants() {
	probes := []probe{
		{"getArrayLength", "p pinned getArrayLength fffffffe 0",
			func(a, d string) bool { return has(a, "ok -2 4") }, func(a, d string) bool { return has(a, "err invalidArrayLength 4") }},
		{"getCompactArrayLength", "p pinned getCompactArrayLength ffffffff0f 0",
			func(a, d string) bool { return has(a, "ok 4294967294 5") }, func(a, d string) bool { return has(a, "err insufficient 5") }},
		{"getCompactString", "p pinned getCompactString 03 0",
			func(a, d string) bool { return has(a, "panic") }, func(a, d string) bool { return has(a, "err insufficient 1") }},
		{"getCompactNullableString", "p pinned getCompactNullableString 03 0",
			func(a, d string) bool { return has(a, "panic") }, func(a, d string) bool { return has(a, "err insufficient 1") }},
		{"getCompactInt32Array", "p pinned getCompactInt32Array 02 0",
			func(a, d string) bool { return has(a, "panic") }, func(a, d string) bool { return has(a, "err insufficient 1") }},
		{"getStringArray", "p pinned getStringArray 00100000 0",
			func(a, d string) bool { return has(a, "oversize") || d == "oversize" }, func(a, d string) bool { return has(a, "err insufficient 4") }},
		// Record with numHeaders = 2^40 (zig-zag varint 8080808080 8001 → 2^41 → 2^40): "0e" length 7? built below
		{"recordHeaderCount", "d Record 0 " + recordWithHeaderCount(),
			func(a, d string) bool { return has(a, "panic") || has(a, "oversize") || d != "" }, func(a, d string) bool { return has(a, "err\tinsufficient") }},
		// MetadataResponse loop heads: make([]T, -1) (pinned) or `if n < 0 { return errInvalidArrayLength }`
		{"metadataLoopHeads", "d MetadataResponse 0 ffffffff",
			func(a, d string) bool { return has(a, "panic") }, func(a, d string) bool { return has(a, "err\tinvalidArrayLength") }},
		// a length varint that is the non-canonical 2-byte encoding of (covered bytes + 1)
		{"varintLengthField", "p pinned varintLengthField 8600aabb 0 2",
			func(a, d string) bool { return has(a, "ok - 4") }, func(a, d string) bool { return has(a, "err lengthField 4") }},
	}
	var ops []string
	for _, p := range probes {
		ops = append(ops, p.op)
	}
	res := workers.exec(ops)
	for i, p := range probes {
		a, d := res[i].line, res[i].dead
		switch {
		case p.pinned(a, d):
			variants[p.name] = "pinned"
		case p.checked(a, d):
			variants[p.name] = "checked"
		default:
			variants[p.name] = "pinned"
			fail("variant-probe-unrecognised:"+p.name, p.op, "answer "+a+" dead="+d+": neither the pinned nor the checked behaviour of the model")
		}
		run.Count("variant:" + p.name + "=" + variants[p.name])
	}
}

func zigzag(x int64) uint64 { return uint64((x << 1) ^ (x >> 63)) }

func putUvarint(u uint64) []byte {
	var tmp [binary.MaxVarintLen64]byte
	return append([]byte{}, tmp[:binary.PutUvarint(tmp[:], u)]...)
}
func putVarint(x int64) []byte { return putUvarint(zigzag(x)) }

// a 15-byte Record: attributes, timestamp, offset, key -1, value -1, numHeaders = 2^40
func recordWithHeaderCount() string {
	body := []byte{0x00, 0x00, 0x00, 0x01, 0x01}
	body = append(body, putVarint(1<<40)...)
	rec := append(putVarint(int64(len(body))), body...)
	return hx(rec)
}

// ---------------------------------------------------------------------------------------------------------
// primitive-level stream

type primSpec struct {
	name  string
	kind  string // how structured buffers are built: "i32len" "i16len" "uvlen" "vlen" "fixed" "raw" "peek" "peek8" "field" "vfield"
	vkey  string // variant key ("" = the primitive has one behaviour)
	scale int    // bytes per counted element (for remainder-relative lengths)
}

var prims = []primSpec{
	{"getInt8", "fixed", "", 1}, {"getInt16", "fixed", "", 1}, {"getInt32", "fixed", "", 1}, {"getInt64", "fixed", "", 1},
	{"getVarint", "uvlen", "", 1}, {"getUVarint", "uvlen", "", 1},
	{"getArrayLength", "i32len", "getArrayLength", 1}, {"getCompactArrayLength", "uvlen", "getCompactArrayLength", 1},
	{"getBool", "fixed", "", 1}, {"getEmptyTaggedFieldArray", "uvlen", "", 1},
	{"getBytes", "i32len", "", 1}, {"getVarintBytes", "vlen", "", 1}, {"getCompactBytes", "uvlen", "", 1},
	{"getStringLength", "i16len", "", 1}, {"getString", "i16len", "", 1}, {"getNullableString", "i16len", "", 1},
	{"getCompactString", "uvlen", "getCompactString", 1}, {"getCompactNullableString", "uvlen", "getCompactNullableString", 1},
	{"getCompactInt32Array", "uvlen", "getCompactInt32Array", 4},
	{"getInt32Array", "i32len", "", 4}, {"getInt64Array", "i32len", "", 8}, {"getStringArray", "i32len", "getStringArray", 2},
	{"getRawBytes", "raw", "", 1}, {"getSubset", "raw", "", 1}, {"peek", "peek", "", 1}, {"peekInt8", "peek8", "", 1},
	{"lengthField", "field", "", 1}, {"varintLengthField", "vfield", "varintLengthField", 1},
	{"crcIEEE", "crc", "", 1}, {"crcCastagnoli", "crc", "", 1},
}

func randBytes(n int) []byte {
	b := make([]byte, n)
	for i := range b {
		switch rnd.Intn(6) {
		case 0:
			b[i] = 0
		case 1:
			b[i] = 0xff
		case 2:
			b[i] = byte(rnd.Intn(4))
		case 3:
			b[i] = 0x80 | byte(rnd.Intn(4))
		default:
			b[i] = byte(rnd.U64())
		}
	}
	return b
}

func be32(v uint32) []byte { return []byte{byte(v >> 24), byte(v >> 16), byte(v >> 8), byte(v)} }
func be16(v uint16) []byte { return []byte{byte(v >> 8), byte(v)} }

// interesting length values relative to `rem` = number of bytes that follow the length field
func lenValues(rem int, scale int) []int64 {
	q := int64(rem / scale)
	return []int64{-2, -1, 0, 1, 2, q - 1, q, q + 1, int64(rem), int64(rem) + 1, 127, 128, 300, 131070, 131071, 65536, 1 << 20, 1 << 26,
		0x7fffffff, 0x80000000, 0xffffffff, 1 << 40, 1 << 62, -(1 << 62),
		0x7fffffffffffffff, 0x7fffffffffffffff - int64(rem), 0x7ffffffffffffff0, -0x8000000000000000}
}

func pickLen(rem int, scale int) int64 {
	v := lenValues(rem, scale)
	return v[rnd.Intn(len(v))]
}

func genPrimOps(n int) []string {
	var ops []string
	for _, ps := range prims {
		v := "pinned"
		if ps.vkey != "" {
			v = variants[ps.vkey]
		}
		emit := func(buf []byte, off int, args ...int64) {
			s := fmt.Sprintf("p %s %s %s %d", v, ps.name, hx(buf), off)
			for _, a := range args {
				s += " " + strconv.FormatInt(a, 10)
			}
			ops = append(ops, s)
		}
		for k := 0; k < n; k++ {
			pre := randBytes(rnd.Intn(3))
			tailLen := rnd.Intn(14)
			tailB := randBytes(tailLen)
			structured := rnd.Intn(4) != 0
			switch ps.kind {
			case "fixed":
				b := randBytes(rnd.Intn(12))
				emit(b, rnd.Intn(len(b)+1))
			case "i32len", "i16len", "uvlen", "vlen":
				if !structured {
					b := randBytes(rnd.Intn(16))
					emit(b, rnd.Intn(len(b)+1))
					continue
				}
				vals := lenValues(tailLen, ps.scale)
				val := vals[rnd.Intn(len(vals))]
				var lf []byte
				switch ps.kind {
				case "i32len":
					lf = be32(uint32(val))
				case "i16len":
					lf = be16(uint16(val))
				case "uvlen":
					// compact encodings store length+1; also exercise overlong / overflowing varints
					switch rnd.Intn(8) {
					case 0:
						lf = []byte{0x80, 0x80, 0x80, 0x80, 0x80, 0x80, 0x80, 0x80, 0x80, 0x80, 0x01}
					case 1:
						lf = []byte{0xff, 0xff, 0xff, 0xff, 0xff, 0xff, 0xff, 0xff, 0xff, 0x7f}
					case 2:
						lf = append(putUvarint(uint64(val + 1))[:0:0], putUvarint(uint64(val+1))...)
						lf[len(lf)-1] |= 0x80
						lf = append(lf, 0x00) // non-canonical
					default:
						lf = putUvarint(uint64(val + 1))
					}
				case "vlen":
					lf = putVarint(val)
				}
				if rnd.Intn(6) == 0 && len(lf) > 1 {
					lf = lf[:rnd.Intn(len(lf))] // truncated length field
				}
				b := append(append(append([]byte{}, pre...), lf...), tailB...)
				emit(b, len(pre))
			case "raw":
				b := randBytes(rnd.Intn(16))
				off := rnd.Intn(len(b) + 1)
				vals := lenValues(len(b)-off, 1)
				emit(b, off, vals[rnd.Intn(len(vals))])
			case "peek":
				b := randBytes(rnd.Intn(24))
				off := rnd.Intn(len(b) + 1)
				// the source only calls peek / peekInt8 with non-negative constants
				emit(b, off, int64(rnd.Intn(20)), int64(rnd.Intn(6)))
			case "peek8":
				b := randBytes(rnd.Intn(24))
				emit(b, rnd.Intn(len(b)+1), int64(rnd.Intn(20)))
			case "field", "vfield", "crc":
				// push; skip k bytes; pop – with a stored value that is right, off by one, or random
				k := rnd.Intn(10)
				body := randBytes(k + rnd.Intn(3))
				var lf []byte
				want := int64(k)
				if rnd.Intn(3) == 0 {
					want += int64(rnd.Intn(5)) - 2
				}
				switch ps.kind {
				case "field":
					lf = be32(uint32(want))
					if rnd.Intn(8) == 0 {
						lf = be32(uint32(pickLen(len(body), 1)))
					}
				case "vfield":
					lf = putVarint(want)
					if rnd.Intn(4) == 0 { // non-canonical encoding
						lf[len(lf)-1] |= 0x80
						lf = append(lf, 0x00)
					}
				case "crc":
					kk := k
					if kk > len(body) {
						kk = len(body)
					}
					c := sarama.VerifC10Crc(ps.name == "crcCastagnoli", body[:kk])
					if rnd.Intn(3) == 0 {
						c ^= 1 << uint(rnd.Intn(32))
					}
					lf = be32(c)
				}
				if rnd.Intn(10) == 0 {
					lf = lf[:rnd.Intn(len(lf))]
				}
				b := append(append(append([]byte{}, pre...), lf...), body...)
				kArg := int64(k)
				if rnd.Intn(10) == 0 {
					kArg = pickLen(len(body), 1)
				}
				emit(b, len(pre), kArg)
			}
		}
	}
	// checksums and response headers
	for k := 0; k < n/4+8; k++ {
		poly := "ieee"
		if rnd.Bool() {
			poly = "castagnoli"
		}
		ops = append(ops, "crc "+poly+" "+hx(randBytes(rnd.Intn(40))))
	}
	for k := 0; k < n+16; k++ {
		maxResp := []int64{104857600, 100, 8, 2147483647}[rnd.Intn(4)]
		ver := rnd.Intn(2)
		length := []int64{-1, 0, 4, 5, 8, 9, 10, 99, 100, 101, 104857600, 104857601, 0x7fffffff, int64(rnd.Intn(200))}[rnd.Intn(14)]
		b := append(be32(uint32(length)), randBytes(4)...)
		if ver == 1 {
			b = append(b, []byte{0, 0, 1, 0x80}[rnd.Intn(4)])
		}
		switch rnd.Intn(8) {
		case 0:
			b = b[:rnd.Intn(len(b)+1)]
		case 1:
			b = append(b, randBytes(1+rnd.Intn(3))...)
		}
		ops = append(ops, fmt.Sprintf("hdr %d %d %s", maxResp, ver, hx(b)))
	}
	return ops
}

// ---------------------------------------------------------------------------------------------------------
// entry-point stream

type mut struct {
	kind string
	data []byte
}

var i32pat = []int64{-1, -2, 0, 0x7fffffff, 1 << 20, 131071}
var i16pat = []int64{-1, -2, 0x7fff}
var bytepat = []byte{0x00, 0x01, 0x7f, 0xff}
var inserts = [][]byte{
	{0xff, 0xff, 0xff, 0xff, 0x0f},                                     // uvarint 2^32-1
	{0xff, 0xff, 0xff, 0xff, 0xff, 0xff, 0xff, 0xff, 0xff, 0x01},       // uvarint 2^64-1
	{0x80, 0x80, 0x80, 0x80, 0x80, 0x80, 0x80, 0x80, 0x80, 0x80, 0x01}, // overflow
	{0x80, 0x80, 0x80, 0x80, 0x80, 0x40},                               // varint 2^40
	{0xfe, 0xff, 0xff, 0xff, 0xff, 0xff, 0xff, 0xff, 0xff, 0x01},       // varint 2^63-1 (offset + length overflows int)
}

func with(valid []byte, i int, repl []byte, drop int) []byte {
	out := make([]byte, 0, len(valid)+len(repl))
	out = append(out, valid[:i]...)
	out = append(out, repl...)
	if i+drop < len(valid) {
		out = append(out, valid[i+drop:]...)
	}
	return out
}

// core mutations: applied at EVERY position of the valid encoding (so every length / count field of every
// type and version is hit with -1, -2, 0, huge, remainder+1, and every prefix is tried)
func coreMutations(valid []byte) []mut {
	var ms []mut
	n := len(valid)
	for i := 0; i <= n; i++ {
		if i < n {
			ms = append(ms, mut{"truncate", append([]byte{}, valid[:i]...)})
		}
		if i+4 <= n {
			rem := int64(n - (i + 4))
			for _, v := range append(append([]int64{}, i32pat...), rem+1) {
				ms = append(ms, mut{"int32=" + patName(v, rem), with(valid, i, be32(uint32(v)), 4)})
			}
		}
		if i+2 <= n {
			rem := int64(n - (i + 2))
			for _, v := range append(append([]int64{}, i16pat...), rem+1) {
				ms = append(ms, mut{"int16=" + patName(v, rem), with(valid, i, be16(uint16(v)), 2)})
			}
		}
		if i < n {
			rem := n - (i + 1)
			for _, v := range bytepat {
				ms = append(ms, mut{fmt.Sprintf("byte=%#x", v), with(valid, i, []byte{v}, 1)})
			}
			if rem+2 < 128 {
				ms = append(ms, mut{"compactlen=rem+1", with(valid, i, []byte{byte(rem + 2)}, 1)})
				ms = append(ms, mut{"varintlen=rem+1", with(valid, i, []byte{byte(2 * (rem + 1))}, 1)})
			}
			for k, ins := range inserts {
				ms = append(ms, mut{"varint-insert" + strconv.Itoa(k), with(valid, i, ins, 1)})
			}
		}
	}
	return ms
}

// decompressor frame headers that announce a large decoded size for a handful of bytes
func frameMutations(valid []byte) []mut {
	var ms []mut
	for i := 0; i+10 <= len(valid); i++ {
		if valid[i] == 0x28 && valid[i+1] == 0xb5 && valid[i+2] == 0x2f && valid[i+3] == 0xfd {
			// zstd: frame header descriptor 0x80 (4-byte content size), window descriptor 0, content size 0x28000000
			ms = append(ms, mut{"zstd-content-size", with(valid, i+4, []byte{0x80, 0x00, 0x00, 0x00, 0x00, 0x28}, 6)})
		}
	}
	return ms
}

// ---- "length lands on another element boundary" mutations -------------------------------------------------

func i32at(b []byte, i int) int64 { return int64(int32(binary.BigEndian.Uint32(b[i : i+4]))) }

// chainMutations: sequences of elements framed as [8 bytes][int32 length][length bytes] (legacy message blocks,
// record batches) that exactly fill the buffer or a 4-byte-length-prefixed region of it (the records of a fetch
// response block).  The length of every element is set so that it ends on the boundary of each LATER sibling
// (swallowing one or more whole siblings) and on the end of the region.
func chainMutations(valid []byte) []mut {
	var ms []mut
	n := len(valid)
	walk := func(from, end int) []int { // element starts, nil unless the chain fills [from,end) with >= 2 elements
		var starts []int
		p := from
		for p+12 <= end {
			l := i32at(valid, p+8)
			if l < 0 || int64(p)+12+l > int64(end) {
				return nil
			}
			starts = append(starts, p)
			p += 12 + int(l)
		}
		if p != end || len(starts) < 2 {
			return nil
		}
		return starts
	}
	type region struct{ from, end int }
	regions := []region{{0, n}}
	for i := 0; i+4 <= n; i++ {
		v := i32at(valid, i)
		if v >= 24 && int64(i)+4+v <= int64(n) {
			regions = append(regions, region{i + 4, i + 4 + int(v)})
		}
	}
	seen := map[region]bool{}
	for _, r := range regions {
		if seen[r] {
			continue
		}
		seen[r] = true
		starts := walk(r.from, r.end)
		if starts == nil {
			continue
		}
		bounds := append(append([]int{}, starts[1:]...), r.end)
		for a, st := range starts {
			for _, b := range bounds[a+1:] { // a later boundary than the element's own end
				ms = append(ms, mut{"chain-length-to-sibling-boundary", with(valid, st+8, be32(uint32(b-(st+12))), 4)})
			}
			// and shrunk so that the NEXT element would start inside this one, on its key / value boundary
			if own := int(i32at(valid, st+8)); own > 4 {
				ms = append(ms, mut{"chain-length-shrunk", with(valid, st+8, be32(uint32(own-4)), 4)})
			}
		}
	}
	return ms
}

// genericBoundaryMutations: schema-free version for every length-prefixed element: each plausible 4-byte or
// 2-byte length field (0 <= v, field end + v inside the buffer) is set so that its element ends where ANOTHER
// plausible element ends (the nearest 12 larger and 4 smaller ends).
func genericBoundaryMutations(valid []byte) []mut {
	var ms []mut
	n := len(valid)
	type field struct{ pos, width, end int }
	var fields []field
	endSet := map[int]bool{n: true}
	for i := 0; i+2 <= n; i++ {
		if i+4 <= n {
			if v := i32at(valid, i); v >= 0 && int64(i)+4+v <= int64(n) {
				fields = append(fields, field{i, 4, i + 4 + int(v)})
				if v > 0 {
					endSet[i+4+int(v)] = true
				}
			}
		}
		if v := int(int16(binary.BigEndian.Uint16(valid[i : i+2]))); v > 0 && i+2+v <= n {
			fields = append(fields, field{i, 2, i + 2 + v})
			endSet[i+2+v] = true
		}
	}
	var ends []int
	for e := range endSet {
		ends = append(ends, e)
	}
	sort.Ints(ends)
	for _, f := range fields {
		idx := sort.SearchInts(ends, f.end)
		put := func(e int) {
			v := e - (f.pos + f.width)
			if v < 0 || e == f.end {
				return
			}
			if f.width == 4 {
				ms = append(ms, mut{"length-to-other-boundary32", with(valid, f.pos, be32(uint32(v)), 4)})
			} else if v <= 0x7fff {
				ms = append(ms, mut{"length-to-other-boundary16", with(valid, f.pos, be16(uint16(v)), 2)})
			}
		}
		for k, c := idx, 0; k < len(ends) && c < 12; k++ {
			if ends[k] > f.end {
				put(ends[k])
				c++
			}
		}
		for k, c := idx-1, 0; k >= 0 && c < 4; k-- {
			if ends[k] < f.end {
				put(ends[k])
				c++
			}
		}
	}
	return ms
}

// recordBoundaryMutations: an uncompressed v2 record batch at offset `at`: the varint length of record i is
// enlarged to cover the following record(s) as well (and shrunk by the size of its last field); batch length and
// CRC-32C are recomputed, so the batch is intact as far as its checksum goes and only the record length lies.
func recordBoundaryMutations(valid []byte, at int) []mut {
	var ms []mut
	if at+61 > len(valid) || valid[at+16] != 2 {
		return nil
	}
	batchLen := int(i32at(valid, at+8))
	end := at + 12 + batchLen
	if batchLen < 49 || end > len(valid) || valid[at+22]&0x07 != 0 { // attributes low byte: codec none only
		return nil
	}
	type rec struct{ start, lenSize, length int }
	var recs []rec
	for p := at + 61; p < end; {
		l, k := binary.Varint(valid[p:end])
		if k <= 0 || l < 0 || p+k+int(l) > end {
			return nil
		}
		recs = append(recs, rec{p, k, int(l)})
		p += k + int(l)
	}
	rebuild := func(i int, newLen int64) []byte {
		r := recs[i]
		lf := putVarint(newLen)
		out := append([]byte{}, valid[:r.start]...)
		out = append(out, lf...)
		out = append(out, valid[r.start+r.lenSize:]...)
		delta := len(lf) - r.lenSize
		copy(out[at+8:], be32(uint32(batchLen+delta)))
		crc := sarama.VerifC10Crc(true, out[at+21:end+delta])
		copy(out[at+17:], be32(crc))
		return out
	}
	for i := range recs {
		cover := recs[i].length
		for j := i + 1; j < len(recs); j++ {
			cover += recs[j].lenSize + recs[j].length
			ms = append(ms, mut{"record-length-to-sibling-boundary", rebuild(i, int64(cover))})
		}
		if recs[i].length > 1 {
			ms = append(ms, mut{"record-length-shrunk", rebuild(i, int64(recs[i].length-1))})
		}
	}
	return ms
}

// trailingArrayMutations: data appended AFTER the last field of a group member blob (newer protocol versions
// append arrays there): an array count of -1, -2, 0, 1, 2, huge, alone, followed by one element, and truncated
func trailingArrayMutations(blob []byte) [][]byte {
	var out [][]byte
	elem := []byte{0x00, 0x01, 't', 0x00, 0x00, 0x00, 0x01, 0x00, 0x00, 0x00, 0x07} // string "t", int32 array [7]
	for _, x := range []int64{-1, -2, 0, 1, 2, 131071, 0x7fffffff, 1 << 20} {
		cnt := be32(uint32(x))
		out = append(out, append(append([]byte{}, blob...), cnt...))
		out = append(out, append(append(append([]byte{}, blob...), cnt...), elem...))
	}
	for k := 1; k <= 3; k++ {
		out = append(out, append(append([]byte{}, blob...), be32(1)[:k]...))
	}
	out = append(out, append(append(append([]byte{}, blob...), be32(2)...), elem...)) // two announced, one present
	return out
}

// blobMutations of an encoding that embeds group member blobs as 4-byte-length-prefixed byte strings:
// every occurrence of a blob is replaced by each of its trailing-array mutations (length prefix adjusted)
func blobSpliceMutations(valid []byte, blobs [][]byte) []mut {
	var ms []mut
	for _, b := range blobs {
		pat := append(be32(uint32(len(b))), b...)
		for i := 0; i+len(pat) <= len(valid); i++ {
			if string(valid[i:i+len(pat)]) != string(pat) {
				continue
			}
			for _, nb := range trailingArrayMutations(b) {
				repl := append(be32(uint32(len(nb))), nb...)
				ms = append(ms, mut{"member-blob-trailing-array", with(valid, i, repl, len(pat))})
			}
			// the blob's own Version field (first two bytes) raised, with and without trailing data
			for v := byte(1); v <= 3; v++ {
				nb := append([]byte{}, b...)
				if len(nb) >= 2 {
					nb[0], nb[1] = 0, v
					ms = append(ms, mut{"member-blob-version", with(valid, i, append(be32(uint32(len(nb))), nb...), len(pat))})
					for _, t := range trailingArrayMutations(nb)[:6] {
						ms = append(ms, mut{"member-blob-version+trailing", with(valid, i, append(be32(uint32(len(t))), t...), len(pat))})
					}
				}
			}
			break
		}
	}
	return ms
}

// magicMutations: the magic byte (offset 16) of every v2 record batch set to values the client does not know
func magicMutations(valid []byte) []mut {
	var ms []mut
	for at := 0; at+61 <= len(valid); at++ {
		if valid[at+16] != 2 {
			continue
		}
		bl := i32at(valid, at+8)
		if bl < 49 || int64(at)+12+bl > int64(len(valid)) {
			continue
		}
		for _, m := range []byte{3, 6, 10, 0x42, 0x7f, 0x80} {
			ms = append(ms, mut{fmt.Sprintf("batch-magic=%d", m), with(valid, at+16, []byte{m}, 1)})
		}
	}
	return ms
}

func patName(v, rem int64) string {
	switch {
	case v == rem+1:
		return "rem+1"
	case v >= 131071:
		return "huge"
	}
	return strconv.FormatInt(v, 10)
}

func extraMutation(valid []byte) mut {
	n := len(valid)
	if n == 0 {
		return mut{"random", randBytes(rnd.Intn(32))}
	}
	switch rnd.Intn(10) {
	case 0, 1, 2, 3, 4:
		b := append([]byte{}, valid...)
		for k := 1 + rnd.Intn(2); k > 0; k-- {
			b[rnd.Intn(n)] ^= 1 << uint(rnd.Intn(8))
		}
		return mut{"bitflip", b}
	case 5:
		b := append([]byte{}, valid...)
		i := rnd.Intn(n)
		copy(b[i:], randBytes(1+rnd.Intn(4)))
		return mut{"random-overwrite", b}
	case 6:
		i := rnd.Intn(n + 1)
		return mut{"insert-random", with(valid, i, randBytes(1+rnd.Intn(4)), 0)}
	case 7:
		i := rnd.Intn(n)
		return mut{"delete", with(valid, i, nil, 1+rnd.Intn(3))}
	case 8:
		// two length-like fields at once
		b := append([]byte{}, valid...)
		for k := 0; k < 2 && n >= 4; k++ {
			i := rnd.Intn(n - 3)
			copy(b[i:], be32(uint32(pickLen(n-i-4, 1))))
		}
		return mut{"two-int32", b}
	default:
		return mut{"random", randBytes(rnd.Intn(n + 8))}
	}
}

type sample struct {
	entry   *entryInfo
	version int16
	codec   int
	valid   []byte
	blobs   [][]byte // group member blobs embedded in the encoding (length-prefixed with 4 bytes)
}

func buildSamples(perPair int, allCodecs bool) []sample {
	// candidates are ENCODED here (sarama's own encoders on values of its own types) and validated by decoding
	// them in the worker subprocesses - the master never runs a decoder
	type cand struct {
		s   sample
		key string
	}
	var cands []cand
	next := func() uint64 { return rnd.U64() }
	memberBlob := func(name string, v int16) []byte {
		b, err := sarama.VerifC10Sample(name, v, 0, true, false, next)
		if err != nil {
			return []byte{0, byte(v), 0, 0, 0, 0, 0xff, 0xff, 0xff, 0xff}
		}
		return b
	}
	for _, name := range entryOrder {
		e := entryByName[name]
		for v := int16(0); v <= e.MaxV; v++ {
			codecs := []int{0}
			if e.Decomp {
				if allCodecs || name != "FetchResponse" {
					codecs = []int{0, 1, 2, 3, 4}
				} else {
					codecs = []int{int(v) % 5}
				}
			}
			for _, c := range codecs {
				key := name + "/" + strconv.Itoa(int(v)) + "/" + strconv.Itoa(c)
				for try := 0; try < perPair*4; try++ {
					var b []byte
					var err error
					var blobs [][]byte
					if e.Members {
						// member blobs of every blob version inside the response
						bv := int16((int(v) + try) % 4)
						meta, asg := memberBlob("ConsumerGroupMemberMetadata", bv), memberBlob("ConsumerGroupMemberAssignment", bv)
						blobs = [][]byte{meta, asg}
						b, err = sarama.VerifC10WrapMembers(name, v, meta, asg, next)
					} else {
						b, err = sarama.VerifC10Sample(name, v, c, try < perPair*2, false, next)
					}
					if err != nil || len(b) > 1500 {
						run.Count("sample-rejected")
						continue
					}
					cands = append(cands, cand{sample{e, v, c, b, blobs}, key})
				}
			}
		}
	}
	lines := make([]string, len(cands))
	for i, c := range cands {
		lines[i] = "d " + c.s.entry.Name + " " + strconv.Itoa(int(c.s.version)) + " " + hx(c.s.valid)
	}
	res := workers.exec(lines)
	var out []sample
	got := map[string]int{}
	seen := map[string]bool{}
	for i, c := range cands {
		if res[i].dead != "" || !strings.HasPrefix(res[i].line, "ok\t") {
			run.Count("sample-rejected")
			if res[i].dead == "hang" {
				fail("decode-hangs:"+c.s.entry.Name, lines[i], "decode of a VALID encoding did not return within the watchdog period")
			}
			continue
		}
		id := c.key + string(c.s.valid)
		if got[c.key] >= perPair || seen[id] {
			continue
		}
		seen[id] = true
		got[c.key]++
		out = append(out, c.s)
	}
	for _, name := range entryOrder {
		e := entryByName[name]
		for v := int16(0); v <= e.MaxV; v++ {
			n := 0
			for k, g := range got {
				if strings.HasPrefix(k, name+"/"+strconv.Itoa(int(v))+"/") {
					n += g
				}
			}
			if n == 0 {
				run.Count("nosample:" + name + "/" + strconv.Itoa(int(v)))
			}
		}
	}
	return out
}

type entryOp struct {
	line   string // op line for the worker
	replay string // op line that reproduces the case together with its oracle (d / w / t line)
	entry  *entryInfo
	ver    int16
	kind   string // mutation kind
	input  []byte // the bytes decoded
	trail  bool   // valid + extra bytes: must be an error
	must   string // "" or the signature prefix of a must-be-an-error case (replay line "m <entry> <ver> <hex> <prefix>")
}

func isPrefixBlockwise(mut, orig string) bool {
	ob := strings.Split(orig, "|")
	for _, mb := range strings.Split(mut, "|") {
		if mb == "" {
			continue
		}
		ok := false
		for _, o := range ob {
			if o == mb || strings.HasPrefix(o, mb+";") {
				ok = true
				break
			}
		}
		if !ok {
			return false
		}
	}
	return true
}

// codecTag names the decompressor whose frame magic occurs in the input of an entry point that can reach
// decompress() (so that an oversize allocation inside one decompression library has its own signature)
func codecTag(e *entryInfo, input []byte) string {
	if !e.Decomp {
		return ""
	}
	h := hx(input)
	switch {
	case strings.Contains(h, "28b52ffd"):
		return ":zstd"
	case strings.Contains(h, "04224d18"):
		return ":lz4"
	case strings.Contains(h, "1f8b08"):
		return ":gzip"
	}
	return ""
}

func modelLimit(n int) uint64 { return uint64(1<<20) + 64*uint64(n) }

// evaluate the oracle on one entry-point result; emits the differential line when the entry has a Lean format
func judge(op entryOp, r opResult) {
	e := op.entry
	replay := op.replay
	if replay == "" {
		replay = op.line
	}
	run.Case(replay)
	run.Count("mut:" + op.kind)
	class, kind, site, render, origRender := "", "-", "-", "", ""
	var alloc uint64
	if r.dead == "skipped" {
		run.Count("skipped-after-hangs:" + e.Name)
		return
	}
	if r.dead == "hang" {
		run.Count("class:hang")
		fail("decode-hangs:"+e.Name, replay, "decode did not return within the watchdog period (confirmed alone in a fresh worker with three times the period); the worker was killed and replaced")
		return
	}
	if r.dead != "" {
		class = r.dead
		run.Count("class:" + class)
		detail := "worker subprocess " + map[string]string{"oversize": "killed by the memory cap (fatal, not recoverable)", "crash": "crashed", "hang": "did not answer within the watchdog timeout"}[class] + ": " + r.stderr
		tag := ""
		if class == "oversize" {
			tag = codecTag(e, op.input)
		}
		fail(e.Name+":"+class+tag, replay, detail)
	} else {
		f := strings.Split(r.line, "\t")
		if len(f) < 5 {
			fail("harness-protocol-error", replay, "worker answered "+r.line)
			return
		}
		class, kind, site, render = f[0], f[1], f[2], f[4]
		alloc, _ = strconv.ParseUint(f[3], 10, 64)
		if len(f) >= 6 {
			origRender = f[5]
		}
		run.Count("class:" + class)
		switch class {
		case "panic":
			fail(e.Name+":panic:"+kind+"@"+site, replay, "recovered panic ("+kind+") in "+site)
		case "oversize":
			fail(e.Name+":oversize"+codecTag(e, op.input), replay, fmt.Sprintf("%d bytes allocated while decoding %d input bytes (limit %d)", alloc, len(op.input), allocLimit(len(op.input), e.Decomp)))
		case "ok":
			if op.trail {
				fail("trailing-bytes-accepted:"+e.Name, replay, "a valid encoding followed by extra bytes decoded without error")
			}
			if op.must != "" {
				fail(op.must+":"+e.Name, replay, "an input that must be rejected decoded without error")
			}
			if e.Records && len(f) >= 6 && !strings.HasPrefix(origRender, "!") && !isPrefixBlockwise(render, origRender) {
				fail("wrong-records:"+e.Name, replay, "mutated input decoded without error to records that are not a prefix of the original ones: "+render+" vs "+origRender)
			}
		}
		if class == "ok" || (class == "err" && kind != "insufficient") || class == "panic" || class == "oversize" {
			run.Nontrivial(replay)
		}
	}
	// differential line for entries that have a Lean format
	if e.Model != "" && (op.ver == e.ModelV || e.ModelAll) && !op.trail && op.must == "" {
		lim := modelLimit(len(op.input))
		ans := ""
		switch {
		case r.dead != "":
			ans = r.dead
		case alloc*2 > lim && alloc < lim*2:
			// borderline allocation: the measured value includes small objects the model does not count
			run.Count("diff-borderline-skipped")
			return
		case class == "err" && strings.HasPrefix(kind, "other"):
			// an error of a semantic validation outside the byte-level model (Broker.decode: net.SplitHostPort of the
			// decoded host) – an error is fine for the property, the model has no counterpart
			run.Count("diff-semantic-error-skipped")
			return
		default:
			switch class {
			case "ok", "panic", "oversize":
				ans = class
			case "err":
				ans = "err " + kind
			}
			if alloc > lim {
				ans = "oversize"
			}
		}
		model := e.Model
		if model == "MetadataResponseV0" && variants["metadataLoopHeads"] == "checked" {
			model = "MetadataResponseV0Guarded"
		}
		run.Emit("fmt "+variants[e.Variant]+" "+model+" "+hx(op.input), ans)
	}
}

func judgePrim(op string, r opResult) {
	t := strings.Fields(op)
	if r.dead == "skipped" {
		run.Count("skipped-after-hangs:prim")
		return
	}
	if r.dead != "" {
		ans := r.dead
		run.Count("class:prim-" + ans)
		if t[0] == "p" {
			fail("prim:"+t[2]+":"+ans, op, "worker subprocess died / hung: "+r.stderr)
		} else {
			fail(t[0]+":"+ans, op, r.stderr)
		}
		run.Emit(op, ans)
		return
	}
	f := strings.Split(r.line, "\t")
	ans := f[0]
	if t[0] == "p" && len(f) >= 3 {
		alloc, _ := strconv.ParseUint(f[1], 10, 64)
		lim := modelLimit(len(t[3]) / 2)
		if alloc*2 > lim && alloc < lim*2 {
			run.Count("diff-borderline-skipped")
			return
		}
		switch {
		case ans == "panic":
			fail("prim:"+t[2]+":panic", op, "recovered panic "+f[2])
		case ans == "oversize":
			fail("prim:"+t[2]+":oversize", op, fmt.Sprintf("%d bytes allocated on a %d-byte buffer", alloc, len(t[3])/2))
		}
		// count getters: the value handed to the loop head that allocates from it
		if a := strings.Fields(ans); len(a) == 3 && a[0] == "ok" {
			n, _ := strconv.ParseInt(a[1], 10, 64)
			off, _ := strconv.Atoi(a[2])
			left := int64(len(t[3])/2 - off)
			if t[3] == "-" {
				left = 0
			}
			switch {
			case t[2] == "getArrayLength" && n < -1:
				fail("prim:getArrayLength:negative-count", op, fmt.Sprintf("returned %d without error; callers pass it to make()", n))
			case t[2] == "getArrayLength" && n > left:
				fail("prim:getArrayLength:unchecked-count", op, fmt.Sprintf("returned %d with %d bytes remaining", n, left))
			case t[2] == "getStringLength" && n > left:
				fail("prim:getStringLength:unchecked-length", op, fmt.Sprintf("returned %d with %d bytes remaining", n, left))
			case t[2] == "getCompactArrayLength" && (n < 0 || n > left):
				fail("prim:getCompactArrayLength:unchecked-count", op, fmt.Sprintf("returned %d with %d bytes remaining; callers pass it to make()", n, left))
			}
		}
		if !strings.HasPrefix(ans, "err insufficient") {
			run.Nontrivial(op)
		}
	} else if ans == "panic" {
		fail(t[0]+":panic", op, "recovered panic")
	} else if a := strings.Fields(ans); t[0] == "hdr" && len(a) == 4 && a[0] == "ok" {
		// response_size_capped on the implementation: 4 < length <= MaxResponseSize, body buffer size >= 0
		mx, _ := strconv.ParseInt(t[1], 10, 64)
		length, _ := strconv.ParseInt(a[1], 10, 64)
		body, _ := strconv.ParseInt(a[3], 10, 64)
		if length <= 4 || length > mx || body < 0 || body > mx {
			fail("hdr:size-not-capped", op, "header accepted with length "+a[1]+" (MaxResponseSize "+t[1]+"), body buffer "+a[3])
		}
	}
	if t[0] == "p" {
		run.Count("class:prim-" + strings.Fields(ans + " x")[0])
	} else {
		run.Count("ops:" + t[0])
	}
	run.Emit(op, ans)
}

// ---------------------------------------------------------------------------------------------------------

func opsForSample(s sample, budgetExtra int) []entryOp {
	var out []entryOp
	e := s.entry
	mk := func(kind string, data []byte) entryOp {
		line := "d " + e.Name + " " + strconv.Itoa(int(s.version)) + " " + hx(data)
		if e.Records {
			line = "w " + e.Name + " " + strconv.Itoa(int(s.version)) + " " + hx(s.valid) + " " + hx(data)
		}
		return entryOp{line: line, entry: e, ver: s.version, kind: kind, input: data}
	}
	out = append(out, mk("valid", s.valid))
	if !e.Loop {
		for k := 0; k < 3; k++ {
			extra := randBytes(1 + rnd.Intn(3))
			if k == 0 {
				extra = []byte{0}
			}
			data := append(append([]byte{}, s.valid...), extra...)
			out = append(out, entryOp{line: "d " + e.Name + " " + strconv.Itoa(int(s.version)) + " " + hx(data),
				replay: "t " + e.Name + " " + strconv.Itoa(int(s.version)) + " " + hx(s.valid) + " " + hx(extra),
				entry:  e, ver: s.version, kind: "trailing", input: data, trail: true})
		}
	}
	for _, m := range coreMutations(s.valid) {
		out = append(out, mk(m.kind, m.data))
	}
	if e.Decomp {
		for _, m := range frameMutations(s.valid) {
			out = append(out, mk(m.kind, m.data))
		}
		for _, m := range magicMutations(s.valid) {
			out = append(out, mk(m.kind, m.data))
		}
	}
	if e.Blob {
		for _, d := range trailingArrayMutations(s.valid) {
			out = append(out, mk("member-blob-trailing-array", d))
		}
	}
	if e.Members {
		for _, m := range blobSpliceMutations(s.valid, s.blobs) {
			out = append(out, mk(m.kind, m.data))
		}
	}
	// a length field that lands on the boundary of ANOTHER element (swallowing or splitting siblings)
	for _, m := range chainMutations(s.valid) {
		out = append(out, mk(m.kind, m.data))
	}
	for _, m := range genericBoundaryMutations(s.valid) {
		out = append(out, mk(m.kind, m.data))
	}
	if e.Decomp {
		for at := 0; at+61 <= len(s.valid); at++ {
			for _, m := range recordBoundaryMutations(s.valid, at) {
				out = append(out, mk(m.kind, m.data))
			}
		}
	}
	if (e.Name == "MessageBlock" || e.Name == "MessageSet") && len(s.valid) >= 12 {
		// the 4-byte length of the (first) message block says one byte less than is there
		l := binary.BigEndian.Uint32(s.valid[8:12])
		if l > 0 {
			data := with(s.valid, 8, be32(l-1), 4)
			out = append(out, entryOp{line: "d " + e.Name + " 0 " + hx(data), replay: "m " + e.Name + " 0 " + hx(data) + " length-mismatch-accepted",
				entry: e, ver: 0, kind: "length-1", input: data, must: "length-mismatch-accepted"})
		}
	}
	if e.Name == "Record" {
		// the record's length varint re-encoded non-canonically (one byte longer) with value = covered bytes + 1:
		// the stored length disagrees with the data
		if _, k := binary.Varint(s.valid); k > 0 {
			body := s.valid[k:]
			lf := putVarint(int64(len(body)) + 1)
			lf[len(lf)-1] |= 0x80
			lf = append(lf, 0x00)
			data := append(lf, body...)
			out = append(out, entryOp{line: "d Record 0 " + hx(data), replay: "m Record 0 " + hx(data) + " length-mismatch-accepted",
				entry: e, ver: 0, kind: "noncanonical-length", input: data, must: "length-mismatch-accepted"})
		}
	}
	for k := 0; k < budgetExtra; k++ {
		m := extraMutation(s.valid)
		out = append(out, mk(m.kind, m.data))
	}
	return out
}

func runEntryOps(ops []entryOp) {
	const batch = 200000
	for lo := 0; lo < len(ops); lo += batch {
		hi := lo + batch
		if hi > len(ops) {
			hi = len(ops)
		}
		lines := make([]string, hi-lo)
		for i := range lines {
			lines[i] = ops[lo+i].line
		}
		res := workers.exec(lines)
		for i := range res {
			judge(ops[lo+i], res[i])
		}
	}
}

func replayOps(lines []string) {
	// replayed lines are op lines of either stream (p / crc / hdr / fmt / d / w / t)
	var prim []string
	var ent []entryOp
	for _, l := range lines {
		t := strings.Fields(l)
		if len(t) == 0 {
			continue
		}
		switch t[0] {
		case "p", "crc", "hdr":
			if t[0] == "p" && len(t) > 2 && t[1] == "auto" {
				// corpus lines: the variant the tree under test has for this primitive
				v := "pinned"
				for _, ps := range prims {
					if ps.name == t[2] && ps.vkey != "" {
						v = variants[ps.vkey]
					}
				}
				t[1] = v
				l = strings.Join(t, " ")
			}
			prim = append(prim, l)
		case "fmt":
			if len(t) != 4 {
				continue
			}
			for _, name := range entryOrder {
				e := entryByName[name]
				if e.Model == t[2] || e.Model+"Guarded" == t[2] {
					data := unhex(t[3])
					ent = append(ent, entryOp{line: "d " + e.Name + " " + strconv.Itoa(int(e.ModelV)) + " " + hx(data), entry: e, ver: e.ModelV, kind: "replay", input: data})
				}
			}
		case "d", "w", "t", "m":
			if len(t) < 4 || entryByName[t[1]] == nil {
				continue
			}
			v, _ := strconv.Atoi(t[2])
			e := entryByName[t[1]]
			switch t[0] {
			case "d":
				ent = append(ent, entryOp{line: l, entry: e, ver: int16(v), kind: "replay", input: unhex(t[3])})
			case "w":
				if len(t) == 5 {
					ent = append(ent, entryOp{line: l, entry: e, ver: int16(v), kind: "replay", input: unhex(t[4])})
				}
			case "m":
				if len(t) == 5 {
					data := unhex(t[3])
					ent = append(ent, entryOp{line: "d " + e.Name + " " + t[2] + " " + hx(data), replay: l, entry: e, ver: int16(v), kind: "replay", input: data, must: t[4]})
				}
			case "t":
				if len(t) == 5 {
					data := append(unhex(t[3]), unhex(t[4])...)
					ent = append(ent, entryOp{line: "d " + e.Name + " " + t[2] + " " + hx(data), replay: l, entry: e, ver: int16(v), kind: "trailing", input: data, trail: true})
				}
			}
		}
	}
	if len(prim) > 0 {
		res := workers.exec(prim)
		for i := range res {
			judgePrim(prim[i], res[i])
		}
	}
	runEntryOps(ent)
}

func main() {
	initEntries()
	if os.Getenv("C10_WORKER") == "1" {
		workerMain()
		return
	}
	run = hlib.Start("C10")
	rnd = hlib.NewRand(run.Seed)
	// watchdog per operation (a decode takes micro- to milliseconds); a hang is confirmed alone with 3x the period
	timeout := 3 * time.Second
	if run.Tier == "thorough" {
		timeout = 8 * time.Second
	}
	workers = newPool(timeout)
	t0 := time.Now()

	observeVariants()

	if lines := run.ReplayLines(); lines != nil {
		replayOps(lines)
		finish(t0)
		return
	}

	// budget: total number of operations
	n := run.N
	if n <= 0 {
		n = 300000
		if run.Tier == "thorough" {
			n = 4000000
		}
	}

	// 1. primitive-level differential stream
	perPrim := 250
	if run.Tier == "thorough" {
		perPrim = 4000
	}
	pops := genPrimOps(perPrim)
	pres := workers.exec(pops)
	for i := range pres {
		judgePrim(pops[i], pres[i])
	}

	// 2. entry-point stream
	perPair, allCodecs := 1, false
	if run.Tier == "thorough" {
		perPair, allCodecs = 4, true
	}
	samples := buildSamples(perPair, allCodecs)
	core := 0
	for _, s := range samples {
		core += 36 * len(s.valid)
	}
	extraTotal := n - len(pops) - core
	if extraTotal < 20*len(samples) {
		extraTotal = 20 * len(samples)
	}
	// ops are generated and executed in batches (never all in memory at once)
	var ops []entryOp
	flush := func(force bool) {
		if len(ops) > 0 && (force || len(ops) >= 150000) {
			runEntryOps(ops)
			ops = nil
		}
	}
	for _, s := range samples {
		ops = append(ops, opsForSample(s, extraTotal/len(samples))...)
		run.Count("samples:" + s.entry.Name)
		flush(false)
	}
	// purely random buffers for every entry point and version
	for _, name := range entryOrder {
		e := entryByName[name]
		for v := int16(0); v <= e.MaxV; v++ {
			for k := 0; k < 40*perPair; k++ {
				data := randBytes(rnd.Intn(48))
				ops = append(ops, entryOp{line: "d " + name + " " + strconv.Itoa(int(v)) + " " + hx(data), entry: e, ver: v, kind: "random-bytes", input: data})
			}
		}
		flush(false)
	}
	flush(true)
	run.Set("valid_samples", len(samples))
	finish(t0)
}

func finish(t0 time.Time) {
	sort.Strings(sigOrder)
	counts := map[string]int{}
	for _, s := range sigOrder {
		counts[s] = seenSig[s]
	}
	run.Set("signature_counts", counts)
	run.Set("worker_deaths", workers.deaths)
	run.Set("ops_skipped_after_hangs", workers.skipped)
	run.Set("worker_deaths_not_reproduced_alone", workers.flaky)
	run.Set("observed_variants", variants)
	run.Set("harness_wall_s", int(time.Since(t0).Seconds()))
	run.Finish("non-trivial = a mutated or random input on which the real decoder got past its first field " +
		"(outcome ok, an error other than ErrInsufficientData, a panic or an oversize allocation); distinct by (entry point, version, input bytes)")
}
