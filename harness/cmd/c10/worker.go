package main

// Worker side: the harness re-executes itself with C10_WORKER=1.  A worker reads one operation per line from
// stdin, runs the REAL sarama code under recover(), and answers with exactly one line written by a single
// unbuffered write *after* the operation finished – so when a worker dies (fatal out-of-memory cannot be
// recovered) the master knows that the first unanswered operation killed it.
//
// The worker caps itself: RLIMIT_AS (address space) via setrlimit, GOMEMLIMIT from the environment.

import (
	"bufio"
	"encoding/hex"
	"fmt"
	"os"
	"runtime"
	"runtime/metrics"
	"strconv"
	"strings"
	"syscall"

	"github.com/Shopify/sarama"
)

const workerAddressSpace = 3 << 30 // bytes

var allocSample = []metrics.Sample{{Name: "/gc/heap/allocs:bytes"}}

func heapAllocs() uint64 {
	metrics.Read(allocSample)
	return allocSample[0].Value.Uint64()
}

func unhex(s string) []byte {
	if s == "-" || s == "" {
		return make([]byte, 0)
	}
	b, err := hex.DecodeString(s)
	if err != nil {
		return make([]byte, 0)
	}
	// exact capacity (the model's slice rule is cap == len)
	out := make([]byte, len(b))
	copy(out, b)
	return out
}

func hx(b []byte) string {
	if len(b) == 0 {
		return "-"
	}
	return hex.EncodeToString(b)
}

// allocation limit of an operation on `n` input bytes: 1 MiB + 64 bytes per input byte; entry points that can
// reach decompress() get 64 MiB on top (working memory of the decompressors, decompressed payload)
func allocLimit(n int, decomp bool) uint64 {
	l := uint64(1<<20) + 64*uint64(n)
	if decomp {
		l += 64 << 20
	}
	return l
}

func panicKind(msg string) string {
	switch {
	case strings.Contains(msg, "makeslice"):
		return "makeslice"
	case strings.Contains(msg, "slice bounds out of range"):
		return "slice-bounds"
	case strings.Contains(msg, "index out of range"):
		return "index"
	case strings.Contains(msg, "nil pointer"):
		return "nil-deref"
	case strings.Contains(msg, "makemap"):
		return "makemap"
	}
	return "other"
}

// innermost frame of package sarama (not the harness overlay) on the panicking stack
func panicSite() string {
	pcs := make([]uintptr, 96)
	n := runtime.Callers(2, pcs)
	frames := runtime.CallersFrames(pcs[:n])
	for {
		fr, more := frames.Next()
		if i := strings.Index(fr.Function, "Shopify/sarama."); i >= 0 {
			name := fr.Function[i+len("Shopify/sarama."):]
			if !strings.Contains(name, "Verif") && !strings.HasPrefix(name, "verif") && !strings.Contains(name, ".verif") &&
				!strings.Contains(fr.File, "zz_verif") {
				return name
			}
		}
		if !more {
			break
		}
	}
	return "?"
}

type outcome struct {
	panicked bool
	msg      string
	site     string
	alloc    uint64
}

// guarded runs f under recover and measures the bytes allocated meanwhile
func guarded(f func()) (o outcome) {
	before := heapAllocs()
	func() {
		defer func() {
			if p := recover(); p != nil {
				o.panicked = true
				o.msg = fmt.Sprint(p)
				o.site = panicSite()
			}
		}()
		f()
	}()
	o.alloc = heapAllocs() - before
	return o
}

// decodeOp: "<class>\t<kind>\t<site>\t<alloc>\t<render>"
//
//	class: ok | err | panic | oversize ; kind: error kind resp. panic kind
func decodeOp(entry string, version int16, buf []byte) string {
	e := entryByName[entry]
	var err error
	var render string
	o := guarded(func() { err, render = sarama.VerifC10Decode(entry, version, buf) })
	class, kind, site := "ok", "-", "-"
	switch {
	case o.panicked:
		class, kind, site = "panic", panicKind(o.msg), o.site
	case err != nil:
		class, kind = "err", sarama.VerifC10ErrKind(err)
	}
	if o.alloc > allocLimit(len(buf), e.Decomp) {
		class = "oversize"
	}
	if class != "ok" {
		render = ""
	}
	return class + "\t" + kind + "\t" + site + "\t" + strconv.FormatUint(o.alloc, 10) + "\t" + render
}

var lastValidKey, lastValidRender string

func execOp(line string) string {
	t := strings.Fields(line)
	if len(t) == 0 {
		return "bad-op"
	}
	switch t[0] {
	case "p": // p <variant> <prim> <hex> <off> [args]
		if len(t) < 5 {
			return "bad-op"
		}
		buf := unhex(t[3])
		off, _ := strconv.Atoi(t[4])
		if off < 0 || off > len(buf) {
			return "bad-op"
		}
		var args []int64
		for _, a := range t[5:] {
			v, _ := strconv.ParseInt(a, 10, 64)
			args = append(args, v)
		}
		var ans string
		o := guarded(func() { ans = sarama.VerifC10Prim(t[2], buf, off, args) })
		if o.panicked {
			ans = "panic"
		}
		if o.alloc > allocLimit(len(buf), false) {
			ans = "oversize"
		}
		detail := "-"
		if o.panicked {
			detail = panicKind(o.msg) + "@" + o.site
		}
		return ans + "\t" + strconv.FormatUint(o.alloc, 10) + "\t" + detail
	case "crc":
		if len(t) != 3 {
			return "bad-op"
		}
		return strconv.FormatUint(uint64(sarama.VerifC10Crc(t[1] == "castagnoli", unhex(t[2]))), 10)
	case "hdr":
		if len(t) != 4 {
			return "bad-op"
		}
		mx, _ := strconv.ParseInt(t[1], 10, 64)
		ver, _ := strconv.Atoi(t[2])
		buf := unhex(t[3])
		var ans string
		o := guarded(func() { ans = sarama.VerifC10Header(int32(mx), int16(ver), buf) })
		if o.panicked {
			ans = "panic"
		}
		return ans
	case "d": // d <entry> <version> <hex>
		if len(t) != 4 || entryByName[t[1]] == nil {
			return "bad-op"
		}
		ver, _ := strconv.Atoi(t[2])
		return decodeOp(t[1], int16(ver), unhex(t[3]))
	case "w": // w <entry> <version> <validhex> <mutatedhex>: decode of the mutated input + records of the valid one
		if len(t) != 5 || entryByName[t[1]] == nil {
			return "bad-op"
		}
		ver, _ := strconv.Atoi(t[2])
		key := t[1] + " " + t[2] + " " + t[3]
		if key != lastValidKey {
			r := strings.Split(decodeOp(t[1], int16(ver), unhex(t[3])), "\t")
			lastValidKey, lastValidRender = key, "!"+r[0]
			if r[0] == "ok" {
				lastValidRender = r[4]
			}
		}
		return decodeOp(t[1], int16(ver), unhex(t[4])) + "\t" + lastValidRender
	case "probe": // liveness
		return "pong"
	}
	return "bad-op"
}

func workerMain() {
	lim := syscall.Rlimit{Cur: workerAddressSpace, Max: workerAddressSpace}
	if err := syscall.Setrlimit(syscall.RLIMIT_AS, &lim); err != nil {
		fmt.Fprintln(os.Stderr, "worker: setrlimit:", err)
		os.Exit(3)
	}
	in := bufio.NewReaderSize(os.Stdin, 1<<20)
	for {
		line, err := in.ReadString('\n')
		if len(line) > 0 {
			res := execOp(strings.TrimSpace(line))
			res = strings.ReplaceAll(res, "\n", " ")
			if _, werr := os.Stdout.Write([]byte(res + "\n")); werr != nil {
				os.Exit(0)
			}
		}
		if err != nil {
			os.Exit(0)
		}
	}
}
