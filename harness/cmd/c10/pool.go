package main

// Master side: a pool of capped worker subprocesses.  Operations are streamed to a worker; answers come back
// in order, one line per operation.  A worker that dies or stops answering is attributed to the first
// unanswered operation, restarted, and that operation is re-run alone in a fresh worker to confirm.

import (
	"bufio"
	"bytes"
	"io"
	"os"
	"os/exec"
	"runtime"
	"strings"
	"sync"
	"syscall"
	"time"
)

type tail struct {
	mu  sync.Mutex
	buf []byte
}

func (t *tail) Write(p []byte) (int, error) {
	t.mu.Lock()
	t.buf = append(t.buf, p...)
	if len(t.buf) > 1<<16 {
		t.buf = t.buf[len(t.buf)-(1<<16):]
	}
	t.mu.Unlock()
	return len(p), nil
}
func (t *tail) String() string { t.mu.Lock(); defer t.mu.Unlock(); return string(t.buf) }

type wproc struct {
	cmd   *exec.Cmd
	in    io.WriteCloser
	lines chan string
	errs  *tail
}

func startWorker() (*wproc, error) {
	self, err := os.Executable()
	if err != nil {
		return nil, err
	}
	cmd := exec.Command(self)
	cmd.SysProcAttr = &syscall.SysProcAttr{Pdeathsig: syscall.SIGKILL}
	cmd.Env = append(os.Environ(), "C10_WORKER=1", "GOMEMLIMIT=1GiB", "GOTRACEBACK=single", "GOMAXPROCS=2")
	in, err := cmd.StdinPipe()
	if err != nil {
		return nil, err
	}
	out, err := cmd.StdoutPipe()
	if err != nil {
		return nil, err
	}
	w := &wproc{cmd: cmd, in: in, lines: make(chan string, 1024), errs: &tail{}}
	cmd.Stderr = w.errs
	if err := cmd.Start(); err != nil {
		return nil, err
	}
	go func() {
		r := bufio.NewReaderSize(out, 1<<20)
		for {
			l, err := r.ReadString('\n')
			if len(l) > 0 && strings.HasSuffix(l, "\n") {
				w.lines <- strings.TrimSuffix(l, "\n")
			}
			if err != nil {
				close(w.lines)
				return
			}
		}
	}()
	return w, nil
}

func (w *wproc) kill() {
	w.in.Close()
	if w.cmd.Process != nil {
		w.cmd.Process.Kill()
	}
	go func() {
		for range w.lines {
		}
	}()
	w.cmd.Wait()
}

// result of one operation
type opResult struct {
	line   string // the worker's answer ("" when the worker did not answer)
	dead   string // "" | "oversize" (killed by the memory cap) | "crash" | "hang"
	stderr string // tail of the dead worker's stderr
}

type pool struct {
	n       int
	timeout time.Duration
	deaths  int
	flaky   int
	mu      sync.Mutex
	hangs   map[string]int // confirmed hangs per decode target
	skipped int
}

// maxHangs: after this many confirmed hangs of one decode target its remaining operations are not executed
// (every one of them would cost a watchdog period); the hangs found are reported with their exact input
const maxHangs = 2

// hangKey is the decode target of an op line (entry point resp. primitive)
func hangKey(op string) string {
	t := strings.Fields(op)
	switch {
	case len(t) > 2 && t[0] == "p":
		return "p:" + t[2]
	case len(t) > 1:
		return t[1]
	}
	return op
}

func (p *pool) skip(op string) bool {
	p.mu.Lock()
	defer p.mu.Unlock()
	return p.hangs[hangKey(op)] >= maxHangs
}

func newPool(timeout time.Duration) *pool {
	n := runtime.NumCPU()
	if n > 16 {
		n = 16
	}
	if n < 2 {
		n = 2
	}
	return &pool{n: n, timeout: timeout, hangs: map[string]int{}}
}

func classifyDeath(stderr string) string {
	if strings.Contains(stderr, "out of memory") || strings.Contains(stderr, "cannot allocate memory") ||
		strings.Contains(stderr, "failed to reserve") || strings.Contains(stderr, "mmap") {
		return "oversize"
	}
	return "crash"
}

// runAlone executes one op in a fresh worker
func (p *pool) runAlone(op string) opResult { return p.runAloneT(op, p.timeout) }

func (p *pool) runAloneT(op string, timeout time.Duration) opResult {
	w, err := startWorker()
	if err != nil {
		return opResult{dead: "crash", stderr: "cannot start worker: " + err.Error()}
	}
	defer w.kill()
	io.WriteString(w.in, op+"\n")
	timer := time.NewTimer(timeout)
	defer timer.Stop()
	select {
	case l, ok := <-w.lines:
		if ok {
			return opResult{line: l}
		}
		w.cmd.Wait()
		return opResult{dead: classifyDeath(w.errs.String()), stderr: lastLines(w.errs.String(), 12)}
	case <-timer.C:
		return opResult{dead: "hang"}
	}
}

func lastLines(s string, n int) string {
	// first lines are the informative ones of a Go fatal error
	ls := strings.Split(strings.TrimSpace(s), "\n")
	if len(ls) > n {
		ls = ls[:n]
	}
	return strings.Join(ls, " | ")
}

// exec runs all ops and returns their results in order
func (p *pool) exec(ops []string) []opResult {
	res := make([]opResult, len(ops))
	const chunk = 256
	type job struct{ lo, hi int }
	jobs := make(chan job, (len(ops)+chunk-1)/chunk+1)
	for lo := 0; lo < len(ops); lo += chunk {
		hi := lo + chunk
		if hi > len(ops) {
			hi = len(ops)
		}
		jobs <- job{lo, hi}
	}
	close(jobs)
	var wg sync.WaitGroup
	for k := 0; k < p.n; k++ {
		wg.Add(1)
		go func() {
			defer wg.Done()
			var w *wproc
			defer func() {
				if w != nil {
					w.kill()
				}
			}()
			for j := range jobs {
				i := j.lo
				for i < j.hi {
					if p.skip(ops[i]) {
						res[i] = opResult{dead: "skipped"}
						p.mu.Lock()
						p.skipped++
						p.mu.Unlock()
						i++
						continue
					}
					// stream up to the next op that is to be skipped
					hi := i + 1
					for hi < j.hi && !p.skip(ops[hi]) {
						hi++
					}
					if w == nil {
						var err error
						w, err = startWorker()
						if err != nil {
							res[i] = opResult{dead: "crash", stderr: "cannot start worker: " + err.Error()}
							i++
							continue
						}
					}
					// stream the remaining ops of the chunk
					var sb bytes.Buffer
					for _, o := range ops[i:hi] {
						sb.WriteString(o)
						sb.WriteByte('\n')
					}
					cur := w
					go func(b []byte) { cur.in.Write(b) }(sb.Bytes())
					timer := time.NewTimer(p.timeout)
					broken := false
					for i < hi && !broken {
						if !timer.Stop() {
							select {
							case <-timer.C:
							default:
							}
						}
						timer.Reset(p.timeout)
						select {
						case l, ok := <-w.lines:
							if ok {
								res[i] = opResult{line: l}
								i++
								continue
							}
							// the worker died while executing op i
							w.cmd.Wait()
							first := opResult{dead: classifyDeath(w.errs.String()), stderr: lastLines(w.errs.String(), 12)}
							w.kill()
							w = nil
							p.mu.Lock()
							p.deaths++
							p.mu.Unlock()
							again := p.runAlone(ops[i])
							if again.dead == "" {
								// alone it survives: not attributable to this op (accumulated state) – keep the answer
								p.mu.Lock()
								p.flaky++
								p.mu.Unlock()
								res[i] = again
							} else {
								if again.stderr == "" {
									again.stderr = first.stderr
								}
								res[i] = again
							}
							i++
							broken = true
						case <-timer.C:
							// no answer within the watchdog period: kill the worker and confirm alone with a longer period
							w.kill()
							w = nil
							p.mu.Lock()
							p.deaths++
							p.mu.Unlock()
							again := p.runAloneT(ops[i], 3*p.timeout)
							p.mu.Lock()
							if again.dead == "" {
								p.flaky++
							} else if again.dead == "hang" {
								p.hangs[hangKey(ops[i])]++
							}
							p.mu.Unlock()
							res[i] = again
							i++
							broken = true
						}
					}
					timer.Stop()
				}
			}
		}()
	}
	wg.Wait()
	return res
}
