// Harness for C17: partitioners and the routing decision of topicProducer.partitionMessage.
package main

import (
	"encoding/hex"
	"errors"
	"fmt"
	"hash"
	"hash/fnv"
	"strconv"
	"strings"
	"sync"
	"sync/atomic"
	"time"

	"github.com/Shopify/sarama"
	"verif/harness/hlib"
)

// fixedHash is a hash.Hash32 whose sum is prescribed (so every 32-bit hash value can be reached).
type fixedHash struct{ sum uint32 }

func (f *fixedHash) Write(p []byte) (int, error) { return len(p), nil }
func (f *fixedHash) Sum(b []byte) []byte         { return b }
func (f *fixedHash) Reset()                      {}
func (f *fixedHash) Size() int                   { return 4 }
func (f *fixedHash) BlockSize() int              { return 1 }
func (f *fixedHash) Sum32() uint32               { return f.sum }

var _ hash.Hash32 = &fixedHash{}

type scripted struct {
	choice int32
	err    error
	cons   bool
}

func (s *scripted) Partition(m *sarama.ProducerMessage, n int32) (int32, error) {
	return s.choice, s.err
}
func (s *scripted) RequiresConsistency() bool { return s.cons }

type constPart struct{ c int32 }

func (s *constPart) Partition(m *sarama.ProducerMessage, n int32) (int32, error) { return s.c, nil }
func (s *constPart) RequiresConsistency() bool                                   { return false }

func errCode(e error) int {
	var ke sarama.KError
	if errors.As(e, &ke) {
		return int(ke)
	}
	return 9999
}

var run *hlib.Run

// metaChoice is a partitioner whose choice (index into the offered list) is written in the message's Metadata.
type metaChoice struct{ cons bool }

func (s *metaChoice) Partition(m *sarama.ProducerMessage, n int32) (int32, error) {
	return int32(m.Metadata.(int)), nil
}
func (s *metaChoice) RequiresConsistency() bool { return s.cons }

// doE2E: the routing decision observed end to end.  A real Client and AsyncProducer run against the simulated cluster:
// the topic has np partitions, those of `before` without a leader when the client starts; then leadership changes to
// `after` (same partition count) and the client refreshes THAT topic; then up to three messages are produced through a
// partitioner that picks index ch of whatever list it is offered.  The answer per message is the pm line of the model
// with all = 0..np-1 and writable = partitions that have a leader now (the simulated cluster's truth).
func doE2E(cons bool, np int, before, after []bool, chs []int, retryMax int) []string {
	sim := sarama.VerifNewSim(2, map[string]int32{"t": int32(np)})
	defer sim.Close()
	for p := 0; p < np; p++ {
		if !before[p] {
			sim.SetLeader("t", int32(p), -1)
		}
	}
	cfg := sarama.NewConfig()
	cfg.Version = sarama.V2_0_0_0
	cfg.Producer.Return.Successes = true
	cfg.Producer.Retry.Max = retryMax // a message that cannot be partitioned fails at once, whatever the retry budget
	cfg.Producer.Retry.Backoff = time.Millisecond
	cfg.Metadata.Retry.Max = 0
	cfg.Metadata.Retry.Backoff = time.Millisecond
	cfg.Metadata.RefreshFrequency = 0
	cfg.Producer.Partitioner = func(string) sarama.Partitioner { return &metaChoice{cons: cons} }
	cl, err := sarama.NewClient(sim.Addrs(), cfg)
	if err != nil {
		return []string{"err-newclient " + err.Error()}
	}
	defer cl.Close()
	cl.Partitions("t")
	cl.WritablePartitions("t")
	for p := 0; p < np; p++ {
		l := int32(-1)
		if after[p] {
			l = int32(p%2 + 1)
		}
		sim.SetLeader("t", int32(p), l)
	}
	cl.RefreshMetadata("t") // leaderless partitions make this return an error after updating the cache; either way the cache is current
	pr, err := sarama.NewAsyncProducerFromClient(cl)
	if err != nil {
		return []string{"err-newproducer " + err.Error()}
	}
	var out []string
	for _, ch := range chs {
		pr.Input() <- &sarama.ProducerMessage{Topic: "t", Partition: -7, Metadata: ch, Value: sarama.StringEncoder("v")}
		var m *sarama.ProducerMessage
		var e error
		select {
		case m = <-pr.Successes():
		case pe := <-pr.Errors():
			m, e = pe.Msg, pe.Err
		case <-time.After(8 * time.Second):
			out = append(out, "timeout")
			continue
		}
		switch {
		case m.Partition != -7:
			out = append(out, fmt.Sprintf("sent %d", m.Partition))
		case e == sarama.ErrLeaderNotAvailable:
			out = append(out, "errLeaderNotAvailable")
		case e == sarama.ErrInvalidPartition:
			out = append(out, "errInvalidPartition")
		case e != nil:
			out = append(out, "err-other "+e.Error())
		default:
			out = append(out, "sent-without-partition")
		}
	}
	done := make(chan struct{})
	go func() { pr.Close(); close(done) }()
	select {
	case <-done:
	case <-time.After(8 * time.Second):
		out = append(out, "close-timeout")
	}
	return out
}

// countingHash is a real FNV-1a hasher that counts the Write calls it receives.
type countingHash struct {
	hash.Hash32
	writes *int64
}

func (c *countingHash) Write(p []byte) (int, error) {
	atomic.AddInt64(c.writes, 1)
	return c.Hash32.Write(p)
}

// hasherOwnership: every partitioner a constructor builds has its own hasher ("hash partitioners map equal keys to
// equal partitions" also when several topics are partitioned at the same time: the producer runs one goroutine per topic).
// Deterministic part: n partitioners built from one constructor make n calls to the hash factory, and a Partition call
// on partitioner i writes to hasher i only.  Concurrent part: two partitioners of one constructor used from two
// goroutines give, for a fixed key, the partition the single-threaded call gave.
func hasherOwnership() {
	for _, how := range []string{"NewCustomHashPartitioner", "NewCustomPartitioner+WithCustomHashFunction", "NewReferenceHashPartitioner-like"} {
		var made []*int64
		mk := func() hash.Hash32 {
			w := new(int64)
			made = append(made, w)
			return &countingHash{Hash32: fnv.New32a(), writes: w}
		}
		var ctor sarama.PartitionerConstructor
		switch how {
		case "NewCustomHashPartitioner":
			ctor = sarama.NewCustomHashPartitioner(mk)
		case "NewCustomPartitioner+WithCustomHashFunction":
			ctor = sarama.NewCustomPartitioner(sarama.WithCustomHashFunction(mk))
		default:
			ctor = sarama.NewCustomPartitioner(sarama.WithAbsFirst(), sarama.WithCustomHashFunction(mk))
		}
		const n = 4
		var ps []sarama.Partitioner
		for i := 0; i < n; i++ {
			ps = append(ps, ctor(fmt.Sprintf("topic-%d", i)))
		}
		desc := "hasher-ownership " + how
		run.Count("hasher-ownership")
		if len(made) != n {
			run.IOFail("partitioners-share-a-hasher", desc, fmt.Sprintf("%d partitioners were built with %d calls of the hash function factory", n, len(made)))
			continue
		}
		bad := false
		for i, p := range ps {
			before := make([]int64, n)
			for j := range made {
				before[j] = atomic.LoadInt64(made[j])
			}
			p.Partition(&sarama.ProducerMessage{Topic: "t", Key: sarama.StringEncoder("k")}, 16)
			for j := range made {
				d := atomic.LoadInt64(made[j]) - before[j]
				if (j == i && d == 0) || (j != i && d != 0) {
					bad = true
				}
			}
		}
		if bad {
			run.IOFail("partitioners-share-a-hasher", desc, "a Partition call on one partitioner wrote to another partitioner's hasher")
		}
		// concurrent use of two partitioners of one constructor
		keys := []string{"alpha-key-0123456789", "b"}
		want := make([]int32, 2)
		for i := range keys {
			want[i], _ = ps[i].Partition(&sarama.ProducerMessage{Topic: "t", Key: sarama.StringEncoder(keys[i])}, 97)
		}
		var wrong int64
		var wg sync.WaitGroup
		for i := range keys {
			i := i
			wg.Add(1)
			go func() {
				defer wg.Done()
				for k := 0; k < 30000 && atomic.LoadInt64(&wrong) == 0; k++ {
					c, _ := ps[i].Partition(&sarama.ProducerMessage{Topic: "t", Key: sarama.StringEncoder(keys[i])}, 97)
					if c != want[i] {
						atomic.AddInt64(&wrong, 1)
					}
				}
			}()
		}
		wg.Wait()
		if wrong > 0 {
			run.IOFail("equal-keys-different-partitions-under-concurrency", desc, "two partitioners of one constructor used from two goroutines: a key was mapped to a partition other than its own")
		}
	}
}

func emitE2E(rnd *hlib.Rand) {
	np := rnd.Range(1, 5)
	before, after := make([]bool, np), make([]bool, np)
	var wr []int32
	all := make([]int32, np)
	for p := 0; p < np; p++ {
		all[p] = int32(p)
		before[p] = rnd.Chance(3, 4)
		after[p] = before[p]
		if rnd.Chance(1, 2) {
			after[p] = rnd.Chance(2, 3)
		}
		if after[p] {
			wr = append(wr, int32(p))
		}
	}
	cons := rnd.Bool()
	k := rnd.Range(1, 3)
	chs := make([]int, k)
	for i := range chs {
		chs[i] = rnd.Range(0, np)
		if rnd.Chance(1, 8) {
			chs[i] = -1
		}
	}
	retryMax := rnd.Pick(0, 2, 3)
	desc := fmt.Sprintf("e2e cons=%v np=%d before=%v after=%v choices=%v retryMax=%d", cons, np, before, after, chs, retryMax)
	var outs []string
	run.Safe(desc, func() string { outs = doE2E(cons, np, before, after, chs, retryMax); return "" })
	b := "0"
	if cons {
		b = "1"
	}
	for i, ch := range chs {
		o := "missing"
		if i < len(outs) {
			o = outs[i]
		}
		op := fmt.Sprintf("pm %s %s %s %d", b, hlib.Ints32(all), hlib.Ints32(wr), ch)
		run.Emit(op, o)
		if strings.HasPrefix(o, "sent ") {
			offered := wr
			if cons {
				offered = all
			}
			var got int
			fmt.Sscanf(o, "sent %d", &got)
			if ch < 0 || ch >= len(offered) || int32(got) != offered[ch] {
				run.IOFail("e2e-routed-outside-offered-list", desc, fmt.Sprintf("message %d: %s, offered %v", i, o, offered))
			}
		}
		if strings.HasPrefix(o, "timeout") || strings.HasPrefix(o, "err-other") || o == "missing" {
			run.IOFail("e2e-"+strings.Fields(o)[0], desc, fmt.Sprintf("message %d: %s", i, o))
		}
	}
	run.Count("e2e")
	changed := false
	for p := range before {
		if before[p] != after[p] {
			changed = true
		}
	}
	if changed {
		run.Count("e2e-leadership-changed-before-refresh")
	}
}

func doHash(refAbs bool, h uint32, n int32, how int) string {
	fh := &fixedHash{sum: h}
	mk := func() hash.Hash32 { return fh }
	var p sarama.Partitioner
	if refAbs {
		p = sarama.NewCustomPartitioner(sarama.WithAbsFirst(), sarama.WithCustomHashFunction(mk))("t")
	} else if how == 0 {
		p = sarama.NewCustomHashPartitioner(mk)("t")
	} else {
		p = sarama.NewCustomPartitioner(sarama.WithCustomHashFunction(mk))("t")
	}
	msg := &sarama.ProducerMessage{Topic: "t", Key: sarama.StringEncoder("k")}
	c, err := p.Partition(msg, n)
	if err != nil {
		return "err"
	}
	// property oracle (IO): in range, consistent on a second call
	c2, _ := p.Partition(msg, n)
	in := fmt.Sprintf("hash %v %d %d", refAbs, h, n)
	if c < 0 || c >= n {
		run.IOFail("hash-out-of-range", in, fmt.Sprintf("choice %d", c))
	}
	if c2 != c {
		run.IOFail("hash-inconsistent", in, fmt.Sprintf("%d then %d", c, c2))
	}
	if refAbs {
		if want := int32((int64(h) & 0x7fffffff) % int64(n)); c != want {
			run.IOFail("hash-reference-differs-from-java", in, fmt.Sprintf("got %d want %d", c, want))
		}
	}
	return strconv.Itoa(int(c))
}

// doHashKey: real default hashers (FNV-1a) on real keys, including keys whose encoding is empty.
func doHashKey(refAbs bool, key []byte, kind int, n int32) string {
	var p sarama.Partitioner
	if refAbs {
		p = sarama.NewReferenceHashPartitioner("t")
	} else {
		p = sarama.NewHashPartitioner("t")
	}
	var enc sarama.Encoder
	switch {
	case kind == 0:
		enc = sarama.ByteEncoder(key)
	case kind == 1:
		enc = sarama.StringEncoder(string(key))
	default:
		if len(key) == 0 {
			enc = sarama.ByteEncoder(nil)
		} else {
			enc = sarama.ByteEncoder(key)
		}
	}
	msg := &sarama.ProducerMessage{Topic: "t", Key: enc}
	in := fmt.Sprintf("hk %v %s %d", refAbs, hlib.Hex(key), n)
	c, err := p.Partition(msg, n)
	if err != nil {
		return "err"
	}
	for i := 0; i < 3; i++ {
		c2, _ := p.Partition(msg, n)
		if c2 != c {
			run.IOFail("hash-equal-keys-different-partitions", in, fmt.Sprintf("%d then %d", c, c2))
			break
		}
	}
	h := uint32(2166136261)
	for _, b := range key {
		h ^= uint32(b)
		h *= 16777619
	}
	if refAbs {
		if want := int32((int64(h) & 0x7fffffff) % int64(n)); c != want {
			run.IOFail("hash-reference-differs-from-java", in, fmt.Sprintf("got %d want %d", c, want))
		}
	}
	if c < 0 || c >= n {
		run.IOFail("hash-out-of-range", in, fmt.Sprintf("choice %d", c))
	}
	if dp, ok := p.(sarama.DynamicConsistencyPartitioner); ok && !dp.MessageRequiresConsistency(msg) {
		run.IOFail("keyed-message-not-consistency-requiring", in, "MessageRequiresConsistency = false for a non-nil key")
	}
	return strconv.Itoa(int(c))
}

func doRR(ns []int32) string {
	p := sarama.NewRoundRobinPartitioner("t")
	out := make([]int32, len(ns))
	msg := &sarama.ProducerMessage{Topic: "t"}
	for i, n := range ns {
		c, _ := p.Partition(msg, n)
		out[i] = c
		if c < 0 || c >= n {
			run.IOFail("roundrobin-out-of-range", "rr "+hlib.Ints32(ns), fmt.Sprintf("call %d: %d", i, c))
		}
	}
	// cycle oracle on runs of constant n
	for i := 1; i < len(ns); i++ {
		if ns[i] == ns[i-1] && out[i] != (out[i-1]+1)%ns[i] {
			run.IOFail("roundrobin-not-cyclic", "rr "+hlib.Ints32(ns), fmt.Sprintf("call %d: %d after %d", i, out[i], out[i-1]))
		}
	}
	return hlib.Ints32(out)
}

func parseExceptList(s string) ([]int32, error) {
	if strings.HasPrefix(s, "E") {
		return nil, sarama.KError(hlib.Atoi(s[1:]))
	}
	return hlib.ParseInts32(s), nil
}

func doPM(reqCons bool, all, wr, ch string) string {
	cl := &sarama.VerifFakeClient{}
	cl.All, cl.AllErr = parseExceptList(all)
	cl.Writable, cl.WritableErr = parseExceptList(wr)
	sp := &scripted{cons: reqCons}
	if strings.HasPrefix(ch, "E") {
		sp.err = sarama.KError(hlib.Atoi(ch[1:]))
	} else {
		sp.choice = int32(hlib.Atoi(ch))
	}
	msg := &sarama.ProducerMessage{Topic: "t", Partition: -7}
	err := sarama.VerifPartitionMessage(sp, cl, msg)
	in := fmt.Sprintf("pm %v %s %s %s", reqCons, all, wr, ch)
	offered := cl.Writable
	offErr := cl.WritableErr
	if reqCons {
		offered, offErr = cl.All, cl.AllErr
	}
	if err == nil {
		// oracle: the reported partition is the one the partitioner chose among the offered ones
		if offErr != nil || sp.err != nil || sp.choice < 0 || int(sp.choice) >= len(offered) || msg.Partition != offered[sp.choice] {
			run.IOFail("routed-despite-invalid-choice", in, fmt.Sprintf("partition %d", msg.Partition))
		}
		return fmt.Sprintf("sent %d", msg.Partition)
	}
	if msg.Partition != -7 {
		run.IOFail("failed-partitioning-changed-partition", in, fmt.Sprintf("partition %d", msg.Partition))
	}
	switch {
	case offErr != nil && err == offErr:
		return fmt.Sprintf("errClient %d", errCode(err))
	case sp.err != nil && err == sp.err:
		return fmt.Sprintf("errPartitioner %d", errCode(err))
	case err == sarama.ErrLeaderNotAvailable:
		return "errLeaderNotAvailable"
	case err == sarama.ErrInvalidPartition:
		return "errInvalidPartition"
	}
	return "err-other " + err.Error()
}

// doFallback: keyless message through NewCustomPartitioner(WithCustomFallbackPartitioner(fb)).
// Answers "ok <choice>" or "diverges" (the call did not return: infinite recursion overflows the stack,
// which kills the process - so it is probed in a goroutine with a small stack budget via recover-less timeout).
func doFallback(n, a int32) string {
	res := make(chan string, 1)
	go func() {
		defer func() {
			if r := recover(); r != nil {
				res <- "panic"
			}
		}()
		res <- sarama.VerifFallbackProbe(n, &constPart{c: a})
	}()
	select {
	case s := <-res:
		return s
	case <-time.After(5 * time.Second):
		return "diverges"
	}
}

func hexDecode(s string) ([]byte, error) {
	if s == "-" {
		return nil, nil
	}
	return hex.DecodeString(s)
}

func main() {
	run = hlib.Start("C17")
	rnd := hlib.NewRand(run.Seed)
	if lines := run.ReplayLines(); lines != nil {
		for _, l := range lines {
			replayLine(l)
		}
		run.Finish("replay")
		return
	}
	n := run.N
	if n == 0 {
		n = 20000
		if run.Tier == "thorough" {
			n = 2000000
		}
	}
	edgeH := []uint32{0, 1, 0x7fffffff, 0x80000000, 0x80000001, 0xffffffff, 0xfffffffe, 0x40000000, 0xc0000000}
	edgeN := []int32{1, 2, 3, 7, 10, 16, 1000, 0x7fffffff, 0x7ffffffe, 0x40000000, 0x40000001}
	// exhaustive edge grid first
	for _, h := range edgeH {
		for _, nn := range edgeN {
			for _, ra := range []bool{false, true} {
				emitHash(ra, h, nn, 0)
			}
		}
	}
	for i := 0; i < n; i++ {
		if i%250 == 125 && i < 100000 {
			emitE2E(rnd)
			continue
		}
		switch rnd.Intn(10) {
		case 0, 1, 2, 3:
			h := uint32(rnd.U64())
			if rnd.Chance(1, 4) {
				h = edgeH[rnd.Intn(len(edgeH))] + uint32(rnd.Intn(3)) - 1
			}
			var nn int32
			switch rnd.Intn(3) {
			case 0:
				nn = int32(rnd.Range(1, 64))
			case 1:
				nn = int32(rnd.U64()%0x7fffffff) + 1
			default:
				nn = edgeN[rnd.Intn(len(edgeN))]
			}
			emitHash(rnd.Bool(), h, nn, rnd.Intn(2))
		case 4:
			kl := rnd.Pick(0, 0, 1, 2, 5, 16)
			key := make([]byte, kl)
			for j := range key {
				key[j] = byte(rnd.Intn(256))
			}
			nn := int32(rnd.Range(1, 64))
			if rnd.Chance(1, 4) {
				nn = int32(rnd.U64()%0x7fffffff) + 1
			}
			emitHashKey(rnd.Bool(), key, rnd.Intn(3), nn)
		case 5:
			k := rnd.Range(1, 24)
			ns := make([]int32, k)
			cur := int32(rnd.Range(1, 6))
			for j := range ns {
				if rnd.Chance(1, 5) {
					cur = int32(rnd.Range(1, 8))
				}
				if rnd.Chance(1, 50) {
					cur = 0x7fffffff
				}
				ns[j] = cur
			}
			op := "rr " + hlib.Ints32(ns)
			run.Emit(op, run.Safe(op, func() string { return doRR(ns) }))
			run.Count("rr")
			run.Nontrivial(op)
		default:
			np := rnd.Range(0, 6)
			all := make([]int32, np)
			for j := range all {
				all[j] = int32(j * rnd.Range(1, 3))
			}
			var wr []int32
			for _, p := range all {
				if rnd.Chance(2, 3) {
					wr = append(wr, p)
				}
			}
			as, ws := hlib.Ints32(all), hlib.Ints32(wr)
			if rnd.Chance(1, 12) {
				as = fmt.Sprintf("E%d", rnd.Pick(3, 5, 7))
			}
			if rnd.Chance(1, 12) {
				ws = fmt.Sprintf("E%d", rnd.Pick(3, 5, 7))
			}
			ch := strconv.Itoa(rnd.Range(-2, 7))
			if rnd.Chance(1, 10) {
				ch = fmt.Sprintf("E%d", rnd.Pick(2, 10, 87))
			}
			rc := rnd.Bool()
			emitPM(rc, as, ws, ch)
		}
	}
	hasherOwnership()
	// custom fallback option (one probe per run: a diverging call costs a 5 s timeout)
	{
		op := "fb variant 4 0 2"
		out := doFallback(4, 2)
		run.Set("fallback_probe", out)
		// the model has both variants; the harness reports which one the code matches
		variant := "other"
		if out == "ok 2" {
			variant = "arg"
		} else if out == "diverges" {
			variant = "self"
		}
		run.Emit(strings.Replace(op, "variant", variant, 1), out)
		if out != "ok 2" {
			run.IOFail("custom-fallback-not-used", "NewCustomPartitioner(WithCustomFallbackPartitioner(const 2)) keyless message, 4 partitions", out)
		}
	}
	run.Finish("hash: (refAbs,h,n) with edge hashes (0x80000000, 0xffffffff, ...) x edge counts exhaustively, then random; rr: random count sequences; pm: random offered lists/choices/errors. non-trivial = distinct op line whose answer is a partition (not an error row)")
}

func emitHash(ra bool, h uint32, nn int32, how int) {
	b := "0"
	if ra {
		b = "1"
	}
	op := fmt.Sprintf("hash %s %d %d", b, h, nn)
	run.Emit(op, run.Safe(op, func() string { return doHash(ra, h, nn, how) }))
	run.Count("hash")
	if h >= 0x80000000 {
		run.Count("hash-negative")
	}
	run.Nontrivial(op)
}

func emitHashKey(ra bool, key []byte, kind int, nn int32) {
	b := "0"
	if ra {
		b = "1"
	}
	op := fmt.Sprintf("hk %s %s %d", b, hlib.Hex(key), nn)
	run.Emit(op, run.Safe(op, func() string { return doHashKey(ra, key, kind, nn) }))
	run.Count("hash-key")
	if len(key) == 0 {
		run.Count("hash-key-empty-encoding")
	}
	run.Nontrivial(op)
}

func emitPM(rc bool, as, ws, ch string) {
	b := "0"
	if rc {
		b = "1"
	}
	op := fmt.Sprintf("pm %s %s %s %s", b, as, ws, ch)
	out := run.Safe(op, func() string { return doPM(rc, as, ws, ch) })
	run.Emit(op, out)
	run.Count("pm-" + strings.Fields(out)[0])
	if strings.HasPrefix(out, "sent") {
		run.Nontrivial(op)
	}
}

func replayLine(l string) {
	t := strings.Fields(l)
	switch t[0] {
	case "hash":
		h, _ := strconv.ParseUint(t[2], 10, 32)
		emitHash(t[1] == "1", uint32(h), int32(hlib.Atoi(t[3])), 0)
	case "hk":
		key, _ := hexDecode(t[2])
		emitHashKey(t[1] == "1", key, 0, int32(hlib.Atoi(t[3])))
	case "rr":
		ns := hlib.ParseInts32(t[1])
		run.Emit(l, doRR(ns))
	case "pm":
		emitPM(t[1] == "1", t[2], t[3], t[4])
	case "fb":
		run.Emit(l, doFallback(int32(hlib.Atoi(t[2])), int32(hlib.Atoi(t[4]))))
	case "hasher-ownership":
		hasherOwnership()
	}
}
