package main

import (
	"encoding/binary"
	"encoding/hex"
	"io"
	"net"
	"strconv"
	"strings"
	"sync"
	"time"

	"github.com/Shopify/sarama"
	"verif/harness/hlib"
)

// srvReq is one request as the server saw it.
type srvReq struct {
	idx    int
	key    int16
	cid    int32
	token  int
	hv     int
	expect bool
}

type frameInfo struct {
	body  []byte   // body the server put after the header
	cid   int32    // correlation id in the header
	token int      // token in the body (-1: not derived from a request)
	marks [][]byte // the raw byte fields of the body (responses with byte fields), in extraction order
}

// transport of the server side
type srvIO struct {
	send       func(b []byte) // logs S, then sends
	closeWrite func()         // logs X, then closes the sending direction
	reader     io.Reader
	shutdown   func()
}

type server struct {
	lg      *caseLog
	io      srvIO
	maxResp int32
	maxOpen int
	callers int
	rtMs    int
	rng     *hlib.Rand

	mu       sync.Mutex
	pending  []srvReq
	received int
	eof      bool
	lastCid  int32
	haveCid  bool

	fmu       sync.Mutex
	frames    []frameInfo // by serial-1 (guarded by fmu)
	faulted   bool
	maxOnWire int // measured at hold steps before any fault
	holds     int
	stopped   chan struct{}
}

func be32(v int32) []byte { b := make([]byte, 4); binary.BigEndian.PutUint32(b, uint32(v)); return b }
func be16(v int16) []byte { b := make([]byte, 2); binary.BigEndian.PutUint16(b, uint16(v)); return b }

func (s *server) readLoop() {
	defer func() {
		s.mu.Lock()
		s.eof = true
		s.mu.Unlock()
	}()
	for {
		lb := make([]byte, 4)
		if _, err := io.ReadFull(s.io.reader, lb); err != nil {
			return
		}
		n := int(binary.BigEndian.Uint32(lb))
		if n < 10 || n > 1<<20 {
			return
		}
		rest := make([]byte, n)
		if _, err := io.ReadFull(s.io.reader, rest); err != nil {
			return
		}
		key, _, cid, token, ok := parseRequest(append(lb, rest...))
		if !ok {
			continue
		}
		hv := 0
		if key == 46 {
			hv = 1
		}
		s.mu.Lock()
		r := srvReq{idx: s.received, key: key, cid: cid, token: token, hv: hv, expect: key != 0}
		s.received++
		s.lastCid, s.haveCid = cid, true
		if r.expect {
			s.pending = append(s.pending, r)
		}
		s.mu.Unlock()
	}
}

// next pops the oldest unanswered request; false when the client is gone (or nothing arrives for 4 s).
func (s *server) next() (srvReq, bool) {
	deadline := time.Now().Add(4 * time.Second)
	for {
		s.mu.Lock()
		if len(s.pending) > 0 {
			r := s.pending[0]
			s.pending = s.pending[1:]
			s.mu.Unlock()
			return r, true
		}
		gone := s.eof
		s.mu.Unlock()
		if gone || time.Now().After(deadline) {
			return srvReq{}, false
		}
		time.Sleep(100 * time.Microsecond)
	}
}

func (s *server) body(key int16, token, serial int) ([]byte, [][]byte) {
	var b []byte
	var marks [][]byte
	switch key {
	case 3: // MetadataResponse v0: brokers [ (id, host, port) ], topics []
		b = append(b, be32(1)...)
		b = append(b, be32(int32(token))...)
		b = append(b, be16(1)...)
		b = append(b, 'h')
		b = append(b, be32(int32(serial))...)
		b = append(b, be32(0)...)
	case 10: // FindCoordinatorResponse v0: err, coordinator (id, host, port)
		b = append(b, be16(0)...)
		b = append(b, be32(int32(token))...)
		b = append(b, be16(1)...)
		b = append(b, 'h')
		b = append(b, be32(int32(serial))...)
	case 46: // ListPartitionReassignmentsResponse v0: throttle, err, null message, no topics, no tags
		b = append(b, be32(int32(token))...)
		b = append(b, be16(int16(serial))...)
		b = append(b, 0, 1, 0)
	case 1: // FetchResponse v0, one uncompressed message whose key and value are markers
		k, v := marker(token, serial, 'k', 24), marker(token, serial, 'v', 64)
		r := &sarama.FetchResponse{}
		r.AddMessage("t", 0, sarama.ByteEncoder(k), sarama.ByteEncoder(v), int64(serial))
		b, marks = mustEncode(r), [][]byte{k, v}
	case 11: // JoinGroupResponse v0, member metadata is a marker
		m := marker(token, serial, 'j', 48)
		r := &sarama.JoinGroupResponse{GenerationId: int32(token), GroupProtocol: "p", LeaderId: "l", MemberId: "m",
			Members: map[string][]byte{"m": m}}
		b, marks = mustEncode(r), [][]byte{m}
	case 14: // SyncGroupResponse v0, the assignment is a marker
		m := marker(token, serial, 's', 40)
		b, marks = mustEncode(&sarama.SyncGroupResponse{MemberAssignment: m}), [][]byte{m}
	case 15: // DescribeGroupsResponse v0, member metadata and assignment are markers
		m1, m2 := marker(token, serial, 'd', 32), marker(token, serial, 'a', 56)
		r := &sarama.DescribeGroupsResponse{Groups: []*sarama.GroupDescription{{GroupId: "d", State: "s", ProtocolType: "c",
			Protocol: "p", Members: map[string]*sarama.GroupMemberDescription{"m": {ClientId: "c", ClientHost: "h",
				MemberMetadata: m1, MemberAssignment: m2}}}}}
		b, marks = mustEncode(r), [][]byte{m1, m2}
	}
	return b, marks
}

// marker is a byte field that names the request it answers: "M|<token>|<serial>|<kind>|" padded to n bytes.
func marker(token, serial int, kind byte, n int) []byte {
	m := []byte("M|" + strconv.Itoa(token) + "|" + strconv.Itoa(serial) + "|" + string(kind) + "|")
	for i := 0; len(m) < n; i++ {
		m = append(m, byte('a'+(serial+i)%26))
	}
	return m
}

func mustEncode(v interface{}) []byte {
	b, err := sarama.VerifEncode(v)
	if err != nil {
		panic(err)
	}
	return b
}

// mkFrame builds a well-formed frame for request kind `key`/header version hv with the given header id.
func (s *server) mkFrame(key int16, hv int, cid int32, token int) []byte {
	s.fmu.Lock()
	serial := len(s.frames) + 1
	body, marks := s.body(key, token, serial)
	s.frames = append(s.frames, frameInfo{body: body, cid: cid, token: token, marks: marks})
	s.fmu.Unlock()
	n := 4 + len(body)
	if hv >= 1 {
		n++
	}
	f := append(be32(int32(n)), be32(cid)...)
	if hv >= 1 {
		f = append(f, 0)
	}
	return append(f, body...)
}

// frame returns the record of the frame with the given serial number.
func (s *server) frame(serial int) (frameInfo, bool) {
	s.fmu.Lock()
	defer s.fmu.Unlock()
	if serial < 1 || serial > len(s.frames) {
		return frameInfo{}, false
	}
	return s.frames[serial-1], true
}

func (s *server) nFrames() int {
	s.fmu.Lock()
	defer s.fmu.Unlock()
	return len(s.frames)
}

func hlen(hv int) int {
	if hv >= 1 {
		return 9
	}
	return 8
}

func argOf(step, name string, def int) int {
	if len(step) > len(name) {
		if v, err := strconv.Atoi(strings.TrimRight(step[len(name):], "cs")); err == nil {
			return v
		}
	}
	return def
}

func isFaultStep(st string) bool {
	for _, p := range []string{"ok", "okd", "split", "hold", "slow"} {
		if st == p || (strings.HasPrefix(st, p) && len(st) > len(p) && st[len(p)] >= '0' && st[len(p)] <= '9') {
			return false
		}
	}
	return true
}

// exec runs one script step; false = the script is over (terminal step or client gone).
func (s *server) exec(st string) bool {
	if isFaultStep(st) {
		s.faulted = true
	}
	switch {
	case st == "ok":
		r, ok := s.next()
		if !ok {
			return false
		}
		s.io.send(s.mkFrame(r.key, r.hv, r.cid, r.token))
	case strings.HasPrefix(st, "okd"):
		r, ok := s.next()
		if !ok {
			return false
		}
		time.Sleep(time.Duration(argOf(st, "okd", 1)) * time.Millisecond)
		s.io.send(s.mkFrame(r.key, r.hv, r.cid, r.token))
	case strings.HasPrefix(st, "slow"):
		// slow but alive: the answer comes after <arg> percent of Net.ReadTimeout
		r, ok := s.next()
		if !ok {
			return false
		}
		time.Sleep(time.Duration(argOf(st, "slow", 75)*s.rtMs) * time.Millisecond / 100)
		s.io.send(s.mkFrame(r.key, r.hv, r.cid, r.token))
	case strings.HasPrefix(st, "split"):
		r, ok := s.next()
		if !ok {
			return false
		}
		f := s.mkFrame(r.key, r.hv, r.cid, r.token)
		k := argOf(st, "split", 2)
		for i := 0; i < k && len(f) > 0; i++ {
			n := len(f)
			if i < k-1 {
				n = 1 + s.rng.Intn(len(f))
			}
			s.io.send(f[:n])
			f = f[n:]
			time.Sleep(300 * time.Microsecond)
		}
		if len(f) > 0 {
			s.io.send(f)
		}
	case strings.HasPrefix(st, "hold"):
		want := s.maxOpen + 1
		if s.callers < want {
			want = s.callers
		}
		deadline := time.Now().Add(80 * time.Millisecond)
		for {
			s.mu.Lock()
			n, gone := len(s.pending), s.eof
			s.mu.Unlock()
			if n >= want || gone || time.Now().After(deadline) {
				break
			}
			time.Sleep(200 * time.Microsecond)
		}
		time.Sleep(15 * time.Millisecond) // would a further request still arrive?
		s.mu.Lock()
		n := len(s.pending)
		s.mu.Unlock()
		s.lg.mu.Lock()
		clean := s.lg.nT == 0 && s.lg.nX == 0
		s.lg.mu.Unlock()
		if clean && !s.faulted {
			s.holds++
			if n > s.maxOnWire {
				s.maxOnWire = n
			}
		}
	case st == "swap":
		a, ok := s.next()
		if !ok {
			return false
		}
		b, ok := s.next()
		if !ok {
			// only one request will ever come: answer it normally
			s.io.send(s.mkFrame(a.key, a.hv, a.cid, a.token))
			return false
		}
		s.io.send(s.mkFrame(b.key, b.hv, b.cid, b.token))
		s.io.send(s.mkFrame(a.key, a.hv, a.cid, a.token))
	case strings.HasPrefix(st, "wrongcid"):
		r, ok := s.next()
		if !ok {
			return false
		}
		d := int32(argOf(st, "wrongcid", 1))
		if strings.HasSuffix(st, "-") {
			d = -d
		}
		s.io.send(s.mkFrame(r.key, r.hv, r.cid+d, r.token))
	case strings.HasPrefix(st, "trunch"), strings.HasPrefix(st, "truncb"):
		r, ok := s.next()
		if !ok {
			return false
		}
		f := s.mkFrame(r.key, r.hv, r.cid, r.token)
		k := argOf(st, st[:6], 3)
		cut := k
		if strings.HasPrefix(st, "trunch") {
			if cut >= hlen(r.hv) {
				cut = hlen(r.hv) - 1
			}
		} else {
			cut = hlen(r.hv) + k
			if cut >= len(f) {
				cut = len(f) - 1
			}
		}
		if cut > 0 {
			s.io.send(f[:cut])
		}
		if strings.HasSuffix(st, "c") {
			s.io.closeWrite()
		}
		return false
	case st == "big", st == "neglen", st == "minlen", strings.HasPrefix(st, "tiny"):
		r, ok := s.next()
		if !ok {
			return false
		}
		var l int32
		switch {
		case st == "big":
			l = s.maxResp + 1
		case st == "neglen":
			l = -1
		case st == "minlen":
			l = -2147483648
		default:
			l = int32(argOf(st, "tiny", 4))
		}
		f := append(be32(l), be32(r.cid)...)
		if r.hv >= 1 {
			f = append(f, 0)
		}
		s.io.send(f)
	case strings.HasPrefix(st, "badtag"):
		r, ok := s.next()
		if !ok {
			return false
		}
		f := s.mkFrame(r.key, r.hv, r.cid, r.token)
		if r.hv >= 1 {
			f[8] = byte(argOf(st, "badtag", 1))
		}
		s.io.send(f)
	case strings.HasPrefix(st, "short"), strings.HasPrefix(st, "long"):
		r, ok := s.next()
		if !ok {
			return false
		}
		f := s.mkFrame(r.key, r.hv, r.cid, r.token)
		if r.hv == 0 { // body faults only on requests whose body errors are distinguishable from header errors
			l := int32(binary.BigEndian.Uint32(f))
			if strings.HasPrefix(st, "short") {
				l -= int32(argOf(st, "short", 1))
				if l < 5 {
					l = 5
				}
			} else {
				l += int32(argOf(st, "long", 1))
			}
			binary.BigEndian.PutUint32(f, uint32(l))
		}
		s.io.send(f)
	case strings.HasPrefix(st, "junk"):
		if _, ok := s.next(); !ok {
			return false
		}
		n := argOf(st, "junk", 5)
		b := make([]byte, n)
		for i := range b {
			b[i] = byte(s.rng.Intn(256))
		}
		s.io.send(b)
	case st == "unsol":
		// a frame for the id the next request will carry, sent before that request exists
		s.mu.Lock()
		cid, have := s.lastCid+1, s.haveCid
		s.mu.Unlock()
		if !have {
			return true
		}
		s.io.send(s.mkFrame(3, 0, cid, -1))
		// the request that this frame answers must not be answered again
		if _, ok := s.next(); !ok {
			return false
		}
	case st == "close":
		s.io.closeWrite()
		return false
	case st == "silence":
		return false
	default:
		panic("unknown script step " + st)
	}
	return true
}

func (s *server) run(script []string, thenAnswerAll bool) {
	defer close(s.stopped)
	go s.readLoop()
	for _, st := range script {
		if !s.exec(st) {
			thenAnswerAll = thenAnswerAll && !isTerminal(st)
			if !thenAnswerAll {
				return
			}
			break
		}
	}
	for thenAnswerAll {
		if !s.exec("ok") {
			return
		}
	}
}

func isTerminal(st string) bool {
	return st == "close" || st == "silence" || strings.HasPrefix(st, "trunc")
}

// ---------------------------------------------------------------------------------------------------

func memServerIO(lg *caseLog, srv *memConn) srvIO {
	return srvIO{
		send: func(b []byte) {
			if len(b) == 0 {
				return
			}
			srv.wr.put(b, func() {
				if !srv.wr.wclosed {
					lg.add("S "+hex.EncodeToString(b), "ok")
				}
			})
		},
		closeWrite: func() {
			srv.wr.closeWrite(func() {
				lg.mu.Lock()
				lg.lines = append(lg.lines, [2]string{"X", "ok"})
				lg.nX++
				lg.mu.Unlock()
			})
		},
		reader:   srv,
		shutdown: func() { srv.Close() },
	}
}

func tcpServerIO(lg *caseLog, c net.Conn) srvIO {
	var mu sync.Mutex
	closed := false
	return srvIO{
		send: func(b []byte) {
			if len(b) == 0 {
				return
			}
			mu.Lock()
			defer mu.Unlock()
			if closed {
				return
			}
			lg.add("S "+hex.EncodeToString(b), "ok")
			_, _ = c.Write(b)
		},
		closeWrite: func() {
			mu.Lock()
			defer mu.Unlock()
			if closed {
				return
			}
			closed = true
			lg.mu.Lock()
			lg.lines = append(lg.lines, [2]string{"X", "ok"})
			lg.nX++
			lg.mu.Unlock()
			if tc, ok := c.(*net.TCPConn); ok {
				_ = tc.CloseWrite()
			}
		},
		reader:   c,
		shutdown: func() { c.Close() },
	}
}
