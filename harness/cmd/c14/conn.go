package main

import (
	"encoding/binary"
	"encoding/hex"
	"fmt"
	"io"
	"net"
	"os"
	"sync"
	"time"
)

// caseLog is the totally ordered list of observed events of one connection (one case).
type caseLog struct {
	mu     sync.Mutex
	lines  [][2]string // op line, observed answer
	wrote  map[int]wreq
	nW     int
	nT     int
	nX     int
	wcond  *sync.Cond
	faults int // T or X events so far
	// injected write failures: the attempts (0-based, counted over all client writes) that fail with 0 bytes
	// written while the connection stays usable; tokens of the calls whose write was failed
	failAt   map[int]bool
	attempts int
	failed   map[int]bool
}

type wreq struct {
	idx    int // wire index
	cid    int32
	hv     int
	expect bool
	key    int16
}

func newCaseLog() *caseLog {
	l := &caseLog{wrote: map[int]wreq{}, failAt: map[int]bool{}, failed: map[int]bool{}}
	l.wcond = sync.NewCond(&l.mu)
	return l
}

func (l *caseLog) add(op, ans string) {
	l.mu.Lock()
	l.lines = append(l.lines, [2]string{op, ans})
	l.mu.Unlock()
}

// parseRequest reads the header of an encoded request frame: key, version, correlation id, token.
func parseRequest(b []byte) (key, ver int16, cid int32, token int, ok bool) {
	if len(b) < 14 {
		return
	}
	key = int16(binary.BigEndian.Uint16(b[4:]))
	ver = int16(binary.BigEndian.Uint16(b[6:]))
	cid = int32(binary.BigEndian.Uint32(b[8:]))
	cl := int(int16(binary.BigEndian.Uint16(b[12:])))
	off := 14
	if cl > 0 {
		off += cl
	}
	if key == 46 { // request header v2: empty tagged-field array
		off++
	}
	if off > len(b) {
		return
	}
	body := b[off:]
	token = -1
	switch key {
	case 3, 15: // MetadataRequest v0 / DescribeGroupsRequest v0: array of names, first is "t<token>" / "d<token>"
		if len(body) >= 6 {
			n := int(binary.BigEndian.Uint16(body[4:]))
			if 6+n <= len(body) && n >= 2 {
				fmt.Sscanf(string(body[7:6+n]), "%d", &token)
			}
		}
	case 1: // FetchRequest v0: replica id, MaxWaitTime = token
		if len(body) >= 8 {
			token = int(int32(binary.BigEndian.Uint32(body[4:])))
		}
	case 11, 14: // JoinGroupRequest v0 / SyncGroupRequest v0: group id, then SessionTimeout / GenerationId = token
		if len(body) >= 2 {
			n := int(binary.BigEndian.Uint16(body))
			if 2+n+4 <= len(body) {
				token = int(int32(binary.BigEndian.Uint32(body[2+n:])))
			}
		}
	case 10: // FindCoordinatorRequest v0: key "k<token>"
		if len(body) >= 2 {
			n := int(binary.BigEndian.Uint16(body))
			if 2+n <= len(body) {
				fmt.Sscanf(string(body[2:2+n]), "k%d", &token)
			}
		}
	case 46: // ListPartitionReassignmentsRequest: TimeoutMs = token
		if len(body) >= 4 {
			token = int(int32(binary.BigEndian.Uint32(body)))
		}
	case 0: // ProduceRequest v0: acks, timeout = token
		if len(body) >= 6 {
			token = int(int32(binary.BigEndian.Uint32(body[2:])))
		}
	}
	ok = token >= 0
	return
}

// logWrite is called by the client side of the connection with the bytes of one conn.Write (= one request).
func (l *caseLog) logWrite(b []byte) error {
	key, _, cid, token, ok := parseRequest(b)
	l.mu.Lock()
	defer l.mu.Unlock()
	n := l.attempts
	l.attempts++
	if l.failAt[n] {
		// nothing reaches the wire, nothing is logged: the model's rule for a failed send is "no promise, id not advanced"
		l.failed[token] = true
		hv, ex := 0, 1
		if key == 46 {
			hv = 1
		}
		if key == 0 {
			ex = 0
		}
		l.lines = append(l.lines, [2]string{fmt.Sprintf("WF %d %d %d", token, hv, ex), "ok"})
		return &net.OpError{Op: "write", Net: "mem", Err: errInjectedWrite}
	}
	if !ok {
		l.lines = append(l.lines, [2]string{"W ? unparsable " + hex.EncodeToString(b), "ok"})
		return nil
	}
	hv := 0
	if key == 46 {
		hv = 1
	}
	expect := key != 0
	l.wrote[token] = wreq{idx: l.nW, cid: cid, hv: hv, expect: expect, key: key}
	l.nW++
	ex := 0
	if expect {
		ex = 1
	}
	l.lines = append(l.lines, [2]string{fmt.Sprintf("W %d %d %d %d", token, cid, hv, ex), "ok"})
	l.wcond.Broadcast()
	return nil
}

var errInjectedWrite = fmt.Errorf("injected write failure, 0 bytes written")

func (l *caseLog) waitWrites(n int, d time.Duration) {
	deadline := time.Now().Add(d)
	l.mu.Lock()
	for l.nW < n && time.Now().Before(deadline) {
		l.mu.Unlock()
		time.Sleep(200 * time.Microsecond)
		l.mu.Lock()
	}
	l.mu.Unlock()
}

// ---------------------------------------------------------------------------------------------------
// in-memory connection with exact event logging: unbounded buffers, deadlines, EOF after drain

type half struct {
	mu      sync.Mutex
	buf     []byte
	wclosed bool
	rclosed bool
	wake    chan struct{}
}

func newHalf() *half { return &half{wake: make(chan struct{}, 1)} }

func (h *half) ping() {
	select {
	case h.wake <- struct{}{}:
	default:
	}
}

// put appends bytes; pre runs inside the critical section (event logging).
func (h *half) put(b []byte, pre func()) {
	h.mu.Lock()
	if pre != nil {
		pre()
	}
	if !h.wclosed && !h.rclosed {
		h.buf = append(h.buf, b...)
	}
	h.mu.Unlock()
	h.ping()
}

func (h *half) closeWrite(pre func()) {
	h.mu.Lock()
	if pre != nil && !h.wclosed {
		pre()
	}
	h.wclosed = true
	h.mu.Unlock()
	h.ping()
}

type timeoutErr struct{}

func (timeoutErr) Error() string   { return "i/o timeout (memconn)" }
func (timeoutErr) Timeout() bool   { return true }
func (timeoutErr) Temporary() bool { return true }
func (timeoutErr) Is(target error) bool {
	return target == os.ErrDeadlineExceeded
}

type memAddr struct{}

func (memAddr) Network() string { return "mem" }
func (memAddr) String() string  { return "mem" }

type memConn struct {
	rd, wr    *half
	dmu       sync.Mutex
	rdl       time.Time
	onWrite   func([]byte) error
	onTimeout func()
}

func memPair() (client, server *memConn) {
	c2s, s2c := newHalf(), newHalf()
	return &memConn{rd: s2c, wr: c2s}, &memConn{rd: c2s, wr: s2c}
}

func (c *memConn) Read(p []byte) (int, error) {
	for {
		c.dmu.Lock()
		dl := c.rdl
		c.dmu.Unlock()
		h := c.rd
		h.mu.Lock()
		if h.rclosed {
			h.mu.Unlock()
			return 0, io.ErrClosedPipe
		}
		if len(h.buf) > 0 {
			n := copy(p, h.buf)
			h.buf = h.buf[n:]
			h.mu.Unlock()
			return n, nil
		}
		if h.wclosed {
			h.mu.Unlock()
			return 0, io.EOF
		}
		if !dl.IsZero() && !time.Now().Before(dl) {
			if c.onTimeout != nil {
				c.onTimeout()
			}
			h.mu.Unlock()
			return 0, timeoutErr{}
		}
		h.mu.Unlock()
		if dl.IsZero() {
			<-h.wake
		} else {
			t := time.NewTimer(time.Until(dl))
			select {
			case <-h.wake:
			case <-t.C:
			}
			t.Stop()
		}
	}
}

func (c *memConn) Write(p []byte) (int, error) {
	h := c.wr
	h.mu.Lock()
	if h.wclosed {
		h.mu.Unlock()
		return 0, io.ErrClosedPipe
	}
	h.mu.Unlock()
	if c.onWrite != nil {
		if err := c.onWrite(p); err != nil {
			return 0, err
		}
	}
	h.put(p, nil)
	return len(p), nil
}

func (c *memConn) Close() error {
	c.wr.closeWrite(nil)
	c.rd.mu.Lock()
	c.rd.rclosed = true
	c.rd.buf = nil
	c.rd.mu.Unlock()
	c.rd.ping()
	return nil
}

func (c *memConn) LocalAddr() net.Addr  { return memAddr{} }
func (c *memConn) RemoteAddr() net.Addr { return memAddr{} }
func (c *memConn) SetDeadline(t time.Time) error {
	_ = c.SetReadDeadline(t)
	return nil
}
func (c *memConn) SetReadDeadline(t time.Time) error {
	c.dmu.Lock()
	c.rdl = t
	c.dmu.Unlock()
	c.rd.ping()
	return nil
}
func (c *memConn) SetWriteDeadline(t time.Time) error { return nil }

// ---------------------------------------------------------------------------------------------------
// TCP: the client end is wrapped so that writes (and read time-outs) are logged at the client

type tcpClient struct {
	net.Conn
	lg *caseLog
}

func (c *tcpClient) Write(p []byte) (int, error) {
	if err := c.lg.logWrite(p); err != nil {
		return 0, err
	}
	return c.Conn.Write(p)
}

func (c *tcpClient) Read(p []byte) (int, error) {
	n, err := c.Conn.Read(p)
	if ne, ok := err.(net.Error); ok && ne.Timeout() {
		c.lg.mu.Lock()
		c.lg.lines = append(c.lg.lines, [2]string{"T", "ok"})
		c.lg.nT++
		c.lg.mu.Unlock()
	}
	return n, err
}

// dialer hands the prepared client connection to sarama (conf.Net.Proxy.Dialer).
type fixedDialer struct {
	dial func() (net.Conn, error)
}

func (d *fixedDialer) Dial(network, addr string) (net.Conn, error) { return d.dial() }
