// Harness for C14: many goroutines issue real requests on ONE sarama.Broker connection against a scripted
// server (in-memory connection handed to sarama through conf.Net.Proxy.Dialer, or TCP on 127.0.0.1).
// Every client write, server send, server close, read time-out, call return and Close is logged in one total
// order; the log is (a) judged by the property oracle below and (b) replayed through the Lean model's `step`
// by the driver svdrv_c14 (a rejected event or a different call outcome = correspondence failure).
package main

import (
	"bytes"
	"encoding/hex"
	"errors"
	"fmt"
	"io"
	"net"
	"os"
	"os/exec"
	"path/filepath"
	"sort"
	"strconv"
	"strings"
	"sync"
	"sync/atomic"
	"syscall"
	"time"

	"github.com/Shopify/sarama"
	"verif/harness/hlib"
)

type caseSpec struct {
	id      int
	M       int
	rtMs    int // Net.ReadTimeout
	tr      string
	callers int
	per     int
	seed    uint64
	cid0    int32
	closeAt int // Close() is called by a racing goroutine after this many writes (-1: never)
	script  []string
	wfail   []int // client write attempts (0-based) that fail with 0 bytes written, connection stays usable
	rep     int // replay only: how often the case is re-run (default 40)
}

func (c caseSpec) params() string {
	wf := ""
	if len(c.wfail) > 0 {
		s := make([]string, len(c.wfail))
		for i, x := range c.wfail {
			s[i] = strconv.Itoa(x)
		}
		wf = " wfail=" + strings.Join(s, ",")
	}
	return fmt.Sprintf("rt=%d tr=%s callers=%d per=%d seed=%d closeAt=%d%s script=%s",
		c.rtMs, c.tr, c.callers, c.per, c.seed, c.closeAt, wf, strings.Join(c.script, ","))
}

func parseCase(line string) (caseSpec, bool) {
	t := strings.Fields(line)
	if len(t) < 3 || t[0] != "case" {
		return caseSpec{}, false
	}
	c := caseSpec{closeAt: -1, tr: "mem", rtMs: 200, callers: 1, per: 1, M: 1}
	c.id = hlib.Atoi(t[1])
	for _, kv := range t[2:] {
		i := strings.Index(kv, "=")
		if i < 0 {
			continue
		}
		k, v := kv[:i], kv[i+1:]
		switch k {
		case "M":
			c.M = hlib.Atoi(v)
		case "cid0":
			c.cid0 = int32(hlib.Atoi(v))
		case "rt":
			c.rtMs = hlib.Atoi(v)
		case "tr":
			c.tr = v
		case "callers":
			c.callers = hlib.Atoi(v)
		case "per":
			c.per = hlib.Atoi(v)
		case "seed":
			c.seed, _ = strconv.ParseUint(v, 10, 64)
		case "closeAt":
			c.closeAt = hlib.Atoi(v)
		case "rep":
			c.rep = hlib.Atoi(v)
		case "wfail":
			for _, x := range strings.Split(v, ",") {
				if x != "" {
					c.wfail = append(c.wfail, hlib.Atoi(x))
				}
			}
		case "script":
			if v != "" {
				c.script = strings.Split(v, ",")
			}
		}
	}
	return c, true
}

type ioFail struct{ sig, detail string }

type caseResult struct {
	head    string
	lines   [][2]string
	fails   []ioFail
	buckets []string
	nontriv string
}

type callRes struct {
	token  int
	kind   int
	class  string // ok | sent | decodefail | hang | <error class>
	tok    int    // token found in the response
	serial int    // serial found in the response
	errStr string
	// responses with raw byte fields: the fields as they were when the call returned (copied), and a reader of
	// the fields of the response object the caller keeps holding while other responses are read
	atReturn [][]byte
	held     func() [][]byte
}

const (
	kMeta = iota
	kCoord
	kLpr
	kProd
	kFetch
	kJoin
	kSync
	kDesc
)

// parseMarker reads token and serial from a marker byte field "M|<token>|<serial>|…".
func parseMarker(m []byte) (tok, serial int) {
	tok, serial = -2, -1
	p := strings.SplitN(string(m), "|", 4)
	if len(p) >= 3 && p[0] == "M" {
		if a, err := strconv.Atoi(p[1]); err == nil {
			tok = a
		}
		if a, err := strconv.Atoi(p[2]); err == nil {
			serial = a
		}
	}
	return
}

func cloneAll(bs [][]byte) [][]byte {
	out := make([][]byte, len(bs))
	for i, b := range bs {
		out[i] = append([]byte{}, b...)
	}
	return out
}

func classify(err error, kind int) string {
	var ne net.Error
	var pde sarama.PacketDecodingError
	switch {
	case errors.Is(err, sarama.ErrNotConnected):
		return "notconn"
	case errors.As(err, &ne) && ne.Timeout():
		return "timeout"
	case errors.As(err, &pde):
		switch {
		case strings.Contains(pde.Info, "correlation ID didn't match"):
			return "cid"
		case strings.Contains(pde.Info, "too large or too small"):
			return "len"
		case strings.Contains(pde.Info, "non-empty tagged fields"):
			return "tag"
		}
		return "decodefail"
	case errors.Is(err, sarama.ErrInsufficientData):
		// header tag byte >= 0x80 (connection fault) or a body cut short (call-level): the script says which
		return "insuff"
	}
	var oe *net.OpError
	if errors.Is(err, io.EOF) || errors.Is(err, io.ErrUnexpectedEOF) || errors.Is(err, io.ErrClosedPipe) ||
		errors.Is(err, net.ErrClosed) || errors.As(err, &oe) {
		return "io"
	}
	return "other" // an error the connection code of the pinned tree cannot produce
}

func portOf(addr string) int {
	_, p, err := net.SplitHostPort(addr)
	if err != nil {
		return -1
	}
	return hlib.Atoi(p)
}

func doCall(b *sarama.Broker, kind, token int) (r callRes) {
	r = callRes{token: token, kind: kind, tok: -2, serial: -1}
	defer func() {
		if p := recover(); p != nil {
			r.class, r.errStr = "panic", fmt.Sprint(p)
		}
	}()
	var err error
	switch kind {
	case kMeta:
		var resp *sarama.MetadataResponse
		resp, err = b.GetMetadata(&sarama.MetadataRequest{Topics: []string{"t" + strconv.Itoa(token)}})
		if err == nil {
			if len(resp.Brokers) == 1 {
				r.tok, r.serial = int(resp.Brokers[0].ID()), portOf(resp.Brokers[0].Addr())
			}
			r.class = "ok"
		}
	case kCoord:
		var resp *sarama.FindCoordinatorResponse
		resp, err = b.FindCoordinator(&sarama.FindCoordinatorRequest{CoordinatorKey: "k" + strconv.Itoa(token)})
		if err == nil {
			if resp.Coordinator != nil {
				r.tok, r.serial = int(resp.Coordinator.ID()), portOf(resp.Coordinator.Addr())
			}
			r.class = "ok"
		}
	case kLpr:
		var resp *sarama.ListPartitionReassignmentsResponse
		resp, err = b.ListPartitionReassignments(&sarama.ListPartitionReassignmentsRequest{TimeoutMs: int32(token)})
		if err == nil {
			r.tok, r.serial = int(resp.ThrottleTimeMs), int(resp.ErrorCode)
			r.class = "ok"
		}
	case kFetch:
		req := &sarama.FetchRequest{MaxWaitTime: int32(token), MinBytes: 1}
		req.AddBlock("t", 0, int64(token), 1<<20)
		var resp *sarama.FetchResponse
		resp, err = b.Fetch(req)
		if err == nil {
			r.class = "ok"
			r.held = func() [][]byte {
				blk := resp.GetBlock("t", 0)
				if blk == nil || len(blk.RecordsSet) != 1 || blk.RecordsSet[0].MsgSet == nil || len(blk.RecordsSet[0].MsgSet.Messages) != 1 {
					return nil
				}
				m := blk.RecordsSet[0].MsgSet.Messages[0].Msg
				return [][]byte{m.Key, m.Value}
			}
		}
	case kJoin:
		var resp *sarama.JoinGroupResponse
		resp, err = b.JoinGroup(&sarama.JoinGroupRequest{GroupId: "g", SessionTimeout: int32(token), MemberId: "m", ProtocolType: "c"})
		if err == nil {
			r.class = "ok"
			r.held = func() [][]byte {
				if m, ok := resp.Members["m"]; ok {
					return [][]byte{m}
				}
				return nil
			}
		}
	case kSync:
		var resp *sarama.SyncGroupResponse
		resp, err = b.SyncGroup(&sarama.SyncGroupRequest{GroupId: "g", GenerationId: int32(token), MemberId: "m"})
		if err == nil {
			r.class = "ok"
			r.held = func() [][]byte { return [][]byte{resp.MemberAssignment} }
		}
	case kDesc:
		var resp *sarama.DescribeGroupsResponse
		resp, err = b.DescribeGroups(&sarama.DescribeGroupsRequest{Groups: []string{"d" + strconv.Itoa(token)}})
		if err == nil {
			r.class = "ok"
			r.held = func() [][]byte {
				if len(resp.Groups) != 1 || resp.Groups[0].Members["m"] == nil {
					return nil
				}
				d := resp.Groups[0].Members["m"]
				return [][]byte{d.MemberMetadata, d.MemberAssignment}
			}
		}
	case kProd:
		req := &sarama.ProduceRequest{RequiredAcks: sarama.NoResponse, Timeout: int32(token)}
		req.AddMessage("t", 0, &sarama.Message{Value: []byte("v")})
		_, err = b.Produce(req)
		if err == nil {
			r.class = "sent"
		}
	}
	if err != nil {
		r.class = classify(err, kind)
		r.errStr = err.Error()
	}
	if r.held != nil {
		r.atReturn = cloneAll(r.held())
		if len(r.atReturn) > 0 {
			r.tok, r.serial = parseMarker(r.atReturn[0])
		}
	}
	return r
}

var panics int32

func runCase(c caseSpec) caseResult {
	res := caseResult{}
	lg := newCaseLog()
	for _, x := range c.wfail {
		lg.failAt[x] = true
	}
	rng := hlib.NewRand(c.seed)
	maxResp := sarama.MaxResponseSize

	// transport
	var sio srvIO
	var dial func() (net.Conn, error)
	var getSio func() (srvIO, bool)
	if c.tr == "tcp" {
		ln, err := net.Listen("tcp", "127.0.0.1:0")
		if err != nil {
			panic(err)
		}
		defer ln.Close()
		acc := make(chan net.Conn, 1)
		go func() {
			sc, err := ln.Accept()
			if err == nil {
				acc <- sc
			} else {
				close(acc)
			}
		}()
		addr := ln.Addr().String()
		dial = func() (net.Conn, error) {
			cc, err := net.DialTimeout("tcp", addr, 5*time.Second)
			if err != nil {
				return nil, err
			}
			if tc, ok := cc.(*net.TCPConn); ok {
				_ = tc.SetNoDelay(true)
			}
			return &tcpClient{Conn: cc, lg: lg}, nil
		}
		getSio = func() (srvIO, bool) {
			select {
			case sc, ok := <-acc:
				if !ok {
					return srvIO{}, false
				}
				return tcpServerIO(lg, sc), true
			case <-time.After(5 * time.Second):
				return srvIO{}, false
			}
		}
	} else {
		cl, sv := memPair()
		cl.onWrite = lg.logWrite
		cl.onTimeout = func() {
			lg.mu.Lock()
			lg.lines = append(lg.lines, [2]string{"T", "ok"})
			lg.nT++
			lg.mu.Unlock()
		}
		dial = func() (net.Conn, error) { return cl, nil }
		getSio = func() (srvIO, bool) { return memServerIO(lg, sv), true }
	}

	conf := sarama.NewConfig()
	conf.ClientID = "c"
	conf.Version = sarama.V2_4_0_0
	conf.Net.MaxOpenRequests = c.M
	conf.Net.ReadTimeout = time.Duration(c.rtMs) * time.Millisecond
	conf.Net.Proxy.Enable = true
	conf.Net.Proxy.Dialer = &fixedDialer{dial: dial}
	b := sarama.NewBroker("127.0.0.1:9")
	sarama.VerifSetCorrelationID(b, c.cid0)
	if err := b.Open(conf); err != nil {
		res.fails = append(res.fails, ioFail{"c14-open-failed", err.Error()})
		return res
	}
	if ok, err := b.Connected(); !ok {
		res.fails = append(res.fails, ioFail{"c14-open-failed", fmt.Sprint(err)})
		return res
	}

	var okSio bool
	if sio, okSio = getSio(); !okSio {
		res.fails = append(res.fails, ioFail{"c14-open-failed", "server side of the connection not established"})
		return res
	}

	srv := &server{lg: lg, io: sio, maxResp: maxResp, maxOpen: c.M, callers: c.callers, rtMs: c.rtMs, rng: rng.Fork(),
		stopped: make(chan struct{})}
	faultFree := true
	bodyFaults := false
	for _, st := range c.script {
		if isFaultStep(st) {
			faultFree = false
		}
		if strings.HasPrefix(st, "short") || strings.HasPrefix(st, "long") || strings.HasPrefix(st, "junk") || st == "unsol" {
			bodyFaults = true
		}
	}
	go srv.run(c.script, true)

	// callers
	total := c.callers * c.per
	kinds := make([]int, total)
	onlyMeta := false
	for _, st := range c.script {
		if st == "unsol" {
			onlyMeta = true
		}
	}
	for i := range kinds {
		switch x := rng.Intn(40); {
		case onlyMeta:
			kinds[i] = kMeta
		case x < 8:
			kinds[i] = kMeta
		case x < 12:
			kinds[i] = kCoord
		case x < 17:
			kinds[i] = kLpr
		case x < 20:
			kinds[i] = kProd
		case x < 27:
			kinds[i] = kFetch
		case x < 32:
			kinds[i] = kSync
		case x < 36:
			kinds[i] = kJoin
		default:
			kinds[i] = kDesc
		}
	}
	pauses := make([]int, total)
	for i := range pauses {
		if rng.Chance(1, 3) {
			pauses[i] = rng.Intn(1500) // microseconds
		}
	}
	results := make([]callRes, total)
	finished := make([]int32, total)
	var wg sync.WaitGroup
	var closerDone chan struct{}
	closedByRacer := false
	if c.closeAt >= 0 {
		closerDone = make(chan struct{})
		closedByRacer = true
		go func() {
			defer close(closerDone)
			lg.waitWrites(c.closeAt, 2*time.Second)
			lg.add("CB", "ok")
			err := b.Close()
			if errors.Is(err, sarama.ErrNotConnected) {
				lg.add("CE notconn", "notconn")
			} else {
				lg.add("CE ok", "closed")
			}
		}()
	}
	for g := 0; g < c.callers; g++ {
		wg.Add(1)
		go func(g int) {
			defer wg.Done()
			for j := 0; j < c.per; j++ {
				i := g*c.per + j
				if pauses[i] > 0 {
					time.Sleep(time.Duration(pauses[i]) * time.Microsecond)
				}
				r := doCall(b, kinds[i], i)
				if r.class == "ok" && r.held != nil && len(r.atReturn) == 0 && bodyFaults {
					r.class = "decodefail" // a cut body that the decoder accepts as a partial trailing message
				}
				if r.class == "insuff" && !bodyFaults {
					r.class = "tag" // no body of this case can be cut short: it is the header's tag byte
				}
				results[i] = r
				// the return of the call, placed in the total order
				lg.mu.Lock()
				w, wrote := lg.wrote[i]
				var op, ans string
				switch {
				case r.class == "ok":
					hx := "?"
					if f, ok := srv.frame(r.serial); ok {
						hx = hlib.Hex(f.body)
					}
					op, ans = fmt.Sprintf("R %d ok %s", i, hx), "delivered "+hx
				case r.class == "sent":
					op, ans = fmt.Sprintf("R %d sent", i), "sent"
				case r.class == "decodefail":
					op, ans = fmt.Sprintf("R %d decodefail", i), "decodefail"
				case r.class == "insuff":
					// ErrInsufficientData: header tag byte >= 0x80 or a body cut short - the model knows which
					op, ans = fmt.Sprintf("R %d insuff", i), "insuff"
				case !wrote && r.class == "io" && lg.failed[i]:
					// the failed write itself is in the log (WF); this is the return of the call
					op, ans = fmt.Sprintf("R %d err sendio", i), "failed sendio"
				case !wrote && (r.class == "notconn" || r.class == "io"):
					cls := r.class
					if cls == "io" {
						cls = "sendio"
					}
					hv, ex := 0, 1
					if kinds[i] == kLpr {
						hv = 1
					}
					if kinds[i] == kProd {
						ex = 0
					}
					op, ans = fmt.Sprintf("RN %d %s %d %d", i, cls, hv, ex), "failed "+cls
				default:
					op, ans = fmt.Sprintf("R %d err %s", i, r.class), "failed "+r.class
				}
				_ = w
				lg.lines = append(lg.lines, [2]string{op, ans})
				lg.mu.Unlock()
				atomic.StoreInt32(&finished[i], 1)
			}
		}(g)
	}
	allDone := make(chan struct{})
	go func() { wg.Wait(); close(allDone) }()
	bound := time.Duration(total+4)*conf.Net.ReadTimeout + 6*time.Second
	if bound > 40*time.Second {
		bound = 40 * time.Second
	}
	hung := false
	select {
	case <-allDone:
	case <-time.After(bound):
		hung = true
	}
	if hung {
		var h []string
		for i := range finished {
			if atomic.LoadInt32(&finished[i]) == 0 {
				h = append(h, strconv.Itoa(i))
			}
		}
		res.fails = append(res.fails, ioFail{"c14-call-hang", fmt.Sprintf("calls %s did not return within %v", strings.Join(h, ","), bound)})
		cn := make(chan struct{})
		go func() { _, _ = b.Connected(); _ = b.Close(); close(cn) }()
		select {
		case <-cn:
		case <-time.After(2 * time.Second):
			res.fails = append(res.fails, ioFail{"c14-close-hang", "Connected()/Close() do not return either while calls hang"})
		}
		sio.shutdown()
		select {
		case <-allDone:
		case <-time.After(3 * time.Second):
		}
	} else {
		if closerDone != nil {
			select {
			case <-closerDone:
			case <-time.After(bound):
				res.fails = append(res.fails, ioFail{"c14-close-hang", "Close() racing with calls did not return"})
				hung = true
			}
		}
		if !hung {
			cn := make(chan struct{})
			go func() { _, _ = b.Connected(); close(cn) }()
			select {
			case <-cn:
			case <-time.After(bound):
				res.fails = append(res.fails, ioFail{"c14-connected-hang", "Connected() did not return after all calls had returned"})
				hung = true
			}
		}
		if !hung {
			cd := make(chan error, 1)
			go func() {
				lg.add("CB", "ok")
				cd <- b.Close()
			}()
			select {
			case err := <-cd:
				if errors.Is(err, sarama.ErrNotConnected) {
					lg.add("CE notconn", "notconn")
				} else {
					lg.add("CE ok", "closed")
				}
				lg.add("END", "end pending=0")
			case <-time.After(bound):
				res.fails = append(res.fails, ioFail{"c14-close-hang", "final Close() did not return"})
			}
		}
	}
	sio.shutdown()
	select {
	case <-srv.stopped:
	case <-time.After(6 * time.Second):
	}

	// ---------------- property oracle on the observations
	lg.mu.Lock()
	lines := append([][2]string{}, lg.lines...)
	wrote := lg.wrote
	nT, nX := lg.nT, lg.nX
	failedW := map[int]bool{}
	for k := range lg.failed {
		failedW[k] = true
	}
	lg.mu.Unlock()
	for i, r := range results {
		if failedW[i] && atomic.LoadInt32(&finished[i]) == 1 && (r.class == "ok" || r.class == "sent") {
			res.fails = append(res.fails, ioFail{"c14-failed-write-reported-success", fmt.Sprintf("call %d: the write of its request failed with 0 bytes written, the call returned %s", i, r.class)})
		}
	}
	connErr := map[string]bool{"cid": true, "len": true, "tag": true, "io": true, "timeout": true}
	firstFault := -1 // smallest wire index of a call that failed with a connection-level error
	for i, r := range results {
		if w, ok := wrote[i]; ok && w.expect && connErr[r.class] {
			if firstFault < 0 || w.idx < firstFault {
				firstFault = w.idx
			}
		}
	}
	for i, r := range results {
		if atomic.LoadInt32(&finished[i]) == 0 {
			continue
		}
		w, wr := wrote[i]
		switch r.class {
		case "ok":
			if !wr {
				res.fails = append(res.fails, ioFail{"c14-response-without-request", fmt.Sprintf("call %d returned a response but never wrote a request", i)})
				continue
			}
			f, okf := srv.frame(r.serial)
			if !okf {
				res.fails = append(res.fails, ioFail{"c14-response-not-from-server", fmt.Sprintf("call %d: response carries serial %d, server sent %d frames", i, r.serial, srv.nFrames())})
				continue
			}
			if f.cid != w.cid {
				res.fails = append(res.fails, ioFail{"c14-mismatched-id-delivered", fmt.Sprintf("call %d (correlation id %d) was given the frame #%d whose header id is %d", i, w.cid, r.serial, f.cid)})
			}
			if f.token >= 0 && (f.token != i || r.tok != i) {
				res.fails = append(res.fails, ioFail{"c14-foreign-response", fmt.Sprintf("call %d received the response made for call %d (frame #%d)", i, r.tok, r.serial)})
			}
			if len(f.marks) > 0 && f.token >= 0 {
				if !sameBytes(r.atReturn, f.marks) {
					res.fails = append(res.fails, ioFail{"c14-response-bytes-differ", fmt.Sprintf("call %d: byte fields of the returned response %q, the server sent %q (frame #%d)", i, show(r.atReturn), show(f.marks), r.serial)})
				} else if now := r.held(); !sameBytes(now, f.marks) {
					res.fails = append(res.fails, ioFail{"c14-held-response-changed", fmt.Sprintf("call %d: the response was right when the call returned, but after other responses were read on the connection its byte fields are %q instead of %q (frame #%d)", i, show(now), show(f.marks), r.serial)})
				}
			}
			if firstFault >= 0 && w.idx > firstFault {
				res.fails = append(res.fails, ioFail{"c14-delivered-after-fault", fmt.Sprintf("call %d (wire index %d) got a response although the request with wire index %d failed with a connection fault", i, w.idx, firstFault)})
			}
		case "other":
			res.fails = append(res.fails, ioFail{"c14-unexpected-error-kind", fmt.Sprintf("call %d returned %q, which no path of the connection code produces", i, r.errStr)})
		case "panic":
			res.fails = append(res.fails, ioFail{"panic", fmt.Sprintf("call %d panicked: %s", i, r.errStr)})
		case "insuff":
		case "decodefail":
			if !bodyFaults {
				res.fails = append(res.fails, ioFail{"c14-wellformed-response-not-decodable", fmt.Sprintf("call %d: %s", i, r.errStr)})
			}
		case "sent":
		default:
			if faultFree && nT == 0 && nX == 0 && !closedByRacer && !failedW[i] {
				res.fails = append(res.fails, ioFail{"c14-error-without-fault", fmt.Sprintf("call %d failed (%s: %s) although the server answered every request correctly", i, r.class, r.errStr)})
			}
			if wr && w.expect && connErr[r.class] && firstFault >= 0 && w.idx > firstFault {
				// later failures must carry the error of the first fault
				for j, r2 := range results {
					if w2, ok := wrote[j]; ok && w2.idx == firstFault && r2.class != r.class {
						res.fails = append(res.fails, ioFail{"c14-later-error-differs-from-first-fault", fmt.Sprintf("call %d failed with %s, the first fault (call %d) was %s", i, r.class, j, r2.class)})
					}
				}
			}
		}
	}
	rpbw := 1
	if srv.holds > 0 {
		switch {
		case srv.maxOnWire > c.M+1:
			rpbw = 0
			res.fails = append(res.fails, ioFail{"c14-onwire-exceeds-maxopen-plus-one", fmt.Sprintf("server held %d unanswered requests, MaxOpenRequests=%d", srv.maxOnWire, c.M)})
		case srv.maxOnWire == c.M+1:
			rpbw = 0
			res.fails = append(res.fails, ioFail{"c14-onwire-maxopen-plus-one", fmt.Sprintf("server held %d unanswered requests, MaxOpenRequests=%d", srv.maxOnWire, c.M)})
		}
	}
	if rpbw == 1 {
		// the repaired order refuses a write while MaxOpenRequests promises are outstanding; whether the pinned
		// order was visible in this run without a hold step is decided by replaying: count it here the same way
		out, maxOut := 0, 0
		answered := map[int]bool{}
		_ = answered
		for _, l := range lines {
			switch {
			case strings.HasPrefix(l[0], "W "):
				t := strings.Fields(l[0])
				if len(t) == 5 && t[4] == "1" {
					out++
					if out > maxOut {
						maxOut = out
					}
				}
			case strings.HasPrefix(l[0], "R ") && !strings.HasSuffix(l[0], " sent") && !strings.HasSuffix(l[0], " err sendio"):
				out--
			}
		}
		if maxOut > c.M {
			rpbw = 0 // more writes than returns: the trace is only a run of the pinned order
		}
	}
	res.head = fmt.Sprintf("case %d M=%d mr=%d rpbw=%d cid0=%d %s", c.id, c.M, maxResp, rpbw, c.cid0, c.params())
	res.lines = lines
	// distribution
	res.buckets = append(res.buckets, fmt.Sprintf("M=%d", c.M), "tr="+c.tr, fmt.Sprintf("callers=%d", bucketN(c.callers)))
	for _, st := range c.script {
		res.buckets = append(res.buckets, "step="+strings.TrimRight(st, "0123456789-cs"))
	}
	if c.closeAt >= 0 {
		res.buckets = append(res.buckets, "close-race")
	}
	cls := map[string]int{}
	for _, r := range results {
		cls[r.class]++
	}
	var ks []string
	for k := range cls {
		ks = append(ks, k)
		res.buckets = append(res.buckets, "result="+k)
	}
	sort.Strings(ks)
	if c.callers >= 2 && len(c.script) > 0 {
		res.nontriv = fmt.Sprintf("%d|%d|%s|%v|%d", c.M, c.callers, strings.Join(c.script, ","), ks, c.closeAt)
	}
	return res
}

func sameBytes(a, b [][]byte) bool {
	if len(a) != len(b) {
		return false
	}
	for i := range a {
		if string(a[i]) != string(b[i]) {
			return false
		}
	}
	return true
}

func show(bs [][]byte) string {
	var s []string
	for _, b := range bs {
		x := string(b)
		if len(x) > 28 {
			x = x[:28] + "…"
		}
		s = append(s, x)
	}
	return strings.Join(s, " / ")
}

func bucketN(n int) int {
	switch {
	case n <= 1:
		return 1
	case n <= 4:
		return 4
	case n <= 8:
		return 8
	}
	return 16
}

// ---------------------------------------------------------------------------------------------------

func genScript(r *hlib.Rand, callers, per int) []string {
	total := callers * per
	var s []string
	if r.Chance(2, 5) {
		s = append(s, "hold")
	}
	nOK := r.Intn(total + 1)
	if r.Chance(1, 4) {
		nOK = r.Intn(3)
	}
	for i := 0; i < nOK; i++ {
		switch x := r.Intn(10); {
		case x < 6:
			s = append(s, "ok")
		case x < 8:
			s = append(s, fmt.Sprintf("okd%d", 1+r.Intn(5)))
		default:
			s = append(s, fmt.Sprintf("split%d", 2+r.Intn(3)))
		}
	}
	if r.Chance(1, 5) {
		return s // fault-free
	}
	nF := 1 + r.Intn(2)
	bigTag, bodyFault := false, false
	for i := 0; i < nF; i++ {
		var st string
		x := r.Intn(20)
		if bigTag && x >= 12 && x <= 15 {
			x = 3
		}
		switch x {
		case 0, 1, 2:
			st = "swap"
		case 3, 4:
			st = fmt.Sprintf("wrongcid%d", r.Pick(1, 2, 1000, 65536))
			if r.Bool() {
				st += "-"
			}
		case 5:
			st = fmt.Sprintf("trunch%d", r.Intn(9)) + string("cs"[r.Intn(2)])
		case 6:
			st = fmt.Sprintf("truncb%d", r.Intn(12)) + string("cs"[r.Intn(2)])
		case 7:
			st = "big"
		case 8:
			st = fmt.Sprintf("tiny%d", r.Intn(5))
		case 9:
			st = []string{"neglen", "minlen"}[r.Intn(2)]
		case 10, 11:
			if bodyFault {
				st = fmt.Sprintf("badtag%d", r.Pick(1, 2))
			} else {
				st = fmt.Sprintf("badtag%d", r.Pick(1, 2, 128, 255))
			}
			bigTag = bigTag || strings.HasSuffix(st, "128") || strings.HasSuffix(st, "255")
		case 12:
			st = fmt.Sprintf("short%d", 1+r.Intn(3))
		case 13:
			st = fmt.Sprintf("long%d", r.Pick(1, 2, 8, 17, 25))
		case 14:
			st = fmt.Sprintf("junk%d", 1+r.Intn(20))
		case 15:
			st = "unsol"
		case 16, 17:
			st = "close"
		default:
			st = "silence"
		}
		if x >= 12 && x <= 15 {
			bodyFault = true
		}
		s = append(s, st)
		if isTerminal(st) {
			break
		}
		for k := r.Intn(3); k > 0; k-- {
			s = append(s, "ok")
		}
	}
	return s
}

// supervise runs the harness proper in a child process.  A Go fatal error in the code under test (unlock of an
// unlocked mutex, concurrent map access, …) cannot be recovered in-process; when the child dies, the connections
// that were running at that moment are reported as oracle failures with their case lines as the replay.
func supervise() int {
	cmd := exec.Command(os.Args[0], os.Args[1:]...)
	cmd.SysProcAttr = &syscall.SysProcAttr{Pdeathsig: syscall.SIGKILL}
	cmd.Env = append(os.Environ(), "C14_CHILD=1")
	var stderr bytes.Buffer
	cmd.Stdout, cmd.Stderr = os.Stdout, &stderr
	err := cmd.Run()
	if err == nil {
		os.Stderr.Write(stderr.Bytes())
		return 0
	}
	msg := stderr.String()
	if len(msg) > 6000 {
		msg = msg[:6000]
	}
	os.Stderr.WriteString(msg)
	first := strings.SplitN(strings.TrimSpace(msg), "\n", 2)[0]
	out := ""
	for i, a := range os.Args {
		if (a == "-out" || a == "--out") && i+1 < len(os.Args) {
			out = os.Args[i+1]
		}
	}
	jb, _ := os.ReadFile(filepath.Join(out, "journal.txt"))
	started := map[string]string{}
	var order []string
	for _, l := range strings.Split(string(jb), "\n") {
		f := strings.SplitN(l, " ", 3)
		switch {
		case len(f) == 3 && f[0] == "S":
			started[f[1]] = f[2]
			order = append(order, f[1])
		case len(f) >= 2 && f[0] == "E":
			delete(started, f[1])
		}
	}
	if len(started) == 0 {
		return 2
	}
	run := hlib.Start("C14")
	seen := map[string]bool{}
	for _, id := range order {
		if l, ok := started[id]; ok && !seen[l] {
			seen[l] = true
			run.Case("crashed while running: " + l)
			run.IOFail("c14-process-crash", l, "the process died while this connection was running: "+first)
		}
	}
	run.Finish("process crashed; the connections running at that moment are listed")
	return 0
}

func main() {
	if os.Getenv("C14_CHILD") == "" {
		os.Exit(supervise())
	}
	run := hlib.Start("C14")
	journal, _ := os.OpenFile(filepath.Join(run.OutDir, "journal.txt"), os.O_CREATE|os.O_TRUNC|os.O_WRONLY|os.O_APPEND, 0o644)
	var jmu sync.Mutex
	note := func(s string) {
		if journal != nil {
			jmu.Lock()
			journal.WriteString(s)
			jmu.Unlock()
		}
	}
	sarama.PanicHandler = func(v interface{}) {
		atomic.AddInt32(&panics, 1)
		run.IOFail("panic", "(see case lines)", fmt.Sprint(v))
	}
	rng := hlib.NewRand(run.Seed)
	var cases []caseSpec
	if rl := run.ReplayLines(); rl != nil {
		// a replayed case is re-run 40 times: which interleaving (and which buffer reuse) a run sees is not
		// determined by the case line
		for _, l := range rl {
			if c, ok := parseCase(l); ok {
				n := c.rep
				if n <= 0 {
					n = 40
				}
				for k := 0; k < n; k++ {
					cases = append(cases, c)
				}
			}
		}
	} else {
		n := run.N
		if n <= 0 {
			n = 300
			if run.Tier == "thorough" {
				n = 5000
			}
		}
		id := 0
		add := func(c caseSpec) {
			c.id = id
			id++
			if c.seed == 0 {
				c.seed = rng.U64()>>1 | 1
			}
			cases = append(cases, c)
		}
		// small grid first: every MaxOpenRequests with enough concurrent callers and a holding server
		for _, m := range []int{1, 2, 5} {
			for _, callers := range []int{1, m, m + 1, m + 3, 16} {
				if callers < 1 || id >= n {
					continue
				}
				add(caseSpec{M: m, rtMs: 2000, tr: "mem", callers: callers, per: 1, closeAt: -1, script: []string{"hold"}})
			}
		}
		// slow-but-alive family: every answer comes just under Net.ReadTimeout while several calls are pipelined
		// (a caller waits for a multiple of the read timeout although no single read is late), then a fault of
		// each kind, then later calls, Connected() and Close()
		slowCase := func(fault string) caseSpec {
			c := caseSpec{closeAt: -1, tr: "mem", M: rng.Pick(5, 5, 5, 2), callers: rng.Range(4, 8), per: rng.Range(2, 3),
				rtMs: rng.Pick(160, 200, 240)}
			for k := rng.Range(3, 5); k > 0; k-- {
				c.script = append(c.script, fmt.Sprintf("slow%d", rng.Range(70, 85)))
			}
			c.script = append(c.script, fault, "ok", "ok")
			c.cid0 = int32(rng.Intn(1000))
			return c
		}
		slowFaults := []string{"silence", "trunch3s", "truncb2c", "close", "wrongcid1", "swap", "big", "truncb1s", "trunch5c", "ok"}
		for i := 0; i < 8 && id < n; i++ {
			add(slowCase(slowFaults[i]))
		}
		for id < n {
			if rng.Chance(1, 10) {
				add(slowCase(slowFaults[rng.Intn(len(slowFaults))]))
				continue
			}
			c := caseSpec{closeAt: -1}
			c.M = rng.Pick(1, 1, 2, 2, 5)
			c.callers = rng.Pick(1, 2, 2, 3, 3, 4, 5, 6, 8, 12, 16)
			c.per = rng.Pick(1, 1, 2, 3)
			c.script = genScript(rng, c.callers, c.per)
			needsTimeout := false
			for _, st := range c.script {
				if st == "silence" || (strings.HasPrefix(st, "trunc") && strings.HasSuffix(st, "s")) ||
					strings.HasPrefix(st, "long") || strings.HasPrefix(st, "junk") || strings.HasPrefix(st, "short") {
					needsTimeout = true
				}
			}
			c.tr = "mem"
			if !needsTimeout && rng.Chance(1, 5) {
				c.tr = "tcp"
			}
			switch {
			case c.tr == "tcp":
				c.rtMs = 10000
			case needsTimeout:
				c.rtMs = rng.Pick(120, 150, 200)
			default:
				c.rtMs = rng.Pick(150, 1000, 5000)
			}
			if rng.Chance(1, 6) {
				c.closeAt = rng.Intn(c.callers*c.per + 1)
			}
			c.cid0 = int32(rng.Pick(0, 0, 1, 1000, 2147000000, int(rng.U64()%2000000000)))
			add(c)
		}
	}

	if run.ReplayLines() == nil {
		// appended family with its own PRNG (the streams above are unchanged): a request write fails with 0 bytes
		// written while the connection stays usable; the failed call must return an error, every other call its own
		// response (correlation ids keep advancing, no promise is left behind), later calls and Close return
		wr := hlib.NewRand(run.Seed*0x9E3779B1 + 0x14f)
		nw := len(cases) / 10
		for k := 0; k < nw; k++ {
			c := caseSpec{closeAt: -1, tr: "mem", rtMs: 1000}
			c.id = len(cases)
			c.M = wr.Pick(1, 2, 2, 5)
			c.callers = wr.Range(1, 8)
			c.per = wr.Range(2, 4)
			c.seed = wr.U64()>>1 | 1
			c.cid0 = int32(wr.Intn(100000))
			total := c.callers * c.per
			c.wfail = []int{wr.Intn(total)}
			if wr.Chance(1, 3) {
				if x := wr.Intn(total); x != c.wfail[0] {
					c.wfail = append(c.wfail, x)
				}
			}
			for j := wr.Intn(4); j > 0; j-- {
				c.script = append(c.script, []string{"ok", "split2", "okd2"}[wr.Intn(3)])
			}
			if wr.Chance(1, 4) {
				c.script = append([]string{"hold"}, c.script...)
			}
			cases = append(cases, c)
		}
	}

	workers := 8
	out := make([]caseResult, len(cases))
	var next int32 = -1
	var wg sync.WaitGroup
	for w := 0; w < workers; w++ {
		wg.Add(1)
		go func() {
			defer wg.Done()
			for {
				i := int(atomic.AddInt32(&next, 1))
				if i >= len(cases) {
					return
				}
				c := cases[i]
				note(fmt.Sprintf("S %d case %d M=%d cid0=%d %s\n", i, c.id, c.M, c.cid0, c.params()))
				out[i] = runCase(c)
				note(fmt.Sprintf("E %d\n", i))
			}
		}()
	}
	wg.Wait()
	validated := 0
	for _, r := range out {
		if r.head == "" {
			for _, f := range r.fails {
				run.IOFail(f.sig, "(open)", f.detail)
			}
			continue
		}
		run.Emit(r.head, "ok")
		for _, l := range r.lines {
			run.Emit(l[0], l[1])
		}
		validated++
		for _, f := range r.fails {
			run.IOFail(f.sig, r.head, f.detail)
		}
		for _, b := range r.buckets {
			run.Count(b)
		}
		if r.nontriv != "" {
			run.Nontrivial(r.nontriv)
		}
	}
	run.Set("traces_validated", validated)
	run.Set("cases", len(cases))
	_ = hex.EncodeToString
	run.Finish("non-trivial = at least 2 concurrent callers and a non-empty server script; distinct by (MaxOpenRequests, callers, script, set of result classes, close point)")
}
