package main

import (
	"fmt"
	"os"
	"strconv"

	"verif/harness/cons"
)

func main() {
	s, _ := strconv.ParseUint(os.Args[1], 10, 64)
	focus := "C03"
	if len(os.Args) > 2 {
		focus = os.Args[2]
	}
	sc := cons.Gen(s, focus)
	fmt.Println(sc.String())
	res := cons.Run(sc)
	fmt.Println("newerr", res.NewErr, "hang", res.CloseHang, "panic", res.Panic, "reached", res.Reached, "errors", res.Errors)
	for p, d := range res.Delivered {
		for _, m := range d {
			fmt.Printf("  p%d off=%d key=%q val=%q h=%v\n", p, m.Offset, m.Key, m.Val, m.Headers)
		}
	}
	for _, f := range res.Fetches {
		fmt.Printf("  fetch %+v\n", f)
	}
	for _, f := range cons.Check(res) {
		fmt.Println("FAIL", f.Sig, f.Detail)
	}
}
