// Harness for C11: generated transactional logs (several producer ids; overlapping transactions, back-to-back
// by the same id, aborted then committed; every transaction decided by a commit/abort marker) are served by
// a simulated faithful broker with fetch boundaries at every position and the aborted-transaction index a
// faithful broker returns for the fetched range, in shuffled order.  Real FetchResponse encode/decode and the
// real parseResponse (overlay c03_parse.go); the same abstract responses go to the Lean model (svdrv_c11).
// Oracle (cpgen/oracle.go): delivered == data records of non-transactional batches and committed
// transactions (read committed) resp. all data records (read uncommitted) of the fetched range >= asked
// offset; never a control record; the next offset passes the markers.
package main

import (
	"fmt"
	"strings"

	"github.com/Shopify/sarama"

	"verif/harness/cmd/c03/cpgen"
	"verif/harness/hlib"
)

var run *hlib.Run
var rn *cpgen.Runner

func history(r *hlib.Rand, lg *cpgen.Log, rc bool, start int64, maxUnits int, big bool) {
	fd := int32(r.Pick(100, 256, 1024, 1<<20, 1<<20))
	if big {
		fd = 1 << 20
	}
	o := cpgen.HistOpts{Rc: rc, FetchDef: fd, Start: start, Kv: cpgen.PickVersion(r, 2), Faults: r.Chance(1, 3),
		MaxUnits: maxUnits, MaxSteps: 120, PartialPr: r.Pick(0, 4, 8), Loose: r.Chance(1, 3)}
	cpgen.RunHistory(rn, r, lg, o)
	if rc {
		run.Count("read-committed")
	} else {
		run.Count("read-uncommitted")
	}
}

func shape(lg *cpgen.Log) {
	if len(lg.Aborted) > 0 {
		run.Count("log-with-aborted-txn")
	}
	// same producer id: aborted then another transaction
	seen := map[int64]bool{}
	for _, u := range lg.Units {
		if u.Bat == nil {
			continue
		}
		if u.Bat.Control && u.Bat.Ctl == 'a' {
			seen[u.Bat.Pid] = true
		} else if u.Bat.Txn && !u.Bat.Control && seen[u.Bat.Pid] {
			run.Count("log-pid-reused-after-abort")
			break
		}
	}
}

// e2eCase: end-to-end scenario number i of a seed (replayable as the line "e2e <seed> <i>")
func e2eCase(seed uint64, i int) {
	r := hlib.NewRand(seed*1000003 + uint64(i) + 29)
	lg := cpgen.GenLog(r, cpgen.LogOpts{Format: r.Pick(2, 2, 3), Txn: true, MaxUnits: r.Pick(5, 10, 20), LeaveOpen: r.Bool()})
	shape(lg)
	so := lg.StartOffsets()
	o := cpgen.E2EOpts{Rc: !r.Chance(1, 4), Kv: cpgen.PickVersion(r, 2), Start: so[r.Intn(len(so))],
		FetchDef: int32(r.Pick(100, 256, 1024, 1<<20)), Faults: r.Bool(), Slow: r.Chance(1, 3), ChanBuf: r.Pick(0, 1, 4, 256),
		MaxUnits: r.Pick(1, 2, 3, 8), Loose: r.Chance(1, 3)}
	// the first scenarios walk through every Kafka version from 0.11 on (every FetchRequest version the consumer can
	// send with transactions: 4, 7, 10, 11) x both isolation levels
	var txnVersions []sarama.KafkaVersion
	for _, kv := range cpgen.KafkaVersions {
		if kv.IsAtLeast(sarama.V0_11_0_0) {
			txnVersions = append(txnVersions, kv)
		}
	}
	if i < 2*len(txnVersions) {
		o.Kv = txnVersions[i/2]
		o.Rc = i%2 == 0
		o.Start = so[r.Intn(len(so)/2+1)]
	}
	id := fmt.Sprintf("e2e %d %d", seed, i)
	run.Case(id)
	run.Count("e2e-scenario")
	run.Count(fmt.Sprintf("e2e-fetch-v%d-rc=%v", sarama.VerifFetchVersion(o.Kv), o.Rc))
	if lg.LSO < lg.End {
		run.Count("e2e-log-with-open-txn")
	}
	cpgen.RunE2E(run, id, seed*7919+uint64(i), lg, o)
}

// markReserved sets reserved attribute bits (0x40 = hasDeleteHorizonMs of Kafka >= 3.1 on cleaned batches, and other
// bits outside 0x3f) on most control batches and some data batches of a log: clients must ignore them.
func markReserved(r *hlib.Rand, lg *cpgen.Log) {
	for _, u := range lg.Units {
		if u.Bat == nil {
			continue
		}
		if (u.Bat.Control && r.Chance(2, 3)) || (!u.Bat.Control && r.Chance(1, 4)) {
			u.Bat.AttrHigh = uint16(r.Pick(0x40, 0x40, 0x40, 0x80, 0x100, 0x4000, 0x8000, 0xc0, 0xffc0))
			run.Count("batch-with-reserved-attribute-bits")
		}
	}
}

// reservedFamily: fetch histories over transactional logs whose batches carry reserved attribute bits.  All random
// choices come from a PRNG of its own, so the other scenario streams of a seed are unaffected.
func reservedFamily(seed uint64, n int) {
	r := hlib.NewRand(seed*0x5bd1e995 + 0xA77B175)
	for i := 0; i < n; i++ {
		lg := cpgen.GenLog(r, cpgen.LogOpts{Format: 2, Txn: true, MaxUnits: r.Pick(4, 7, 12)})
		markReserved(r, lg)
		so := lg.StartOffsets()
		for k := 0; k < 3; k++ {
			history(r, lg, !r.Chance(1, 3), so[r.Intn(len(so))], r.Pick(1, 2, 3, 100), r.Bool())
			run.Count("history-reserved-attribute-bits")
		}
	}
}

// e2eAttrCase: end-to-end scenario i of the reserved-bits family (replayable as the line "e2ea <seed> <i>")
func e2eAttrCase(seed uint64, i int) {
	r := hlib.NewRand(seed*1000003 + uint64(i) + 0xA77)
	lg := cpgen.GenLog(r, cpgen.LogOpts{Format: 2, Txn: true, MaxUnits: r.Pick(5, 10), LeaveOpen: r.Chance(1, 3)})
	markReserved(r, lg)
	so := lg.StartOffsets()
	o := cpgen.E2EOpts{Rc: !r.Chance(1, 3), Kv: cpgen.PickVersion(r, 2), Start: so[r.Intn(len(so)/2+1)],
		FetchDef: int32(r.Pick(256, 1024, 1<<20)), Faults: r.Chance(1, 3), ChanBuf: r.Pick(0, 4, 256), MaxUnits: r.Pick(1, 3, 8)}
	id := fmt.Sprintf("e2ea %d %d", seed, i)
	run.Case(id)
	run.Count("e2e-reserved-attribute-bits")
	cpgen.RunE2E(run, id, seed*104729+uint64(i), lg, o)
}

func main() {
	run = hlib.Start("C11")
	rn = &cpgen.Runner{Run: run}
	if lines := run.ReplayLines(); lines != nil {
		for _, l := range lines {
			switch {
			case strings.HasPrefix(l, "reset "):
				if err := rn.ReplayReset(l); err != nil {
					run.Emit(l, "bad-op")
				}
			case strings.HasPrefix(l, "resp "):
				rn.ReplayStep(l)
			case strings.HasPrefix(l, "e2ea "):
				t := strings.Fields(l)
				e2eAttrCase(uint64(hlib.Atoi(t[1])), hlib.Atoi(t[2]))
			case strings.HasPrefix(l, "e2e "):
				t := strings.Fields(l)
				e2eCase(uint64(hlib.Atoi(t[1])), hlib.Atoi(t[2]))
			default:
				run.Emit(l, "bad-op")
			}
		}
		run.Finish("replay")
		return
	}
	r := hlib.NewRand(run.Seed)
	rn.TsW = cpgen.ProbeTsVariant()
	n := run.N
	if n == 0 {
		n = 400
		if run.Tier == "thorough" {
			n = 8000
		}
	}
	// small logs: every start offset x fetch boundary after every unit (1 unit per response) and larger responses
	for i := 0; i < n; i++ {
		lg := cpgen.GenLog(r, cpgen.LogOpts{Format: 2, Txn: true, MaxUnits: r.Pick(4, 7, 7, 12), BigBase: r.Chance(1, 8)})
		shape(lg)
		for _, s := range lg.StartOffsets() {
			rc := !r.Chance(1, 4)
			history(r, lg, rc, s, 1, true)
			history(r, lg, rc, s, r.Pick(2, 3, 100), r.Bool())
		}
	}
	// longer logs, random start / boundaries, small fetch sizes (partial data, doubling)
	for i := 0; i < n; i++ {
		lg := cpgen.GenLog(r, cpgen.LogOpts{Format: r.Pick(2, 2, 3), Txn: true, MaxUnits: r.Pick(10, 20, 30)})
		shape(lg)
		so := lg.StartOffsets()
		for k := 0; k < 3; k++ {
			history(r, lg, !r.Chance(1, 4), so[r.Intn(len(so))], r.Pick(1, 2, 3, 5, 100), false)
		}
	}
	ne := 48
	if run.Tier == "thorough" {
		ne = 400
	}
	for i := 0; i < ne && cpgen.E2EFailures < 3; i++ {
		e2eCase(run.Seed, i)
	}
	// reserved attribute bits (own PRNG; after everything else so that the other streams keep their positions)
	nr, na := 40, 6
	if run.Tier == "thorough" {
		nr, na = 1200, 60
	}
	reservedFamily(run.Seed, nr)
	for i := 0; i < na && cpgen.E2EFailures < 3; i++ {
		e2eAttrCase(run.Seed, i)
	}
	run.Finish("case = one fetch history (reset + responses) over a generated transactional log; non-trivial = distinct history that delivered at least one message")
}
