// Harness for C20 (package mocks): shared plumbing – recording ErrorReporter, observable partitioners,
// token formats of the line protocol (see lean/SaramaVerif/Driver/C20.lean for the grammar).
package main

import (
	"fmt"
	"hash"
	"sort"
	"strconv"
	"strings"
	"sync"
	"time"

	"github.com/Shopify/sarama"
)

const waitStep = 4 * time.Second

// ---------------------------------------------------------------- specs on the op line

type expSpec struct {
	res   int  // -1 = success, else scripted error code
	chk   byte // 'n' none, 'p' passes, 'f' fails, 'o' fails on odd partition
	ccode int
}

func (e expSpec) String() string {
	r := "S"
	if e.res >= 0 {
		r = "E" + strconv.Itoa(e.res)
	}
	c := string(e.chk)
	if e.chk == 'f' || e.chk == 'o' {
		c += strconv.Itoa(e.ccode)
	}
	return r + "/" + c
}

func parseExp(s string) (expSpec, bool) {
	ps := strings.Split(s, "/")
	if len(ps) != 2 || ps[0] == "" || ps[1] == "" {
		return expSpec{}, false
	}
	e := expSpec{res: -1, chk: ps[1][0]}
	if ps[0] != "S" {
		if ps[0][0] != 'E' {
			return e, false
		}
		e.res = atoi(ps[0][1:])
	}
	switch e.chk {
	case 'n', 'p':
	case 'f', 'o':
		e.ccode = atoi(ps[1][1:])
	default:
		return e, false
	}
	return e, true
}

// verdict of the checker for a message whose Partition field holds p: -1 = accepts
func (e expSpec) verdict(p int32) int {
	switch e.chk {
	case 'f':
		return e.ccode
	case 'o':
		if p%2 != 0 {
			return e.ccode
		}
	}
	return -1
}

type msgSpec struct {
	id, topic int
	key       int64
	part0     int32
}

func (m msgSpec) String() string { return fmt.Sprintf("%d,%d,%d,%d", m.id, m.topic, m.key, m.part0) }

func parseMsg(s string) (msgSpec, bool) {
	ps := strings.Split(s, ",")
	if len(ps) != 4 {
		return msgSpec{}, false
	}
	k, _ := strconv.ParseInt(ps[2], 10, 64)
	return msgSpec{id: atoi(ps[0]), topic: atoi(ps[1]), key: k, part0: int32(atoi(ps[3]))}, true
}

func atoi(s string) int { n, _ := strconv.Atoi(s); return n }

func topicName(t int) string { return "t" + strconv.Itoa(t) }
func topicID(s string) int   { return atoi(strings.TrimPrefix(s, "t")) }

// ---------------------------------------------------------------- errors with identity

// codeErr is every error value the harness hands to the mocks: kind 's' scripted, 'c' checker, 'p' partitioner.
type codeErr struct {
	kind byte
	code int
	id   int // message the error was produced for (-1: scripted)
}

func (e *codeErr) Error() string { return fmt.Sprintf("%c%d@%d", e.kind, e.code, e.id) }

// canonical name of an error that came back from a mock
func errName(err error) string {
	if err == nil {
		return "nil"
	}
	if ce, ok := err.(*codeErr); ok {
		return fmt.Sprintf("E%c%d", ce.kind, ce.code)
	}
	if err.Error() == "No more expectations set on mock" {
		return "Eo0"
	}
	return "E?" + strings.ReplaceAll(err.Error(), " ", "_")
}

// ---------------------------------------------------------------- recording reporter / observation context

type report struct {
	text string // canonical form (same as the Lean driver's showReport)
	id   int    // message it can be attributed to (-1 unknown)
}

type pcall struct {
	id     int
	n      int32
	choice int32
	err    error
}

type obs struct {
	mu      sync.Mutex
	reports []report
	calls   []pcall
	seen    map[int]int32 // message id -> msg.Partition seen by the checker
	tick    chan struct{}
	route   map[int]*obs // multi-mock cases: mock handle -> the mock's own observer (ticks)
}

func newObs() *obs { return &obs{seen: map[int]int32{}, tick: make(chan struct{}, 1<<16)} }

func (o *obs) signal() {
	select {
	case o.tick <- struct{}{}:
	default:
	}
}

// waitTicks waits for n "message handling started" events.
func (o *obs) waitTicks(n int) bool {
	for i := 0; i < n; i++ {
		select {
		case <-o.tick:
		case <-time.After(waitStep):
			return false
		}
	}
	return true
}

func errArg(a interface{}) (code, id int) {
	s, _ := a.(string)
	at := strings.IndexByte(s, '@')
	if len(s) < 2 || at < 0 {
		return -1, -1
	}
	return atoi(s[1:at]), atoi(s[at+1:])
}

func (o *obs) Errorf(format string, a ...interface{}) {
	r := report{id: -1}
	arg := func(i int) interface{} {
		if i < len(a) {
			return a[i]
		}
		return "?"
	}
	key := func() string { return fmt.Sprintf("%d/%v", topicID(fmt.Sprint(arg(0))), arg(1)) }
	switch format {
	case "No more expectation set on this mock producer to handle the input message.":
		r.text = "noexp"
	case "Insufficient expectations set on this mock producer to handle the input messages.":
		r.text = "insuff"
	case "Expected to exhaust all expectations, but %d are left.":
		r.text = fmt.Sprintf("left%v", arg(0))
	case "Check function returned an error: %s":
		c, id := errArg(arg(0))
		r.text, r.id = fmt.Sprintf("chk%d", c), id
	case "Partitioner returned an error: %s":
		c, id := errArg(arg(0))
		r.text, r.id = fmt.Sprintf("part%d", c), id
	case "No expectations set for %s/%d":
		r.text = "noexp" + key()
	case "Unexpected offset when calling ConsumePartition for %s/%d. Expected %d, got %d.":
		r.text = fmt.Sprintf("off%s:%v:%v", key(), arg(2), arg(3))
	case "Expectations set on %s/%d, but no partition consumer was started.":
		r.text = "ns" + key()
	case "Expected the errors channel for %s/%d to be drained on close, but found %d errors.":
		r.text = fmt.Sprintf("ed%s:%v", key(), arg(2))
	case "Expected the messages channel for %s/%d to be drained on close, but found %d messages.":
		r.text = fmt.Sprintf("md%s:%v", key(), arg(2))
	case "Unexpected call to Topics. Initialize the mock's topic metadata with SetTopicMetadata.",
		"Unexpected call to Partitions. Initialize the mock's topic metadata with SetTopicMetadata.":
		r.text = "nometa"
	default:
		r.text = "other:" + strings.ReplaceAll(format, " ", "_")
	}
	o.mu.Lock()
	o.reports = append(o.reports, r)
	o.mu.Unlock()
	if r.text == "noexp" {
		o.signal()
	}
}

// take returns the reports recorded so far and forgets them.
func (o *obs) take() []report {
	o.mu.Lock()
	defer o.mu.Unlock()
	r := o.reports
	o.reports = nil
	return r
}

// kinds strips numbers from canonical report/outcome texts: the shape of a deviation for signatures.
func kinds(xs []string) string {
	out := make([]string, len(xs))
	for i, x := range xs {
		b := []byte{}
		for j := 0; j < len(x); j++ {
			c := x[j]
			if c >= 'a' && c <= 'z' || c >= 'A' && c <= 'Z' {
				b = append(b, c)
			} else if c == ':' && strings.HasPrefix(x, "other") {
				b = append(b, x[j:]...)
				break
			}
		}
		out[i] = string(b)
	}
	return strings.Join(out, "+")
}

func texts(rs []report) []string {
	out := make([]string, len(rs))
	for i, r := range rs {
		out[i] = r.text
	}
	return out
}

// ---------------------------------------------------------------- partitioners

// decHash is a hash.Hash32 whose sum is the decimal number written to it (so every uint32 hash is reachable).
type decHash struct{ b []byte }

func (h *decHash) Write(p []byte) (int, error) { h.b = append(h.b, p...); return len(p), nil }
func (h *decHash) Sum(b []byte) []byte         { return b }
func (h *decHash) Reset()                      { h.b = h.b[:0] }
func (h *decHash) Size() int                   { return 4 }
func (h *decHash) BlockSize() int              { return 1 }
func (h *decHash) Sum32() uint32 {
	n, _ := strconv.ParseUint(string(h.b), 10, 32)
	return uint32(n)
}

var _ hash.Hash32 = &decHash{}

type customPart struct {
	kind string
	arg  int
}

func (c *customPart) RequiresConsistency() bool { return false }
func (c *customPart) Partition(m *sarama.ProducerMessage, n int32) (int32, error) {
	id, key := msgIDKey(m)
	switch c.kind {
	case "cerr":
		return 0, &codeErr{'p', c.arg, id}
	case "cecho":
		return n, nil
	case "cfix":
		return int32(c.arg), nil
	default: // cmix
		if key%5 == 0 {
			return 0, &codeErr{'p', int(key), id}
		}
		return int32(key - 2), nil
	}
}

type msgMeta struct {
	id  int
	key int64
	h   int // mock the message is meant for (multi-mock cases)
}

func msgIDKey(m *sarama.ProducerMessage) (int, int64) {
	if mm, ok := m.Metadata.(msgMeta); ok {
		return mm.id, mm.key
	}
	return -1, 0
}

// watched wraps the partitioner under test's collaborator: records every call (in the order the mock makes them).
type watched struct {
	inner sarama.Partitioner
	o     *obs
}

func (w *watched) RequiresConsistency() bool { return w.inner.RequiresConsistency() }
func (w *watched) Partition(m *sarama.ProducerMessage, n int32) (int32, error) {
	c, err := w.inner.Partition(m, n)
	id, _ := msgIDKey(m)
	w.o.mu.Lock()
	w.o.calls = append(w.o.calls, pcall{id, n, c, err})
	w.o.mu.Unlock()
	w.o.signal()
	if w.o.route != nil {
		if mm, ok := m.Metadata.(msgMeta); ok && w.o.route[mm.h] != nil {
			w.o.route[mm.h].signal()
		}
	}
	return c, err
}

func validPart(name string) bool {
	switch name {
	case "manual", "hash", "fnv", "rr", "cecho", "cmix":
		return true
	}
	return strings.HasPrefix(name, "cerr") || strings.HasPrefix(name, "cfix")
}

func partCtor(name string, o *obs) sarama.PartitionerConstructor {
	return func(topic string) sarama.Partitioner {
		var in sarama.Partitioner
		switch {
		case name == "manual":
			in = sarama.NewManualPartitioner(topic)
		case name == "hash":
			in = sarama.NewCustomHashPartitioner(func() hash.Hash32 { return &decHash{} })(topic)
		case name == "fnv":
			in = sarama.NewHashPartitioner(topic)
		case name == "rr":
			in = sarama.NewRoundRobinPartitioner(topic)
		case name == "cecho" || name == "cmix":
			in = &customPart{kind: name}
		case strings.HasPrefix(name, "cerr"):
			in = &customPart{kind: "cerr", arg: atoi(name[4:])}
		default:
			in = &customPart{kind: "cfix", arg: atoi(name[4:])}
		}
		return &watched{in, o}
	}
}

func buildMsg(m msgSpec) *sarama.ProducerMessage {
	return &sarama.ProducerMessage{
		Topic:     topicName(m.topic),
		Key:       sarama.StringEncoder(strconv.FormatInt(m.key, 10)),
		Value:     sarama.StringEncoder("v" + strconv.Itoa(m.id)),
		Partition: m.part0,
		Metadata:  msgMeta{id: m.id, key: m.key},
	}
}

func sortedCopy(xs []string) []string {
	c := append([]string(nil), xs...)
	sort.Strings(c)
	return c
}
