package main

import (
	"fmt"
	"strings"
	"sync"
	"time"

	"github.com/Shopify/sarama"
	"github.com/Shopify/sarama/mocks"
	"verif/harness/hlib"
)

// Oracle-only family (no model line): k goroutines yield n messages each on ONE mock partition consumer whose
// channel buffer is small, while a reader receives from Messages(). The statement of C20 for the consumer mock:
// the partition delivers the yielded messages in order with consecutive offsets (1,2,3,... in this tree) and the
// high-water mark is last offset + 1 - whatever the schedule of the yielding goroutines (reserving the offset and
// entering the channel must be one step).  Op line: `cyield <k> <n> <buf> <rounds>`.
func runCYield(toks []string) {
	line := strings.Join(toks, " ")
	if len(toks) != 5 {
		ioFail("cyield-bad-line", line, "want: cyield <k> <n> <buf> <rounds>")
		return
	}
	k, n, buf, rounds := atoi(toks[1]), atoi(toks[2]), atoi(toks[3]), atoi(toks[4])
	run.Case(line)
	run.Count("cyield")
	for r := 0; r < rounds; r++ {
		o := newObs()
		cfg := mocks.NewTestConfig()
		cfg.ChannelBufferSize = buf
		c := mocks.NewConsumer(o, cfg)
		h := c.ExpectConsumePartition("t0", 0, mocks.AnyOffset)
		pc, err := c.ConsumePartition("t0", 0, 0)
		if err != nil {
			ioFail("consumer-consume-of-expected-partition-fails", line, err.Error())
			return
		}
		start := make(chan struct{})
		var wg sync.WaitGroup
		for g := 0; g < k; g++ {
			wg.Add(1)
			go func(g int) {
				defer wg.Done()
				<-start
				for i := 0; i < n; i++ {
					h.YieldMessage(&sarama.ConsumerMessage{Value: []byte(fmt.Sprintf("%d.%d", g, i))})
				}
			}(g)
		}
		close(start)
		total := k * n
		bad := ""
		last := make([]int, k) // next per-goroutine sequence number: each yielder's own messages stay in its order
		deadline := time.After(4 * waitStep)
	read:
		for want := int64(1); want <= int64(total); want++ {
			select {
			case m, ok := <-pc.Messages():
				if !ok {
					bad = "closed"
					break read
				}
				var g, i int
				fmt.Sscanf(string(m.Value), "%d.%d", &g, &i)
				if m.Offset != want && bad == "" {
					bad = fmt.Sprintf("round %d: message #%d received from Messages() has offset %d, want %d (yielded by goroutine %d as its #%d)", r, want, m.Offset, want, g, i)
				}
				if g >= 0 && g < k {
					if i != last[g] && bad == "" {
						bad = fmt.Sprintf("round %d: goroutine %d's message #%d delivered when its #%d was due", r, g, i, last[g])
					}
					last[g] = i + 1
				}
			case <-deadline:
				timeouts++
				ioFail("consumer-mock-does-not-return:concurrent-yield", line, fmt.Sprintf("round %d: message #%d of %d did not arrive", r, want, total))
				return
			}
		}
		if !within(2*waitStep, wg.Wait) {
			timeouts++
			ioFail("consumer-mock-does-not-return:concurrent-yield", line, "yielders did not return")
			return
		}
		if bad != "" {
			ioFail("consumer-offsets-not-consecutive-under-concurrent-yield", line, bad)
			return
		}
		if hw := h.HighWaterMarkOffset(); hw != int64(total)+1 {
			ioFail("consumer-wrong-high-water-mark", line, fmt.Sprintf("round %d: HighWaterMarkOffset %d after %d concurrent yields, want %d", r, hw, total, total+1))
			return
		}
		_ = c.Close()
		if reps := texts(o.take()); len(reps) != 0 {
			ioFail("consumer-reporter-calls:cyield:want[]got["+kinds(reps)+"]", line, fmt.Sprint(reps))
			return
		}
		run.Nontrivial(fmt.Sprintf("%s#%d", line, r))
	}
}

// genCYield: appended after every other case, from its own PRNG (the other streams are unchanged).
func genCYield(seed uint64, cases int) {
	r := hlib.NewRand(seed ^ 0xC20C20)
	for i := 0; i < cases && timeouts <= 3; i++ {
		k := r.Range(2, 8)
		n := r.Pick(20, 50, 100, 200)
		buf := r.Pick(0, 1, 1, 2, 4, 16)
		runCYield([]string{"cyield", fmt.Sprint(k), fmt.Sprint(n), fmt.Sprint(buf), "3"})
	}
}
