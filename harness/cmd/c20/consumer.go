package main

import (
	"fmt"
	"sort"
	"strconv"
	"strings"

	"github.com/Shopify/sarama"
	"github.com/Shopify/sarama/mocks"
)

type ckey struct {
	t int
	p int32
}

func (k ckey) String() string { return fmt.Sprintf("%d/%d", k.t, k.p) }

// what the statement of C20 says about one registered partition (the oracle's own book-keeping)
type pcBook struct {
	h        *mocks.PartitionConsumer
	expOff   int64
	yields   int64 // YieldMessage calls that did not find the channel full
	nextRead int64 // offset the next message received must carry
	bufM     int   // messages buffered
	bufE     []int // error codes buffered, in order
	closed   bool
	consumed bool
	dm, de   bool
}

func parseCKey(s string, n int) (ckey, []int64, bool) {
	ps := strings.Split(s, ",")
	if len(ps) != n {
		return ckey{}, nil, false
	}
	var rest []int64
	for _, x := range ps[2:] {
		v, _ := strconv.ParseInt(x, 10, 64)
		rest = append(rest, v)
	}
	return ckey{atoi(ps[0]), int32(atoi(ps[1]))}, rest, true
}

func guarded(f func()) (panicked bool) {
	defer func() {
		if r := recover(); r != nil {
			panicked = true
		}
	}()
	f()
	return false
}

func consErrCode(err error) string {
	if ce, ok := err.(*codeErr); ok {
		return strconv.Itoa(ce.code)
	}
	return "?" + strings.ReplaceAll(err.Error(), " ", "_")
}

// runConsumerLine executes one consumer case on the real mock and judges it with the property oracle.
func runConsumerLine(toks []string) (string, string) {
	line := strings.Join(toks, " ")
	if len(toks) < 2 {
		return line, "bad-op"
	}
	buf := atoi(toks[1])
	o := newObs()
	cfg := mocks.NewTestConfig()
	cfg.ChannelBufferSize = buf
	c := mocks.NewConsumer(o, cfg)
	books := map[ckey]*pcBook{}
	var order []ckey
	hasMeta := false
	var ans []string
	bad := func() (string, string) { return line, "bad-op" }
	reps := func() []string { return texts(o.take()) }
	check := func(op string, got, want []string, sorted bool) {
		g, w := got, want
		if sorted {
			g, w = sortedCopy(got), sortedCopy(want)
		}
		if !eqS(g, w) {
			ioFail(fmt.Sprintf("consumer-reporter-calls:%s:want[%s]got[%s]", strings.SplitN(op, ":", 2)[0], kinds(w), kinds(g)), line,
				fmt.Sprintf("op %s: reporter calls want %v got %v", op, w, g))
		}
	}
	// what closing a started partition consumer must report / return
	closeWant := func(k ckey, b *pcBook) []string {
		if !b.consumed {
			return []string{"ns" + k.String()}
		}
		var w []string
		if b.de && len(b.bufE) > 0 {
			w = append(w, fmt.Sprintf("ed%s:%d", k, len(b.bufE)))
		}
		if b.dm && b.bufM > 0 {
			w = append(w, fmt.Sprintf("md%s:%d", k, b.bufM))
		}
		return w
	}
	closeBook := func(b *pcBook) {
		if b.consumed {
			b.bufM, b.bufE, b.closed = 0, nil, true
		}
	}
	for _, t := range toks[2:] {
		if timeouts > 3 {
			return line, "timeout"
		}
		colon := strings.IndexByte(t, ':')
		name, arg := t, ""
		if colon >= 0 {
			name, arg = t[:colon], t[colon+1:]
		}
		switch name {
		case "e":
			k, r, ok := parseCKey(arg, 3)
			if !ok {
				return bad()
			}
			h := c.ExpectConsumePartition(topicName(k.t), k.p, r[0])
			if b, have := books[k]; have {
				if b.h != h {
					ioFail("consumer-expect-twice-gives-new-partition-consumer", line, t)
				}
			} else {
				books[k] = &pcBook{h: h, expOff: r[0], nextRead: 1}
				order = append(order, k)
			}
			ans = append(ans, "ok")
			check(t, reps(), nil, false)
		case "ym", "ye":
			n := 2
			if name == "ye" {
				n = 3
			}
			k, r, ok := parseCKey(arg, n)
			if !ok {
				return bad()
			}
			b := books[k]
			if b == nil {
				ans = append(ans, "bad")
				continue
			}
			full := len(b.h.Messages()) >= cap(b.h.Messages())
			if name == "ye" {
				full = len(b.h.Errors()) >= cap(b.h.Errors())
			}
			if full && !b.closed {
				ans = append(ans, "block") // the call would never return: not made
				continue
			}
			var panicked bool
			done := within(waitStep, func() {
				panicked = guarded(func() {
					if name == "ym" {
						b.h.YieldMessage(&sarama.ConsumerMessage{Value: []byte(strconv.FormatInt(b.yields+1, 10))})
					} else {
						b.h.YieldError(&codeErr{'s', int(r[0]), -1})
					}
				})
			})
			switch {
			case !done:
				timeouts++
				ioFail("consumer-mock-does-not-return:"+name, line, t)
				return line, "timeout"
			case panicked:
				ans = append(ans, "panic")
				if !b.closed {
					ioFail("consumer-yield-panics-on-open-partition", line, t)
				}
				if name == "ym" {
					b.yields++
				}
			default:
				ans = append(ans, "ok")
				if name == "ym" {
					b.yields++
					b.bufM++
				} else {
					b.bufE = append(b.bufE, int(r[0]))
				}
			}
			check(t, reps(), nil, false)
		case "dm", "de", "pa", "rm", "re", "pc":
			k, _, ok := parseCKey(arg, 2)
			if !ok {
				return bad()
			}
			b := books[k]
			if b == nil {
				ans = append(ans, "bad")
				continue
			}
			switch name {
			case "dm":
				b.h.ExpectMessagesDrainedOnClose()
				b.dm = true
				ans = append(ans, "ok")
				check(t, reps(), nil, false)
			case "de":
				b.h.ExpectErrorsDrainedOnClose()
				b.de = true
				ans = append(ans, "ok")
				check(t, reps(), nil, false)
			case "pa":
				if guarded(b.h.AsyncClose) {
					ans = append(ans, "panic")
					ioFail("consumer-asyncclose-panics", line, t)
				} else {
					ans = append(ans, "ok")
				}
				b.closed = true
				check(t, reps(), nil, false)
			case "rm":
				select {
				case m, ok := <-b.h.Messages():
					if !ok {
						ans = append(ans, "closed")
						if !b.closed || b.bufM > 0 {
							ioFail("consumer-messages-channel-closed-unexpectedly", line, t)
						}
						break
					}
					ans = append(ans, fmt.Sprintf("m%d", m.Offset))
					// the property: scripted messages in order, consecutive offsets, right topic/partition
					if m.Offset != b.nextRead {
						ioFail("consumer-offsets-not-consecutive", line, fmt.Sprintf("%s: got offset %d, want %d", t, m.Offset, b.nextRead))
					}
					if string(m.Value) != strconv.FormatInt(b.nextRead, 10) {
						ioFail("consumer-messages-out-of-order", line, fmt.Sprintf("%s: got the message yielded as number %s, want number %d", t, m.Value, b.nextRead))
					}
					if m.Topic != topicName(k.t) || m.Partition != k.p {
						ioFail("consumer-message-wrong-topic-partition", line, fmt.Sprintf("%s: %s/%d", t, m.Topic, m.Partition))
					}
					b.nextRead = m.Offset + 1
					if b.bufM > 0 {
						b.bufM--
					}
				default:
					ans = append(ans, "empty")
					if b.bufM > 0 {
						ioFail("consumer-yielded-message-not-available", line, t)
					}
				}
				check(t, reps(), nil, false)
			case "re":
				select {
				case e, ok := <-b.h.Errors():
					if !ok {
						ans = append(ans, "closed")
						if !b.closed || len(b.bufE) > 0 {
							ioFail("consumer-errors-channel-closed-unexpectedly", line, t)
						}
						break
					}
					ans = append(ans, "e"+consErrCode(e.Err))
					if len(b.bufE) == 0 || consErrCode(e.Err) != strconv.Itoa(b.bufE[0]) {
						ioFail("consumer-errors-out-of-order", line, fmt.Sprintf("%s: got %s, buffered %v", t, consErrCode(e.Err), b.bufE))
					}
					if e.Topic != topicName(k.t) || e.Partition != k.p {
						ioFail("consumer-error-wrong-topic-partition", line, fmt.Sprintf("%s: %s/%d", t, e.Topic, e.Partition))
					}
					if len(b.bufE) > 0 {
						b.bufE = b.bufE[1:]
					}
				default:
					ans = append(ans, "empty")
					if len(b.bufE) > 0 {
						ioFail("consumer-yielded-error-not-available", line, t)
					}
				}
				check(t, reps(), nil, false)
			case "pc":
				var err error
				if !within(waitStep, func() { err = b.h.Close() }) {
					timeouts++
					ioFail("consumer-mock-does-not-return:pc", line, t)
					return line, "timeout"
				}
				got := reps()
				want := closeWant(k, b)
				check(t, got, want, false)
				if err != nil && err.Error() == "The partition consumer was never started" {
					ans = append(ans, "ns["+strings.Join(got, "+")+"]")
					if b.consumed {
						ioFail("consumer-close-claims-never-started", line, t)
					}
					break
				}
				var codes []string
				if ces, ok := err.(sarama.ConsumerErrors); ok {
					for _, ce := range ces {
						codes = append(codes, consErrCode(ce.Err))
					}
				} else if err != nil {
					codes = []string{"?" + strings.ReplaceAll(err.Error(), " ", "_")}
				}
				var wc []string
				for _, x := range b.bufE {
					wc = append(wc, strconv.Itoa(x))
				}
				if !b.consumed || !eqS(codes, wc) {
					ioFail("consumer-close-returns-wrong-errors", line, fmt.Sprintf("%s: returned %v, buffered %v, consumed %v", t, codes, wc, b.consumed))
				}
				cs := "-"
				if len(codes) > 0 {
					cs = strings.Join(codes, ",")
				}
				ans = append(ans, "cl["+cs+"|"+strings.Join(got, "+")+"]")
				closeBook(b)
			}
		case "cp":
			k, r, ok := parseCKey(arg, 3)
			if !ok {
				return bad()
			}
			pc, err := c.ConsumePartition(topicName(k.t), k.p, r[0])
			got := reps()
			b := books[k]
			switch {
			case b == nil:
				check(t, got, []string{"noexp" + k.String()}, false)
				if err == nil {
					ioFail("consumer-consume-of-unexpected-partition-succeeds", line, t)
					ans = append(ans, "cok["+strings.Join(got, "+")+"]")
				} else {
					ans = append(ans, "noexp["+strings.Join(got, "+")+"]")
				}
			case b.consumed:
				check(t, got, nil, false)
				if err == nil {
					ioFail("consumer-partition-consumed-twice", line, t)
					ans = append(ans, "cok["+strings.Join(got, "+")+"]")
				} else {
					ans = append(ans, "dup")
				}
			default:
				var w []string
				if b.expOff != mocks.AnyOffset && b.expOff != r[0] {
					w = []string{fmt.Sprintf("off%s:%d:%d", k, b.expOff, r[0])}
				}
				check(t, got, w, false)
				if err != nil {
					ioFail("consumer-consume-of-expected-partition-fails", line, t+": "+err.Error())
					ans = append(ans, "err")
					break
				}
				if pc != sarama.PartitionConsumer(b.h) {
					ioFail("consumer-consume-returns-other-partition-consumer", line, t)
				}
				b.consumed = true
				ans = append(ans, "cok["+strings.Join(got, "+")+"]")
			}
		case "cc":
			if !within(waitStep, func() { _ = c.Close() }) {
				timeouts++
				ioFail("consumer-mock-does-not-return:cc", line, t)
				return line, "timeout"
			}
			got := reps()
			var want []string
			for _, k := range order {
				want = append(want, closeWant(k, books[k])...)
				closeBook(books[k])
			}
			check(t, got, want, true)
			ans = append(ans, "ok["+strings.Join(sortedCopy(got), "+")+"]")
		case "hw":
			var xs []string
			for tn, pm := range c.HighWaterMarks() {
				for p, h := range pm {
					k := ckey{topicID(tn), p}
					xs = append(xs, fmt.Sprintf("%s=%d", k, h))
					b := books[k]
					if b == nil {
						ioFail("consumer-hwm-of-unknown-partition", line, k.String())
					} else if h != b.yields+1 || b.h.HighWaterMarkOffset() != h {
						ioFail("consumer-wrong-high-water-mark", line, fmt.Sprintf("%s: HighWaterMarks %d, HighWaterMarkOffset %d, want %d", k, h, b.h.HighWaterMarkOffset(), b.yields+1))
					}
				}
			}
			if len(xs) != len(order) {
				ioFail("consumer-hwm-missing-partition", line, fmt.Sprintf("%d of %d", len(xs), len(order)))
			}
			sort.Strings(xs)
			ans = append(ans, "hw["+strings.Join(xs, ",")+"]")
			// the answer is the caller's to keep: scribbling over it must not reach the mock or a later answer
			first := c.HighWaterMarks()
			for tn, pm := range first {
				for p := range pm {
					pm[p] = -77
				}
				pm[99] = -5
				_ = tn
			}
			first["bogus"] = map[int32]int64{0: 1}
			var ys []string
			for tn, pm := range c.HighWaterMarks() {
				for p, h := range pm {
					ys = append(ys, fmt.Sprintf("%s=%d", ckey{topicID(tn), p}, h))
				}
			}
			sort.Strings(ys)
			if !eqS(xs, ys) {
				ioFail("consumer-hwm-answer-shares-state", line, fmt.Sprintf("after the caller changed an earlier answer: %v, before %v", ys, xs))
			}
			check(t, reps(), nil, false)
		case "md":
			md := map[string][]int32{}
			if arg != "-" {
				for _, e := range strings.Split(arg, ";") {
					kv := strings.Split(e, "=")
					if len(kv) != 2 {
						return bad()
					}
					ps := []int32{}
					if kv[1] != "" {
						for _, x := range strings.Split(kv[1], ".") {
							ps = append(ps, int32(atoi(x)))
						}
					}
					md[topicName(atoi(kv[0]))] = ps
				}
			}
			c.SetTopicMetadata(md)
			hasMeta = true
			ans = append(ans, "ok")
			check(t, reps(), nil, false)
		case "tp":
			ts, err := c.Topics()
			got := reps()
			if !hasMeta {
				check(t, got, []string{"nometa"}, false)
				ans = append(ans, "oob["+strings.Join(got, "+")+"]")
				if err == nil {
					ioFail("consumer-topics-without-metadata-succeeds", line, t)
				}
				break
			}
			check(t, got, nil, false)
			var xs []string
			for _, x := range ts {
				xs = append(xs, strconv.Itoa(topicID(x)))
			}
			sort.Strings(xs)
			ans = append(ans, "tp["+strings.Join(xs, ",")+"]")
		case "pt":
			ps, err := c.Partitions(topicName(atoi(arg)))
			got := reps()
			switch {
			case !hasMeta:
				check(t, got, []string{"nometa"}, false)
				ans = append(ans, "oob["+strings.Join(got, "+")+"]")
			case err != nil:
				check(t, got, nil, false)
				ans = append(ans, "unk")
			default:
				check(t, got, nil, false)
				s := "-"
				if len(ps) > 0 {
					xs := make([]string, len(ps))
					for i, p := range ps {
						xs[i] = strconv.Itoa(int(p))
					}
					s = strings.Join(xs, ",")
				}
				ans = append(ans, "pt["+s+"]")
			}
		default:
			return bad()
		}
	}
	return line, strings.Join(ans, " ")
}
