package main

import (
	"fmt"
	"sort"
	"strconv"
	"strings"

	"github.com/Shopify/sarama"
	"github.com/Shopify/sarama/mocks"
	"verif/harness/hlib"
)

// Multi-mock cases: several producer mocks built from ONE *sarama.Config (one partitioner constructor) and
// configured with SetPartitions from map objects the test keeps – and later changes, or hands to another mock.
// The partition counts a mock partitions over are the counts it was GIVEN (its own snapshot): the Lean model keeps
// a TopicCfg per mock, so any aliasing between a mock's table and the caller's map or another mock's table shows
// as a correspondence difference and as an oracle failure (partitioner called with a count that was not configured).

type mmock struct {
	h     int
	p     *prodRun
	ops   []string // the equivalent single-mock op tokens (SetPartitions(map) = one p: token per entry at call time)
	sent  []int
	reps  [][]report // sync: reports after each shown op
	sres  map[int]syncRes
	shown []shown
}

func mapEntries(s string) (map[string]int32, bool) {
	m := map[string]int32{}
	if s == "-" || s == "" {
		return m, true
	}
	for _, e := range strings.Split(s, ";") {
		kv := strings.Split(e, "=")
		if len(kv) != 2 {
			return nil, false
		}
		m[topicName(atoi(kv[0]))] = int32(atoi(kv[1]))
	}
	return m, true
}

func cut(s string) (int, string) {
	i := strings.IndexByte(s, ',')
	if i < 0 {
		return atoi(s), ""
	}
	return atoi(s[:i]), s[i+1:]
}

func runMultiLine(toks []string) (string, string) {
	line := strings.Join(toks, " ")
	if len(toks) < 4 || !validPart(toks[3]) {
		return line, "bad-op"
	}
	shared := newObs()
	shared.route = map[int]*obs{}
	cfg := mocks.NewTestConfig()
	cfg.Producer.Return.Successes = true
	cfg.Producer.Return.Errors = true
	cfg.Producer.Partitioner = partCtor(toks[3], shared)
	mm := map[int]*mmock{}
	var order []*mmock
	maps := map[int]map[string]int32{}
	type ref struct {
		m *mmock
		i int
	}
	var global []ref
	note := func(m *mmock, tok string) {
		global = append(global, ref{m, len(m.ops)})
		m.ops = append(m.ops, tok)
	}
	timedOut := false
	fail := func(what string) {
		if !timedOut {
			timedOut = true
			timeouts++
			ioFail("multi-mock-does-not-return:"+what, line, "no progress within "+waitStep.String())
		}
	}
	for _, t := range toks[4:] {
		if timedOut {
			break
		}
		colon := strings.IndexByte(t, ':')
		if colon < 0 {
			return line, "bad-op"
		}
		name, arg := t[:colon], t[colon+1:]
		switch name {
		case "m":
		case "n":
			h, k := cut(arg)
			if mm[h] != nil || (k != "a" && k != "s") {
				return line, "bad-op"
			}
			o := newObs()
			shared.route[h] = o
			p := &prodRun{async: k == "a", retS: true, retE: true, o: o, msgs: map[int]*sarama.ProducerMessage{}}
			if p.async {
				p.ap = mocks.NewAsyncProducer(o, cfg)
				p.startCollectors()
			} else {
				p.sp = mocks.NewSyncProducer(o, cfg)
			}
			mm[h] = &mmock{h: h, p: p, sres: map[int]syncRes{}}
			order = append(order, mm[h])
		case "mk":
			id, rest := cut(arg)
			m, ok := mapEntries(rest)
			if !ok {
				return line, "bad-op"
			}
			maps[id] = m
		case "mu":
			ps := strings.Split(arg, ",")
			if len(ps) != 3 || maps[atoi(ps[0])] == nil {
				return line, "bad-op"
			}
			maps[atoi(ps[0])][topicName(atoi(ps[1]))] = int32(atoi(ps[2])) // the test changes ITS map
		case "mx":
			ps := strings.Split(arg, ",")
			if len(ps) != 2 || maps[atoi(ps[0])] == nil {
				return line, "bad-op"
			}
			delete(maps[atoi(ps[0])], topicName(atoi(ps[1])))
		case "sp":
			h, rest := cut(arg)
			m, mp := mm[h], maps[atoi(rest)]
			if m == nil || mp == nil {
				return line, "bad-op"
			}
			// the counts configured are the map's entries NOW
			var ks []string
			for k := range mp {
				ks = append(ks, k)
			}
			sort.Strings(ks)
			for _, k := range ks {
				m.ops = append(m.ops, fmt.Sprintf("p:%d,%d", topicID(k), mp[k]))
			}
			if m.p.async {
				m.p.ap.SetPartitions(mp)
			} else {
				m.p.sp.SetPartitions(mp)
			}
		case "sd":
			h, rest := cut(arg)
			m := mm[h]
			if m == nil {
				return line, "bad-op"
			}
			m.ops = append(m.ops, "d:"+rest)
			m.p.setDefault(int32(atoi(rest)))
		case "x":
			h, rest := cut(arg)
			m := mm[h]
			e, ok := parseExp(rest)
			if m == nil || !ok {
				return line, "bad-op"
			}
			m.ops = append(m.ops, "x:"+rest)
			m.p.expect(e)
		case "s":
			h, rest := cut(arg)
			m := mm[h]
			ms, ok := parseMsg(rest)
			if m == nil || !ok {
				return line, "bad-op"
			}
			note(m, "s:"+rest)
			pm := buildMsg(ms)
			pm.Metadata = msgMeta{id: ms.id, key: ms.key, h: h}
			m.p.msgs[ms.id] = pm
			m.sent = append(m.sent, ms.id)
			if m.p.async {
				if !m.p.sendAsync(pm) {
					fail("input-blocked")
				} else if !m.p.o.waitTicks(1) {
					fail("input-not-handled")
				}
			} else {
				pt, off, err := m.p.sp.SendMessage(pm)
				m.sres[ms.id] = syncRes{pt, off, err}
				m.reps = append(m.reps, m.p.o.take())
			}
		case "c":
			m := mm[atoi(arg)]
			if m == nil {
				return line, "bad-op"
			}
			note(m, "c")
			if m.p.async {
				if !m.p.closeAsync() {
					fail("close")
				}
			} else {
				_ = m.p.sp.Close()
				m.reps = append(m.reps, m.p.o.take())
			}
		default:
			return line, "bad-op"
		}
	}
	for _, m := range order { // async mocks the line did not close: shut the goroutine down
		if m.p.async && !m.p.closed {
			pending := m.p.o.take()
			m.p.closeAsync()
			m.p.o.take()
			m.p.o.mu.Lock()
			m.p.o.reports = pending
			m.p.o.mu.Unlock()
		}
	}
	if timedOut {
		return line, "timeout"
	}
	shared.mu.Lock()
	calls := map[int]pcall{}
	ncalls := map[int]int{}
	for _, c := range shared.calls {
		calls[c.id] = c
		ncalls[c.id]++
	}
	shared.mu.Unlock()
	for _, m := range order {
		if m.p.async {
			m.shown = assembleAsync(m.p, m.ops, m.sent, ncalls)
		} else {
			k := 0
			for _, t := range m.ops {
				if t != "c" && !strings.HasPrefix(t, "s:") {
					continue
				}
				var reps []string
				if k < len(m.reps) {
					reps = texts(m.reps[k])
				}
				k++
				if t == "c" {
					m.shown = append(m.shown, shown{tok: t, reps: reps})
					continue
				}
				ms, _ := parseMsg(t[2:])
				pm, r := m.p.msgs[ms.id], m.sres[ms.id]
				m.shown = append(m.shown, shown{sync: true, tok: t, reps: reps, outs: []string{strconv.Itoa(int(r.part)),
					strconv.FormatInt(r.off, 10), errName(r.err), strconv.Itoa(int(pm.Partition)), strconv.FormatInt(pm.Offset, 10)}})
			}
		}
		oracleProducer(m.p, line, m.ops, m.shown, calls, ncalls)
	}
	// the answer in the order of the line
	next := map[*mmock]int{}
	var ans []string
	for _, g := range global {
		i := next[g.m]
		next[g.m]++
		if i < len(g.m.shown) {
			ans = append(ans, g.m.shown[i].text())
		} else {
			ans = append(ans, "missing")
		}
	}
	return line, strings.Join(ans, " ")
}

// genMulti: 2-4 mocks (async and sync), 1-3 map objects; SetPartitions calls with kept maps, later changes of those
// maps by the test, re-configuration of single mocks, interleaved with sends; count-dependent partitioners mostly.
func genMulti(r *hlib.Rand, avar, svar string) []string {
	parts := []string{"rr", "rr", "rr", "rr", "cecho", "cecho", "hash", "fnv", "manual"}
	part := parts[r.Intn(len(parts))]
	toks := []string{"multi", avar, svar, part}
	nm := r.Range(2, 4)
	for h := 0; h < nm; h++ {
		k := "a"
		if r.Bool() {
			k = "s"
		}
		toks = append(toks, fmt.Sprintf("n:%d,%s", h, k))
	}
	nmaps := r.Range(1, 3)
	ntopics := r.Range(1, 2)
	count := func() int { return r.Pick(1, 2, 2, 3, 4, 5, 7) }
	entries := func() string {
		var es []string
		for t := 0; t < ntopics; t++ {
			if r.Chance(3, 4) {
				es = append(es, fmt.Sprintf("%d=%d", t, count()))
			}
		}
		if len(es) == 0 {
			return "-"
		}
		return strings.Join(es, ";")
	}
	for id := 0; id < nmaps; id++ {
		toks = append(toks, fmt.Sprintf("mk:%d,%s", id, entries()))
	}
	// first configuration: most mocks from a shared map
	for h := 0; h < nm; h++ {
		if r.Chance(4, 5) {
			toks = append(toks, fmt.Sprintf("sp:%d,%d", h, r.Intn(nmaps)))
		}
	}
	id := 0
	nexp := make([]int, nm)
	steps := r.Range(6, 30)
	for i := 0; i < steps; i++ {
		h := r.Intn(nm)
		switch r.Intn(12) {
		case 0:
			toks = append(toks, fmt.Sprintf("mu:%d,%d,%d", r.Intn(nmaps), r.Intn(ntopics), count()))
		case 1:
			if r.Chance(1, 3) {
				toks = append(toks, fmt.Sprintf("mx:%d,%d", r.Intn(nmaps), r.Intn(ntopics)))
			} else {
				toks = append(toks, fmt.Sprintf("mk:%d,%s", r.Intn(nmaps), entries()))
			}
		case 2, 3:
			toks = append(toks, fmt.Sprintf("sp:%d,%d", h, r.Intn(nmaps)))
		case 4:
			toks = append(toks, fmt.Sprintf("sd:%d,%d", h, count()))
		default:
			if nexp[h] == 0 || r.Chance(1, 5) {
				e := expSpec{res: -1, chk: 'n'}
				if r.Chance(1, 5) {
					e.res = r.Range(1, 90)
				}
				k := r.Range(1, 4)
				for j := 0; j < k; j++ {
					toks = append(toks, fmt.Sprintf("x:%d,%s", h, e.String()))
				}
				nexp[h] += k
			}
			m := msgSpec{id: id, topic: r.Intn(ntopics), key: int64(r.Range(0, 1000)), part0: int32(r.Range(0, 5))}
			if part == "hash" {
				m.key = int64(uint32(r.U64()))
			}
			id++
			toks = append(toks, fmt.Sprintf("s:%d,%s", h, m.String()))
			if nexp[h] > 0 {
				nexp[h]--
			}
		}
	}
	for h := 0; h < nm; h++ {
		if r.Chance(4, 5) {
			toks = append(toks, fmt.Sprintf("c:%d", h))
		}
	}
	return toks
}
