// Harness for C20: the mocks of package github.com/Shopify/sarama/mocks (async producer, sync producer, consumer)
// driven with random scripts x inputs x partitioners x topic configurations, a recording ErrorReporter,
// concurrent senders; canonical outcome lists + reporter calls are compared with the Lean model (svdrv_c20) and
// judged by the property oracle (the statement of C20, documented behaviour).
package main

import (
	"fmt"
	"strconv"
	"strings"

	"verif/harness/hlib"
)

var run *hlib.Run

var sigSeen = map[string]int{}

// ioFail reports an oracle failure; at most 4 witnesses per signature and run (hlib keeps 200 records in all, and a
// frequent known finding must not crowd out a different one).
func ioFail(sig, input, detail string) {
	if quiet {
		return
	}
	sigSeen[sig]++
	run.Count("oracle:" + sig)
	if sigSeen[sig] > 4 {
		return
	}
	run.IOFail(sig, input, detail)
}

func emitLine(toks []string) {
	if len(toks) > 0 && toks[0] == "cyield" { // oracle-only family: no model line
		run.Safe(strings.Join(toks, " "), func() string { runCYield(toks); return "" })
		return
	}
	var line, ans string
	op := strings.Join(toks, " ")
	ans = run.Safe(op, func() string {
		var a string
		switch toks[0] {
		case "async", "sync":
			line, a = runProducerLine(toks)
		case "cons":
			line, a = runConsumerLine(toks)
		case "multi":
			line, a = runMultiLine(toks)
		default:
			line, a = op, "bad-op"
		}
		return a
	})
	if line == "" {
		line = op
	}
	run.Emit(line, ans)
	run.Count(toks[0])
	if ans != "bad-op" && ans != "timeout" && ans != "panic" {
		if strings.Contains(ans, "S:") || strings.Contains(ans, ",nil,") || strings.Contains(ans, " m1") {
			run.Nontrivial(line)
		}
	}
}

var edgeHashes = []int64{0, 1, 2147483647, 2147483648, 2147483649, 4294967295, 4294967294, 1073741824, 3221225472}

func genProducer(r *hlib.Rand, async bool, avar, svar string) []string {
	parts := []string{"manual", "manual", "manual", "hash", "hash", "fnv", "fnv", "rr", "rr", "rr", "cmix", "cmix", "cecho",
		"cfix" + strconv.Itoa(r.Range(-2, 9)), "cerr" + strconv.Itoa(r.Range(1, 9))}
	part := parts[r.Intn(len(parts))]
	sarOwn := part == "hash" || part == "fnv" || part == "rr"
	var toks []string
	retS, retE := true, true
	if async {
		if r.Chance(3, 10) {
			retS, retE = r.Bool(), r.Bool()
		}
		b := func(x bool) string {
			if x {
				return "1"
			}
			return "0"
		}
		toks = []string{"async", avar, b(retS), b(retE), part}
	} else {
		toks = []string{"sync", svar, part}
	}
	conc := 0
	if r.Chance(3, 10) {
		conc = r.Range(2, 6)
		toks = append(toks, "m:conc"+strconv.Itoa(conc))
	}
	if async && r.Chance(1, 3) {
		toks = append(toks, "m:buf"+strconv.Itoa(r.Pick(0, 1, 2, 16)))
	}
	ntopics := r.Range(1, 3)
	count := func() int {
		if sarOwn || r.Chance(4, 5) {
			return r.Pick(1, 1, 2, 3, 3, 4, 5, 7, 16, 2147483647)
		}
		return r.Pick(0, -1, -3)
	}
	cfgTok := func() string {
		if r.Bool() {
			return "d:" + strconv.Itoa(count())
		}
		return fmt.Sprintf("p:%d,%d", r.Intn(ntopics), count())
	}
	for i, n := 0, r.Intn(3); i < n; i++ {
		toks = append(toks, cfgTok())
	}
	nexp := r.Range(0, 12)
	if r.Chance(1, 10) {
		nexp = r.Range(20, 60)
	}
	var exps []string
	for i := 0; i < nexp; i++ {
		e := expSpec{res: -1, chk: 'n'}
		if r.Chance(2, 5) {
			e.res = r.Range(1, 90)
		}
		switch r.Intn(10) {
		case 0, 1:
			e.chk = 'p'
		case 2, 3:
			e.chk, e.ccode = 'f', r.Range(1, 9)
		case 4, 5:
			e.chk, e.ccode = 'o', r.Range(1, 9)
		}
		exps = append(exps, "x:"+e.String())
	}
	nmsg := nexp + r.Range(-3, 3)
	if nmsg < 0 {
		nmsg = 0
	}
	var sends []string
	for i := 0; i < nmsg; i++ {
		m := msgSpec{id: i, topic: r.Intn(ntopics), part0: int32(r.Range(-1, 9))}
		switch part {
		case "hash":
			m.key = int64(uint32(r.U64()))
			if r.Chance(1, 3) {
				m.key = edgeHashes[r.Intn(len(edgeHashes))]
			}
		case "cmix":
			m.key = int64(r.Range(-6, 20))
		default:
			m.key = int64(r.Range(0, 1000))
		}
		sends = append(sends, m.String())
	}
	// sync: group some consecutive messages into SendMessages batches
	var sendToks []string
	for i := 0; i < len(sends); {
		if !async && conc == 0 && r.Chance(1, 4) {
			k := r.Range(0, 4)
			if i+k > len(sends) {
				k = len(sends) - i
			}
			if k == 0 {
				sendToks = append(sendToks, "b:-")
				if r.Bool() {
					sendToks = append(sendToks, "s:"+sends[i])
					i++
				}
			} else {
				sendToks = append(sendToks, "b:"+strings.Join(sends[i:i+k], ";"))
				i += k
			}
			continue
		}
		sendToks = append(sendToks, "s:"+sends[i])
		i++
	}
	if !async && conc == 0 && r.Chance(1, 6) { // a batch that asks for more than is scripted
		var extra []string
		for j := 0; j < r.Range(1, 3); j++ {
			extra = append(extra, msgSpec{id: nmsg + j, topic: r.Intn(ntopics), key: int64(r.Range(1, 99)), part0: int32(r.Range(0, 5))}.String())
		}
		sendToks = append(sendToks, "b:"+strings.Join(extra, ";"))
	}
	if conc == 0 && r.Chance(3, 10) {
		// phases: some expectations / configuration changes arrive between the sends
		var body []string
		xi, si := 0, 0
		for xi < len(exps) || si < len(sendToks) {
			switch {
			case xi < len(exps) && (si >= len(sendToks) || r.Chance(3, 5)):
				body = append(body, exps[xi])
				xi++
			default:
				body = append(body, sendToks[si])
				si++
			}
			if r.Chance(1, 12) {
				body = append(body, cfgTok())
			}
		}
		toks = append(toks, body...)
	} else {
		toks = append(toks, exps...)
		toks = append(toks, sendToks...)
	}
	return append(toks, "c")
}

func genConsumer(r *hlib.Rand) []string {
	buf := r.Pick(0, 1, 2, 3, 8, 8, 64, 64)
	toks := []string{"cons", strconv.Itoa(buf)}
	type kk struct {
		t int
		p int32
	}
	var keys []kk
	nk := r.Range(1, 4)
	for i := 0; i < nk; i++ {
		keys = append(keys, kk{r.Intn(2), int32(r.Intn(3))})
	}
	key := func() string { k := keys[r.Intn(len(keys))]; return fmt.Sprintf("%d,%d", k.t, k.p) }
	anyKey := func() string {
		if r.Chance(1, 8) {
			return fmt.Sprintf("%d,%d", r.Intn(3), r.Intn(4))
		}
		return key()
	}
	off := func() int {
		return r.Pick(-1000, -1000, 0, 0, 1, 5, -1, -2, 100)
	}
	nops := r.Range(4, 40)
	// most cases register first (the usual use), some interleave everything
	if r.Chance(4, 5) {
		for _, k := range keys {
			toks = append(toks, fmt.Sprintf("e:%d,%d,%d", k.t, k.p, off()))
		}
	}
	for i := 0; i < nops; i++ {
		switch r.Intn(24) {
		case 0:
			toks = append(toks, fmt.Sprintf("e:%s,%d", anyKey(), off()))
		case 1, 2, 3, 4, 5, 6:
			toks = append(toks, "ym:"+key())
		case 7, 8, 9:
			toks = append(toks, fmt.Sprintf("ye:%s,%d", key(), r.Range(1, 60)))
		case 10:
			toks = append(toks, "dm:"+key())
		case 11:
			toks = append(toks, "de:"+key())
		case 12, 13, 14:
			toks = append(toks, fmt.Sprintf("cp:%s,%d", anyKey(), off()))
		case 15, 16, 17:
			toks = append(toks, "rm:"+key())
		case 18, 19:
			toks = append(toks, "re:"+key())
		case 20:
			toks = append(toks, "hw")
		case 21:
			switch r.Intn(4) {
			case 0:
				toks = append(toks, "tp")
			case 1:
				toks = append(toks, "pt:"+strconv.Itoa(r.Intn(3)))
			default:
				mds := []string{"md:0=0.1;1=2", "md:-", "md:2=;0=5", "md:1=0.1.2"}
				toks = append(toks, mds[r.Intn(len(mds))])
			}
		case 22:
			if r.Chance(1, 3) {
				toks = append(toks, "pa:"+key())
			} else {
				toks = append(toks, "pc:"+key())
			}
		case 23:
			if r.Chance(1, 4) {
				toks = append(toks, "cc")
			}
		}
	}
	// every close order: close the partitions / the consumer in a random order, some twice, then look again
	var tail []string
	for _, k := range keys {
		s := fmt.Sprintf("%d,%d", k.t, k.p)
		switch r.Intn(4) {
		case 0:
			tail = append(tail, "pc:"+s)
		case 1:
			tail = append(tail, "pa:"+s, "pc:"+s)
		case 2:
			tail = append(tail, "pa:"+s)
		}
		if r.Chance(1, 3) {
			tail = append(tail, "rm:"+s)
		}
	}
	tail = append(tail, "cc")
	if r.Bool() {
		tail = append(tail, "hw")
	}
	for i := len(tail) - 1; i > 0; i-- {
		j := r.Intn(i + 1)
		tail[i], tail[j] = tail[j], tail[i]
	}
	toks = append(toks, tail...)
	if r.Chance(1, 3) {
		toks = append(toks, "cc", "rm:"+key(), "re:"+key())
	}
	return toks
}

func main() {
	run = hlib.Start("C20")
	rnd := hlib.NewRand(run.Seed)
	if lines := run.ReplayLines(); lines != nil {
		for _, l := range lines {
			emitLine(strings.Fields(l))
		}
		run.Finish("replay")
		return
	}
	avar, svar := probeAsync(), probeSync()
	run.Set("variant_async_checker", avar)
	run.Set("variant_sync_return", svar)
	n := run.N
	if n == 0 {
		n = 6000
		if run.Tier == "thorough" {
			n = 120000
		}
	}
	// fixed grid first: the smallest witnesses of every row of the statement
	for _, l := range []string{
		"async " + avar + " 1 1 manual x:S/n x:E5/n x:S/n s:0,0,0,3 s:1,0,0,4 s:2,0,0,5 s:3,0,0,6 c",
		"async " + avar + " 1 1 manual x:S/f7 x:S/n s:0,0,0,3 s:1,0,0,4 c",
		"async " + avar + " 1 1 manual x:E5/f7 s:0,0,0,3 c",
		"async " + avar + " 1 1 cerr4 x:S/n x:S/n s:0,0,0,3 c",
		"async " + avar + " 0 0 rr d:3 x:S/n x:E9/n x:S/f2 s:0,0,0,0 s:1,0,0,0 s:2,0,0,0 c",
		"sync " + svar + " manual x:S/n x:E4/n x:S/p s:0,0,0,8 s:1,0,0,2 s:2,0,0,0 s:3,0,0,1 c",
		"sync " + svar + " rr d:2 x:S/n x:S/n x:E4/n x:S/n b:0,0,0,0;1,0,0,0;2,0,0,0 b:3,0,0,0;4,0,0,0 s:5,0,0,0 c",
		// one table of partition counts given to two mocks, then only the sync mock is re-configured / the test reuses its map
		"multi " + avar + " " + svar + " rr n:0,a n:1,s mk:0,0=4 sp:0,0 sp:1,0 mk:1,0=2 sp:1,1 x:0,S/n x:0,S/n x:0,S/n x:0,S/n x:1,S/n x:1,S/n x:1,S/n " +
			"s:0,0,0,0,0 s:1,1,0,0,0 s:0,2,0,0,0 s:1,3,0,0,0 s:0,4,0,0,0 s:1,5,0,0,0 s:0,6,0,0,0 c:0 c:1",
		"multi " + avar + " " + svar + " rr n:0,s mk:0,0=3 sp:0,0 mu:0,0,5 x:0,S/n x:0,S/n x:0,S/n x:0,S/n s:0,0,0,0,0 s:0,1,0,0,0 s:0,2,0,0,0 s:0,3,0,0,0 c:0",
		"multi " + avar + " " + svar + " cecho n:0,a n:1,a mk:0,- sp:0,0 sp:1,0 mu:0,0,7 mk:1,1=2 sp:1,1 x:0,S/n x:1,S/n s:0,0,0,0,0 s:1,1,0,0,0 s:0,2,1,0,0 c:0 c:1",
		"cons 8 e:0,0,5 cp:0,0,5 ym:0,0 ym:0,0 ye:0,0,3 rm:0,0 hw re:0,0 pc:0,0 cc",
		"cons 8 e:0,0,5 e:0,1,-1000 cp:0,0,6 cp:0,1,77 cp:1,1,0 cp:0,0,5 dm:0,0 de:0,0 ym:0,0 ye:0,0,3 cc hw",
		"cons 1 e:0,0,0 ym:0,0 ym:0,0 pc:0,0 cp:0,0,0 pa:0,0 ym:0,0 rm:0,0 rm:0,0 hw tp pt:1 md:1=0.1 tp pt:1 pt:2",
	} {
		emitLine(strings.Fields(l))
	}
	for i := 0; i < n && timeouts <= 3; i++ {
		switch i % 4 {
		case 0:
			emitLine(genProducer(rnd, true, avar, svar))
		case 1:
			emitLine(genProducer(rnd, false, avar, svar))
		case 2:
			emitLine(genMulti(rnd, avar, svar))
		default:
			emitLine(genConsumer(rnd))
		}
	}
	ncy := 24
	if run.Tier == "thorough" {
		ncy = 200
	}
	run.Safe("cyield", func() string { genCYield(run.Seed, ncy); return "" })
	run.Finish("producer cases: random script (success/error x checker none/passes/fails/fails-on-odd-partition) x inputs (script length -3..+3) x " +
		"partitioner (manual, hash with arbitrary uint32 hashes, FNV hash, round-robin, custom: error/echo/constant/mixed) x topic partition " +
		"configuration (default/override, changed between inputs) x Return.Successes/Errors x sequential|2-6 concurrent senders; " +
		"multi cases: 2-4 async/sync mocks from one Config, SetPartitions from 1-3 map objects the test keeps, changes afterwards and hands to other mocks, " +
		"re-configuration of single mocks, interleaved with sends (round robin / echo / hash partitioners); " +
		"cyield (oracle only): 2-8 goroutines yield 20-200 messages each on one partition consumer with channel buffer 0-16 while a reader checks " +
		"consecutive offsets, per-yielder order and the high-water mark, 3 rounds per case; " +
		"consumer cases: random registrations, yields, reads, consumes (right/wrong/any offset, unknown partition), drain demands, every " +
		"order of partition Close/AsyncClose/consumer Close. non-trivial = distinct op line with at least one success outcome / delivered message")
}
