package main

import (
	"fmt"
	"sort"
	"strconv"
	"strings"
	"sync"
	"time"

	"github.com/Shopify/sarama"
	"github.com/Shopify/sarama/mocks"
)

var timeouts int // cases that hit a timeout in this run (generation of that kind stops after a few)

type topicCfg struct {
	dflt int32
	ovr  map[int]int32
}

func (t *topicCfg) parts(topic int) int32 {
	if n, ok := t.ovr[topic]; ok {
		return n
	}
	return t.dflt
}

// what one shown op produced on the implementation
type shown struct {
	sync bool
	tok  string   // the op token
	outs []string // async: sorted outcomes; sync: the five result fields; batch: err + per-message pairs
	reps []string
}

func (s shown) text() string {
	t := s.tok
	switch {
	case t == "c":
		return "c[" + strings.Join(s.reps, "+") + "]"
	case strings.HasPrefix(t, "b:"):
		return "b[" + s.outs[0] + ";" + strings.Join(s.outs[1:], ",") + "|" + strings.Join(s.reps, "+") + "]"
	}
	m, _ := parseMsg(t[2:])
	sep := "+"
	if s.sync {
		sep = ","
	}
	return strconv.Itoa(m.id) + "[" + strings.Join(s.outs, sep) + "|" + strings.Join(s.reps, "+") + "]"
}

type prodRun struct {
	async      bool
	retS, retE bool
	part       string
	o          *obs
	ap         *mocks.AsyncProducer
	sp         *mocks.SyncProducer
	nexp       int
	msgs       map[int]*sarama.ProducerMessage
	// async collection
	cmu    sync.Mutex
	succ   []int           // message ids received on Successes()
	errs   map[int][]error // message id -> errors received on Errors()
	cdone  sync.WaitGroup
	closed bool
}

func (p *prodRun) checker(e expSpec) mocks.MessageChecker {
	return func(m *sarama.ProducerMessage) error {
		id, _ := msgIDKey(m)
		p.o.mu.Lock()
		p.o.seen[id] = m.Partition
		p.o.mu.Unlock()
		if v := e.verdict(m.Partition); v >= 0 {
			return &codeErr{'c', v, id}
		}
		return nil
	}
}

func (p *prodRun) valueChecker(e expSpec) mocks.ValueChecker {
	return func(val []byte) error {
		id := atoi(strings.TrimPrefix(string(val), "v"))
		if v := e.verdict(0); v >= 0 {
			return &codeErr{'c', v, id}
		}
		return nil
	}
}

func (p *prodRun) expect(e expSpec) {
	useValue := p.nexp%2 == 1 && e.chk != 'o'
	p.nexp++
	var serr error
	if e.res >= 0 {
		serr = &codeErr{'s', e.res, -1}
	}
	if p.async {
		switch {
		case e.chk == 'n' && e.res < 0:
			p.ap.ExpectInputAndSucceed()
		case e.chk == 'n':
			p.ap.ExpectInputAndFail(serr)
		case useValue && e.res < 0:
			p.ap.ExpectInputWithCheckerFunctionAndSucceed(p.valueChecker(e))
		case useValue:
			p.ap.ExpectInputWithCheckerFunctionAndFail(p.valueChecker(e), serr)
		case e.res < 0:
			p.ap.ExpectInputWithMessageCheckerFunctionAndSucceed(p.checker(e))
		default:
			p.ap.ExpectInputWithMessageCheckerFunctionAndFail(p.checker(e), serr)
		}
		return
	}
	switch {
	case e.chk == 'n' && e.res < 0:
		p.sp.ExpectSendMessageAndSucceed()
	case e.chk == 'n':
		p.sp.ExpectSendMessageAndFail(serr)
	case useValue && e.res < 0:
		p.sp.ExpectSendMessageWithCheckerFunctionAndSucceed(p.valueChecker(e))
	case useValue:
		p.sp.ExpectSendMessageWithCheckerFunctionAndFail(p.valueChecker(e), serr)
	case e.res < 0:
		p.sp.ExpectSendMessageWithMessageCheckerFunctionAndSucceed(p.checker(e))
	default:
		p.sp.ExpectSendMessageWithMessageCheckerFunctionAndFail(p.checker(e), serr)
	}
}

func (p *prodRun) setDefault(n int32) {
	if p.async {
		p.ap.SetDefaultPartitions(n)
	} else {
		p.sp.SetDefaultPartitions(n)
	}
}

func (p *prodRun) setParts(t int, n int32) {
	m := map[string]int32{topicName(t): n}
	if p.async {
		p.ap.SetPartitions(m)
	} else {
		p.sp.SetPartitions(m)
	}
}

func (p *prodRun) startCollectors() {
	p.errs = map[int][]error{}
	p.cdone.Add(2)
	go func() {
		defer p.cdone.Done()
		for m := range p.ap.Successes() {
			id, _ := msgIDKey(m)
			p.cmu.Lock()
			p.succ = append(p.succ, id)
			p.cmu.Unlock()
		}
	}()
	go func() {
		defer p.cdone.Done()
		for e := range p.ap.Errors() {
			id, _ := msgIDKey(e.Msg)
			p.cmu.Lock()
			p.errs[id] = append(p.errs[id], e.Err)
			p.cmu.Unlock()
		}
	}()
}

func within(d time.Duration, f func()) bool {
	done := make(chan struct{})
	go func() { f(); close(done) }()
	select {
	case <-done:
		return true
	case <-time.After(d):
		return false
	}
}

func (p *prodRun) sendAsync(m *sarama.ProducerMessage) bool {
	select {
	case p.ap.Input() <- m:
		return true
	case <-time.After(waitStep):
		return false
	}
}

func (p *prodRun) closeAsync() bool {
	if p.closed {
		return true
	}
	p.closed = true
	if !within(2*waitStep, func() { _ = p.ap.Close() }) {
		return false
	}
	return within(2*waitStep, p.cdone.Wait)
}

type syncRes struct {
	part int32
	off  int64
	err  error
}

// runProducerLine executes one producer case on the real mock. Returns the op line to emit (concurrent cases:
// the inputs in the order the mock handled them) and the implementation's canonical answer.
func runProducerLine(toks []string) (string, string) {
	async := toks[0] == "async"
	p := &prodRun{async: async, o: newObs(), msgs: map[int]*sarama.ProducerMessage{}}
	var hdr, ops []string
	if async {
		if len(toks) < 5 || !validPart(toks[4]) {
			return strings.Join(toks, " "), "bad-op"
		}
		hdr, ops = toks[:5], toks[5:]
		p.retS, p.retE, p.part = toks[2] == "1", toks[3] == "1", toks[4]
	} else {
		if len(toks) < 3 || !validPart(toks[2]) {
			return strings.Join(toks, " "), "bad-op"
		}
		hdr, ops = toks[:3], toks[3:]
		p.part = toks[2]
	}
	conc, buf := 0, 256
	for _, t := range ops {
		if strings.HasPrefix(t, "m:conc") {
			conc = atoi(t[6:])
		} else if strings.HasPrefix(t, "m:buf") {
			buf = atoi(t[5:])
		}
	}
	cfg := mocks.NewTestConfig()
	cfg.ChannelBufferSize = buf
	cfg.Producer.Return.Successes = p.retS
	cfg.Producer.Return.Errors = p.retE
	cfg.Producer.Partitioner = partCtor(p.part, p.o)
	if async {
		p.ap = mocks.NewAsyncProducer(p.o, cfg)
		p.startCollectors()
	} else {
		p.sp = mocks.NewSyncProducer(p.o, cfg)
	}
	timedOut := false
	fail := func(what string) {
		if !timedOut {
			timedOut = true
			timeouts++
			detail := "no progress within " + waitStep.String()
			if what == "input-not-handled" {
				detail = "an input was accepted but within " + waitStep.String() + " neither the partitioner was consulted for it nor the missing expectation reported"
			}
			ioFail(hdr[0]+"-mock-does-not-return:"+what, strings.Join(toks, " "), detail)
		}
	}
	sres := map[int]syncRes{}
	var perOpReps [][]report // sync: reports taken after each shown op
	var batchOuts [][]string
	var sentOrder []int

	if conc > 0 {
		// setup tokens first, then all sends concurrently, then close
		var specs []msgSpec
		for _, t := range ops {
			switch {
			case strings.HasPrefix(t, "x:"):
				e, _ := parseExp(t[2:])
				p.expect(e)
			case strings.HasPrefix(t, "d:"):
				p.setDefault(int32(atoi(t[2:])))
			case strings.HasPrefix(t, "p:"):
				ps := strings.Split(t[2:], ",")
				p.setParts(atoi(ps[0]), int32(atoi(ps[1])))
			case strings.HasPrefix(t, "s:"):
				m, _ := parseMsg(t[2:])
				specs = append(specs, m)
				p.msgs[m.id] = buildMsg(m)
			}
		}
		var wg sync.WaitGroup
		var rmu sync.Mutex
		for g := 0; g < conc; g++ {
			wg.Add(1)
			go func(g int) {
				defer wg.Done()
				for i := g; i < len(specs); i += conc {
					m := p.msgs[specs[i].id]
					if async {
						if !p.sendAsync(m) {
							return
						}
					} else {
						pt, off, err := p.sp.SendMessage(m)
						rmu.Lock()
						sres[specs[i].id] = syncRes{pt, off, err}
						rmu.Unlock()
					}
				}
			}(g)
		}
		if !within(3*waitStep, wg.Wait) {
			fail("concurrent-send")
		}
		if async && !timedOut && !p.o.waitTicks(len(specs)) {
			fail("input-not-handled")
		}
		// handling order: partitioner calls, then the inputs that met no expectation (by id)
		p.o.mu.Lock()
		called := map[int]bool{}
		for _, c := range p.o.calls {
			if !called[c.id] {
				sentOrder = append(sentOrder, c.id)
			}
			called[c.id] = true
		}
		p.o.mu.Unlock()
		var rest []int
		for _, m := range specs {
			if !called[m.id] {
				rest = append(rest, m.id)
			}
		}
		sort.Ints(rest)
		sentOrder = append(sentOrder, rest...)
		byID := map[int]msgSpec{}
		for _, m := range specs {
			byID[m.id] = m
		}
		// rewrite the op list: setup tokens, the sends in handling order, close
		var nops []string
		for _, t := range ops {
			if !strings.HasPrefix(t, "s:") && t != "c" {
				nops = append(nops, t)
			}
		}
		for _, id := range sentOrder {
			nops = append(nops, "s:"+byID[id].String())
		}
		hasClose := false
		for _, t := range ops {
			if t == "c" {
				hasClose = true
			}
		}
		if hasClose {
			nops = append(nops, "c")
		}
		ops = nops
		if async {
			if !p.closeAsync() {
				fail("close")
			}
		} else if hasClose {
			_ = p.sp.Close()
		}
	} else {
		for _, t := range ops {
			if timedOut {
				break
			}
			switch {
			case t == "c":
				if async {
					if !p.closeAsync() {
						fail("close")
					}
				} else {
					_ = p.sp.Close()
					perOpReps = append(perOpReps, p.o.take())
				}
			case strings.HasPrefix(t, "m:"):
			case strings.HasPrefix(t, "x:"):
				e, ok := parseExp(t[2:])
				if !ok {
					return strings.Join(toks, " "), "bad-op"
				}
				p.expect(e)
			case strings.HasPrefix(t, "d:"):
				p.setDefault(int32(atoi(t[2:])))
			case strings.HasPrefix(t, "p:"):
				ps := strings.Split(t[2:], ",")
				if len(ps) != 2 {
					return strings.Join(toks, " "), "bad-op"
				}
				p.setParts(atoi(ps[0]), int32(atoi(ps[1])))
			case strings.HasPrefix(t, "s:"):
				m, ok := parseMsg(t[2:])
				if !ok {
					return strings.Join(toks, " "), "bad-op"
				}
				pm := buildMsg(m)
				p.msgs[m.id] = pm
				sentOrder = append(sentOrder, m.id)
				if async {
					if !p.sendAsync(pm) {
						fail("input-blocked")
					} else if !p.o.waitTicks(1) {
						fail("input-not-handled")
					}
				} else {
					pt, off, err := p.sp.SendMessage(pm)
					sres[m.id] = syncRes{pt, off, err}
					perOpReps = append(perOpReps, p.o.take())
				}
			case strings.HasPrefix(t, "b:") && !async:
				var pms []*sarama.ProducerMessage
				if t[2:] != "-" {
					for _, ms := range strings.Split(t[2:], ";") {
						m, ok := parseMsg(ms)
						if !ok {
							return strings.Join(toks, " "), "bad-op"
						}
						pm := buildMsg(m)
						p.msgs[m.id] = pm
						pms = append(pms, pm)
					}
				}
				err := p.sp.SendMessages(pms)
				bo := []string{errName(err)}
				for _, pm := range pms {
					bo = append(bo, fmt.Sprintf("%d:%d", pm.Partition, pm.Offset))
				}
				batchOuts = append(batchOuts, bo)
				perOpReps = append(perOpReps, p.o.take())
			default:
				return strings.Join(toks, " "), "bad-op"
			}
		}
		if async && !p.closed {
			p.closeAsync() // a line without Close: shut the goroutine down anyway
			p.o.take()
		}
	}
	line := strings.Join(append(append([]string{}, hdr...), ops...), " ")
	if timedOut {
		return line, "timeout"
	}

	// ---- assemble what was shown, op by op
	var all []shown
	p.o.mu.Lock()
	calls := map[int]pcall{}
	ncalls := map[int]int{}
	for _, c := range p.o.calls {
		calls[c.id] = c
		ncalls[c.id]++
	}
	p.o.mu.Unlock()
	if async {
		all = assembleAsync(p, ops, sentOrder, ncalls)
	} else {
		k, b := 0, 0
		var concReps []report
		if conc > 0 {
			concReps = p.o.take()
		}
		for _, t := range ops {
			var reps []string
			if conc == 0 && (t == "c" || strings.HasPrefix(t, "s:") || strings.HasPrefix(t, "b:")) {
				if k < len(perOpReps) {
					reps = texts(perOpReps[k])
				}
				k++
			}
			switch {
			case t == "c":
				if conc > 0 {
					for _, r := range concReps {
						if r.id < 0 && r.text != "noexp" {
							reps = append(reps, r.text)
						}
					}
				}
				all = append(all, shown{tok: t, reps: reps})
			case strings.HasPrefix(t, "s:"):
				m, _ := parseMsg(t[2:])
				pm := p.msgs[m.id]
				r := sres[m.id]
				if conc > 0 {
					for _, cr := range concReps {
						if cr.id == m.id {
							reps = append(reps, cr.text)
						}
					}
					if ncalls[m.id] == 0 {
						for i, cr := range concReps {
							if cr.id < 0 && cr.text == "noexp" {
								reps = append(reps, cr.text)
								concReps[i].text = "used"
								concReps[i].id = m.id
								break
							}
						}
					}
				}
				all = append(all, shown{sync: true, tok: t, reps: reps, outs: []string{strconv.Itoa(int(r.part)), strconv.FormatInt(r.off, 10),
					errName(r.err), strconv.Itoa(int(pm.Partition)), strconv.FormatInt(pm.Offset, 10)}})
			case strings.HasPrefix(t, "b:"):
				all = append(all, shown{tok: t, outs: batchOuts[b], reps: reps})
				b++
			}
		}
	}
	var ans []string
	for _, s := range all {
		ans = append(ans, s.text())
	}
	oracleProducer(p, line, ops, all, calls, ncalls)
	return line, strings.Join(ans, " ")
}

// assembleAsync builds what an async mock showed, op by op (after its Close): outcomes per message, reporter calls
// attributed to the message they name (no-expectation reports: to the inputs that met none, in order), the rest to Close.
func assembleAsync(p *prodRun, ops []string, sentOrder []int, ncalls map[int]int) []shown {
	var all []shown
	reps := p.o.take()
	perMsg := map[int][]string{}
	var closeReps []string
	var noexpIDs []int
	for _, id := range sentOrder {
		if ncalls[id] == 0 {
			noexpIDs = append(noexpIDs, id)
		}
	}
	for _, r := range reps {
		switch {
		case r.id >= 0:
			perMsg[r.id] = append(perMsg[r.id], r.text)
		case r.text == "noexp" && len(noexpIDs) > 0:
			perMsg[noexpIDs[0]] = append(perMsg[noexpIDs[0]], r.text)
			noexpIDs = noexpIDs[1:]
		default:
			closeReps = append(closeReps, r.text)
		}
	}
	nsucc := map[int]int{}
	for _, id := range p.succ {
		nsucc[id]++
	}
	for _, t := range ops {
		switch {
		case t == "c":
			all = append(all, shown{tok: t, reps: closeReps})
		case strings.HasPrefix(t, "s:"):
			m, _ := parseMsg(t[2:])
			pm := p.msgs[m.id]
			var outs []string
			for i := 0; i < nsucc[m.id]; i++ {
				outs = append(outs, fmt.Sprintf("S:%d:%d", pm.Partition, pm.Offset))
			}
			for _, e := range p.errs[m.id] {
				outs = append(outs, fmt.Sprintf("%s:%d", errName(e), pm.Partition))
			}
			sort.Strings(outs)
			all = append(all, shown{tok: t, outs: outs, reps: perMsg[m.id]})
		}
	}
	return all
}

func eqS(a, b []string) bool {
	if len(a) != len(b) {
		return false
	}
	for i := range a {
		if a[i] != b[i] {
			return false
		}
	}
	return true
}

// oracleProducer evaluates the statement of C20 (documented behaviour) on what the mock showed:
// i-th handled input <-> i-th expectation; partition = partitioner's answer for the configured count;
// offsets 1,2,... over the successes; exactly one outcome; reporter calls exactly for the listed deviations.
func oracleProducer(p *prodRun, line string, ops []string, all []shown, calls map[int]pcall, ncalls map[int]int) {
	pre := "sync"
	if p.async {
		pre = "async"
	}
	var queue []expSpec
	tc := &topicCfg{dflt: 32, ovr: map[int]int32{}}
	var off int64
	si := 0
	next := func() shown { s := all[si]; si++; return s }
	// handle one message against expectation e: the documented outcome
	type want struct {
		kind   string // "part", "chk", "succ", "fail"
		p      int32
		code   int
		usable bool
	}
	handle := func(e expSpec, m msgSpec) want {
		c, ok := calls[m.id]
		if !ok {
			ioFail(pre+"-partitioner-not-consulted", line, fmt.Sprintf("message %d met an expectation but the partitioner was never called", m.id))
			return want{}
		}
		if ncalls[m.id] != 1 {
			ioFail(pre+"-partitioner-consulted-more-than-once", line, fmt.Sprintf("message %d: %d calls", m.id, ncalls[m.id]))
		}
		if c.n != tc.parts(m.topic) {
			ioFail(pre+"-partitioner-got-wrong-partition-count", line,
				fmt.Sprintf("message %d topic %d: partitioner called with %d partitions, configured %d", m.id, m.topic, c.n, tc.parts(m.topic)))
		}
		if c.err != nil {
			ce, _ := c.err.(*codeErr)
			return want{kind: "part", p: m.part0, code: ce.code, usable: true}
		}
		p.o.mu.Lock()
		seen, saw := p.o.seen[m.id]
		p.o.mu.Unlock()
		if saw && seen != c.choice {
			ioFail(pre+"-checker-saw-wrong-partition", line, fmt.Sprintf("message %d: checker saw partition %d, partitioner chose %d", m.id, seen, c.choice))
		}
		if v := e.verdict(c.choice); v >= 0 {
			return want{kind: "chk", p: c.choice, code: v, usable: true}
		}
		if e.res < 0 {
			return want{kind: "succ", p: c.choice, usable: true}
		}
		return want{kind: "fail", p: c.choice, code: e.res, usable: true}
	}
	repsOf := func(w want) []string {
		switch w.kind {
		case "part":
			return []string{fmt.Sprintf("part%d", w.code)}
		case "chk":
			return []string{fmt.Sprintf("chk%d", w.code)}
		}
		return nil
	}
	checkReps := func(got, wantR []string, what string) {
		if !eqS(got, wantR) {
			ioFail(fmt.Sprintf("%s-reporter-calls:%s:want[%s]got[%s]", pre, what, kinds(wantR), kinds(got)), line,
				fmt.Sprintf("%s: reporter calls want %v got %v", what, wantR, got))
		}
	}
	for _, t := range ops {
		switch {
		case strings.HasPrefix(t, "x:"):
			e, _ := parseExp(t[2:])
			queue = append(queue, e)
		case strings.HasPrefix(t, "d:"):
			tc.dflt = int32(atoi(t[2:]))
		case strings.HasPrefix(t, "p:"):
			ps := strings.Split(t[2:], ",")
			tc.ovr[atoi(ps[0])] = int32(atoi(ps[1]))
		case t == "c":
			s := next()
			var w []string
			if len(queue) > 0 {
				w = []string{fmt.Sprintf("left%d", len(queue))}
			}
			checkReps(s.reps, w, "close")
		case strings.HasPrefix(t, "s:"):
			s := next()
			m, _ := parseMsg(t[2:])
			what := fmt.Sprintf("message %d", m.id)
			if len(queue) == 0 {
				checkReps(s.reps, []string{"noexp"}, "input-without-expectation")
				if p.async {
					if len(s.outs) != 0 {
						ioFail("async-outcome-for-input-without-expectation", line, fmt.Sprintf("%s: %v", what, s.outs))
					}
				} else if w := []string{"-1", "-1", "Eo0", strconv.Itoa(int(m.part0)), "0"}; !eqS(s.outs, w) {
					ioFail("sync-result-for-call-without-expectation", line, fmt.Sprintf("%s: want %v got %v", what, w, s.outs))
				}
				continue
			}
			e := queue[0]
			queue = queue[1:]
			w := handle(e, m)
			if !w.usable {
				continue
			}
			checkReps(s.reps, repsOf(w), "input-"+w.kind)
			if p.async {
				var wo []string
				switch w.kind {
				case "part":
					wo = []string{fmt.Sprintf("Ep%d:%d", w.code, w.p)}
				case "chk":
					wo = []string{fmt.Sprintf("Ec%d:%d", w.code, w.p)}
				case "succ":
					off++
					if p.retS {
						wo = []string{fmt.Sprintf("S:%d:%d", w.p, off)}
					}
				case "fail":
					if p.retE {
						wo = []string{fmt.Sprintf("Es%d:%d", w.code, w.p)}
					}
				}
				if eqS(s.outs, wo) {
					continue
				}
				if w.kind == "chk" && e.res < 0 && p.retS && eqS(s.outs, []string{wo[0], fmt.Sprintf("S:%d:%d", w.p, off+1)}) {
					off++ // the defect used up an offset; judge the following offsets relative to it
					ioFail("async-checker-error-and-success-for-one-message", line, fmt.Sprintf("%s: want %v got %v", what, wo, s.outs))
				} else if w.kind == "chk" && e.res >= 0 && p.retE && eqS(s.outs, sortedCopy([]string{wo[0], fmt.Sprintf("Es%d:%d", e.res, w.p)})) {
					ioFail("async-checker-error-and-scripted-error-for-one-message", line, fmt.Sprintf("%s: want %v got %v", what, wo, s.outs))
				} else if len(s.outs) != len(wo) {
					ioFail(fmt.Sprintf("async-outcome-count:%s:want%d-got%d", w.kind, len(wo), len(s.outs)), line, fmt.Sprintf("%s: want %v got %v", what, wo, s.outs))
				} else {
					ioFail(fmt.Sprintf("async-outcome-mismatch:%s:want[%s]got[%s]", w.kind, kinds(wo), kinds(s.outs)), line, fmt.Sprintf("%s: want %v got %v", what, wo, s.outs))
				}
				continue
			}
			var wo []string
			switch w.kind {
			case "part":
				wo = []string{"-1", "-1", fmt.Sprintf("Ep%d", w.code), strconv.Itoa(int(w.p)), "0"}
			case "chk":
				wo = []string{"-1", "-1", fmt.Sprintf("Ec%d", w.code), strconv.Itoa(int(w.p)), "0"}
			case "succ":
				off++
				wo = []string{strconv.Itoa(int(w.p)), strconv.FormatInt(off, 10), "nil", strconv.Itoa(int(w.p)), strconv.FormatInt(off, 10)}
			case "fail":
				wo = []string{"-1", "-1", fmt.Sprintf("Es%d", w.code), strconv.Itoa(int(w.p)), "0"}
			}
			if eqS(s.outs, wo) {
				continue
			}
			names := []string{"returned-partition", "returned-offset", "returned-error", "message-partition", "message-offset"}
			for i := range wo {
				if i < len(s.outs) && s.outs[i] != wo[i] {
					if i == 0 && w.kind == "succ" && s.outs[0] == "0" && eqS(s.outs[1:], wo[1:]) {
						ioFail("sync-sendmessage-returns-partition-0", line, fmt.Sprintf("%s: want %v got %v", what, wo, s.outs))
					} else {
						ioFail("sync-result-mismatch:"+w.kind+":"+names[i], line, fmt.Sprintf("%s: want %v got %v", what, wo, s.outs))
					}
					break
				}
			}
		case strings.HasPrefix(t, "b:"):
			s := next()
			var ms []msgSpec
			if t[2:] != "-" {
				for _, x := range strings.Split(t[2:], ";") {
					m, _ := parseMsg(x)
					ms = append(ms, m)
				}
			}
			if len(queue) < len(ms) {
				wo := []string{"Eo0"}
				for _, m := range ms {
					wo = append(wo, fmt.Sprintf("%d:0", m.part0))
				}
				checkReps(s.reps, []string{"insuff"}, "batch-insufficient")
				if !eqS(s.outs, wo) {
					ioFail("sync-batch-result-mismatch:insufficient", line, fmt.Sprintf("want %v got %v", wo, s.outs))
				}
				continue
			}
			es := queue[:len(ms)]
			queue = queue[len(ms):]
			wo := []string{"nil"}
			var wr []string
			stopped, usable := false, true
			for i, m := range ms {
				if stopped {
					wo = append(wo, fmt.Sprintf("%d:0", m.part0))
					continue
				}
				w := handle(es[i], m)
				if !w.usable {
					usable = false
					break
				}
				if w.kind == "succ" {
					off++
					wo = append(wo, fmt.Sprintf("%d:%d", w.p, off))
					continue
				}
				stopped = true
				wr = repsOf(w)
				wo[0] = map[string]string{"part": "Ep", "chk": "Ec", "fail": "Es"}[w.kind] + strconv.Itoa(w.code)
				wo = append(wo, fmt.Sprintf("%d:0", w.p))
			}
			if !usable {
				continue
			}
			checkReps(s.reps, wr, "batch")
			if !eqS(s.outs, wo) {
				ioFail("sync-batch-result-mismatch", line, fmt.Sprintf("want %v got %v", wo, s.outs))
			}
		}
	}
}

// probes: which variant does the tree under test match?

func probeAsync() string {
	toks := strings.Fields("async pinned 1 1 manual x:S/f7 s:0,0,0,3 c")
	_, ans := runProducerLineQuiet(toks)
	switch ans {
	case "0[Ec7:3+S:3:1|chk7] c[]":
		return "pinned"
	case "0[Ec7:3|chk7] c[]":
		return "fixed"
	}
	return "pinned"
}

func probeSync() string {
	toks := strings.Fields("sync zero manual x:S/n s:0,0,0,8 c")
	_, ans := runProducerLineQuiet(toks)
	if ans == "0[8,1,nil,8,1|] c[]" {
		return "chosen"
	}
	return "zero"
}

var quiet bool

func runProducerLineQuiet(toks []string) (string, string) {
	quiet = true
	defer func() { quiet = false }()
	return runProducerLine(toks)
}

var _ = time.Second
