// Harness for C06: committed offsets are marked offsets, and no mark is lost.
//
// Drives the REAL offsetManager / partitionOffsetManager of /repo:
//   - "wire" cases: NewOffsetManagerFromClient + ManagePartition + MarkOffset/ResetOffset/NextOffset/
//     AsyncClose + Commit() + Close() against a scripted group coordinator (sarama's MockBroker over TCP).
//     Application calls that must land while a commit is in flight are executed by the coordinator's
//     request handler, i.e. after flushToBroker built the request and before it sees the response.
//   - "fine" cases: the four steps of Commit() (constructRequest, coordinator(), handleResponse or the
//     error branch, releasePOMs) called one by one through the overlay, with arbitrary operations in between;
//     small alphabets are enumerated exhaustively.
// One op line = one whole case (replayable alone).  The canonical answer is compared with the Lean model
// (svdrv_c06); the property oracle below is evaluated on what the real code did, independently of the model.
package main

import (
	"errors"
	"fmt"
	"sort"
	"strconv"
	"strings"
	"sync"
	"time"

	"github.com/Shopify/sarama"
	"verif/harness/hlib"
)

var run *hlib.Run
var stressBlocks int // commit blocks the coordinator saw in the concurrent stream

// every case uses its own consumer group, so a request that reaches the coordinator late (after its case ended)
// is recognised and not attributed to the running case
var caseNo int

func nextGroup() string {
	caseNo++
	return fmt.Sprintf("g%d", caseNo)
}
const missing = 99999 // verdict "no entry in the response"

// ---------------------------------------------------------------------------------------------
// case description

type pair struct {
	o int64
	m int
}

type opT struct {
	kind string // mg mk rs nx ac cm cl cs lk rp rl
	p    int
	o    int64
	m    int
	atts []attT // cm (exactly one), cl
	lk   int    // lk
	rep  repT   // rp
	f    bool   // rl
	// mg with a fault script for the initial fetch: fr = Metadata.Retry.Max, fatts = one entry per attempt
	hasF  bool
	fr    int
	fatts []fattT
}

// one scripted attempt of the initial OffsetFetch
type fattT struct {
	lk  bool
	ans string // ok nc ld fe x k<code>
}

type repT struct {
	kind string // r e0 e1
	vs   []int  // r: per partition KError code or missing
}

type attT struct {
	lk  int // 1 ok, 0 RefreshCoordinator fails, 2 Coordinator fails
	rep repT
	win []opT
}

type caseT struct {
	real   bool // the real sarama client (NewClient against the mock broker) instead of the scripted one
	auto   bool
	rmax   int
	ret    bool
	ini    int64
	stores []*pair
	ops    []opT
}

func b01(b bool) string {
	if b {
		return "1"
	}
	return "0"
}

func metaStr(k int) string {
	if k == 0 {
		return ""
	}
	return "m" + strconv.Itoa(k)
}

func metaCode(s string) int {
	if s == "" {
		return 0
	}
	if strings.HasPrefix(s, "m") {
		if k, err := strconv.Atoi(s[1:]); err == nil {
			return k
		}
	}
	return -777
}

func (r repT) String() string {
	if r.kind != "r" {
		return r.kind
	}
	s := make([]string, len(r.vs))
	for i, v := range r.vs {
		if v == missing {
			s[i] = "x"
		} else {
			s[i] = strconv.Itoa(v)
		}
	}
	return "r" + strings.Join(s, ",")
}

func (a attT) String() string {
	s := fmt.Sprintf("a %d %s", a.lk, a.rep)
	for _, w := range a.win {
		s += " w " + w.String()
	}
	return s
}

func (o opT) String() string {
	switch o.kind {
	case "mg", "nx", "ac":
		if o.kind == "mg" && o.hasF {
			s := fmt.Sprintf("mg %d f %d", o.p, o.fr)
			for _, a := range o.fatts {
				s += " " + b01(a.lk) + a.ans
			}
			return s
		}
		return fmt.Sprintf("%s %d", o.kind, o.p)
	case "mk", "rs":
		return fmt.Sprintf("%s %d %d %d", o.kind, o.p, o.o, o.m)
	case "cm", "cl":
		s := o.kind
		for _, a := range o.atts {
			s += " " + a.String()
		}
		return s
	case "cs":
		return "cs"
	case "lk":
		return fmt.Sprintf("lk %d", o.lk)
	case "rp":
		return "rp " + o.rep.String()
	case "rl":
		return "rl " + b01(o.f)
	}
	return "??"
}

func (c *caseT) String() string {
	st := make([]string, len(c.stores))
	for i, s := range c.stores {
		if s == nil {
			st[i] = "n"
		} else {
			st[i] = fmt.Sprintf("%d:%d", s.o, s.m)
		}
	}
	hd := "seq"
	if c.real {
		hd = "seqr"
	}
	s := fmt.Sprintf("%s %s %d %s %d %s", hd, b01(c.auto), c.rmax, b01(c.ret), c.ini, strings.Join(st, ","))
	for _, o := range c.ops {
		s += " ; " + o.String()
	}
	return s
}

func parseRep(t string) (repT, bool) {
	if t == "e0" || t == "e1" || t == "e2" {
		return repT{kind: t}, true
	}
	if !strings.HasPrefix(t, "r") {
		return repT{}, false
	}
	r := repT{kind: "r"}
	for _, v := range strings.Split(t[1:], ",") {
		if v == "x" {
			r.vs = append(r.vs, missing)
		} else {
			n, err := strconv.Atoi(v)
			if err != nil {
				return r, false
			}
			r.vs = append(r.vs, n)
		}
	}
	return r, true
}

func parseAtts(t []string) ([]attT, bool) {
	var out []attT
	for len(t) > 0 {
		if t[0] != "a" || len(t) < 3 {
			return nil, false
		}
		a := attT{lk: hlib.Atoi(t[1])}
		var ok bool
		if a.rep, ok = parseRep(t[2]); !ok {
			return nil, false
		}
		t = t[3:]
		for len(t) > 0 && t[0] == "w" {
			if len(t) < 5 || (t[1] != "mk" && t[1] != "rs") {
				return nil, false
			}
			o, _ := strconv.ParseInt(t[3], 10, 64)
			a.win = append(a.win, opT{kind: t[1], p: hlib.Atoi(t[2]), o: o, m: hlib.Atoi(t[4])})
			t = t[5:]
		}
		out = append(out, a)
	}
	return out, true
}

func parseCase(line string) (*caseT, bool) {
	segs := strings.Split(line, ";")
	h := strings.Fields(segs[0])
	if len(h) != 6 || (h[0] != "seq" && h[0] != "seqr") {
		return nil, false
	}
	c := &caseT{real: h[0] == "seqr", auto: h[1] == "1", rmax: hlib.Atoi(h[2]), ret: h[3] == "1"}
	c.ini, _ = strconv.ParseInt(h[4], 10, 64)
	for _, s := range strings.Split(h[5], ",") {
		if s == "n" {
			c.stores = append(c.stores, nil)
			continue
		}
		ab := strings.Split(s, ":")
		if len(ab) != 2 {
			return nil, false
		}
		o, _ := strconv.ParseInt(ab[0], 10, 64)
		c.stores = append(c.stores, &pair{o, hlib.Atoi(ab[1])})
	}
	for _, sg := range segs[1:] {
		t := strings.Fields(sg)
		if len(t) == 0 {
			return nil, false
		}
		o := opT{kind: t[0]}
		switch {
		case (t[0] == "mg" || t[0] == "nx" || t[0] == "ac") && len(t) == 2:
			o.p = hlib.Atoi(t[1])
		case t[0] == "mg" && len(t) >= 4 && t[2] == "f":
			o.p = hlib.Atoi(t[1])
			o.hasF = true
			fr, err := strconv.Atoi(t[3])
			if err != nil || fr < 0 {
				return nil, false
			}
			o.fr = fr
			for _, a := range t[4:] {
				if len(a) < 2 || (a[0] != '0' && a[0] != '1') {
					return nil, false
				}
				ans := a[1:]
				switch {
				case ans == "ok" || ans == "nc" || ans == "ld" || ans == "fe" || ans == "x":
				case strings.HasPrefix(ans, "k"):
					if _, err := strconv.Atoi(ans[1:]); err != nil {
						return nil, false
					}
				default:
					return nil, false
				}
				o.fatts = append(o.fatts, fattT{lk: a[0] == '1', ans: ans})
			}
		case (t[0] == "mk" || t[0] == "rs") && len(t) == 4:
			o.p = hlib.Atoi(t[1])
			o.o, _ = strconv.ParseInt(t[2], 10, 64)
			o.m = hlib.Atoi(t[3])
		case t[0] == "cm" || t[0] == "cl":
			var ok bool
			if o.atts, ok = parseAtts(t[1:]); !ok || (t[0] == "cm" && len(o.atts) != 1) {
				return nil, false
			}
		case t[0] == "cs" && len(t) == 1:
		case t[0] == "lk" && len(t) == 2:
			o.lk = hlib.Atoi(t[1])
		case t[0] == "rp" && len(t) == 2:
			var ok bool
			if o.rep, ok = parseRep(t[1]); !ok {
				return nil, false
			}
		case t[0] == "rl" && len(t) == 2:
			o.f = t[1] == "1"
		default:
			return nil, false
		}
		if o.p < 0 || o.p >= len(c.stores) {
			return nil, false
		}
		c.ops = append(c.ops, o)
	}
	return c, true
}

// ---------------------------------------------------------------------------------------------
// scripted coordinator + fake client

func topicOf(idx int) (string, int32) {
	if idx < 2 {
		return "ta", int32(idx)
	}
	return "tb", int32(idx - 2)
}

func idxOf(topic string, part int32) int {
	switch topic {
	case "ta":
		if part >= 0 && part < 2 {
			return int(part)
		}
	case "tb":
		if part >= 0 {
			return int(part) + 2
		}
	}
	return -1
}

type nullReporter struct{}

func (nullReporter) Error(...interface{})          {}
func (nullReporter) Errorf(string, ...interface{}) {}
func (nullReporter) Fatal(...interface{})          {}
func (nullReporter) Fatalf(string, ...interface{}) {}

var errLookup = errors.New("verif: coordinator lookup failed")
var errIO = errors.New("verif: commit request failed")

// block as the oracle remembers it
type blockT struct {
	pr    pair
	epoch int // number of accepted resets on the partition when the block was snapshotted
}

// spec-level shadow of one partition (oracle state; independent of the model)
type shadowT struct {
	have      bool
	pend      pair
	allowed   map[pair]bool // initial pair + accepted mark/reset arguments of the current pom object
	epoch     int
	aclosed   bool
	released  bool // closed by the application and flushed: no longer expected in commits
	lastBlock *blockT
}

type env struct {
	fq     []fattT // fault script of the running ManagePartition (initial fetch)
	group  string
	mu     sync.Mutex
	c      *caseT
	line   string
	conf   *sarama.Config
	om     sarama.OffsetManager
	cl     *fakeClient
	poms   []sarama.PartitionOffsetManager
	store  []*blockT
	sh     []shadowT
	queue  []attT   // scripted attempts of the running Commit()/Close()
	texts  []string // what the attempts of the running call did
	lkDone bool     // RefreshCoordinator of the head attempt answered
	single int      // fine stream: answer of the next lookup (-1 = none scripted)
	req    *sarama.OffsetCommitRequest
	closed bool
	broken bool

	// concurrent stream (no model line): blocks seen by the coordinator, per partition, in arrival order
	stress     bool
	stressSeen [][]pair
}

var (
	curMu sync.Mutex
	cur   *env
	mb    *sarama.MockBroker
	mbUse int
)

// fakeClient scripts the coordinator lookup; like the real client it keeps ONE Broker object per coordinator
// (same id and address => same object) and hands it back after Open (a no-op unless somebody closed it).
type fakeClient struct {
	sarama.Client
	e         *env
	brokers   []*sarama.Broker
	coord     *sarama.Broker
	coordAddr string
}

func (c *fakeClient) Config() *sarama.Config { return c.e.conf }
func (c *fakeClient) Closed() bool           { return false }
func (c *fakeClient) RefreshCoordinator(g string) error {
	e := c.e
	e.mu.Lock()
	defer e.mu.Unlock()
	if e.single >= 0 {
		if e.single == 0 {
			e.single = -1
			return errLookup
		}
		return nil
	}
	if len(e.fq) > 0 {
		if !e.fq[0].lk {
			e.fq = e.fq[1:]
			return errLookup
		}
		return nil
	}
	if len(e.queue) == 0 {
		return nil
	}
	if e.queue[0].lk == 0 {
		e.queue = e.queue[1:]
		e.texts = append(e.texts, "lkfail")
		return errLookup
	}
	return nil
}

func (c *fakeClient) Coordinator(g string) (*sarama.Broker, error) {
	e := c.e
	e.mu.Lock()
	defer e.mu.Unlock()
	if e.single >= 0 {
		s := e.single
		e.single = -1
		if s == 2 {
			return nil, errLookup
		}
	} else if len(e.queue) > 0 && e.queue[0].lk == 2 {
		e.queue = e.queue[1:]
		e.texts = append(e.texts, "lkfail")
		return nil, errLookup
	}
	if c.coord == nil || c.coordAddr != mb.Addr() {
		c.coord = sarama.NewBroker(mb.Addr())
		c.coordAddr = mb.Addr()
		c.brokers = append(c.brokers, c.coord)
	}
	_ = c.coord.Open(e.conf)
	return c.coord, nil
}

func fetchedOf(b *blockT) pair {
	if b == nil {
		return pair{-1, 0}
	}
	return b.pr
}

func showPair(p pair) string { return fmt.Sprintf("%d:%d", p.o, p.m) }

// observeRequest: canonical text of a commit request + the request-time oracles. Called with e.mu held.
func (e *env) observeRequest(req *sarama.OffsetCommitRequest) (string, map[int]blockT) {
	n := len(e.c.stores)
	blocks := map[int]blockT{}
	extra := ""
	for _, b := range sarama.VerifC06Blocks(req) {
		i := idxOf(b.Topic, b.Partition)
		if i < 0 || i >= n {
			extra += fmt.Sprintf(" ?%s/%d", b.Topic, b.Partition)
			continue
		}
		blocks[i] = blockT{pr: pair{b.Offset, metaCode(b.Metadata)}, epoch: e.sh[i].epoch}
	}
	txt := make([]string, n)
	for i := 0; i < n; i++ {
		sh := &e.sh[i]
		b, in := blocks[i]
		if in {
			txt[i] = showPair(b.pr)
			// committed_was_marked
			if !sh.have || !sh.allowed[b.pr] {
				run.IOFail("committed-pair-never-marked", e.line, fmt.Sprintf("partition %d: request carries %s", i, showPair(b.pr)))
			}
			// commits_monotone_without_reset
			if sh.lastBlock != nil && b.pr.o < sh.lastBlock.pr.o && b.epoch == sh.lastBlock.epoch {
				run.IOFail("commit-goes-backwards-without-reset", e.line,
					fmt.Sprintf("partition %d: %s after %s", i, showPair(b.pr), showPair(sh.lastBlock.pr)))
			}
			bb := b
			sh.lastBlock = &bb
		} else {
			txt[i] = "n"
		}
		// no_lost_mark: a position that differs from what the coordinator holds must be in the request
		if sh.have && !sh.released && sh.pend != fetchedOf(e.store[i]) {
			if !in {
				run.IOFail("lost-mark-not-in-next-commit", e.line,
					fmt.Sprintf("partition %d: pending %s, stored %s, not in the request", i, showPair(sh.pend), showPair(fetchedOf(e.store[i]))))
			} else if b.pr != sh.pend {
				run.IOFail("lost-mark-stale-commit", e.line,
					fmt.Sprintf("partition %d: pending %s but request carries %s", i, showPair(sh.pend), showPair(b.pr)))
			}
		}
	}
	return fmt.Sprintf("req v%d %s%s", req.Version, strings.Join(txt, ","), extra), blocks
}

// coordinatorApply: the scripted coordinator's decision for a request. Called with e.mu held.
func (e *env) coordinatorApply(req *sarama.OffsetCommitRequest, blocks map[int]blockT, rep repT) *sarama.OffsetCommitResponse {
	storeIt := func(i int, b blockT) {
		old := e.store[i]
		if old != nil && b.pr.o < old.pr.o && b.epoch == old.epoch {
			run.IOFail("stored-offset-goes-backwards-without-reset", e.line,
				fmt.Sprintf("partition %d: %s over %s", i, showPair(b.pr), showPair(old.pr)))
		}
		bb := b
		e.store[i] = &bb
	}
	idx := make([]int, 0, len(blocks))
	for i := range blocks {
		idx = append(idx, i)
	}
	sort.Ints(idx)
	switch rep.kind {
	case "e1":
		for _, i := range idx {
			storeIt(i, blocks[i])
		}
		return nil
	case "e0":
		return nil
	case "e2": // the request is swallowed: the client's read times out, the connection stays up on the broker side
		return sarama.VerifC06NoAnswer
	}
	resp := &sarama.OffsetCommitResponse{Version: req.Version}
	for _, i := range idx {
		v := missing
		if i < len(rep.vs) {
			v = rep.vs[i]
		}
		if v == missing {
			continue
		}
		t, p := topicOf(i)
		resp.AddError(t, p, sarama.KError(v))
		if v == 0 {
			storeIt(i, blocks[i])
		}
	}
	return resp
}

func onCommit(req *sarama.OffsetCommitRequest) *sarama.OffsetCommitResponse {
	curMu.Lock()
	e := cur
	curMu.Unlock()
	if e == nil {
		return &sarama.OffsetCommitResponse{Version: req.Version}
	}
	e.mu.Lock()
	defer e.mu.Unlock()
	if req.ConsumerGroup != e.group {
		run.Count("stale-request-of-an-earlier-case-ignored")
		return &sarama.OffsetCommitResponse{Version: req.Version}
	}
	if e.stress {
		resp := &sarama.OffsetCommitResponse{Version: req.Version}
		for _, b := range sarama.VerifC06Blocks(req) {
			if i := idxOf(b.Topic, b.Partition); i >= 0 && i < len(e.stressSeen) {
				pr := pair{b.Offset, metaCode(b.Metadata)}
				e.stressSeen[i] = append(e.stressSeen[i], pr)
				e.store[i] = &blockT{pr: pr}
			}
			resp.AddError(b.Topic, b.Partition, sarama.ErrNoError)
		}
		return resp
	}
	txt, blocks := e.observeRequest(req)
	if len(e.queue) == 0 { // unscripted (clean-up Close after the case): accept everything
		rep := repT{kind: "r", vs: make([]int, len(e.c.stores))}
		return e.coordinatorApply(req, blocks, rep)
	}
	a := e.queue[0]
	e.queue = e.queue[1:]
	e.texts = append(e.texts, txt)
	for _, w := range a.win {
		e.appOp(w)
	}
	return e.coordinatorApply(req, blocks, a.rep)
}

func onFetch(req *sarama.OffsetFetchRequest) *sarama.OffsetFetchResponse {
	curMu.Lock()
	e := cur
	curMu.Unlock()
	resp := &sarama.OffsetFetchResponse{Version: req.Version}
	if e != nil {
		e.mu.Lock()
		defer e.mu.Unlock()
	}
	ans := "ok"
	if e != nil && req.ConsumerGroup == e.group && len(e.fq) > 0 {
		ans = e.fq[0].ans
		e.fq = e.fq[1:]
	}
	switch {
	case ans == "fe":
		return sarama.VerifC06GarbageFetch
	case ans == "x":
		return resp
	case ans != "ok":
		code := map[string]int{"nc": 16, "ld": 14}[ans]
		if strings.HasPrefix(ans, "k") {
			code = hlib.Atoi(ans[1:])
		}
		for t, ps := range sarama.VerifC06FetchPartitions(req) {
			for _, p := range ps {
				resp.AddBlock(t, p, &sarama.OffsetFetchResponseBlock{Offset: -1, Err: sarama.KError(code)})
			}
		}
		return resp
	}
	for t, ps := range sarama.VerifC06FetchPartitions(req) {
		for _, p := range ps {
			blk := &sarama.OffsetFetchResponseBlock{Offset: -1}
			if e != nil {
				if i := idxOf(t, p); i >= 0 && i < len(e.store) && e.store[i] != nil {
					blk.Offset = e.store[i].pr.o
					blk.Metadata = metaStr(e.store[i].pr.m)
				}
			}
			resp.AddBlock(t, p, blk)
		}
	}
	return resp
}

// appOp executes MarkOffset / ResetOffset on the real pom, with the single-step oracles. e.mu held.
func (e *env) appOp(o opT) {
	if o.p >= len(e.poms) || e.poms[o.p] == nil {
		return
	}
	pom := e.poms[o.p]
	sh := &e.sh[o.p]
	before, _, _, _ := sarama.VerifC06PomState(pom)
	if o.kind == "mk" {
		pom.MarkOffset(o.o, metaStr(o.m))
		if o.o > sh.pend.o {
			sh.pend = pair{o.o, o.m}
			sh.allowed[sh.pend] = true
		}
	} else {
		pom.ResetOffset(o.o, metaStr(o.m))
		if o.o <= sh.pend.o {
			sh.pend = pair{o.o, o.m}
			sh.allowed[sh.pend] = true
			sh.epoch++
		}
	}
	after, _, _, _ := sarama.VerifC06PomState(pom)
	if o.kind == "mk" && after < before {
		run.IOFail("mark-lowered-position", e.line, fmt.Sprintf("%s: %d -> %d", o, before, after))
	}
	if o.kind == "rs" && after > before {
		run.IOFail("reset-raised-position", e.line, fmt.Sprintf("%s: %d -> %d", o, before, after))
	}
}

// ---------------------------------------------------------------------------------------------
// running a case

func ensureBroker() {
	if mb == nil || mbUse > 400 {
		if mb != nil {
			mb.Close()
		}
		mb = sarama.NewMockBroker(nullReporter{}, 1)
		sarama.VerifC06Install(mb, nullReporter{}, onCommit, onFetch)
		mbUse = 0
	}
	mbUse++
	sarama.VerifC06ResetHistory(mb)
}

// guarded runs f with a watchdog; false = did not return in time.
func guarded(f func()) bool {
	done := make(chan struct{})
	var pv interface{}
	go func() {
		defer func() {
			pv = recover()
			close(done)
		}()
		f()
	}()
	select {
	case <-done:
		if pv != nil {
			panic(pv)
		}
		return true
	case <-time.After(20 * time.Second):
		return false
	}
}

func (e *env) drainErrs() string {
	out := make([]string, len(e.poms))
	for i, pom := range e.poms {
		var l []string
		if pom != nil {
		loop:
			for {
				select {
				case ce, ok := <-pom.Errors():
					if !ok {
						break loop
					}
					var ke sarama.KError
					switch {
					case errors.As(ce.Err, &ke):
						l = append(l, fmt.Sprintf("K%d", int(ke)))
					case ce.Err == sarama.ErrIncompleteResponse:
						l = append(l, "INC")
					case ce.Err == errLookup:
						l = append(l, "LK")
					default:
						l = append(l, "IO")
					}
				default:
					break loop
				}
			}
		}
		if len(l) == 0 {
			out[i] = "-"
		} else {
			out[i] = strings.Join(l, "+")
		}
	}
	return strings.Join(out, ";")
}

func (e *env) dump() string {
	ps := make([]string, len(e.poms))
	st := make([]string, len(e.poms))
	for i, pom := range e.poms {
		if pom == nil {
			ps[i] = "_"
		} else {
			o, m, d, dn := sarama.VerifC06PomState(pom)
			ps[i] = fmt.Sprintf("%d:%d:%s%s%s", o, metaCode(m), b01(d), b01(dn), b01(sarama.VerifC06IsLive(e.om, pom)))
		}
		if e.store[i] == nil {
			st[i] = "n"
		} else {
			st[i] = showPair(e.store[i].pr)
		}
	}
	return "S " + strings.Join(ps, " ") + " B" + b01(sarama.VerifC06HasBroker(e.om)) + " T " + strings.Join(st, ",")
}

func (e *env) fin(txt string) string {
	e.mu.Lock()
	defer e.mu.Unlock()
	return txt + " E " + e.drainErrs() + " " + e.dump()
}

// specRelease: a partition the application closed stops being expected in commits once it is flushed
func (e *env) specRelease() {
	for i := range e.sh {
		sh := &e.sh[i]
		if sh.have && sh.aclosed && sh.pend == fetchedOf(e.store[i]) {
			sh.released = true
		}
	}
}

func (e *env) doOp(o opT) (string, bool) {
	switch o.kind {
	case "mg":
		t, p := topicOf(o.p)
		var pom sarama.PartitionOffsetManager
		var err error
		e.mu.Lock()
		want := fetchedOf(e.store[o.p])
		if o.hasF {
			if e.c.real {
				e.mu.Unlock()
				return "", false
			}
			e.fq = append([]fattT{}, o.fatts...)
			e.conf.Metadata.Retry.Max = o.fr // read by ManagePartition at call time
		}
		e.mu.Unlock()
		if !guarded(func() { pom, err = e.om.ManagePartition(t, p) }) {
			run.IOFail("timeout", e.line, "ManagePartition did not return")
			return "timeout", false
		}
		e.mu.Lock()
		e.fq = nil
		e.conf.Metadata.Retry.Max = 0
		e.mu.Unlock()
		if err != nil {
			var ce sarama.ConfigurationError
			var ke sarama.KError
			switch {
			case errors.As(err, &ce):
				return e.fin("dup"), true
			case errors.Is(err, errLookup):
				return e.fin("mgerr LK"), true
			case errors.Is(err, sarama.ErrIncompleteResponse):
				return e.fin("mgerr INC"), true
			case errors.As(err, &ke):
				return e.fin(fmt.Sprintf("mgerr K%d", int(ke))), true
			}
			return e.fin("mgerr IO"), true
		}
		// NextOffset spec at the source: a new pom starts at what the coordinator holds (or -1/"" when nothing is stored)
		if of, md, _, _ := sarama.VerifC06PomState(pom); (pair{of, metaCode(md)}) != want {
			run.IOFail("managed-position-is-not-the-stored-one", e.line,
				fmt.Sprintf("partition %d: ManagePartition succeeded with %s, coordinator holds %s", o.p, showPair(pair{of, metaCode(md)}), showPair(want)))
		}
		e.poms[o.p] = pom
		e.sh[o.p] = shadowT{have: true, pend: want, allowed: map[pair]bool{want: true}, epoch: e.sh[o.p].epoch}
		of, md, _, _ := sarama.VerifC06PomState(pom)
		return e.fin("new " + showPair(pair{of, metaCode(md)})), true
	case "mk", "rs":
		e.mu.Lock()
		e.appOp(o)
		e.mu.Unlock()
		return e.fin(o.kind), true
	case "nx":
		if e.poms[o.p] == nil {
			return e.fin("nopom"), true
		}
		of, md := e.poms[o.p].NextOffset()
		got := pair{of, metaCode(md)}
		sh := &e.sh[o.p]
		want := sh.pend
		if sh.pend.o < 0 {
			want = pair{e.c.ini, 0}
		}
		if got != want {
			run.IOFail("next-offset-wrong", e.line, fmt.Sprintf("partition %d: got %s want %s", o.p, showPair(got), showPair(want)))
		}
		return e.fin("nx " + showPair(got)), true
	case "ac":
		if e.poms[o.p] != nil {
			e.poms[o.p].AsyncClose()
			e.sh[o.p].aclosed = true
		}
		return e.fin("ac"), true
	case "cm":
		if e.req != nil {
			return "", false
		}
		e.mu.Lock()
		e.queue = []attT{o.atts[0]}
		e.texts = nil
		e.mu.Unlock()
		if !guarded(func() { e.om.Commit() }) {
			run.IOFail("timeout", e.line, "Commit did not return")
			return "timeout", false
		}
		e.mu.Lock()
		e.queue = nil
		txt := "noreq"
		if len(e.texts) > 0 {
			txt = e.texts[0]
		}
		e.specRelease()
		e.mu.Unlock()
		return e.fin("cm " + txt), true
	case "cl":
		if e.req != nil || e.closed {
			return "", false
		}
		if e.c.auto && len(o.atts) < e.c.rmax+1 {
			return "", false
		}
		e.mu.Lock()
		e.queue = append([]attT{}, o.atts...)
		if !e.c.auto {
			e.queue = nil
		}
		e.texts = nil
		// what the property promises for this Close
		accepting := false
		if e.c.auto {
			for k := 0; k <= e.c.rmax && k < len(o.atts); k++ {
				a := o.atts[k]
				ok := a.lk == 1 && a.rep.kind == "r" && len(a.rep.vs) >= len(e.c.stores)
				for _, v := range a.rep.vs {
					if v != 0 {
						ok = false
					}
				}
				if ok {
					accepting = true
				}
			}
		}
		type exp struct {
			i    int
			pend pair
		}
		var expect []exp
		for i := range e.sh {
			if e.sh[i].have && !e.sh[i].released {
				expect = append(expect, exp{i, e.sh[i].pend})
			}
		}
		e.mu.Unlock()
		if !guarded(func() { _ = e.om.Close() }) {
			run.IOFail("timeout", e.line, "Close did not return")
			return "timeout", false
		}
		e.closed = true
		e.mu.Lock()
		e.queue = nil
		txt := strings.Join(e.texts, " / ")
		if accepting {
			run.Count("close-with-accepting-attempt")
			for _, x := range expect {
				if fetchedOf(e.store[x.i]) != x.pend {
					run.IOFail("close-did-not-flush-latest-mark", e.line,
						fmt.Sprintf("partition %d: stored %s, latest mark %s", x.i, showPair(fetchedOf(e.store[x.i])), showPair(x.pend)))
				}
			}
		}
		for i := range e.sh {
			e.sh[i].released = true
		}
		e.mu.Unlock()
		return e.fin("cl " + txt), true
	case "cs":
		if e.req != nil {
			return e.fin("busy"), true
		}
		req := sarama.VerifC06Construct(e.om)
		if req == nil {
			return e.fin("noreq"), true
		}
		e.req = req
		e.mu.Lock()
		txt, _ := e.observeRequest(req)
		e.mu.Unlock()
		return e.fin(txt), true
	case "lk":
		if e.req == nil {
			return e.fin("idle"), true
		}
		if sarama.VerifC06HasBroker(e.om) {
			sarama.VerifC06Coordinator(e.om)
			return e.fin("cached"), true
		}
		e.mu.Lock()
		e.single = o.lk
		e.mu.Unlock()
		ok := false
		if !guarded(func() { ok = sarama.VerifC06Coordinator(e.om) }) {
			run.IOFail("timeout", e.line, "coordinator() did not return")
			return "timeout", false
		}
		e.mu.Lock()
		e.single = -1
		e.mu.Unlock()
		if !ok {
			e.req = nil
			return e.fin("lkfail"), true
		}
		return e.fin("lkok"), true
	case "rp":
		if e.req == nil {
			return e.fin("idle"), true
		}
		e.mu.Lock()
		// the blocks as the coordinator receives them (epochs as of the snapshot are not known any more
		// in this stream: use the partition's last observed block)
		blocks := map[int]blockT{}
		for _, b := range sarama.VerifC06Blocks(e.req) {
			if i := idxOf(b.Topic, b.Partition); i >= 0 && i < len(e.sh) && e.sh[i].lastBlock != nil {
				blocks[i] = *e.sh[i].lastBlock
			}
		}
		resp := e.coordinatorApply(e.req, blocks, o.rep)
		e.mu.Unlock()
		if resp != nil && resp != sarama.VerifC06NoAnswer {
			sarama.VerifC06HandleResponse(e.om, e.req, resp)
		} else {
			sarama.VerifC06RequestFailed(e.om, errIO)
		}
		e.req = nil
		return e.fin("rp"), true
	case "rl":
		if o.f && e.req != nil {
			return e.fin("busy"), true
		}
		n := sarama.VerifC06ReleasePOMs(e.om, o.f)
		e.mu.Lock()
		e.specRelease()
		if o.f {
			for i := range e.sh {
				if e.sh[i].aclosed {
					e.sh[i].released = true
				}
			}
		}
		e.mu.Unlock()
		return e.fin(fmt.Sprintf("rl %d", n)), true
	}
	return "", false
}

func runCase(c *caseT) string {
	line := c.String()
	ensureBroker()
	conf := sarama.NewConfig()
	conf.Consumer.Return.Errors = true
	conf.Consumer.Offsets.AutoCommit.Enable = c.auto
	conf.Consumer.Offsets.AutoCommit.Interval = time.Hour // the ticker never fires: the harness is the only committer
	conf.Consumer.Offsets.Retry.Max = c.rmax
	conf.Consumer.Offsets.Initial = c.ini
	if c.ret {
		conf.Consumer.Offsets.Retention = 3 * time.Second
	}
	conf.Metadata.Retry.Max = 0
	conf.Metadata.Retry.Backoff = time.Millisecond
	conf.ChannelBufferSize = 1024
	n := len(c.stores)
	e := &env{group: nextGroup(), c: c, line: line, conf: conf, single: -1, poms: make([]sarama.PartitionOffsetManager, n),
		store: make([]*blockT, n), sh: make([]shadowT, n)}
	for i, s := range c.stores {
		if s != nil {
			e.store[i] = &blockT{pr: *s}
		}
	}
	e.cl = &fakeClient{e: e}
	curMu.Lock()
	cur = e
	curMu.Unlock()
	// a swallowed request (e2) is noticed through the read timeout: keep it short in those cases only
	hasE2 := false
	for _, o := range c.ops {
		if o.rep.kind == "e2" {
			hasE2 = true
		}
		for _, a := range o.atts {
			if a.rep.kind == "e2" {
				hasE2 = true
			}
			if c.real && a.lk != 1 {
				return "bad-op" // the real client's lookup is not scripted
			}
		}
		if c.real && o.kind == "lk" && o.lk != 1 {
			return "bad-op"
		}
	}
	if hasE2 {
		conf.Net.ReadTimeout = 150 * time.Millisecond
	}
	var client sarama.Client = e.cl
	var realClient sarama.Client
	if c.real {
		rc, err := sarama.NewClient([]string{mb.Addr()}, conf)
		if err != nil {
			return "bad-op client: " + err.Error()
		}
		realClient = rc
		client = rc
		defer func() { _ = rc.Close() }()
	}
	_ = realClient
	om, err := sarama.NewOffsetManagerFromClient(e.group, client)
	if err != nil {
		return "bad-op"
	}
	e.om = om
	var outs []string
	bad := false
	for _, o := range c.ops {
		txt, ok := e.doOp(o)
		if !ok {
			if txt == "timeout" {
				outs = append(outs, "timeout")
				e.broken = true
			} else {
				bad = true
			}
			break
		}
		outs = append(outs, txt)
	}
	// clean-up outside the recorded case: stop the ticker goroutine, close the sockets
	if !e.broken {
		e.mu.Lock()
		e.queue = nil
		e.mu.Unlock()
		if !e.closed {
			if e.req != nil {
				sarama.VerifC06RequestFailed(e.om, errIO)
			}
			guarded(func() { _ = e.om.Close() })
		}
	}
	curMu.Lock()
	cur = nil
	curMu.Unlock()
	for _, b := range e.cl.brokers {
		_ = b.Close()
	}
	if bad {
		return "bad-op"
	}
	return strings.Join(outs, " | ")
}

func emitCase(c *caseT, bucket string) {
	line := c.String()
	out := run.Safe(line, func() string { return runCase(c) })
	run.Emit(line, out)
	run.Count(bucket)
	nontrivial := false
	for _, o := range c.ops {
		switch o.kind {
		case "cm", "cl":
			for _, a := range o.atts {
				if len(a.win) > 0 {
					run.Count("attempt-with-window")
					nontrivial = true
				}
				if a.rep.kind != "r" {
					run.Count("attempt-conn-error")
				}
				if a.rep.kind == "e2" {
					run.Count("attempt-read-timeout")
				}
				if a.lk != 1 {
					run.Count("attempt-lookup-fails")
				}
			}
			if o.kind == "cl" {
				run.Count("close")
			}
		case "cs":
			nontrivial = true
		}
	}
	if nontrivial {
		run.Nontrivial(line)
	}
}

// ---------------------------------------------------------------------------------------------
// generators

var verdictPool = []int{0, 0, 0, 0, 6, 5, 15, 16, 12, 28, 14, 3, 27, 25, 22, -1, 7, missing}

func genOffset(r *hlib.Rand) int64 {
	switch r.Intn(20) {
	case 0:
		return int64(r.Range(-3, -1))
	case 1:
		return int64(1)<<62 + int64(r.Intn(3))
	default:
		return int64(r.Range(0, 12))
	}
}

func genRep(r *hlib.Rand, n int) repT {
	if r.Chance(1, 150) {
		return repT{kind: "e2"}
	}
	switch r.Intn(12) {
	case 0:
		return repT{kind: "e0"}
	case 1:
		return repT{kind: "e1"}
	}
	rep := repT{kind: "r", vs: make([]int, n)}
	if r.Chance(1, 2) {
		return rep
	}
	for i := range rep.vs {
		rep.vs[i] = verdictPool[r.Intn(len(verdictPool))]
	}
	if r.Chance(1, 15) { // short list: trailing partitions missing
		rep.vs = rep.vs[:r.Intn(n)+0]
		if len(rep.vs) == 0 {
			rep.vs = []int{missing}
		}
	}
	return rep
}

func genApp(r *hlib.Rand, n int) opT {
	k := "mk"
	if r.Chance(1, 4) {
		k = "rs"
	}
	return opT{kind: k, p: r.Intn(n), o: genOffset(r), m: r.Intn(4)}
}

func genAtt(r *hlib.Rand, n int, window bool) attT {
	a := attT{lk: 1, rep: genRep(r, n)}
	if r.Chance(1, 7) {
		a.lk = r.Pick(0, 2)
	}
	if window && r.Chance(1, 2) {
		for k := r.Range(1, 3); k > 0; k-- {
			a.win = append(a.win, genApp(r, n))
		}
	}
	return a
}

func genHeader(r *hlib.Rand) *caseT {
	n := r.Pick(1, 1, 2, 2, 3, 3, 4)
	c := &caseT{auto: r.Chance(2, 3), rmax: r.Intn(4), ret: r.Chance(1, 3), ini: int64(r.Pick(-1, -2))}
	for i := 0; i < n; i++ {
		if r.Chance(1, 2) {
			c.stores = append(c.stores, nil)
		} else {
			c.stores = append(c.stores, &pair{int64(r.Range(-1, 9)), r.Intn(3)})
		}
	}
	return c
}

func genWire(r *hlib.Rand) *caseT {
	c := genHeader(r)
	n := len(c.stores)
	for i := 0; i < n; i++ {
		if r.Chance(9, 10) {
			c.ops = append(c.ops, opT{kind: "mg", p: i})
		}
	}
	for k := r.Range(3, 36); k > 0; k-- {
		switch x := r.Intn(100); {
		case x < 45:
			c.ops = append(c.ops, genApp(r, n))
		case x < 55:
			c.ops = append(c.ops, opT{kind: "nx", p: r.Intn(n)})
		case x < 85:
			c.ops = append(c.ops, opT{kind: "cm", atts: []attT{genAtt(r, n, true)}})
		case x < 92:
			c.ops = append(c.ops, opT{kind: "ac", p: r.Intn(n)})
		default:
			mg := opT{kind: "mg", p: r.Intn(n)}
			if r.Chance(1, 2) {
				mg.hasF = true
				mg.fr, mg.fatts = genFetchScript(r, r.Chance(1, 3))
			}
			c.ops = append(c.ops, mg)
		}
	}
	if r.Chance(4, 5) {
		cl := opT{kind: "cl"}
		if c.auto {
			mode := r.Intn(4)
			for k := 0; k <= c.rmax; k++ {
				a := genAtt(r, n, false)
				switch mode {
				case 0: // everything accepted
					a = attT{lk: 1, rep: repT{kind: "r", vs: make([]int, n)}}
				case 1: // only the last permitted attempt is accepted
					if k == c.rmax {
						a = attT{lk: 1, rep: repT{kind: "r", vs: make([]int, n)}}
					} else if r.Chance(1, 2) {
						a.rep = repT{kind: []string{"e0", "e1"}[r.Intn(2)]}
					}
				}
				cl.atts = append(cl.atts, a)
			}
		}
		c.ops = append(c.ops, cl)
		if r.Chance(1, 6) {
			c.ops = append(c.ops, opT{kind: "nx", p: r.Intn(n)})
		}
	}
	return c
}

// steered window: a mark lands while the commit of an earlier mark is in flight; the following commit
// must carry it.
func genSteered(r *hlib.Rand) *caseT {
	c := genHeader(r)
	n := len(c.stores)
	for i := 0; i < n; i++ {
		c.ops = append(c.ops, opT{kind: "mg", p: i})
	}
	p := r.Intn(n)
	base := int64(r.Range(10, 20))
	c.ops = append(c.ops, opT{kind: "mk", p: p, o: base, m: r.Intn(4)})
	for k := r.Range(1, 4); k > 0; k-- {
		a := attT{lk: 1, rep: genRep(r, n)}
		base += int64(r.Range(1, 3))
		a.win = append(a.win, opT{kind: "mk", p: p, o: base, m: r.Intn(4)})
		if r.Chance(1, 3) {
			a.win = append(a.win, genApp(r, n))
		}
		c.ops = append(c.ops, opT{kind: "cm", atts: []attT{a}})
	}
	c.ops = append(c.ops, opT{kind: "cm", atts: []attT{{lk: 1, rep: repT{kind: "r", vs: make([]int, n)}}}})
	if r.Chance(1, 2) {
		cl := opT{kind: "cl"}
		if c.auto {
			for k := 0; k <= c.rmax; k++ {
				cl.atts = append(cl.atts, attT{lk: 1, rep: repT{kind: "r", vs: make([]int, n)}})
			}
		}
		c.ops = append(c.ops, cl)
	}
	return c
}

// connection failures with the coordinator staying where it is: the k-th OffsetCommit loses its connection
// (dropped before / after the coordinator applied it, or swallowed until the read timeout), then more marks,
// Commit() calls and Close(); every lookup succeeds and hands back the coordinator on the same id and address.
func genConnFail(r *hlib.Rand, real bool) *caseT {
	c := genHeader(r)
	c.real = real
	n := len(c.stores)
	for i := 0; i < n; i++ {
		c.ops = append(c.ops, opT{kind: "mg", p: i})
	}
	allOK := func() attT { return attT{lk: 1, rep: repT{kind: "r", vs: make([]int, n)}} }
	base := int64(r.Range(1, 5))
	mark := func() {
		base += int64(r.Range(1, 3))
		c.ops = append(c.ops, opT{kind: "mk", p: r.Intn(n), o: base, m: r.Intn(4)})
	}
	fail := func() attT {
		k := []string{"e0", "e1", "e0", "e1", "e0", "e1", "e0", "e2"}[r.Intn(8)]
		a := attT{lk: 1, rep: repT{kind: k}}
		if r.Chance(1, 3) {
			base += int64(r.Range(1, 3))
			a.win = append(a.win, opT{kind: "mk", p: r.Intn(n), o: base, m: r.Intn(4)})
		}
		return a
	}
	for k := r.Range(0, 2); k > 0; k-- {
		mark()
		c.ops = append(c.ops, opT{kind: "cm", atts: []attT{allOK()}})
	}
	mark()
	for k := r.Range(1, 2); k > 0; k-- {
		c.ops = append(c.ops, opT{kind: "cm", atts: []attT{fail()}})
	}
	for k := r.Range(0, 3); k > 0; k-- {
		mark()
		if r.Chance(2, 3) {
			c.ops = append(c.ops, opT{kind: "cm", atts: []attT{allOK()}})
		}
	}
	if r.Chance(1, 4) {
		c.ops = append(c.ops, opT{kind: "nx", p: r.Intn(n)})
	}
	cl := opT{kind: "cl"}
	if c.auto {
		for k := 0; k <= c.rmax; k++ {
			if k < c.rmax && r.Chance(1, 3) {
				cl.atts = append(cl.atts, fail())
				cl.atts[len(cl.atts)-1].win = nil
			} else {
				cl.atts = append(cl.atts, allOK())
			}
		}
	}
	c.ops = append(c.ops, cl)
	return c
}

func genFetchScript(r *hlib.Rand, exhaust bool) (int, []fattT) {
	fr := r.Intn(3)
	var atts []fattT
	retry := []string{"nc", "ld", "fe"}
	n := fr + 1
	for k := 0; k < n; k++ {
		a := fattT{lk: !r.Chance(1, 6), ans: retry[r.Intn(3)]}
		if !exhaust && (k == n-1 || r.Chance(1, 4)) {
			a.ans = []string{"ok", "ok", "ok", "x", "k3", "k29"}[r.Intn(6)]
			atts = append(atts, a)
			break
		}
		atts = append(atts, a)
	}
	if r.Chance(1, 5) { // entries beyond the budget must not be consumed
		atts = append(atts, fattT{lk: true, ans: "ok"})
	}
	return fr, atts
}

// initial-fetch fault sequences: ManagePartition meets coordinator-moved / offsets-loading / request errors /
// lookup failures, in half of the cases for longer than Metadata.Retry.Max allows (it must then return the
// error and create no pom); afterwards the partition is managed normally, NextOffset is read, offsets below and
// above the stored one are marked, committed, and the manager is closed.
func genFetchFaults(r *hlib.Rand) *caseT {
	c := genHeader(r)
	n := len(c.stores)
	for i := range c.stores { // mostly something stored, so that a made-up start position shows
		if r.Chance(3, 4) {
			c.stores[i] = &pair{int64(r.Range(3, 9)), r.Intn(3)}
		}
	}
	allOK := attT{lk: 1, rep: repT{kind: "r", vs: make([]int, n)}}
	for i := 0; i < n; i++ {
		fr, atts := genFetchScript(r, r.Chance(1, 2))
		c.ops = append(c.ops, opT{kind: "mg", p: i, hasF: true, fr: fr, fatts: atts})
		c.ops = append(c.ops, opT{kind: "nx", p: i})
		if r.Chance(3, 4) {
			c.ops = append(c.ops, opT{kind: "mg", p: i})
		}
	}
	for k := r.Range(2, 8); k > 0; k-- {
		switch r.Intn(4) {
		case 0:
			c.ops = append(c.ops, opT{kind: "nx", p: r.Intn(n)})
		case 1:
			c.ops = append(c.ops, opT{kind: "cm", atts: []attT{allOK}})
		default:
			c.ops = append(c.ops, opT{kind: "mk", p: r.Intn(n), o: int64(r.Range(1, 12)), m: r.Intn(4)})
		}
	}
	c.ops = append(c.ops, opT{kind: "cm", atts: []attT{allOK}})
	cl := opT{kind: "cl"}
	if c.auto {
		for k := 0; k <= c.rmax; k++ {
			cl.atts = append(cl.atts, allOK)
		}
	}
	c.ops = append(c.ops, cl)
	return c
}

// the random wire generator with the real sarama client (lookups cannot fail then)
func genWireReal(r *hlib.Rand) *caseT {
	c := genWire(r)
	c.real = true
	fix := func(as []attT) {
		for i := range as {
			as[i].lk = 1
		}
	}
	for i := range c.ops {
		fix(c.ops[i].atts)
		c.ops[i].hasF, c.ops[i].fatts = false, nil
	}
	return c
}

// random fine-grained sequence over several partitions
func genFine(r *hlib.Rand) *caseT {
	c := genHeader(r)
	c.auto = false
	n := len(c.stores)
	for i := 0; i < n; i++ {
		if r.Chance(9, 10) {
			c.ops = append(c.ops, opT{kind: "mg", p: i})
		}
	}
	for k := r.Range(3, 30); k > 0; k-- {
		switch x := r.Intn(100); {
		case x < 35:
			c.ops = append(c.ops, genApp(r, n))
		case x < 40:
			c.ops = append(c.ops, opT{kind: "nx", p: r.Intn(n)})
		case x < 58:
			c.ops = append(c.ops, opT{kind: "cs"})
		case x < 66:
			c.ops = append(c.ops, opT{kind: "lk", lk: r.Pick(1, 1, 0, 2)})
		case x < 84:
			c.ops = append(c.ops, opT{kind: "rp", rep: genRep(r, n)})
		case x < 92:
			c.ops = append(c.ops, opT{kind: "rl", f: r.Chance(1, 6)})
		case x < 97:
			c.ops = append(c.ops, opT{kind: "ac", p: r.Intn(n)})
		default:
			c.ops = append(c.ops, opT{kind: "mg", p: r.Intn(n)})
		}
	}
	return c
}

// alphabet of the exhaustive stream (one partition, two offsets / two metadata values)
var alphabet = []opT{
	{kind: "mk", o: 1, m: 1}, {kind: "mk", o: 2, m: 2}, {kind: "rs", o: 1, m: 2}, {kind: "rs", o: 2, m: 1},
	{kind: "cs"}, {kind: "rp", rep: repT{kind: "r", vs: []int{0}}}, {kind: "rp", rep: repT{kind: "r", vs: []int{14}}},
	{kind: "rp", rep: repT{kind: "e1"}}, {kind: "rl"}, {kind: "ac"}, {kind: "nx"}, {kind: "mg"},
}

func exhaustive(maxLen int, emit func(*caseT)) {
	var rec func(prefix []opT, left int)
	rec = func(prefix []opT, left int) {
		if len(prefix) > 0 {
			c := &caseT{rmax: 0, ini: -1, stores: []*pair{nil}}
			c.ops = append([]opT{{kind: "mg"}}, prefix...)
			emit(c)
		}
		if left == 0 {
			return
		}
		for _, a := range alphabet {
			rec(append(append([]opT{}, prefix...), a), left-1)
		}
	}
	rec(nil, maxLen)
}

// stressCase: application goroutines mark concurrently with the committer (real scheduler, real locks).
// Goroutine g of nG marks the offsets g+1, g+1+nG, ... (metadata code = offset % 5) on every partition while the
// main goroutine commits in a loop; then the markers are joined and Close() is called with auto-commit on and
// an accepting coordinator. Oracle: every committed pair is a marked pair (offset and metadata belong
// together), commits per partition never go backwards, and after Close the store holds the highest mark.
func stressCase(seed uint64, nParts, nG, nMarks int) {
	desc := fmt.Sprintf("stress %d %d %d %d", seed, nParts, nG, nMarks)
	run.Case(desc)
	run.Count("stress-concurrent")
	ensureBroker()
	conf := sarama.NewConfig()
	conf.Consumer.Return.Errors = false
	conf.Consumer.Offsets.AutoCommit.Enable = true
	conf.Consumer.Offsets.AutoCommit.Interval = time.Hour
	conf.Consumer.Offsets.Retry.Max = 1
	conf.Metadata.Retry.Max = 0
	c := &caseT{auto: true, rmax: 1, ini: -1, stores: make([]*pair, nParts)}
	e := &env{group: nextGroup(), c: c, line: desc, conf: conf, single: -1, stress: true, stressSeen: make([][]pair, nParts),
		store: make([]*blockT, nParts), sh: make([]shadowT, nParts), poms: make([]sarama.PartitionOffsetManager, nParts)}
	e.cl = &fakeClient{e: e}
	curMu.Lock()
	cur = e
	curMu.Unlock()
	defer func() {
		curMu.Lock()
		cur = nil
		curMu.Unlock()
		for _, b := range e.cl.brokers {
			_ = b.Close()
		}
	}()
	om, err := sarama.NewOffsetManagerFromClient(e.group, e.cl)
	if err != nil {
		run.IOFail("stress-setup", desc, err.Error())
		return
	}
	e.om = om
	for i := 0; i < nParts; i++ {
		t, p := topicOf(i)
		pom, err := om.ManagePartition(t, p)
		if err != nil {
			run.IOFail("stress-setup", desc, err.Error())
			return
		}
		e.poms[i] = pom
	}
	var wg sync.WaitGroup
	stop := make(chan struct{})
	for g := 0; g < nG; g++ {
		wg.Add(1)
		go func(g int) {
			defer wg.Done()
			r := hlib.NewRand(seed*131 + uint64(g))
			for k := 0; k < nMarks; k++ {
				o := int64(g + 1 + k*nG)
				for i := 0; i < nParts; i++ {
					e.poms[i].MarkOffset(o, metaStr(int(o%5)))
				}
				if r.Chance(1, 8) {
					time.Sleep(time.Microsecond * time.Duration(r.Intn(50)))
				}
			}
		}(g)
	}
	committerDone := make(chan struct{})
	go func() {
		defer close(committerDone)
		for {
			select {
			case <-stop:
				return
			default:
				om.Commit()
			}
		}
	}()
	wg.Wait()
	close(stop)
	select {
	case <-committerDone:
	case <-time.After(20 * time.Second):
		run.IOFail("timeout", desc, "Commit loop did not stop")
		return
	}
	if !guarded(func() { _ = om.Close() }) {
		run.IOFail("timeout", desc, "Close did not return")
		return
	}
	e.mu.Lock()
	defer e.mu.Unlock()
	top := int64(nG * nMarks)
	for i := 0; i < nParts; i++ {
		stressBlocks += len(e.stressSeen[i])
		last := int64(-1)
		for _, pr := range e.stressSeen[i] {
			if pr.o < 1 || pr.o > top || pr.m != int(pr.o%5) {
				run.IOFail("committed-pair-never-marked", desc, fmt.Sprintf("partition %d: request carries %s", i, showPair(pr)))
			}
			if pr.o < last {
				run.IOFail("commit-goes-backwards-without-reset", desc, fmt.Sprintf("partition %d: %d after %d", i, pr.o, last))
			}
			last = pr.o
		}
		if want := (pair{top, int(top % 5)}); fetchedOf(e.store[i]) != want {
			run.IOFail("close-did-not-flush-latest-mark", desc,
				fmt.Sprintf("partition %d: stored %s, latest mark %s", i, showPair(fetchedOf(e.store[i])), showPair(want)))
		}
	}
}

func main() {
	run = hlib.Start("C06")
	rnd := hlib.NewRand(run.Seed)
	if lines := run.ReplayLines(); lines != nil {
		for _, l := range lines {
			if t := strings.Fields(l); len(t) == 5 && t[0] == "stress" {
				sd, _ := strconv.ParseUint(t[1], 10, 64)
				stressCase(sd, hlib.Atoi(t[2]), hlib.Atoi(t[3]), hlib.Atoi(t[4]))
				continue
			}
			c, ok := parseCase(l)
			if !ok {
				run.Emit(l, "bad-op")
				continue
			}
			emitCase(c, "replay")
		}
		finish()
		return
	}
	n := run.N
	if n == 0 {
		n = 2000
		if run.Tier == "thorough" {
			n = 100000
		}
	}
	exLen := 4
	if run.Tier == "thorough" {
		exLen = 5
		if run.Seed%2 != 1 { // the enumeration does not depend on the seed: do the long one once per thorough run
			exLen = 3
		}
	}
	exhaustive(exLen, func(c *caseT) { emitCase(c, "fine-exhaustive") })
	for i := 0; i < n/10+200; i++ {
		emitCase(genSteered(rnd), "wire-steered-window")
	}
	for i := 0; i < n; i++ {
		emitCase(genWire(rnd), "wire-random")
	}
	for i := 0; i < n/8+150; i++ {
		emitCase(genConnFail(rnd, i%2 == 1), "wire-connection-failure")
	}
	for i := 0; i < n/8; i++ {
		emitCase(genWireReal(rnd), "wire-random-real-client")
	}
	for i := 0; i < n/8+150; i++ {
		emitCase(genFetchFaults(rnd), "wire-initial-fetch-faults")
	}
	for i := 0; i < n/2; i++ {
		emitCase(genFine(rnd), "fine-random")
	}
	nStress := 20
	if run.Tier == "thorough" {
		nStress = 300
	}
	for i := 0; i < nStress; i++ {
		stressCase(rnd.U64()%1000000, rnd.Range(1, 3), rnd.Range(2, 6), rnd.Range(2000, 20000))
	}
	finish()
}

func finish() {
	run.Set("stress_commit_blocks_seen", stressBlocks)
	if mb != nil {
		mb.Close()
	}
	run.Finish("wire: random op sequences (<= 40 ops, 1-4 partitions over 2 topics) through the public API against a scripted coordinator, " +
		"application calls placed inside the commit window by the coordinator's handler; steered windows: a mark lands in every commit window; " +
		"fine: constructRequest / coordinator / handleResponse / releasePOMs called one by one with arbitrary calls in between, " +
		"exhaustive over a 12-symbol alphabet up to the tier's length, then random; stress: goroutines marking concurrently with a commit loop, then Close (oracle only). non-trivial = distinct case with a call inside a commit window")
}
