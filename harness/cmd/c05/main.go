// Harness for C05: idempotent-producer scenarios against the simulated cluster whose brokers enforce Kafka's
// producer-id / epoch / sequence rules; oracles on the broker-side batch log and the partition logs; and the
// transaction manager's sequence counters driven directly over many topic-partitions.
package main

import (
	"fmt"

	"github.com/Shopify/sarama"
	"verif/harness/hlib"
	"verif/harness/pipe"
)

// topics whose names, followed by a partition number, can spell the same string (t/10 ~ t1/0, orders/11 ~ orders1/1, ...)
var tmTopics = []string{"t", "t1", "t10", "orders", "orders1", "a-b", "a", "x.y"}
var tmParts = []int32{0, 1, 10, 11, 100, 101}

func txnMgrOps(run *hlib.Run) {
	nseq := 40
	if run.Tier == "thorough" {
		nseq = 2000
	}
	for i := 0; i < nseq; i++ {
		if !run.Mine(i) {
			continue
		}
		r := hlib.NewRand(run.Seed*7919 + uint64(i))
		tm := sarama.VerifNewTxnMgr()
		run.Emit("tm reset", "ok")
		given := map[string]int32{}
		epoch := int16(0)
		for k := 0; k < 60; k++ {
			if r.Chance(1, 12) {
				tm.Bump()
				epoch++
				given = map[string]int32{}
				run.Emit("tm bump", "ok")
				continue
			}
			ti := r.Intn(len(tmTopics))
			p := tmParts[r.Intn(len(tmParts))]
			s, e := tm.Seq(tmTopics[ti], p)
			op := fmt.Sprintf("tm seq %d %d", ti, p)
			run.Emit(op, fmt.Sprintf("%d %d", s, e))
			key := fmt.Sprintf("%d/%d", ti, p)
			if s != given[key] || e != epoch {
				run.IOFail("C05:sequence-counter-not-per-partition", fmt.Sprintf("tm %d", i),
					fmt.Sprintf("topic %q partition %d was given (sequence %d, epoch %d); it had been given %d sequences in epoch %d before", tmTopics[ti], p, s, e, given[key], epoch))
			}
			given[key]++
		}
		run.Count("txnmgr-sequences")
	}
}

func main() {
	run := hlib.StartParallel("C05", 14)
	pipe.RunAll(run, "C05", []string{"C05:"}, 0)
	if run.ReplayLines() == nil {
		txnMgrOps(run)
	}
	run.Finish(pipe.Rule + " || transaction manager: 60 random getAndIncrementSequenceNumber / bumpEpoch calls over 8 topics x 6 partitions whose names collide when concatenated without a separator")
}
