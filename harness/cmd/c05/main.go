// Harness for C05: idempotent-producer scenarios against the simulated cluster whose brokers enforce Kafka's
// producer-id / epoch / sequence rules; oracles on the broker-side batch log and the partition logs.
package main

import "verif/harness/pipe"

func main() { pipe.Main("C05", []string{"C05:"}) }
