//go:build c08pieces
// +build c08pieces

package main

import (
	"fmt"
	"sort"
	"strconv"
	"strings"

	"github.com/Shopify/sarama"
	"verif/harness/hlib"
)

// Pure pieces of the sticky algorithm, each run through the real function (overlay) and compared with the Lean
// definition of the same name (Model/BalanceStickyPieces.lean) by the line diff.

// shuffled text of an assignment: entries in random order (the models must not depend on it)
func asgShuffled(rnd *hlib.Rand, a map[string][]TP) string {
	if len(a) == 0 {
		return "-"
	}
	names := make([]string, 0, len(a))
	for m := range a {
		names = append(names, m)
	}
	sort.Strings(names)
	for i := len(names) - 1; i > 0; i-- {
		j := rnd.Intn(i + 1)
		names[i], names[j] = names[j], names[i]
	}
	out := make([]string, len(names))
	for i, m := range names {
		out[i] = m + "=" + tpsStr(a[m])
	}
	return strings.Join(out, ";")
}

// order of the entries in a text (the overlay builds partition2AllPotentialConsumers visiting members in it)
func asgOrder(s string) []string {
	if s == "-" {
		return nil
	}
	var out []string
	for _, x := range strings.Split(s, ";") {
		out = append(out, strings.SplitN(x, "=", 2)[0])
	}
	return out
}

// randState: members, what each may get (pot) and a consistent working assignment (cur): every partition held by
// at most one member that may hold it; some members may be absent from cur (parked).
func randState(rnd *hlib.Rand) (cur, pot map[string][]TP, all []TP) {
	M, T := rnd.Range(1, 5), rnd.Range(1, 3)
	mn := distinctNames(rnd, "m", M, 30)
	cur, pot = map[string][]TP{}, map[string][]TP{}
	parts := map[string][]int32{}
	var tn []string
	for t := 0; t < T; t++ {
		name := "t" + strconv.Itoa(t+1)
		tn = append(tn, name)
		parts[name] = seqParts(rnd.Range(0, 4))
		for _, p := range parts[name] {
			all = append(all, TP{name, p})
		}
	}
	identical := rnd.Chance(1, 3)
	for _, m := range mn {
		pot[m] = []TP{}
		for _, t := range tn {
			if identical || rnd.Chance(3, 5) {
				k := 1
				if rnd.Chance(1, 20) {
					k = 2 // topic listed twice
				}
				for ; k > 0; k-- {
					for _, p := range parts[t] {
						pot[m] = append(pot[m], TP{t, p})
					}
				}
			}
		}
		if !rnd.Chance(1, 8) {
			cur[m] = []TP{}
		}
	}
	for _, p := range all {
		var cands []string
		for _, m := range mn {
			if _, in := cur[m]; !in {
				continue
			}
			for _, q := range pot[m] {
				if q == p {
					cands = append(cands, m)
					break
				}
			}
		}
		if len(cands) > 0 && !rnd.Chance(1, 6) {
			// skewed choice so that unbalanced states are frequent
			m := cands[0]
			if rnd.Bool() {
				m = cands[rnd.Intn(len(cands))]
			}
			cur[m] = append(cur[m], p)
		}
	}
	return
}

func doIsBal(curS, potS string) {
	cur, pot := parseAsg(curS), parseAsg(potS)
	op := fmt.Sprintf("isbal %s %s", curS, potS)
	piece(op, run.Safe(op, func() string { return b01(sarama.VerifIsBalanced(toV(cur), toV(pot))) }))
}

func doScore(curS string) {
	op := "score " + curS
	piece(op, run.Safe(op, func() string { return strconv.Itoa(sarama.VerifBalanceScore(toV(parseAsg(curS)))) }))
}

func doSortMem(curS string) {
	op := "sortmem " + curS
	piece(op, run.Safe(op, func() string {
		l := sarama.VerifSortMembers(toV(parseAsg(curS)))
		if len(l) == 0 {
			return "-"
		}
		return strings.Join(l, ",")
	}))
}

func doCanPart(m, curS, potS string) {
	op := fmt.Sprintf("canpart %s %s %s", m, curS, potS)
	piece(op, run.Safe(op, func() string {
		return b01(sarama.VerifCanConsumerParticipate(m, toV(parseAsg(curS)), toV(parseAsg(potS)), asgOrder(potS), nil))
	}))
}

func doAssignP(tp, curS, potS string) {
	op := fmt.Sprintf("assignp %s %s %s", tp, curS, potS)
	piece(op, run.Safe(op, func() string {
		p := parseTPs(tp)[0]
		c, who, sorted := sarama.VerifAssignPartition(sarama.VerifTP{Topic: p.T, Partition: p.P}, toV(parseAsg(curS)), toV(parseAsg(potS)))
		if who == "" {
			who = "-"
		}
		s := "-"
		if len(sorted) > 0 {
			s = strings.Join(sorted, ",")
		}
		return asgStr(fromV(c), false) + "|" + who + "|" + s
	}))
}

// subsident is compared only where the answer does not depend on the map iteration order: in each of the two
// families of lists either all are empty or none is
func doSubsIdent(potS, extraS string) {
	pot := parseAsg(potS)
	var extra []TP
	if extraS != "-" {
		extra = parseTPs(extraS)
	}
	emptyC, nonEmptyC := 0, 0
	cons := map[TP]int{}
	for _, p := range extra {
		cons[p] += 0
	}
	for _, l := range pot {
		if len(l) == 0 {
			emptyC++
		} else {
			nonEmptyC++
		}
		for _, p := range l {
			cons[p]++
		}
	}
	emptyP, nonEmptyP := 0, 0
	for _, n := range cons {
		if n == 0 {
			emptyP++
		} else {
			nonEmptyP++
		}
	}
	if (emptyC > 0 && nonEmptyC > 0) || (emptyP > 0 && nonEmptyP > 0) {
		run.Count("piece-subsident-order-dependent-skipped")
		return
	}
	op := fmt.Sprintf("subsident %s %s", potS, extraS)
	piece(op, run.Safe(op, func() string {
		ex := make([]sarama.VerifTP, len(extra))
		for i, p := range extra {
			ex[i] = sarama.VerifTP{Topic: p.T, Partition: p.P}
		}
		return b01(sarama.VerifAreSubscriptionsIdentical(toV(pot), asgOrder(potS), ex))
	}))
}

// prepop: reports `m1:g3:t1/0,t1/1;m2:v0:…`; compared only when no partition is claimed twice under one generation
// key (then the result depends on the map iteration order)
func doPrepop(repS string) {
	g := &Group{}
	type key struct {
		p   TP
		gen string
	}
	seen := map[key]bool{}
	ambiguous := false
	for _, x := range strings.Split(repS, ";") {
		f := strings.Split(x, ":")
		m := Member{Name: f[0], UD: UserData{Kind: f[1], Parts: parseTPs(f[2])}}
		g.Members = append(g.Members, m)
		gen := m.UD.Kind
		if gen == "v0" {
			gen = "g-1"
		}
		for _, p := range m.UD.Parts {
			k := key{p, gen}
			if seen[k] {
				ambiguous = true
			}
			seen[k] = true
		}
	}
	if ambiguous {
		run.Count("piece-prepop-order-dependent-skipped")
		return
	}
	op := "prepop " + repS
	piece(op, run.Safe(op, func() string {
		members, _ := g.saramaInput()
		cur, prev, err := sarama.VerifPrepopulate(members)
		if err != nil {
			return "err"
		}
		var ps []string
		keys := make([]TP, 0, len(prev))
		for k := range prev {
			keys = append(keys, TP{k.Topic, k.Partition})
		}
		sortTPs(keys)
		for _, k := range keys {
			ps = append(ps, fmt.Sprintf("%s/%d>%s", k.T, k.P, prev[sarama.VerifTP{Topic: k.T, Partition: k.P}].Member))
		}
		p := "-"
		if len(ps) > 0 {
			p = strings.Join(ps, ",")
		}
		return asgStr(fromV(cur), true) + "|" + p
	}))
}

func doMoves(curS, scriptS string) {
	op := fmt.Sprintf("moves %s %s", curS, scriptS)
	piece(op, run.Safe(op, func() string {
		var script []sarama.VerifMove
		if scriptS != "-" {
			for _, x := range strings.Split(scriptS, "+") {
				f := strings.Split(x, ":")
				p := parseTPs(f[1])[0]
				mv := sarama.VerifMove{P: sarama.VerifTP{Topic: p.T, Partition: p.P}}
				if f[0] == "Q" {
					mv.Query, mv.Old, mv.New = true, f[2], f[3]
				} else {
					mv.New = f[2]
				}
				script = append(script, mv)
			}
		}
		c, answers, cands, recs := sarama.VerifMovements(toV(parseAsg(curS)), script)
		as := make([]string, len(answers))
		for i, a := range answers {
			as[i] = fmt.Sprintf("%s/%d", a.Topic, a.Partition)
			if cands[i] > 1 {
				as[i] = "amb"
			}
		}
		rs := make([]string, len(recs))
		for i, r := range recs {
			rs[i] = r[0] + ":" + r[1] + ">" + r[2]
		}
		sort.Strings(rs)
		a, r := "-", "-"
		if len(as) > 0 {
			a = strings.Join(as, ",")
		}
		if len(rs) > 0 {
			r = strings.Join(rs, ",")
		}
		return asgStr(fromV(c), false) + "|" + a + "|" + r
	}))
}

// doCGTopics: what consumerGroup.balance hands to the strategy: op `cgtopics <members> <topics>`
func doCGTopics(ms, ts string) {
	g := parseGroup(ms, ts)
	op := fmt.Sprintf("cgtopics %s %s", ms, ts)
	piece(op, run.Safe(op, func() string {
		members, topics := g.saramaInput()
		got, err := sarama.VerifGroupBalanceTopics(members, topics)
		if err != nil {
			return "err"
		}
		if PROP == "C08" {
			for _, m := range g.Members {
				for _, t := range m.Topics {
					if _, ok := got[t]; !ok {
						run.IOFail("group-balance-drops-subscribed-topic", op, "topic "+t+" is subscribed by "+m.Name+" but not handed to the strategy, and no error")
					}
				}
			}
		}
		names := make([]string, 0, len(got))
		for t := range got {
			names = append(names, t)
		}
		sort.Strings(names)
		out := make([]string, len(names))
		for i, t := range names {
			out[i] = t + ":" + i32sStr(got[t])
			if PROP == "C08" && !g.hasSubscriber(t) {
				run.IOFail("group-balance-passes-topic-without-subscriber", op, "topic "+t)
			}
		}
		if len(out) == 0 {
			return "-"
		}
		return strings.Join(out, ";")
	}))
}

func genPieces(rnd *hlib.Rand, n int) {
	for i := 0; i < n/10+5; i++ {
		g, _ := randGroup(rnd, 6, 4, 5)
		doCGTopics(g.membersStr(), g.topicsStr())
	}
	for i := 0; i < n; i++ {
		cur, pot, all := randState(rnd)
		curS, potS := asgShuffled(rnd, cur), asgShuffled(rnd, pot)
		switch rnd.Intn(9) {
		case 0, 1:
			if len(cur) > 0 {
				doIsBal(curS, potS)
			}
		case 2:
			doScore(curS)
			doSortMem(curS)
		case 3:
			names := asgOrder(potS)
			doCanPart(names[rnd.Intn(len(names))], curS, potS)
		case 4:
			if len(all) > 0 {
				p := all[rnd.Intn(len(all))]
				doAssignP(tpsStr([]TP{p}), curS, potS)
			}
		case 5:
			extra := "-"
			if rnd.Chance(1, 4) {
				extra = "t9/0,t9/1"
			}
			doSubsIdent(potS, extra)
		case 6:
			// reports: random claims under random generations / schemas
			names := asgOrder(potS)
			var reps []string
			for _, m := range names {
				kind := []string{"-", "v0", "g0", "g1", "g2", "g3", "g-1"}[rnd.Intn(7)]
				var claims []TP
				if kind != "-" {
					for _, p := range all {
						if rnd.Chance(1, 3) {
							claims = append(claims, p)
						}
					}
				}
				reps = append(reps, m+":"+kind+":"+tpsStr(claims))
			}
			doPrepop(strings.Join(reps, ";"))
		default:
			// movement script over the working assignment
			names := asgOrder(curS)
			if len(names) < 2 {
				continue
			}
			where := map[TP]string{}
			var held []TP
			for m, l := range cur {
				for _, p := range l {
					where[p] = m
					held = append(held, p)
				}
			}
			sortTPs(held)
			if len(held) == 0 {
				continue
			}
			var steps []string
			for k := rnd.Range(1, 10); k > 0; k-- {
				p := held[rnd.Intn(len(held))]
				to := names[rnd.Intn(len(names))]
				if rnd.Chance(1, 3) {
					steps = append(steps, fmt.Sprintf("Q:%s:%s:%s", tpsStr([]TP{p}), where[p], to))
					continue
				}
				if to == where[p] {
					continue
				}
				steps = append(steps, fmt.Sprintf("M:%s:%s", tpsStr([]TP{p}), to))
				where[p] = to
			}
			if len(steps) > 0 {
				doMoves(curS, strings.Join(steps, "+"))
			}
		}
	}
}

func replayPiece(t []string, l string) {
	switch t[0] {
	case "isbal":
		doIsBal(t[1], t[2])
	case "score":
		doScore(t[1])
	case "sortmem":
		doSortMem(t[1])
	case "canpart":
		doCanPart(t[1], t[2], t[3])
	case "assignp":
		doAssignP(t[1], t[2], t[3])
	case "subsident":
		doSubsIdent(t[1], t[2])
	case "prepop":
		doPrepop(t[1])
	case "moves":
		doMoves(t[1], t[2])
	case "f12":
		doF12()
	case "cgtopics":
		doCGTopics(t[1], t[2])
	}
}

func toV(a map[string][]TP) map[string][]sarama.VerifTP {
	out := make(map[string][]sarama.VerifTP, len(a))
	for m, l := range a {
		v := make([]sarama.VerifTP, len(l))
		for i, p := range l {
			v[i] = sarama.VerifTP{Topic: p.T, Partition: p.P}
		}
		out[m] = v
	}
	return out
}

func fromV(a map[string][]sarama.VerifTP) map[string][]TP {
	out := make(map[string][]TP, len(a))
	for m, l := range a {
		v := make([]TP, len(l))
		for i, p := range l {
			v[i] = TP{p.Topic, p.Partition}
		}
		out[m] = v
	}
	return out
}
