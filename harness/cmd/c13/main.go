// Harness for C08 / C13: the real BalanceStrategyRange / RoundRobin / Sticky on generated groups and
// rebalance chains; differential lines for the Lean models and the property oracles (see exec.go, oracle.go).
package main

import (
	"os"
	"strconv"
	"strings"
	"time"

	"verif/harness/hlib"
)

func main() {
	run = hlib.Start(PROP)
	if ms, err := strconv.Atoi(os.Getenv("VERIF_PLAN_TIMEOUT_MS")); err == nil && ms > 0 {
		planTimeout = time.Duration(ms) * time.Millisecond // debugging aid (minimising a non-returning input)
	}
	rnd := hlib.NewRand(run.Seed)
	if lines := run.ReplayLines(); lines != nil {
		for _, l := range lines {
			replayLine(l)
		}
		run.Finish("replay")
		return
	}
	thorough := run.Tier == "thorough"
	if thorough {
		gaveUpLimit = 12
	}
	n := run.N
	if n == 0 {
		n = 20000
		if thorough {
			n = 2000000
		}
	}
	calls := 0

	// ---- 1. range core: boundaries of the real float computation, exhaustive grid
	maxN, maxMm := 512, 64
	if thorough {
		maxN, maxMm = 4096, 512
	}
	if n < 5000 { // tiny runs (mutation search): smaller grid
		maxN, maxMm = 128, 32
	}
	if thorough {
		for m := 1; m <= maxMm; m++ {
			step := 1
			if m > 64 {
				step = 7 // thinned for many members; all (n, m) with m <= 64 are exhaustive
			}
			for nn := 0; nn <= maxN; nn += step {
				doRangeCore(nn, m)
			}
		}
	} else {
		for m := 1; m <= maxMm; m++ {
			for nn := 0; nn <= maxN; nn++ {
				if m > 16 && nn > 128 && (nn+m+int(run.Seed))%5 != 0 {
					continue // quick tier: full for m <= 16 or n <= 128, every fifth otherwise (offset by seed)
				}
				doRangeCore(nn, m)
			}
		}
	}
	for i := 0; i < n/20; i++ {
		hi := 1 << 14
		if thorough {
			hi = 1 << 20
		}
		m := rnd.Range(1, 600)
		nn := rnd.Range(0, hi)
		if rnd.Bool() { // exact half points: n = m*q + m/2
			m = 2 * rnd.Range(1, 300)
			nn = m*rnd.Range(0, hi/m) + m/2
		}
		doRangeCore(nn, m)
	}

	// ---- 2. crafted: F12 witness and the round-robin probe with a topic nobody subscribes to (F13)
	doPlan("sticky", "other", f12Witness())
	doPlan("sticky", "other", parseGroup("m1:t2:g1:t1/0,t2/0;m2:t1:g2:t1/0,t1/1,t1/2;m3:t1:g2:t1/3", "t1:0,1,2,3;t2:0")) // revert witness
	doPlan("rr", "-", parseGroup("m1:t1:-:;m2:t1:-:", "t1:0,1;t2:0"))
	doF12()
	doPlan("sticky", "join", supersetJoinWitness())
	doPlan("sticky", "other", multiGenWitness())
	calls += 6

	// ---- 3. exhaustive small shapes, all three strategies; sticky: fresh + replan + one more change
	visit := func(g *Group) {
		doPlan("range", "-", g)
		if r := forRR(g); len(r.Topics) > 0 {
			doPlan("rr", "-", r)
		}
		calls += 2 + runChain(rnd, g.clone(), 2, false)
	}
	if thorough {
		enumSmall(4, 3, 4, func(idx int, g *Group) bool { visit(g); return true })
	} else {
		enumSmall(3, 2, 3, func(idx int, g *Group) bool { visit(g); return true })
		stride := 397 + int(run.Seed%97)
		enumSmall(4, 3, 4, func(idx int, g *Group) bool {
			if idx%stride == int(run.Seed)%stride {
				visit(g)
			}
			return calls < n/2
		})
	}

	// ---- 4. random larger groups and chains (thorough: a fixed extra budget after the exhaustive grid)
	if thorough {
		n = calls + n/3
	}
	for calls < n {
		maxM, maxT, maxP := 8, 5, 12
		if rnd.Chance(1, 10) {
			maxM, maxT, maxP = 24, 10, 30
		}
		if thorough && rnd.Chance(1, 200) {
			maxM, maxT, maxP = 60, 20, 60
		}
		g, pat := randGroup(rnd, maxM, maxT, maxP)
		run.Count("pattern-" + pat)
		switch rnd.Intn(6) {
		case 0:
			doPlan("range", "-", g)
			calls++
		case 1:
			if r := forRR(g); len(r.Topics) > 0 {
				doPlan("rr", "-", r)
				calls++
			}
		case 2: // sticky on arbitrary (not plan-produced) user data
			arbitraryUserData(rnd, g)
			calls += runChain(rnd, g, rnd.Range(0, 3), false)
		default:
			calls += runChain(rnd, g, rnd.Range(2, 8), pat == "identical")
		}
	}
	// ---- 5. pure pieces of the sticky algorithm against their models
	genPieces(rnd, n/10)

	// ---- 6. joiners with a superset of topics over clusters with disjoint subscriptions, from fixed points.
	// Last, because this family runs into the known non-termination of performReassignments fairly often and the
	// harness stops calling a strategy after gaveUpLimit calls that did not return.
	fam := 500
	if thorough {
		fam = 20000
	}
	if run.N > 0 && run.N < 5000 {
		fam = run.N / 10
	}
	for i := 0; i < 2*fam; i++ {
		longLivedChain(rnd)
	}
	for i := 0; i < fam; i++ {
		rejoinChain(rnd)
	}
	for i := 0; i < 3*fam; i++ {
		multiGen(rnd) // before clusterJoin, which tends to use up the non-return budget
	}
	for i := 0; i < fam; i++ {
		clusterJoin(rnd)
	}

	run.Finish("rangecore: exhaustive (n,m) grid + random incl. exact half points; groups: exhaustive small shapes " +
		"(members x topics x partitions x subscription subsets) and random larger ones (identical/overlapping/disjoint/" +
		"private-topic/listed-twice), for all three strategies; sticky: chains of rebalances (same/leave/join/subscription " +
		"change/partition and topic changes/stale, conflicting, old-schema user data); non-trivial = distinct (strategy, " +
		"members, topics) input whose plan assigns at least one partition, or distinct rangecore (n,m)")
}

func replayLine(l string) {
	t := strings.Fields(l)
	if len(t) == 0 {
		return
	}
	switch t[0] {
	case "rangecore":
		n, _ := strconv.Atoi(t[1])
		m, _ := strconv.Atoi(t[2])
		doRangeCore(n, m)
	case "range":
		doPlan("range", "-", parseGroup(t[1], t[2]))
	case "rr":
		doPlan("rr", "-", parseGroup(t[1], t[2]))
	case "lchain":
		replayLongLived(t)
	case "vplan":
		g := parseGroup(t[3], t[4])
		doPlan(t[1], t[2], g)
	default:
		replayPiece(t, l)
	}
}
