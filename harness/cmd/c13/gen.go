package main

import (
	"fmt"
	"sort"
	"strconv"

	"verif/harness/hlib"
)

func seqParts(n int) []int32 {
	p := make([]int32, n)
	for i := range p {
		p[i] = int32(i)
	}
	return p
}

// enumSmall visits every group shape with 1..maxM members, 1..maxT topics, 0..maxP partitions per topic and
// every subscription subset per member.  visit returns false to stop.
func enumSmall(maxM, maxT, maxP int, visit func(idx int, g *Group) bool) {
	idx := 0
	for M := 1; M <= maxM; M++ {
		for T := 1; T <= maxT; T++ {
			nP := 1
			for i := 0; i < T; i++ {
				nP *= maxP + 1
			}
			nS := 1
			for i := 0; i < M; i++ {
				nS *= 1 << uint(T)
			}
			for pc := 0; pc < nP; pc++ {
				for sc := 0; sc < nS; sc++ {
					g := &Group{}
					x := pc
					for t := 0; t < T; t++ {
						g.Topics = append(g.Topics, Topic{Name: "t" + strconv.Itoa(t+1), Parts: seqParts(x % (maxP + 1))})
						x /= maxP + 1
					}
					y := sc
					for m := 0; m < M; m++ {
						mem := Member{Name: "m" + strconv.Itoa(m+1), UD: UserData{Kind: "-"}}
						for t := 0; t < T; t++ {
							if y&(1<<uint(t)) != 0 {
								mem.Topics = append(mem.Topics, "t"+strconv.Itoa(t+1))
							}
						}
						y >>= uint(T)
						g.Members = append(g.Members, mem)
					}
					if !visit(idx, g) {
						return
					}
					idx++
				}
			}
		}
	}
}

// forRR restricts a group to what consumerGroup.balance passes: topics = union of the subscriptions that exist.
func forRR(g *Group) *Group {
	c := g.clone()
	var ts []Topic
	for _, t := range c.Topics {
		if c.hasSubscriber(t.Name) {
			ts = append(ts, t)
		}
	}
	c.Topics = ts
	return c
}

func distinctNames(rnd *hlib.Rand, prefix string, n, space int) []string {
	seen := map[int]bool{}
	var out []string
	for len(out) < n {
		k := rnd.Intn(space)
		if !seen[k] {
			seen[k] = true
			out = append(out, prefix+strconv.Itoa(k))
		}
	}
	return out
}

func randParts(rnd *hlib.Rand, maxP int) []int32 {
	n := rnd.Range(0, maxP)
	if rnd.Chance(1, 6) {
		n = rnd.Range(0, 3)
	}
	p := seqParts(n)
	switch rnd.Intn(12) {
	case 0: // gaps
		for i := range p {
			p[i] = int32(i * 2)
		}
	case 1: // unsorted
		for i := len(p) - 1; i > 0; i-- {
			j := rnd.Intn(i + 1)
			p[i], p[j] = p[j], p[i]
		}
	case 2: // offset
		for i := range p {
			p[i] += 7
		}
	}
	return p
}

// randGroup: structured random group. pattern: 0 identical, 1 overlapping, 2 disjoint, 3 one member with a private topic
func randGroup(rnd *hlib.Rand, maxM, maxT, maxP int) (*Group, string) {
	M, T := rnd.Range(1, maxM), rnd.Range(1, maxT)
	g := &Group{}
	tn := distinctNames(rnd, "t", T, 3*maxT+3)
	for _, n := range tn {
		g.Topics = append(g.Topics, Topic{Name: n, Parts: randParts(rnd, maxP)})
	}
	mn := distinctNames(rnd, "m", M, 3*maxM+7)
	pat := rnd.Intn(4)
	pats := []string{"identical", "overlapping", "disjoint", "private-topic"}
	for i, n := range mn {
		m := Member{Name: n, UD: UserData{Kind: "-"}}
		switch pat {
		case 0:
			m.Topics = append([]string(nil), tn...)
		case 1:
			for _, t := range tn {
				if rnd.Chance(3, 5) {
					m.Topics = append(m.Topics, t)
				}
			}
		case 2:
			m.Topics = []string{tn[i%T]}
		case 3:
			if i == 0 {
				m.Topics = []string{tn[0]}
			} else {
				for _, t := range tn[1:] {
					if rnd.Chance(4, 5) {
						m.Topics = append(m.Topics, t)
					}
				}
			}
		}
		// subscription order as the member reports it
		for k := len(m.Topics) - 1; k > 0; k-- {
			j := rnd.Intn(k + 1)
			m.Topics[k], m.Topics[j] = m.Topics[j], m.Topics[k]
		}
		if rnd.Chance(1, 25) && len(m.Topics) > 0 { // topic listed twice
			m.Topics = append(m.Topics, m.Topics[rnd.Intn(len(m.Topics))])
			pat = 4
		}
		if rnd.Chance(1, 25) { // subscribed to a topic the cluster does not have
			m.Topics = append(m.Topics, "t999")
		}
		g.Members = append(g.Members, m)
	}
	if pat == 4 {
		return g, "listed-twice"
	}
	return g, pats[pat]
}

// ---------------- sticky rebalance chains

type chain struct {
	g         *Group
	gen       int
	prevGood  bool // previous plan valid and balanced
	nextID    int
	identical bool
}

func allTopicNames(g *Group) []string {
	out := make([]string, len(g.Topics))
	for i, t := range g.Topics {
		out[i] = t.Name
	}
	return out
}

// feedBack: every member reports the plan it got as user data of generation gen
func feedBack(g *Group, a Asg, gen int) {
	for i := range g.Members {
		l := append([]TP(nil), a[g.Members[i].Name]...)
		sortTPs(l)
		g.Members[i].UD = UserData{Kind: "g" + strconv.Itoa(gen), Parts: l}
	}
}

// runChainFrom: a chain that starts from given user data (kind "other") with the next generation `gen`
func runChainFrom(rnd *hlib.Rand, g *Group, gen, steps int) int {
	return runChainK(rnd, &chain{g: g, gen: gen, nextID: 100}, "other", steps)
}

// runChain: fresh plan, then `steps` rebalances.  Returns the number of Plan calls.
func runChain(rnd *hlib.Rand, g *Group, steps int, identical bool) int {
	return runChainK(rnd, &chain{g: g, gen: 1, nextID: 100, identical: identical}, "fresh", steps)
}

func runChainK(rnd *hlib.Rand, c *chain, kind string, steps int) int {
	calls := 0
	for s := 0; s <= steps; s++ {
		a, v := doPlan("sticky", kind, c.g)
		calls++
		run.Count("sticky-step-" + kind)
		if a == nil {
			return calls
		}
		good := v["valid"] == "1" && v["bal"] == "1"
		next := c.g.clone()
		feedBack(next, a, c.gen)
		c.gen++
		kind = mutate(rnd, c, next, a, good)
		c.g = next
	}
	return calls
}

// mutate applies one change to the group (whose user data already carries the last plan) and returns the step kind.
func mutate(rnd *hlib.Rand, c *chain, g *Group, last Asg, good bool) string {
	choice := rnd.Intn(16)
	if !good && choice < 6 {
		choice = 6 + rnd.Intn(10)
	}
	switch choice {
	case 0, 1:
		return "same"
	case 2, 3:
		if len(g.Members) >= 2 {
			i := rnd.Intn(len(g.Members))
			g.Members = append(g.Members[:i], g.Members[i+1:]...)
			return "leave"
		}
		return "same"
	case 4, 5:
		m := Member{Name: "j" + strconv.Itoa(c.nextID), UD: UserData{Kind: "-"}} // "j…": cannot collide with a generated member name
		c.nextID++
		if c.identical || rnd.Bool() {
			m.Topics = append([]string(nil), g.Members[rnd.Intn(len(g.Members))].Topics...)
		} else {
			for _, t := range allTopicNames(g) {
				if rnd.Bool() {
					m.Topics = append(m.Topics, t)
				}
			}
		}
		// new member sorts before, between or after the old ones
		if rnd.Chance(1, 3) {
			m.Name = "a" + m.Name
		}
		g.Members = append(g.Members, m)
		return "join"
	case 6: // subscription change
		i := rnd.Intn(len(g.Members))
		var ts []string
		for _, t := range allTopicNames(g) {
			if rnd.Bool() {
				ts = append(ts, t)
			}
		}
		g.Members[i].Topics = ts
		c.identical = false
		return "other"
	case 7: // a topic gains partitions
		if len(g.Topics) > 0 {
			t := &g.Topics[rnd.Intn(len(g.Topics))]
			max := int32(-1)
			for _, p := range t.Parts {
				if p > max {
					max = p
				}
			}
			for k := rnd.Range(1, 3); k > 0; k-- {
				max++
				t.Parts = append(t.Parts, max)
			}
		}
		return "other"
	case 8: // a topic loses partitions
		if len(g.Topics) > 0 {
			t := &g.Topics[rnd.Intn(len(g.Topics))]
			if len(t.Parts) > 0 {
				t.Parts = t.Parts[:len(t.Parts)-rnd.Range(1, len(t.Parts))]
			}
		}
		return "other"
	case 9: // a topic is deleted (members stay subscribed)
		if len(g.Topics) > 1 {
			i := rnd.Intn(len(g.Topics))
			g.Topics = append(g.Topics[:i], g.Topics[i+1:]...)
		}
		return "other"
	case 10: // a new topic appears, some members subscribe
		name := "n" + strconv.Itoa(c.nextID) // cannot collide with a generated topic name
		c.nextID++
		g.Topics = append(g.Topics, Topic{Name: name, Parts: seqParts(rnd.Range(1, 5))})
		for i := range g.Members {
			if c.identical || rnd.Bool() {
				g.Members[i].Topics = append(g.Members[i].Topics, name)
			}
		}
		return "other"
	case 11: // stale member: reports an older generation with what somebody else owns now
		if len(g.Members) >= 2 {
			i, j := rnd.Intn(len(g.Members)), rnd.Intn(len(g.Members))
			if i != j {
				old := c.gen - 1 - rnd.Range(1, 2)
				parts := append([]TP(nil), g.Members[j].UD.Parts...)
				if rnd.Bool() && len(parts) > 1 {
					parts = parts[:len(parts)/2]
				}
				g.Members[i].UD = UserData{Kind: "g" + strconv.Itoa(old), Parts: parts}
				if rnd.Bool() { // and changed its subscription meanwhile
					var ts []string
					for _, t := range allTopicNames(g) {
						if rnd.Chance(1, 2) {
							ts = append(ts, t)
						}
					}
					g.Members[i].Topics = ts
					c.identical = false
				}
			}
		}
		return "other"
	case 12: // conflicting claims in the same generation
		if len(g.Members) >= 2 {
			i, j := rnd.Intn(len(g.Members)), rnd.Intn(len(g.Members))
			if i != j {
				if g.Members[i].UD.Kind != "-" { // a member without user data claims nothing
					g.Members[i].UD.Parts = append(g.Members[i].UD.Parts, g.Members[j].UD.Parts...)
				}
			}
		}
		return "other"
	case 13: // old schema user data / no user data / duplicate claims
		i := rnd.Intn(len(g.Members))
		switch rnd.Intn(3) {
		case 0:
			g.Members[i].UD.Kind = "v0"
		case 1:
			g.Members[i].UD = UserData{Kind: "-"}
		case 2:
			if g.Members[i].UD.Kind != "-" {
				g.Members[i].UD.Parts = append(g.Members[i].UD.Parts, g.Members[i].UD.Parts...)
			}
		}
		return "other"
	case 14: // several changes at once
		mutate(rnd, c, g, last, false)
		mutate(rnd, c, g, last, false)
		return "other"
	default: // newer generation claim by a member that missed nothing: future generation
		i := rnd.Intn(len(g.Members))
		g.Members[i].UD.Kind = "g" + strconv.Itoa(c.gen+rnd.Range(0, 2))
		return "other"
	}
}

// arbitraryUserData: user data not produced by any plan: random claims, generations, schemas
func arbitraryUserData(rnd *hlib.Rand, g *Group) {
	var all []TP
	for _, t := range g.Topics {
		for _, p := range t.Parts {
			all = append(all, TP{t.Name, p})
		}
	}
	all = append(all, TP{"t998", 0}, TP{"t998", 1})
	if len(g.Topics) > 0 {
		all = append(all, TP{g.Topics[0].Name, 77})
	}
	for i := range g.Members {
		switch rnd.Intn(5) {
		case 0:
			g.Members[i].UD = UserData{Kind: "-"}
			continue
		case 1:
			g.Members[i].UD = UserData{Kind: "v0"}
		default:
			g.Members[i].UD = UserData{Kind: "g" + strconv.Itoa(rnd.Range(-1, 3))}
		}
		for _, p := range all {
			if rnd.Chance(1, 3) {
				g.Members[i].UD.Parts = append(g.Members[i].UD.Parts, p)
			}
		}
	}
}

// clusterJoin: clusters of members with pairwise disjoint topic sets reach a fixed point, then a member joins that
// subscribes to a superset (all topics, or the topics of several clusters): it first absorbs partitions from
// several clusters, becomes the most loaded member and has to hand partitions back through the movement
// bookkeeping (getTheActualPartitionToBeMoved).  Non-identical subscriptions; the pairwise-swap oracle applies.
func clusterJoin(rnd *hlib.Rand) int {
	g := &Group{}
	K := rnd.Range(2, 3)
	tid, mid := 0, 0
	var clusterTopics [][]string
	for k := 0; k < K; k++ {
		var ts []string
		for j := rnd.Range(1, 2); j > 0; j-- {
			name := "t" + strconv.Itoa(tid)
			tid++
			ts = append(ts, name)
			g.Topics = append(g.Topics, Topic{Name: name, Parts: seqParts(rnd.Range(3, 8))})
		}
		clusterTopics = append(clusterTopics, ts)
	}
	// members of the clusters interleaved, so that the id order does not follow the clusters
	per := rnd.Range(1, 3)
	for r := 0; r < per; r++ {
		for k := 0; k < K; k++ {
			g.Members = append(g.Members, Member{Name: "m" + strconv.Itoa(mid), Topics: append([]string(nil), clusterTopics[k]...), UD: UserData{Kind: "-"}})
			mid++
		}
	}
	calls := 0
	gen := rnd.Range(1, 5)
	a, v := doPlan("sticky", "fresh", g)
	calls++
	if a == nil || v["valid"] != "1" {
		return calls
	}
	// re-plan until the plan is a fixed point of the strategy (at most three rounds)
	for round := 0; round < 3; round++ {
		next := g.clone()
		feedBack(next, a, gen)
		gen++
		b, w := doPlan("sticky", "same", next)
		calls++
		run.Count("sticky-step-same")
		if b == nil || w["valid"] != "1" {
			return calls
		}
		g, a = next, b
		if w["same"] == "1" {
			break
		}
	}
	next := g.clone()
	feedBack(next, a, gen)
	j := Member{Name: "m" + strconv.Itoa(mid), UD: UserData{Kind: "-"}}
	if rnd.Chance(1, 4) {
		j.Name = "a" + j.Name
	}
	for k := 0; k < K; k++ {
		if k < 2 || rnd.Bool() {
			j.Topics = append(j.Topics, clusterTopics[k]...)
		}
	}
	next.Members = append(next.Members, j)
	doPlan("sticky", "join", next)
	run.Count("sticky-step-join-superset")
	return calls + 1
}

// rejoinChain: identical subscriptions; plan, then one member goes away (keeping the user data of its last sync, as
// consumerGroup.userData does) while another joins, then the absent member comes back with its stale user data
// (kind "rejoin"): the claims of the newest generation must win, partitions may only move to the member that came back.
func rejoinChain(rnd *hlib.Rand) int {
	g := &Group{}
	T, M := rnd.Range(1, 2), rnd.Range(3, 5)
	var tn []string
	for t := 0; t < T; t++ {
		tn = append(tn, "t"+strconv.Itoa(t))
		g.Topics = append(g.Topics, Topic{Name: tn[t], Parts: seqParts(rnd.Range(3, 9))})
	}
	for i := 0; i < M; i++ {
		g.Members = append(g.Members, Member{Name: "m" + strconv.Itoa(i), Topics: append([]string(nil), tn...), UD: UserData{Kind: "-"}})
	}
	gen := rnd.Range(1, 4)
	a, v := doPlan("sticky", "fresh", g)
	if a == nil || v["valid"] != "1" {
		return 1
	}
	// generation gen: everybody has the plan; one member goes away, a new one joins
	g2 := g.clone()
	feedBack(g2, a, gen)
	k := rnd.Intn(M)
	away := g2.Members[k]
	g2.Members = append(g2.Members[:k:k], g2.Members[k+1:]...)
	if rnd.Chance(3, 4) {
		g2.Members = append(g2.Members, Member{Name: "j" + strconv.Itoa(M), Topics: append([]string(nil), tn...), UD: UserData{Kind: "-"}})
	}
	b, w := doPlan("sticky", "other", g2)
	if b == nil || w["valid"] != "1" {
		return 2
	}
	// generation gen+1 (possibly a few more rounds without change), then the absent member is back
	g3 := g2.clone()
	feedBack(g3, b, gen+1)
	g3.Members = append(g3.Members, away)
	if rnd.Bool() { // map order / position of the rejoiner in the member list
		n := len(g3.Members)
		g3.Members[0], g3.Members[n-1] = g3.Members[n-1], g3.Members[0]
	}
	doPlan("sticky", "rejoin", g3)
	run.Count("sticky-step-rejoin")
	return 3
}

// multiGen: prior state from several generations with conflicting claims (so the previous-owner branch fires), mixed
// subscriptions and an unbalanced kept assignment (one member of the newest generation claims most partitions): the
// shape in which getTheActualPartitionToBeMoved substitutes partitions, sometimes one held by a third member.
// Followed by a re-plan and a join, so that the stickiness predicates see the resulting plans too.
func multiGen(rnd *hlib.Rand) int {
	g := &Group{}
	T, M := rnd.Range(2, 3), rnd.Range(3, 5)
	var all []TP
	for t := 0; t < T; t++ {
		name := "t" + strconv.Itoa(t)
		g.Topics = append(g.Topics, Topic{Name: name, Parts: seqParts(rnd.Range(4, 7))})
		for _, p := range g.Topics[t].Parts {
			all = append(all, TP{name, p})
		}
	}
	top := rnd.Range(2, 4)
	hog := rnd.Intn(M)
	for i := 0; i < M; i++ {
		m := Member{Name: "m" + strconv.Itoa(i)}
		for _, t := range g.Topics {
			if i == hog || rnd.Chance(3, 4) {
				m.Topics = append(m.Topics, t.Name)
			}
		}
		if len(m.Topics) == 0 {
			m.Topics = []string{g.Topics[0].Name}
		}
		gen, num, den := rnd.Range(1, top), 1, 3
		if i == hog {
			gen, num, den = top, 2, 3
		}
		m.UD = UserData{Kind: "g" + strconv.Itoa(gen)}
		for _, p := range all {
			if rnd.Chance(num, den) { // stale claims on topics the member no longer lists are part of the shape
				m.UD.Parts = append(m.UD.Parts, p)
			}
		}
		g.Members = append(g.Members, m)
	}
	run.Count("sticky-multigen")
	return runChainFrom(rnd, g, top+1, 2)
}

// the 4-member / 2-topic input of seeded change c08-5 (substituted partition held by a third member)
func multiGenWitness() *Group {
	return parseGroup("m0:t0:g2:t0/1,t0/2,t1/1,t1/3;m1:t0,t1:g3:t0/0,t0/1,t0/2,t0/3,t1/0,t1/2,t1/3,t1/5;m2:t0,t1:g2:t0/4,t1/0;m3:t0,t1:g1:t0/2,t0/4,t1/3,t1/4,t1/5",
		"t0:0,1,2,3,4;t1:0,1,2,3,4,5")
}

// the lead's pairwise-swap scenario (m4 joins with all topics; m1, m3 on t0 only; m0, m2 on t1, t2)
func supersetJoinWitness() *Group {
	return parseGroup("m0:t1,t2:g3:t1/2,t1/6,t1/5,t2/2,t2/3,t2/1;m1:t0:g3:t0/5,t0/2,t0/1;m2:t1,t2:g3:t1/3,t1/1,t1/0,t1/4,t2/0,t2/4;m3:t0:g3:t0/4,t0/3,t0/0;m4:t0,t1,t2:-:",
		"t0:0,1,2,3,4,5;t1:0,1,2,3,4,5,6;t2:0,1,2,3,4")
}

// the F12 witness of DESIGN section 9
func f12Witness() *Group {
	return parseGroup("A:t2:g1:t1/0;B:t1:g2:t1/0,t1/1,t1/2;C:t1:g2:", "t1:0,1,2;t2:0,1,2")
}

func sortedCopy(s []string) []string {
	c := append([]string(nil), s...)
	sort.Strings(c)
	return c
}

var _ = fmt.Sprintf
