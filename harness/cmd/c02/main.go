// Harness for C02: producer scenarios against the simulated cluster; per-partition submission order vs the
// order of first copies in the partition logs and the offsets of success events.
package main

import "verif/harness/pipe"

func main() { pipe.Main("C02", []string{"C02:"}) }
