// Harness for C09: wire encoding round-trips for every message type and version.
//
// Streams (all from one PRNG):
//   prim    boundary grids and random call sequences on the real prepEncoder/realEncoder/realDecoder
//   body    every request/response type × every version: reflect-populated values, the REAL encode (recorded
//           call sequence → `enc` line), the REAL decode (recorded → `dec` line), and the property oracle:
//           prep length = bytes written, decode succeeds and consumes everything, re-encoding gives the same
//           bytes (same length and same multiset of calls where a map fixes no order), decoding again gives an
//           equal value
//   frame   request bodies inside the request frame (length prefix + header)
//   rec     records, record batches (every codec), legacy message sets (v0/v1, wrappers) against the hand models
//
// Replay: `case …` lines regenerate a generated case from its seed; every other op line is re-executed on the
// real code through the scripted encoder/decoder.
package main

import (
	"bytes"
	"encoding/hex"
	"flag"
	"fmt"
	"strconv"
	"strings"
	"sync"
	"time"

	"github.com/Shopify/sarama"
	"verif/harness/hlib"
)

var run *hlib.Run

func hx(b []byte) string { return hlib.Hex(b) }

// at most three reports per signature and run (hlib keeps 200 reports in total: one flooding signature must not
// push a different one out)
var sigSeen = map[string]int{}

func ioFail(sig, input, detail string) {
	sigSeen[sig]++
	run.Count("oracle:" + sig)
	if sigSeen[sig] > 3 {
		return
	}
	run.IOFail(sig, input, detail)
}

func unhex(s string) []byte {
	if s == "-" || s == "N" {
		return []byte{}
	}
	b, _ := hex.DecodeString(s)
	return b
}

type genRand struct{ *hlib.Rand }

func b2i(b bool) int {
	if b {
		return 1
	}
	return 0
}

// ---------------------------------------------------------------------------------------------- enc / dec lines

// emitEnc runs an `enc` token list on the real encoders and emits the line; returns the bytes (nil on reject).
func emitEnc(toks []string, sigCtx string) []byte {
	op := "enc " + strings.Join(toks, " ")
	var out []byte
	ans := run.Safe(op, func() string {
		e := sarama.VerifRunEncScript(toks)
		if e.Err != nil {
			return "rejected"
		}
		checkEnc(e, sigCtx, op, true)
		out = e.Bytes
		// the line carries the calls as recorded in the real pass: a varint length field then holds the length
		// the prep pass stored in it (the script's own `pv:<n>` is what it held before the first pass)
		op = "enc " + e.Toks
		return fmt.Sprintf("%d %s", e.PrepLen, hx(e.Bytes))
	})
	if ans == "rejected" {
		run.Count("script-rejected")
		return nil
	}
	run.Emit(op, ans)
	return out
}

func checkEnc(e sarama.VerifEnc, ctx, input string, deterministic bool) {
	if e.PrepLen != e.RealOff || len(e.Bytes) != e.PrepLen {
		ioFail("prep-real-length-mismatch:"+ctx, input, fmt.Sprintf("prepEncoder.length=%d realEncoder.off=%d", e.PrepLen, e.RealOff))
	}
	if len(e.Direct) != len(e.Bytes) {
		ioFail("encode-length-unstable:"+ctx, input, fmt.Sprintf("%d then %d bytes", len(e.Bytes), len(e.Direct)))
	} else if deterministic && !bytes.Equal(e.Direct, e.Bytes) {
		ioFail("encode-bytes-unstable:"+ctx, input, "two encodings of one value differ")
	}
}

func decAnswer(d sarama.VerifDec) string {
	// a recorded call that failed ends the line; an error from code that is not recorded (a sub-decoder over a
	// slice) leaves the recorded sequence complete
	if d.Err != nil && (d.Outs == "ERR" || strings.HasSuffix(d.Outs, " ERR")) {
		return d.Outs
	}
	if d.Outs == "" {
		return fmt.Sprintf("off=%d", d.Off)
	}
	return fmt.Sprintf("%s off=%d", d.Outs, d.Off)
}

func emitDec(buf []byte, toks []string) sarama.VerifDec {
	op := "dec " + hx(buf) + " " + strings.Join(toks, " ")
	var d sarama.VerifDec
	ans := run.Safe(op, func() string {
		d = sarama.VerifRunDecScript(buf, toks)
		return decAnswer(d)
	})
	run.Emit(op, ans)
	return d
}

// ---------------------------------------------------------------------------------------------- primitives

// decoder token and expected decoder output for an encoder token
func mirror(tok string) (dtok string, want string) {
	k, v := tok, ""
	if i := strings.IndexByte(tok, ':'); i >= 0 {
		k, v = tok[:i], tok[i+1:]
	}
	switch k {
	case "rb":
		n := 0
		if v != "-" {
			n = len(v) / 2
		}
		return "rw:" + strconv.Itoa(n), v
	case "ca4":
		return "nca4", v
	case "cb":
		if v == "N" {
			v = "-"
		}
		return k, v
	case "a4", "a8", "sa":
		if v == "N" {
			v = "-"
		}
		return k, v
	case "tg":
		return k, "ok"
	case "pl", "pc0", "pc1", "pop":
		return k, "ok"
	case "pv":
		return "pv", "ok"
	}
	return k, v
}

func primCase(toks []string, strict bool) {
	buf := emitEnc(toks, "script")
	if buf == nil {
		return
	}
	dt := make([]string, len(toks))
	want := make([]string, len(toks))
	for i, t := range toks {
		dt[i], want[i] = mirror(t)
	}
	d := emitDec(buf, dt)
	run.Nontrivial("prim " + strings.Join(toks, " "))
	if !strict {
		return
	}
	in := "enc " + strings.Join(toks, " ")
	if d.Err != nil || d.Off != len(buf) {
		ioFail("prim-decode-failed", in, fmt.Sprintf("err=%v off=%d len=%d outs=%s", d.Err, d.Off, len(buf), d.Outs))
		return
	}
	if d.Outs != strings.Join(want, " ") {
		ioFail("prim-roundtrip-differs", in, "decoded "+d.Outs+" want "+strings.Join(want, " "))
	}
}

func pow2(k uint) int64 { return int64(1) << k }

func hexN(r *hlib.Rand, n int) string {
	if n == 0 {
		return "-"
	}
	b := make([]byte, n)
	for i := range b {
		b[i] = byte(r.Intn(256))
	}
	return hex.EncodeToString(b)
}

func primGrid(r *hlib.Rand) {
	for _, w := range []struct {
		k    string
		bits uint
	}{{"i8", 8}, {"i16", 16}, {"i32", 32}, {"i64", 64}} {
		max := pow2(w.bits-1) - 1
		for _, v := range []int64{-max - 1, -max, -129, -128, -2, -1, 0, 1, 2, 127, 128, 255, 256, max - 1, max} {
			if w.bits == 8 && (v > 127 || v < -128) {
				continue
			}
			primCase([]string{w.k + ":" + strconv.FormatInt(v, 10)}, true)
			run.Count("prim:" + w.k)
		}
	}
	for k := uint(0); k <= 9; k++ {
		for _, d := range []int64{-2, -1, 0, 1} {
			// zig-zag boundaries: ±2^(7k-1) are where the encoded length changes
			if 7*k >= 1 && 7*k-1 <= 62 {
				b := pow2(7*k - 1)
				primCase([]string{"vi:" + strconv.FormatInt(b+d, 10)}, true)
				primCase([]string{"vi:" + strconv.FormatInt(-b+d, 10)}, true)
				run.Count("prim:vi")
			}
			if 7*k <= 63 {
				u := uint64(1)<<(7*k) + uint64(d)
				if !(k == 0 && d < -1) {
					primCase([]string{"uv:" + strconv.FormatUint(u, 10)}, true)
					run.Count("prim:uv")
				}
			}
		}
	}
	primCase([]string{"vi:9223372036854775807"}, true)
	primCase([]string{"vi:-9223372036854775808"}, true)
	primCase([]string{"vi:0"}, true)
	primCase([]string{"uv:18446744073709551615"}, true)
	primCase([]string{"uv:0"}, true)
	primCase([]string{"bo:0"}, true)
	primCase([]string{"bo:1"}, true)
	primCase([]string{"tg"}, true)
	for _, n := range []int{0, 1, 2, 126, 127, 128, 129, 255, 256, 16382, 16383, 16384, 32766, 32767, 32768} {
		for _, k := range []string{"st", "ns", "cs", "ncs", "by", "vb", "cb", "rb"} {
			primCase([]string{k + ":" + hexN(r, n)}, true)
			run.Count("prim:" + k)
		}
	}
	for _, k := range []string{"ns", "ncs", "by", "vb", "cb", "nca4", "ca4"} {
		primCase([]string{k + ":N"}, true)
	}
	for _, n := range []int{0, 1, 2, 3, 127, 128} {
		xs := make([]string, n)
		x8 := make([]string, n)
		ss := make([]string, n)
		for i := range xs {
			xs[i] = strconv.FormatInt(int64(int32(r.U64())), 10)
			x8[i] = strconv.FormatInt(int64(r.U64()), 10)
			ss[i] = hexN(r, r.Intn(4))
			if ss[i] == "-" {
				ss[i] = "_"
			}
		}
		j := func(a []string) string {
			if len(a) == 0 {
				return "-"
			}
			return strings.Join(a, ",")
		}
		primCase([]string{"a4:" + j(xs)}, true)
		primCase([]string{"a8:" + j(x8)}, true)
		primCase([]string{"ca4:" + j(xs)}, true)
		primCase([]string{"nca4:" + j(xs)}, true)
		primCase([]string{"sa:" + j(ss)}, true)
		run.Count("prim:arrays")
	}
	// array lengths with enough payload behind them, compact lengths
	for _, n := range []int{-1, 0, 1, 5, 300} {
		pad := n
		if pad < 0 {
			pad = 0
		}
		primCase([]string{"al:" + strconv.Itoa(n), "rb:" + hexN(r, pad)}, true)
		if n >= 0 {
			primCase([]string{"cal:" + strconv.Itoa(n), "rb:" + hexN(r, pad)}, true)
			primCase([]string{"cal:" + strconv.Itoa(n + 1), "rb:" + hexN(r, pad)}, false)
		}
	}
	// the decoder's plausibility guards on array lengths: 2·MaxUint16 and the remaining bytes
	primCase([]string{"al:131070", "rb:" + hexN(r, 131070)}, true)
	primCase([]string{"al:131071", "rb:" + hexN(r, 131071)}, false)
	primCase([]string{"al:10", "rb:" + hexN(r, 9)}, false)
	primCase([]string{"al:-2"}, false)
	primCase([]string{"sa:" + strings.Repeat("_,", 4) + "_"}, true)
	// push/pop fields around bodies of the sizes where the varint length changes width
	for _, n := range []int{0, 1, 62, 63, 64, 65, 8190, 8191, 8192, 8193} {
		for _, p := range []string{"pl", "pc0", "pc1", "pv:0", "pv:5", "pv:100000", "pv:-1"} {
			primCase([]string{p, "rb:" + hexN(r, n), "pop"}, true)
			run.Count("prim:push:" + strings.SplitN(p, ":", 2)[0])
		}
	}
	// nesting as in a record batch: len32( crc( … varlen(…) varlen(…) ) )
	primCase([]string{"i64:5", "pl", "i32:1", "i8:2", "pc1", "i16:0", "pv:0", "i8:0", "vi:3", "vb:N", "pop", "pv:7", "vb:" + hexN(r, 70), "pop", "pop", "pop"}, true)
}

func randTok(r *hlib.Rand) string {
	i64 := func(bits uint) string {
		v := int64(r.U64())
		if bits < 64 {
			v >>= (64 - bits)
		}
		if r.Intn(4) == 0 {
			v = int64(r.Intn(300)) - 150
		}
		return strconv.FormatInt(v, 10)
	}
	nb := func() string {
		switch r.Intn(4) {
		case 0:
			return "N"
		case 1:
			return "-"
		}
		return hexN(r, 1+r.Intn(40))
	}
	b := func() string {
		if r.Intn(3) == 0 {
			return "-"
		}
		return hexN(r, 1+r.Intn(40))
	}
	ints := func(bits uint, nullable bool) string {
		n := r.Intn(5)
		if n == 0 {
			if nullable && r.Bool() {
				return "N"
			}
			return "-"
		}
		xs := make([]string, n)
		for i := range xs {
			xs[i] = i64(bits)
		}
		return strings.Join(xs, ",")
	}
	switch r.Intn(22) {
	case 0:
		return "i8:" + i64(8)
	case 1:
		return "i16:" + i64(16)
	case 2:
		return "i32:" + i64(32)
	case 3:
		return "i64:" + i64(64)
	case 4:
		return "vi:" + i64(uint(1+r.Intn(64)))
	case 5:
		return "uv:" + strconv.FormatUint(r.U64()>>uint(r.Intn(64)), 10)
	case 6:
		return "bo:" + strconv.Itoa(r.Intn(2))
	case 7:
		return "by:" + nb()
	case 8:
		return "vb:" + nb()
	case 9:
		return "cb:" + b()
	case 10:
		return "st:" + b()
	case 11:
		return "ns:" + nb()
	case 12:
		return "cs:" + b()
	case 13:
		return "ncs:" + nb()
	case 14:
		return "a4:" + ints(32, false)
	case 15:
		return "a8:" + ints(64, false)
	case 16:
		return "ca4:" + ints(32, false)
	case 17:
		return "nca4:" + ints(32, true)
	case 18:
		n := r.Intn(4)
		if n == 0 {
			return "sa:-"
		}
		ss := make([]string, n)
		for i := range ss {
			ss[i] = hexN(r, r.Intn(5))
			if ss[i] == "-" {
				ss[i] = "_"
			}
		}
		return "sa:" + strings.Join(ss, ",")
	case 19:
		return "tg"
	case 20:
		return "cal:" + strconv.Itoa(r.Intn(400))
	default:
		return "rb:" + b()
	}
}

func randScript(r *hlib.Rand, depth int) []string {
	var out []string
	n := 1 + r.Intn(5)
	for i := 0; i < n; i++ {
		if depth < 3 && r.Intn(4) == 0 {
			p := []string{"pl", "pc0", "pc1", "pv:" + strconv.Itoa(r.Intn(3)*70)}[r.Intn(4)]
			out = append(out, p)
			out = append(out, randScript(r, depth+1)...)
			out = append(out, "pop")
		} else {
			out = append(out, randTok(r))
		}
	}
	return out
}

// ---------------------------------------------------------------------------------------------- bodies

// bodies that have a schema in lean/SaramaVerif/Model/CodecSchemas.lean
var schemaBodies = map[string]bool{}

func init() {
	for _, n := range strings.Fields(`HeartbeatRequest HeartbeatResponse MetadataRequest FindCoordinatorRequest FindCoordinatorResponse
		InitProducerIDRequest InitProducerIDResponse OffsetCommitResponse ApiVersionsResponse ProduceResponse DeleteTopicsRequest
		DeleteTopicsResponse EndTxnRequest EndTxnResponse TxnOffsetCommitResponse CreatePartitionsResponse ListGroupsResponse
		LeaveGroupRequest LeaveGroupResponse SyncGroupResponse OffsetRequest AddPartitionsToTxnRequest AddOffsetsToTxnRequest
		AddOffsetsToTxnResponse DescribeGroupsRequest SaslHandshakeRequest SaslHandshakeResponse SaslAuthenticateRequest
		SaslAuthenticateResponse DeleteGroupsRequest DeleteGroupsResponse CreateTopicsResponse JoinGroupResponse OffsetFetchResponse
		AlterPartitionReassignmentsRequest ListPartitionReassignmentsRequest MetadataResponse OffsetCommitRequest FetchRequest
		OffsetResponse OffsetFetchRequest ConsumerMetadataRequest ConsumerMetadataResponse JoinGroupRequest SyncGroupRequest
		DescribeGroupsResponse ListGroupsRequest ApiVersionsRequest CreateTopicsRequest DeleteRecordsRequest DeleteRecordsResponse
		AddPartitionsToTxnResponse TxnOffsetCommitRequest DescribeAclsRequest DescribeAclsResponse CreateAclsRequest
		CreateAclsResponse DeleteAclsRequest DeleteAclsResponse AlterConfigsRequest AlterConfigsResponse
		IncrementalAlterConfigsRequest IncrementalAlterConfigsResponse DescribeConfigsRequest DescribeConfigsResponse
		DescribeLogDirsRequest DescribeLogDirsResponse AlterPartitionReassignmentsResponse ListPartitionReassignmentsResponse
		DescribeUserScramCredentialsRequest DescribeUserScramCredentialsResponse AlterUserScramCredentialsRequest
		AlterUserScramCredentialsResponse ConsumerGroupMemberAssignment CreatePartitionsRequest ConsumerGroupMemberMetadata`) {
		schemaBodies[n] = true
		dschemaBodies[n] = true
	}
	// the decoder reads the partition list as count + int32s where the encoder (and the schema) use one
	// putCompactInt32Array call: same bytes, different call granularity
	delete(dschemaBodies, "ListPartitionReassignmentsRequest")

}

// bodies whose decode makes the calls the schema's decoder makes (same primitives in the same order)
var dschemaBodies = map[string]bool{}

// OffsetFetchRequest v6+ reads its partition count as a raw uvarint (to tell the null list from the empty one):
// same bytes as the schema's compact count, different call
func dschemaFits(name string, ver int16) bool { return !(name == "OffsetFetchRequest" && ver >= 6) }

// values outside what the schema language expresses (documented in CodecSchemas.lean): none so far
func schemaFits(name string, ver int16, toks string) bool {
	// OffsetFetchRequest v6+: a nil partition list is written as the null compact array (`putUVarint(0)`), a form
	// the schema language has no constructor for
	if name == "OffsetFetchRequest" && ver >= 6 && strings.Contains(" "+toks+" ", " uv:0 ") {
		return false
	}
	return true
}

var bodies = map[string]sarama.VerifBody{}
var bodyOrder []string

func bodyCase(name string, ver int16, shape int, small bool, caseSeed uint64) {
	b, ok := bodies[name]
	if !ok {
		run.Emit("case "+name, "unknown-body")
		return
	}
	caseLine := fmt.Sprintf("case %s %d %d %d %d", name, ver, shape, b2i(small), caseSeed)
	run.Count("body:" + name)
	run.Count(fmt.Sprintf("version:%d", ver))
	res := run.Safe(caseLine, func() string {
		g := &sarama.VerifGen{R: hlib.NewRand(caseSeed), Version: ver, MaxLen: 3, SmallMaps: small, Shape: shape}
		v := b.New()
		g.Populate(v)
		e1 := sarama.VerifEncodeBody(v)
		if e1.Err != nil {
			return "rejected"
		}
		fixedOrder := sarama.VerifMaxMapLen(v) <= 1
		tag := ""
		if tags := sarama.VerifTags(v); len(tags) > 0 {
			tag = ":" + strings.Join(tags, "+")
			run.Count("tagged" + tag)
		}
		name := name + tag
		fail := func(sig, detail string) {
			if tag != "" {
				// a corner shape with a known decoding problem: one signature per body and shape
				sig = "roundtrip-fails:" + name
			}
			ioFail(sig, caseLine, detail)
		}
		checkEnc(e1, name, caseLine, fixedOrder)
		run.Emit("enc "+e1.Toks, fmt.Sprintf("%d %s", e1.PrepLen, hx(e1.Bytes)))
		if strings.Count(e1.Toks, " ") >= 2 {
			run.Nontrivial(name + strconv.Itoa(int(ver)) + e1.Toks)
		}
		if schemaBodies[b.Name] && schemaFits(b.Name, ver, e1.Toks) {
			// bodies with a hand-written schema in Model/CodecSchemas.lean: the same bytes from `size`/`enc`/`dec`
			run.Emit(strings.TrimSpace(fmt.Sprintf("schema %s %d %s", b.Name, ver, e1.Toks)),
				fmt.Sprintf("%d %s rt=ok", e1.PrepLen, hx(e1.Bytes)))
			run.Count("schema:" + b.Name)
		}

		// decode, recorded
		v2 := b.New()
		d := sarama.VerifDecodeBodyTraced(e1.Bytes, v2, ver)
		run.Emit("dec "+hx(e1.Bytes)+" "+d.Toks, decAnswer(d))
		if dschemaBodies[b.Name] && dschemaFits(b.Name, ver) && d.Err == nil && d.Off == len(e1.Bytes) {
			run.Emit(fmt.Sprintf("dschema %s %d %s", b.Name, ver, hx(e1.Bytes)), decAnswer(d))
			run.Count("dschema:" + b.Name)
		}
		if d.Err != nil {
			fail("decode-of-own-encoding-failed:"+name, fmt.Sprintf("v%d: %v", ver, d.Err))
			return "decode-failed"
		}
		if d.Off != len(e1.Bytes) {
			fail("decode-left-bytes:"+name, fmt.Sprintf("v%d: consumed %d of %d", ver, d.Off, len(e1.Bytes)))
			return "decode-short"
		}
		// the decode as shipped gives the same value
		v2b := b.New()
		if err := sarama.VerifDecodeBody(e1.Bytes, v2b, ver); err != nil {
			fail("decode-of-own-encoding-failed:"+name, fmt.Sprintf("v%d (versionedDecode): %v", ver, err))
			return "decode-failed"
		}
		if diff := sarama.VerifEqual(v2, v2b); diff != "" {
			fail("decode-not-deterministic:"+name, diff)
		}
		if dv, ok := sarama.VerifVersionOf(v2); ok && dv != ver {
			fail("decoded-version-differs:"+name, fmt.Sprintf("decoded as v%d, the value says v%d", ver, dv))
			return "version-lost"
		}
		// re-encode (the compression level is configuration, not wire data)
		sarama.VerifNormalizeLevels(v2)
		e2 := sarama.VerifEncodeBody(v2)
		if e2.Err != nil {
			fail("reencode-failed:"+name, fmt.Sprintf("v%d: %v", ver, e2.Err))
			return "reencode-failed"
		}
		if d1, d2 := tokDiff(e1.Toks, e2.Toks); d1 != "" || d2 != "" {
			fail("reencode-differs:"+name+":"+d1+"->"+d2, fmt.Sprintf("v%d: %d then %d bytes; calls %s then %s", ver, len(e1.Bytes), len(e2.Bytes), clip(e1.Toks), clip(e2.Toks)))
			return "reencode-differs"
		} else if len(e2.Bytes) != len(e1.Bytes) {
			fail("reencode-length-differs:"+name, fmt.Sprintf("v%d: %d then %d bytes", ver, len(e1.Bytes), len(e2.Bytes)))
		} else if fixedOrder && !bytes.Equal(e1.Bytes, e2.Bytes) {
			fail("reencode-order-differs:"+name, fmt.Sprintf("v%d: %s then %s", ver, hx(e1.Bytes), hx(e2.Bytes)))
		}
		// decode again: equal value
		v3 := b.New()
		if err := sarama.VerifDecodeBody(e2.Bytes, v3, ver); err != nil {
			fail("redecode-failed:"+name, fmt.Sprintf("v%d: %v", ver, err))
			return "redecode-failed"
		}
		sarama.VerifNormalizeLevels(v3)
		if diff := sarama.VerifEqual(v2, v3); diff != "" {
			fail("redecode-differs:"+name, fmt.Sprintf("v%d at %s", ver, clip(diff)))
		}
		if sarama.VerifEqual(v, v2) == "" {
			run.Count("value-identical-after-roundtrip")
		} else {
			run.Count("value-normalised-by-roundtrip")
		}
		return "ok"
	})
	if res == "rejected" {
		run.Count("encode-rejected:" + name)
		run.Case(caseLine + " rejected")
	}
}

func clip(s string) string {
	if len(s) > 400 {
		return s[:400] + "…"
	}
	return s
}

// class of a call for failure signatures: kind plus null / empty / small-number / value
func tokClass(t string) string {
	k, v := t, ""
	if i := strings.IndexByte(t, ':'); i >= 0 {
		k, v = t[:i], t[i+1:]
	}
	switch v {
	case "":
		return k
	case "N":
		return k + ":null"
	case "-":
		return k + ":empty"
	case "0", "1", "-1":
		return k + ":" + v
	}
	return k + ":val"
}

// tokDiff: the first call (in sorted order) that is in one multiset of calls but not in the other, each way
func tokDiff(a, b string) (string, string) {
	ca := map[string]int{}
	for _, t := range strings.Split(a, " ") {
		ca[t]++
	}
	for _, t := range strings.Split(b, " ") {
		ca[t]--
	}
	var only1, only2 []string
	for t, n := range ca {
		if n > 0 {
			only1 = append(only1, tokClass(t))
		} else if n < 0 {
			only2 = append(only2, tokClass(t))
		}
	}
	if len(only1) == 0 && len(only2) == 0 {
		return "", ""
	}
	min := func(xs []string) string {
		if len(xs) == 0 {
			return "none"
		}
		m := xs[0]
		for _, x := range xs {
			if x < m {
				m = x
			}
		}
		return m
	}
	return min(only1), min(only2)
}

func frameCase(name string, ver int16, caseSeed uint64) {
	b := bodies[name]
	caseLine := fmt.Sprintf("frame %s %d %d", name, ver, caseSeed)
	run.Safe(caseLine, func() string {
		r := hlib.NewRand(caseSeed)
		g := &sarama.VerifGen{R: r, Version: ver, MaxLen: 2, SmallMaps: true}
		v := b.New()
		g.Populate(v)
		if !sarama.VerifIsRequest(v) {
			return "skip"
		}
		corr := int32(r.U64())
		client := []string{"", "c", "sarama-verif"}[r.Intn(3)]
		e, back, corr2, client2, err := sarama.VerifRequestFrame(v, corr, client)
		if e.Err != nil {
			run.Count("frame-rejected")
			return "rejected"
		}
		run.Count("frame:" + name)
		checkEnc(e, "request:"+name, caseLine, true)
		run.Emit("enc "+e.Toks, fmt.Sprintf("%d %s", e.PrepLen, hx(e.Bytes)))
		// what the body alone does (reported by the body stream) is the reference for the frame path
		ver2, _ := sarama.VerifVersionOf(v)
		direct := b.New()
		bodyBytes := sarama.VerifEncodeBody(v)
		if bodyBytes.Err != nil || sarama.VerifDecodeBody(bodyBytes.Bytes, direct, ver2) != nil {
			return "body-level-problem"
		}
		if err != nil {
			ioFail("request-frame-decode-failed:"+name, caseLine, err.Error())
			return "fail"
		}
		if corr2 != corr || client2 != client {
			ioFail("request-header-differs:"+name, caseLine, fmt.Sprintf("%d/%q became %d/%q", corr, client, corr2, client2))
		}
		if !bytes.HasSuffix(e.Bytes, bodyBytes.Bytes) {
			ioFail("request-frame-body-bytes-differ:"+name, caseLine, "the frame does not end with the body's own encoding")
		}
		if diff := sarama.VerifEqual(back, direct); diff != "" {
			ioFail("request-frame-body-differs:"+name, caseLine, "body decoded through the frame differs from the body decoded alone at "+clip(diff))
		}
		return "ok"
	})
}

// ---------------------------------------------------------------------------------------------- records

func recordCase(r *sarama.Record) {
	line := "rec " + sarama.VerifRecordLine(r)
	var buf []byte
	ans := run.Safe(line, func() string {
		e := sarama.VerifEncodeAny(r)
		if e.Err != nil {
			return "rejected"
		}
		checkEnc(e, "Record", line, true)
		buf = e.Bytes
		return fmt.Sprintf("%d %s", e.PrepLen, hx(e.Bytes))
	})
	if ans == "rejected" {
		return
	}
	run.Emit(line, ans)
	run.Nontrivial(line)
	decRecordCase(buf, sarama.VerifRecordLine(r))
}

func decRecordCase(buf []byte, want string) {
	line := "drec " + hx(buf)
	ans := run.Safe(line, func() string {
		s, err := sarama.VerifDecodeRecord(buf)
		if err != nil {
			return "err"
		}
		return s
	})
	run.Emit(line, ans)
	if want != "" && ans != "ok "+want+" rest=0" {
		ioFail("record-roundtrip-differs", "rec "+want, "decoded: "+ans)
	}
}

func batchCase(b *sarama.RecordBatch) {
	recs := make([]string, len(b.Records))
	for i, r := range b.Records {
		recs[i] = sarama.VerifRecordLine(r)
	}
	hdr := sarama.VerifBatchHdrLine(b)
	codec := strings.Split(hdr, ";")[3]
	run.Count("batch-codec:" + codec)
	var enc sarama.VerifEnc
	var raw, comp []byte
	rejected := false
	base := fmt.Sprintf("batch %s lv=%d", hdr, b.CompressionLevel)
	run.Safe(base+" "+strings.Join(recs, " "), func() string {
		enc, raw, comp = sarama.VerifBatchViews(b)
		rejected = enc.Err != nil
		return ""
	})
	if rejected || enc.Bytes == nil {
		run.Count("batch-rejected")
		return
	}
	line := fmt.Sprintf("%s cz=%s %s", base, hx(comp), strings.Join(recs, " "))
	line = strings.TrimSpace(line)
	checkEnc(enc, "RecordBatch", line, true)
	run.Emit(line, fmt.Sprintf("%d %s %s", enc.PrepLen, hx(enc.Bytes), hx(raw)))
	run.Nontrivial(line)
	decBatchCase(enc.Bytes, comp, raw, "ok "+hdr+" "+strings.Join(recs, " ")+" rest=0", line, codec)
	if len(enc.Bytes) < 200000 {
		run.Emit("kind "+hx(enc.Bytes), sarama.VerifRecordsKind(enc.Bytes))
	}
}

func decBatchCase(buf, comp, raw []byte, want, src, codec string) {
	// the library's answer for this payload is the model's parameter (also when the library fails)
	line := fmt.Sprintf("dbatch cz=- %s", hx(buf))
	if c, err := strconv.Atoi(strings.SplitN(codec, ":", 2)[0]); err == nil && c != 0 && len(comp) > 0 {
		if raw2, derr := sarama.VerifDecompress(int8(c), comp); derr == nil {
			line = fmt.Sprintf("dbatch cz=%s:%s %s", hx(comp), hx(raw2), hx(buf))
		}
	} else if len(comp) > 0 || len(raw) > 0 {
		line = fmt.Sprintf("dbatch cz=%s:%s %s", hx(comp), hx(raw), hx(buf))
	}
	ans := run.Safe(line, func() string {
		s, _, _, err := sarama.VerifDecodeBatch(buf)
		if err != nil {
			return "err"
		}
		return s
	})
	if len(buf) < 200000 {
		run.Emit(line, ans)
	} else {
		// very large batches (the 131070-record guard): the decode is checked by the oracle only, the model gets
		// the encode line
		run.Case("large batch decode: " + ans[:3])
	}
	if want != "" && ans != want {
		if codec == "2" && len(comp) < 8 {
			codec += ":snappy-short"
		} else if codec != "0" && ans == "err" && len(comp) < countRecords(src) {
			codec += ":count-exceeds-compressed-size"
		} else if ans == "err" && countRecords(src) > 131070 {
			codec += ":count-exceeds-131070"
		}
		ioFail("recordbatch-roundtrip-differs:codec"+codec, src, "decoded: "+ans)
	}
}

// number of record tokens on a `batch` op line
func countRecords(line string) int {
	f := strings.Fields(line)
	if len(f) < 4 {
		return 0
	}
	return len(f) - 4
}

// batches whose records compress below one byte per record: the decoder's record-count guard
func denseBatch(r *hlib.Rand, codec int, n int, realistic bool) *sarama.RecordBatch {
	g := &sarama.VerifGen{R: r, MaxLen: 1}
	b := g.NewBatch()
	b.Codec = sarama.CompressionCodec(codec)
	b.CompressionLevel = sarama.CompressionLevelDefault
	b.Records = nil
	for i := 0; i < n; i++ {
		rec := &sarama.Record{}
		if realistic {
			rec.OffsetDelta = int64(i)
			rec.Value = []byte("x")
		}
		b.Records = append(b.Records, rec)
	}
	b.LastOffsetDelta = int32(n - 1)
	return b
}

func msetCase(ms *sarama.MessageSet, pairs [][2][]byte) {
	blocks := make([]string, len(ms.Messages))
	wantBlocks := make([]string, len(ms.Messages))
	for i, mb := range ms.Messages {
		blocks[i] = sarama.VerifBlockLine(mb, true)
		wantBlocks[i] = sarama.VerifBlockLine(mb, false)
		run.Count(fmt.Sprintf("message-magic%d-codec%d", mb.Msg.Version, mb.Msg.Codec))
	}
	ps := make([]string, len(pairs))
	qs := make([]string, len(pairs))
	for i, p := range pairs {
		ps[i] = hx(p[0]) + ":" + hx(p[1])
		qs[i] = hx(p[1]) + ":" + hx(p[0])
	}
	_ = qs // (the decoder table is rebuilt from the library's own answers in decMsetCase callers)
	cz, dz := "-", "-"
	if len(ps) > 0 {
		cz, dz = strings.Join(ps, ","), strings.Join(qs, ",")
	}
	line := strings.TrimSpace(fmt.Sprintf("mset cz=%s %s", cz, strings.Join(blocks, " ")))
	var buf []byte
	ans := run.Safe(line, func() string {
		e := sarama.VerifEncodeAny(ms)
		if e.Err != nil {
			return "rejected"
		}
		checkEnc(e, "MessageSet", line, true)
		buf = e.Bytes
		return hx(e.Bytes)
	})
	if ans == "rejected" {
		run.Count("mset-rejected")
		return
	}
	run.Emit(line, ans)
	run.Nontrivial(line)
	want := strings.TrimSpace("ok p=0 o=0 rest=0 " + strings.Join(wantBlocks, " "))
	if len(wantBlocks) == 0 {
		want = "ok p=0 o=0 rest=0 "
	}
	decMsetCase(buf, dz, want, line)
	if len(buf) >= 17 {
		run.Emit("kind "+hx(buf), sarama.VerifRecordsKind(buf))
	}
}

func decMsetCase(buf []byte, dz, want, src string) {
	line := fmt.Sprintf("dmset cz=%s %s", dz, hx(buf))
	ans := run.Safe(line, func() string {
		s, _, err := sarama.VerifDecodeMessageSet(buf)
		if err != nil {
			return "err"
		}
		return s
	})
	run.Emit(line, ans)
	if want != "" && strings.TrimSpace(ans) != strings.TrimSpace(want) {
		ioFail("messageset-roundtrip-differs", src, "decoded: "+ans)
	}
}

// constants the translator cannot take (they mention encoding/binary): compared by value
func constLines() {
	for _, name := range []string{"maximumRecordOverhead", "recordBatchOverhead"} {
		run.Emit("const "+name, strconv.Itoa(sarama.VerifConst(name)))
	}
}

// payloads at the extremes of compressibility × every codec × both framings, on the real code only.
// framing: batch | wrap0 | wrap1; shape: 0 one byte repeated, 1 short pattern repeated, 2 random, 3 zeros with
// a few random bytes; the payload of `size` bytes is split over `n` records / inner messages.
func extremeCase(framing string, codec, level, shape, size, n, inKey int, seed uint64) {
	line := fmt.Sprintf("xcase %s %d %d %d %d %d %d %d", framing, codec, level, shape, size, n, inKey, seed)
	run.Count(fmt.Sprintf("extreme:%s:codec%d:shape%d", framing, codec, shape))
	run.Safe(line, func() string {
		payload := sarama.VerifPayload(shape, size, hlib.NewRand(seed))
		var wire int
		var diff string
		switch framing {
		case "batch":
			wire, diff = sarama.VerifExtremeBatch(int8(codec), level, payload, n, inKey == 1)
		case "wrap0":
			wire, diff = sarama.VerifExtremeWrapper(0, int8(codec), level, payload, n)
		case "wrap1":
			wire, diff = sarama.VerifExtremeWrapper(1, int8(codec), level, payload, n)
		default:
			return "bad-framing"
		}
		run.Case(fmt.Sprintf("%s: %d payload bytes -> %d on the wire", line, size, wire))
		run.Nontrivial(line)
		if wire > 0 && size/wire >= 200 {
			run.Count("extreme:ratio>=200")
		}
		if diff != "" {
			ioFail(fmt.Sprintf("compressed-roundtrip-differs:%s:codec%d", framing, codec), line, diff)
		}
		return ""
	})
}

func extremes(r *hlib.Rand, thorough bool) {
	type cfg struct{ codec, level int }
	cfgs := []cfg{{0, sarama.CompressionLevelDefault}, {1, sarama.CompressionLevelDefault}, {1, 1}, {1, 9}, {2, sarama.CompressionLevelDefault},
		{3, sarama.CompressionLevelDefault}, {4, sarama.CompressionLevelDefault}}
	if thorough {
		for lv := 2; lv <= 8; lv++ {
			cfgs = append(cfgs, cfg{1, lv})
		}
	}
	type shape struct{ shape, size, n int }
	shapes := []shape{
		{0, 32 << 10, 1}, {0, 256 << 10, 1}, {0, 1000 << 10, 1}, // long runs of one byte in one record
		{0, 300 << 10, 3000},                                  // … spread over many small records
		{1, 128 << 10, 1}, {1, 128 << 10, 500},                // short repeated pattern
		{3, 512 << 10, 2},                                     // almost-constant
		{2, 64 << 10, 1}, {2, 64 << 10, 700},                  // incompressible
		{0, 1, 1}, {2, 40, 1},                                 // tiny
	}
	if thorough {
		for i := 0; i < 12; i++ {
			shapes = append(shapes, shape{r.Intn(4), 1 + r.Intn(900<<10), 1 + r.Intn(2000)})
		}
	}
	for _, c := range cfgs {
		for _, sh := range shapes {
			extremeCase("batch", c.codec, c.level, sh.shape, sh.size, sh.n, r.Intn(2), r.U64())
			if c.codec != 0 {
				extremeCase("wrap0", c.codec, c.level, sh.shape, sh.size, sh.n, 0, r.U64())
				extremeCase("wrap1", c.codec, c.level, sh.shape, sh.size, sh.n, 0, r.U64())
			}
		}
	}
}

// encode histories: valid encodes interleaved with encodes that are refused.  The model's `size` / `enc` are
// pure functions of the value, so what this family ties is that the real encode() is history-free: after any
// refused encode the next valid ones still size and write the same bytes and decode back.
func histCase(seed uint64, steps int) {
	line := fmt.Sprintf("hist %d %d", seed, steps)
	run.Safe(line, func() string {
		r := hlib.NewRand(seed)
		lastFail := "none"
		var trail []string
		for i := 0; i < steps; i++ {
			name := bodyOrder[r.Intn(len(bodyOrder))]
			b := bodies[name]
			ver := int16(r.Intn(int(b.MaxVer) + 1))
			g := &sarama.VerifGen{R: hlib.NewRand(r.U64()), Version: ver, MaxLen: 3, SmallMaps: true}
			v := b.New()
			g.Populate(v)
			if lastFail == "none" || r.Intn(3) == 0 {
				kind := r.Intn(4)
				err := sarama.VerifFailingEncode(kind, v)
				kinds := []string{"oversize", "string-too-long", "invalid-timestamp-in-nested-fields", "refused-flag"}
				if err == nil {
					if kind != 0 {
						ioFail("refused-encode-accepted:"+kinds[kind], line, fmt.Sprintf("step %d", i))
					}
					continue // (kind 0 on a body that encodes to nothing)
				}
				lastFail = kinds[kind]
				trail = append(trail, "fail:"+lastFail)
				run.Count("history:fail:" + lastFail)
				continue
			}
			e := sarama.VerifEncodeBody(v)
			if e.Err != nil {
				trail = append(trail, "rejected:"+name)
				continue
			}
			trail = append(trail, fmt.Sprintf("%s/v%d", name, ver))
			run.Count("history:valid-after:" + lastFail)
			where := fmt.Sprintf("step %d (%s v%d) after %s; history %s", i, name, ver, lastFail, strings.Join(trail, " "))
			sig := "encode-depends-on-history:after-" + lastFail
			switch {
			case e.PrepLen != e.RealOff || len(e.Bytes) != e.PrepLen:
				ioFail(sig, line, where+": own passes prep="+strconv.Itoa(e.PrepLen)+" written="+strconv.Itoa(e.RealOff))
			case len(e.Direct) != len(e.Bytes):
				ioFail(sig, line, fmt.Sprintf("%s: encode() returned %d bytes, a clean sizing+writing pass gives %d", where, len(e.Direct), len(e.Bytes)))
			case sarama.VerifMaxMapLen(v) <= 1 && !bytes.Equal(e.Direct, e.Bytes):
				ioFail(sig, line, where+": encode() bytes differ from a clean sizing+writing pass")
			default:
				v2 := b.New()
				if err := sarama.VerifDecodeBody(e.Direct, v2, ver); err != nil {
					if len(sarama.VerifTags(v)) == 0 && !knownDecodeGap(name, ver, v) {
						ioFail(sig, line, where+": decode of encode() output: "+err.Error())
					}
				}
			}
		}
		run.Case(line + " " + strings.Join(trail, " "))
		run.Nontrivial(line)
		return ""
	})
}

// bodies whose own encoding is known not to decode (known findings of the body stream) are not this family's topic
func knownDecodeGap(name string, ver int16, v interface{}) bool { return false }

// concurrent decoders: `workers` goroutines decode (and re-encode) a fixed corpus of valid encodings for `ms`
// milliseconds; every result must be the single-threaded reference.  The model's `dec` is a pure function of the
// bytes, so what this family ties is that the real decoder shares no mutable state between calls.
func concFamily(seed uint64, ms int, workers int) {
	line := fmt.Sprintf("concrun %d %d %d", seed, ms, workers)
	corpus := sarama.VerifConcCorpus(hlib.NewRand(seed))
	ref := make([]string, len(corpus))
	for i, it := range corpus {
		it := it
		i := i
		run.Safe(line, func() string {
			c, err := sarama.VerifConcDecode(it.Kind, it.Bytes)
			if err != nil {
				c = "ERR " + err.Error()
				run.Count("conc:reference-error:" + it.Kind) // (reported by the sequential streams)
			}
			ref[i] = c
			return ""
		})
	}
	var mu sync.Mutex
	reported := map[string]bool{}
	var total int64
	deadline := time.Now().Add(time.Duration(ms) * time.Millisecond)
	var wg sync.WaitGroup
	for w := 0; w < workers; w++ {
		wg.Add(1)
		go func(w int) {
			defer wg.Done()
			r := hlib.NewRand(seed + uint64(w)*7919 + 1)
			n := int64(0)
			for time.Now().Before(deadline) {
				for k := 0; k < 64; k++ {
					i := r.Intn(len(corpus))
					it := corpus[i]
					got := func() (res string) {
						defer func() {
							if p := recover(); p != nil {
								res = fmt.Sprint("PANIC ", p)
							}
						}()
						c, err := sarama.VerifConcDecode(it.Kind, it.Bytes)
						if err != nil {
							return "ERR " + err.Error()
						}
						return c
					}()
					n++
					if got != ref[i] {
						mu.Lock()
						if !reported[it.Kind] && len(reported) < 4 {
							reported[it.Kind] = true
							ioFail("concurrent-decode-differs:"+it.Kind, line,
								fmt.Sprintf("worker %d, input %s (%s): got %s, single-threaded reference %s", w, it.Kind, hx(it.Bytes), clip(got), clip(ref[i])))
						}
						mu.Unlock()
					}
				}
			}
			mu.Lock()
			total += n
			mu.Unlock()
		}(w)
	}
	wg.Wait()
	run.Case(fmt.Sprintf("%s: %d corpus entries, %d concurrent decodes", line, len(corpus), total))
	run.Set("concurrent_decodes", total)
	run.Count("conc:runs")
}

// arrays around and beyond 2·MaxUint16 elements in the bodies that carry plain arrays (oracle only: ~1 MB each)
func bigArrayCase(kind string, n int) {
	line := fmt.Sprintf("bigcase %s %d", kind, n)
	run.Count("bigarray:" + kind)
	run.Safe(line, func() string {
		wire, diff := sarama.VerifBigArrayCase(kind, n)
		run.Case(fmt.Sprintf("%s: %d bytes on the wire", line, wire))
		if diff == "rejected" {
			run.Count("bigarray-rejected")
			return ""
		}
		if diff != "" {
			ioFail("big-array-roundtrip-differs:"+kind, line, fmt.Sprintf("%d elements: %s", n, diff))
		}
		return ""
	})
}

func bigArrays() {
	for _, kind := range []string{"DeleteTopicsRequest", "DeleteGroupsRequest", "DescribeGroupsRequest", "SaslHandshakeResponse",
		"ConsumerGroupMemberMetadata", "ConsumerGroupMemberAssignment", "OffsetFetchRequest", "ListPartitionReassignmentsRequest",
		"CreatePartitionsRequest"} {
		for _, n := range []int{131070, 131071, 200000} {
			bigArrayCase(kind, n)
		}
	}
}

// prefixes of valid encodings: partial trailing blocks / batches, short records (correspondence only)
func truncations(r *hlib.Rand) {
	for i := 0; i < 40; i++ {
		g := &sarama.VerifGen{R: r.Fork(), MaxLen: 3}
		ms, pairs := g.NewMessageSet(1)
		if e := sarama.VerifEncodeAny(ms); e.Err == nil && len(e.Bytes) > 0 {
			qs := make([]string, len(pairs))
			for j, p := range pairs {
				qs[j] = hx(p[1]) + ":" + hx(p[0])
			}
			dz := "-"
			if len(qs) > 0 {
				dz = strings.Join(qs, ",")
			}
			for k := 0; k < 4; k++ {
				cut := r.Intn(len(e.Bytes))
				decMsetCase(e.Bytes[:cut], dz, "", "")
				run.Count("truncated-set")
			}
		}
		b := g.NewBatch()
		b.Codec = sarama.CompressionNone
		if e, raw, comp := sarama.VerifBatchViews(b); e.Err == nil {
			for k := 0; k < 4; k++ {
				cut := r.Intn(len(e.Bytes))
				decBatchCase(e.Bytes[:cut], comp, raw, "", "", "0")
				run.Count("truncated-batch")
			}
		}
		rec := g.NewRecord()
		if e := sarama.VerifEncodeAny(rec); e.Err == nil {
			cut := r.Intn(len(e.Bytes))
			decRecordCase(e.Bytes[:cut], "")
			run.Count("truncated-record")
		}
	}
}

// ---------------------------------------------------------------------------------------------- replay

func replayLine(l string) {
	f := strings.Fields(l)
	if len(f) == 0 {
		return
	}
	atoi := func(s string) int { n, _ := strconv.Atoi(s); return n }
	switch f[0] {
	case "case":
		if len(f) == 6 {
			seed, _ := strconv.ParseUint(f[5], 10, 64)
			bodyCase(f[1], int16(atoi(f[2])), atoi(f[3]), f[4] == "1", seed)
		}
	case "frame":
		if len(f) == 4 {
			seed, _ := strconv.ParseUint(f[3], 10, 64)
			frameCase(f[1], int16(atoi(f[2])), seed)
		}
	case "enc":
		primCase(f[1:], false)
	case "dec":
		if len(f) >= 2 {
			emitDec(unhex(f[1]), f[2:])
		}
	case "rec":
		if len(f) == 2 {
			if r, err := sarama.VerifParseRecord(f[1]); err == nil {
				recordCase(r)
			}
		}
	case "drec":
		if len(f) == 2 {
			decRecordCase(unhex(f[1]), "")
		}
	case "batch":
		if len(f) >= 4 {
			lv := atoi(strings.TrimPrefix(f[2], "lv="))
			if b, err := sarama.VerifParseBatch(f[1], lv, f[4:]); err == nil {
				batchCase(b)
			}
		}
	case "dbatch":
		if len(f) == 3 {
			cz := strings.TrimPrefix(f[1], "cz=")
			var comp, raw []byte
			if p := strings.SplitN(cz, ":", 2); len(p) == 2 {
				comp, raw = unhex(p[0]), unhex(p[1])
			}
			decBatchCase(unhex(f[2]), comp, raw, "", l, "?")
		}
	case "mset":
		if len(f) >= 2 {
			ms := &sarama.MessageSet{}
			var pairs [][2][]byte
			cz := strings.TrimPrefix(f[1], "cz=")
			if cz != "-" {
				for _, e := range strings.Split(cz, ",") {
					if p := strings.SplitN(e, ":", 2); len(p) == 2 {
						pairs = append(pairs, [2][]byte{unhex(p[0]), unhex(p[1])})
					}
				}
			}
			for _, bs := range f[2:] {
				if mb, err := sarama.VerifParseBlock(bs); err == nil {
					ms.Messages = append(ms.Messages, mb)
				}
			}
			msetCase(ms, pairs)
		}
	case "dmset":
		if len(f) == 3 {
			decMsetCase(unhex(f[2]), strings.TrimPrefix(f[1], "cz="), "", l)
		}
	case "kind":
		if len(f) == 2 {
			run.Emit(l, sarama.VerifRecordsKind(unhex(f[1])))
		}
	case "hist":
		if len(f) == 3 {
			seed, _ := strconv.ParseUint(f[1], 10, 64)
			histCase(seed, atoi(f[2]))
		}
	case "concrun":
		if len(f) == 4 {
			seed, _ := strconv.ParseUint(f[1], 10, 64)
			concFamily(seed, atoi(f[2]), atoi(f[3]))
		}
	case "bigcase":
		if len(f) == 3 {
			bigArrayCase(f[1], atoi(f[2]))
		}
	case "xcase":
		if len(f) == 9 {
			seed, _ := strconv.ParseUint(f[8], 10, 64)
			extremeCase(f[1], atoi(f[2]), atoi(f[3]), atoi(f[4]), atoi(f[5]), atoi(f[6]), atoi(f[7]), seed)
		}
	case "const":
		if len(f) == 2 {
			run.Emit(l, strconv.Itoa(sarama.VerifConst(f[1])))
		}
	case "schema":
		// the same call sequence on the real encoders
		if len(f) >= 3 {
			e := sarama.VerifRunEncScript(f[3:])
			if e.Err == nil {
				run.Emit(l, fmt.Sprintf("%d %s rt=ok", e.PrepLen, hx(e.Bytes)))
			}
		}
	case "dschema":
		if len(f) == 4 {
			if b, ok := bodies[f[1]]; ok {
				d := sarama.VerifDecodeBodyTraced(unhex(f[3]), b.New(), int16(atoi(f[2])))
				run.Emit(l, decAnswer(d))
			}
		}
	default:
		run.Emit(l, "bad-op")
	}
}

func mixSeed(s uint64) uint64 {
	z := (s + 0x632BE59BD9B4E019) * 0xD6E8FEB86659FD93
	z = (z ^ (z >> 32)) * 0xFF51AFD7ED558CCD
	z = (z ^ (z >> 29)) * 0xC4CEB9FE1A85EC53
	return z ^ (z >> 32)
}

func main() {
	concOnly := flag.Int("conconly", 0, "run only the concurrent-decoders family for this many milliseconds")
	run = hlib.Start("C09")
	for _, b := range sarama.VerifBodies() {
		bodies[b.Name] = b
		bodyOrder = append(bodyOrder, b.Name)
	}
	rule := "distinct call sequences of ≥ 3 packetEncoder calls (bodies), distinct scripts (primitives), distinct records/batches/sets"
	if lines := run.ReplayLines(); lines != nil {
		for _, l := range lines {
			replayLine(l)
		}
		run.Finish(rule)
		return
	}
	// hlib's generator is a splitmix whose state advances by a constant: consecutive seeds would give shifted
	// copies of one stream, so the seed is hashed first
	r := hlib.NewRand(mixSeed(run.Seed))
	if *concOnly > 0 {
		concFamily(r.U64(), *concOnly, 8)
		run.Finish(rule)
		return
	}
	perVersion := 14
	nScripts := 1500
	nRecs := 300
	if run.Tier == "thorough" {
		perVersion = 400
		nScripts = 40000
		nRecs = 6000
	}
	if run.N > 0 {
		perVersion = run.N
	}

	primGrid(r)
	for i := 0; i < nScripts; i++ {
		primCase(randScript(r, 0), false)
	}

	nbv := 0
	for _, name := range bodyOrder {
		b := bodies[name]
		for ver := int16(0); ver <= b.MaxVer; ver++ {
			nbv++
			for shape := 1; shape <= 3; shape++ {
				bodyCase(name, ver, shape, false, r.U64())
			}
			for i := 0; i < perVersion; i++ {
				bodyCase(name, ver, 0, i%2 == 0, r.U64())
			}
			for i := 0; i < 1+perVersion/8; i++ {
				frameCase(name, ver, r.U64())
			}
		}
	}
	run.Set("body_versions", nbv)
	run.Set("bodies", len(bodyOrder))

	for i := 0; i < nRecs; i++ {
		g := &sarama.VerifGen{R: r.Fork(), MaxLen: 4, Levels: true}
		recordCase(g.NewRecord())
		batchCase(g.NewBatch())
		// building a wrapper message encodes its inner set: a panic there must not end the run
		run.Safe("generate message set", func() string {
			ms, pairs := g.NewMessageSet(1 + i%2)
			msetCase(ms, pairs)
			return ""
		})
	}
	for codec := 0; codec <= 4; codec++ {
		batchCase(denseBatch(r.Fork(), codec, 150+r.Intn(300), false))
		run.Count("dense-batch")
	}
	if run.Tier == "thorough" {
		for codec := 1; codec <= 4; codec++ {
			batchCase(denseBatch(r.Fork(), codec, 3000, true))
		}
	}
	// the other guard of getArrayLength on the record count: 2·MaxUint16
	batchCase(denseBatch(r.Fork(), 0, 131070, false))
	batchCase(denseBatch(r.Fork(), 0, 131071, false))
	extremes(r.Fork(), run.Tier == "thorough")
	nHist := 150
	if run.Tier == "thorough" {
		nHist = 4000
	}
	for i := 0; i < nHist; i++ {
		histCase(r.U64(), 6+r.Intn(10))
	}
	concMs := 1000
	if run.Tier == "thorough" {
		concMs = 6000
	}
	concFamily(r.U64(), concMs, 8)
	run.Safe("truncation stream", func() string { truncations(r); return "" })
	constLines()
	// every codec × level grid on one batch shape
	for codec := 0; codec <= 4; codec++ {
		levels := []int{sarama.CompressionLevelDefault}
		if codec == 1 {
			levels = []int{sarama.CompressionLevelDefault, 1, 2, 3, 4, 5, 6, 7, 8, 9}
		}
		for _, lv := range levels {
			for _, n := range []int{0, 1, 2, 7} {
				g := &sarama.VerifGen{R: r.Fork(), MaxLen: 3}
				b := g.NewBatch()
				b.Codec = sarama.CompressionCodec(codec)
				b.CompressionLevel = lv
				b.Records = nil
				for j := 0; j < n; j++ {
					b.Records = append(b.Records, g.NewRecord())
				}
				batchCase(b)
			}
		}
	}
	bigArrays()
	run.Finish(rule)
}
