// End-to-end stream of the C08 check: a real ConsumerGroup member leads a group on the simulated cluster while the
// subscribed topic gains partitions between two Consume calls; the plan it syncs afterwards must hold every partition
// (grp.RunGrowth).  A process of its own: the balance harness (cmd/c08) does not need the simulated cluster.
package main

import (
	"verif/harness/grp"
	"verif/harness/hlib"
)

func main() {
	run := hlib.StartParallel("C08", 8)
	n := run.N
	if n == 0 {
		n = 48
		if run.Tier == "thorough" {
			n = 1200
		}
	}
	grp.RunGrowth(run, n)
	run.Finish("consumer-group leader on the simulated cluster; the topic grows by 1-3 partitions between the first and the second Consume call; range/roundrobin/sticky; coordinator fault scripts")
}
