// Harness for C15: the client's metadata cache (updateMetadata, cached getters, public getters) and the
// candidate iteration of tryRefreshMetadata / NewClient, driven through the REAL sarama code.
//
// Every operation is an op line; exec() is the only execution path (generation builds lines and executes them,
// replay executes the given lines), so every reported input is replayable.
//
// Network: conf.Net.Proxy.Dialer is a simulated network. Symbolic addresses "h<k>:9092" are "refused", fail
// "mid"-request (connection accepted, dies on the first read), point to a real closed port ("closed"), or lead
// to an in-package MockBroker ("live"). No packet leaves the loopback interface.
package main

import (
	"errors"
	"flag"
	"fmt"
	"io"
	"net"
	"os"
	"sort"
	"strconv"
	"strings"
	"sync"
	"sync/atomic"
	"time"

	"github.com/Shopify/sarama"
	"verif/harness/hlib"
)

// ---------------------------------------------------------------------------------------------------
// wire data in the harness's own terms

type pmeta struct {
	id, leader     int32
	reps, isr, off []int32
	err            int16
}
type tmeta struct {
	name  int
	err   int16
	parts []pmeta
}
type resp struct {
	brokers [][2]int32 // id, address number
	ctrl    int32
	topics  []tmeta
}

func dots(xs []int32) string {
	if len(xs) == 0 {
		return "-"
	}
	s := make([]string, len(xs))
	for i, x := range xs {
		s[i] = strconv.Itoa(int(x))
	}
	return strings.Join(s, ".")
}
func (p pmeta) show() string {
	return fmt.Sprintf("%d/%d/%s/%s/%s/%d", p.id, p.leader, dots(p.reps), dots(p.isr), dots(p.off), p.err)
}
func (r resp) tokens() string {
	var sb strings.Builder
	sb.WriteString("b=")
	if len(r.brokers) == 0 {
		sb.WriteString("-")
	}
	for i, b := range r.brokers {
		if i > 0 {
			sb.WriteString(",")
		}
		fmt.Fprintf(&sb, "%d:%d", b[0], b[1])
	}
	fmt.Fprintf(&sb, " c=%d", r.ctrl)
	for _, t := range r.topics {
		fmt.Fprintf(&sb, " t=%d:%d:", t.name, t.err)
		if len(t.parts) == 0 {
			sb.WriteString("-")
		}
		for i, p := range t.parts {
			if i > 0 {
				sb.WriteString(";")
			}
			sb.WriteString(p.show())
		}
	}
	return sb.String()
}

func parseDots(s string) []int32 {
	if s == "-" || s == "" {
		return nil
	}
	var out []int32
	for _, t := range strings.Split(s, ".") {
		out = append(out, int32(hlib.Atoi(t)))
	}
	return out
}
func parseResp(toks []string) (resp, bool) {
	var r resp
	if len(toks) < 2 || !strings.HasPrefix(toks[0], "b=") || !strings.HasPrefix(toks[1], "c=") {
		return r, false
	}
	if bs := toks[0][2:]; bs != "-" {
		for _, e := range strings.Split(bs, ",") {
			kv := strings.Split(e, ":")
			if len(kv) != 2 {
				return r, false
			}
			r.brokers = append(r.brokers, [2]int32{int32(hlib.Atoi(kv[0])), int32(hlib.Atoi(kv[1]))})
		}
	}
	r.ctrl = int32(hlib.Atoi(toks[1][2:]))
	for _, t := range toks[2:] {
		if !strings.HasPrefix(t, "t=") {
			return r, false
		}
		f := strings.Split(t[2:], ":")
		if len(f) != 3 {
			return r, false
		}
		tm := tmeta{name: hlib.Atoi(f[0]), err: int16(hlib.Atoi(f[1]))}
		if f[2] != "-" {
			for _, ps := range strings.Split(f[2], ";") {
				g := strings.Split(ps, "/")
				if len(g) != 6 {
					return r, false
				}
				tm.parts = append(tm.parts, pmeta{int32(hlib.Atoi(g[0])), int32(hlib.Atoi(g[1])), parseDots(g[2]),
					parseDots(g[3]), parseDots(g[4]), int16(hlib.Atoi(g[5]))})
			}
		}
		r.topics = append(r.topics, tm)
	}
	return r, true
}

func addrStr(a int32) string { return fmt.Sprintf("h%d:9092", a) }
func topicStr(t int) string  { return fmt.Sprintf("t%d", t) }

func (r resp) build() *sarama.MetadataResponse {
	m := &sarama.MetadataResponse{Version: 5, ControllerID: r.ctrl}
	for _, b := range r.brokers {
		m.Brokers = append(m.Brokers, sarama.VerifBroker(b[0], addrStr(b[1])))
	}
	for _, t := range r.topics {
		tm := &sarama.TopicMetadata{Err: sarama.KError(t.err), Name: topicStr(t.name)}
		for _, p := range t.parts {
			tm.Partitions = append(tm.Partitions, &sarama.PartitionMetadata{Err: sarama.KError(p.err), ID: p.id, Leader: p.leader,
				Replicas: append([]int32(nil), p.reps...), Isr: append([]int32(nil), p.isr...), OfflineReplicas: append([]int32(nil), p.off...)})
		}
		m.Topics = append(m.Topics, tm)
	}
	return m
}

// ---------------------------------------------------------------------------------------------------
// reference view: the property statement's "newest response" semantics, folded from the responses

type refView struct {
	brokers map[int32]int32
	ctrl    int32
	topics  map[int]map[int32]pmeta
	tracked map[int]bool
}

func newRef() *refView {
	return &refView{brokers: map[int32]int32{}, topics: map[int]map[int32]pmeta{}, tracked: map[int]bool{}}
}
func (v *refView) clone() *refView {
	n := newRef()
	n.ctrl = v.ctrl
	for k, a := range v.brokers {
		n.brokers[k] = a
	}
	for t, m := range v.topics {
		mm := map[int32]pmeta{}
		for k, p := range m {
			mm[k] = p
		}
		n.topics[t] = mm
	}
	for t := range v.tracked {
		n.tracked[t] = true
	}
	return n
}

// keeps: the error classes whose (partial) partition results are kept.
func keeps(e int16) bool { return e == 0 || e == 5 }

// apply folds one response in; returns the expected (retry, err) of updateMetadata.
func (v *refView) apply(r resp, full bool) (bool, int16) {
	v.brokers = map[int32]int32{}
	for _, b := range r.brokers {
		v.brokers[b[0]] = b[1]
	}
	v.ctrl = r.ctrl
	if full {
		v.topics = map[int]map[int32]pmeta{}
		v.tracked = map[int]bool{}
	}
	retry := false
	var err int16
	for _, t := range r.topics {
		v.tracked[t.name] = true
		delete(v.topics, t.name)
		if !keeps(t.err) {
			err = t.err
			if t.err == 3 {
				retry = true
			}
			continue
		}
		if t.err == 5 {
			retry = true
		}
		m := map[int32]pmeta{}
		for _, p := range t.parts {
			m[p.id] = p
			if p.err == 5 {
				retry = true
			}
		}
		v.topics[t.name] = m
	}
	return retry, err
}

func (v *refView) partIDs(t int, writable bool) ([]int32, bool) {
	m, ok := v.topics[t]
	if !ok {
		return nil, false
	}
	out := []int32{}
	for id, p := range m {
		if writable && p.err == 5 {
			continue
		}
		out = append(out, id)
	}
	sort.Slice(out, func(i, j int) bool { return out[i] < out[j] })
	return out, true
}
func showOptList(l []int32, ok bool) string {
	if !ok {
		return "nil"
	}
	if len(l) == 0 {
		return "empty"
	}
	return hlib.Ints32(l)
}
func (v *refView) leader(t int, p int32) string {
	m, ok := v.topics[t]
	if !ok {
		return "UNK"
	}
	pm, ok := m[p]
	if !ok {
		return "UNK"
	}
	if pm.err == 5 {
		return "LNA"
	}
	a, ok := v.brokers[pm.leader]
	if !ok {
		return "LNA"
	}
	return fmt.Sprintf("B %d:%d", pm.leader, a)
}
func (v *refView) meta(t int, p int32) string {
	if m, ok := v.topics[t]; ok {
		if pm, ok := m[p]; ok {
			return pm.show()
		}
	}
	return "none"
}
func (v *refView) replicas(which string, t int, p int32) string {
	m, ok := v.topics[t]
	if !ok {
		return "E3"
	}
	pm, ok := m[p]
	if !ok {
		return "E3"
	}
	l := pm.reps
	if which == "isr" {
		l = pm.isr
	} else if which == "off" {
		l = pm.off
	}
	if pm.err == 9 {
		return "rna " + hlib.Ints32(l)
	}
	return "ok " + hlib.Ints32(l)
}

// ---------------------------------------------------------------------------------------------------
// simulated network

type netEvent struct {
	kind string // dial | write | serve
	addr int
	conn int // connection id (dial, write)
}
type simNet struct {
	mu         sync.Mutex
	mode       map[int]string // live | refuse | mid | closed   (default refuse)
	target     map[int]string // address -> real listener address of the mock bound to it (for this case)
	conns      map[int][]net.Conn
	nextConn   int
	closedAddr string
	events     []netEvent
}

func (n *simNet) set(addr int, mode string) {
	n.mu.Lock()
	n.mode[addr] = mode
	n.mu.Unlock()
}
func (n *simNet) resetAll() {
	n.mu.Lock()
	n.mode = map[int]string{}
	n.target = map[int]string{}
	for _, cs := range n.conns {
		for _, c := range cs {
			_ = c.Close()
		}
	}
	n.conns = map[int][]net.Conn{}
	n.events = nil
	n.mu.Unlock()
}

// cut closes every connection that was dialled to the address (the address stopped answering).
func (n *simNet) cut(addr int) {
	n.mu.Lock()
	cs := n.conns[addr]
	delete(n.conns, addr)
	for _, c := range cs {
		if tc, ok := c.(*trackedConn); ok {
			tc.cut = true
		}
	}
	n.mu.Unlock()
	for _, c := range cs {
		_ = c.Close()
	}
}
func (n *simNet) logEvent(kind string, addr int) {
	n.mu.Lock()
	n.events = append(n.events, netEvent{kind, addr, 0})
	n.mu.Unlock()
}

// trackedConn logs the writes on a live connection (a request on a connection kept from an earlier attempt shows
// up as a write without a dial).
type trackedConn struct {
	net.Conn
	n    *simNet
	addr int
	id   int
	cut  bool // guarded by n.mu: the harness closed it when the address stopped answering
}

// a request on a connection the harness cut is a "stale" event: the client still held the connection of an earlier
// attempt and the request dies with it, whether or not the address answers again by now (sarama does not redial
// within the attempt) - for the property that candidate fails mid-request.
func (c *trackedConn) note() {
	c.n.mu.Lock()
	k := "write"
	if c.cut {
		k = "stale"
	}
	c.n.events = append(c.n.events, netEvent{k, c.addr, c.id})
	c.n.mu.Unlock()
}

func (c *trackedConn) Write(b []byte) (int, error) {
	c.note()
	return c.Conn.Write(b)
}

// Broker.write sets the deadline first; on a connection that was cut this already fails, so it counts as the write.
func (c *trackedConn) SetWriteDeadline(t time.Time) error {
	c.note()
	return c.Conn.SetWriteDeadline(t)
}
func (n *simNet) takeEvents() []netEvent {
	n.mu.Lock()
	defer n.mu.Unlock()
	e := n.events
	n.events = nil
	return e
}

type deadConn struct {
	mu      sync.Mutex
	written chan struct{}
	once    sync.Once
	closed  chan struct{}
	conce   sync.Once
}

func (c *deadConn) Read(b []byte) (int, error) {
	select {
	case <-c.written:
	case <-c.closed:
	}
	return 0, io.ErrUnexpectedEOF
}
func (c *deadConn) Write(b []byte) (int, error) {
	c.once.Do(func() { close(c.written) })
	return len(b), nil
}
func (c *deadConn) Close() error                       { c.conce.Do(func() { close(c.closed) }); return nil }
func (c *deadConn) LocalAddr() net.Addr                { return &net.TCPAddr{} }
func (c *deadConn) RemoteAddr() net.Addr               { return &net.TCPAddr{} }
func (c *deadConn) SetDeadline(t time.Time) error      { return nil }
func (c *deadConn) SetReadDeadline(t time.Time) error  { return nil }
func (c *deadConn) SetWriteDeadline(t time.Time) error { return nil }

func (n *simNet) Dial(network, addr string) (net.Conn, error) {
	a := sarama.VerifAddrNum(addr)
	n.mu.Lock()
	mode := n.mode[a]
	target := n.target[a]
	n.nextConn++
	id := n.nextConn
	n.events = append(n.events, netEvent{"dial", a, id})
	n.mu.Unlock()
	switch mode {
	case "live":
		if target == "" {
			return nil, errors.New("simnet: no mock bound")
		}
		c, err := net.DialTimeout("tcp", target, 2*time.Second)
		if err != nil {
			return nil, err
		}
		tc := &trackedConn{Conn: c, n: n, addr: a, id: id}
		n.mu.Lock()
		n.conns[a] = append(n.conns[a], tc)
		n.mu.Unlock()
		return tc, nil
	case "mid":
		return &deadConn{written: make(chan struct{}), closed: make(chan struct{})}, nil
	case "closed":
		return net.DialTimeout("tcp", n.closedAddr, 500*time.Millisecond)
	}
	return nil, errors.New("simnet: connection refused")
}

type reporter struct{ msgs []string }

func (r *reporter) Error(a ...interface{})            { r.msgs = append(r.msgs, fmt.Sprint(a...)) }
func (r *reporter) Errorf(f string, a ...interface{}) { r.msgs = append(r.msgs, fmt.Sprintf(f, a...)) }
func (r *reporter) Fatal(a ...interface{})            { panic(fmt.Sprint(a...)) }
func (r *reporter) Fatalf(f string, a ...interface{}) { panic(fmt.Sprintf(f, a...)) }

// mock pool: mock i answers for one symbolic address at a time
type mockNode struct {
	mb   *sarama.MockBroker
	addr int32 // symbolic address currently bound (atomic)
}

var (
	run     *hlib.Run
	simnet  *simNet // the network of the current case (old cases' late background dials go to their own object)
	netBox  atomic.Value
	mocks   []*mockNode
	curResp atomic.Value // func(addr int) *sarama.MetadataResponse
)

var closedAddr string

// freshNet gives the next case its own network object.
func freshNet() {
	if simnet != nil {
		simnet.resetAll()
	}
	simnet = &simNet{mode: map[int]string{}, target: map[int]string{}, conns: map[int][]net.Conn{}, closedAddr: closedAddr}
	netBox.Store(simnet)
}

func setupNet() {
	// a real address nobody listens on: a low port outside the ephemeral range (a port obtained from a listener that
	// is closed again can be handed to one of the mock brokers, or be self-connected to by the kernel)
	for port := 1; port < 64; port++ {
		a := fmt.Sprintf("127.0.0.1:%d", port)
		c, err := net.DialTimeout("tcp", a, 300*time.Millisecond)
		if err != nil {
			closedAddr = a
			break
		}
		c.Close()
	}
	if closedAddr == "" {
		panic("no closed port found")
	}
	freshNet()
	rep := &reporter{}
	for i := 0; i < 16; i++ {
		mn := &mockNode{mb: sarama.NewMockBrokerAddr(rep, int32(100+i), "127.0.0.1:0")}
		node := mn
		sarama.VerifSetMetadataHandler(mn.mb, func(topics []string) *sarama.MetadataResponse {
			a := int(atomic.LoadInt32(&node.addr))
			netBox.Load().(*simNet).logEvent("serve", a)
			f, _ := curResp.Load().(func(int) *sarama.MetadataResponse)
			if f == nil {
				return nil
			}
			return f(a)
		})
		mocks = append(mocks, mn)
	}
}

// bind gives each of the symbolic addresses its own mock for the rest of the case (at most len(mocks);
// addresses beyond that can never be live). Returns the addresses that got one.
func bind(addrs []int) map[int]bool {
	simnet.mu.Lock()
	defer simnet.mu.Unlock()
	ok := map[int]bool{}
	used := map[string]bool{}
	for _, t := range simnet.target {
		used[t] = true
	}
	for _, a := range addrs {
		if _, has := simnet.target[a]; has {
			ok[a] = true
			continue
		}
		for _, m := range mocks {
			if !used[m.mb.Addr()] {
				used[m.mb.Addr()] = true
				atomic.StoreInt32(&m.addr, int32(a))
				simnet.target[a] = m.mb.Addr()
				ok[a] = true
				break
			}
		}
	}
	return ok
}

func newConf() *sarama.Config {
	c := sarama.NewConfig()
	c.Net.Proxy.Enable = true
	c.Net.Proxy.Dialer = simnet
	c.Net.DialTimeout = 500 * time.Millisecond
	c.Net.ReadTimeout = 2 * time.Second
	c.Net.WriteTimeout = 2 * time.Second
	c.Metadata.Retry.Max = 0
	c.Metadata.Retry.Backoff = 0
	c.Metadata.RefreshFrequency = 0
	c.Metadata.Timeout = 0
	c.Metadata.Full = true
	return c
}

// ---------------------------------------------------------------------------------------------------
// canonical answers from the real client

func errCode(e error) string {
	if e == nil {
		return "0"
	}
	var ke sarama.KError
	if errors.As(e, &ke) {
		return strconv.Itoa(int(ke))
	}
	if e == sarama.ErrOutOfBrokers {
		return "oob"
	}
	return "other:" + e.Error()
}

func showLeader(b *sarama.Broker, err error) string {
	if err == sarama.ErrLeaderNotAvailable {
		return "LNA"
	}
	if err == sarama.ErrUnknownTopicOrPartition {
		return "UNK"
	}
	if err != nil {
		return "E" + errCode(err)
	}
	if b == nil {
		return "nil-broker"
	}
	return fmt.Sprintf("B %d:%d", b.ID(), sarama.VerifAddrNum(b.Addr()))
}

func showListErr(l []int32, err error) string {
	if err == nil {
		return "ok " + hlib.Ints32(l)
	}
	if err == sarama.ErrReplicaNotAvailable && l != nil {
		return "rna " + hlib.Ints32(l)
	}
	return "E" + errCode(err)
}

// ---------------------------------------------------------------------------------------------------
// one case = one client + its reference view + the op lines so far

type session struct {
	vc      *sarama.VerifClient
	ref     *refView
	hist    []string
	seeds   []int
	pure    bool // true while only upd ops changed the cache (the fold oracle applies)
	noAPI   bool // several seeds: the public getters' refresh would iterate them (not part of the api ops' model)
	lastRsp *resp
}

var cur *session

func closeSession() {
	if cur != nil && cur.vc != nil {
		done := make(chan struct{})
		vc := cur.vc
		go func() { _ = vc.Client().Close(); close(done) }()
		select {
		case <-done:
		case <-time.After(10 * time.Second):
		}
	}
	cur = nil
}

func (s *session) input() string { return strings.Join(s.hist, "\n") }

func fail(sig, detail string) {
	in := ""
	if cur != nil {
		in = cur.input()
	}
	run.IOFail(sig, in, detail)
}

// topics/partitions the oracle sweeps
var topicUniverse = []int{1, 2, 3, 4, 5, 6}
var partUniverse = []int32{0, 1, 2, 3, 4, 5, 6}

// checkView: the property statement against the reference view, through the real cached getters.
func (s *session) checkView(after string) {
	vc, v := s.vc, s.ref
	for _, t := range topicUniverse {
		ts := topicStr(t)
		for _, w := range []bool{false, true} {
			l, isNil := vc.CachedPartitions(ts, w)
			got := showOptList(l, !isNil)
			wl, ok := v.partIDs(t, w)
			want := showOptList(wl, ok)
			if got != want {
				sig := "partitions-not-newest"
				if w {
					sig = "writable-wrong"
				}
				fail(sig, fmt.Sprintf("after %s: topic %d writable=%v got %s want %s", after, t, w, got, want))
			}
		}
		for _, p := range partUniverse {
			b, err := vc.CachedLeader(ts, p)
			got := showLeader(b, err)
			want := v.leader(t, p)
			if got != want {
				sig := "leader-wrong"
				if strings.HasPrefix(got, "B ") && want != "UNK" {
					// a broker although the newest view has none for that id / another address
					sig = "leader-stale-broker"
				}
				fail(sig, fmt.Sprintf("after %s: leader %d/%d got %s want %s", after, t, p, got, want))
			}
			md := vc.CachedMetadata(ts, p)
			gm := "none"
			if md != nil {
				gm = sarama.VerifShowPart(md)
			}
			if wm := v.meta(t, p); gm != wm {
				fail("replicas-wrong", fmt.Sprintf("after %s: metadata %d/%d got %s want %s", after, t, p, gm, wm))
			}
		}
	}
	// brokers
	var got []string
	for _, b := range vc.Client().Brokers() {
		got = append(got, fmt.Sprintf("%d:%d", b.ID(), sarama.VerifAddrNum(b.Addr())))
	}
	sort.Strings(got)
	var want []string
	for id, a := range v.brokers {
		want = append(want, fmt.Sprintf("%d:%d", id, a))
	}
	sort.Strings(want)
	if strings.Join(got, ",") != strings.Join(want, ",") {
		fail("brokers-not-reconciled", fmt.Sprintf("after %s: brokers %v want %v", after, got, want))
	}
	// tracked topics
	mt, _ := vc.Client().(interface{ MetadataTopics() ([]string, error) }).MetadataTopics()
	sort.Strings(mt)
	var wt []string
	for t := range v.tracked {
		wt = append(wt, topicStr(t))
	}
	sort.Strings(wt)
	if strings.Join(mt, ",") != strings.Join(wt, ",") {
		fail("tracked-topics-wrong", fmt.Sprintf("after %s: tracked %v want %v", after, mt, wt))
	}
}

// checkDerived: "never a mixture" on the dump (taken in one critical section): L is the function of M.
func checkDerived(dump, after string) {
	mi := strings.Index(dump, "M[")
	li := strings.Index(dump, "] L[")
	ki := strings.Index(dump, "] K[")
	if mi < 0 || li < 0 || ki < 0 {
		return
	}
	ms := strings.Fields(dump[mi+2 : li])
	ls := strings.Fields(dump[li+4 : ki])
	want := []string{}
	for _, m := range ms {
		i := strings.Index(m, "{")
		name := m[:i]
		body := m[i+1 : len(m)-1]
		var all, wr []string
		if body != "" {
			for _, p := range strings.Split(body, ";") {
				g := strings.Split(p, "/")
				all = append(all, g[0])
				if g[5] != "5" {
					wr = append(wr, g[0])
				}
			}
		}
		j := func(x []string) string {
			if len(x) == 0 {
				return "-"
			}
			return strings.Join(x, ",")
		}
		want = append(want, fmt.Sprintf("%s{%s|%s}", name, j(all), j(wr)))
	}
	if strings.Join(ls, " ") != strings.Join(want, " ") {
		fail("cached-lists-inconsistent", fmt.Sprintf("after %s: lists [%s] but metadata gives [%s]", after, strings.Join(ls, " "), strings.Join(want, " ")))
	}
}

// abortRun: after a call into sarama that did not return, the goroutine stuck in it may spin for ever; the failure is
// recorded, so the run ends here with what it has.
func abortRun() {
	run.Finish("aborted after a call into the client did not return")
	os.Exit(0)
}

func timeoutCall(d time.Duration, f func() string) string {
	ch := make(chan string, 1)
	go func() {
		defer func() {
			if p := recover(); p != nil {
				ch <- "panic"
				fail("panic", fmt.Sprint(p))
			}
		}()
		ch <- f()
	}()
	select {
	case s := <-ch:
		return s
	case <-time.After(d):
		return "timeout"
	}
}

// ---------------------------------------------------------------------------------------------------
// exec: the one execution path

func exec(line string) {
	t := strings.Fields(line)
	if len(t) == 0 {
		return
	}
	emit := func(op, out string) { run.Emit(op, out) }
	switch t[0] {
	case "reset":
		closeSession()
		freshNet()
		pendingModes = map[int]string{}
		pendingNote = ""
		seeds := hlib.ParseInts32(t[1])
		s := &session{ref: newRef(), pure: true, hist: []string{line}}
		var ss []string
		for _, a := range seeds {
			s.seeds = append(s.seeds, int(a))
			ss = append(ss, addrStr(a))
		}
		vc, err := sarama.VerifNewBareClient(newConf(), ss)
		if err != nil {
			panic(err)
		}
		s.vc = vc
		cur = s
		emit(line, "ok")
		return
	case "note":
		if cur != nil {
			cur.hist = append(cur.hist, line)
		}
		if len(t) >= 3 && t[1] == "modes" { // note modes 12=mid,13=closed
			pendingModes = map[int]string{}
			pendingNote = line
			for _, kv := range strings.Split(t[2], ",") {
				f := strings.Split(kv, "=")
				if len(f) == 2 {
					simnet.set(hlib.Atoi(f[0]), f[1])
					pendingModes[hlib.Atoi(f[0])] = f[1]
				}
			}
		}
		if len(t) >= 2 && t[1] == "nosweep" && cur != nil { // no oracle sweeps (their Leader calls dial in the background)
			cur.pure = false
		}
		if len(t) >= 4 && t[1] == "conc" {
			concCase(uint64(hlib.Atoi(t[2])), hlib.Atoi(t[3]))
		}
		emit(line, "ok")
		return
	case "newclient":
		execNewClient(t, emit)
		return
	}
	if cur == nil || cur.vc == nil {
		exec("reset 1000")
	}
	s := cur
	vc := s.vc
	s.hist = append(s.hist, line)
	setLine := func(op string) { s.hist[len(s.hist)-1] = op }
	_ = setLine
	switch t[0] {
	case "upd":
		r, ok := parseResp(t[2:])
		if !ok {
			emit(line, "bad-op")
			return
		}
		full := t[1] == "1"
		out := run.Safe(line, func() string {
			retry, err := vc.UpdateMetadata(r.build(), full)
			d := vc.Dump()
			rb := 0
			if retry {
				rb = 1
			}
			wr, we := s.ref.apply(r, full)
			s.lastRsp = &r
			if retry != wr || errCode(err) != strconv.Itoa(int(we)) {
				fail("topic-error-class-wrong", fmt.Sprintf("updateMetadata returned retry=%v err=%s, the response's classes give retry=%v err=%d", retry, errCode(err), wr, we))
			}
			return fmt.Sprintf("r=%d e=%s | %s", rb, errCode(err), d)
		})
		emit(line, out)
		if i := strings.Index(out, " | "); i >= 0 {
			checkDerived(out[i+3:], "upd")
		}
		if s.pure {
			s.checkView("upd")
		}
		run.Count("upd")
	case "parts", "wparts":
		l, isNil := vc.CachedPartitions(topicStr(hlib.Atoi(t[1])), t[0] == "wparts")
		emit(line, showOptList(l, !isNil))
		run.Count("read")
	case "meta":
		md := vc.CachedMetadata(topicStr(hlib.Atoi(t[1])), int32(hlib.Atoi(t[2])))
		if md == nil {
			emit(line, "none")
		} else {
			emit(line, sarama.VerifShowPart(md))
		}
		run.Count("read")
	case "leader":
		b, err := vc.CachedLeader(topicStr(hlib.Atoi(t[1])), int32(hlib.Atoi(t[2])))
		emit(line, showLeader(b, err))
		run.Count("read")
	case "reps", "isr", "off":
		// the verdict part of Replicas/InSyncReplicas/OfflineReplicas on the cached metadata, through the public
		// getter when it cannot miss, otherwise computed from the real cachedMetadata
		tp, p := topicStr(hlib.Atoi(t[1])), int32(hlib.Atoi(t[2]))
		md := vc.CachedMetadata(tp, p)
		if md == nil {
			emit(line, "E3")
		} else {
			var l []int32
			var err error
			switch t[0] {
			case "reps":
				l, err = vc.Client().Replicas(tp, p)
			case "isr":
				l, err = vc.Client().InSyncReplicas(tp, p)
			default:
				l, err = vc.Client().OfflineReplicas(tp, p)
			}
			emit(line, showListErr(l, err))
		}
		run.Count("read")
	case "ctrl":
		b := vc.CachedController()
		if b == nil {
			emit(line, "none")
		} else {
			emit(line, fmt.Sprintf("%d:%d", b.ID(), sarama.VerifAddrNum(b.Addr())))
		}
	case "apiparts", "apireps", "apileader":
		execAPI(s, t, line, emit)
	case "deregseed":
		vc.DeregisterSeedHead()
		emit(line, vc.Dump())
	case "deregknown":
		s.pure = false
		vc.DeregisterKnown(int32(hlib.Atoi(t[1])))
		emit(line, vc.Dump())
	case "resurrect":
		vc.Resurrect()
		emit(line, vc.Dump())
	case "register":
		s.pure = false
		kv := strings.Split(t[1], ":")
		vc.RegisterBroker(int32(hlib.Atoi(kv[0])), addrStr(int32(hlib.Atoi(kv[1]))))
		emit(line, vc.Dump())
	case "deregctrl":
		s.pure = false
		vc.DeregisterController()
		emit(line, vc.Dump())
	case "refreshbrokers":
		s.pure = false
		in := hlib.ParseInts32(t[1])
		var as []string
		for _, a := range in {
			as = append(as, addrStr(a))
		}
		_ = vc.Client().RefreshBrokers(as)
		// the seeds are shuffled: put the observed order on the line, check it is a permutation of the input
		var got []int32
		for _, a := range vc.SeedOrder() {
			got = append(got, int32(sarama.VerifAddrNum(a)))
		}
		a1, a2 := append([]int32(nil), in...), append([]int32(nil), got...)
		sort.Slice(a1, func(i, j int) bool { return a1[i] < a1[j] })
		sort.Slice(a2, func(i, j int) bool { return a2[i] < a2[j] })
		op := "refreshbrokers " + hlib.Ints32(got)
		setLine(op)
		if len(got) > 1 {
			s.noAPI = true
		}
		s.seeds = nil
		for _, a := range got {
			s.seeds = append(s.seeds, int(a))
		}
		if hlib.Ints32(a1) != hlib.Ints32(a2) {
			fail("refreshbrokers-seeds-wrong", fmt.Sprintf("given %v, seeds now %v", in, got))
		}
		emit(op, vc.Dump())
	case "try":
		execTry(s, t, emit)
	default:
		emit(line, "bad-op")
	}
}

// execAPI: public getters; the single refresh on a miss is answered by the mock seed with the scripted response.
func execAPI(s *session, t []string, line string, emit func(string, string)) {
	vc := s.vc
	var rest []string
	switch t[0] {
	case "apiparts":
		rest = t[3:]
	case "apireps":
		rest = t[4:]
	default:
		rest = t[3:]
	}
	r, ok := parseResp(rest)
	if !ok || len(s.seeds) == 0 || s.noAPI {
		emit(line, "bad-op")
		return
	}
	bind([]int{s.seeds[0]})
	simnet.set(s.seeds[0], "live")
	var served int32
	rb := r
	curResp.Store(func(int) *sarama.MetadataResponse { atomic.AddInt32(&served, 1); return rb.build() })
	before := s.ref.clone()
	out := timeoutCall(20*time.Second, func() string {
		cl := vc.Client()
		switch t[0] {
		case "apiparts":
			var l []int32
			var err error
			if t[1] == "1" {
				l, err = cl.WritablePartitions(topicStr(hlib.Atoi(t[2])))
			} else {
				l, err = cl.Partitions(topicStr(hlib.Atoi(t[2])))
			}
			return showListErr(l, err)
		case "apireps":
			tp, p := topicStr(hlib.Atoi(t[2])), int32(hlib.Atoi(t[3]))
			var l []int32
			var err error
			switch t[1] {
			case "reps":
				l, err = cl.Replicas(tp, p)
			case "isr":
				l, err = cl.InSyncReplicas(tp, p)
			default:
				l, err = cl.OfflineReplicas(tp, p)
			}
			return showListErr(l, err)
		default:
			b, err := cl.Leader(topicStr(hlib.Atoi(t[1])), int32(hlib.Atoi(t[2])))
			return showLeader(b, err)
		}
	})
	n := atomic.LoadInt32(&served)
	if n > 0 {
		s.ref.apply(r, false)
		s.lastRsp = &r
	}
	dump := vc.Dump()
	if out == "timeout" {
		fail("getter-did-not-return", "public getter still running after 20 s")
		abortRun()
	}
	if n > 1 {
		fail("getter-refreshed-more-than-once", fmt.Sprintf("%d metadata requests for one getter call", n))
	}
	// oracle on the answer: a hit must answer from the view before, a miss from the view after the one refresh
	v := before
	if n > 0 {
		v = s.ref
	}
	want := ""
	switch t[0] {
	case "apiparts":
		l, ok := v.partIDs(hlib.Atoi(t[2]), t[1] == "1")
		if !ok || (t[1] != "1" && len(l) == 0) {
			want = "E3"
		} else {
			want = "ok " + hlib.Ints32(l)
		}
	case "apireps":
		want = v.replicas(t[1], hlib.Atoi(t[2]), int32(hlib.Atoi(t[3])))
	default:
		want = v.leader(hlib.Atoi(t[1]), int32(hlib.Atoi(t[2])))
	}
	// when the refresh itself reports a topic error the getter returns that error instead of looking again
	if n > 0 {
		if _, e := newRef().apply(r, false); e != 0 {
			want = "E" + strconv.Itoa(int(e))
		}
	}
	if t[0] == "apileader" { // Leader reports these two errors whether they come from the refresh or the lookup
		if want == "E3" {
			want = "UNK"
		} else if want == "E5" {
			want = "LNA"
		}
	}
	if s.pure && out != want {
		fail("getter-not-from-newest-view", fmt.Sprintf("%s answered %s, the view %s the refresh gives %s", t[0], out, map[bool]string{true: "after", false: "without"}[n > 0], want))
	}
	emit(line, out+" | "+dump)
	checkDerived(dump, t[0])
	if s.pure {
		s.checkView(t[0])
	}
	run.Count("api")
	if n > 0 {
		run.Count("api-miss")
	}
}

// ---------------------------------------------------------------------------------------------------
// candidate iteration

type attemptPlan struct {
	live  [][]int // per attempt
	resps []resp  // per attempt (last one repeats)
}

func parsePlan(liveTok string, rest []string) (attemptPlan, bool) {
	var p attemptPlan
	for _, g := range strings.Split(liveTok, "/") {
		var l []int
		for _, a := range hlib.ParseInts32(g) {
			l = append(l, int(a))
		}
		p.live = append(p.live, l)
	}
	var curToks []string
	flush := func() bool {
		r, ok := parseResp(curToks)
		if !ok {
			return false
		}
		p.resps = append(p.resps, r)
		curToks = nil
		return true
	}
	for _, x := range rest {
		if x == "|" {
			if !flush() {
				return p, false
			}
			continue
		}
		curToks = append(curToks, x)
	}
	if !flush() {
		return p, false
	}
	return p, true
}

func (p attemptPlan) liveAt(k int) []int {
	if len(p.live) == 0 {
		return nil
	}
	if k >= len(p.live) {
		k = len(p.live) - 1
	}
	return p.live[k]
}
func (p attemptPlan) respAt(k int) resp {
	if k >= len(p.resps) {
		k = len(p.resps) - 1
	}
	return p.resps[k]
}

// installAttempt makes exactly the addresses of attempt k live (the failure modes of the others stay as set by
// `note modes`); connections to addresses that stopped answering are cut.
func installAttempt(p attemptPlan, k int, all map[int]bool) {
	live := map[int]bool{}
	for _, a := range p.liveAt(k) {
		live[a] = true
	}
	var as []int
	for a := range all {
		as = append(as, a)
	}
	sort.Ints(as)
	bound := bind(as)
	var cut []int
	simnet.mu.Lock()
	for _, a := range as {
		if live[a] && bound[a] {
			simnet.mode[a] = "live"
		} else {
			if simnet.mode[a] == "live" || simnet.mode[a] == "" {
				simnet.mode[a] = "refuse"
			}
			cut = append(cut, a)
		}
	}
	simnet.mu.Unlock()
	for _, a := range cut {
		simnet.cut(a)
	}
	r := p.respAt(k)
	curResp.Store(func(int) *sarama.MetadataResponse { return r.build() })
}

type attemptObs struct {
	dead         []int
	seeds, known []int // candidate addresses at the start of the attempt
	knownIDs     []int
	events       []netEvent
}

func parseDumpDead(d string) (dead []int) {
	i := strings.Index(d, "D[")
	j := strings.Index(d[i:], "]")
	for _, a := range hlib.ParseInts32(d[i+2 : i+j]) {
		dead = append(dead, int(a))
	}
	return
}

func parseDumpLists(d string) (seeds []int, known []int, ids []int) {
	get := func(tag string) string {
		i := strings.Index(d, tag+"[")
		j := strings.Index(d[i:], "]")
		return d[i+len(tag)+1 : i+j]
	}
	for _, a := range hlib.ParseInts32(get("S")) {
		seeds = append(seeds, int(a))
	}
	if b := get("B"); b != "" {
		for _, e := range strings.Split(b, ",") {
			kv := strings.Split(e, ":")
			ids = append(ids, hlib.Atoi(kv[0]))
			known = append(known, hlib.Atoi(kv[1]))
		}
	}
	return
}

// triedOrder: the addresses asked in one attempt, in order: every dial, and every first write on a connection that
// was not dialled in this attempt.
func triedOrder(ev []netEvent) []int {
	var out []int
	seen := map[int]bool{}
	for _, e := range ev {
		switch e.kind {
		case "dial":
			out = append(out, e.addr)
			seen[e.conn] = true
		case "write", "stale":
			if !seen[e.conn] {
				seen[e.conn] = true
				out = append(out, e.addr)
			}
		}
	}
	return out
}

// effectiveLive: the addresses of attempt k that answer a request of this attempt: live, and not asked over a
// connection that died in an earlier attempt.
func effectiveLive(p attemptPlan, obs []attemptObs) attemptPlan {
	q := attemptPlan{resps: p.resps}
	n := len(p.live)
	if len(obs) > n {
		n = len(obs)
	}
	for k := 0; k < n; k++ {
		stale := map[int]bool{}
		if k < len(obs) {
			for _, e := range obs[k].events {
				if e.kind == "stale" {
					stale[e.addr] = true
				}
			}
		}
		var l []int
		for _, a := range p.liveAt(k) {
			if !stale[a] {
				l = append(l, a)
			}
		}
		q.live = append(q.live, l)
	}
	return q
}

func (p attemptPlan) liveToken() string {
	var gs []string
	for _, l := range p.live {
		var xs []int32
		for _, a := range l {
			xs = append(xs, int32(a))
		}
		gs = append(gs, hlib.Ints32(xs))
	}
	return strings.Join(gs, "/")
}

func contains(xs []int, x int) bool {
	for _, y := range xs {
		if y == x {
			return true
		}
	}
	return false
}

// runAttempts drives f (RefreshMetadata / NewClient) with the plan; observes every attempt.
func runAttempts(p attemptPlan, attempts int, conf *sarama.Config, all map[int]bool, snapshot func() string, f func() string) (string, []attemptObs) {
	var obs []attemptObs
	k := 0
	begin := func() {
		installAttempt(p, k, all)
		o := attemptObs{}
		if snapshot != nil {
			d := snapshot()
			o.seeds, o.known, o.knownIDs = parseDumpLists(d)
			o.dead = parseDumpDead(d)
		}
		obs = append(obs, o)
	}
	endAttempt := func() {
		obs[len(obs)-1].events = simnet.takeEvents()
	}
	simnet.takeEvents()
	conf.Metadata.Retry.Max = attempts
	conf.Metadata.Retry.BackoffFunc = func(retries, maxRetries int) time.Duration {
		endAttempt()
		k++
		begin()
		return 0
	}
	begin()
	out := timeoutCall(30*time.Second, f)
	endAttempt()
	return out, obs
}

func execTry(s *session, t []string, emit func(string, string)) {
	// try <full> <attempts> <order> <live> <resp> [| <resp>]
	if len(t) < 7 {
		emit(strings.Join(t, " "), "bad-op")
		return
	}
	vc := s.vc
	s.pure = false
	full := t[1] == "1"
	attempts := hlib.Atoi(t[2])
	plan, ok := parsePlan(t[4], t[5:])
	if !ok {
		emit(strings.Join(t, " "), "bad-op")
		return
	}
	var topics []string
	if !full {
		topics = []string{topicStr(1)}
	}
	all := map[int]bool{}
	sd, kn, _ := parseDumpLists(vc.Dump())
	for _, a := range sd {
		all[a] = true
	}
	for _, a := range kn {
		all[a] = true
	}
	for _, r := range plan.resps {
		for _, b := range r.brokers {
			all[int(b[1])] = true
		}
	}
	conf := vc.Client().Config()
	out, obs := runAttempts(plan, attempts, conf, all, vc.Dump, func() string {
		err := vc.Client().RefreshMetadata(topics...)
		if err == nil {
			return "ok e=0"
		}
		var ke sarama.KError
		if errors.As(err, &ke) {
			return fmt.Sprintf("ok e=%d", int(ke))
		}
		if err == sarama.ErrOutOfBrokers {
			return "oob"
		}
		return "err " + err.Error()
	})
	conf.Metadata.Retry.BackoffFunc = nil
	conf.Metadata.Retry.Max = 0
	// observed pick order of the known brokers, per attempt
	var orders []string
	for _, o := range obs {
		var ids []int32
		for _, a := range triedOrder(o.events) {
			for i, ka := range o.known {
				if ka == a && !contains(o.seeds, a) {
					ids = append(ids, int32(o.knownIDs[i]))
				}
			}
		}
		orders = append(orders, hlib.Ints32(ids))
	}
	t[3] = strings.Join(orders, "/")
	eff := effectiveLive(plan, obs)
	if eff.liveToken() != plan.liveToken() {
		run.Count("try-stale-connection")
	}
	t[4] = eff.liveToken()
	op := strings.Join(t, " ")
	dump := vc.Dump()
	s.hist[len(s.hist)-1] = op
	iterationOracle(out, obs, eff, attempts)
	emit(op, out+" | "+dump)
	checkDerived(dump, "try")
	run.Count("try")
	run.Nontrivial(op)
}

// iterationOracle: "a refresh succeeds whenever at least one seed or known broker answers", candidates are asked
// at most once per attempt, failed seeds are resurrected for the next attempt, the call returns.
func iterationOracle(out string, obs []attemptObs, plan attemptPlan, attempts int) {
	if out == "timeout" {
		fail("refresh-not-terminating", "RefreshMetadata still running after 30 s")
		abortRun()
	}
	if len(obs) > attempts+1 {
		fail("refresh-too-many-attempts", fmt.Sprintf("%d attempts with Retry.Max=%d", len(obs), attempts))
	}
	for k, o := range obs {
		live := plan.liveAt(k)
		cands := append(append([]int{}, o.seeds...), o.known...)
		anyLive := false
		for _, c := range cands {
			if contains(live, c) {
				anyLive = true
			}
		}
		served := false
		for _, e := range o.events {
			if e.kind == "serve" {
				served = true
			}
		}
		if anyLive && !served {
			fail("refresh-failed-although-candidate-answers", fmt.Sprintf("attempt %d: candidates %v, live %v, nobody was asked successfully (result %s)", k, cands, live, out))
		}
		tried := triedOrder(o.events)
		cnt := map[int]int{}
		for _, c := range cands {
			cnt[c]++
		}
		for _, a := range tried {
			cnt[a]--
			if cnt[a] < 0 {
				fail("candidate-asked-more-than-once", fmt.Sprintf("attempt %d: asked %v with candidates %v", k, tried, cands))
				break
			}
		}
		// seeds first, in order
		for i, a := range tried {
			if i < len(o.seeds) && a != o.seeds[i] {
				fail("seeds-not-tried-first", fmt.Sprintf("attempt %d: asked %v, seeds %v", k, tried, o.seeds))
				break
			}
		}
		if k > 0 {
			prev := obs[k-1]
			prevServed := false
			for _, e := range prev.events {
				if e.kind == "serve" {
					prevServed = true
				}
			}
			if !prevServed {
				// the whole previous pass failed: all its seeds must be seeds again
				a1 := append(append([]int{}, prev.seeds...), prev.dead...)
				a2 := append([]int{}, o.seeds...)
				sort.Ints(a1)
				sort.Ints(a2)
				if fmt.Sprint(a1) != fmt.Sprint(a2) {
					fail("dead-seed-not-resurrected", fmt.Sprintf("attempt %d failed entirely with seeds %v and dead seeds %v; attempt %d starts with seeds %v", k-1, prev.seeds, prev.dead, k, o.seeds))
				}
			}
		}
	}
	lastK := len(obs) - 1
	o := obs[lastK]
	anyLive := false
	for _, c := range append(append([]int{}, o.seeds...), o.known...) {
		if contains(plan.liveAt(lastK), c) {
			anyLive = true
		}
	}
	if anyLive && out == "oob" {
		fail("refresh-failed-although-candidate-answers", fmt.Sprintf("last attempt %d had a live candidate, result ErrOutOfBrokers", lastK))
	}
	if !anyLive && out != "oob" {
		fail("refresh-succeeded-without-answer", fmt.Sprintf("last attempt %d had no live candidate, result %s", lastK, out))
	}
}

func execNewClient(t []string, emit func(string, string)) {
	// newclient <full> <retryMax> <seeds> <live> <resp> [| <resp>]
	closeSession()
	freshNet()
	if len(t) < 7 {
		emit(strings.Join(t, " "), "bad-op")
		return
	}
	fullConf := t[1] == "1"
	retryMax := hlib.Atoi(t[2])
	seeds := hlib.ParseInts32(t[3])
	plan, ok := parsePlan(t[4], t[5:])
	if !ok {
		emit(strings.Join(t, " "), "bad-op")
		return
	}
	// the failure modes come from the preceding `note modes` line (resetAll above erased them: re-apply)
	for a, m := range pendingModes {
		simnet.set(a, m)
	}
	note := pendingNote
	pendingModes = map[int]string{}
	pendingNote = ""
	all := map[int]bool{}
	var addrs []string
	for _, a := range seeds {
		all[int(a)] = true
		addrs = append(addrs, addrStr(a))
	}
	conf := newConf()
	conf.Metadata.Full = fullConf
	var cl sarama.Client
	var cerr error
	out, obs := runAttempts(plan, retryMax, conf, all, nil, func() string {
		cl, cerr = sarama.NewClient(addrs, conf)
		if cerr != nil {
			return "failed e=" + errCodeNC(cerr)
		}
		return "created"
	})
	s := &session{ref: newRef(), pure: false, noAPI: true}
	if note != "" {
		s.hist = append(s.hist, note)
	}
	cur = s
	op := strings.Join(t, " ")
	s.hist = append(s.hist, op)
	if out == "created" && cl != nil {
		s.vc = sarama.VerifClientOf(cl)
		var order []int32
		for _, a := range s.vc.SeedOrder() {
			order = append(order, int32(sarama.VerifAddrNum(a)))
		}
		t[3] = hlib.Ints32(order)
		op = strings.Join(t, " ")
		s.hist[len(s.hist)-1] = op
		for _, a := range order {
			s.seeds = append(s.seeds, int(a))
		}
		// the error the initial refresh ended with is not observable on a created client except through the model:
		// recompute it from the view (nil or a tolerated one)
		dump := s.vc.Dump()
		out = "created | " + dump
		checkDerived(dump, "newclient")
		a1 := append([]int32(nil), seeds...)
		a2 := append([]int32(nil), order...)
		sort.Slice(a1, func(i, j int) bool { return a1[i] < a1[j] })
		sort.Slice(a2, func(i, j int) bool { return a2[i] < a2[j] })
		if hlib.Ints32(a1) != hlib.Ints32(a2) {
			fail("newclient-seeds-wrong", fmt.Sprintf("given %v, seeds ++ dead = %v", seeds, order))
		}
	}
	// property oracle: some seed answers at the first attempt with a clean response -> the client must be created
	if fullConf {
		firstLive := false
		for _, a := range seeds {
			if contains(plan.liveAt(0), int(a)) {
				firstLive = true
			}
		}
		r0 := plan.respAt(0)
		wr, we := newRef().apply(r0, true)
		if firstLive && !wr && (we == 0 || we == 29) && !strings.HasPrefix(out, "created") {
			fail("newclient-failed-although-seed-answers", fmt.Sprintf("seeds %v, live at first attempt %v, clean response, result %s", seeds, plan.liveAt(0), out))
		}
		everLive := false
		for k := 0; k <= retryMax; k++ {
			for _, a := range seeds {
				if contains(plan.liveAt(k), int(a)) {
					everLive = true
				}
			}
		}
		if !everLive && strings.HasPrefix(out, "created") {
			fail("newclient-created-without-answer", "no seed ever answered")
		}
		if len(obs) > retryMax+1 {
			fail("refresh-too-many-attempts", fmt.Sprintf("%d attempts with Retry.Max=%d", len(obs), retryMax))
		}
		for k, o := range obs {
			tried := triedOrder(o.events)
			_ = k
			if k == 0 && len(tried) > len(seeds) {
				fail("candidate-asked-more-than-once", fmt.Sprintf("first attempt asked %v with seeds %v", tried, seeds))
			}
		}
	} else if !strings.HasPrefix(out, "created") {
		fail("newclient-failed-without-refresh", out)
	}
	if out == "timeout" {
		fail("refresh-not-terminating", "NewClient still running after 30 s")
		abortRun()
	}
	emit(op, out)
	run.Count("newclient")
	run.Nontrivial(op)
}

var pendingModes = map[int]string{}
var pendingNote string

func errCodeNC(e error) string {
	var ke sarama.KError
	if errors.As(e, &ke) {
		return strconv.Itoa(int(ke))
	}
	if e == sarama.ErrOutOfBrokers {
		return "-100000"
	}
	return "other:" + e.Error()
}

// ---------------------------------------------------------------------------------------------------
// concurrent readers + background refresh: every read equals the view before or after some refresh

func concCase(seed uint64, n int) {
	rnd := hlib.NewRand(seed)
	closeSession()
	freshNet()
	vc, err := sarama.VerifNewBareClient(newConf(), nil)
	if err != nil {
		panic(err)
	}
	defer func() { _ = vc.Client().Close() }()
	g := newGen(rnd)
	g.stable = true
	resps := make([]resp, n)
	fulls := make([]bool, n)
	views := make([]*refView, n)
	v := newRef()
	for i := 0; i < n; i++ {
		resps[i] = g.next()
		fulls[i] = rnd.Chance(1, 3)
		v.apply(resps[i], fulls[i])
		views[i] = v.clone()
	}
	built := make([]*sarama.MetadataResponse, n)
	for i := range built {
		built[i] = resps[i].build()
	}
	_, _ = vc.UpdateMetadata(built[0], fulls[0])
	var started, finished int64
	var wg sync.WaitGroup
	stop := make(chan struct{})
	var fails int32
	report := func(q string, got string, lo, hi int64) {
		if atomic.AddInt32(&fails, 1) > 3 {
			return
		}
		var wants []string
		for k := lo; k <= hi; k++ {
			wants = append(wants, fmt.Sprintf("v%d:%s", k, expected(views[k], q)))
		}
		run.IOFail("concurrent-read-mixture", fmt.Sprintf("note conc %d %d", seed, n),
			fmt.Sprintf("read %q returned %s; views between the refreshes in flight give %v", q, got, wants))
	}
	for r := 0; r < 4; r++ {
		wg.Add(1)
		rr := hlib.NewRand(seed*31 + uint64(r))
		go func() {
			defer wg.Done()
			for {
				select {
				case <-stop:
					return
				default:
				}
				tpc := 1 + rr.Intn(3)
				p := int32(rr.Intn(4))
				var q string
				switch rr.Intn(7) {
				case 0:
					q = fmt.Sprintf("parts %d", tpc)
				case 1:
					q = fmt.Sprintf("wparts %d", tpc)
				case 2:
					q = fmt.Sprintf("leader %d %d", tpc, p)
				case 3:
					q = fmt.Sprintf("meta %d %d", tpc, p)
				case 4:
					q = fmt.Sprintf("apiparts %d", tpc)
				case 5:
					q = fmt.Sprintf("apireps %d %d", tpc, 0)
				default:
					q = "brokers"
				}
				lo := atomic.LoadInt64(&finished)
				got := realRead(vc, q)
				hi := atomic.LoadInt64(&started)
				ok := false
				for k := lo; k <= hi; k++ {
					if expected(views[k], q) == got {
						ok = true
						break
					}
				}
				if !ok {
					report(q, got, lo, hi)
				}
				run.Count("conc-read")
			}
		}()
	}
	for i := 1; i < n; i++ {
		atomic.StoreInt64(&started, int64(i))
		_, _ = vc.UpdateMetadata(built[i], fulls[i])
		atomic.StoreInt64(&finished, int64(i))
		if i%8 == 0 {
			time.Sleep(50 * time.Microsecond)
		}
	}
	close(stop)
	wg.Wait()
	run.Case(fmt.Sprintf("conc seed=%d n=%d", seed, n))
	run.Count("conc-refresh")
}

func realRead(vc *sarama.VerifClient, q string) string {
	t := strings.Fields(q)
	switch t[0] {
	case "parts", "wparts":
		l, isNil := vc.CachedPartitions(topicStr(hlib.Atoi(t[1])), t[0] == "wparts")
		return showOptList(l, !isNil)
	case "leader":
		b, err := vc.CachedLeader(topicStr(hlib.Atoi(t[1])), int32(hlib.Atoi(t[2])))
		return showLeader(b, err)
	case "meta":
		md := vc.CachedMetadata(topicStr(hlib.Atoi(t[1])), int32(hlib.Atoi(t[2])))
		if md == nil {
			return "none"
		}
		return sarama.VerifShowPart(md)
	case "apiparts":
		l, err := vc.Client().Partitions(topicStr(hlib.Atoi(t[1])))
		return showListErr(l, err)
	case "apireps":
		l, err := vc.Client().Replicas(topicStr(hlib.Atoi(t[1])), int32(hlib.Atoi(t[2])))
		return showListErr(l, err)
	default:
		var got []string
		for _, b := range vc.Client().Brokers() {
			got = append(got, fmt.Sprintf("%d:%d", b.ID(), sarama.VerifAddrNum(b.Addr())))
		}
		sort.Strings(got)
		return strings.Join(got, ",")
	}
}

func expected(v *refView, q string) string {
	t := strings.Fields(q)
	switch t[0] {
	case "parts", "wparts":
		l, ok := v.partIDs(hlib.Atoi(t[1]), t[0] == "wparts")
		return showOptList(l, ok)
	case "leader":
		return v.leader(hlib.Atoi(t[1]), int32(hlib.Atoi(t[2])))
	case "meta":
		return v.meta(hlib.Atoi(t[1]), int32(hlib.Atoi(t[2])))
	case "apiparts":
		l, ok := v.partIDs(hlib.Atoi(t[1]), false)
		if !ok || len(l) == 0 {
			return "E3"
		}
		return "ok " + hlib.Ints32(l)
	case "apireps":
		return v.replicas("reps", hlib.Atoi(t[1]), int32(hlib.Atoi(t[2])))
	default:
		var want []string
		for id, a := range v.brokers {
			want = append(want, fmt.Sprintf("%d:%d", id, a))
		}
		sort.Strings(want)
		return strings.Join(want, ",")
	}
}

// ---------------------------------------------------------------------------------------------------
// generators

// gen: a small evolving cluster; every response is a (possibly partial, possibly erroneous) picture of it.
type gen struct {
	rnd     *hlib.Rand
	brokers map[int32]int32         // id -> address number
	topics  map[int]map[int32]pmeta // the cluster's truth
	stable  bool                    // conc mode: topics 1..3 always present with partition 0, no erroring topics
}

func newGen(rnd *hlib.Rand) *gen {
	g := &gen{rnd: rnd, brokers: map[int32]int32{}, topics: map[int]map[int32]pmeta{}}
	nb := rnd.Range(1, 4)
	for i := 1; i <= nb; i++ {
		g.brokers[int32(i)] = int32(10 + i)
	}
	nt := rnd.Range(1, 4)
	if g.stable {
		nt = 3
	}
	for t := 1; t <= nt; t++ {
		g.topics[t] = g.newTopic()
	}
	return g
}

func (g *gen) brokerIDs() []int32 {
	var ids []int32
	for id := range g.brokers {
		ids = append(ids, id)
	}
	sort.Slice(ids, func(i, j int) bool { return ids[i] < ids[j] })
	return ids
}
func (g *gen) pickBroker() int32 {
	ids := g.brokerIDs()
	if len(ids) == 0 {
		return -1
	}
	return ids[g.rnd.Intn(len(ids))]
}
func (g *gen) replicaSet() []int32 {
	ids := g.brokerIDs()
	var out []int32
	for _, id := range ids {
		if g.rnd.Chance(1, 2) {
			out = append(out, id)
		}
	}
	return out
}
func (g *gen) newPart(id int32) pmeta {
	p := pmeta{id: id, leader: g.pickBroker(), reps: g.replicaSet()}
	for _, r := range p.reps {
		if g.rnd.Chance(2, 3) {
			p.isr = append(p.isr, r)
		} else if g.rnd.Chance(1, 3) {
			p.off = append(p.off, r)
		}
	}
	return p
}
func (g *gen) newTopic() map[int32]pmeta {
	m := map[int32]pmeta{}
	n := g.rnd.Range(1, 5)
	for i := 0; i < n; i++ {
		id := int32(i)
		if g.rnd.Chance(1, 6) {
			id = int32(g.rnd.Range(0, 6))
		}
		m[id] = g.newPart(id)
	}
	return m
}

// mutate: the cluster moves on.
func (g *gen) mutate() {
	r := g.rnd
	for k := r.Range(0, 3); k > 0; k-- {
		switch r.Intn(9) {
		case 0: // broker added
			id := int32(r.Range(1, 6))
			if _, ok := g.brokers[id]; !ok {
				g.brokers[id] = 10 + id
			}
		case 1: // broker removed
			if len(g.brokers) > 1 || !g.stable {
				delete(g.brokers, g.pickBroker())
			}
		case 2: // broker readdressed
			if id := g.pickBroker(); id > 0 {
				g.brokers[id] = int32(20*r.Range(1, 3)) + id
			}
		case 3: // topic appears
			t := r.Range(1, 6)
			if _, ok := g.topics[t]; !ok {
				g.topics[t] = g.newTopic()
			}
		case 4: // topic vanishes
			t := r.Range(1, 6)
			if !(g.stable && t <= 3) {
				delete(g.topics, t)
			}
		case 5: // partitions added
			for t, m := range g.topics {
				if r.Chance(1, 2) {
					id := int32(r.Range(0, 6))
					m[id] = g.newPart(id)
				}
				_ = t
			}
		case 6: // partitions removed
			for t, m := range g.topics {
				if r.Chance(1, 2) && len(m) > 0 {
					for id := range m {
						if !(g.stable && t <= 3 && id == 0) {
							delete(m, id)
						}
						break
					}
				}
			}
		default: // leaders move
			for _, m := range g.topics {
				for id, p := range m {
					if r.Chance(1, 3) {
						p.leader = g.pickBroker()
						m[id] = p
					}
				}
			}
		}
	}
	if g.stable {
		for t := 1; t <= 3; t++ {
			if g.topics[t] == nil {
				g.topics[t] = map[int32]pmeta{}
			}
			if _, ok := g.topics[t][0]; !ok {
				g.topics[t][0] = g.newPart(0)
			}
		}
	}
}

var otherErrs = []int16{7, 38, 41, 2, 72, -1}

// next: mutate the cluster, then describe (part of) it the way a broker would - plus the ways it might not.
func (g *gen) next() resp {
	r := g.rnd
	g.mutate()
	var out resp
	ids := g.brokerIDs()
	for _, id := range ids {
		out.brokers = append(out.brokers, [2]int32{id, g.brokers[id]})
	}
	if !g.stable && r.Chance(1, 12) && len(out.brokers) > 0 { // duplicate broker entry, other address
		b := out.brokers[r.Intn(len(out.brokers))]
		out.brokers = append(out.brokers, [2]int32{b[0], b[1] + 40})
	}
	if len(ids) > 0 {
		out.ctrl = ids[r.Intn(len(ids))]
	} else {
		out.ctrl = -1
	}
	var names []int
	for t := 1; t <= 6; t++ {
		if _, ok := g.topics[t]; ok {
			if g.stable || r.Chance(3, 4) {
				names = append(names, t)
			}
		} else if !g.stable && r.Chance(1, 5) {
			names = append(names, t) // asked for, does not exist
		}
	}
	for _, t := range names {
		tm := tmeta{name: t}
		truth, exists := g.topics[t]
		if !exists {
			tm.err = 3
			if r.Chance(1, 3) {
				tm.err = []int16{17, 29}[r.Intn(2)]
			}
			out.topics = append(out.topics, tm)
			continue
		}
		if !g.stable {
			switch r.Intn(14) {
			case 0:
				tm.err = 5
			case 1:
				tm.err = 3
			case 2:
				tm.err = []int16{17, 29}[r.Intn(2)]
			case 3:
				tm.err = otherErrs[r.Intn(len(otherErrs))]
			}
		}
		var pids []int32
		for id := range truth {
			pids = append(pids, id)
		}
		sort.Slice(pids, func(i, j int) bool { return pids[i] < pids[j] })
		// brokers send partitions in no particular order
		for i := len(pids) - 1; i > 0; i-- {
			j := r.Intn(i + 1)
			pids[i], pids[j] = pids[j], pids[i]
		}
		for _, id := range pids {
			p := truth[id]
			if _, alive := g.brokers[p.leader]; !alive {
				// faithful: a partition whose leader is not alive is leaderless
				p.err = 5
				if r.Chance(1, 2) {
					p.leader = -1
				}
				if !g.stable && r.Chance(1, 8) {
					p.err = 0 // unfaithful broker: stale leader id without the error
				}
			} else if r.Chance(1, 10) {
				p.err = 9
			} else if r.Chance(1, 14) {
				p.err = 5
			}
			tm.parts = append(tm.parts, p)
		}
		if !g.stable && r.Chance(1, 15) && len(tm.parts) > 0 { // duplicate partition entry
			d := tm.parts[r.Intn(len(tm.parts))]
			d.leader = g.pickBroker()
			d.err = 0
			tm.parts = append(tm.parts, d)
		}
		out.topics = append(out.topics, tm)
	}
	if !g.stable && r.Chance(1, 15) && len(out.topics) > 0 { // duplicate topic entry
		d := out.topics[r.Intn(len(out.topics))]
		d.err = []int16{0, 3, 5, 17}[r.Intn(4)]
		out.topics = append(out.topics, d)
	}
	return out
}

func genHistory(rnd *hlib.Rand) {
	exec("reset 1000")
	g := newGen(rnd)
	steps := rnd.Range(2, 9)
	nontrivial := false
	for i := 0; i < steps; i++ {
		k := rnd.Intn(100)
		switch {
		case k < 62:
			r := g.next()
			full := rnd.Chance(1, 3)
			if !full && rnd.Chance(1, 2) && len(r.topics) > 1 { // per-topic refresh: a subset
				r.topics = r.topics[:1+rnd.Intn(len(r.topics))]
			}
			f := "0"
			if full {
				f = "1"
			}
			exec("upd " + f + " " + r.tokens())
			if i > 0 {
				nontrivial = true
			}
		case k < 76:
			if cur != nil && cur.noAPI {
				break
			}
			r := g.next()
			tp := rnd.Range(1, 6)
			switch rnd.Intn(3) {
			case 0:
				exec(fmt.Sprintf("apiparts %d %d %s", rnd.Intn(2), tp, r.tokens()))
			case 1:
				exec(fmt.Sprintf("apireps %s %d %d %s", []string{"reps", "isr", "off"}[rnd.Intn(3)], tp, rnd.Range(0, 4), r.tokens()))
			default:
				exec(fmt.Sprintf("apileader %d %d %s", tp, rnd.Range(0, 4), r.tokens()))
			}
		case k < 80:
			exec("deregseed")
			exec("resurrect")
		case k < 84:
			exec(fmt.Sprintf("deregknown %d", rnd.Range(1, 6)))
		case k < 88:
			exec(fmt.Sprintf("register %d:%d", rnd.Range(1, 7), rnd.Range(11, 16)))
		case k < 91:
			exec("deregctrl")
		case k < 93:
			exec("refreshbrokers " + hlib.Ints32([]int32{1000, int32(rnd.Range(1001, 1003))}))
		default:
		}
		for q := rnd.Range(1, 4); q > 0; q-- {
			tp, p := rnd.Range(1, 6), rnd.Range(0, 5)
			switch rnd.Intn(8) {
			case 0:
				exec(fmt.Sprintf("parts %d", tp))
			case 1:
				exec(fmt.Sprintf("wparts %d", tp))
			case 2:
				exec(fmt.Sprintf("leader %d %d", tp, p))
			case 3:
				exec(fmt.Sprintf("reps %d %d", tp, p))
			case 4:
				exec(fmt.Sprintf("isr %d %d", tp, p))
			case 5:
				exec(fmt.Sprintf("off %d %d", tp, p))
			case 6:
				exec(fmt.Sprintf("meta %d %d", tp, p))
			default:
				exec("ctrl")
			}
		}
	}
	if nontrivial && cur != nil {
		run.Nontrivial(cur.input())
	}
	run.Count("history")
}

var failModes = []string{"refuse", "refuse", "mid", "closed"}

func genIteration(rnd *hlib.Rand) {
	nSeeds := rnd.Range(1, 4)
	var seeds []int32
	for i := 0; i < nSeeds; i++ {
		seeds = append(seeds, int32(1000+i))
	}
	if rnd.Chance(1, 10) && nSeeds > 1 {
		seeds[nSeeds-1] = seeds[0] // the same address given twice
	}
	exec("reset " + hlib.Ints32(seeds))
	exec("note nosweep")
	g := newGen(rnd)
	known := map[int32]int32{}
	if rnd.Chance(2, 3) {
		r := g.next()
		exec("upd 1 " + r.tokens())
		for _, b := range r.brokers {
			known[b[0]] = b[1]
		}
	}
	attempts := rnd.Pick(0, 0, 1, 1, 2)
	// all addresses in play
	var addrs []int
	seen := map[int]bool{}
	for _, a := range seeds {
		if !seen[int(a)] {
			seen[int(a)] = true
			addrs = append(addrs, int(a))
		}
	}
	var resps []resp
	for k := 0; k <= attempts; k++ {
		r := g.next()
		if rnd.Chance(1, 2) {
			// a clean answer (no retry wanted)
			for i := range r.topics {
				r.topics[i].err = 0
				for j := range r.topics[i].parts {
					if r.topics[i].parts[j].err == 5 {
						r.topics[i].parts[j].err = 0
					}
				}
			}
		}
		resps = append(resps, r)
	}
	for _, a := range known {
		if !seen[int(a)] {
			seen[int(a)] = true
			addrs = append(addrs, int(a))
		}
	}
	for _, r := range resps {
		for _, b := range r.brokers {
			if !seen[int(b[1])] {
				seen[int(b[1])] = true
				addrs = append(addrs, int(b[1]))
			}
		}
	}
	sort.Ints(addrs)
	var modes []string
	for _, a := range addrs {
		modes = append(modes, fmt.Sprintf("%d=%s", a, failModes[rnd.Intn(len(failModes))]))
	}
	exec("note modes " + strings.Join(modes, ","))
	pLive := rnd.Pick(0, 1, 2, 3)
	var lives []string
	for k := 0; k <= attempts; k++ {
		var l []int32
		for _, a := range addrs {
			if rnd.Intn(6) < pLive && len(l) < 8 {
				l = append(l, int32(a))
			}
		}
		lives = append(lives, hlib.Ints32(l))
	}
	var rt []string
	for _, r := range resps {
		rt = append(rt, r.tokens())
	}
	full := rnd.Intn(2)
	exec(fmt.Sprintf("try %d %d - %s %s", full, attempts, strings.Join(lives, "/"), strings.Join(rt, " | ")))
	for q := 0; q < 2; q++ {
		exec(fmt.Sprintf("leader %d %d", rnd.Range(1, 4), rnd.Range(0, 3)))
	}
	run.Count("iteration")
}

func genNewClient(rnd *hlib.Rand) {
	nSeeds := rnd.Range(1, 5)
	var seeds []int32
	var modes []string
	for i := 0; i < nSeeds; i++ {
		seeds = append(seeds, int32(1000+i))
		modes = append(modes, fmt.Sprintf("%d=%s", 1000+i, failModes[rnd.Intn(len(failModes))]))
	}
	retryMax := rnd.Pick(0, 0, 1, 2)
	g := newGen(rnd)
	var resps []resp
	for k := 0; k <= retryMax; k++ {
		r := g.next()
		if rnd.Chance(3, 4) {
			for i := range r.topics {
				r.topics[i].err = 0
				for j := range r.topics[i].parts {
					if r.topics[i].parts[j].err == 5 {
						r.topics[i].parts[j].err = 0
					}
				}
			}
		}
		resps = append(resps, r)
	}
	// one live set for all attempts: NewClient shuffles the seeds and the shuffled order cannot be observed when
	// creation fails, so the outcome must not depend on it (per-attempt liveness is exercised by the `try` cases)
	pLive := rnd.Pick(0, 1, 2, 4)
	var l []int32
	for _, a := range seeds {
		if rnd.Intn(6) < pLive {
			l = append(l, a)
		}
	}
	lives := []string{hlib.Ints32(l)}
	var rt []string
	for _, r := range resps {
		rt = append(rt, r.tokens())
	}
	exec("note modes " + strings.Join(modes, ","))
	full := 1
	if rnd.Chance(1, 8) {
		full = 0
	}
	exec(fmt.Sprintf("newclient %d %d %s %s %s", full, retryMax, hlib.Ints32(seeds), strings.Join(lives, "/"), strings.Join(rt, " | ")))
	if cur != nil && cur.vc != nil {
		exec(fmt.Sprintf("parts %d", rnd.Range(1, 4)))
		exec(fmt.Sprintf("leader %d %d", rnd.Range(1, 4), rnd.Range(0, 3)))
	}
}

// edgeCases: a small fixed grid around the class boundaries, before the random stream.
func edgeCases() {
	one := func(e int16, perr int16) resp {
		return resp{brokers: [][2]int32{{1, 11}, {2, 12}}, ctrl: 1, topics: []tmeta{{name: 1, err: e, parts: []pmeta{
			{id: 1, leader: 2, reps: []int32{1, 2}, isr: []int32{2}, err: perr}, {id: 0, leader: 1, reps: []int32{1}, isr: []int32{1}}}}}}
	}
	for _, e := range []int16{0, 3, 5, 9, 17, 29, 31, 7, 58, -1, 100} {
		for _, full := range []string{"0", "1"} {
			exec("reset 1000")
			exec("upd 1 " + one(0, 0).tokens())
			exec("upd " + full + " " + one(e, 0).tokens())
			exec("parts 1")
			exec("wparts 1")
			exec("leader 1 1")
			exec("reps 1 1")
		}
	}
	for _, pe := range []int16{0, 5, 9, 3} {
		exec("reset 1000")
		exec("upd 0 " + one(0, pe).tokens())
		exec("wparts 1")
		exec("leader 1 1")
		exec("isr 1 1")
		// broker 2 leaves, partition 1 keeps naming it
		exec("upd 0 b=1:11 c=1")
		exec("leader 1 1")
		exec("wparts 1")
		// broker 2 comes back at another address
		exec("upd 0 b=1:11,2:32 c=2")
		exec("leader 1 1")
		exec("ctrl")
	}
	// partition shrink, empty topic, empty response
	exec("reset 1000")
	exec("upd 1 b=1:11 c=1 t=1:0:0/1/1/1/-/0;1/1/1/1/-/0;2/1/1/1/-/0")
	exec("upd 0 b=1:11 c=1 t=1:0:2/1/1/1/-/0")
	exec("parts 1")
	exec("meta 1 0")
	exec("upd 0 b=1:11 c=1 t=1:0:-")
	exec("parts 1")
	exec("wparts 1")
	exec("apiparts 0 1 b=1:11 c=1 t=1:0:-")
	exec("apiparts 1 1 b=1:11 c=1 t=1:0:-")
	exec("upd 1 b=- c=-1")
	exec("parts 1")
	exec("ctrl")
	closeSession()
}

func main() {
	concOnly := flag.Bool("conconly", false, "run only the concurrent readers + background refresh cases")
	run = hlib.Start("C15")
	rnd := hlib.NewRand(run.Seed)
	setupNet()
	if lines := run.ReplayLines(); lines != nil {
		for _, l := range lines {
			exec(l)
		}
		closeSession()
		run.Finish("replay")
		return
	}
	n := run.N
	if n == 0 {
		n = 6000
		if run.Tier == "thorough" {
			n = 50000
		}
	}
	if *concOnly {
		k := n / 100
		if k < 4 {
			k = 4
		}
		if k > 60 {
			k = 60
		}
		for i := 0; i < k; i++ {
			exec(fmt.Sprintf("note conc %d %d", rnd.U64()%1000000, 400))
		}
		run.Finish("concurrent readers + background refresh only")
		return
	}
	edgeCases()
	for i := 0; i < n; i++ {
		switch k := rnd.Intn(100); {
		case k < 80:
			genHistory(rnd)
		case k < 93:
			genIteration(rnd)
		default:
			genNewClient(rnd)
		}
	}
	// the concurrent readers + background refresh cases run in a process of their own (-conconly, built with
	// -race by the check): a detected race or a runtime crash must not take this run's output with it
	closeSession()
	run.Finish("history: fresh client, 2-9 steps of (response of an evolving cluster through the real updateMetadata | public getter with a scripted refresh | broker bookkeeping op) each followed by 1-4 reads; iteration: real RefreshMetadata over seeds/known brokers with per-attempt liveness (refused / dies mid-request / closed port / MockBroker); newclient: real NewClient; conc: 4 readers against a refreshing writer. non-trivial = distinct history with at least two responses, every iteration and newclient case")
}
