// Harness for C19: the REAL ClusterAdmin against scripted in-package MockBrokers.
//
// One op line = one scripted admin operation (the same line is fed to the Lean driver svdrv_c19):
//
//	retry <budget> <max> <script>                      retryOnError over attempt results n|r|e
//	ctrl  <flags> <op> <kv> <max> <ctrls> <replies>    controller-bound op (ct dt cp ar<n>)
//	dr    <kv> <brokers> <p=leader|p=E<code>,…> <b=T|b=N|b=P<p>:<code>/…;…>    DeleteRecords
//	dg    <brokers> <g=coord|g=E<code>,…> <b=T|b=G<g>:<code>/…;…>              DescribeConsumerGroups
//	delg  <kv> <coord|E<code>> <T|M|C<code>>           DeleteConsumerGroup
//	lgo   <kv> <coord|E<code>> <T|O<top>:<p>=<code>,…> ListConsumerGroupOffsets
//	dld   <ids> <b=T|b=O;…>                            DescribeLogDirs
//
// A trailing token `b0` runs the line on a cluster whose broker ids are 0,1,2 instead of 1,2,3 (the model
// ignores the token: it speaks about abstract ids).
//
// <flags> = which variant of admin.go the tree under test shows (probed at start): budget a|o|p, then
// reassignRetries, reassignTopNonzero, reassignChecksItems as 0|1.
// The answer is the canonical result + the mock brokers' request log. The oracle evaluates the property
// statement on result + log, independently of the Lean model.
package main

import (
	"errors"
	"fmt"
	"net"
	"sort"
	"strconv"
	"strings"
	"sync"
	"sync/atomic"
	"time"

	"github.com/Shopify/sarama"
	"verif/harness/hlib"
)

var run *hlib.Run

const opTimeout = 15 * time.Second

// ioFail reports an oracle failure, at most 4 times per signature (hlib keeps only the first 200 failures of a
// run: repeated known findings must not crowd out a new signature)
var (
	failMu  sync.Mutex
	failCnt = map[string]int{}
)

func ioFail(sig, input, detail string) {
	failMu.Lock()
	failCnt[sig]++
	n := failCnt[sig]
	failMu.Unlock()
	if n <= 4 {
		run.IOFail(sig, input, detail)
	}
}

var errPool = []int{-1, 3, 7, 29, 36, 37, 38, 60, 87}

// ---------------------------------------------------------------------------------------------------
// canonical text of errors

func causeOf(e error) string {
	var ke sarama.KError
	if errors.As(e, &ke) {
		if ke == sarama.ErrUnsupportedVersion {
			return "u"
		}
		return "c" + strconv.Itoa(int(ke))
	}
	if e == sarama.ErrIncompleteResponse {
		return "i"
	}
	var pde sarama.PacketDecodingError
	if e == sarama.ErrInsufficientData || errors.As(e, &pde) {
		return "t"
	}
	txt := e.Error()
	for c := -1; c <= 100; c++ {
		t := sarama.KError(c).Error()
		if txt == t || strings.HasSuffix(txt, "]: "+t) {
			return "c" + strconv.Itoa(c)
		}
	}
	return "?" + strings.ReplaceAll(txt, " ", "_")
}

func wrappedText(errs *[]error) string {
	var cs []string
	if errs != nil {
		for _, e := range *errs {
			cs = append(cs, causeOf(e))
		}
	}
	sort.Strings(cs)
	return "wrapped " + strings.Join(cs, ",")
}

// canonErr maps an error returned by a ClusterAdmin method to the model's vocabulary.
// lookupCode != 0: a leader/coordinator lookup was scripted to fail with that code.
func canonErr(err error, nothingSent bool, lookupCode int) string {
	if err == nil {
		return "ok"
	}
	switch e := err.(type) {
	case *sarama.TopicError:
		return "kerr " + strconv.Itoa(int(e.Err))
	case *sarama.TopicPartitionError:
		return "kerr " + strconv.Itoa(int(e.Err))
	case sarama.KError:
		if nothingSent && lookupCode != 0 && int(e) == lookupCode {
			return "lookup " + strconv.Itoa(int(e))
		}
		if nothingSent && e == sarama.ErrUnsupportedVersion {
			return "unsupported"
		}
		return "kerr " + strconv.Itoa(int(e))
	case sarama.ErrReassignPartitions:
		return wrappedText(e.Errors)
	case sarama.ErrDeleteRecords:
		return wrappedText(e.Errors)
	}
	if err == sarama.ErrIncompleteResponse {
		return "incomplete"
	}
	var pde sarama.PacketDecodingError
	if err == sarama.ErrInsufficientData || errors.As(err, &pde) {
		return "transport"
	}
	return "other:" + strings.ReplaceAll(err.Error(), " ", "_")
}

// ---------------------------------------------------------------------------------------------------
// parsing helpers (formats shared with Driver/C19.lean)

func splitList(s, sep string) []string {
	if s == "-" || s == "" {
		return nil
	}
	return strings.Split(s, sep)
}

func atoi(s string) int { n, _ := strconv.Atoi(s); return n }

func ints(s string) []int32 {
	var out []int32
	for _, t := range splitList(s, ",") {
		out = append(out, int32(atoi(t)))
	}
	return out
}

func showInts(xs []int32) string {
	if len(xs) == 0 {
		return "-"
	}
	var s []string
	for _, x := range xs {
		s = append(s, strconv.Itoa(int(x)))
	}
	return strings.Join(s, ",")
}

func pairs(s, sep, item string) map[int32]int16 {
	m := map[int32]int16{}
	for _, t := range splitList(s, sep) {
		ab := strings.SplitN(t, item, 2)
		if len(ab) == 2 {
			m[int32(atoi(ab[0]))] = int16(atoi(ab[1]))
		}
	}
	return m
}

func parseReply(s string) sarama.VerifReply {
	if s == "T" {
		return sarama.VerifReply{Transport: true}
	}
	ab := strings.SplitN(s[1:], ":", 2)
	if len(ab) != 2 {
		return sarama.VerifReply{Transport: true}
	}
	return sarama.VerifReply{Top: int16(atoi(ab[0])), Items: pairs(ab[1], ",", "=")}
}

type lookup struct {
	item int32
	to   int32 // broker id, or 0 when failing
	code int   // failing code
}

func parseLookups(s string) []lookup {
	var out []lookup
	for _, t := range splitList(s, ",") {
		ab := strings.SplitN(t, "=", 2)
		if len(ab) != 2 {
			continue
		}
		l := lookup{item: int32(atoi(ab[0]))}
		if strings.HasPrefix(ab[1], "E") {
			l.code = atoi(ab[1][1:])
		} else {
			l.to = int32(atoi(ab[1]))
		}
		out = append(out, l)
	}
	return out
}

func perBroker(s string) map[int32]string {
	m := map[int32]string{}
	for _, t := range splitList(s, ";") {
		ab := strings.SplitN(t, "=", 2)
		if len(ab) == 2 {
			m[int32(atoi(ab[0]))] = ab[1]
		}
	}
	return m
}

func showLog(reqs []sarama.VerifReq, kind string) string {
	var rs []sarama.VerifReq
	for _, r := range reqs {
		if r.Kind == kind {
			rs = append(rs, r)
		}
	}
	if len(rs) == 0 {
		return "-"
	}
	sort.SliceStable(rs, func(i, j int) bool { return rs[i].Broker < rs[j].Broker })
	var s []string
	for _, r := range rs {
		var it []string
		for _, x := range r.Items {
			it = append(it, strconv.Itoa(int(x)))
		}
		s = append(s, fmt.Sprintf("%d:%s", r.Broker, strings.Join(it, "/")))
	}
	return strings.Join(s, ";")
}

func showPairs(m map[int32]int16) string {
	if len(m) == 0 {
		return "-"
	}
	var s []string
	for k, v := range m {
		s = append(s, fmt.Sprintf("%d=%d", k, v))
	}
	sort.Strings(s)
	return strings.Join(s, ",")
}

// ---------------------------------------------------------------------------------------------------
// running one admin call against a cluster

func newConf(kv string, max int) *sarama.Config {
	conf := sarama.NewConfig()
	conf.Version = parseKV(kv)
	conf.Admin.Retry.Max = max
	conf.Admin.Retry.Backoff = 0
	conf.Admin.Timeout = time.Second
	conf.Metadata.Retry.Max = 0
	conf.Metadata.Retry.Backoff = 0
	conf.Metadata.RefreshFrequency = 0
	conf.Net.DialTimeout = 3 * time.Second
	conf.Net.ReadTimeout = 3 * time.Second
	conf.Net.WriteTimeout = 3 * time.Second
	return conf
}

// trackDialer is installed as Config.Net.Proxy.Dialer: plain TCP, but every connection of a case is known to
// the harness, is closed at the end of the case whatever the client did with it (RefreshController drops the
// old controller's *Broker from the client's table without closing it), and is closed with RST (linger 0) so
// that hundreds of thousands of cases do not pile up TIME_WAIT sockets.
type trackedConn struct {
	net.Conn
	closed int32
}

func (c *trackedConn) Close() error {
	atomic.StoreInt32(&c.closed, 1)
	return c.Conn.Close()
}

type trackDialer struct {
	mu    sync.Mutex
	conns []*trackedConn
}

func (d *trackDialer) Dial(network, addr string) (net.Conn, error) {
	c, err := (&net.Dialer{Timeout: 3 * time.Second}).Dial(network, addr)
	if err != nil {
		return nil, err
	}
	if tc, ok := c.(*net.TCPConn); ok {
		_ = tc.SetLinger(0)
	}
	t := &trackedConn{Conn: c}
	d.mu.Lock()
	d.conns = append(d.conns, t)
	d.mu.Unlock()
	return t, nil
}

// closeAll closes what the client left open and returns how many connections that were
func (d *trackDialer) closeAll() int {
	d.mu.Lock()
	defer d.mu.Unlock()
	open := 0
	for _, c := range d.conns {
		if atomic.LoadInt32(&c.closed) == 0 {
			open++
			_ = c.Close()
		}
	}
	d.conns = nil
	return open
}

var (
	leakProbe bool // only during the single-threaded probe phase
	leakSeen  int
)

type callResult struct {
	err      error
	val      interface{}
	timedOut bool
	panicked string
	setupErr error
	log      []sarama.VerifReq
	meta     int
}

// withAdmin arms the cluster, creates a fresh client + admin, runs f under a timeout.
func withAdmin(cl *sarama.VerifCluster, sc *sarama.VerifScript, conf *sarama.Config, f func(a sarama.ClusterAdmin) (interface{}, error)) callResult {
	dialer := &trackDialer{}
	conf.Net.Proxy.Enable = true
	conf.Net.Proxy.Dialer = dialer
	defer func() {
		if leakProbe {
			time.Sleep(300 * time.Millisecond) // client.Close closes its brokers asynchronously
			leakSeen = dialer.closeAll()
		} else {
			dialer.closeAll()
		}
	}()
	cl.Arm(sc)
	admin, err := sarama.NewClusterAdmin(cl.Addrs(), conf)
	for try := 0; err != nil && try < 4 && err != sarama.ErrUnsupportedVersion; try++ {
		// the environment, not the code under test (e.g. local ports momentarily exhausted): wait and retry
		time.Sleep(time.Duration(500*(try+1)) * time.Millisecond)
		cl.Arm(sc)
		admin, err = sarama.NewClusterAdmin(cl.Addrs(), conf)
	}
	if err != nil {
		return callResult{setupErr: err}
	}
	cl.ResetCounters()
	type out struct {
		v   interface{}
		e   error
		pan string
	}
	ch := make(chan out, 1)
	go func() {
		defer func() {
			if p := recover(); p != nil {
				ch <- out{pan: fmt.Sprint(p)}
			}
		}()
		v, e := f(admin)
		ch <- out{v: v, e: e}
	}()
	var res callResult
	select {
	case o := <-ch:
		res.val, res.err, res.panicked = o.v, o.e, o.pan
	case <-time.After(opTimeout):
		res.timedOut = true
	}
	res.log = cl.Log()
	res.meta = cl.MetaRequests()
	if !res.timedOut {
		_ = admin.Close()
	}
	return res
}

func (r callResult) bad(line string) (string, bool) {
	switch {
	case r.setupErr != nil:
		ioFail("harness-setup-failed", line, r.setupErr.Error())
		return "setup-failed", true
	case r.timedOut:
		ioFail("admin-call-timeout", line, "no return within "+opTimeout.String())
		return "timeout", true
	case r.panicked != "":
		ioFail("panic", line, r.panicked)
		return "panic", true
	}
	return "", false
}

// ---------------------------------------------------------------------------------------------------
// controller-bound operations

var flags = "a000"

// parseKV: op lines carry four components; sarama's parser wants three from 1.0 on
func parseKV(kv string) sarama.KafkaVersion {
	s := kv
	if !strings.HasPrefix(kv, "0.") {
		s = strings.TrimSuffix(kv, ".0")
	}
	v, err := sarama.ParseKafkaVersion(s)
	if err != nil {
		panic(err)
	}
	return v
}

func kvAtLeast(kv, min string) bool {
	return parseKV(kv).IsAtLeast(parseKV(min))
}

func ctrlSupported(op, kv string) bool {
	switch {
	case op == "ct" || op == "dt":
		return kvAtLeast(kv, "0.10.1.0")
	case op == "cp":
		return kvAtLeast(kv, "1.0.0.0")
	}
	return kvAtLeast(kv, "2.4.0.0")
}

func nparts(op string) int {
	if strings.HasPrefix(op, "ar") {
		return atoi(op[2:])
	}
	return 0
}

func callCtrl(a sarama.ClusterAdmin, op string) error {
	switch {
	case op == "ct":
		return a.CreateTopic("t", &sarama.TopicDetail{NumPartitions: 1, ReplicationFactor: 1}, false)
	case op == "dt":
		return a.DeleteTopic("t")
	case op == "cp":
		return a.CreatePartitions("t", 3, nil, false)
	case strings.HasPrefix(op, "ar"):
		var asg [][]int32
		for i := 0; i < nparts(op); i++ {
			asg = append(asg, []int32{1, 2})
		}
		return a.AlterPartitionReassignments("t", asg)
	}
	panic("bad op " + op)
}

// what the property says the caller must see for this answer (the "ideal" verdict)
//
//	nc: the answer says NOT_CONTROLLER where the operation looks for it; verdict: canonical result text
func idealVerdict(op string, rp sarama.VerifReply) (nc bool, verdict string) {
	n := nparts(op)
	if !strings.HasPrefix(op, "ar") {
		if rp.Transport {
			return false, "transport"
		}
		c, ok := rp.Items[0]
		switch {
		case !ok:
			return false, "incomplete"
		case c == 0:
			return false, "ok"
		}
		return c == 41, "kerr " + strconv.Itoa(int(c))
	}
	if rp.Transport {
		return false, "wrapped t"
	}
	if rp.Top == 41 {
		return true, "kerr 41"
	}
	var cs []string
	if rp.Top != 0 {
		cs = append(cs, "c"+strconv.Itoa(int(rp.Top)))
	}
	for _, c := range rp.Items {
		if c != 0 {
			cs = append(cs, "c"+strconv.Itoa(int(c)))
		}
	}
	for p := 0; p < n; p++ {
		if _, ok := rp.Items[int32(p)]; !ok {
			cs = append(cs, "i")
		}
	}
	if len(cs) == 0 {
		return false, "ok"
	}
	sort.Strings(cs)
	return false, "wrapped " + strings.Join(cs, ",")
}

// successSig names the kind of "success although the answer was not an acknowledgement"
func successSig(op string, rp sarama.VerifReply) string {
	if !strings.HasPrefix(op, "ar") || rp.Transport {
		return "ctrl-success-despite-error"
	}
	missing := false
	for p := 0; p < nparts(op); p++ {
		if _, ok := rp.Items[int32(p)]; !ok {
			missing = true
		}
	}
	itemErr := false
	for _, c := range rp.Items {
		if c != 0 {
			itemErr = true
		}
	}
	switch {
	case rp.Top < 0 && !itemErr:
		return "reassign-negative-top-level-code-reported-as-success"
	case missing && rp.Top == 0 && !itemErr:
		return "reassign-missing-partition-reported-as-success"
	}
	return "ctrl-success-despite-error"
}

func causesSubset(got, want string) bool {
	w := map[string]bool{}
	for _, c := range strings.Split(strings.TrimPrefix(want, "wrapped "), ",") {
		w[c] = true
	}
	for _, c := range strings.Split(strings.TrimPrefix(got, "wrapped "), ",") {
		if !w[c] {
			return false
		}
	}
	return true
}

func doCtrl(cl *sarama.VerifCluster, line string, t []string) string {
	op, kv, max := t[2], t[3], atoi(t[4])
	ctrls := ints(t[5])
	var replies []sarama.VerifReply
	for _, s := range splitList(t[6], ";") {
		replies = append(replies, parseReply(s))
	}
	sc := &sarama.VerifScript{Ctrls: ctrls, Replies: replies}
	res := withAdmin(cl, sc, newConf(kv, max), func(a sarama.ClusterAdmin) (interface{}, error) {
		return nil, callCtrl(a, op)
	})
	if s, bad := res.bad(line); bad {
		return s
	}
	kind := op
	if strings.HasPrefix(op, "ar") {
		kind = "ar"
	}
	var sent []int32
	ver := "-"
	for _, r := range res.log {
		if r.Kind == kind {
			sent = append(sent, r.Broker)
			ver = strconv.Itoa(int(r.Version))
		} else {
			ioFail("ctrl-foreign-request", line, fmt.Sprintf("request kind %s during %s", r.Kind, op))
		}
	}
	result := canonErr(res.err, len(sent) == 0, 0)
	out := fmt.Sprintf("%s v%s log=%s refreshes=%d", result, ver, showInts(sent), res.meta)

	// ---- property oracle on result + request log
	if !ctrlSupported(op, kv) {
		if result == "ok" {
			sig := "ctrl-success-without-request"
			if max <= 0 {
				sig = "retry-max-0-success-without-request"
			}
			ioFail(sig, line, out)
		}
		return out
	}
	isAR := kind == "ar"
	// O1: each attempt goes to the controller the (refreshed) metadata names at that time
	for i, b := range sent {
		if i < len(ctrls) && b != ctrls[i] {
			ioFail("ctrl-attempt-to-wrong-broker", line, fmt.Sprintf("attempt %d went to broker %d, controller was %d; %s", i, b, ctrls[i], out))
			break
		}
	}
	// first answer that is not NOT_CONTROLLER
	k := 0
	for k < len(replies) {
		if nc, _ := idealVerdict(op, replies[k]); !nc {
			break
		}
		k++
	}
	if k < len(replies) && k < max {
		_, want := idealVerdict(op, replies[k])
		switch {
		case len(sent) < k+1:
			sig := "ctrl-not-controller-not-retried"
			if isAR {
				sig = "reassign-not-controller-not-retried"
			}
			ioFail(sig, line, fmt.Sprintf("%d requests, the controller's final answer is attempt %d; %s", len(sent), k, out))
		case len(sent) > k+1:
			ioFail("ctrl-retried-after-final-answer", line, fmt.Sprintf("%d requests, final answer was attempt %d; %s", len(sent), k, out))
		case result != want:
			sig := "ctrl-result-differs-from-controller-verdict"
			if result == "ok" {
				sig = successSig(op, replies[k])
			} else if isAR && strings.HasPrefix(result, "wrapped ") && strings.HasPrefix(want, "wrapped ") && causesSubset(result, want) {
				// an error is reported and every reported cause is one the controller gave (the aggregate need not list all)
				sig = ""
			}
			if sig != "" {
				ioFail(sig, line, fmt.Sprintf("want %s; %s", want, out))
			}
		}
	}
	// O4: success only after an acknowledging answer
	if result == "ok" {
		if len(sent) == 0 {
			sig := "ctrl-success-without-request"
			if max <= 0 {
				sig = "retry-max-0-success-without-request"
			}
			ioFail(sig, line, out)
		} else if len(sent) <= len(replies) && !(k < max && len(sent) == k+1) {
			if _, v := idealVerdict(op, replies[len(sent)-1]); v != "ok" {
				ioFail(successSig(op, replies[len(sent)-1]), line, fmt.Sprintf("last answer was %s; %s", v, out))
			}
		}
	}
	if len(sent) > 0 {
		key := fmt.Sprintf("%s %s %d %s", op, kv, max, t[6])
		if len(sent) > 1 || result != "ok" {
			run.Nontrivial(key)
		}
	}
	run.Count("ctrl:" + kind)
	run.Count(fmt.Sprintf("ctrl:requests=%d", len(sent)))
	run.Count("ctrl:v" + ver)
	return out
}

// ---------------------------------------------------------------------------------------------------
// controller moved BETWEEN operations (oracle only, own PRNG): one client + one admin live across two
// controller-bound operations; between them the controller moves and the client learns it from an ordinary
// metadata refresh (no NOT_CONTROLLER answer is involved). Every operation must go to the controller the
// client's newest metadata names ("the then-current controller") and report its verdict.
func movedControllerCase(cl *sarama.VerifCluster, name string, op, kv string, max int, a, b int32, firstOp bool) {
	run.Case(name)
	dialer := &trackDialer{}
	conf := newConf(kv, max)
	conf.Net.Proxy.Enable = true
	conf.Net.Proxy.Dialer = dialer
	defer dialer.closeAll()
	ok := sarama.VerifReply{Items: map[int32]int16{}}
	n := nparts(op)
	if n == 0 {
		n = 1
	}
	for p := 0; p < n; p++ {
		ok.Items[int32(p)] = 0
	}
	cl.Arm(&sarama.VerifScript{Ctrls: []int32{a}, Replies: []sarama.VerifReply{ok, ok, ok, ok}})
	client, err := sarama.NewClient(cl.Addrs(), conf)
	if err != nil {
		ioFail("harness-setup-failed", name, err.Error())
		return
	}
	admin, err := sarama.NewClusterAdminFromClient(client)
	if err != nil {
		_ = client.Close()
		ioFail("harness-setup-failed", name, err.Error())
		return
	}
	type out struct {
		e1, e2, re error
		pan        string
		log1, log2 []sarama.VerifReq
	}
	ch := make(chan out, 1)
	go func() {
		var o out
		defer func() {
			if p := recover(); p != nil {
				o.pan = fmt.Sprint(p)
			}
			ch <- o
		}()
		if firstOp {
			o.e1 = callCtrl(admin, op)
			o.log1 = cl.Log()
		}
		// the controller moves; the client learns it from a plain metadata refresh
		cl.Arm(&sarama.VerifScript{Ctrls: []int32{b}, Replies: []sarama.VerifReply{ok, ok, ok, ok}})
		o.re = client.RefreshMetadata()
		o.e2 = callCtrl(admin, op)
		o.log2 = cl.Log()
	}()
	select {
	case o := <-ch:
		_ = admin.Close()
		if o.pan != "" {
			ioFail("panic", name, o.pan)
			return
		}
		if o.re != nil {
			ioFail("harness-setup-failed", name, "metadata refresh: "+o.re.Error())
			return
		}
		detail := fmt.Sprintf("first=%v log1=%s second=%v log2=%s", o.e1, brokersOf(o.log1), o.e2, brokersOf(o.log2))
		if firstOp && (o.e1 != nil || len(o.log1) != 1 || o.log1[0].Broker != a) {
			ioFail("ctrl-attempt-to-wrong-broker", name, "first operation: "+detail)
			return
		}
		if len(o.log2) == 0 || o.log2[0].Broker != b {
			ioFail("ctrl-attempt-to-wrong-broker", name, fmt.Sprintf("after the move the first attempt must go to controller %d; %s", b, detail))
			return
		}
		if o.e2 != nil || len(o.log2) != 1 {
			ioFail("ctrl-result-differs-from-controller-verdict", name, "the current controller acknowledged the first attempt; "+detail)
		}
		run.Count("moved:" + op)
		run.Nontrivial(name)
	case <-time.After(opTimeout):
		ioFail("admin-call-timeout", name, "no return within "+opTimeout.String())
	}
}

func brokersOf(reqs []sarama.VerifReq) string {
	var s []string
	for _, r := range reqs {
		s = append(s, fmt.Sprintf("%s@%d", r.Kind, r.Broker))
	}
	return "[" + strings.Join(s, " ") + "]"
}

func movedControllerCases(seed uint64, thorough bool) {
	r := hlib.NewRand(seed*0x9E37 + 0xC19C7)
	cls := newClusters()
	defer cls.Close()
	n := 24
	if thorough {
		n = 400
	}
	ops := []string{"ct", "dt", "cp", "ar1", "ar2"}
	for i := 0; i < n; i++ {
		op := ops[r.Intn(len(ops))]
		kv := kvs[r.Intn(len(kvs))]
		if !ctrlSupported(op, kv) {
			kv = "2.4.0.0"
		}
		max := 1 + r.Intn(3) // Retry.Max = 0 is a separate matter (retryOnError), not what this family is about
		a := int32(1 + r.Intn(3))
		b := int32(1 + r.Intn(3))
		for b == a {
			b = int32(1 + r.Intn(3))
		}
		cl := cls.one
		zero := r.Intn(3) == 0
		if zero {
			cl, a, b = cls.zero, a-1, b-1
		}
		first := r.Intn(2) == 0
		movedControllerCase(cl, fmt.Sprintf("moved %s %s max=%d %d->%d firstOp=%v zero=%v", op, kv, max, a, b, first, zero), op, kv, max, a, b, first)
	}
}

// ---------------------------------------------------------------------------------------------------
// retryOnError alone

func doRetry(line string, t []string) string {
	max := atoi(t[2])
	var script []byte
	for _, s := range splitList(t[3], ",") {
		script = append(script, s[0])
	}
	calls, kind := sarama.VerifRetryOnError(max, script)
	kinds := map[byte]string{'n': "nil", 'r': "retryable", 'e': "other", '?': "unknown"}
	out := fmt.Sprintf("calls=%d %s", calls, kinds[kind])
	// oracle: first non-retryable answer within Max attempts is returned, after exactly that many calls
	k := 0
	for k < len(script) && script[k] == 'r' {
		k++
	}
	if k < len(script) && k < max {
		if calls != k+1 || kind != script[k] {
			ioFail("retryOnError-wrong-attempt-returned", line, out)
		}
	}
	if calls == 0 && kind == 'n' {
		ioFail("retryOnError-max-0-returns-nil-without-calling", line, out)
	} else if calls > 0 && calls <= len(script) && kind != script[calls-1] {
		ioFail("retryOnError-returns-other-than-last-result", line, out)
	}
	if calls > 1 {
		run.Nontrivial(line)
	}
	run.Count("retry")
	return out
}

// ---------------------------------------------------------------------------------------------------
// leader / coordinator bound operations

func leadersOf(ls []lookup) (map[int32]int32, int) {
	m := map[int32]int32{}
	code := 0
	for _, l := range ls {
		switch {
		case l.code == 5:
			m[l.item] = -1
			code = 5
		case l.code != 0:
			code = l.code // unknown partition: not in the metadata
		default:
			m[l.item] = l.to
		}
	}
	return m, code
}

func bReplies(s string, itemSep, kvSep string) map[int32]sarama.VerifBReply {
	m := map[int32]sarama.VerifBReply{}
	for b, p := range perBroker(s) {
		switch {
		case p == "T":
			m[b] = sarama.VerifBReply{Transport: true}
		case p == "N":
			m[b] = sarama.VerifBReply{NoTopic: true}
		default:
			m[b] = sarama.VerifBReply{Items: pairs(p[1:], itemSep, kvSep)}
		}
	}
	return m
}

// checks shared by DeleteRecords / DescribeConsumerGroups: every item exactly once, at its owner, one request per broker
func groupingOracle(name, line string, reqs []sarama.VerifReq, kind string, ls []lookup, subsetOK bool, out string) {
	seenB := map[int32]int{}
	cnt := map[int32]int{}
	owner := map[int32]int32{}
	for _, l := range ls {
		owner[l.item] = l.to
	}
	for _, r := range reqs {
		if r.Kind != kind {
			continue
		}
		seenB[r.Broker]++
		for _, it := range r.Items {
			cnt[it]++
			if o, ok := owner[it]; !ok || o != r.Broker {
				ioFail(name+"-item-sent-to-wrong-broker", line, fmt.Sprintf("item %d went to broker %d, owner %d; %s", it, r.Broker, o, out))
				return
			}
		}
	}
	for b, n := range seenB {
		if n > 1 {
			ioFail(name+"-more-than-one-request-per-broker", line, fmt.Sprintf("broker %d got %d requests; %s", b, n, out))
			return
		}
	}
	for _, l := range ls {
		if cnt[l.item] > 1 || (cnt[l.item] == 0 && !subsetOK) {
			ioFail(name+"-item-not-sent-exactly-once", line, fmt.Sprintf("item %d sent %d times; %s", l.item, cnt[l.item], out))
			return
		}
	}
}

func doDR(cl *sarama.VerifCluster, line string, t []string) string {
	kv := t[1]
	ls := parseLookups(t[3])
	leaders, lookupCode := leadersOf(ls)
	br := bReplies(t[4], "/", ":")
	sc := &sarama.VerifScript{Ctrls: []int32{1}, Leaders: leaders, Broker: br}
	offs := map[int32]int64{}
	for _, l := range ls {
		offs[l.item] = 10 + int64(l.item)
	}
	res := withAdmin(cl, sc, newConf(kv, 3), func(a sarama.ClusterAdmin) (interface{}, error) {
		return nil, a.DeleteRecords("t", offs)
	})
	if s, bad := res.bad(line); bad {
		return s
	}
	logTxt := showLog(res.log, "dr")
	result := canonErr(res.err, logTxt == "-", lookupCode)
	out := fmt.Sprintf("%s log=%s", result, logTxt)
	// ---- oracle
	if lookupCode != 0 {
		if result == "ok" || logTxt != "-" {
			ioFail("deleterecords-proceeds-despite-failed-leader-lookup", line, out)
		}
	} else if kvAtLeast(kv, "0.11.0.0") {
		groupingOracle("deleterecords", line, res.log, "dr", ls, false, out)
		anyErr := false
		used := map[int32]bool{}
		for _, l := range ls {
			used[l.to] = true
		}
		for b := range used {
			rp := br[b]
			if rp.Transport || rp.NoTopic {
				anyErr = true
			}
			for _, c := range rp.Items {
				if c != 0 {
					anyErr = true
				}
			}
		}
		if !anyErr && result == "ok" {
			for _, l := range ls {
				if _, ok := br[l.to].Items[l.item]; !ok {
					run.Count("dr:observed:response-lacks-a-requested-partition-yet-success")
					break
				}
			}
		}
		if anyErr && result == "ok" {
			ioFail("deleterecords-error-swallowed", line, out)
		}
		if !anyErr && result != "ok" {
			ioFail("deleterecords-error-without-cause", line, out)
		}
		if len(used) > 1 || anyErr {
			run.Nontrivial(line)
		}
		run.Count(fmt.Sprintf("dr:brokers=%d", len(used)))
	} else if result == "ok" && len(ls) > 0 {
		ioFail("deleterecords-success-without-request", line, out)
	}
	run.Count("dr")
	return out
}

func coordsOf(ls []lookup) (map[string]int32, int) {
	m := map[string]int32{}
	code := 0
	for _, l := range ls {
		if l.code != 0 {
			m["g"+strconv.Itoa(int(l.item))] = int32(-l.code)
			if code == 0 {
				code = l.code
			}
		} else {
			m["g"+strconv.Itoa(int(l.item))] = l.to
		}
	}
	return m, code
}

func doDG(cl *sarama.VerifCluster, line string, t []string) string {
	ls := parseLookups(t[2])
	coords, lookupCode := coordsOf(ls)
	br := bReplies(t[3], "/", ":")
	sc := &sarama.VerifScript{Ctrls: []int32{1}, Coord: coords, Broker: br}
	var groups []string
	for _, l := range ls {
		groups = append(groups, "g"+strconv.Itoa(int(l.item)))
	}
	res := withAdmin(cl, sc, newConf("1.0.0.0", 3), func(a sarama.ClusterAdmin) (interface{}, error) {
		return a.DescribeConsumerGroups(groups)
	})
	if s, bad := res.bad(line); bad {
		return s
	}
	logTxt := showLog(res.log, "dg")
	anyT := false
	used := map[int32]bool{}
	for _, l := range ls {
		if l.code == 0 {
			used[l.to] = true
		}
	}
	for b := range used {
		if br[b].Transport {
			anyT = true
		}
	}
	var out string
	if res.err != nil {
		e := canonErr(res.err, logTxt == "-", lookupCode)
		if strings.HasPrefix(e, "lookup") {
			out = "err " + e + " log=" + logTxt
		} else {
			out = "err " + e
		}
	} else {
		descs, _ := res.val.([]*sarama.GroupDescription)
		var ps []string
		for _, d := range descs {
			ps = append(ps, fmt.Sprintf("%s=%d", strings.TrimPrefix(d.GroupId, "g"), int(d.Err)))
		}
		sort.Strings(ps)
		p := "-"
		if len(ps) > 0 {
			p = strings.Join(ps, ",")
		}
		out = "ok " + p + " log=" + logTxt
	}
	// ---- oracle
	switch {
	case lookupCode != 0:
		if res.err == nil || logTxt != "-" {
			ioFail("describegroups-proceeds-despite-failed-coordinator-lookup", line, out)
		}
	default:
		groupingOracle("describegroups", line, res.log, "dg", ls, anyT, out)
		if anyT && res.err == nil {
			ioFail("describegroups-error-swallowed", line, out)
		}
		if !anyT && res.err != nil {
			ioFail("describegroups-error-without-cause", line, out)
		}
		if !anyT && res.err == nil {
			// every description a coordinator returned reaches the caller unchanged
			want := map[string]int{}
			for b := range used {
				for g, c := range br[b].Items {
					want[fmt.Sprintf("%d=%d", g, c)]++
				}
			}
			got := map[string]int{}
			for _, d := range res.val.([]*sarama.GroupDescription) {
				got[fmt.Sprintf("%s=%d", strings.TrimPrefix(d.GroupId, "g"), int(d.Err))]++
			}
			same := len(want) == len(got)
			for k, v := range want {
				if got[k] != v {
					same = false
				}
			}
			if !same {
				ioFail("describegroups-descriptions-differ-from-coordinators-answers", line, out)
			}
		}
		if len(used) > 1 || anyT {
			run.Nontrivial(line)
		}
		run.Count(fmt.Sprintf("dg:brokers=%d", len(used)))
	}
	run.Count("dg")
	return out
}

func parseOne(s string) (int32, int) {
	if strings.HasPrefix(s, "E") {
		return 0, atoi(s[1:])
	}
	return int32(atoi(s)), 0
}

func doDelG(cl *sarama.VerifCluster, line string, t []string) string {
	kv := t[1]
	co, lookupCode := parseOne(t[2])
	coords := map[string]int32{"g1": co}
	if lookupCode != 0 {
		coords["g1"] = int32(-lookupCode)
	}
	var rp sarama.VerifBReply
	switch {
	case t[3] == "T":
		rp.Transport = true
	case t[3] == "M":
		rp.NoTopic = true
	default:
		rp.Items = map[int32]int16{1: int16(atoi(t[3][1:]))}
	}
	sc := &sarama.VerifScript{Ctrls: []int32{1}, Coord: coords, Broker: map[int32]sarama.VerifBReply{co: rp}}
	res := withAdmin(cl, sc, newConf(kv, 3), func(a sarama.ClusterAdmin) (interface{}, error) {
		return nil, a.DeleteConsumerGroup("g1")
	})
	if s, bad := res.bad(line); bad {
		return s
	}
	var sent []int32
	for _, r := range res.log {
		if r.Kind == "delg" {
			sent = append(sent, r.Broker)
		}
	}
	result := canonErr(res.err, len(sent) == 0, lookupCode)
	out := fmt.Sprintf("%s log=%s", result, showInts(sent))
	// ---- oracle
	switch {
	case lookupCode != 0 || !kvAtLeast(kv, "1.1.0.0"):
		if result == "ok" || len(sent) != 0 {
			ioFail("deletegroup-proceeds-without-coordinator-or-version", line, out)
		}
	default:
		if len(sent) != 1 || sent[0] != co {
			ioFail("deletegroup-not-sent-once-to-coordinator", line, out)
		}
		want := "ok"
		switch {
		case rp.Transport:
			want = "transport"
		case rp.NoTopic:
			want = "incomplete"
		case rp.Items[1] != 0:
			want = "kerr " + strconv.Itoa(int(rp.Items[1]))
		}
		if result != want {
			sig := "deletegroup-result-differs-from-coordinator-verdict"
			if result == "ok" {
				sig = "deletegroup-error-swallowed"
			}
			ioFail(sig, line, "want "+want+"; "+out)
		}
		if want != "ok" {
			run.Nontrivial(line)
		}
	}
	run.Count("delg")
	return out
}

func doLGO(cl *sarama.VerifCluster, line string, t []string) string {
	kv := t[1]
	co, lookupCode := parseOne(t[2])
	coords := map[string]int32{"g1": co}
	if lookupCode != 0 {
		coords["g1"] = int32(-lookupCode)
	}
	var rp sarama.VerifBReply
	if t[3] == "T" {
		rp.Transport = true
	} else {
		ab := strings.SplitN(t[3][1:], ":", 2)
		rp.Top = int16(atoi(ab[0]))
		rp.Items = pairs(ab[1], ",", "=")
	}
	sc := &sarama.VerifScript{Ctrls: []int32{1}, Coord: coords, Broker: map[int32]sarama.VerifBReply{co: rp}}
	var parts []int32
	for p := range rp.Items {
		parts = append(parts, p)
	}
	res := withAdmin(cl, sc, newConf(kv, 3), func(a sarama.ClusterAdmin) (interface{}, error) {
		return a.ListConsumerGroupOffsets("g1", map[string][]int32{"t": parts})
	})
	if s, bad := res.bad(line); bad {
		return s
	}
	var sent []int32
	ver := -1
	for _, r := range res.log {
		if r.Kind == "lgo" {
			sent = append(sent, r.Broker)
			ver = int(r.Version)
		}
	}
	if ver < 0 { // nothing on the wire: the version cannot be observed; the selection chain is tied by the bridge
		ver = 1
		if kvAtLeast(kv, "0.10.2.0") {
			ver = 2
		}
	}
	var out string
	resp, _ := res.val.(*sarama.OffsetFetchResponse)
	if res.err != nil || resp == nil {
		out = fmt.Sprintf("err %s v%d log=%s", canonErr(res.err, len(sent) == 0, lookupCode), ver, showInts(sent))
	} else {
		got := map[int32]int16{}
		for p, b := range resp.Blocks["t"] {
			got[p] = int16(b.Err)
		}
		out = fmt.Sprintf("ok v%d top=%d parts=%s log=%s", ver, int(resp.Err), showPairs(got), showInts(sent))
		// oracle: the coordinator's verdict reaches the caller
		if ver >= 2 && int16(resp.Err) != rp.Top {
			ioFail("listgroupoffsets-top-level-verdict-changed", line, out)
		}
		if showPairs(got) != showPairs(rp.Items) {
			ioFail("listgroupoffsets-partition-verdicts-changed", line, out)
		}
	}
	switch {
	case lookupCode != 0:
		if res.err == nil || len(sent) != 0 {
			ioFail("listgroupoffsets-proceeds-despite-failed-coordinator-lookup", line, out)
		}
	default:
		if len(sent) != 1 || sent[0] != co {
			ioFail("listgroupoffsets-not-sent-once-to-coordinator", line, out)
		}
		if rp.Transport && res.err == nil {
			ioFail("listgroupoffsets-error-swallowed", line, out)
		}
		if rp.Transport || rp.Top != 0 {
			run.Nontrivial(line)
		}
	}
	run.Count("lgo")
	run.Count(fmt.Sprintf("lgo:v%d", ver))
	return out
}

func doDLD(cl *sarama.VerifCluster, line string, t []string) string {
	ids := ints(t[1])
	br := map[int32]sarama.VerifBReply{}
	anyT := false
	for b, p := range perBroker(t[2]) {
		br[b] = sarama.VerifBReply{Transport: p == "T"}
	}
	for _, id := range ids {
		if br[id].Transport {
			anyT = true
		}
	}
	sc := &sarama.VerifScript{Ctrls: []int32{1}, Broker: br}
	res := withAdmin(cl, sc, newConf("1.0.0.0", 3), func(a sarama.ClusterAdmin) (interface{}, error) {
		return a.DescribeLogDirs(ids)
	})
	if s, bad := res.bad(line); bad {
		return s
	}
	var sent []int32
	for _, r := range res.log {
		if r.Kind == "dld" {
			sent = append(sent, r.Broker)
		}
	}
	sort.Slice(sent, func(i, j int) bool { return sent[i] < sent[j] })
	var okIds []int32
	if m, ok := res.val.(map[int32][]sarama.DescribeLogDirsResponseDirMetadata); ok {
		for id := range m {
			okIds = append(okIds, id)
		}
	}
	sort.Slice(okIds, func(i, j int) bool { return okIds[i] < okIds[j] })
	e := 0
	if res.err != nil {
		e = 1
	}
	out := fmt.Sprintf("err=%d ok=%s log=%s", e, showInts(okIds), showInts(sent))
	// ---- oracle
	if showInts(sent) != showInts(ids) {
		ioFail("describelogdirs-not-one-request-per-broker", line, out)
	}
	if anyT && res.err == nil {
		ioFail("describelogdirs-error-swallowed", line, out)
	}
	if !anyT && res.err != nil {
		ioFail("describelogdirs-error-without-cause", line, out)
	}
	if len(ids) > 1 || anyT {
		run.Nontrivial(line)
	}
	run.Count("dld")
	return out
}

// ---------------------------------------------------------------------------------------------------

// clusters of one worker: broker ids 1,2,3 and 0,1,2
type clusters struct{ one, zero *sarama.VerifCluster }

func newClusters() *clusters {
	return &clusters{one: sarama.NewVerifClusterBase(3, 1), zero: sarama.NewVerifClusterBase(3, 0)}
}

func (c *clusters) Close() { c.one.Close(); c.zero.Close() }

func execLine(cls *clusters, line string) (string, string) {
	full := strings.Fields(line)
	if len(full) == 0 {
		return line, "bad-op"
	}
	cl := cls.one
	t := full
	suffix := ""
	if full[len(full)-1] == "b0" {
		cl = cls.zero
		t = full[:len(full)-1]
		suffix = " b0"
	}
	if len(t) == 0 {
		return line, "bad-op"
	}
	line = strings.Join(t, " ")

	if t[0] == "ctrl" && len(t) == 7 {
		t[1] = flags // the variant is what THIS tree shows, whatever a replayed line says
		line = strings.Join(t, " ")
	}
	if t[0] == "retry" && len(t) == 4 {
		t[1] = flags[:1]
		line = strings.Join(t, " ")
	}
	line += suffix // oracle failures and the emitted op line carry the cluster marker
	out := run.Safe(line, func() string {
		switch {
		case t[0] == "retry" && len(t) == 4:
			return doRetry(line, t)
		case t[0] == "ctrl" && len(t) == 7:
			return doCtrl(cl, line, t)
		case t[0] == "dr" && len(t) == 5:
			return doDR(cl, line, t)
		case t[0] == "dg" && len(t) == 4:
			return doDG(cl, line, t)
		case t[0] == "delg" && len(t) == 4:
			return doDelG(cl, line, t)
		case t[0] == "lgo" && len(t) == 4:
			return doLGO(cl, line, t)
		case t[0] == "dld" && len(t) == 3:
			return doDLD(cl, line, t)
		}
		return "bad-op"
	})
	return line, out
}

// probeVariant finds out which variant of admin.go the tree under test shows.
func probeVariant(cl *sarama.VerifCluster) string {
	b := "a"
	if calls, _ := sarama.VerifRetryOnError(0, []byte("e")); calls > 0 {
		b = "o"
		if calls2, _ := sarama.VerifRetryOnError(1, []byte("rrr")); calls2 > 1 {
			b = "p"
		}
	}
	probe := func(op string, replies ...sarama.VerifReply) (error, int) {
		sc := &sarama.VerifScript{Ctrls: []int32{1, 2, 3, 1}, Replies: replies}
		res := withAdmin(cl, sc, newConf("2.4.0.0", 3), func(a sarama.ClusterAdmin) (interface{}, error) {
			return nil, callCtrl(a, op)
		})
		return res.err, len(res.log)
	}
	okR := sarama.VerifReply{Items: map[int32]int16{0: 0}}
	f := func(c bool) string {
		if c {
			return "1"
		}
		return "0"
	}
	// observation (outside the statement): connections still open after admin.Close() when a controller refresh happened
	leakProbe = true
	probe("ct", sarama.VerifReply{Items: map[int32]int16{0: 41}}, okR, okR, okR)
	leakProbe = false
	run.Set("observed_connections_left_open_after_Close_following_a_controller_refresh", leakSeen)
	_, n := probe("ar1", sarama.VerifReply{Top: 41, Items: map[int32]int16{0: 0}}, okR, okR, okR)
	e2, _ := probe("ar1", sarama.VerifReply{Top: -1, Items: map[int32]int16{0: 0}}, okR, okR, okR)
	e3, _ := probe("ar2", okR, okR, okR, okR)
	return b + f(n > 1) + f(e2 != nil) + f(e3 != nil)
}

// probeF14: DescribeLogDirs with a broker id the client does not know (candidate F14: wg.Add without Done).
func probeF14(cl *sarama.VerifCluster) string {
	sc := &sarama.VerifScript{Ctrls: []int32{1}, Broker: map[int32]sarama.VerifBReply{}}
	cl.Arm(sc)
	admin, err := sarama.NewClusterAdmin(cl.Addrs(), newConf("1.0.0.0", 3))
	if err != nil {
		return "setup-failed"
	}
	ch := make(chan error, 1)
	go func() {
		_, e := admin.DescribeLogDirs([]int32{1, 99})
		ch <- e
	}()
	select {
	case e := <-ch:
		_ = admin.Close()
		if e != nil {
			return "returns-error"
		}
		return "returns-nil"
	case <-time.After(2 * time.Second):
		return "hangs"
	}
}

// ---------------------------------------------------------------------------------------------------
// generators

var kvs = []string{"0.10.0.0", "0.10.1.0", "0.10.2.0", "0.11.0.0", "1.0.0.0", "1.1.0.0", "2.3.0.0", "2.4.0.0"}

func replyText(top int, items map[int]int) string {
	var ps []string
	var keys []int
	for p := range items {
		keys = append(keys, p)
	}
	sort.Ints(keys)
	for _, p := range keys {
		ps = append(ps, fmt.Sprintf("%d=%d", p, items[p]))
	}
	return fmt.Sprintf("R%d:%s", top, strings.Join(ps, ","))
}

func okReply(op string) string {
	items := map[int]int{}
	n := nparts(op)
	if n == 0 {
		n = 1
	}
	for p := 0; p < n; p++ {
		items[p] = 0
	}
	return replyText(0, items)
}

func ncReply(op string) string {
	if strings.HasPrefix(op, "ar") {
		items := map[int]int{}
		return replyText(41, items)
	}
	return replyText(0, map[int]int{0: 41})
}

func ctrlLine(op, kv string, max int, ctrls []int, replies []string) string {
	var cs []string
	for _, c := range ctrls {
		cs = append(cs, strconv.Itoa(c))
	}
	return fmt.Sprintf("ctrl %s %s %s %d %s %s", flags, op, kv, max, strings.Join(cs, ","), strings.Join(replies, ";"))
}

func genCtrlGrid(r *hlib.Rand, thorough bool) []string {
	var lines []string
	kvFor := map[string][]string{
		"ct":  {"0.10.0.0", "0.10.1.0", "0.11.0.0", "1.0.0.0", "2.4.0.0"},
		"dt":  {"0.10.0.0", "0.10.2.0", "0.11.0.0", "2.4.0.0"},
		"cp":  {"0.11.0.0", "1.0.0.0", "2.4.0.0"},
		"ar1": {"2.3.0.0", "2.4.0.0"},
		"ar3": {"2.4.0.0"},
	}
	maxes := []int{0, 1, 2, 3}
	if thorough {
		maxes = []int{-1, 0, 1, 2, 3, 5}
	}
	for _, op := range []string{"ct", "dt", "cp", "ar1", "ar3"} {
		finals := []string{okReply(op), "T"}
		if strings.HasPrefix(op, "ar") {
			n := nparts(op)
			finals = append(finals, replyText(37, map[int]int{}), replyText(-1, allZero(n)), replyText(0, map[int]int{0: 7}),
				replyText(0, dropLast(allZero(n))), replyText(0, map[int]int{0: 41}))
		} else {
			finals = append(finals, replyText(0, map[int]int{0: 36}), replyText(0, map[int]int{0: -1}), replyText(0, map[int]int{}))
		}
		for _, kv := range kvFor[op] {
			for _, max := range maxes {
				for moves := 0; moves <= max+1 || moves <= 1; moves++ {
					for fi, fin := range finals {
						if !thorough && kv != kvFor[op][len(kvFor[op])-1] && fi > 1 && moves > 1 {
							continue // quick tier: full final-answer grid on the newest version only
						}
						var ctrls []int
						var replies []string
						c := 1 + r.Intn(3)
						for i := 0; i < moves; i++ {
							ctrls = append(ctrls, c)
							replies = append(replies, ncReply(op))
							c = 1 + (c+r.Intn(2))%3 // the controller really moves
						}
						ctrls = append(ctrls, c)
						replies = append(replies, fin)
						for len(ctrls) < max+3 {
							ctrls = append(ctrls, 1+r.Intn(3))
							replies = append(replies, okReply(op))
						}
						lines = append(lines, ctrlLine(op, kv, max, ctrls, replies))
					}
				}
			}
		}
	}
	return lines
}

func allZero(n int) map[int]int {
	m := map[int]int{}
	for p := 0; p < n; p++ {
		m[p] = 0
	}
	return m
}

func dropLast(m map[int]int) map[int]int {
	delete(m, len(m)-1)
	return m
}

func genCtrlRandom(r *hlib.Rand) string {
	ops := []string{"ct", "dt", "cp", "ar1", "ar2", "ar3"}
	op := ops[r.Intn(len(ops))]
	kv := kvs[r.Intn(len(kvs))]
	if r.Chance(3, 4) {
		kv = "2.4.0.0"
		if !strings.HasPrefix(op, "ar") && r.Bool() {
			kv = kvs[1+r.Intn(len(kvs)-1)]
		}
	}
	max := r.Pick(0, 1, 1, 2, 2, 3, 3, 4, 5)
	n := max + 3
	var ctrls []int
	var replies []string
	for i := 0; i < n; i++ {
		ctrls = append(ctrls, 1+r.Intn(3))
		switch x := r.Intn(10); {
		case x < 4:
			replies = append(replies, ncReply(op))
		case x < 6:
			replies = append(replies, okReply(op))
		case x == 6:
			replies = append(replies, "T")
		default:
			np := nparts(op)
			if np == 0 {
				items := map[int]int{}
				if r.Chance(4, 5) {
					items[0] = errPool[r.Intn(len(errPool))]
				}
				replies = append(replies, replyText(0, items))
			} else {
				items := map[int]int{}
				for p := 0; p < np; p++ {
					if r.Chance(1, 6) {
						continue
					}
					items[p] = 0
					if r.Chance(1, 3) {
						items[p] = r.Pick(7, 37, 41, 60, -1)
					}
				}
				top := 0
				if r.Chance(1, 3) {
					top = r.Pick(-1, 7, 29, 41, 87)
				}
				replies = append(replies, replyText(top, items))
			}
		}
	}
	return ctrlLine(op, kv, max, ctrls, replies)
}

func genRetry(r *hlib.Rand) string {
	max := r.Range(-1, 6)
	n := 8
	var s []string
	for i := 0; i < n; i++ {
		s = append(s, string("rrrne"[r.Intn(5)]))
	}
	return fmt.Sprintf("retry %s %d %s", flags[:1], max, strings.Join(s, ","))
}

func spread(r *hlib.Rand, n int) (nb int, owners []int) {
	nb = 1 + r.Intn(3)
	ids := []int{1, 2, 3}
	// random subset of nb brokers
	for i := 2; i > 0; i-- {
		j := r.Intn(i + 1)
		ids[i], ids[j] = ids[j], ids[i]
	}
	for i := 0; i < n; i++ {
		owners = append(owners, ids[r.Intn(nb)])
	}
	return
}

func genDR(r *hlib.Rand) string {
	kv := r.Pick(0, 1, 1, 2, 2)
	kvS := []string{"0.10.2.0", "0.11.0.0", "2.4.0.0"}[kv]
	n := 1 + r.Intn(6)
	_, owners := spread(r, n)
	failCode := 0
	if r.Chance(1, 8) {
		failCode = r.Pick(3, 5)
	}
	var ls []string
	per := map[int][]int{}
	for p := 0; p < n; p++ {
		if failCode != 0 && (p == 0 || r.Chance(1, 4)) {
			ls = append(ls, fmt.Sprintf("%d=E%d", p, failCode))
			continue
		}
		ls = append(ls, fmt.Sprintf("%d=%d", p, owners[p]))
		per[owners[p]] = append(per[owners[p]], p)
	}
	var rs []string
	for b := 1; b <= 3; b++ {
		switch x := r.Intn(12); {
		case x == 0:
			rs = append(rs, fmt.Sprintf("%d=T", b))
		case x == 1:
			rs = append(rs, fmt.Sprintf("%d=N", b))
		default:
			var ps []string
			for _, p := range per[b] {
				if r.Chance(1, 10) {
					continue // partition missing from the response
				}
				c := 0
				if r.Chance(1, 5) {
					c = errPool[r.Intn(len(errPool))]
				}
				ps = append(ps, fmt.Sprintf("%d:%d", p, c))
			}
			rs = append(rs, fmt.Sprintf("%d=P%s", b, strings.Join(ps, "/")))
		}
	}
	return fmt.Sprintf("dr %s 1,2,3 %s %s", kvS, strings.Join(ls, ","), strings.Join(rs, ";"))
}

func genDG(r *hlib.Rand) string {
	n := 1 + r.Intn(5)
	_, owners := spread(r, n)
	var ls []string
	per := map[int][]int{}
	for g := 0; g < n; g++ {
		if r.Chance(1, 25) {
			ls = append(ls, fmt.Sprintf("%d=E%d", g+1, r.Pick(30, 24, 16)))
			continue
		}
		ls = append(ls, fmt.Sprintf("%d=%d", g+1, owners[g]))
		per[owners[g]] = append(per[owners[g]], g+1)
	}
	var rs []string
	for b := 1; b <= 3; b++ {
		if r.Chance(1, 10) {
			rs = append(rs, fmt.Sprintf("%d=T", b))
			continue
		}
		var ps []string
		for _, g := range per[b] {
			c := 0
			if r.Chance(1, 4) {
				c = r.Pick(15, 16, 30, 69, -1)
			}
			ps = append(ps, fmt.Sprintf("%d:%d", g, c))
		}
		rs = append(rs, fmt.Sprintf("%d=G%s", b, strings.Join(ps, "/")))
	}
	return fmt.Sprintf("dg 1,2,3 %s %s", strings.Join(ls, ","), strings.Join(rs, ";"))
}

func genCoord(r *hlib.Rand) string {
	if r.Chance(1, 12) {
		return fmt.Sprintf("E%d", r.Pick(30, 24, 16))
	}
	return strconv.Itoa(1 + r.Intn(3))
}

func genDelG(r *hlib.Rand) string {
	kv := []string{"1.0.0.0", "1.1.0.0", "2.4.0.0"}[r.Pick(0, 1, 1, 2, 2)]
	rp := "C0"
	switch x := r.Intn(8); {
	case x == 0:
		rp = "T"
	case x == 1:
		rp = "M"
	case x < 5:
		rp = fmt.Sprintf("C%d", r.Pick(-1, 16, 30, 68, 69, 41))
	}
	return fmt.Sprintf("delg %s %s %s", kv, genCoord(r), rp)
}

func genLGO(r *hlib.Rand) string {
	kv := []string{"0.10.0.0", "0.10.1.0", "0.10.2.0", "2.4.0.0"}[r.Intn(4)]
	rp := "T"
	if r.Chance(7, 8) {
		top := 0
		if r.Chance(1, 3) {
			top = r.Pick(14, 15, 16, 30, -1)
		}
		items := map[int]int{}
		for p := 0; p < r.Intn(4); p++ {
			items[p] = 0
			if r.Chance(1, 3) {
				items[p] = r.Pick(3, 9, 29)
			}
		}
		rp = "O" + replyText(top, items)[1:]
	}
	return fmt.Sprintf("lgo %s %s %s", kv, genCoord(r), rp)
}

func genDLD(r *hlib.Rand) string {
	var ids []string
	var rs []string
	for b := 1; b <= 3; b++ {
		if r.Chance(2, 3) {
			ids = append(ids, strconv.Itoa(b))
		}
		if r.Chance(1, 4) {
			rs = append(rs, fmt.Sprintf("%d=T", b))
		} else {
			rs = append(rs, fmt.Sprintf("%d=O", b))
		}
	}
	if len(ids) == 0 {
		ids = []string{"2"}
	}
	return fmt.Sprintf("dld %s %s", strings.Join(ids, ","), strings.Join(rs, ";"))
}

// zeroBased rewrites a generated line (broker ids 1..3) to broker ids 0..2 and marks it `b0`.
func zeroBased(line string) string {
	t := strings.Fields(line)
	dec := func(s string) string { return strconv.Itoa(atoi(s) - 1) }
	decList := func(s string) string {
		xs := splitList(s, ",")
		for i := range xs {
			xs[i] = dec(xs[i])
		}
		if len(xs) == 0 {
			return s
		}
		return strings.Join(xs, ",")
	}
	decLookups := func(s string) string { // item=broker | item=E<code>
		xs := splitList(s, ",")
		for i, x := range xs {
			ab := strings.SplitN(x, "=", 2)
			if len(ab) == 2 && !strings.HasPrefix(ab[1], "E") {
				xs[i] = ab[0] + "=" + dec(ab[1])
			}
		}
		if len(xs) == 0 {
			return s
		}
		return strings.Join(xs, ",")
	}
	decKeys := func(s string) string { // broker=payload;…
		xs := splitList(s, ";")
		for i, x := range xs {
			ab := strings.SplitN(x, "=", 2)
			if len(ab) == 2 {
				xs[i] = dec(ab[0]) + "=" + ab[1]
			}
		}
		if len(xs) == 0 {
			return s
		}
		return strings.Join(xs, ";")
	}
	decOne := func(s string) string {
		if strings.HasPrefix(s, "E") {
			return s
		}
		return dec(s)
	}
	switch {
	case t[0] == "ctrl" && len(t) == 7:
		t[5] = decList(t[5])
	case t[0] == "dr" && len(t) == 5:
		t[2], t[3], t[4] = decList(t[2]), decLookups(t[3]), decKeys(t[4])
	case t[0] == "dg" && len(t) == 4:
		t[1], t[2], t[3] = decList(t[1]), decLookups(t[2]), decKeys(t[3])
	case (t[0] == "delg" || t[0] == "lgo") && len(t) == 4:
		t[2] = decOne(t[2])
	case t[0] == "dld" && len(t) == 3:
		t[1], t[2] = decList(t[1]), decKeys(t[2])
	default:
		return line
	}
	return strings.Join(t, " ") + " b0"
}

func main() {
	run = hlib.Start("C19")
	r := hlib.NewRand(run.Seed)
	sarama.Logger = sarama.Logger // default: discard

	probeCl := sarama.NewVerifCluster(3)
	flags = probeVariant(probeCl)
	run.Set("variant_flags", flags)
	f14 := probeF14(probeCl)
	run.Set("F14_describe_log_dirs_unknown_broker_id", f14)
	// the cluster used for the F14 probe may have a leaked admin; use fresh clusters for the cases

	var lines []string
	if rl := run.ReplayLines(); rl != nil {
		lines = rl
	} else {
		thorough := run.Tier == "thorough"
		n := run.N
		if n <= 0 {
			n = 2500
			if thorough {
				n = 40000
			}
		}
		// isErrNoController on every shape x a few codes (no model line: pure oracle)
		for shape := 0; shape < 4; shape++ {
			for _, code := range []int16{-1, 0, 7, 40, 41, 42} {
				got := sarama.VerifIsErrNoController(shape, code)
				want := shape < 3 && code == 41
				run.Case(fmt.Sprintf("isErrNoController shape=%d code=%d", shape, code))
				if got != want {
					ioFail("isErrNoController-wrong", fmt.Sprintf("isErrNoController shape=%d code=%d", shape, code), fmt.Sprint(got))
				}
			}
		}
		for max := -1; max <= 4; max++ {
			for m := 0; m <= 5; m++ {
				for _, fin := range []string{"n", "e"} {
					var s []string
					for i := 0; i < m; i++ {
						s = append(s, "r")
					}
					s = append(s, fin, "n", "n")
					lines = append(lines, fmt.Sprintf("retry %s %d %s", flags[:1], max, strings.Join(s, ",")))
				}
			}
		}
		lines = append(lines, genCtrlGrid(r, thorough)...)
		for i := 0; i < n; i++ {
			switch x := r.Intn(20); {
			case x < 8:
				lines = append(lines, genCtrlRandom(r))
			case x < 9:
				lines = append(lines, genRetry(r))
			case x < 13:
				lines = append(lines, genDR(r))
			case x < 16:
				lines = append(lines, genDG(r))
			case x < 17:
				lines = append(lines, genDelG(r))
			case x < 19:
				lines = append(lines, genLGO(r))
			default:
				lines = append(lines, genDLD(r))
			}
		}
	}

	// scenarios on a cluster whose broker ids start at 0 (a zero id is what an unset int32 looks like: a lookup that
	// was never made must not resolve to broker 0). Drawn from a SEPARATE PRNG and appended, so the streams above
	// are what they always were.
	if run.ReplayLines() == nil {
		r0 := hlib.NewRand(run.Seed*0x9E37 + 0xC19B0)
		n0 := len(lines) / 4
		for i := 0; i < n0; i++ {
			var l string
			switch x := r0.Intn(20); {
			case x < 4:
				l = genCtrlRandom(r0)
			case x < 8:
				l = genDR(r0)
			case x < 12:
				l = genDG(r0)
			case x < 15:
				l = genDelG(r0)
			case x < 18:
				l = genLGO(r0)
			default:
				l = genDLD(r0)
			}
			lines = append(lines, zeroBased(l))
		}
	}

	if run.ReplayLines() == nil {
		movedControllerCases(uint64(run.Seed), run.Tier == "thorough")
	}

	// execute on a few clusters in parallel, emit in generation order
	workers := 6
	if len(lines) < 50 {
		workers = 1
	}
	type res struct{ line, out string }
	results := make([]res, len(lines))
	var wg sync.WaitGroup
	idx := make(chan int, len(lines))
	for i := range lines {
		idx <- i
	}
	close(idx)
	for w := 0; w < workers; w++ {
		wg.Add(1)
		go func() {
			defer wg.Done()
			cl := newClusters()
			defer func() { cl.Close() }()
			done := 0
			for i := range idx {
				l, o := execLine(cl, lines[i])
				results[i] = res{l, o}
				if done++; done%2000 == 0 {
					// fresh listeners: every case opens a few TCP connections, and closed ones keep their
					// (local port, listener) pair busy for a minute
					cl.Close()
					cl = newClusters()
				}
			}
		}()
	}
	wg.Wait()
	for _, x := range results {
		run.Emit(x.line, x.out)
	}
	run.Finish("a case counts as non-trivial when its request reached a mock broker and (a retry happened, or an error / incomplete / undecodable answer was injected, or the items were spread over at least two brokers)")
}
