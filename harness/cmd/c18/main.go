// Harness for C18: producer scenarios (interceptor chain exactly once per submitted message, also across
// retries and panics) and consumer scenarios (chain exactly once per delivered message, also on the
// slow-reader path), against the simulated cluster.
package main

import (
	"verif/harness/cons"
	"verif/harness/hlib"
	"verif/harness/pipe"
)

func main() {
	run := hlib.StartParallel("C18", 14)
	pipe.RunAll(run, "C18", []string{"C18:"}, 0)
	cons.RunAll(run, "C18", []string{"C18:"}, 0)
	run.Finish(pipe.Rule + " || " + cons.Rule)
}
