// Package hlib: shared plumbing for the correspondence harnesses.
//
// A harness run writes into an output directory:
//
//	ops.txt    one operation per line (the input to the Lean driver `svdrv <model>`)
//	impl.txt   the canonical answer of the real implementation, line by line
//	io.jsonl   one JSON object per violation of the property's own oracle on the implementation
//	stats.json counts measured by this run (evaluations, distinct non-trivial cases, distribution, samples)
package hlib

import (
	"bufio"
	"crypto/sha1"
	"encoding/hex"
	"encoding/json"
	"flag"
	"fmt"
	"os"
	"os/exec"
	"path/filepath"
	"sort"
	"strconv"
	"strings"
	"sync"
	"syscall"
)

// Rand is a splitmix64 PRNG: every random choice of a run derives from one seed.
type Rand struct{ s uint64 }

func NewRand(seed uint64) *Rand { return &Rand{s: seed*0x9E3779B97F4A7C15 + 0x1234567} }

func (r *Rand) U64() uint64 {
	r.s += 0x9E3779B97F4A7C15
	z := r.s
	z = (z ^ (z >> 30)) * 0xBF58476D1CE4E5B9
	z = (z ^ (z >> 27)) * 0x94D049BB133111EB
	return z ^ (z >> 31)
}
func (r *Rand) Intn(n int) int {
	if n <= 0 {
		return 0
	}
	return int(r.U64() % uint64(n))
}
func (r *Rand) Range(lo, hi int) int { return lo + r.Intn(hi-lo+1) }
func (r *Rand) Bool() bool           { return r.U64()&1 == 1 }
func (r *Rand) Chance(num, den int) bool {
	return r.Intn(den) < num
}
func (r *Rand) Pick(xs ...int) int { return xs[r.Intn(len(xs))] }
func (r *Rand) Fork() *Rand        { return NewRand(r.U64()) }

// Run is the state of one harness run.
type Run struct {
	Prop   string
	Seed   uint64
	Tier   string
	N      int
	OutDir string
	Replay string
	// parallel mode: this process is worker Worker of Workers (Workers <= 1: single process)
	Worker, Workers int

	mu       sync.Mutex
	ops      *bufio.Writer
	impl     *bufio.Writer
	io       *bufio.Writer
	files    []*os.File
	evals    int
	distinct map[string]bool
	dist     map[string]int
	samples  []string
	ioFails  int
	perSig   map[string]int
	extra    map[string]interface{}
}

// Start parses the common flags and opens the output files.
func Start(prop string) *Run { return StartParallel(prop, 1) }

// Mine says whether case number i is to be executed by this worker process.
func (r *Run) Mine(i int) bool { return r.Workers <= 1 || i%r.Workers == r.Worker }

// StartParallel is Start for harnesses whose cases must run in separate processes to run concurrently
// (process-global hooks): unless it is itself a worker, the process re-executes itself `workers` times with
// -worker k, waits, merges the workers' output files into the output directory and exits.
func StartParallel(prop string, workers int) *Run {
	r := &Run{Prop: prop, distinct: map[string]bool{}, dist: map[string]int{}, extra: map[string]interface{}{}}
	flag.IntVar(&r.Worker, "worker", -1, "internal: worker index")
	flag.IntVar(&r.Workers, "workers", workers, "number of worker processes")
	seed := flag.Uint64("seed", 1, "PRNG seed")
	flag.StringVar(&r.Tier, "tier", "quick", "quick|thorough")
	flag.IntVar(&r.N, "n", 0, "number of generated cases (0 = tier default)")
	flag.StringVar(&r.OutDir, "out", "", "output directory")
	flag.StringVar(&r.Replay, "replay", "", "file with operation lines to replay instead of generating")
	flag.Parse()
	r.Seed = *seed
	if r.OutDir == "" {
		fmt.Fprintln(os.Stderr, "need -out")
		os.Exit(2)
	}
	_ = os.MkdirAll(r.OutDir, 0o755)
	if r.Workers > 1 && r.Worker < 0 {
		r.runWorkers()
		os.Exit(0)
	}
	open := func(n string) *bufio.Writer {
		f, err := os.Create(filepath.Join(r.OutDir, n))
		if err != nil {
			panic(err)
		}
		r.files = append(r.files, f)
		return bufio.NewWriterSize(f, 1<<20)
	}
	r.ops, r.impl, r.io = open("ops.txt"), open("impl.txt"), open("io.jsonl")
	return r
}

// ReplayLines returns the op lines of the replay file (nil when not replaying).
func (r *Run) ReplayLines() []string {
	if r.Replay == "" {
		return nil
	}
	b, err := os.ReadFile(r.Replay)
	if err != nil {
		panic(err)
	}
	var out []string
	for _, l := range strings.Split(string(b), "\n") {
		l = strings.TrimSpace(l)
		if l != "" && !strings.HasPrefix(l, "#") {
			out = append(out, l)
		}
	}
	return out
}

// Emit records one operation line and the implementation's canonical answer.
func (r *Run) Emit(op, implOut string) {
	r.mu.Lock()
	defer r.mu.Unlock()
	op = strings.ReplaceAll(op, "\n", " ")
	implOut = strings.ReplaceAll(implOut, "\n", " ")
	r.ops.WriteString(op)
	r.ops.WriteByte('\n')
	r.impl.WriteString(implOut)
	r.impl.WriteByte('\n')
	r.evals++
	if len(r.samples) < 6 || (r.evals%997 == 0 && len(r.samples) < 12) {
		r.samples = append(r.samples, op+"  =>  "+implOut)
	}
}

// Case counts a case toward `evaluations` without a model line (pure IO-oracle cases).
func (r *Run) Case(desc string) {
	r.mu.Lock()
	defer r.mu.Unlock()
	r.evals++
	if len(r.samples) < 6 {
		r.samples = append(r.samples, desc)
	}
}

// Nontrivial notes a case that is non-trivial by the harness's rule; key identifies it for distinctness.
func (r *Run) Nontrivial(key string) {
	r.mu.Lock()
	defer r.mu.Unlock()
	h := sha1.Sum([]byte(key))
	r.distinct[hex.EncodeToString(h[:8])] = true
}

// Count increments a named bucket of the input distribution.
func (r *Run) Count(bucket string) {
	r.mu.Lock()
	r.dist[bucket]++
	r.mu.Unlock()
}

func (r *Run) Set(k string, v interface{}) {
	r.mu.Lock()
	r.extra[k] = v
	r.mu.Unlock()
}

// IOFail records a violation of the property's oracle observed on the real implementation.
// sig is a stable signature of the kind of failure (used to match known findings), input the replayable case.
func (r *Run) IOFail(sig, input, detail string) {
	r.mu.Lock()
	defer r.mu.Unlock()
	r.ioFails++
	// keep at most 6 witnesses per signature (and 600 records in all), so that a frequent (e.g. known) finding
	// cannot crowd a new one out of the record
	if r.perSig == nil {
		r.perSig = map[string]int{}
	}
	r.perSig[sig]++
	if r.perSig[sig] > 6 || len(r.perSig) > 100 && r.perSig[sig] > 1 || r.ioFails > 100000 {
		return
	}
	b, _ := json.Marshal(map[string]string{"sig": sig, "input": input, "detail": detail})
	r.io.Write(b)
	r.io.WriteByte('\n')
}

// Finish flushes everything and writes stats.json.
func (r *Run) Finish(rule string) {
	r.mu.Lock()
	defer r.mu.Unlock()
	r.ops.Flush()
	r.impl.Flush()
	r.io.Flush()
	for _, f := range r.files {
		f.Close()
	}
	keys := make([]string, 0, len(r.dist))
	for k := range r.dist {
		keys = append(keys, k)
	}
	sort.Strings(keys)
	dist := map[string]int{}
	for _, k := range keys {
		dist[k] = r.dist[k]
	}
	st := map[string]interface{}{
		"evaluations": r.evals, "distinct_nontrivial": len(r.distinct), "rule": rule,
		"distribution": dist, "samples": r.samples, "io_failures": r.ioFails, "seed": r.Seed, "tier": r.Tier,
	}
	for k, v := range r.extra {
		st[k] = v
	}
	b, _ := json.MarshalIndent(st, "", " ")
	_ = os.WriteFile(filepath.Join(r.OutDir, "stats.json"), b, 0o644)
	dk := make([]string, 0, len(r.distinct))
	for k := range r.distinct {
		dk = append(dk, k)
	}
	_ = os.WriteFile(filepath.Join(r.OutDir, "distinct.txt"), []byte(strings.Join(dk, "\n")), 0o644)
}

func (r *Run) runWorkers() {
	var wg sync.WaitGroup
	dirs := make([]string, r.Workers)
	fails := make([]error, r.Workers)
	for k := 0; k < r.Workers; k++ {
		dirs[k] = filepath.Join(r.OutDir, fmt.Sprintf("w%d", k))
		args := []string{}
		skip := false
		for _, a := range os.Args[1:] {
			if skip {
				skip = false
				continue
			}
			if a == "-out" || a == "--out" {
				skip = true
				continue
			}
			if strings.HasPrefix(a, "-out=") || strings.HasPrefix(a, "--out=") {
				continue
			}
			args = append(args, a)
		}
		args = append([]string{"-out", dirs[k], "-worker", strconv.Itoa(k), "-workers", strconv.Itoa(r.Workers)}, args...)
		wg.Add(1)
		go func(k int, args []string) {
			defer wg.Done()
			cmd := exec.Command(os.Args[0], args...)
			cmd.SysProcAttr = &syscall.SysProcAttr{Pdeathsig: syscall.SIGKILL} // workers never outlive the supervisor
			cmd.Stdout, cmd.Stderr = os.Stdout, os.Stderr
			fails[k] = cmd.Run()
		}(k, args)
	}
	wg.Wait()
	for k, e := range fails {
		if e != nil {
			fmt.Fprintf(os.Stderr, "worker %d failed: %v\n", k, e)
			os.Exit(1)
		}
	}
	cat := func(name string) {
		out, _ := os.Create(filepath.Join(r.OutDir, name))
		defer out.Close()
		for _, d := range dirs {
			b, _ := os.ReadFile(filepath.Join(d, name))
			out.Write(b)
		}
	}
	cat("ops.txt")
	cat("impl.txt")
	cat("io.jsonl")
	merged := map[string]interface{}{}
	dist := map[string]int{}
	distinct := map[string]bool{}
	var samples []interface{}
	evals, iof := 0, 0
	for _, d := range dirs {
		var st map[string]interface{}
		b, _ := os.ReadFile(filepath.Join(d, "stats.json"))
		if json.Unmarshal(b, &st) != nil {
			continue
		}
		for k, v := range st {
			switch k {
			case "evaluations":
				evals += int(v.(float64))
			case "io_failures":
				iof += int(v.(float64))
			case "distinct_nontrivial":
			case "distribution":
				if m, ok := v.(map[string]interface{}); ok {
					for b, n := range m {
						dist[b] += int(n.(float64))
					}
				}
			case "samples":
				l, _ := v.([]interface{}) // nil when the worker ran no case
				if len(l) > 2 {
					l = l[:2]
				}
				samples = append(samples, l...)
			default:
				if f, ok := v.(float64); ok && k != "seed" {
					if prev, ok := merged[k].(float64); ok {
						merged[k] = prev + f
					} else {
						merged[k] = f
					}
				} else {
					merged[k] = v
				}
			}
		}
		db, _ := os.ReadFile(filepath.Join(d, "distinct.txt"))
		for _, h := range strings.Split(string(db), "\n") {
			if h != "" {
				distinct[h] = true
			}
		}
	}
	if len(samples) > 12 {
		samples = samples[:12]
	}
	merged["evaluations"], merged["io_failures"], merged["distinct_nontrivial"] = evals, iof, len(distinct)
	merged["distribution"], merged["samples"], merged["workers"] = dist, samples, r.Workers
	b, _ := json.MarshalIndent(merged, "", " ")
	_ = os.WriteFile(filepath.Join(r.OutDir, "stats.json"), b, 0o644)
	for _, d := range dirs {
		os.RemoveAll(d)
	}
}

// helpers for canonical text

func Ints32(xs []int32) string {
	if len(xs) == 0 {
		return "-"
	}
	s := make([]string, len(xs))
	for i, x := range xs {
		s[i] = strconv.Itoa(int(x))
	}
	return strings.Join(s, ",")
}
func Ints64(xs []int64) string {
	if len(xs) == 0 {
		return "-"
	}
	s := make([]string, len(xs))
	for i, x := range xs {
		s[i] = strconv.FormatInt(x, 10)
	}
	return strings.Join(s, ",")
}
func Hex(b []byte) string {
	if len(b) == 0 {
		return "-"
	}
	return hex.EncodeToString(b)
}
func Atoi(s string) int {
	n, _ := strconv.Atoi(s)
	return n
}
func ParseInts32(s string) []int32 {
	if s == "-" || s == "" {
		return nil
	}
	var out []int32
	for _, t := range strings.Split(s, ",") {
		n, _ := strconv.ParseInt(t, 10, 64)
		out = append(out, int32(n))
	}
	return out
}

// Safe runs f and converts a panic of the code under test into the answer "panic" plus an oracle failure
// (no property in the list tolerates a panic).
func (r *Run) Safe(input string, f func() string) (out string) {
	defer func() {
		if p := recover(); p != nil {
			out = "panic"
			r.IOFail("panic", input, fmt.Sprint(p))
		}
	}()
	return f()
}
