// Package hlib: shared plumbing for the correspondence harnesses.
//
// A harness run writes into an output directory:
//   ops.txt    one operation per line (the input to the Lean driver `svdrv <model>`)
//   impl.txt   the canonical answer of the real implementation, line by line
//   io.jsonl   one JSON object per violation of the property's own oracle on the implementation
//   stats.json counts measured by this run (evaluations, distinct non-trivial cases, distribution, samples)
package hlib

import (
	"bufio"
	"crypto/sha1"
	"encoding/hex"
	"encoding/json"
	"flag"
	"fmt"
	"os"
	"path/filepath"
	"sort"
	"strconv"
	"strings"
	"sync"
)

// Rand is a splitmix64 PRNG: every random choice of a run derives from one seed.
type Rand struct{ s uint64 }

func NewRand(seed uint64) *Rand { return &Rand{s: seed*0x9E3779B97F4A7C15 + 0x1234567} }

func (r *Rand) U64() uint64 {
	r.s += 0x9E3779B97F4A7C15
	z := r.s
	z = (z ^ (z >> 30)) * 0xBF58476D1CE4E5B9
	z = (z ^ (z >> 27)) * 0x94D049BB133111EB
	return z ^ (z >> 31)
}
func (r *Rand) Intn(n int) int {
	if n <= 0 {
		return 0
	}
	return int(r.U64() % uint64(n))
}
func (r *Rand) Range(lo, hi int) int { return lo + r.Intn(hi-lo+1) }
func (r *Rand) Bool() bool            { return r.U64()&1 == 1 }
func (r *Rand) Chance(num, den int) bool {
	return r.Intn(den) < num
}
func (r *Rand) Pick(xs ...int) int { return xs[r.Intn(len(xs))] }
func (r *Rand) Fork() *Rand         { return NewRand(r.U64()) }

// Run is the state of one harness run.
type Run struct {
	Prop   string
	Seed   uint64
	Tier   string
	N      int
	OutDir string
	Replay string

	mu       sync.Mutex
	ops      *bufio.Writer
	impl     *bufio.Writer
	io       *bufio.Writer
	files    []*os.File
	evals    int
	distinct map[string]bool
	dist     map[string]int
	samples  []string
	ioFails  int
	extra    map[string]interface{}
}

// Start parses the common flags and opens the output files.
func Start(prop string) *Run {
	r := &Run{Prop: prop, distinct: map[string]bool{}, dist: map[string]int{}, extra: map[string]interface{}{}}
	seed := flag.Uint64("seed", 1, "PRNG seed")
	flag.StringVar(&r.Tier, "tier", "quick", "quick|thorough")
	flag.IntVar(&r.N, "n", 0, "number of generated cases (0 = tier default)")
	flag.StringVar(&r.OutDir, "out", "", "output directory")
	flag.StringVar(&r.Replay, "replay", "", "file with operation lines to replay instead of generating")
	flag.Parse()
	r.Seed = *seed
	if r.OutDir == "" {
		fmt.Fprintln(os.Stderr, "need -out")
		os.Exit(2)
	}
	_ = os.MkdirAll(r.OutDir, 0o755)
	open := func(n string) *bufio.Writer {
		f, err := os.Create(filepath.Join(r.OutDir, n))
		if err != nil {
			panic(err)
		}
		r.files = append(r.files, f)
		return bufio.NewWriterSize(f, 1<<20)
	}
	r.ops, r.impl, r.io = open("ops.txt"), open("impl.txt"), open("io.jsonl")
	return r
}

// ReplayLines returns the op lines of the replay file (nil when not replaying).
func (r *Run) ReplayLines() []string {
	if r.Replay == "" {
		return nil
	}
	b, err := os.ReadFile(r.Replay)
	if err != nil {
		panic(err)
	}
	var out []string
	for _, l := range strings.Split(string(b), "\n") {
		l = strings.TrimSpace(l)
		if l != "" && !strings.HasPrefix(l, "#") {
			out = append(out, l)
		}
	}
	return out
}

// Emit records one operation line and the implementation's canonical answer.
func (r *Run) Emit(op, implOut string) {
	r.mu.Lock()
	defer r.mu.Unlock()
	op = strings.ReplaceAll(op, "\n", " ")
	implOut = strings.ReplaceAll(implOut, "\n", " ")
	r.ops.WriteString(op)
	r.ops.WriteByte('\n')
	r.impl.WriteString(implOut)
	r.impl.WriteByte('\n')
	r.evals++
	if len(r.samples) < 6 || (r.evals%997 == 0 && len(r.samples) < 12) {
		r.samples = append(r.samples, op+"  =>  "+implOut)
	}
}

// Case counts a case toward `evaluations` without a model line (pure IO-oracle cases).
func (r *Run) Case(desc string) {
	r.mu.Lock()
	defer r.mu.Unlock()
	r.evals++
	if len(r.samples) < 6 {
		r.samples = append(r.samples, desc)
	}
}

// Nontrivial notes a case that is non-trivial by the harness's rule; key identifies it for distinctness.
func (r *Run) Nontrivial(key string) {
	r.mu.Lock()
	defer r.mu.Unlock()
	h := sha1.Sum([]byte(key))
	r.distinct[hex.EncodeToString(h[:8])] = true
}

// Count increments a named bucket of the input distribution.
func (r *Run) Count(bucket string) {
	r.mu.Lock()
	r.dist[bucket]++
	r.mu.Unlock()
}

func (r *Run) Set(k string, v interface{}) {
	r.mu.Lock()
	r.extra[k] = v
	r.mu.Unlock()
}

// IOFail records a violation of the property's oracle observed on the real implementation.
// sig is a stable signature of the kind of failure (used to match known findings), input the replayable case.
func (r *Run) IOFail(sig, input, detail string) {
	r.mu.Lock()
	defer r.mu.Unlock()
	r.ioFails++
	if r.ioFails > 200 {
		return
	}
	b, _ := json.Marshal(map[string]string{"sig": sig, "input": input, "detail": detail})
	r.io.Write(b)
	r.io.WriteByte('\n')
}

// Finish flushes everything and writes stats.json.
func (r *Run) Finish(rule string) {
	r.mu.Lock()
	defer r.mu.Unlock()
	r.ops.Flush()
	r.impl.Flush()
	r.io.Flush()
	for _, f := range r.files {
		f.Close()
	}
	keys := make([]string, 0, len(r.dist))
	for k := range r.dist {
		keys = append(keys, k)
	}
	sort.Strings(keys)
	dist := map[string]int{}
	for _, k := range keys {
		dist[k] = r.dist[k]
	}
	st := map[string]interface{}{
		"evaluations": r.evals, "distinct_nontrivial": len(r.distinct), "rule": rule,
		"distribution": dist, "samples": r.samples, "io_failures": r.ioFails, "seed": r.Seed, "tier": r.Tier,
	}
	for k, v := range r.extra {
		st[k] = v
	}
	b, _ := json.MarshalIndent(st, "", " ")
	_ = os.WriteFile(filepath.Join(r.OutDir, "stats.json"), b, 0o644)
}

// helpers for canonical text

func Ints32(xs []int32) string {
	if len(xs) == 0 {
		return "-"
	}
	s := make([]string, len(xs))
	for i, x := range xs {
		s[i] = strconv.Itoa(int(x))
	}
	return strings.Join(s, ",")
}
func Ints64(xs []int64) string {
	if len(xs) == 0 {
		return "-"
	}
	s := make([]string, len(xs))
	for i, x := range xs {
		s[i] = strconv.FormatInt(x, 10)
	}
	return strings.Join(s, ",")
}
func Hex(b []byte) string {
	if len(b) == 0 {
		return "-"
	}
	return hex.EncodeToString(b)
}
func Atoi(s string) int {
	n, _ := strconv.Atoi(s)
	return n
}
func ParseInts32(s string) []int32 {
	if s == "-" || s == "" {
		return nil
	}
	var out []int32
	for _, t := range strings.Split(s, ",") {
		n, _ := strconv.ParseInt(t, 10, 64)
		out = append(out, int32(n))
	}
	return out
}

// Safe runs f and converts a panic of the code under test into the answer "panic" plus an oracle failure
// (no property in the list tolerates a panic).
func (r *Run) Safe(input string, f func() string) (out string) {
	defer func() {
		if p := recover(); p != nil {
			out = "panic"
			r.IOFail("panic", input, fmt.Sprint(p))
		}
	}()
	return f()
}
