package pipe

// Replay of a producer scenario through the composed system model Model.Pipeline (Lean): the hook events of ONE
// partition are translated into the model's choices (`sys …` lines for the C02 model driver).  Every choice must
// be enabled in the model and move the token the real component moved; at the end the model's log, successes
// and errors must equal the simulated partition's log and the outcomes the producer reported.

import (
	"fmt"
	"sort"
	"strconv"
	"strings"

	"github.com/Shopify/sarama"
)

// SysScope says whether a scenario is inside the scope of the system model, and if not, why.
func SysScope(res *Result) (part int32, reason string) {
	sc := res.Sc
	if sc.Idempotent {
		return -1, "idempotent"
	}
	if sc.RetryMax < 1 {
		return -1, "retrymax-0"
	}
	if sc.Acks == sarama.NoResponse {
		return -1, "acks-none"
	}
	used := map[int32]bool{}
	for _, m := range sc.Msgs {
		used[m.Partition] = true
	}
	if len(used) != 1 {
		return -1, "several-partitions"
	}
	for p := range used {
		part = p
	}
	return part, ""
}

type sysKey struct{ id, retries int }

type sysPend struct { // a set handed to the bridge of a worker
	w       int
	tag     int
	idx     int // index of the bp.handover event (the hook fires AFTER the send to the bridge: it can be logged late)
	sentIdx int // index of the bp.sent.end event of the set (-1: none)
	reqNo   int // 1<<30: no matching request seen by the simulated cluster
	verdict string
	app     bool
	broker  int
	ids     []int
	handed  bool // the handover choice has been emitted
	skipped bool // handed over before this partition knew the worker
	lazy    bool // nothing of the partition inside, fails with a connection error: emitted as connEmpty at the answer
	hidden  bool // holds nothing of the partition and the answer is not a connection error: no effect on the partition
	respIdx int  // index of the bp.resp.end event of the answer (-1: none)
	done    bool // the broker choice has been emitted
}

func kindOfFlags(fl int) string {
	if fl&1 != 0 {
		return "s"
	}
	if fl&2 != 0 {
		return "f"
	}
	return "d"
}

// sysPlan is the static part of the translation.  A MODEL worker is one stay of the partition at a real
// brokerProducer (from the leader lookup that selects it to the chaser that releases it): a real worker that the
// partition selects again - a worker shared with other partitions stays alive when this partition releases it -
// is represented by a fresh model worker for every stay (the broker cannot tell which worker object a set came from;
// the worker handles the stays one after the other because its input channel is FIFO).  The model run is therefore
// a handover chain; that it is a run of the model with the same log and outcomes is what the replay checks.
type sysPlan struct {
	lksAt   map[int][]string // index of a pp.recv event -> results of the leader lookups of that step
	route   map[int]int      // index of a bp.recv event of this partition -> model worker that takes the token (-1: none)
	tagOf   map[int]int      // model worker -> tag of the real worker
	tags    map[int]bool     // tags of the real workers the partition uses
	workers int              // number of successful lookups
	selAt   map[int]int      // model worker -> index of the wg.add.syn event of the real lookup that selected it
}

func sysMakePlan(res *Result, P int) (*sysPlan, string) {
	ev := res.Events
	pl := &sysPlan{lksAt: map[int][]string{}, route: map[int]int{}, tagOf: map[int]int{}, tags: map[int]bool{}, selAt: map[int]int{}}
	// which worker received a forwarded data token
	recvTag := map[sysKey]int{}
	for _, e := range ev {
		if e.Kind == "bp.recv" && e.P == P && kindOfFlags(e.A%8) == "d" {
			recvTag[sysKey{e.ID, e.A / 8}] = e.B
		}
	}
	cnt := map[int]int{}
	dataTo := map[sysKey]int{} // forwarded (id, retries) -> model worker
	finQ := map[int][]int{}    // tag -> model workers whose chaser is on its way to the real worker, oldest first
	synQ := map[int][]int{}    // tag -> model workers in the order of their lookups
	cur, curRecv, lastSyn := -1, -1, -1
	for i, e := range ev {
		switch e.Kind {
		case "wg.add.syn":
			if e.A == P {
				lastSyn = i
			}
		case "pp.recv":
			if e.P == P {
				curRecv = i
			}
		case "pp.abandon":
			if e.P == P {
				// the partition producer drops its worker without a chaser: not a behaviour of the system model
				return nil, "worker-abandoned"
			}
		case "wg.add.fin":
			if e.A == P {
				if cur >= 0 {
					finQ[pl.tagOf[cur]] = append(finQ[pl.tagOf[cur]], cur)
				}
				cur = -1
			}
		case "pp.fwd":
			if e.P != P {
				continue
			}
			T, ok := recvTag[sysKey{e.ID, e.A}]
			if !ok {
				return nil, "forward-not-received"
			}
			if cur < 0 {
				b := T / 4096
				if cnt[b] >= 64 {
					return nil, "too-many-workers"
				}
				cur = b*64 + cnt[b]
				cnt[b]++
				pl.tagOf[cur], pl.tags[T], pl.selAt[cur] = T, true, lastSyn
				synQ[T] = append(synQ[T], cur)
				pl.workers++
				pl.lksAt[curRecv] = append(pl.lksAt[curRecv], strconv.Itoa(cur))
			} else if pl.tagOf[cur] != T {
				return nil, "worker-binding-ambiguous"
			}
			dataTo[sysKey{e.ID, e.A}] = cur
		case "pp.fail":
			if e.P == P {
				pl.lksAt[curRecv] = append(pl.lksAt[curRecv], "n")
			}
		}
	}
	// route what the real workers take from their input channels (FIFO: chasers and syns arrive in the order sent)
	for i, e := range ev {
		if e.Kind != "bp.recv" || e.P != P {
			continue
		}
		T, w := e.B, -1
		switch kindOfFlags(e.A % 8) {
		case "d":
			if x, ok := dataTo[sysKey{e.ID, e.A / 8}]; ok {
				w = x
			}
		case "f":
			if q := finQ[T]; len(q) > 0 {
				w, finQ[T] = q[0], q[1:]
			}
		case "s":
			if q := synQ[T]; len(q) > 0 {
				w, synQ[T] = q[0], q[1:]
			}
		}
		pl.route[i] = w
	}
	return pl, ""
}

func sysClass(code int) string {
	switch code {
	case 0, 46:
		return "ok"
	case 2, 3, 5, 6, 7, 19, 20:
		return "retr"
	}
	return "fatal"
}

// SysLines is SysLinesX without the count of early handovers.
func SysLines(res *Result, part int32) (ops []string, workers int, note string) {
	ops, workers, _, note = SysLinesX(res, part)
	return
}

// SysLinesX translates the scenario's hook events of partition `part` into choices of the system model.
// workers = number of broker workers the partition producer selected; early = number of handover choices emitted
// before their (late) hook event; note != "": the run is not translated (reason).
func SysLinesX(res *Result, part int32) (ops []string, workers int, early int, note string) {
	P := int(part)
	ev := res.Events
	pl, note := sysMakePlan(res, P)
	if note != "" {
		return nil, 0, 0, note
	}
	emit := func(f string, a ...interface{}) { ops = append(ops, "sys "+fmt.Sprintf(f, a...)) }
	emit("begin %d", res.Sc.RetryMax)

	recv0, erred := map[int]bool{}, map[int]bool{}
	for _, e := range ev {
		if e.Kind == "pp.recv" && e.A == 0 {
			recv0[e.ID] = true
		}
		if e.Kind == "ret.err" {
			erred[e.ID] = true
		}
	}
	isInput := func(e Event, T int) bool {
		switch e.Kind {
		case "bp.recv":
			return e.B == T
		case "bp.handover", "bp.resp", "bp.resp.end":
			return e.A == T
		}
		return false
	}
	nextInput := func(T, i int) int {
		for j := i + 1; j < len(ev); j++ {
			if isInput(ev[j], T) {
				return j
			}
		}
		return len(ev)
	}
	submitted := map[int]bool{}
	synPushed, synTaken := map[int]int{}, map[int]int{}
	deferred := map[int][]string{}
	waitTok := map[int]int{}
	var pends []*sysPend
	pendAt := map[int]*sysPend{} // index of a bp.handover event -> its set
	respAt := map[int]*sysPend{} // index of a bp.resp.end event -> the set it answers
	undetermined, spurs := "", 0
	active, owner, finDone := map[int]int{}, map[int]int{}, map[int]bool{}
	_, why := SysScope(res)
	multi := why == "several-partitions" // with one partition an empty set is the worker's own `stale` defect: the model has it
	ldr := 0
	issue := func(p *sysPend) {
		if p.done {
			return
		}
		p.done = true
		if p.app && ldr != p.broker {
			ldr = p.broker
			emit("leader %d", ldr)
		}
		a := 0
		if p.app {
			a = 1
		}
		emit("broker %d %s %d", p.w, p.verdict, a)
	}
	// flushUpTo issues the broker steps of all sets the simulated cluster processed up to request `reqNo`, in
	// request order (= the order of the appends).  The bp.handover hook of a worker fires after the send to its
	// bridge, so a set can have been sent, processed and even overtaken by another worker's answer before its
	// handover is in the event log: its handover choice is then emitted here, early - which is the real order
	// provided the worker's run loop has logged nothing between position `at` and that hook; otherwise the order
	// is not determined by the recorded facts and the scenario is skipped.
	flushUpTo := func(reqNo int, at int) {
		var l []*sysPend
		for _, p := range pends {
			if !p.done && p.reqNo <= reqNo && p.reqNo < 1<<30 {
				l = append(l, p)
			}
		}
		sort.Slice(l, func(i, j int) bool { return l[i].reqNo < l[j].reqNo })
		for _, p := range l {
			if !p.handed {
				if p.idx <= at || p.sentIdx < 0 || p.sentIdx > at {
					undetermined = "handover-order-undetermined"
					return
				}
				for j := at; j < p.idx; j++ {
					if isInput(ev[j], p.tag) || ((ev[j].Kind == "bp.add" || ev[j].Kind == "bp.bounce") && ev[j].B == p.tag) {
						undetermined = "handover-order-undetermined"
						return
					}
				}
				emit("handover %d", p.w)
				p.handed = true
				early++
			}
			issue(p)
		}
	}
	curPend := map[int]*sysPend{} // worker tag -> set at its bridge
	// all sets handed to a bridge, with what the simulated cluster did with them and what the worker did after
	// the answer (static: independent of the position at which the handover hook was logged)
	{
		sentGroups, sentEnd, handovers := map[int][][]int{}, map[int][]int{}, map[int]int{}
		open := map[int][]int{}
		for i, e := range ev {
			switch e.Kind {
			case "bp.sent":
				if e.P == P {
					open[e.A] = append(open[e.A], e.ID)
				}
			case "bp.sent.end":
				sentGroups[e.A] = append(sentGroups[e.A], open[e.A])
				sentEnd[e.A] = append(sentEnd[e.A], i)
				delete(open, e.A)
			}
		}
		for i, e := range ev {
			if e.Kind != "bp.handover" {
				continue
			}
			T := e.A
			if !pl.tags[T] {
				continue
			}
			w := -1
			// the set: the k-th bp.sent group of this worker belongs to its k-th handover (the bridge goroutine may
			// report the set before or after the run loop reports the handover)
			var ids []int
			pd := &sysPend{w: w, tag: T, idx: i, sentIdx: -1, respIdx: -1, reqNo: 1 << 30, broker: T / 4096, verdict: "conn"}
			if k := handovers[T]; k < len(sentGroups[T]) {
				ids = sentGroups[T][k]
				pd.sentIdx = sentEnd[T][k]
			}
			handovers[T]++
			// the stay of the partition that the messages of the set belong to
			for _, id := range ids {
				o := -1
				for j := i - 1; j >= 0; j-- {
					if ev[j].Kind == "bp.recv" && ev[j].P == P && ev[j].B == T && ev[j].ID == id && kindOfFlags(ev[j].A%8) == "d" {
						o = pl.route[j]
						break
					}
				}
				if o < 0 || (pd.w >= 0 && pd.w != o) {
					return nil, 0, 0, "set-mixes-stays"
				}
				pd.w = o
			}
			inSet := map[int]bool{}
			for _, x := range ids {
				inSet[x] = true
			}
			pd.ids = ids
			// the verdict: what the worker does after the answer has arrived
			for j := i + 1; j < len(ev); j++ {
				if ev[j].Kind == "bp.resp.end" && ev[j].A == T {
					pd.respIdx = j
					pd.verdict = ""
					succ := false
					for x := j + 1; x < nextInput(T, j); x++ {
						switch {
						case ev[x].Kind == "bp.closing" && ev[x].A == T:
							pd.verdict = "conn"
						case ev[x].Kind == "bp.verdict" && ev[x].B == T && ev[x].P == P && pd.verdict == "":
							pd.verdict = sysClass(ev[x].A)
						case ev[x].Kind == "ret.succ" && ev[x].P == P && inSet[ev[x].ID]:
							succ = true
						}
					}
					if pd.verdict == "" {
						switch {
						case len(ids) == 0:
							pd.verdict = "retr"
						case succ:
							pd.verdict = "ok"
						default:
							pd.verdict = "fatal"
						}
					}
					break
				}
			}
			if len(ids) == 0 {
				pd.app = false
				if pd.verdict == "ok" {
					pd.verdict = "retr"
				}
			}
			// a set without a message of this partition whose answer is not a connection error does nothing to the
			// partition (a held message of the partition that is added or kept by the re-check is dealt with where it
			// arrives): the partition's view of the worker does not contain it.  Never answered: the same.
			closedBefore := false
			for j := 0; j < i; j++ {
				if ev[j].Kind == "bp.closing" && ev[j].A == T {
					closedBefore = true // a closing worker that is closed again: nothing changes
				}
			}
			pd.hidden = len(ids) == 0 && (pd.verdict != "conn" || pd.respIdx < 0 || closedBefore)
			pends = append(pends, pd)
			pendAt[i] = pd
			if pd.respIdx >= 0 {
				respAt[pd.respIdx] = pd
			}
		}
		if r := sysMatchBatches(res, part, pends); r != "" {
			return nil, 0, 0, r
		}
	}
	// The model appends the bounces of one worker step to the retries queue atomically, in the order of the
	// steps; the real order of entry into p.retries is the order of the channel sends, which the hooks of two
	// concurrently bouncing workers do not determine - but the dispatcher reveals it (d.pass of the retried
	// tokens).  If the two orders differ the run is not translated (another order of the same worker steps, or
	// an interleaving of two workers' bounces that the model's atomic steps cannot express).
	if r := sysRetryOrder(ev, P); r != "" {
		return nil, 0, 0, r
	}
	for i, e := range ev {
		switch e.Kind {
		case "d.pass":
			if e.P != P {
				continue
			}
			k := kindOfFlags(e.B)
			if e.A == 0 && k == "d" {
				if !recv0[e.ID] && erred[e.ID] {
					continue // returned with an error by the dispatcher / topic producer: never reaches the partition producer
				}
				if !submitted[e.ID] {
					submitted[e.ID] = true
					emit("submit %d", e.ID)
				}
			} else {
				emit("retryOut %d %d %s", e.ID, e.A, k)
			}
			emit("dispatch %d %d %s", e.ID, e.A, k)
		case "pp.recv":
			if e.P != P {
				continue
			}
			lks := "-"
			if l := pl.lksAt[i]; len(l) > 0 {
				lks = strings.Join(l, ",")
			}
			emit("ppRecv %d %d %s %s", e.ID, e.A, kindOfFlags(e.B), lks)
			for _, x := range pl.lksAt[i] {
				if w, err := strconv.Atoi(x); err == nil {
					synPushed[w]++
					for len(deferred[w]) > 0 && synTaken[w] < synPushed[w] {
						ops = append(ops, deferred[w][0])
						deferred[w] = deferred[w][1:]
						synTaken[w]++
						active[pl.tagOf[w]] = w
					}
				}
			}
		case "bp.recv":
			if e.P != P {
				continue
			}
			w, ok := pl.route[i]
			if !ok || w < 0 {
				continue
			}
			T := e.B
			k := kindOfFlags(e.A % 8)
			if k != "s" || (synTaken[w] < synPushed[w] && len(deferred[w]) == 0) {
				active[T] = w // (a syn taken before the model's lazy lookup is not yet a step of the model)
			}
			if k == "d" {
				owner[e.ID] = w
			}
			if k == "f" {
				finDone[w] = true
			}
			if k == "s" {
				line := fmt.Sprintf("sys bpRecv %d 0 0 s 0", w)
				if synTaken[w] < synPushed[w] && len(deferred[w]) == 0 {
					ops = append(ops, line)
					synTaken[w]++
				} else {
					deferred[w] = append(deferred[w], line)
				}
				continue
			}
			// overflow: the message is not added (or bounced) before the worker's next VISIBLE input.  Inputs that
			// the partition does not see (the answer of a hidden set, the hand-over of a hidden set - which moves
			// the held message into the buffer -, the per-message events of an answer) are looked through: a message
			// that is added behind them is, for the partition, added on arrival.
			ov := 0
			if k == "d" {
				vis := len(ev)
				for j := i + 1; j < len(ev); j++ {
					if !isInput(ev[j], T) {
						continue
					}
					if ev[j].Kind == "bp.resp" {
						continue
					}
					if ev[j].Kind == "bp.handover" && pendAt[j] != nil && pendAt[j].hidden {
						continue
					}
					if ev[j].Kind == "bp.resp.end" && respAt[j] != nil && respAt[j].hidden {
						continue
					}
					vis = j
					break
				}
				if vis < len(ev) {
					ov = 1
				}
				for j := i + 1; j < vis; j++ {
					if (ev[j].Kind == "bp.add" || ev[j].Kind == "bp.bounce") && ev[j].ID == e.ID && ev[j].B == T {
						ov = 0
					}
				}
			}
			if ov == 1 {
				waitTok[T] = e.ID
			}
			emit("bpRecv %d %d %d %s %d", w, e.ID, e.A/8, k, ov)
		case "bp.add":
			if waitTok[e.B] == e.ID {
				delete(waitTok, e.B)
			}
		case "retry", "ret.err":
			for T, x := range waitTok {
				if x == e.ID {
					delete(waitTok, T)
				}
			}
		case "bp.handover":
			pd := pendAt[i]
			if pd == nil {
				continue
			}
			curPend[e.A] = pd
			if pd.hidden {
				if _, held := waitTok[e.A]; !held {
					continue
				}
				// the hand-over moves the partition's held message into the buffer: the partition sees it (an empty
				// set goes to the bridge; the model allows it because a message is held)
				pd.hidden = false
			}
			if _, held := waitTok[e.A]; multi && len(pd.ids) == 0 && !held && !pd.handed {
				// a request that carries nothing of this partition and will fail with a connection error: the
				// partition sees nothing until the error closes the worker (`connEmpty` at the answer)
				pd.lazy = true
				continue
			}
			if pd.w < 0 {
				if wt, held := waitTok[e.A]; held {
					pd.w = owner[wt]
				} else if a, ok := active[e.A]; ok {
					pd.w = a // nothing of the partition in the set: the stay the worker is serving
				} else {
					pd.hidden = true
					continue
				}
			}
			if !pd.handed {
				emit("handover %d", pd.w)
				pd.handed = true
			}
		case "bp.resp.end":
			T := e.A
			pd := curPend[T]
			delete(curPend, T)
			if pd == nil || pd.hidden {
				continue
			}
			if pd.verdict == "conn" {
				// the real worker closes: every stay of the partition at it is affected, the model closes one worker
				live, unsynced := 0, false
				for x, tg := range pl.tagOf {
					if tg == T && synPushed[x] > 0 {
						if !finDone[x] {
							live++
						}
						if synTaken[x] < synPushed[x] {
							unsynced = true
						}
					}
					if tg == T && synPushed[x] == 0 && pl.selAt[x] >= 0 && pl.selAt[x] < i {
						unsynced = true // the partition producer has selected the worker, the model's lazy lookup is still to come
					}
					if tg == T && len(deferred[x]) > 0 {
						unsynced = true // the real worker has the partition's syn, the model's lookup is still to come
					}
				}
				if live > 1 {
					return nil, 0, 0, "projection-close-while-draining"
				}
				if unsynced {
					return nil, 0, 0, "projection-close-before-sync"
				}
			}
			if pd.lazy && !pd.handed {
				w, ok := active[T]
				if !ok {
					// the worker is closed before the partition's model has it (a prefetched worker): no step for that
					return nil, 0, 0, "projection-close-before-sync"
				}
				still := 0
				if wt, has := waitTok[T]; has {
					still = 1
					for j := i + 1; j < nextInput(T, i); j++ {
						if ev[j].Kind == "bp.add" && ev[j].ID == wt && ev[j].B == T {
							still = 0
						}
					}
				}
				pd.handed, pd.done = true, true
				emit("connEmpty %d %d", w, still)
				continue
			}
			if pd.reqNo < 1<<30 {
				flushUpTo(pd.reqNo, i)
			}
			issue(pd)
			still := 0
			if wt, has := waitTok[T]; has {
				still = 1
				for j := i + 1; j < nextInput(T, i); j++ {
					if ev[j].Kind == "bp.add" && ev[j].ID == wt && ev[j].B == T {
						still = 0
					}
				}
			}
			emit("deliver %d %d", pd.w, still)
		}
	}
	flushUpTo(1<<30-1, len(ev))
	if undetermined != "" {
		return nil, 0, 0, undetermined
	}
	var logIDs, succ, errs []string
	for _, r := range res.Logs[part] {
		logIDs = append(logIDs, strconv.Itoa(idOfRecord(r)))
	}
	for _, o := range res.Outcomes {
		if !submitted[o.ID] {
			continue
		}
		if o.Ok {
			succ = append(succ, fmt.Sprintf("%d:%d", o.ID, o.Offset))
		} else {
			errs = append(errs, strconv.Itoa(o.ID))
		}
	}
	j := func(l []string) string {
		if len(l) == 0 {
			return "-"
		}
		return strings.Join(l, ",")
	}
	emit("end %s %s %s", j(logIDs), j(succ), j(errs))
	if spurs > 0 {
		ops = append(ops, fmt.Sprintf("#spurs %d", spurs))
	}
	return ops, pl.workers, early, ""
}

type sysRK struct {
	id, r int
	k     string
}

// sysRetryOrder compares the order in which the model would fill the retries queue (bounces grouped by the worker
// step that causes them, steps in the order of their hook events) with the order in which the dispatcher took the
// retried tokens; "" when they agree (as far as the dispatcher got).
func sysRetryOrder(ev []Event, P int) string {
	holder, finHolder, lastInput := map[int]int{}, map[int]int{}, map[int]int{}
	owned := map[int][]sysRK{}
	tagOf := map[sysRK]int{}
	var disp []sysRK
	for i, e := range ev {
		switch e.Kind {
		case "bp.recv":
			if e.P == P {
				switch kindOfFlags(e.A % 8) {
				case "d":
					holder[e.ID] = e.B
				case "f":
					finHolder[e.A/8] = e.B
				}
			}
			lastInput[e.B] = i
		case "bp.handover", "bp.resp", "bp.resp.end":
			lastInput[e.A] = i
		case "retry":
			if e.P != P {
				continue
			}
			k := kindOfFlags(e.B)
			T, ok := 0, false
			if k == "f" {
				T, ok = finHolder[e.A-1]
			} else {
				T, ok = holder[e.ID]
			}
			if !ok {
				return "retry-without-holder"
			}
			owned[lastInput[T]] = append(owned[lastInput[T]], sysRK{e.ID, e.A, k})
			tagOf[sysRK{e.ID, e.A, k}] = T
		case "d.pass":
			if e.P == P {
				if k := kindOfFlags(e.B); e.A >= 1 || k == "f" {
					disp = append(disp, sysRK{e.ID, e.A, k})
				}
			}
		}
	}
	var model []sysRK
	for i := range ev {
		model = append(model, owned[i]...)
	}
	agree := true
	for n, d := range disp {
		if n >= len(model) || model[n] != d {
			agree = false
			break
		}
	}
	if agree {
		return ""
	}
	// the orders differ: a race between the sends of different workers is possible only if every single worker's
	// bounces are taken in the order it sent them (one goroutine: hook order = send order); anything else is
	// left to the model, which rejects it
	perModel, perDisp := map[int][]sysRK{}, map[int][]sysRK{}
	for _, m := range model {
		perModel[tagOf[m]] = append(perModel[tagOf[m]], m)
	}
	for _, d := range disp {
		T, ok := tagOf[d]
		if !ok {
			return ""
		}
		perDisp[T] = append(perDisp[T], d)
	}
	for T, l := range perDisp {
		for n, d := range l {
			if n >= len(perModel[T]) || perModel[T][n] != d {
				return ""
			}
		}
	}
	return "retry-order-race"
}

// sysMatchBatches decides which produce request of the simulated cluster carried which set.  Sets with the same
// records sent to the same broker (a retried set that finds the same leader) are told apart by their order; a set
// that ended in a connection error may or may not have reached the cluster, so the assignment is made only when
// the counts leave no choice - otherwise the scenario is not translated.
func sysMatchBatches(res *Result, part int32, pends []*sysPend) string {
	key := func(broker int, ids []int) string { return fmt.Sprint(broker, ids) }
	batches := map[string][]int{} // key -> indices into res.Batches, by request number
	var order []int
	for bi, b := range res.Batches {
		if b.Partition == part {
			order = append(order, bi)
		}
	}
	sort.SliceStable(order, func(i, j int) bool { return res.Batches[order[i]].ReqNo < res.Batches[order[j]].ReqNo })
	for _, bi := range order {
		b := res.Batches[bi]
		var ids []int
		for _, r := range b.Records {
			ids = append(ids, idOfRecord(r))
		}
		k := key(int(b.Broker), ids)
		batches[k] = append(batches[k], bi)
	}
	groups := map[string][]*sysPend{}
	var keys []string
	for _, p := range pends {
		if len(p.ids) == 0 {
			continue
		}
		k := key(p.broker, p.ids)
		if _, ok := groups[k]; !ok {
			keys = append(keys, k)
		}
		groups[k] = append(groups[k], p)
	}
	for _, k := range keys {
		g, bs := groups[k], batches[k]
		answered := 0
		for _, p := range g {
			if p.verdict != "conn" {
				answered++
			}
		}
		all := len(bs) == len(g)
		if !all && len(bs) != answered {
			return "batch-matching-ambiguous"
		}
		j := 0
		for _, p := range g {
			if all || p.verdict != "conn" {
				b := res.Batches[bs[j]]
				j++
				p.reqNo, p.app = b.ReqNo, b.Appended
				if p.verdict == "ok" && !b.Appended {
					return "batch-matching-ambiguous"
				}
			}
		}
	}
	return ""
}
