package pipe

// Replay of a producer scenario through the composed system model Model.Pipeline (Lean): the hook events of ONE
// partition are translated into the model's choices (`sys …` lines for the C02 model driver).  Every choice must
// be enabled in the model and move the token the real component moved; at the end the model's log, successes
// and errors must equal the simulated partition's log and the outcomes the producer reported.

import (
	"fmt"
	"sort"
	"strconv"
	"strings"

	"github.com/Shopify/sarama"
)

// SysScope says whether a scenario is inside the scope of the system model, and if not, why.
func SysScope(res *Result) (part int32, reason string) {
	sc := res.Sc
	if sc.Idempotent {
		return -1, "idempotent"
	}
	if sc.RetryMax < 1 {
		return -1, "retrymax-0"
	}
	if sc.Acks == sarama.NoResponse {
		return -1, "acks-none"
	}
	used := map[int32]bool{}
	for _, m := range sc.Msgs {
		used[m.Partition] = true
	}
	if len(used) != 1 {
		return -1, "several-partitions"
	}
	for p := range used {
		part = p
	}
	return part, ""
}

type sysKey struct{ id, retries int }

type sysPend struct { // a set at the bridge whose broker step has not been issued yet
	w       int
	reqNo   int // 1<<30: no matching request seen by the simulated cluster
	verdict string
	app     bool
	broker  int
	done    bool
}

func kindOfFlags(fl int) string {
	if fl&1 != 0 {
		return "s"
	}
	if fl&2 != 0 {
		return "f"
	}
	return "d"
}

// sysPlan is the static part of the translation: which model worker every leader lookup selects and which
// hook-event worker tag is which model worker.
type sysPlan struct {
	lksAt   map[int][]string // index of a pp.recv event -> results of the leader lookups of that step
	fwdTo   map[sysKey]int   // (id, retries) of a forwarded data token -> model worker
	tagW    map[int]int      // worker tag (broker*4096+serial) -> model worker
	workers int
}

func sysMakePlan(res *Result, P int) (*sysPlan, string) {
	ev := res.Events
	pl := &sysPlan{lksAt: map[int][]string{}, fwdTo: map[sysKey]int{}, tagW: map[int]int{}}
	cnt := map[int]int{}
	order := map[int][]int{} // broker -> model workers in allocation order
	alloc := func(i int) int {
		for j := i + 1; j < len(ev); j++ {
			if ev[j].Kind == "pp.fwd" && ev[j].P == P {
				b := ev[j].B
				if cnt[b] >= 64 {
					return -2
				}
				w := b*64 + cnt[b]
				cnt[b]++
				order[b] = append(order[b], w)
				pl.workers++
				return w
			}
		}
		return -1
	}
	cur, prefetch, pending, curRecv := -1, -1, -1, -1
	for i, e := range ev {
		switch e.Kind {
		case "wg.add.syn":
			if e.A == P {
				w := alloc(i)
				if w == -2 {
					return nil, "too-many-workers"
				}
				if e.B == 0 {
					prefetch = w
				} else {
					pending = w
				}
			}
		case "pp.recv":
			if e.P == P {
				curRecv = i
			}
		case "wg.add.fin":
			if e.A == P {
				cur = -1
			}
		case "pp.fwd":
			if e.P == P {
				if cur < 0 {
					if pending >= 0 {
						cur, pending = pending, -1
					} else if prefetch >= 0 {
						cur, prefetch = prefetch, -1
					} else {
						return nil, "forward-without-worker"
					}
					pl.lksAt[curRecv] = append(pl.lksAt[curRecv], strconv.Itoa(cur))
				}
				pl.fwdTo[sysKey{e.ID, e.A}] = cur
			}
		case "pp.fail":
			if e.P == P {
				pl.lksAt[curRecv] = append(pl.lksAt[curRecv], "n")
			}
		}
	}
	// bind the worker tags
	bound, ignored := map[int]bool{}, map[int]bool{}
	for _, e := range ev {
		if e.Kind != "bp.recv" || e.P != P {
			continue
		}
		T := e.B
		k := kindOfFlags(e.A % 8)
		want, known := -1, false
		if k == "d" {
			want, known = pl.fwdTo[sysKey{e.ID, e.A / 8}]
		}
		if w, ok := pl.tagW[T]; ok {
			if known && w != want {
				return nil, "worker-binding-ambiguous"
			}
			continue
		}
		if ignored[T] {
			if k != "s" {
				return nil, "worker-binding-ambiguous"
			}
			continue
		}
		w := -1
		if known {
			w = want
		} else {
			for _, c := range order[T/4096] {
				if !bound[c] {
					w = c
					break
				}
			}
		}
		if w < 0 && k == "s" {
			// a worker selected while flushing an empty retry level at the end of the run: it gets the syn and nothing else
			ignored[T] = true
			continue
		}
		if w < 0 || bound[w] {
			return nil, "worker-binding-ambiguous"
		}
		pl.tagW[T], bound[w] = w, true
	}
	return pl, ""
}

func sysClass(code int) string {
	switch code {
	case 0, 46:
		return "ok"
	case 2, 3, 5, 6, 7, 19, 20:
		return "retr"
	}
	return "fatal"
}

// SysLines translates the scenario's hook events of partition `part` into choices of the system model.
// workers = number of broker workers the partition producer selected; note != "": the run cannot be translated.
func SysLines(res *Result, part int32) (ops []string, workers int, note string) {
	P := int(part)
	ev := res.Events
	pl, note := sysMakePlan(res, P)
	if note != "" {
		return nil, 0, note
	}
	emit := func(f string, a ...interface{}) { ops = append(ops, "sys "+fmt.Sprintf(f, a...)) }
	emit("begin %d", res.Sc.RetryMax)

	recv0, erred := map[int]bool{}, map[int]bool{}
	for _, e := range ev {
		if e.Kind == "pp.recv" && e.A == 0 {
			recv0[e.ID] = true
		}
		if e.Kind == "ret.err" {
			erred[e.ID] = true
		}
	}
	isInput := func(e Event, T int) bool {
		switch e.Kind {
		case "bp.recv":
			return e.B == T
		case "bp.handover", "bp.resp", "bp.resp.end":
			return e.A == T
		}
		return false
	}
	nextInput := func(T, i int) int {
		for j := i + 1; j < len(ev); j++ {
			if isInput(ev[j], T) {
				return j
			}
		}
		return len(ev)
	}
	submitted := map[int]bool{}
	synPushed := map[int]bool{}
	deferred := map[int][]string{}
	waitTok := map[int]int{}
	var pend []*sysPend
	usedBatch := map[int]bool{}
	ldr := 0
	issue := func(p *sysPend) {
		if p.done {
			return
		}
		p.done = true
		if p.app && ldr != p.broker {
			ldr = p.broker
			emit("leader %d", ldr)
		}
		a := 0
		if p.app {
			a = 1
		}
		emit("broker %d %s %d", p.w, p.verdict, a)
	}
	flushUpTo := func(reqNo int) {
		var l []*sysPend
		for _, p := range pend {
			if !p.done && p.reqNo <= reqNo && p.reqNo < 1<<30 {
				l = append(l, p)
			}
		}
		sort.Slice(l, func(i, j int) bool { return l[i].reqNo < l[j].reqNo })
		for _, p := range l {
			issue(p)
		}
	}
	curPend := map[int]*sysPend{} // worker tag -> set at its bridge
	sentGroups, handovers := map[int][][]int{}, map[int]int{}
	{
		open := map[int][]int{}
		for _, e := range ev {
			switch e.Kind {
			case "bp.sent":
				open[e.A] = append(open[e.A], e.ID)
			case "bp.sent.end":
				sentGroups[e.A] = append(sentGroups[e.A], open[e.A])
				delete(open, e.A)
			}
		}
	}
	for i, e := range ev {
		switch e.Kind {
		case "d.pass":
			if e.P != P {
				continue
			}
			k := kindOfFlags(e.B)
			if e.A == 0 && k == "d" {
				if !recv0[e.ID] && erred[e.ID] {
					continue // returned with an error by the dispatcher / topic producer: never reaches the partition producer
				}
				if !submitted[e.ID] {
					submitted[e.ID] = true
					emit("submit %d", e.ID)
				}
			} else {
				emit("retryOut %d %d %s", e.ID, e.A, k)
			}
			emit("dispatch %d %d %s", e.ID, e.A, k)
		case "pp.recv":
			if e.P != P {
				continue
			}
			lks := "-"
			if l := pl.lksAt[i]; len(l) > 0 {
				lks = strings.Join(l, ",")
			}
			emit("ppRecv %d %d %s %s", e.ID, e.A, kindOfFlags(e.B), lks)
			for _, x := range pl.lksAt[i] {
				if w, err := strconv.Atoi(x); err == nil {
					synPushed[w] = true
					ops = append(ops, deferred[w]...)
					deferred[w] = nil
				}
			}
		case "bp.recv":
			w, ok := pl.tagW[e.B]
			if e.P != P || !ok {
				continue
			}
			T := e.B
			k := kindOfFlags(e.A % 8)
			if k == "s" {
				line := fmt.Sprintf("sys bpRecv %d 0 0 s 0", w)
				if synPushed[w] {
					ops = append(ops, line)
				} else {
					deferred[w] = append(deferred[w], line)
				}
				continue
			}
			ov, nx := 0, nextInput(T, i)
			if k == "d" && nx < len(ev) {
				ov = 1
				for j := i + 1; j < nx; j++ {
					if (ev[j].Kind == "bp.add" || ev[j].Kind == "bp.bounce") && ev[j].ID == e.ID && ev[j].B == T {
						ov = 0
					}
				}
			}
			if ov == 1 {
				waitTok[T] = e.ID
			}
			emit("bpRecv %d %d %d %s %d", w, e.ID, e.A/8, k, ov)
		case "bp.add":
			if waitTok[e.B] == e.ID {
				delete(waitTok, e.B)
			}
		case "retry", "ret.err":
			for T, x := range waitTok {
				if x == e.ID {
					delete(waitTok, T)
				}
			}
		case "bp.handover":
			T := e.A
			w, ok := pl.tagW[T]
			if !ok {
				continue
			}
			emit("handover %d", w)
			// the set: the k-th bp.sent group of this worker belongs to its k-th handover (the bridge goroutine may
			// report the set before or after the run loop reports the handover)
			var ids []int
			if k := handovers[T]; k < len(sentGroups[T]) {
				ids = sentGroups[T][k]
			}
			handovers[T]++
			pd := &sysPend{w: w, reqNo: 1 << 30, broker: T / 4096, verdict: "conn"}
			if len(ids) > 0 {
				for bi, b := range res.Batches {
					if usedBatch[bi] || b.Partition != part || int(b.Broker) != T/4096 || len(b.Records) != len(ids) {
						continue
					}
					same := true
					for x := range ids {
						if idOfRecord(b.Records[x]) != ids[x] {
							same = false
						}
					}
					if same {
						usedBatch[bi], pd.reqNo, pd.app = true, b.ReqNo, b.Appended
						break
					}
				}
			}
			// the verdict: what the worker does after the answer has arrived
			for j := i + 1; j < len(ev); j++ {
				if ev[j].Kind == "bp.resp.end" && ev[j].A == T {
					pd.verdict = ""
					succ := false
					for x := j + 1; x < nextInput(T, j); x++ {
						switch {
						case ev[x].Kind == "bp.closing" && ev[x].A == T:
							pd.verdict = "conn"
						case ev[x].Kind == "bp.verdict" && ev[x].B == T && ev[x].P == P && pd.verdict == "":
							pd.verdict = sysClass(ev[x].A)
						case ev[x].Kind == "ret.succ" && ev[x].P == P:
							succ = true
						}
					}
					if pd.verdict == "" {
						switch {
						case len(ids) == 0:
							pd.verdict = "retr"
						case succ:
							pd.verdict = "ok"
						default:
							pd.verdict = "fatal"
						}
					}
					break
				}
			}
			if len(ids) == 0 {
				pd.app = false
				if pd.verdict == "ok" {
					pd.verdict = "retr"
				}
			}
			pend = append(pend, pd)
			curPend[T] = pd
		case "bp.resp.end":
			T := e.A
			w, ok := pl.tagW[T]
			if !ok {
				continue
			}
			if pd := curPend[T]; pd != nil {
				flushUpTo(pd.reqNo)
				issue(pd)
				delete(curPend, T)
			}
			still := 0
			if wt, has := waitTok[T]; has {
				still = 1
				for j := i + 1; j < nextInput(T, i); j++ {
					if ev[j].Kind == "bp.add" && ev[j].ID == wt && ev[j].B == T {
						still = 0
					}
				}
			}
			emit("deliver %d %d", w, still)
		}
	}
	flushUpTo(1<<30 - 1)
	var logIDs, succ, errs []string
	for _, r := range res.Logs[part] {
		logIDs = append(logIDs, strconv.Itoa(idOfRecord(r)))
	}
	for _, o := range res.Outcomes {
		if !submitted[o.ID] {
			continue
		}
		if o.Ok {
			succ = append(succ, fmt.Sprintf("%d:%d", o.ID, o.Offset))
		} else {
			errs = append(errs, strconv.Itoa(o.ID))
		}
	}
	j := func(l []string) string {
		if len(l) == 0 {
			return "-"
		}
		return strings.Join(l, ",")
	}
	emit("end %s %s %s", j(logIDs), j(succ), j(errs))
	return ops, pl.workers, ""
}
