package pipe

import (
	"fmt"
	"sort"
	"strconv"
	"strings"

	"verif/harness/hlib"
)

// Main is the shared entry point of the pipeline harnesses: prop is the property id, sigPrefixes the oracle
// signatures this property's check reports (the scenarios always evaluate every oracle).
func Main(prop string, sigPrefixes []string) {
	run := hlib.StartParallel(prop, 14)
	RunAll(run, prop, sigPrefixes, 0)
	run.Finish(Rule)
}

const Rule = "producer scenario = f(seed): brokers 1-3, partitions 1-4, Retry.Max 0-5, flush settings, idempotent, acks, version, codec, interceptors, 1-60 messages in bursts, fault script over the first 8 produce requests (retriable/fatal codes with or without append, connection drop before/after append, lost acknowledgement, leader move, metadata failure), optional early close. non-trivial = distinct (config class, fault kinds, outcome mix) in which at least one request was faulted or a message retried"

// OracleOnly runs producer scenarios for their oracles alone (no trace lines for a model driver): used by checks
// whose own driver does not speak the producer-trace protocol (C04, C16).
func OracleOnly(run *hlib.Run, prop string, sigPrefixes []string, n int) {
	noTrace = true
	RunAll(run, prop, sigPrefixes, n)
	noTrace = false
}

var noTrace bool

// RunAll runs the producer scenarios of this worker (n = 0: tier default).
func RunAll(run *hlib.Run, prop string, sigPrefixes []string, n int) {
	if n == 0 {
		n = run.N
	}
	if n == 0 {
		n = 250
		if run.Tier == "thorough" {
			n = 6000
		}
	}
	var seeds []uint64
	var replayClose []int
	if lines := run.ReplayLines(); lines != nil {
		for _, l := range lines {
			t := strings.Fields(l)
			if len(t) >= 2 && t[0] == "sc" {
				s, _ := strconv.ParseUint(t[1], 10, 64)
				for k := 0; k < 20; k++ { // timing is not replayable exactly: repeat
					seeds = append(seeds, s)
					c := -1
					if len(t) >= 3 && strings.HasPrefix(t[2], "closeAtEvent=") {
						c, _ = strconv.Atoi(strings.TrimPrefix(t[2], "closeAtEvent="))
					}
					replayClose = append(replayClose, c)
				}
			}
		}
	} else {
		for i := 0; i < n; i++ {
			seeds = append(seeds, run.Seed*1000003+uint64(i))
		}
	}
	traces := 0
	type job struct {
		seed  uint64
		close int
	}
	var jobs []job
	for i, s := range seeds {
		c := -1
		if i < len(replayClose) {
			c = replayClose[i]
		}
		jobs = append(jobs, job{s, c})
	}
	hangs, ownFails := 0, 0
	for idx := 0; idx < len(jobs); idx++ {
		if idx < len(seeds) && !run.Mine(idx) {
			continue
		}
		if (hangs >= 6 && ownFails > 0) || hangs >= 24 {
			// the tree under test hangs again and again (each hang costs the 8 s bound): the violation is established
			// and recorded with replays; the rest of this worker's scenarios are skipped to keep the check's run time bounded
			run.Count("skipped-after-repeated-hangs")
			continue
		}
		s := jobs[idx].seed
		sc := Gen(s, prop)
		sc.CloseAtEvent = jobs[idx].close
		if sc.CloseAtEvent >= 0 {
			sc.CloseAfter = -1
		}
		res := Run(sc)
		if prop == "C12" && jobs[idx].close < 0 && res.NewErr == "" && idx < len(seeds) && run.ReplayLines() == nil {
			// close-point enumeration: re-run this scenario closing after the k-th hook event, for k spread over
			// the whole run (every k in the thorough tier for short runs)
			n := len(res.Events)
			step := n/4 + 1
			if run.Tier == "thorough" {
				step = n/24 + 1
			}
			r := hlib.NewRand(s)
			for k := r.Intn(step); k <= n; k += step {
				jobs = append(jobs, job{s, k})
			}
		}
		desc := "sc " + strconv.FormatUint(s, 10) + " # " + sc.String()
		if sc.CloseAtEvent >= 0 {
			desc = fmt.Sprintf("sc %d closeAtEvent=%d # %s", s, sc.CloseAtEvent, sc.String())
			run.Count("close-point")
		}
		if res.NewErr != "" {
			run.Count("producer-not-created")
			run.Case(desc + " => " + res.NewErr)
			continue
		}
		run.Case(desc)
		if res.CloseHang {
			hangs++
		}
		classify(run, res)
		if res.GoPanic != "" {
			ownFails++
			run.IOFail(prop+":producer-goroutine-panicked", "sc "+strconv.FormatUint(s, 10), res.GoPanic+" | "+sc.String())
		}
		for _, f := range Check(res) {
			mine := false
			for _, p := range sigPrefixes {
				if strings.HasPrefix(f.Sig, p) {
					mine = true
				}
			}
			if mine {
				ownFails++
				in := "sc " + strconv.FormatUint(s, 10)
				if sc.CloseAtEvent >= 0 {
					in += fmt.Sprintf(" closeAtEvent=%d", sc.CloseAtEvent)
				}
				run.IOFail(f.Sig, in, f.Detail+" | "+sc.String())
			} else {
				run.Count("other-property-oracle:" + f.Sig)
			}
		}
		if noTrace {
			traces++
			continue
		}
		if sc.CloseAtEvent >= 0 {
			run.Emit(fmt.Sprintf("scmark sc %d closeAtEvent=%d", s, sc.CloseAtEvent), "ok")
		} else {
			run.Emit(fmt.Sprintf("scmark sc %d", s), "ok")
		}
		tl := TraceLines(res)
		run.Emit(tl[0], "ok") // reset
		bops, bans := BrokerLines(res)
		for i := range bops {
			run.Emit(bops[i], bans[i])
		}
		for _, l := range tl[1:] {
			run.Emit(l, "ok")
		}
		sops, sans := SyncLines(res)
		for i := range sops {
			run.Emit(sops[i], sans[i])
		}
		if len(sops) > 0 {
			run.Count("sync-shim-lines")
		}
		if prop == "C02" {
			sysReplay(run, res)
		}
		traces++
	}
	run.Set("traces_validated", traces)
}

// sysReplay emits the replay of the scenario through the composed system model (Model.Pipeline), if the scenario
// is inside the model's scope, and counts what was replayed and why the rest was not.
func sysReplay(run *hlib.Run, res *Result) {
	part, why := SysScope(res)
	if why == "" && res.CloseHang {
		why = "close-hang"
	}
	if why == "several-partitions" && !res.CloseHang {
		// PROJECTION: the run seen from each of its partitions is replayed through the one-partition model
		used := map[int32]bool{}
		var parts []int32
		for _, m := range res.Sc.Msgs {
			if !used[m.Partition] {
				used[m.Partition] = true
				parts = append(parts, m.Partition)
			}
		}
		sort.Slice(parts, func(i, j int) bool { return parts[i] < parts[j] })
		for _, p := range parts {
			sysReplayPart(run, res, p, "projected")
		}
		return
	}
	if why != "" {
		run.Count("sys-skipped:" + why)
		return
	}
	sysReplayPart(run, res, part, "replayed")
}

func sysReplayPart(run *hlib.Run, res *Result, part int32, what string) {
	ops, workers, early, note := SysLinesX(res, part)
	if note != "" {
		if what == "projected" {
			run.Count("sys-projection-skipped:" + note)
		} else {
			run.Count("sys-skipped:" + note)
		}
		return
	}
	spurs := 0
	if n := len(ops); n > 0 && strings.HasPrefix(ops[n-1], "#spurs ") {
		spurs, _ = strconv.Atoi(strings.TrimPrefix(ops[n-1], "#spurs "))
		ops = ops[:n-1]
	}
	for _, l := range ops {
		run.Emit(l, "ok")
	}
	// which proved scope the run is in: the driver evaluates Model.Pipeline.chainScope (= Props.C02sys.HandoverChain,
	// the hypothesis of log_order_handover_chain) on the choices it replayed; the prediction here is computed from
	// the emitted lines, a disagreement is a correspondence difference
	scope := sysChainScope(ops)
	switch {
	case scope != "chain":
		scope = "outside"
	case spurs > 0:
		scope = "spur" // a worker closed by a request that carries nothing of the partition: not in the proved model
	default:
		scope = "proved"
	}
	run.Emit("sys scope2", scope)
	run.Count("sys-" + what)
	if scope == "proved" {
		run.Count("sys-" + what + "-inside-proved-scope")
	}
	if scope == "spur" {
		run.Count("sys-" + what + "-needs-spur")
	}
	if early > 0 {
		run.Count("sys-" + what + "-with-early-handover")
	}
	if scope != "outside" {
		run.Count("sys-" + what + "-in-handover-chain-scope")
	} else {
		run.Count("sys-" + what + "-outside-handover-chain-scope")
	}
	if workers <= 1 {
		run.Count("sys-" + what + "-single-worker")
	} else {
		run.Count("sys-" + what + "-multi-worker")
	}
}

// sysChainScope is "chain" when no leader lookup of the emitted ppRecv lines names a model worker twice.
func sysChainScope(ops []string) string {
	seen := map[string]bool{}
	for _, l := range ops {
		f := strings.Fields(l)
		if len(f) != 6 || f[1] != "ppRecv" || f[5] == "-" {
			continue
		}
		for _, w := range strings.Split(f[5], ",") {
			if w == "n" {
				continue
			}
			if seen[w] {
				return "outside"
			}
			seen[w] = true
		}
	}
	return "chain"
}

func classify(run *hlib.Run, res *Result) {
	sc := res.Sc
	kinds := map[string]bool{}
	for _, f := range sc.Faults {
		kinds[f.Kind] = true
	}
	retried := 0
	for _, e := range res.Events {
		if e.Kind == "retry" || e.Kind == "retrybatch" {
			retried++
		}
	}
	ok, bad := 0, 0
	for _, o := range res.Outcomes {
		if o.Ok {
			ok++
		} else {
			bad++
		}
	}
	run.Count(fmt.Sprintf("retrymax=%d", sc.RetryMax))
	if sc.Idempotent {
		run.Count("idempotent")
	}
	if sc.Sync {
		run.Count("sync-producer")
	}
	if sc.LatencyMs > 0 {
		run.Count("broker-latency")
	}
	if retried > 0 {
		run.Count("with-retries")
	}
	if bad > 0 {
		run.Count("with-errors")
	}
	if sc.CloseAfter >= 0 {
		run.Count("early-close")
	}
	for k := range kinds {
		run.Count("fault:" + k)
	}
	if retried > 0 || bad > 0 {
		var ks []string
		for k := range kinds {
			ks = append(ks, k)
		}
		run.Nontrivial(fmt.Sprintf("%v|%d|%v|%v|%d|%d|%d|%d", ks, sc.RetryMax, sc.Idempotent, sc.Version, sc.Partitions, retried, ok, bad))
	}
}
