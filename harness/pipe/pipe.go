// Package pipe: end-to-end scenarios of the real async/sync producer against the simulated cluster
// (overlay sim_cluster.go), with the hook-event trace recorded for trace validation by the Lean model and the
// oracles of C01, C02, C04, C05, C16, C18 evaluated on what the application and the brokers observed.
package pipe

import (
	"bytes"
	"fmt"
	"os"
	"runtime/debug"
	"sort"
	"strconv"
	"strings"
	"sync"
	"sync/atomic"
	"time"

	"github.com/Shopify/sarama"
	"verif/harness/hlib"
)

// Scenario is a deterministic function of (Seed, Focus) except for goroutine timing.
type Scenario struct {
	Seed              uint64
	Focus             string
	Brokers           int
	Partitions        int32
	RetryMax          int
	FlushMsgs         int
	FlushBytes        int
	FlushFreq         int // ms
	MaxMsgs           int
	MaxMsgByte        int
	Idempotent        bool
	Acks              sarama.RequiredAcks
	Version           sarama.KafkaVersion
	ChanBuf           int
	Codec             sarama.CompressionCodec
	Icepts            int
	PanicIcept        int // index of an interceptor that panics (-1 none)
	Sync              bool
	LongPause         bool
	GrowBy            int  // > 0: the last interceptor also pads the value by this many bytes (a message may outgrow MaxMessageBytes)
	SyncCloseMid      bool // sync producer: Close is called while the calls of the last burst (one goroutine per message) are pending
	NilIcept          bool // the interceptor list has a nil slot after its first entry (a disabled interceptor)
	FlipPartitioner   bool // a partitioner that does not require consistency: the message's own partition when first asked, the next one if asked again for the same message (focus C05)
	ErrorsOff         bool // Producer.Return.Errors = false; the recycled structs are those of messages that failed after a retry (focus C18)
	Recycle           int  // the last Recycle messages are submitted by re-using the structs of earlier messages that already have their outcome
	ReuseConfig       bool // after the producer has closed, a second producer is built from the SAME Config and sends two messages
	Msgs              []Msg
	Faults            map[int]sarama.VerifSimFault // by global produce request number
	MetaFailAt        map[int]bool
	Bursts            []int // burst sizes
	PauseMs           []int
	CloseAfter        int // submit only this many messages, then close while they may be in flight (-1: wait for all outcomes first)
	DupAsError        bool
	LeaderlessAtStart int32 // partition without a leader at start (-1 none)
	LatencyMs         int   // every produce answer is delayed by this much (batches accumulate meanwhile)
	CloseAtEvent      int   // >= 0: stop submitting and close as soon as this many hook events were recorded
}

type Msg struct {
	ID        int
	Partition int32
	KeyLen    int
	ValLen    int
	Headers   int
	HasTs     bool
}

type Outcome struct {
	ID        int
	Ok        bool
	Err       string
	Partition int32
	Offset    int64
	Headers   []sarama.RecordHeader
	Retries   int
	Flags     int
	HasSeq    bool
	At        int // position in the merged outcome stream
}

type Event struct {
	Kind string
	ID   int // message id (>0 user message, <0 internal marker), 0 = none
	A, B int
	P    int // partition of the message (-1 if none)
}

type Result struct {
	Sc         *Scenario
	Submitted  []int
	Outcomes   []Outcome
	Unknown    int // events whose message was not submitted by the harness
	Events     []Event
	closeNow   int32 // set by the hook sink when CloseAtEvent is reached
	CloseHang  bool
	evSnap     func() []Event // the hook events so far (copy)
	Reuse      []string       // interceptor marks of the messages of a second producer built from the same Config
	SyncStuck  int            // sync producer: calls that never returned after Close was called while they were pending
	ClosedOK   bool
	SendPanic  string
	GoPanic    string // a goroutine of the producer panicked (sarama.PanicHandler)
	Batches    []sarama.VerifSimBatch
	Requests   []sarama.VerifSimRequestInfo
	Logs       map[int32][]sarama.VerifSimRecord
	NewErr     string
	SyncReturn map[int]string // sync producer: per message "ok p off" | "err ..."
	SyncBursts [][]int        // sync producer: message ids of every completed SendMessage / SendMessages call, in call order
}

var retriable = []sarama.KError{sarama.ErrInvalidMessage, sarama.ErrUnknownTopicOrPartition, sarama.ErrLeaderNotAvailable,
	sarama.ErrNotLeaderForPartition, sarama.ErrRequestTimedOut, sarama.ErrNotEnoughReplicas, sarama.ErrNotEnoughReplicasAfterAppend}
var fatal = []sarama.KError{sarama.ErrMessageSizeTooLarge, sarama.ErrInvalidRequiredAcks, sarama.ErrTopicAuthorizationFailed, sarama.ErrInvalidTopic}

// Gen derives a scenario from a seed.
func Gen(seed uint64, focus string) *Scenario {
	r := hlib.NewRand(seed)
	sc := &Scenario{Seed: seed, Focus: focus, PanicIcept: -1, CloseAfter: -1, LeaderlessAtStart: -1, CloseAtEvent: -1}
	sc.Brokers = r.Range(1, 3)
	sc.Partitions = int32(r.Range(1, 4))
	sc.RetryMax = r.Pick(0, 1, 1, 2, 2, 3, 5)
	sc.ChanBuf = r.Pick(0, 1, 4, 256)
	switch r.Intn(4) {
	case 0: // immediate
	case 1:
		sc.FlushMsgs = r.Range(2, 5)
		sc.FlushFreq = r.Range(2, 10)
	case 2:
		sc.FlushFreq = r.Range(1, 8)
	case 3:
		sc.FlushBytes = r.Range(50, 400)
		sc.FlushFreq = r.Range(2, 10)
	}
	if r.Chance(1, 3) {
		sc.MaxMsgs = r.Range(1, 6)
		if sc.FlushMsgs > sc.MaxMsgs {
			sc.FlushMsgs = sc.MaxMsgs
		}
	}
	sc.MaxMsgByte = 1000000
	if r.Chance(1, 4) {
		sc.MaxMsgByte = r.Range(150, 600)
	}
	versions := []sarama.KafkaVersion{sarama.V0_8_2_0, sarama.V0_9_0_0, sarama.V0_10_0_0, sarama.V0_11_0_0, sarama.V1_0_0_0, sarama.V2_1_0_0, sarama.V2_8_0_0}
	sc.Version = versions[r.Intn(len(versions))]
	sc.Acks = sarama.WaitForLocal
	switch r.Intn(6) {
	case 0:
		sc.Acks = sarama.WaitForAll
	case 1:
		if focus != "C05" {
			sc.Acks = sarama.NoResponse
		}
	}
	sc.Idempotent = r.Chance(1, 3)
	if focus == "C05" {
		sc.Idempotent = true
	}
	if focus == "C02" && r.Chance(2, 3) {
		sc.Idempotent = false
	}
	if sc.Idempotent {
		sc.Acks = sarama.WaitForAll
		if sc.RetryMax == 0 {
			sc.RetryMax = r.Range(1, 3)
		}
		if !sc.Version.IsAtLeast(sarama.V0_11_0_0) {
			sc.Version = versions[3+r.Intn(4)]
		}
		sc.DupAsError = r.Bool()
	}
	codecs := []sarama.CompressionCodec{sarama.CompressionNone, sarama.CompressionNone, sarama.CompressionGZIP, sarama.CompressionSnappy, sarama.CompressionLZ4}
	sc.Codec = codecs[r.Intn(len(codecs))]
	if sc.Codec == sarama.CompressionLZ4 && !sc.Version.IsAtLeast(sarama.V0_10_0_0) {
		sc.Codec = sarama.CompressionNone
	}
	if focus == "C18" || r.Chance(1, 3) {
		sc.Icepts = r.Range(1, 3)
		if r.Chance(1, 3) {
			sc.PanicIcept = r.Intn(sc.Icepts)
		}
		if sc.MaxMsgByte < 1000000 && r.Chance(1, 2) {
			sc.GrowBy = sc.MaxMsgByte / 2
		}
		sc.NilIcept = r.Chance(1, 3)
		sc.ReuseConfig = r.Chance(1, 3)
	}
	n := r.Range(1, 24)
	if r.Chance(1, 5) {
		n = r.Range(25, 60)
	}
	for i := 0; i < n; i++ {
		m := Msg{ID: i + 1, Partition: int32(r.Intn(int(sc.Partitions))), KeyLen: r.Pick(-1, 0, 3, 8), ValLen: r.Pick(0, 1, 10, 40, 120)}
		if r.Chance(1, 10) {
			m.ValLen = -1
			if m.KeyLen < 0 {
				m.KeyLen = 0 // the key then carries the identity
			}
		}
		if sc.MaxMsgByte < 1000000 && r.Chance(1, 6) {
			m.ValLen = sc.MaxMsgByte + r.Range(-40, 40)
		}
		if sc.Version.IsAtLeast(sarama.V0_11_0_0) && r.Chance(1, 4) {
			m.Headers = r.Range(1, 3)
		}
		m.HasTs = r.Chance(1, 4)
		sc.Msgs = append(sc.Msgs, m)
	}
	// fault script over the first produce requests
	sc.Faults = map[int]sarama.VerifSimFault{}
	nf := r.Pick(0, 1, 1, 2, 3, 4, 6)
	for i := 0; i < nf; i++ {
		at := r.Range(1, 8)
		f := sarama.VerifSimFault{OnlyPartition: -1}
		switch r.Pick(0, 1, 2, 3, 3, 3, 4, 5, 6, 7, 8) {
		case 0, 1:
			f.Kind, f.Code = "err", retriable[r.Intn(len(retriable))]
		case 2:
			f.Kind, f.Code = "errAppend", []sarama.KError{sarama.ErrRequestTimedOut, sarama.ErrNotEnoughReplicasAfterAppend}[r.Intn(2)]
		case 3:
			// any broker error code at all (the whole KError range), not only the ones the producer names
			if r.Chance(1, 4) {
				f.Kind, f.Code = "err", fatal[r.Intn(len(fatal))]
			} else {
				// every scenario has one designated code out of the whole KError range (round-robin over the seeds,
				// so that a few hundred scenarios cover every code several times)
				f.Kind, f.Code = "err", sarama.KError(1+int(seed%96))
				if f.Code == sarama.ErrDuplicateSequenceNumber || f.Code == sarama.ErrOutOfOrderSequenceNumber || f.Code == sarama.ErrInvalidProducerEpoch {
					// sequence verdicts are given by the broker's idempotence rules only (a scripted one would be an unfaithful broker)
					f.Code = sarama.ErrUnknown
				}
			}
		case 4:
			f.Kind = "dropBefore"
		case 5:
			f.Kind = "dropAfter"
		case 6:
			f.Kind = "noReply"
		case 7:
			f.Kind, f.Code, f.MoveLeader = "err", sarama.ErrNotLeaderForPartition, true
		case 8:
			f.Kind, f.DelayMs = "ok", r.Range(1, 15)
		}
		if (f.Kind == "err" || f.Kind == "errAppend") && r.Chance(1, 3) {
			f.OnlyPartition = int32(r.Intn(int(sc.Partitions)))
		}
		if sc.Acks == sarama.NoResponse && (f.Kind == "noReply") {
			f.Kind = "ok"
		}
		sc.Faults[at] = f
	}
	if r.Chance(1, 8) {
		// a partition is rejected twice in a row and then has no leader for a while (multi-level retry with failing
		// leader look-ups), after which traffic goes on
		at := r.Range(1, 4)
		sc.Faults[at] = sarama.VerifSimFault{Kind: "err", Code: sarama.ErrNotLeaderForPartition, OnlyPartition: -1}
		sc.Faults[at+1] = sarama.VerifSimFault{Kind: "err", Code: sarama.ErrNotLeaderForPartition, OnlyPartition: -1, LoseLeaderMs: r.Pick(10, 30, 60)}
		if sc.RetryMax < 2 && r.Chance(3, 4) {
			sc.RetryMax = r.Range(2, 4)
		}
		sc.LongPause = true
	}
	sc.MetaFailAt = map[int]bool{}
	if r.Chance(1, 5) {
		sc.MetaFailAt[r.Range(2, 5)] = true
	}
	if r.Chance(1, 12) {
		sc.LeaderlessAtStart = int32(r.Intn(int(sc.Partitions)))
	}
	left := n
	for left > 0 {
		b := r.Range(1, 6)
		if b > left {
			b = left
		}
		sc.Bursts = append(sc.Bursts, b)
		sc.PauseMs = append(sc.PauseMs, r.Pick(0, 0, 1, 2, 5, 12))
		if sc.LongPause && r.Chance(1, 3) {
			sc.PauseMs[len(sc.PauseMs)-1] = r.Pick(40, 80)
		}
		left -= b
	}
	if focus == "C12" || r.Chance(1, 8) {
		sc.CloseAfter = r.Range(0, n)
	}
	if focus == "SYNC" || (focus == "C01" && r.Chance(1, 6)) || (focus == "C04" && r.Chance(1, 8)) {
		sc.Sync = true
		sc.CloseAfter = -1
		if r.Chance(1, 3) {
			sc.SyncCloseMid = true
		}
	}
	if focus == "C16" || r.Chance(1, 6) {
		// broker latency with tight limits: batches accumulate while a request is in flight
		sc.LatencyMs = r.Pick(3, 8, 20)
		if r.Bool() {
			sc.MaxMsgs = r.Range(1, 5)
			if sc.FlushMsgs > sc.MaxMsgs {
				sc.FlushMsgs = sc.MaxMsgs
			}
		} else {
			sc.MaxMsgByte = r.Range(150, 600)
			for i := range sc.Msgs {
				if sc.Msgs[i].ValLen > sc.MaxMsgByte/3 {
					sc.Msgs[i].ValLen = r.Range(20, sc.MaxMsgByte/3)
				}
			}
			if sc.Icepts > 0 && r.Bool() {
				sc.GrowBy = sc.MaxMsgByte * 3 / 4
			}
		}
		for i := range sc.PauseMs {
			sc.PauseMs[i] = r.Pick(0, 0, 1)
		}
	}
	if sc.Idempotent && !sc.Sync && r.Chance(1, 6) {
		// mixed retry budgets in one batch: messages buffered behind a failing request go round the retry path, come
		// back with their budget (partly) spent, are batched with fresh ones, and that batch fails again
		sc.Partitions = 1
		for i := range sc.Msgs {
			sc.Msgs[i].Partition = 0
		}
		sc.RetryMax = r.Pick(1, 1, 2)
		sc.LatencyMs = r.Pick(10, 15, 25)
		sc.FlushMsgs, sc.FlushBytes, sc.FlushFreq, sc.MaxMsgs = 0, 0, 0, 0
		sc.MaxMsgByte = 1000000
		sc.GrowBy = 0
		code := retriable[r.Intn(len(retriable))]
		sc.Faults = map[int]sarama.VerifSimFault{
			1: {Kind: "err", Code: code, OnlyPartition: -1},
			3: {Kind: "err", Code: code, OnlyPartition: -1},
		}
		if r.Chance(1, 3) {
			sc.Faults[r.Pick(2, 4, 5)] = sarama.VerifSimFault{Kind: "err", Code: code, OnlyPartition: -1}
		}
		sc.MetaFailAt = map[int]bool{}
		sc.LeaderlessAtStart = -1
		sc.CloseAfter = -1
		sc.Bursts, sc.PauseMs = nil, nil
		left := len(sc.Msgs)
		for left > 0 {
			b := r.Range(1, 3)
			if b > left {
				b = left
			}
			sc.Bursts = append(sc.Bursts, b)
			sc.PauseMs = append(sc.PauseMs, r.Pick(2, 5, 5, 12, 30))
			left -= b
		}
	}
	if focus == "C02" && seed%2 == 0 && len(sc.Msgs) > 0 {
		// family inside the scope of the composed system model (Model.Pipeline, replayed by the C02 driver): one
		// partition in use, not idempotent, Retry.Max 1-5, acknowledgements on; every fault kind stays
		p0 := sc.Msgs[0].Partition
		for i := range sc.Msgs {
			sc.Msgs[i].Partition = p0
		}
		sc.Idempotent, sc.DupAsError = false, false
		if sc.RetryMax == 0 {
			sc.RetryMax = 1 + int(seed/2%5)
		}
		if sc.Acks == sarama.NoResponse {
			sc.Acks = sarama.WaitForLocal
		}
	}
	// (decided by a generator of its own so that the scenarios of the main stream stay what they were)
	if rr := hlib.NewRand(seed ^ 0x72656379636c65); focus != "C02" && !sc.Sync && sc.CloseAfter < 0 && len(sc.Msgs) >= 4 && rr.Chance(1, 5) {
		// applications pool their message structs: the last few messages travel in structs of earlier messages that
		// already got their outcome, with new (mostly larger) contents
		sc.Recycle = rr.Range(1, 3)
		for k := 0; k < sc.Recycle; k++ {
			m := &sc.Msgs[len(sc.Msgs)-1-k]
			m.KeyLen = rr.Pick(3, 8, 20)
			m.ValLen = rr.Pick(40, 120, 300)
			if sc.MaxMsgByte < 1000000 && rr.Bool() {
				m.ValLen = sc.MaxMsgByte + rr.Range(1, 60) // must be refused whatever the struct carried before
			}
		}
	}
	// (focus C05 only, generator of its own) every partition has a leader throughout: the partitioner below behaves like the
	// manual one as long as it is asked once per message
	if rf := hlib.NewRand(seed ^ 0x666c6970); focus == "C05" && sc.Idempotent && sc.Partitions >= 2 && sc.RetryMax >= 2 && sc.LeaderlessAtStart < 0 && !sc.Sync && rf.Chance(1, 2) {
		ok := true
		for _, f := range sc.Faults {
			if f.LoseLeaderMs != 0 {
				ok = false
			}
		}
		sc.FlipPartitioner = ok
	}
	// (focus C18 only, generator of its own) the application does not read errors: Return.Errors is off, and the structs it
	// re-uses are those of messages the producer dropped after at least one retry
	if re := hlib.NewRand(seed ^ 0x6572726f72736f66); focus == "C18" && sc.Recycle > 0 && re.Chance(2, 3) {
		sc.ErrorsOff = true
	}
	return sc
}

func (sc *Scenario) String() string {
	fk := make([]int, 0, len(sc.Faults))
	for k := range sc.Faults {
		fk = append(fk, k)
	}
	sort.Ints(fk)
	var fs []string
	for _, k := range fk {
		f := sc.Faults[k]
		fs = append(fs, fmt.Sprintf("%d:%s/%d/p%d/mv%v/ll%d", k, f.Kind, int(f.Code), f.OnlyPartition, f.MoveLeader, f.LoseLeaderMs))
	}
	return fmt.Sprintf("seed=%d focus=%s brokers=%d parts=%d retry=%d flush=%d/%d/%dms max=%d maxbytes=%d idem=%v acks=%d ver=%s buf=%d codec=%d icepts=%d/%d msgs=%d closeAfter=%d faults=[%s] sync=%v",
		sc.Seed, sc.Focus, sc.Brokers, sc.Partitions, sc.RetryMax, sc.FlushMsgs, sc.FlushBytes, sc.FlushFreq, sc.MaxMsgs, sc.MaxMsgByte,
		sc.Idempotent, sc.Acks, sc.Version, sc.ChanBuf, sc.Codec, sc.Icepts, sc.PanicIcept, len(sc.Msgs), sc.CloseAfter, strings.Join(fs, ","), sc.Sync) + fmt.Sprintf(" latency=%dms growBy=%d recycle=%d errorsOff=%v flipPartitioner=%v", sc.LatencyMs, sc.GrowBy, sc.Recycle, sc.ErrorsOff, sc.FlipPartitioner)
}

func payload(id, n int) []byte {
	if n < 0 {
		return nil
	}
	s := []byte(fmt.Sprintf("m%d.", id))
	for len(s) < n {
		s = append(s, byte('a'+len(s)%26))
	}
	return s
}

// the value always starts with "m<id>." so that the log identifies messages even when ValLen is tiny
func valueOf(m Msg) []byte {
	if m.ValLen < 0 {
		return nil
	}
	v := payload(m.ID, m.ValLen)
	return v
}

type icept struct {
	k     int
	panic bool
	grow  int
	n     int // panics so far (the dispatcher calls interceptors from one goroutine)
}

// wireValueOf: the value a message carries after the interceptor chain ran (once) over it
func wireValueOf(sc *Scenario, m Msg) []byte {
	v := valueOf(m)
	if sc.GrowBy > 0 && sc.Icepts > 0 && v != nil {
		v = append(append([]byte(nil), v...), bytes.Repeat([]byte{'+'}, sc.GrowBy)...)
	}
	return v
}

func (i *icept) OnSend(m *sarama.ProducerMessage) {
	m.Headers = append(m.Headers, sarama.RecordHeader{Key: []byte(fmt.Sprintf("i%d", i.k)), Value: []byte("x")})
	if i.grow > 0 && m.Value != nil {
		if b, err := m.Value.Encode(); err == nil {
			m.Value = sarama.ByteEncoder(append(append([]byte(nil), b...), bytes.Repeat([]byte{'+'}, i.grow)...))
		}
	}
	if i.panic {
		i.n++
		scriptedPanic(i.n, "interceptor panic (scripted)")
	}
}

var hookMu sync.Mutex

// Run executes one scenario against the real producer.
func Run(sc *Scenario) *Result {
	res := &Result{Sc: sc, Logs: map[int32][]sarama.VerifSimRecord{}, SyncReturn: map[int]string{}}
	sim := sarama.VerifNewSim(sc.Brokers, map[string]int32{"t": sc.Partitions})
	defer sim.Close()
	sim.DupAsError = sc.DupAsError
	sim.Fault = func(reqNo int, broker int32) sarama.VerifSimFault {
		if f, ok := sc.Faults[reqNo]; ok {
			if f.Kind == "ok" && f.DelayMs < sc.LatencyMs {
				f.DelayMs = sc.LatencyMs
			}
			return f
		}
		return sarama.VerifSimFault{Kind: "ok", OnlyPartition: -1, DelayMs: sc.LatencyMs}
	}
	sim.MetaFail = func(n int) bool { return sc.MetaFailAt[n] }
	if sc.LeaderlessAtStart >= 0 {
		sim.SetLeader("t", sc.LeaderlessAtStart, -1)
	}

	cfg := sarama.NewConfig()
	cfg.Version = sc.Version
	cfg.Producer.Return.Successes = true
	cfg.Producer.Return.Errors = !sc.ErrorsOff
	cfg.Producer.Retry.Max = sc.RetryMax
	cfg.Producer.Retry.Backoff = time.Millisecond
	cfg.Producer.Flush.Messages = sc.FlushMsgs
	cfg.Producer.Flush.Bytes = sc.FlushBytes
	cfg.Producer.Flush.Frequency = time.Duration(sc.FlushFreq) * time.Millisecond
	cfg.Producer.Flush.MaxMessages = sc.MaxMsgs
	cfg.Producer.MaxMessageBytes = sc.MaxMsgByte
	cfg.Producer.RequiredAcks = sc.Acks
	cfg.Producer.Compression = sc.Codec
	cfg.Producer.Partitioner = sarama.NewManualPartitioner
	if sc.FlipPartitioner {
		cfg.Producer.Partitioner = func(string) sarama.Partitioner { return &flipPartitioner{asked: map[int]int32{}} }
	}
	cfg.ChannelBufferSize = sc.ChanBuf
	cfg.Net.ReadTimeout = 150 * time.Millisecond
	cfg.Net.DialTimeout = 500 * time.Millisecond
	cfg.Net.WriteTimeout = 500 * time.Millisecond
	cfg.Metadata.Retry.Max = 2
	cfg.Metadata.Retry.Backoff = time.Millisecond
	cfg.Metadata.RefreshFrequency = 0
	if sc.Idempotent {
		cfg.Producer.Idempotent = true
		cfg.Net.MaxOpenRequests = 1
	}
	for k := 0; k < sc.Icepts; k++ {
		ic := &icept{k: k, panic: k == sc.PanicIcept}
		if k == sc.Icepts-1 {
			ic.grow = sc.GrowBy
		}
		cfg.Producer.Interceptors = append(cfg.Producer.Interceptors, ic)
		if k == 0 && sc.NilIcept {
			cfg.Producer.Interceptors = append(cfg.Producer.Interceptors, nil)
		}
	}
	if err := cfg.Validate(); err != nil {
		res.NewErr = "config: " + err.Error()
		return res
	}

	// hook sink: events in one total order; internal markers get negative ids
	hookMu.Lock()
	defer hookMu.Unlock()
	var evMu sync.Mutex
	markers := map[*sarama.ProducerMessage]int{}
	nextMarker := -1
	sarama.VerifSink = func(kind string, m *sarama.ProducerMessage, a, b int) {
		evMu.Lock()
		defer evMu.Unlock()
		id := 0
		part := -1
		if m != nil {
			part = int(m.Partition)
			if v, ok := m.Metadata.(int); ok {
				id = v
			} else {
				if mid, ok := markers[m]; ok {
					id = mid
				} else {
					id = nextMarker
					nextMarker--
					markers[m] = id
				}
			}
		}
		res.Events = append(res.Events, Event{kind, id, a, b, part})
		if sc.CloseAtEvent >= 0 && len(res.Events) == sc.CloseAtEvent {
			atomic.StoreInt32(&res.closeNow, 1)
		}
	}
	defer func() { sarama.VerifSink = nil }()
	res.evSnap = func() []Event {
		evMu.Lock()
		defer evMu.Unlock()
		return append([]Event(nil), res.Events...)
	}
	// a panic inside a goroutine of the library must not take the harness process down: it is an outcome
	sarama.PanicHandler = func(v interface{}) {
		evMu.Lock()
		defer evMu.Unlock()
		if res.GoPanic == "" {
			res.GoPanic = fmt.Sprint(v)
			if os.Getenv("PIPE_STACK") != "" {
				res.GoPanic += "\n" + string(debug.Stack())
			}
		}
	}
	defer func() { sarama.PanicHandler = nil }()

	msgs := make([]*sarama.ProducerMessage, len(sc.Msgs))
	for i, m := range sc.Msgs {
		pm := &sarama.ProducerMessage{Topic: "t", Partition: m.Partition, Metadata: m.ID}
		if m.KeyLen >= 0 {
			pm.Key = sarama.ByteEncoder(payload(m.ID, m.KeyLen))
		}
		if v := valueOf(m); v != nil {
			pm.Value = sarama.ByteEncoder(v)
		}
		for h := 0; h < m.Headers; h++ {
			pm.Headers = append(pm.Headers, sarama.RecordHeader{Key: []byte(fmt.Sprintf("h%d", h)), Value: []byte(fmt.Sprintf("v%d", m.ID))})
		}
		if m.HasTs {
			pm.Timestamp = time.Unix(1600000000+int64(m.ID), 0)
		}
		msgs[i] = pm
	}

	if sc.Sync {
		runSync(sc, cfg, sim, msgs, res)
	} else {
		runAsync(sc, cfg, sim, msgs, res)
	}
	// let goroutines of the closed producer (bridge goroutines answering a last, empty set) finish emitting hook
	// events into THIS scenario's trace before the next scenario installs its sink
	time.Sleep(3 * time.Millisecond)
	res.Batches, res.Requests = sim.Snapshot()
	for p := int32(0); p < sc.Partitions; p++ {
		res.Logs[p] = sim.Log("t", p)
	}
	if sc.ReuseConfig && !sc.ErrorsOff && sc.Icepts > 0 && res.ClosedOK && !sc.Sync && res.NewErr == "" {
		// a second producer built from the same Config value: the interceptor chain must still run once per message, in
		// configuration order (its hook events are not part of the first producer's trace)
		sarama.VerifSink = nil
		res.Reuse = reuseConfig(sc, cfg, sim)
	}
	return res
}

// reuseConfig builds a second producer from the same Config, sends two messages and returns, per message, the
// interceptor marks it carries when its outcome arrives ("" = no outcome within the bound).
func reuseConfig(sc *Scenario, cfg *sarama.Config, sim *sarama.VerifSim) []string {
	p, err := sarama.NewAsyncProducer(sim.Addrs(), cfg)
	if err != nil {
		return []string{"new: " + err.Error()}
	}
	var out []string
	for i := 0; i < 2; i++ {
		p.Input() <- &sarama.ProducerMessage{Topic: "t", Partition: 0, Value: sarama.StringEncoder("again")}
		var m *sarama.ProducerMessage
		select {
		case m = <-p.Successes():
		case e := <-p.Errors():
			m = e.Msg
		case <-time.After(8 * time.Second):
			out = append(out, "")
			continue
		}
		var marks []string
		for _, h := range m.Headers {
			if len(h.Key) > 0 && h.Key[0] == 'i' {
				marks = append(marks, string(h.Key))
			}
		}
		out = append(out, strings.Join(marks, ","))
	}
	done := make(chan struct{})
	go func() { p.Close(); close(done) }()
	select {
	case <-done:
	case <-time.After(8 * time.Second):
		out = append(out, "close-hang")
	}
	return out
}

func outcomeOf(m *sarama.ProducerMessage, ok bool, err error) (Outcome, bool) {
	id, known := m.Metadata.(int)
	o := Outcome{ID: id, Ok: ok, Partition: m.Partition, Offset: m.Offset, Headers: m.Headers}
	o.Retries, o.Flags, o.HasSeq = sarama.VerifProducerMsgInternals(m)
	if err != nil {
		o.Err = err.Error()
	}
	return o, known
}

func runAsync(sc *Scenario, cfg *sarama.Config, sim *sarama.VerifSim, msgs []*sarama.ProducerMessage, res *Result) {
	p, err := sarama.NewAsyncProducer(sim.Addrs(), cfg)
	if err != nil {
		res.NewErr = err.Error()
		return
	}
	var mu sync.Mutex
	done := make(chan struct{})
	go func() {
		succ, errs := p.Successes(), p.Errors()
		for succ != nil || errs != nil {
			select {
			case m, ok := <-succ:
				if !ok {
					succ = nil
					continue
				}
				mu.Lock()
				o, known := outcomeOf(m, true, nil)
				if !known {
					res.Unknown++
				}
				o.At = len(res.Outcomes)
				res.Outcomes = append(res.Outcomes, o)
				mu.Unlock()
			case e, ok := <-errs:
				if !ok {
					errs = nil
					continue
				}
				mu.Lock()
				o, known := outcomeOf(e.Msg, false, e.Err)
				if !known {
					res.Unknown++
				}
				o.At = len(res.Outcomes)
				res.Outcomes = append(res.Outcomes, o)
				mu.Unlock()
			}
		}
		close(done)
	}()
	limit := len(msgs)
	if sc.CloseAfter >= 0 && sc.CloseAfter < limit {
		limit = sc.CloseAfter
	}
	if sc.Recycle > 0 {
		limit = len(msgs) - sc.Recycle
	}
	i := 0
	func() {
		defer func() {
			if r := recover(); r != nil {
				res.SendPanic = fmt.Sprint(r)
			}
		}()
		for b, n := range sc.Bursts {
			for k := 0; k < n && i < limit; k++ {
				if atomic.LoadInt32(&res.closeNow) == 1 {
					return
				}
				select {
				case p.Input() <- msgs[i]:
					res.Submitted = append(res.Submitted, sc.Msgs[i].ID)
				case <-time.After(5 * time.Second):
					res.SendPanic = "input blocked for 5s"
					return
				}
				i++
			}
			if i >= limit || atomic.LoadInt32(&res.closeNow) == 1 {
				break
			}
			if sc.PauseMs[b] > 0 {
				time.Sleep(time.Duration(sc.PauseMs[b]) * time.Millisecond)
			}
		}
	}()
	if sc.CloseAtEvent == 0 {
		atomic.StoreInt32(&res.closeNow, 1)
	}
	waitAll := func() {
		// wait until every submitted message has an outcome (bounded)
		deadline := time.Now().Add(8 * time.Second)
		for time.Now().Before(deadline) {
			mu.Lock()
			n := len(res.Outcomes)
			mu.Unlock()
			if sc.ErrorsOff {
				n += len(droppedIDs(res, 0)) // errors are not reported: the hook event of returnError stands for the outcome
			}
			if n >= len(res.Submitted) || atomic.LoadInt32(&res.closeNow) == 1 {
				break
			}
			time.Sleep(time.Millisecond)
		}
	}
	if sc.CloseAfter < 0 {
		waitAll()
	}
	if sc.Recycle > 0 && res.SendPanic == "" && atomic.LoadInt32(&res.closeNow) == 0 {
		mu.Lock()
		all := len(res.Outcomes) >= len(res.Submitted)
		mu.Unlock()
		srcOf := func(k int) *sarama.ProducerMessage { return msgs[k] }
		if sc.ErrorsOff {
			// re-use the structs of messages that were dropped after a retry; a struct is the application's again once the
			// producer has reset it (bounded wait: a producer that never resets it is what this family is about)
			dropped := droppedIDs(res, 1)
			all = len(res.Outcomes)+len(droppedIDs(res, 0)) >= len(res.Submitted)
			byID := map[int]*sarama.ProducerMessage{}
			for i := 0; i < limit; i++ {
				byID[sc.Msgs[i].ID] = msgs[i]
			}
			var srcs []*sarama.ProducerMessage
			for _, id := range dropped {
				if m := byID[id]; m != nil {
					srcs = append(srcs, m)
				}
			}
			until := time.Now().Add(300 * time.Millisecond)
			for _, m := range srcs {
				for sarama.VerifMsgRetries(m) != 0 && time.Now().Before(until) {
					time.Sleep(time.Millisecond)
				}
			}
			time.Sleep(2 * time.Millisecond)
			succeeded := map[*sarama.ProducerMessage]bool{}
			mu.Lock()
			for _, o := range res.Outcomes {
				if o.Err == "" {
					succeeded[byID[o.ID]] = true
				}
			}
			mu.Unlock()
			for i := 0; i < limit && len(srcs) < sc.Recycle; i++ {
				if succeeded[msgs[i]] {
					srcs = append(srcs, msgs[i]) // not enough dropped ones: structs of acknowledged messages
				}
			}
			if len(srcs) < sc.Recycle {
				all = false
			}
			srcOf = func(k int) *sarama.ProducerMessage { return srcs[k] }
		}
		if all {
			// every earlier message has its outcome: its struct is the application's again
			func() {
				defer func() {
					if r := recover(); r != nil {
						res.SendPanic = fmt.Sprint(r)
					}
				}()
				for k := 0; k < sc.Recycle; k++ {
					src, tgt := srcOf(k), msgs[limit+k]
					src.Topic, src.Key, src.Value, src.Headers = tgt.Topic, tgt.Key, tgt.Value, tgt.Headers
					src.Metadata, src.Partition, src.Timestamp, src.Offset = tgt.Metadata, tgt.Partition, tgt.Timestamp, 0
					select {
					case p.Input() <- src:
						res.Submitted = append(res.Submitted, sc.Msgs[limit+k].ID)
					case <-time.After(5 * time.Second):
						res.SendPanic = "input blocked for 5s"
						return
					}
				}
			}()
			waitAll()
		}
	}
	p.AsyncClose()
	select {
	case <-done:
		res.ClosedOK = true
	case <-time.After(8 * time.Second):
		res.CloseHang = true
	}
}

// flipPartitioner does not require consistency.  Asked for the first time about a message it answers the partition the
// message names (all partitions are writable in its scenarios, so index = id); asked again about the same message it
// answers the next partition - the producer asks once per message, a retried message stays where it was numbered.
type flipPartitioner struct{ asked map[int]int32 }

func (f *flipPartitioner) Partition(m *sarama.ProducerMessage, n int32) (int32, error) {
	id, _ := m.Metadata.(int)
	k := f.asked[id]
	f.asked[id] = k + 1
	return (m.Partition + k) % n, nil
}
func (f *flipPartitioner) RequiresConsistency() bool { return false }

// droppedIDs: ids of submitted messages for which returnError ran with at least minRetries retries (hook event ret.err)
func droppedIDs(res *Result, minRetries int) []int {
	var ids []int
	if res.evSnap == nil {
		return nil
	}
	for _, e := range res.evSnap() {
		if e.Kind == "ret.err" && e.ID > 0 && e.A >= minRetries {
			ids = append(ids, e.ID)
		}
	}
	return ids
}

func runSync(sc *Scenario, cfg *sarama.Config, sim *sarama.VerifSim, msgs []*sarama.ProducerMessage, res *Result) {
	p, err := sarama.NewSyncProducer(sim.Addrs(), cfg)
	if err != nil {
		res.NewErr = err.Error()
		return
	}
	i := 0
	for _, n := range sc.Bursts {
		if i+n > len(msgs) {
			n = len(msgs) - i
		}
		batch := msgs[i : i+n]
		for _, m := range batch {
			res.Submitted = append(res.Submitted, m.Metadata.(int))
		}
		if sc.SyncCloseMid && i+n >= len(msgs) && len(batch) >= 2 {
			// last burst: one caller per message, Close from another goroutine while they are pending; every call must
			// return with the outcome of its own message and Close must return
			type ret struct {
				id  int
				err error
				bad string
			}
			rc := make(chan ret, len(batch))
			for _, m := range batch {
				m := m
				go func() {
					defer func() {
						if r := recover(); r != nil {
							rc <- ret{m.Metadata.(int), nil, fmt.Sprint("panic: ", r)}
						}
					}()
					_, _, err := p.SendMessage(m)
					rc <- ret{m.Metadata.(int), err, ""}
				}()
			}
			time.Sleep(time.Duration(5+sc.LatencyMs/2) * time.Millisecond)
			cch := make(chan error, 1)
			go func() { cch <- p.Close() }()
			deadline := time.After(8 * time.Second)
			got := map[int]bool{}
			for len(got) < len(batch) {
				select {
				case r := <-rc:
					got[r.id] = true
					if r.bad != "" {
						// the harness submitted after the producer had shut down (a send on the closed input): not judged
						res.NewErr = "sync close-mid: " + r.bad
						return
					}
					var mm *sarama.ProducerMessage
					for _, m := range batch {
						if m.Metadata.(int) == r.id {
							mm = m
						}
					}
					o, _ := outcomeOf(mm, true, nil)
					if r.err != nil {
						o.Ok, o.Err = false, r.err.Error()
					}
					o.At = len(res.Outcomes)
					res.Outcomes = append(res.Outcomes, o)
				case <-deadline:
					res.CloseHang = true
					res.SyncStuck = len(batch) - len(got)
					return
				}
			}
			select {
			case <-cch:
				res.ClosedOK = true
			case <-time.After(8 * time.Second):
				res.CloseHang = true
			}
			return
		}
		ch := make(chan error, 1)
		go func() {
			if len(batch) == 1 {
				part, off, err := p.SendMessage(batch[0])
				if err == nil && (part != batch[0].Partition || off != batch[0].Offset) {
					err = fmt.Errorf("verif: return values (%d,%d) differ from message fields (%d,%d)", part, off, batch[0].Partition, batch[0].Offset)
				}
				ch <- err
			} else {
				ch <- p.SendMessages(batch)
			}
		}()
		select {
		case err := <-ch:
			failed := map[int]string{}
			if err != nil {
				if pes, ok := err.(sarama.ProducerErrors); ok {
					for _, pe := range pes {
						if id, ok := pe.Msg.Metadata.(int); ok {
							failed[id] = pe.Err.Error()
						} else {
							res.Unknown++
						}
					}
				} else {
					for _, m := range batch {
						failed[m.Metadata.(int)] = err.Error()
					}
				}
			}
			var ids []int
			for _, m := range batch {
				ids = append(ids, m.Metadata.(int))
			}
			res.SyncBursts = append(res.SyncBursts, ids)
			for _, m := range batch {
				id := m.Metadata.(int)
				o, _ := outcomeOf(m, true, nil)
				if e, bad := failed[id]; bad {
					o.Ok, o.Err = false, e
				}
				o.At = len(res.Outcomes)
				res.Outcomes = append(res.Outcomes, o)
			}
		case <-time.After(8 * time.Second):
			res.CloseHang = true
			return
		}
		i += n
	}
	ch := make(chan error, 1)
	go func() { ch <- p.Close() }()
	select {
	case <-ch:
		res.ClosedOK = true
	case <-time.After(8 * time.Second):
		res.CloseHang = true
	}
}

// ---------------------------------------------------------------------------------------------
// oracles

type Fail struct{ Sig, Detail string }

func idOfValue(v []byte) int {
	if len(v) < 2 || v[0] != 'm' {
		return 0
	}
	i := bytes.IndexByte(v, '.')
	if i < 0 {
		return 0
	}
	n, err := strconv.Atoi(string(v[1:i]))
	if err != nil {
		return 0
	}
	return n
}

func idOfRecord(r sarama.VerifSimRecord) int {
	if id := idOfValue(r.Value); id != 0 {
		return id
	}
	return idOfValue(r.Key)
}

// Check evaluates every oracle; signatures are prefixed with the property id.
func Check(res *Result) []Fail {
	var fails []Fail
	add := func(sig, format string, a ...interface{}) {
		fails = append(fails, Fail{sig, fmt.Sprintf(format, a...)})
	}
	sc := res.Sc
	if res.NewErr != "" {
		return fails
	}
	byID := map[int]Msg{}
	for _, m := range sc.Msgs {
		byID[m.ID] = m
	}
	submitted := map[int]bool{}
	subPos := map[int]int{}
	for i, id := range res.Submitted {
		submitted[id] = true
		subPos[id] = i
	}
	// ---- C01 / C12
	count := map[int]int{}
	for _, o := range res.Outcomes {
		count[o.ID]++
	}
	if res.SendPanic != "" {
		add("C12:send-panicked-or-blocked", "%s", res.SendPanic)
	}
	if res.SyncStuck > 0 {
		add("C01:sync-call-never-returned", "%d SendMessage calls that were pending when Close was called never returned", res.SyncStuck)
	}
	if res.CloseHang {
		hsig := "C12:close-hang"
		if sc.Idempotent {
			hsig = "C12:close-hang-idempotent"
		}
		add(hsig, "AsyncClose/Close did not complete within 8s; outcomes %d of %d submitted", len(res.Outcomes), len(res.Submitted))
	}
	if res.Unknown > 0 {
		sig := "C01:phantom-event"
		if sc.Idempotent {
			sig = "C01:phantom-event-idempotent"
		}
		add(sig, "%d events name a message the application did not submit (internal marker)", res.Unknown)
	}
	for id, c := range count {
		if !submitted[id] && id != 0 {
			add("C01:phantom-event", "event for id %d which was not submitted", id)
		}
		if c > 1 {
			add("C01:two-outcomes", "message %d got %d terminal events", id, c)
		}
	}
	if res.CloseHang && len(sc.Faults) == 0 && len(sc.MetaFailAt) == 0 && sc.LeaderlessAtStart < 0 && !sc.Idempotent {
		// a healthy cluster, no fault of any kind, and still a buffered message was never handed over: no flush trigger
		// (count, bytes, frequency, or "as soon as possible") fired for it
		for _, id := range res.Submitted {
			if count[id] == 0 {
				add("C16:buffered-message-never-flushed", "message %d of a fault-free run was never sent (flush=%d msgs/%d bytes/%d ms, max %d msgs)", id, sc.FlushMsgs, sc.FlushBytes, sc.FlushFreq, sc.MaxMsgs)
				break
			}
		}
	}
	if res.ClosedOK || res.CloseHang {
		for _, id := range res.Submitted {
			if count[id] == 0 {
				sig := "C01:no-outcome"
				if res.CloseHang {
					sig = "C01:no-outcome-and-close-hang"
				}
				if sc.Idempotent {
					sig += "-idempotent"
				}
				add(sig, "message %d has no terminal event (closed=%v)", id, res.ClosedOK)
				break
			}
		}
	}
	if sc.Sync {
		// SyncProducer: what SendMessage / SendMessages returned for a message must be the terminal event of that
		// very message (success ⇔ a returnSuccesses event for its id, error ⇔ a returnError event for its id)
		evSucc, evErr := map[int]int{}, map[int]int{}
		for _, e := range res.Events {
			if e.Kind == "ret.succ" {
				evSucc[e.ID]++
			}
			if e.Kind == "ret.err" || e.Kind == "d.reject" {
				evErr[e.ID]++
			}
		}
		for _, o := range res.Outcomes {
			if !submitted[o.ID] {
				continue
			}
			if o.Ok && (evSucc[o.ID] != 1 || evErr[o.ID] != 0) {
				add("C01:sync-return-is-not-own-outcome", "SendMessage(s) reported success for message %d; its events: %d success, %d error", o.ID, evSucc[o.ID], evErr[o.ID])
			}
			if !o.Ok && (evErr[o.ID] != 1 || evSucc[o.ID] != 0) && !strings.Contains(o.Err, "verif:") {
				add("C01:sync-return-is-not-own-outcome", "SendMessage(s) reported error %q for message %d; its events: %d success, %d error", o.Err, o.ID, evSucc[o.ID], evErr[o.ID])
			}
			if strings.Contains(o.Err, "verif:") {
				add("C04:sync-return-values-differ-from-message", "message %d: %s", o.ID, o.Err)
			}
		}
	}
	for _, o := range res.Outcomes {
		if o.Retries != 0 || o.Flags != 0 || o.HasSeq {
			add("C01:event-carries-internal-state", "message %d returned with retries=%d flags=%d hasSeq=%v", o.ID, o.Retries, o.Flags, o.HasSeq)
			break
		}
	}
	// messages whose batch was answered with DuplicateSequenceNumber (the broker de-duplicated a resend and says so)
	dedupByError := map[int]bool{}
	finOnWire := false
	for _, b := range res.Batches {
		for _, r := range b.Records {
			if b.Verdict == sarama.ErrDuplicateSequenceNumber {
				dedupByError[idOfRecord(r)] = true
			}
			if len(r.Key) == 0 && len(r.Value) == 0 && idOfRecord(r) == 0 {
				finOnWire = true
			}
		}
	}
	if finOnWire {
		sig := "C04:internal-marker-sent-to-broker"
		if sc.Idempotent {
			sig = "C04:internal-marker-sent-to-broker-idempotent"
		}
		add(sig, "a produce request carried a record with nil key and nil value that the application did not submit (an internal fin marker)")
	}
	// ---- logs
	type pos struct {
		p   int32
		off int64
	}
	firstPos := map[int]pos{}
	copies := map[int]int{}
	for p := int32(0); p < sc.Partitions; p++ {
		for _, r := range res.Logs[p] {
			id := idOfRecord(r)
			m, known := byID[id]
			if !known || !submitted[id] {
				fsig := "C04:foreign-record-in-log"
				if sc.Idempotent && len(r.Key) == 0 && len(r.Value) == 0 {
					fsig = "C04:internal-marker-appended-idempotent"
				}
				add(fsig, "partition %d offset %d holds a record the application did not submit (key=%q value=%q)", p, r.Offset, r.Key, r.Value)
				continue
			}
			copies[id]++
			if _, seen := firstPos[id]; !seen {
				firstPos[id] = pos{p, r.Offset}
			}
			if m.Partition != p {
				add("C04:wrong-partition", "message %d (partition %d) found in partition %d", id, m.Partition, p)
			}
			if !bytes.Equal(r.Value, wireValueOf(sc, m)) || !bytes.Equal(r.Key, keyOf(m)) {
				add("C04:payload-altered", "message %d stored with key=%q value=%q", id, r.Key, r.Value)
			}
			if sc.Version.IsAtLeast(sarama.V0_11_0_0) {
				want := m.Headers
				got := 0
				for _, h := range r.Headers {
					if len(h.Key) > 0 && h.Key[0] == 'h' {
						got++
					}
				}
				if got != want {
					add("C04:headers-altered", "message %d stored with %d application headers, submitted %d", id, got, want)
				}
			}
			if m.HasTs && sc.Version.IsAtLeast(sarama.V0_10_0_0) && !r.Ts.Equal(time.Unix(1600000000+int64(m.ID), 0)) {
				add("C04:timestamp-altered", "message %d stored with timestamp %v", id, r.Ts)
			}
		}
	}
	_ = dedupByError
	// ---- C02 ordering per partition (messages submitted by one goroutine)
	for p := int32(0); p < sc.Partitions; p++ {
		lastSub := -1
		lastID := 0
		seen := map[int]bool{}
		for _, r := range res.Logs[p] {
			id := idOfRecord(r)
			if !submitted[id] || seen[id] {
				continue
			}
			seen[id] = true
			if subPos[id] < lastSub {
				sig := "C02:log-order"
				if sc.RetryMax == 0 {
					sig = "C02:log-order-retrymax0"
				}
				if sc.Idempotent {
					sig = "C02:log-order-idempotent"
				}
				add(sig, "partition %d: first copy of message %d (submitted #%d) is after message %d (submitted #%d)", p, id, subPos[id], lastID, lastSub)
				break
			}
			lastSub, lastID = subPos[id], id
		}
	}
	if sc.Acks != sarama.NoResponse {
		type so struct {
			sub int
			off int64
			id  int
		}
		per := map[int32][]so{}
		for _, o := range res.Outcomes {
			if o.Ok && count[o.ID] == 1 {
				per[o.Partition] = append(per[o.Partition], so{subPos[o.ID], o.Offset, o.ID})
			}
		}
		for p, l := range per {
			sort.Slice(l, func(i, j int) bool { return l[i].sub < l[j].sub })
			for i := 1; i < len(l); i++ {
				if l[i].off <= l[i-1].off {
					sig := "C02:success-offset-order"
					if sc.RetryMax == 0 {
						sig = "C02:success-offset-order-retrymax0"
					}
					if dedupByError[l[i].id] || dedupByError[l[i-1].id] {
						sig = "C02:success-offset-order:dedup-by-error-without-offset"
					} else if sc.Idempotent {
						sig += "-idempotent"
					}
					add(sig, "partition %d: message %d (earlier) offset %d, message %d (later) offset %d", p, l[i-1].id, l[i-1].off, l[i].id, l[i].off)
					break
				}
			}
		}
	}
	// ---- C04 success identifies where/what
	if sc.Acks != sarama.NoResponse {
		for _, o := range res.Outcomes {
			if !o.Ok || !submitted[o.ID] {
				continue
			}
			m := byID[o.ID]
			if o.Partition != m.Partition {
				add("C04:success-wrong-partition", "message %d reported on partition %d, partitioner chose %d", o.ID, o.Partition, m.Partition)
				continue
			}
			log := res.Logs[o.Partition]
			if o.Offset < 0 || o.Offset >= int64(len(log)) || idOfRecord(log[o.Offset]) != o.ID {
				holder := "nothing"
				if o.Offset >= 0 && o.Offset < int64(len(log)) {
					holder = fmt.Sprintf("message %d", idOfRecord(log[o.Offset]))
				}
				sig := "C04:success-offset-not-the-message"
				if sc.Idempotent {
					// the broker answered the batch as a duplicate of a cached (sequence, length) that belongs to other
					// records (see the C05 findings): the base offset it names is theirs
					sig = "C04:success-offset-not-the-message-idempotent"
				}
				if copies[o.ID] == 0 {
					sig = "C04:success-but-not-in-log"
					if sc.Idempotent {
						sig = "C04:success-but-not-in-log-idempotent"
					}
				} else if dedupByError[o.ID] {
					sig = "C04:dedup-by-error-success-without-offset"
				}
				add(sig, "message %d reported at partition %d offset %d which holds %s (copies in log: %d, idempotent=%v)", o.ID, o.Partition, o.Offset, holder, copies[o.ID], sc.Idempotent)
			}
		}
	}
	// ---- C05 idempotence
	if sc.Idempotent {
		// classify by the history shape so that known findings stay specific
		stamps := map[int][]string{} // id -> "epoch/seq" of every appended copy
		for p := int32(0); p < sc.Partitions; p++ {
			for _, r := range res.Logs[p] {
				stamps[idOfRecord(r)] = append(stamps[idOfRecord(r)], fmt.Sprintf("%d/%d", r.Epoch, r.Seq))
			}
		}
		// the producer bumps its epoch (and resets every sequence counter) when a message that already
		// carries a sequence number fails: everything that follows is "after an epoch bump"
		bumped := false
		stamped := map[int]bool{}
		for _, e := range res.Events {
			if e.Kind == "pp.seq" {
				stamped[e.ID] = true
			}
			if e.Kind == "ret.err" && stamped[e.ID] {
				bumped = true
			}
		}
		shape := func(id int) string {
			st := stamps[id]
			if len(st) < 2 {
				if bumped {
					return "after-epoch-bump"
				}
				return "no-epoch-bump"
			}
			e0 := strings.Split(st[0], "/")[0]
			same := true
			for _, x := range st[1:] {
				if strings.Split(x, "/")[0] != e0 {
					same = false
				}
			}
			if !same {
				return "copies-in-different-epochs"
			}
			if st[0] == st[1] {
				return "copies-with-same-epoch-and-sequence"
			}
			return "copies-resequenced-within-epoch"
		}
		for id, c := range copies {
			if c > 1 {
				add("C05:duplicate-append:"+shape(id), "message %d appears %d times in the log (epoch/sequence of the copies: %v)", id, c, stamps[id])
				break
			}
		}
		for _, o := range res.Outcomes {
			if o.Ok && submitted[o.ID] && copies[o.ID] != 1 {
				kind := "never-appended"
				if copies[o.ID] > 1 {
					kind = "appended-more-than-once"
				}
				add("C05:success-"+kind+":"+shape(o.ID), "message %d reported successful, copies in log: %d", o.ID, copies[o.ID])
				break
			}
		}
		// stamp rules on what each produce set carries (hook events bp.sent.stamp / bp.sent, pp.seq, retry, retrybatch):
		//   R1  a batch never carries an epoch older than the stamp of one of its messages
		//   R2  a whole-batch resend (retryBatch) goes out under the stamp of its previous send
		//   R3  before any epoch bump a message goes out under exactly the stamp it was given
		{
			type st struct{ epoch, seq int }
			msgStamp := map[int]st{}
			lastSent := map[int]st{}
			lastReentry := map[int]string{}
			bumpedSoFar := false
			stampedSoFar := map[int]bool{}
			stampsGiven := map[[2]int]int{}
			needBump := map[int]bool{}
			var cur *st
			for _, e := range res.Events {
				switch e.Kind {
				case "pp.seq":
					msgStamp[e.ID] = st{e.B, e.A}
					stampedSoFar[e.ID] = true
					// R4: the sequence given is the number of stamps already given to this partition in this epoch
					// (per-partition counters, all reset to 0 together with the epoch increment)
					k := [2]int{e.P, e.B}
					if e.A != stampsGiven[k] {
						add("C05:stamp-not-next-in-partition-epoch", "message %d of partition %d was given sequence %d in epoch %d; %d stamps were given there before", e.ID, e.P, e.A, e.B, stampsGiven[k])
					}
					stampsGiven[k]++
				case "ret.err":
					if stampedSoFar[e.ID] {
						bumpedSoFar = true
						needBump[e.ID] = true
					}
				case "txn.bump":
					// R5: the failure of a message that carried a sequence number bumps the epoch, exactly once
					if !needBump[e.ID] {
						add("C05:epoch-bump-without-failed-sequenced-message", "epoch bumped for message %d, which has no error event as a sequenced message (or was bumped before)", e.ID)
					}
					delete(needBump, e.ID)
				case "retry", "retrybatch":
					lastReentry[e.ID] = e.Kind
				case "bp.sent.stamp":
					cur = &st{e.A, e.B}
				case "bp.sent":
					if cur == nil || e.ID <= 0 {
						continue
					}
					wire := st{cur.epoch, cur.seq + e.B}
					ms, has := msgStamp[e.ID]
					if has && wire.epoch < ms.epoch {
						add("C05:batch-epoch-older-than-message-stamp", "message %d stamped (epoch %d, sequence %d) was sent in a batch of epoch %d", e.ID, ms.epoch, ms.seq, wire.epoch)
					}
					if prev, sent := lastSent[e.ID]; sent && lastReentry[e.ID] == "retrybatch" && prev != wire {
						add("C05:retrybatch-resend-restamped", "message %d resent by retryBatch under (epoch %d, sequence %d), previous send was (epoch %d, sequence %d)", e.ID, wire.epoch, wire.seq, prev.epoch, prev.seq)
					}
					if has && !bumpedSoFar && wire != ms {
						add("C05:wire-stamp-differs-from-message-stamp-before-any-epoch-bump", "message %d stamped (epoch %d, sequence %d) went out as (epoch %d, sequence %d)", e.ID, ms.epoch, ms.seq, wire.epoch, wire.seq)
					}
					if !has {
						add("C05:message-sent-without-sequence", "message %d was sent by the idempotent producer without having been given a sequence number", e.ID)
					}
					lastSent[e.ID] = wire
				case "bp.sent.end":
					cur = nil
				}
			}
			if res.ClosedOK {
				for id := range needBump {
					add("C05:failed-sequenced-message-without-epoch-bump", "message %d carried a sequence number and was failed, but the producer epoch was not bumped (the broker will never see that sequence number)", id)
					break
				}
			}
		}
		// within one epoch, first sends of a partition are consecutive; resends identical
		type key struct {
			p     int32
			epoch int16
		}
		next := map[key]int32{}
		seenRange := map[string]string{}
		for _, b := range res.Batches {
			if b.Pid < 0 {
				add("C05:batch-without-producer-id", "request %d partition %d", b.ReqNo, b.Partition)
				continue
			}
			var ids []string
			for _, r := range b.Records {
				ids = append(ids, strconv.Itoa(idOfRecord(r)))
			}
			content := strings.Join(ids, ",")
			rk := fmt.Sprintf("%d/%d/%d", b.Partition, b.Epoch, b.FirstSeq)
			if prev, ok := seenRange[rk]; ok {
				if prev != content {
					rsig := "C05:resend-differs:no-epoch-bump"
					if bumped {
						rsig = "C05:resend-differs:after-epoch-bump"
					}
					add(rsig, "partition %d epoch %d firstSeq %d sent with records [%s] and again with [%s]", b.Partition, b.Epoch, b.FirstSeq, prev, content)
				}
				continue
			}
			seenRange[rk] = content
			k := key{b.Partition, b.Epoch}
			if b.FirstSeq != next[k] {
				ssig := "C05:sequence-not-consecutive:no-epoch-bump"
				if bumped {
					ssig = "C05:sequence-not-consecutive:after-epoch-bump"
				}
				if b.FirstSeq < next[k] {
					ssig += ":overlaps-earlier-batch"
				} else {
					ssig += ":gap"
				}
				add(ssig, "partition %d epoch %d: batch starts at sequence %d, expected %d (request %d)", b.Partition, b.Epoch, b.FirstSeq, next[k], b.ReqNo)
			}
			next[k] = b.FirstSeq + int32(len(b.Records))
		}
	}
	// ---- C16 limits
	for _, rq := range res.Requests {
		if sc.MaxMsgs > 0 && rq.Records > sc.MaxMsgs {
			add("C16:request-exceeds-max-messages", "request %d carries %d records, Flush.MaxMessages=%d", rq.ReqNo, rq.Records, sc.MaxMsgs)
		}
		if rq.WireBytes > int(sarama.MaxRequestSize) {
			add("C16:request-exceeds-max-request-size", "request %d is %d bytes", rq.ReqNo, rq.WireBytes)
		}
	}
	perBatchCount := map[string]int{}
	for _, b := range res.Batches {
		perBatchCount[fmt.Sprintf("%d/%d", b.ReqNo, b.Partition)] = len(b.Records)
	}
	for _, rq := range res.Requests {
		for tp, n := range rq.PartBytes {
			var part int
			fmt.Sscanf(tp, "t/%d", &part)
			if n > sc.MaxMsgByte && perBatchCount[fmt.Sprintf("%d/%d", rq.ReqNo, part)] > 1 {
				add("C16:partition-batch-exceeds-max-message-bytes", "request %d %s carries %d key+value bytes in %d records, MaxMessageBytes=%d", rq.ReqNo, tp, n, perBatchCount[fmt.Sprintf("%d/%d", rq.ReqNo, part)], sc.MaxMsgByte)
			}
		}
	}
	for _, o := range res.Outcomes {
		m, ok := byID[o.ID]
		if !ok {
			continue
		}
		sz := 0
		if m.KeyLen > 0 {
			sz += m.KeyLen
		}
		if v := wireValueOf(sc, m); v != nil {
			sz += len(v) // what the message weighs when the dispatcher checks it (after the interceptors)
		}
		if sz > sc.MaxMsgByte && o.Ok {
			add("C16:oversize-message-sent", "message %d with %d key+value bytes reported successful, MaxMessageBytes=%d", o.ID, sz, sc.MaxMsgByte)
		}
	}
	if len(res.Reuse) > 0 {
		var want []string
		for k := 0; k < sc.Icepts; k++ {
			want = append(want, fmt.Sprintf("i%d", k))
		}
		for i, got := range res.Reuse {
			if got != strings.Join(want, ",") && got != "close-hang" && !strings.HasPrefix(got, "new: ") {
				add("C18:second-producer-from-same-config", "message %d of a second producer built from the same Config carries interceptor marks [%s], expected %v", i, got, want)
				break
			}
		}
	}
	// ---- C18 interceptors: each adds one header i<k>; exactly once each, in order
	if sc.Icepts > 0 {
		checkH := func(where string, id int, hs []sarama.RecordHeader) {
			var got []string
			for _, h := range hs {
				if len(h.Key) > 0 && h.Key[0] == 'i' {
					got = append(got, string(h.Key))
				}
			}
			var want []string
			for k := 0; k < sc.Icepts; k++ {
				want = append(want, fmt.Sprintf("i%d", k))
			}
			if strings.Join(got, ",") != strings.Join(want, ",") {
				sig := "C18:interceptor-not-exactly-once"
				if len(got) > len(want) {
					sig = "C18:interceptor-applied-again"
				}
				add(sig, "%s: message %d carries interceptor marks [%s], expected [%s]", where, id, strings.Join(got, ","), strings.Join(want, ","))
			}
		}
		for _, o := range res.Outcomes {
			if submitted[o.ID] && !(strings.Contains(o.Err, "shutting down")) {
				checkH("event", o.ID, o.Headers)
			}
		}
		if sc.Version.IsAtLeast(sarama.V0_11_0_0) {
			for p := int32(0); p < sc.Partitions; p++ {
				for _, r := range res.Logs[p] {
					if id := idOfRecord(r); submitted[id] {
						checkH("log", id, r.Headers)
					}
				}
			}
		}
		icMarker := 0
		for _, e := range res.Events {
			if e.Kind == "d.icept" && e.ID < 0 {
				icMarker++
			}
		}
		if icMarker > 0 {
			add("C18:interceptor-applied-to-internal-marker", "%d interceptor applications to messages the application did not submit", icMarker)
		}
	}
	return fails
}

func keyOf(m Msg) []byte {
	if m.KeyLen < 0 {
		return nil
	}
	return payload(m.ID, m.KeyLen)
}

// TraceLines renders the hook events of a scenario as operation lines for the Lean producer model.
func TraceLines(res *Result) []string {
	sc := res.Sc
	idem := 0
	if sc.Idempotent {
		idem = 1
	}
	slots := sc.Icepts
	if sc.NilIcept && sc.Icepts > 0 {
		slots++ // the nil slot is applied (and recovered from) like any other
	}
	lines := []string{fmt.Sprintf("reset %d %d %d", sc.RetryMax, slots, idem)}
	for _, e := range res.Events {
		lines = append(lines, fmt.Sprintf("ev %s %d %d %d %d", e.Kind, e.ID, e.A, e.B, e.P))
	}
	closed := 0
	if res.ClosedOK {
		closed = 1
	}
	lines = append(lines, fmt.Sprintf("end %d", closed))
	return lines
}

// SyncLines renders a SyncProducer scenario for Model.SyncShim: per completed call, the expectation slots created
// (message order), the terminal events the async producer emitted for those messages (hook order), and what the
// call reported for each message; the model answers every read with the content of that message's own slot.
func SyncLines(res *Result) (ops, answers []string) {
	if !res.Sc.Sync {
		return
	}
	okOf := map[int]bool{}
	for _, o := range res.Outcomes {
		okOf[o.ID] = o.Ok || strings.Contains(o.Err, "verif:")
	}
	for _, ids := range res.SyncBursts {
		in := map[int]bool{}
		for _, id := range ids {
			in[id] = true
			ops, answers = append(ops, fmt.Sprintf("sy submit %d", id)), append(answers, "ok")
		}
		for _, e := range res.Events {
			if !in[e.ID] {
				continue
			}
			switch e.Kind {
			case "ret.succ":
				ops, answers = append(ops, fmt.Sprintf("sy event %d ok", e.ID)), append(answers, "ok")
			case "ret.err", "d.reject":
				ops, answers = append(ops, fmt.Sprintf("sy event %d err", e.ID)), append(answers, "ok")
			}
		}
		for _, id := range ids {
			a := "ret err"
			if okOf[id] {
				a = "ret ok"
			}
			ops, answers = append(ops, fmt.Sprintf("sy read %d", id)), append(answers, a)
		}
	}
	return
}

// BrokerLines renders the idempotence decisions of the simulated brokers as operation lines for the Lean broker
// model: one line per batch that reached the producer-id/epoch/sequence check, with the simulated verdict.
func BrokerLines(res *Result) (ops, answers []string) {
	for _, b := range res.Batches {
		if b.Pid < 0 {
			continue
		}
		ans := ""
		switch {
		case b.Appended:
			ans = fmt.Sprintf("app %d", b.Base)
		case b.Dup:
			ans = fmt.Sprintf("dup %d", b.Base)
		case b.Verdict == sarama.ErrOutOfOrderSequenceNumber:
			ans = "ooo"
		case b.Verdict == sarama.ErrInvalidProducerEpoch:
			ans = "fenced"
		default:
			continue // faulted before the check (error without append, connection dropped, not leader)
		}
		var ids []string
		for _, r := range b.Records {
			ids = append(ids, strconv.Itoa(idOfRecord(r)))
		}
		pl := "-"
		if len(ids) > 0 {
			pl = strings.Join(ids, ",")
		}
		ops = append(ops, fmt.Sprintf("bb %d %d %d %s", b.Partition, b.Epoch, b.FirstSeq, pl))
		answers = append(answers, ans)
	}
	return
}

type panicCode int

// scriptedPanic panics with values of different kinds in turn: a string, an error, a value of a private integer type,
// a struct, and a genuine runtime error
func scriptedPanic(n int, text string) {
	switch n % 5 {
	case 0:
		panic(text)
	case 1:
		panic(fmt.Errorf("%s", text))
	case 2:
		panic(panicCode(42))
	case 3:
		panic(struct{ Why string }{text})
	default:
		var m map[string]int
		m[text] = 1 // assignment to entry in nil map
	}
}
