// Package omc: close scenarios of a stand-alone OffsetManager with several PartitionOffsetManagers against the
// simulated cluster: some partition managers have marked offsets, some are closed early (AsyncClose / Close) while
// clean or dirty, the coordinator starts failing (commit errors, dropped connections, coordinator lookup failing)
// before the shutdown, then OffsetManager.Close, a second Close, Client.Close.  Oracle (C12): nothing panics (callers
// and sarama's own goroutines), every Close returns within the bound, every Errors() channel is closed after its
// last event.  The lifecycle hook events are recorded for the Lean acceptors (offset manager, POM, client, broker).
package omc

import (
	"fmt"
	"strconv"
	"strings"
	"sync"
	"time"

	"github.com/Shopify/sarama"
	"verif/harness/hlib"
	"verif/harness/life"
)

const Rule = "offset-manager-close scenario = f(seed): 1-2 brokers, 2-4 partition managers (each: marked offset or clean; closed early by AsyncClose / Close / left to OffsetManager.Close), auto-commit on (2 ms) / off, Return.Errors on/off, Retry.Max 0-3, coordinator mode from a switch point on (healthy / commit error codes / commit connection dropped / coordinator lookup failing), OffsetManager.Close twice, Client.Close. non-trivial = at least one partition manager closed early and at least one commit or lookup failed"

type Scenario struct {
	Seed       uint64
	Brokers    int
	Poms       int
	Dirty      []bool
	Early      []string // "" | "async" | "close"
	EarlyFirst bool     // early closes happen before the offsets are marked (closed while clean)
	AutoCommit bool
	ReturnErrs bool
	RetryMax   int
	Mode       string // healthy | commit-err | commit-drop | coord-down
	SettleMs   int    // pause between the fault switch and the shutdown
	Version    sarama.KafkaVersion
}

func Gen(seed uint64) *Scenario {
	r := hlib.NewRand(seed)
	sc := &Scenario{Seed: seed}
	sc.Brokers = r.Range(1, 2)
	sc.Poms = r.Range(2, 4)
	for i := 0; i < sc.Poms; i++ {
		sc.Dirty = append(sc.Dirty, r.Chance(1, 2))
		sc.Early = append(sc.Early, []string{"", "async", "async", "close"}[r.Intn(4)])
	}
	sc.EarlyFirst = r.Chance(1, 3)
	sc.AutoCommit = r.Chance(3, 4)
	sc.ReturnErrs = r.Chance(5, 6)
	sc.RetryMax = r.Range(0, 3)
	sc.Mode = []string{"healthy", "commit-err", "commit-drop", "coord-down", "coord-down"}[r.Intn(5)]
	sc.SettleMs = r.Pick(0, 0, 3, 8)
	sc.Version = []sarama.KafkaVersion{sarama.V0_9_0_0, sarama.V0_10_2_0, sarama.V2_1_0_0}[r.Intn(3)]
	return sc
}

func (sc *Scenario) String() string {
	return fmt.Sprintf("seed=%d brokers=%d poms=%d dirty=%v early=%v earlyFirst=%v auto=%v returnErrors=%v retry=%d mode=%s settle=%dms ver=%s",
		sc.Seed, sc.Brokers, sc.Poms, sc.Dirty, sc.Early, sc.EarlyFirst, sc.AutoCommit, sc.ReturnErrs, sc.RetryMax, sc.Mode, sc.SettleMs, sc.Version)
}

type Fail struct{ Sig, Detail string }

type Result struct {
	Fails      []Fail
	Life       []string
	Errors     int  // errors received on the Errors() channels
	FaultsSeen bool // at least one request was faulted
	NewErr     string
	Hung       bool
}

func bounded(d time.Duration, f func()) (panicked string, ok bool) {
	done := make(chan string, 1)
	go func() {
		defer func() {
			if p := recover(); p != nil {
				done <- fmt.Sprint(p)
			}
		}()
		f()
		done <- ""
	}()
	select {
	case s := <-done:
		return s, true
	case <-time.After(d):
		return "", false
	}
}

func Run(sc *Scenario) *Result {
	res := &Result{}
	var fmu sync.Mutex
	add := func(sig, format string, a ...interface{}) {
		fmu.Lock()
		res.Fails = append(res.Fails, Fail{sig, fmt.Sprintf(format, a...)})
		fmu.Unlock()
	}
	sim := sarama.VerifNewSim(sc.Brokers, map[string]int32{"t": int32(sc.Poms)})
	defer sim.Close()
	var mu sync.Mutex
	faulty := false
	sim.GroupScript = func(kind string, n int) sarama.KError {
		mu.Lock()
		defer mu.Unlock()
		if !faulty {
			return sarama.ErrNoError
		}
		switch sc.Mode {
		case "commit-err":
			if kind == "commit" {
				res.FaultsSeen = true
				return []sarama.KError{sarama.ErrRequestTimedOut, sarama.ErrNotCoordinatorForConsumer, sarama.ErrOffsetMetadataTooLarge, sarama.ErrUnknownTopicOrPartition}[n%4]
			}
		case "commit-drop":
			if kind == "commit" {
				res.FaultsSeen = true
				return sarama.KError(-2)
			}
		case "coord-down":
			if kind == "commit" || kind == "findcoord" {
				res.FaultsSeen = true
				return sarama.KError(-2)
			}
		}
		return sarama.ErrNoError
	}
	cfg := sarama.NewConfig()
	cfg.Version = sc.Version
	cfg.Consumer.Return.Errors = sc.ReturnErrs
	cfg.Consumer.Offsets.AutoCommit.Enable = sc.AutoCommit
	cfg.Consumer.Offsets.AutoCommit.Interval = 2 * time.Millisecond
	cfg.Consumer.Offsets.Retry.Max = sc.RetryMax
	cfg.Metadata.Retry.Max = 1
	cfg.Metadata.Retry.Backoff = time.Millisecond
	cfg.Net.ReadTimeout = 200 * time.Millisecond
	cfg.Net.DialTimeout = 500 * time.Millisecond
	if rec := life.Begin(fmt.Sprintf("om:%d", sc.Seed)); rec != nil {
		sarama.VerifSinkKV = rec.Event
		defer func() {
			var panics []string
			res.Life, panics = rec.End()
			sarama.VerifSinkKV = nil
			if len(panics) > 0 {
				add("C12:offset-manager-goroutine-panic", "recovered in one of sarama's goroutines: %s", strings.Join(panics, " | "))
			}
		}()
	}
	client, err := sarama.NewClient(sim.Addrs(), cfg)
	if err != nil {
		res.NewErr = err.Error()
		return res
	}
	om, err := sarama.NewOffsetManagerFromClient("g", client)
	if err != nil {
		res.NewErr = err.Error()
		_ = client.Close()
		return res
	}
	var poms []sarama.PartitionOffsetManager
	drained := make([]chan struct{}, sc.Poms)
	for i := 0; i < sc.Poms; i++ {
		pom, err := om.ManagePartition("t", int32(i))
		if err != nil {
			res.NewErr = err.Error()
			_ = om.Close()
			_ = client.Close()
			return res
		}
		poms = append(poms, pom)
		drained[i] = make(chan struct{})
		// the application services every error channel until it is closed
		go func(pom sarama.PartitionOffsetManager, d chan struct{}) {
			for range pom.Errors() {
				mu.Lock()
				res.Errors++
				mu.Unlock()
			}
			close(d)
		}(pom, drained[i])
	}
	var earlyWG sync.WaitGroup
	early := func() {
		for i, pom := range poms {
			switch sc.Early[i] {
			case "async":
				if p, _ := bounded(8*time.Second, pom.AsyncClose); p != "" {
					add("C12:offset-manager-close-panic", "PartitionOffsetManager.AsyncClose panicked: %s", p)
				}
			case "close":
				// Close waits until the manager was released (next commit tick or OffsetManager.Close)
				earlyWG.Add(1)
				go func(pom sarama.PartitionOffsetManager) {
					defer earlyWG.Done()
					defer func() {
						if p := recover(); p != nil {
							add("C12:offset-manager-close-panic", "PartitionOffsetManager.Close panicked: %v", p)
						}
					}()
					_ = pom.Close()
				}(pom)
			}
		}
	}
	mark := func() {
		for i, pom := range poms {
			if sc.Dirty[i] {
				pom.MarkOffset(int64(10+i), "m")
			}
		}
	}
	mu.Lock()
	faulty = sc.Mode != "healthy"
	mu.Unlock()
	if sc.EarlyFirst {
		early()
		mark()
	} else {
		mark()
		early()
	}
	time.Sleep(time.Duration(sc.SettleMs) * time.Millisecond)
	if p, ok := bounded(8*time.Second, func() { _ = om.Close() }); !ok {
		add("C12:offset-manager-close-hang", "OffsetManager.Close did not return within 8s")
		res.Hung = true
		return res
	} else if p != "" {
		add("C12:offset-manager-close-panic", "OffsetManager.Close panicked: %s", p)
	}
	for i, d := range drained {
		select {
		case <-d:
		case <-time.After(8 * time.Second):
			add("C12:pom-errors-not-closed", "Errors() of partition manager %d still open 8s after OffsetManager.Close returned", i)
			res.Hung = true
		}
	}
	ew := make(chan struct{})
	go func() { earlyWG.Wait(); close(ew) }()
	select {
	case <-ew:
	case <-time.After(8 * time.Second):
		add("C12:pom-close-hang", "PartitionOffsetManager.Close did not return within 8s after OffsetManager.Close returned")
		res.Hung = true
	}
	if p, ok := bounded(8*time.Second, func() { _ = om.Close() }); !ok {
		add("C12:offset-manager-close-hang", "second OffsetManager.Close did not return within 8s")
		res.Hung = true
	} else if p != "" {
		add("C12:offset-manager-close-panic", "second OffsetManager.Close panicked: %s", p)
	}
	if p, ok := bounded(8*time.Second, func() { _ = client.Close() }); !ok {
		add("C12:client-close-hang", "Client.Close after OffsetManager.Close did not return within 8s")
		res.Hung = true
	} else if p != "" {
		add("C12:client-close-panic", "Client.Close panicked: %s", p)
	}
	return res
}

func RunAll(run *hlib.Run, prop string, sigPrefixes []string, n int) {
	if n == 0 {
		n = run.N
	}
	if n == 0 {
		n = 200
		if run.Tier == "thorough" {
			n = 4000
		}
	}
	var seeds []uint64
	if lines := run.ReplayLines(); lines != nil {
		for _, l := range lines {
			t := strings.Fields(l)
			s, ok := life.ReplaySeed(t, "om")
			if len(t) >= 2 && t[0] == "om" {
				s, _ = strconv.ParseUint(t[1], 10, 64)
				ok = true
			}
			if ok {
				for k := 0; k < 20; k++ {
					seeds = append(seeds, s)
				}
			}
		}
	} else {
		for i := 0; i < n; i++ {
			seeds = append(seeds, run.Seed*1000003+1100000+uint64(i))
		}
	}
	for idx, s := range seeds {
		if !run.Mine(idx) {
			continue
		}
		sc := Gen(s)
		input := "om " + strconv.FormatUint(s, 10)
		life.Breadcrumb(run.OutDir, input)
		res := Run(sc)
		life.Breadcrumb(run.OutDir, "")
		if res.NewErr != "" {
			run.Count("offset-manager-not-created")
			run.Case(input + " # " + sc.String() + " => " + res.NewErr)
			continue
		}
		run.Case(input + " # " + sc.String())
		run.Count("om-mode:" + sc.Mode)
		anyEarly := false
		for _, e := range sc.Early {
			if e != "" {
				anyEarly = true
				run.Count("pom-early-" + e)
			}
		}
		if res.Errors > 0 {
			run.Count("pom-errors-delivered")
		}
		if anyEarly && res.FaultsSeen {
			run.Nontrivial(fmt.Sprintf("%v|%v|%v|%v|%s|%d|%v", sc.Dirty, sc.Early, sc.EarlyFirst, sc.AutoCommit, sc.Mode, sc.RetryMax, sc.ReturnErrs))
		}
		if !res.Hung {
			for _, l := range res.Life {
				run.Emit(l, "ok")
			}
		}
		for _, f := range res.Fails {
			mine := false
			for _, p := range sigPrefixes {
				if strings.HasPrefix(f.Sig, p) {
					mine = true
				}
			}
			if mine {
				run.IOFail(f.Sig, input, f.Detail+" | "+sc.String())
			}
		}
	}
}
