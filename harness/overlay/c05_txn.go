//go:build verif
// +build verif

package sarama

// VerifTxnMgr drives the real transactionManager's sequence counters directly (C05: per topic-partition counters,
// all reset together with the epoch increment).
type VerifTxnMgr struct{ t *transactionManager }

func VerifNewTxnMgr() *VerifTxnMgr {
	return &VerifTxnMgr{&transactionManager{producerID: 1, producerEpoch: 0, sequenceNumbers: map[string]int32{}}}
}

func (v *VerifTxnMgr) Seq(topic string, partition int32) (int32, int16) {
	return v.t.getAndIncrementSequenceNumber(topic, partition)
}

func (v *VerifTxnMgr) Bump() { v.t.bumpEpoch() }
