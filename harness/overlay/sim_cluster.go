//go:build verif
// +build verif

package sarama

// VerifSim: an in-process simulated Kafka cluster for the pipeline harnesses (C01, C02, C04, C05, C12, C16, C18).
// Brokers listen on 127.0.0.1:0; requests are decoded with sarama's own decodeRequest and answered with sarama's
// own response encoders.  Produce requests are appended to per-partition logs under a fault script; the broker
// side enforces Kafka's producer-id / epoch / sequence rules when a batch carries a producer id.

import (
	"encoding/binary"
	"fmt"
	"net"
	"sort"
	"sync"
	"time"
)

// VerifSimRecord is one record of a partition log.
type VerifSimRecord struct {
	Key, Value []byte
	Headers    []RecordHeader
	Ts         time.Time
	Pid        int64
	Epoch      int16
	Seq        int32
	Offset     int64
	ReqNo      int // produce request (global arrival number) that appended it
}

// VerifSimBatch is one per-partition batch of a produce request as seen by a broker.
type VerifSimBatch struct {
	ReqNo     int
	Broker    int32
	Topic     string
	Partition int32
	Pid       int64
	Epoch     int16
	FirstSeq  int32
	Records   []VerifSimRecord
	Verdict   KError
	Appended  bool
	Dup       bool
	Base      int64
	V2        bool
}

// VerifSimFault says what a broker does with one produce request.
type VerifSimFault struct {
	// Kind: "ok" | "err" (answer Code without appending) | "errAppend" (append, then answer Code) |
	// "dropBefore" (close the connection, nothing appended) | "dropAfter" (append, then close without answering) |
	// "noReply" (append, never answer: the client runs into its read timeout)
	Kind string
	Code KError
	// OnlyPartition >= 0 restricts err/errAppend to that partition (the others are appended normally)
	OnlyPartition int32
	// MoveLeader: after handling, move the leadership of every partition in the request led by this broker to the next broker
	MoveLeader bool
	// DelayMs delays the answer
	DelayMs int
	// LoseLeaderMs > 0: after handling, every partition of the request led by this broker has NO leader for that long
	// (metadata answers LeaderNotAvailable), then this broker leads it again
	LoseLeaderMs int
}

type VerifSimRequestInfo struct {
	ReqNo     int
	Broker    int32
	Records   int
	WireBytes int
	At        time.Time
	Version   int16
	Acks      RequiredAcks
	PartBytes map[string]int // "topic/partition" -> sum of key+value bytes
}

type simIdem struct {
	epoch   int16
	nextSeq int32
	cache   [][3]int64 // firstSeq, n, base
	known   bool
}

type VerifSim struct {
	mu       sync.Mutex
	brokers  []*simBroker
	Topics   map[string]int32
	leader   map[string][]int32
	logs     map[string][]VerifSimRecord
	idem     map[string]*simIdem
	Batches  []VerifSimBatch
	Requests []VerifSimRequestInfo
	produceN int
	metaN    int
	nextPid  int64
	// Fault is consulted for every produce request (global arrival number, broker id); nil = always ok
	Fault func(reqNo int, broker int32) VerifSimFault
	// MetaFail is consulted for every metadata request; true = close the connection instead of answering
	MetaFail func(n int) bool
	// DupAsError: answer a cached duplicate batch with ErrDuplicateSequenceNumber instead of success + original offset
	DupAsError bool
	closed     bool
	// consumer side (sim_fetch.go)
	FetchFault      func(n int, broker int32) VerifSimFetchFault
	FetchMaxRecords int
	fetchN          int
	// OffsetFault: error code for the n-th ListOffsets request (ErrNoError = answer normally)
	OffsetFault func(n int) KError
	offsetN     int
	fetches         []VerifSimFetchInfo
	logStart        map[string]int64
	// group coordinator (sim_group.go)
	GroupScript VerifSimGroupScript
	GroupGhosts int
	// GroupFollower: the real member is a follower (a ghost leads); it is assigned GroupFollowerParts of GroupFollowerTopic
	GroupFollower      bool
	GroupFollowerTopic string
	GroupFollowerParts []int32
	// MetaDelayMs delays every metadata answer (client-close scenarios)
	MetaDelayMs int
	groups      map[string]*simGroup
	// GroupMulti: several real members share the group (sim_groupmulti.go)
	GroupMulti bool
	Multi      VerifSimMulti
	mgroups    map[string]*simMGroup
	groupReqs   []VerifSimGroupReq
	groupSeq    int
	// Other handles request types the cluster does not know (group/offset/fetch protocols are added by other harnesses)
	Other func(b int32, body protocolBody) encoderWithHeader
}

type simBroker struct {
	id    int32
	ln    net.Listener
	sim   *VerifSim
	conns []net.Conn
	down  bool
}

func tpKey(t string, p int32) string { return fmt.Sprintf("%s/%d", t, p) }

// VerifNewSim starts nBrokers brokers; topics maps topic name -> partition count; partition p is led by broker p % nBrokers.
func VerifNewSim(nBrokers int, topics map[string]int32) *VerifSim {
	s := &VerifSim{Topics: topics, leader: map[string][]int32{}, logs: map[string][]VerifSimRecord{}, idem: map[string]*simIdem{}, nextPid: 1000, logStart: map[string]int64{}}
	for i := 0; i < nBrokers; i++ {
		ln, err := net.Listen("tcp", "127.0.0.1:0")
		if err != nil {
			panic(err)
		}
		b := &simBroker{id: int32(i + 1), ln: ln, sim: s}
		s.brokers = append(s.brokers, b)
		go b.accept()
	}
	for t, n := range topics {
		l := make([]int32, n)
		for p := range l {
			l[p] = s.brokers[p%nBrokers].id
		}
		s.leader[t] = l
	}
	return s
}

// VerifMsgRetries reads the retry counter a message struct carries (0 once the producer has handed the struct back).
func VerifMsgRetries(m *ProducerMessage) int { return m.retries }

// AddPartitions grows a topic by n partitions (leaders spread over the brokers): what a partition-count change of a
// subscribed topic looks like to the client from its next metadata response on.
func (s *VerifSim) AddPartitions(topic string, n int) {
	s.mu.Lock()
	defer s.mu.Unlock()
	for i := 0; i < n; i++ {
		p := len(s.leader[topic])
		s.leader[topic] = append(s.leader[topic], s.brokers[p%len(s.brokers)].id)
	}
	s.Topics[topic] = int32(len(s.leader[topic]))
}

func (s *VerifSim) Addrs() []string {
	var a []string
	for _, b := range s.brokers {
		a = append(a, b.ln.Addr().String())
	}
	return a
}

func (s *VerifSim) Close() {
	s.mu.Lock()
	s.closed = true
	for _, gr := range s.mgroups {
		gr.cond.Broadcast()
	}
	var conns []net.Conn
	for _, b := range s.brokers {
		b.ln.Close()
		conns = append(conns, b.conns...)
	}
	s.mu.Unlock()
	for _, c := range conns {
		c.Close()
	}
}

// SetLeader changes the leadership of a partition (-1 = no leader).
func (s *VerifSim) SetLeader(topic string, p int32, broker int32) {
	s.mu.Lock()
	s.leader[topic][p] = broker
	s.mu.Unlock()
}

func (s *VerifSim) Leader(topic string, p int32) int32 {
	s.mu.Lock()
	defer s.mu.Unlock()
	return s.leader[topic][p]
}

// Log returns a copy of a partition's log.
func (s *VerifSim) Log(topic string, p int32) []VerifSimRecord {
	s.mu.Lock()
	defer s.mu.Unlock()
	return append([]VerifSimRecord(nil), s.logs[tpKey(topic, p)]...)
}

func (s *VerifSim) Snapshot() ([]VerifSimBatch, []VerifSimRequestInfo) {
	s.mu.Lock()
	defer s.mu.Unlock()
	return append([]VerifSimBatch(nil), s.Batches...), append([]VerifSimRequestInfo(nil), s.Requests...)
}

func (b *simBroker) accept() {
	for {
		c, err := b.ln.Accept()
		if err != nil {
			return
		}
		b.sim.mu.Lock()
		if b.sim.closed {
			b.sim.mu.Unlock()
			c.Close()
			return
		}
		b.conns = append(b.conns, c)
		b.sim.mu.Unlock()
		go b.serve(c)
	}
}

func simHeader(headerVersion int16, correlationID int32, payloadLength uint32) []byte {
	headerLength := uint32(8)
	if headerVersion >= 1 {
		headerLength = 9
	}
	h := make([]byte, headerLength)
	binary.BigEndian.PutUint32(h, payloadLength+headerLength-4)
	binary.BigEndian.PutUint32(h[4:], uint32(correlationID))
	if headerVersion >= 1 {
		binary.PutUvarint(h[8:], 0)
	}
	return h
}

func (b *simBroker) serve(c net.Conn) {
	defer c.Close()
	for {
		req, n, err := decodeRequest(c)
		if err != nil {
			return
		}
		var res encoderWithHeader
		closeAfter := false
		delay := 0
		switch body := req.body.(type) {
		case *MetadataRequest:
			res, closeAfter = b.sim.metadata(body)
			if d := b.sim.MetaDelayMs; d > 0 {
				delay = d
			}
		case *ProduceRequest:
			res, closeAfter, delay = b.sim.produce(b.id, body, n)
			if body.RequiredAcks == NoResponse && !closeAfter {
				continue
			}
		case *InitProducerIDRequest:
			b.sim.mu.Lock()
			b.sim.nextPid++
			res = &InitProducerIDResponse{ProducerID: b.sim.nextPid, ProducerEpoch: 0}
			b.sim.mu.Unlock()
		case *ApiVersionsRequest:
			res = &ApiVersionsResponse{}
		case *FetchRequest:
			res, closeAfter = b.sim.fetch(b.id, body)
		case *OffsetRequest:
			res = b.sim.listOffsets(b.id, body)
		default:
			if b.sim.GroupMulti {
				if gres, gclose, ok := b.sim.handleGroupMulti(req.clientID, req.body); ok {
					res, closeAfter = gres, gclose
					break
				}
			}
			if gres, gclose, ok := b.sim.handleGroup(b.id, req.body); ok {
				res, closeAfter = gres, gclose
			} else if b.sim.Other != nil {
				res = b.sim.Other(b.id, req.body)
			}
		}
		if closeAfter {
			return
		}
		if res == nil {
			continue // never answered
		}
		if delay > 0 {
			time.Sleep(time.Duration(delay) * time.Millisecond)
		}
		enc, err := encode(res, nil)
		if err != nil {
			return
		}
		if _, err := c.Write(append(simHeader(res.headerVersion(), req.correlationID, uint32(len(enc))), enc...)); err != nil {
			return
		}
	}
}

func (s *VerifSim) metadata(req *MetadataRequest) (encoderWithHeader, bool) {
	s.mu.Lock()
	defer s.mu.Unlock()
	s.metaN++
	if s.MetaFail != nil && s.MetaFail(s.metaN) {
		return nil, true
	}
	res := &MetadataResponse{Version: req.Version}
	for _, b := range s.brokers {
		res.AddBroker(b.ln.Addr().String(), b.id)
	}
	res.ControllerID = s.brokers[0].id
	topics := req.Topics
	if len(topics) == 0 {
		for t := range s.Topics {
			topics = append(topics, t)
		}
		sort.Strings(topics)
	}
	for _, t := range topics {
		l, ok := s.leader[t]
		if !ok {
			res.AddTopic(t, ErrUnknownTopicOrPartition)
			continue
		}
		for p, br := range l {
			if br < 0 {
				res.AddTopicPartition(t, int32(p), -1, nil, nil, nil, ErrLeaderNotAvailable)
			} else {
				res.AddTopicPartition(t, int32(p), br, []int32{br}, []int32{br}, nil, ErrNoError)
			}
		}
	}
	return res, false
}

func simRecordsOf(r Records) (recs []VerifSimRecord, pid int64, epoch int16, firstSeq int32, v2 bool) {
	pid = -1
	if r.RecordBatch != nil {
		rb := r.RecordBatch
		pid, epoch, firstSeq, v2 = rb.ProducerID, rb.ProducerEpoch, rb.FirstSequence, true
		for i, rec := range rb.Records {
			var hs []RecordHeader
			for _, h := range rec.Headers {
				hs = append(hs, *h)
			}
			recs = append(recs, VerifSimRecord{Key: rec.Key, Value: rec.Value, Headers: hs, Ts: rb.FirstTimestamp.Add(rec.TimestampDelta),
				Pid: pid, Epoch: epoch, Seq: firstSeq + int32(i)})
		}
		return
	}
	if r.MsgSet != nil {
		var walk func(ms *MessageSet)
		walk = func(ms *MessageSet) {
			for _, mb := range ms.Messages {
				if mb.Msg.Set != nil {
					walk(mb.Msg.Set)
				} else {
					recs = append(recs, VerifSimRecord{Key: mb.Msg.Key, Value: mb.Msg.Value, Ts: mb.Msg.Timestamp, Pid: -1})
				}
			}
		}
		walk(r.MsgSet)
	}
	return
}

func (s *VerifSim) produce(broker int32, req *ProduceRequest, wire int) (encoderWithHeader, bool, int) {
	s.mu.Lock()
	defer s.mu.Unlock()
	s.produceN++
	reqNo := s.produceN
	f := VerifSimFault{Kind: "ok", OnlyPartition: -1}
	if s.Fault != nil {
		f = s.Fault(reqNo, broker)
		if f.Kind == "" {
			f.Kind = "ok"
		}
	}
	info := VerifSimRequestInfo{ReqNo: reqNo, Broker: broker, WireBytes: wire, At: time.Now(), Version: req.Version, Acks: req.RequiredAcks, PartBytes: map[string]int{}}
	res := &ProduceResponse{Version: req.Version}
	var topics []string
	for t := range req.records {
		topics = append(topics, t)
	}
	sort.Strings(topics)
	for _, t := range topics {
		var parts []int32
		for p := range req.records[t] {
			parts = append(parts, p)
		}
		sort.Slice(parts, func(i, j int) bool { return parts[i] < parts[j] })
		for _, p := range parts {
			recs, pid, epoch, firstSeq, v2 := simRecordsOf(req.records[t][p])
			info.Records += len(recs)
			for _, r := range recs {
				info.PartBytes[tpKey(t, p)] += len(r.Key) + len(r.Value)
			}
			batch := VerifSimBatch{ReqNo: reqNo, Broker: broker, Topic: t, Partition: p, Pid: pid, Epoch: epoch, FirstSeq: firstSeq, Records: recs, V2: v2, Base: -1}
			verdict := ErrNoError
			appendIt := true
			faulted := f.OnlyPartition < 0 || f.OnlyPartition == p
			switch f.Kind {
			case "err":
				if faulted {
					verdict, appendIt = f.Code, false
				}
			case "errAppend":
				if faulted {
					verdict = f.Code
				}
			case "dropBefore":
				appendIt = false
			}
			l, known := s.leader[t]
			if !known || int(p) >= len(l) {
				verdict, appendIt = ErrUnknownTopicOrPartition, false
			} else if l[p] != broker {
				verdict, appendIt = ErrNotLeaderForPartition, false
			}
			if appendIt {
				key := tpKey(t, p)
				if pid >= 0 {
					ik := fmt.Sprintf("%d/%s", pid, key)
					st := s.idem[ik]
					if st == nil {
						st = &simIdem{}
						s.idem[ik] = st
					}
					switch {
					case st.known && epoch < st.epoch:
						verdict, appendIt = ErrInvalidProducerEpoch, false
					case !st.known || epoch > st.epoch:
						if firstSeq != 0 {
							verdict, appendIt = ErrOutOfOrderSequenceNumber, false
						} else {
							st.known, st.epoch, st.nextSeq, st.cache = true, epoch, 0, nil
						}
					}
					if appendIt && firstSeq != st.nextSeq {
						appendIt = false
						dup := false
						for _, c := range st.cache {
							if int64(firstSeq) == c[0] && int64(len(recs)) == c[1] {
								dup = true
								batch.Dup = true
								batch.Base = c[2]
							}
						}
						if dup {
							if s.DupAsError {
								verdict = ErrDuplicateSequenceNumber
							}
						} else {
							verdict = ErrOutOfOrderSequenceNumber
						}
					}
					if appendIt {
						st.nextSeq = firstSeq + int32(len(recs))
						st.cache = append(st.cache, [3]int64{int64(firstSeq), int64(len(recs)), int64(len(s.logs[key]))})
						if len(st.cache) > 5 {
							st.cache = st.cache[1:]
						}
					}
				}
				if appendIt {
					batch.Base = int64(len(s.logs[key]))
					for i := range recs {
						recs[i].Offset = batch.Base + int64(i)
						recs[i].ReqNo = reqNo
						s.logs[key] = append(s.logs[key], recs[i])
					}
					batch.Appended = true
				}
			}
			batch.Verdict = verdict
			s.Batches = append(s.Batches, batch)
			res.AddTopicPartition(t, p, verdict)
			if batch.Base >= 0 {
				res.Blocks[t][p].Offset = batch.Base
			}
			res.Blocks[t][p].Timestamp = time.Time{}
			if f.MoveLeader && known && int(p) < len(l) && l[p] == broker {
				next := broker%int32(len(s.brokers)) + 1
				l[p] = next
			}
			if f.LoseLeaderMs > 0 && known && int(p) < len(l) && l[p] == broker {
				l[p] = -1
				tt, pp, bb := t, p, broker
				time.AfterFunc(time.Duration(f.LoseLeaderMs)*time.Millisecond, func() {
					s.mu.Lock()
					if !s.closed && s.leader[tt][pp] == -1 {
						s.leader[tt][pp] = bb
					}
					s.mu.Unlock()
				})
			}
		}
	}
	s.Requests = append(s.Requests, info)
	switch f.Kind {
	case "dropBefore", "dropAfter":
		return nil, true, 0
	case "noReply":
		return nil, false, 0
	}
	return res, false, f.DelayMs
}

// VerifProducerMsgInternals exposes the bookkeeping fields of a ProducerMessage (for oracles on returned events).
func VerifProducerMsgInternals(m *ProducerMessage) (retries int, flags int, hasSeq bool) {
	return m.retries, int(m.flags), m.hasSequence
}
