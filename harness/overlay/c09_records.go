//go:build verif
// +build verif

package sarama

// C09 overlay, part 4: records, record batches and legacy message sets on the real code, in the line syntax
// of the hand models (Driver/C09.lean).

import (
	"fmt"
	"strconv"
	"strings"
	"time"
)

func tsMillis(t time.Time) int64 {
	if t.IsZero() || t.Before(time.Unix(0, 0)) {
		return -1
	}
	return t.UnixNano() / int64(time.Millisecond)
}

func millisTime(ms int64) time.Time {
	if ms < 0 {
		return time.Time{}
	}
	return time.Unix(ms/1000, (ms%1000)*int64(time.Millisecond))
}

// VerifRecordLine: `attr;tsDeltaMs;offDelta;key;value;k:v,k:v`
func VerifRecordLine(r *Record) string {
	hs := "-"
	if len(r.Headers) > 0 {
		parts := make([]string, len(r.Headers))
		for i, h := range r.Headers {
			parts[i] = vhex(h.Key) + ":" + vhex(h.Value)
		}
		hs = strings.Join(parts, ",")
	}
	return fmt.Sprintf("%d;%d;%d;%s;%s;%s", r.Attributes, int64(r.TimestampDelta/time.Millisecond), r.OffsetDelta,
		vhex(r.Key), vhex(r.Value), hs)
}

func VerifParseRecord(s string) (*Record, error) {
	f := strings.Split(s, ";")
	if len(f) != 6 {
		return nil, fmt.Errorf("bad record %q", s)
	}
	a, _ := strconv.ParseInt(f[0], 10, 64)
	t, _ := strconv.ParseInt(f[1], 10, 64)
	o, _ := strconv.ParseInt(f[2], 10, 64)
	r := &Record{Attributes: int8(a), TimestampDelta: time.Duration(t) * time.Millisecond, OffsetDelta: o,
		Key: vunhex(f[3]), Value: vunhex(f[4])}
	if f[5] != "-" {
		for _, e := range strings.Split(f[5], ",") {
			kv := strings.SplitN(e, ":", 2)
			if len(kv) != 2 {
				return nil, fmt.Errorf("bad header %q", e)
			}
			r.Headers = append(r.Headers, &RecordHeader{Key: vunhex(kv[0]), Value: vunhex(kv[1])})
		}
	}
	return r, nil
}

// VerifNewRecord / Batch / MessageSet: values from the generator.
func (g *VerifGen) NewRecord() *Record    { return g.record() }
func (g *VerifGen) NewBatch() *RecordBatch { return g.batch() }

// VerifEncodeRecord / VerifDecodeRecord on the real code.
func VerifEncodeAny(e interface{}) VerifEnc { return verifEncode(e.(encoder)) }

func VerifDecodeRecord(buf []byte) (string, error) {
	r := &Record{}
	rd := &realDecoder{raw: buf}
	if err := r.decode(rd); err != nil {
		return "", err
	}
	return fmt.Sprintf("ok %s rest=%d", VerifRecordLine(r), len(buf)-rd.off), nil
}

func b01(b bool) string {
	if b {
		return "1"
	}
	return "0"
}

// VerifBatchHdrLine: `fo;ple;magic;codec;ctl;lat;tx;lod;fts;mts;pid;pe;fs`
func VerifBatchHdrLine(b *RecordBatch) string {
	return fmt.Sprintf("%d;%d;%d;%d;%s;%s;%s;%d;%d;%d;%d;%d;%d", b.FirstOffset, b.PartitionLeaderEpoch, b.Version,
		int8(b.Codec), b01(b.Control), b01(b.LogAppendTime), b01(b.IsTransactional), b.LastOffsetDelta,
		tsMillis(b.FirstTimestamp), tsMillis(b.MaxTimestamp), b.ProducerID, b.ProducerEpoch, b.FirstSequence)
}

func VerifParseBatch(hdr string, level int, recs []string) (*RecordBatch, error) {
	f := strings.Split(hdr, ";")
	if len(f) != 13 {
		return nil, fmt.Errorf("bad batch header %q", hdr)
	}
	n := make([]int64, 13)
	for i := range f {
		n[i], _ = strconv.ParseInt(f[i], 10, 64)
	}
	b := &RecordBatch{FirstOffset: n[0], PartitionLeaderEpoch: int32(n[1]), Version: int8(n[2]),
		Codec: CompressionCodec(n[3]), CompressionLevel: level, Control: n[4] == 1, LogAppendTime: n[5] == 1,
		IsTransactional: n[6] == 1, LastOffsetDelta: int32(n[7]), FirstTimestamp: millisTime(n[8]),
		MaxTimestamp: millisTime(n[9]), ProducerID: n[10], ProducerEpoch: int16(n[11]), FirstSequence: int32(n[12])}
	for _, rs := range recs {
		r, err := VerifParseRecord(rs)
		if err != nil {
			return nil, err
		}
		b.Records = append(b.Records, r)
	}
	return b, nil
}

// VerifBatchViews: encoding views of a batch plus the uncompressed and the compressed record bytes.
func VerifBatchViews(b *RecordBatch) (enc VerifEnc, raw []byte, comp []byte) {
	b.compressedRecords = nil
	enc = verifEncode(b)
	if enc.Err != nil {
		return
	}
	comp = append([]byte{}, b.compressedRecords...)
	raw, _ = encode(recordsArray(b.Records), nil)
	if raw == nil {
		raw = []byte{}
	}
	return
}

// VerifDecodeBatch runs the real RecordBatch.decode; the line is `ok <hdr> <rec>… rest=<n>` | partial.
func VerifDecodeBatch(buf []byte) (line string, raw []byte, b *RecordBatch, err error) {
	b = &RecordBatch{}
	rd := &realDecoder{raw: buf}
	if err = b.decode(rd); err != nil {
		return "", nil, nil, err
	}
	if b.PartialTrailingRecord {
		return "partial", nil, b, nil
	}
	parts := make([]string, len(b.Records))
	for i, r := range b.Records {
		parts[i] = VerifRecordLine(r)
	}
	raw, _ = encode(recordsArray(b.Records), nil)
	return fmt.Sprintf("ok %s %s rest=%d", VerifBatchHdrLine(b), strings.Join(parts, " "), len(buf)-rd.off), raw, b, nil
}

// ---- message sets

// VerifBlockLine: `off;magic;codec;level;lat;ts;key;value` (value uncompressed)
func VerifBlockLine(mb *MessageBlock, withLevel bool) string {
	m := mb.Msg
	lvl := ""
	if withLevel {
		lvl = strconv.Itoa(m.CompressionLevel) + ";"
	}
	ts := int64(-1)
	if m.Version >= 1 {
		ts = tsMillis(m.Timestamp)
	}
	return fmt.Sprintf("%d;%d;%d;%s%s;%d;%s;%s", mb.Offset, m.Version, int8(m.Codec), lvl, b01(m.LogAppendTime), ts,
		vhex(m.Key), vhex(m.Value))
}

func VerifParseBlock(s string) (*MessageBlock, error) {
	f := strings.Split(s, ";")
	if len(f) != 8 {
		return nil, fmt.Errorf("bad block %q", s)
	}
	off, _ := strconv.ParseInt(f[0], 10, 64)
	magic, _ := strconv.ParseInt(f[1], 10, 64)
	codec, _ := strconv.ParseInt(f[2], 10, 64)
	level, _ := strconv.ParseInt(f[3], 10, 64)
	ts, _ := strconv.ParseInt(f[5], 10, 64)
	m := &Message{Version: int8(magic), Codec: CompressionCodec(codec), CompressionLevel: int(level),
		LogAppendTime: f[4] == "1", Key: vunhex(f[6]), Value: vunhex(f[7])}
	if m.Version >= 1 {
		m.Timestamp = millisTime(ts)
	}
	return &MessageBlock{Offset: off, Msg: m}, nil
}

// VerifDecompress is the package's decompress().
func VerifDecompress(codec int8, data []byte) ([]byte, error) {
	return decompress(CompressionCodec(codec), data)
}

// VerifCompress is the package's compress().
func VerifCompress(codec int8, level int, data []byte) ([]byte, error) {
	return compress(CompressionCodec(codec), level, data)
}

// NewMessageSet generates a set (wrappers allowed to `depth`) and the (raw → compressed) pairs of every
// wrapper in it, including the nested ones (recorded while the wrappers are built).
func (g *VerifGen) NewMessageSet(depth int) (*MessageSet, [][2][]byte) {
	g.Pairs = nil
	ms := g.msgSet(depth)
	return ms, g.Pairs
}

// VerifDecodeMessageSet runs the real MessageSet.decode directly on the bytes.
func VerifDecodeMessageSet(buf []byte) (line string, ms *MessageSet, err error) {
	ms = &MessageSet{}
	rd := &realDecoder{raw: buf}
	if err = ms.decode(rd); err != nil {
		return "", nil, err
	}
	parts := make([]string, len(ms.Messages))
	for i, mb := range ms.Messages {
		parts[i] = VerifBlockLine(mb, false)
	}
	return fmt.Sprintf("ok p=%s o=%s rest=%d %s", b01(ms.PartialTrailingMessage), b01(ms.OverflowMessage), len(buf)-rd.off,
		strings.Join(parts, " ")), ms, nil
}

// VerifRecordsKind: Records.setTypeFromMagic on the bytes.
func VerifRecordsKind(buf []byte) string {
	r := &Records{}
	if err := r.setTypeFromMagic(&realDecoder{raw: buf}); err != nil {
		return "none"
	}
	if r.recordsType == legacyRecords {
		return "legacy"
	}
	return "default"
}

// VerifConst: package constants compared by value with the model.
func VerifConst(name string) int {
	switch name {
	case "maximumRecordOverhead":
		return maximumRecordOverhead
	case "recordBatchOverhead":
		return recordBatchOverhead
	}
	return -1
}
