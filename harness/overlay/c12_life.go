//go:build verif
// +build verif

package sarama

// VerifIDMark returns the highest object id verifID has handed out so far.
func VerifIDMark() int64 {
	verifIDMu.Lock()
	defer verifIDMu.Unlock()
	return int64(len(verifIDSerial))
}
