//go:build verif
// +build verif

package sarama

import (
	"sort"
	"time"
)

// Fetch / ListOffsets support of the simulated cluster (consumer-side harnesses).

// VerifSimFetchFault says what a broker does with one fetch request.
type VerifSimFetchFault struct {
	// Kind: "ok" | "err" (answer Code for every partition) | "drop" (close the connection) | "empty" (no records, e.g. throttled)
	// | "noReply"
	Kind string
	Code KError
}

// AppendRaw appends a record directly to a partition log (pre-populating logs for consumer scenarios).
func (s *VerifSim) AppendRaw(topic string, p int32, key, value []byte, headers []RecordHeader, ts time.Time) int64 {
	s.mu.Lock()
	defer s.mu.Unlock()
	k := tpKey(topic, p)
	off := int64(len(s.logs[k]))
	s.logs[k] = append(s.logs[k], VerifSimRecord{Key: key, Value: value, Headers: headers, Ts: ts, Pid: -1, Offset: off})
	return off
}

// FetchLog returns, for every fetch request served, (request number, partition, offset asked).
type VerifSimFetchInfo struct {
	N         int
	Broker    int32
	Partition int32
	Offset    int64
	Served    int
	Verdict   KError
}

func (s *VerifSim) Fetches() []VerifSimFetchInfo {
	s.mu.Lock()
	defer s.mu.Unlock()
	return append([]VerifSimFetchInfo(nil), s.fetches...)
}

func (s *VerifSim) fetch(broker int32, req *FetchRequest) (encoderWithHeader, bool) {
	s.mu.Lock()
	s.fetchN++
	n := s.fetchN
	ff := s.FetchFault
	s.mu.Unlock()
	f := VerifSimFetchFault{Kind: "ok"}
	if ff != nil {
		f = ff(n, broker) // called without the lock: the script may move leaders
		if f.Kind == "" {
			f.Kind = "ok"
		}
	}
	s.mu.Lock()
	maxRecs := s.FetchMaxRecords
	if maxRecs <= 0 {
		maxRecs = 3
	}
	res := &FetchResponse{Version: req.Version}
	any := false
	var topics []string
	for t := range req.blocks {
		topics = append(topics, t)
	}
	sort.Strings(topics)
	for _, t := range topics {
		var parts []int32
		for p := range req.blocks[t] {
			parts = append(parts, p)
		}
		sort.Slice(parts, func(i, j int) bool { return parts[i] < parts[j] })
		for _, p := range parts {
			blk := req.blocks[t][p]
			info := VerifSimFetchInfo{N: n, Broker: broker, Partition: p, Offset: blk.fetchOffset}
			l, known := s.leader[t]
			log := s.logs[tpKey(t, p)]
			frb := res.getOrCreateBlock(t, p)
			frb.HighWaterMarkOffset = int64(len(log))
			frb.LastStableOffset = int64(len(log))
			switch {
			case !known || int(p) >= len(l):
				frb.Err = ErrUnknownTopicOrPartition
			case l[p] != broker:
				frb.Err = ErrNotLeaderForPartition
			case f.Kind == "err":
				frb.Err = f.Code
			case blk.fetchOffset > int64(len(log)) || blk.fetchOffset < 0:
				frb.Err = ErrOffsetOutOfRange
			case f.Kind == "empty":
			default:
				from := blk.fetchOffset
				to := from + int64(maxRecs)
				if to > int64(len(log)) {
					to = int64(len(log))
				}
				if to > from {
					any = true
					info.Served = int(to - from)
					if req.Version >= 4 {
						rb := &RecordBatch{Version: 2, FirstOffset: from, FirstTimestamp: log[from].Ts, MaxTimestamp: log[to-1].Ts,
							LastOffsetDelta: int32(to - from - 1), ProducerID: -1, ProducerEpoch: -1, FirstSequence: -1}
						for i := from; i < to; i++ {
							rec := &Record{Key: log[i].Key, Value: log[i].Value, OffsetDelta: i - from, TimestampDelta: log[i].Ts.Sub(log[from].Ts)}
							for h := range log[i].Headers {
								rec.Headers = append(rec.Headers, &log[i].Headers[h])
							}
							rb.Records = append(rb.Records, rec)
						}
						recs := newDefaultRecords(rb)
						frb.RecordsSet = []*Records{&recs}
					} else {
						ms := &MessageSet{}
						ver := int8(0)
						if req.Version >= 2 {
							ver = 1
						}
						for i := from; i < to; i++ {
							ms.Messages = append(ms.Messages, &MessageBlock{Offset: i, Msg: &Message{Key: log[i].Key, Value: log[i].Value, Version: ver, Timestamp: log[i].Ts}})
						}
						recs := newLegacyRecords(ms)
						frb.RecordsSet = []*Records{&recs}
					}
				}
			}
			info.Verdict = frb.Err
			s.fetches = append(s.fetches, info)
		}
	}
	wait := req.MaxWaitTime
	s.mu.Unlock()
	switch f.Kind {
	case "drop":
		return nil, true
	case "noReply":
		return nil, false
	}
	if !any {
		if wait > 5 {
			wait = 5
		}
		time.Sleep(time.Duration(wait) * time.Millisecond)
	}
	return res, false
}

func (s *VerifSim) listOffsets(broker int32, req *OffsetRequest) encoderWithHeader {
	s.mu.Lock()
	defer s.mu.Unlock()
	s.offsetN++
	fault := ErrNoError
	if s.OffsetFault != nil {
		fault = s.OffsetFault(s.offsetN)
	}
	res := &OffsetResponse{Version: req.Version}
	if fault != ErrNoError {
		// the n-th ListOffsets request is answered with this error code for every partition it names
		for t, parts := range req.blocks {
			for p := range parts {
				if res.Blocks == nil {
					res.Blocks = map[string]map[int32]*OffsetResponseBlock{}
				}
				if res.Blocks[t] == nil {
					res.Blocks[t] = map[int32]*OffsetResponseBlock{}
				}
				res.Blocks[t][p] = &OffsetResponseBlock{Err: fault}
			}
		}
		return res
	}
	for t, parts := range req.blocks {
		for p, b := range parts {
			log := s.logs[tpKey(t, p)]
			off := int64(len(log))
			if b.time == OffsetOldest {
				off = s.logStart[tpKey(t, p)]
			}
			res.AddTopicPartition(t, p, off)
		}
	}
	return res
}
