//go:build verif
// +build verif

package sarama

// VerifSetCorrelationID sets the correlation id of the next request of a broker that is not in use yet
// (C14 harness: connections start at arbitrary ids).
func VerifSetCorrelationID(b *Broker, id int32) {
	b.lock.Lock()
	b.correlationID = id
	b.lock.Unlock()
}

// VerifEncode encodes a request/response body with sarama's own encoder (the C14 server builds response bodies
// with byte fields - Fetch, JoinGroup, SyncGroup, DescribeGroups - from the exported response types).
func VerifEncode(v interface{}) ([]byte, error) {
	e, ok := v.(encoder)
	if !ok {
		return nil, PacketEncodingError{"not an encoder"}
	}
	return encode(e, nil)
}
