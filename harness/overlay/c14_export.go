//go:build verif
// +build verif

package sarama

// VerifSetCorrelationID sets the correlation id of the next request of a broker that is not in use yet
// (C14 harness: connections start at arbitrary ids).
func VerifSetCorrelationID(b *Broker, id int32) {
	b.lock.Lock()
	b.correlationID = id
	b.lock.Unlock()
}
