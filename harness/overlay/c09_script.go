//go:build verif
// +build verif

package sarama

// C09 overlay, part 3: scripted call sequences.  A token list (the same syntax the recording encoder /
// decoder print) is executed against the REAL prepEncoder + realEncoder resp. realDecoder.  Used for the
// primitive grids and to replay any `enc` / `dec` op line.

import (
	"encoding/hex"
	"fmt"
	"strconv"
	"strings"
)

func vunhex(s string) []byte {
	if s == "N" {
		return nil
	}
	if s == "-" {
		return []byte{}
	}
	b, _ := hex.DecodeString(s)
	if b == nil {
		b = []byte{}
	}
	return b
}

func vparseInts32(s string) []int32 {
	if s == "N" {
		return nil
	}
	if s == "-" {
		return []int32{}
	}
	var out []int32
	for _, p := range strings.Split(s, ",") {
		n, _ := strconv.ParseInt(p, 10, 64)
		out = append(out, int32(n))
	}
	return out
}

func vparseInts64(s string) []int64 {
	if s == "N" {
		return nil
	}
	if s == "-" {
		return []int64{}
	}
	var out []int64
	for _, p := range strings.Split(s, ",") {
		n, _ := strconv.ParseInt(p, 10, 64)
		out = append(out, n)
	}
	return out
}

func vparseStrs(s string) []string {
	if s == "-" {
		return []string{}
	}
	var out []string
	for _, p := range strings.Split(s, ",") {
		if p == "_" {
			out = append(out, "")
		} else {
			out = append(out, string(vunhex(p)))
		}
	}
	return out
}

// verifScript is an encoder that makes the scripted calls.
type verifScript struct {
	toks   []string
	fields []*varintLengthField // one per `pv` token, kept across the passes like Record.length
}

func (s *verifScript) encode(pe packetEncoder) error {
	nv := 0
	for _, t := range s.toks {
		k, v := t, ""
		if i := strings.IndexByte(t, ':'); i >= 0 {
			k, v = t[:i], t[i+1:]
		}
		var err error
		switch k {
		case "i8":
			n, _ := strconv.ParseInt(v, 10, 64)
			pe.putInt8(int8(n))
		case "i16":
			n, _ := strconv.ParseInt(v, 10, 64)
			pe.putInt16(int16(n))
		case "i32":
			n, _ := strconv.ParseInt(v, 10, 64)
			pe.putInt32(int32(n))
		case "i64":
			n, _ := strconv.ParseInt(v, 10, 64)
			pe.putInt64(n)
		case "vi":
			n, _ := strconv.ParseInt(v, 10, 64)
			pe.putVarint(n)
		case "uv":
			n, _ := strconv.ParseUint(v, 10, 64)
			pe.putUVarint(n)
		case "bo":
			pe.putBool(v == "1")
		case "al":
			n, _ := strconv.ParseInt(v, 10, 64)
			err = pe.putArrayLength(int(n))
		case "cal":
			n, _ := strconv.ParseInt(v, 10, 64)
			pe.putCompactArrayLength(int(n))
		case "by":
			err = pe.putBytes(vunhex(v))
		case "vb":
			err = pe.putVarintBytes(vunhex(v))
		case "cb":
			err = pe.putCompactBytes(vunhex(v))
		case "rb":
			err = pe.putRawBytes(vunhex(v))
		case "st":
			err = pe.putString(string(vunhex(v)))
		case "ns":
			if v == "N" {
				err = pe.putNullableString(nil)
			} else {
				x := string(vunhex(v))
				err = pe.putNullableString(&x)
			}
		case "cs":
			err = pe.putCompactString(string(vunhex(v)))
		case "ncs":
			if v == "N" {
				err = pe.putNullableCompactString(nil)
			} else {
				x := string(vunhex(v))
				err = pe.putNullableCompactString(&x)
			}
		case "sa":
			err = pe.putStringArray(vparseStrs(v))
		case "a4":
			err = pe.putInt32Array(vparseInts32(v))
		case "a8":
			err = pe.putInt64Array(vparseInts64(v))
		case "ca4":
			err = pe.putCompactInt32Array(vparseInts32(v))
		case "nca4":
			err = pe.putNullableCompactInt32Array(vparseInts32(v))
		case "tg":
			pe.putEmptyTaggedFieldArray()
		case "pl":
			pe.push(&lengthField{})
		case "pc0":
			pe.push(newCRC32Field(crcIEEE))
		case "pc1":
			pe.push(newCRC32Field(crcCastagnoli))
		case "pv":
			if nv >= len(s.fields) {
				st, _ := strconv.ParseInt(v, 10, 64)
				s.fields = append(s.fields, &varintLengthField{length: st})
			}
			pe.push(s.fields[nv])
			nv++
		case "pop":
			err = pe.pop()
		default:
			return fmt.Errorf("bad token %q", t)
		}
		if err != nil {
			return err
		}
	}
	return nil
}

// VerifRunEncScript executes an `enc` token list on the real encoders.  The stale lengths of the `pv` tokens
// are installed before the first pass; the tokens reported back carry the lengths the recorded pass saw.
func VerifRunEncScript(toks []string) VerifEnc {
	s := &verifScript{toks: toks}
	return verifEncode(s)
}

// VerifRunDecScript executes a `dec` token list on the real decoder (recorded).
func VerifRunDecScript(buf []byte, toks []string) VerifDec {
	return verifDecodeTraced(buf, func(pd packetDecoder) error {
		for _, t := range toks {
			k, v := t, ""
			if i := strings.IndexByte(t, ':'); i >= 0 {
				k, v = t[:i], t[i+1:]
			}
			var err error
			switch k {
			case "i8":
				_, err = pd.getInt8()
			case "i16":
				_, err = pd.getInt16()
			case "i32":
				_, err = pd.getInt32()
			case "i64":
				_, err = pd.getInt64()
			case "vi":
				_, err = pd.getVarint()
			case "uv":
				_, err = pd.getUVarint()
			case "bo":
				_, err = pd.getBool()
			case "al":
				_, err = pd.getArrayLength()
			case "cal":
				_, err = pd.getCompactArrayLength()
			case "by":
				_, err = pd.getBytes()
			case "vb":
				_, err = pd.getVarintBytes()
			case "cb":
				_, err = pd.getCompactBytes()
			case "rw":
				n, _ := strconv.ParseInt(v, 10, 64)
				_, err = pd.getRawBytes(int(n))
			case "st":
				_, err = pd.getString()
			case "ns":
				_, err = pd.getNullableString()
			case "cs":
				_, err = pd.getCompactString()
			case "ncs":
				_, err = pd.getCompactNullableString()
			case "sa":
				_, err = pd.getStringArray()
			case "a4":
				_, err = pd.getInt32Array()
			case "a8":
				_, err = pd.getInt64Array()
			case "nca4":
				_, err = pd.getCompactInt32Array()
			case "tg":
				_, err = pd.getEmptyTaggedFieldArray()
			case "rem":
				pd.remaining()
			case "pk":
				n, _ := strconv.ParseInt(v, 10, 64)
				_, err = pd.peekInt8(int(n))
			case "pl":
				err = pd.push(&lengthField{})
			case "pc0":
				err = pd.push(newCRC32Field(crcIEEE))
			case "pc1":
				err = pd.push(newCRC32Field(crcCastagnoli))
			case "pv":
				err = pd.push(&varintLengthField{})
			case "pop":
				err = pd.pop()
			default:
				return fmt.Errorf("bad token %q", t)
			}
			if err != nil {
				return err
			}
		}
		return nil
	})
}
