//go:build verif
// +build verif

package sarama

import (
	"fmt"
	"sync"
)

// end-to-end support: a MockBroker whose FetchRequest handler is a harness function returning raw response bytes
// (so that partial trailing data can be served), plus metadata / offset handlers for one topic "t", partition 0.

type verifRawResponse struct{ raw []byte }

func (r *verifRawResponse) encode(pe packetEncoder) error { return pe.putRawBytes(r.raw) }
func (r *verifRawResponse) headerVersion() int16          { return 0 }

// VerifFetchFunc answers a fetch for t/0: request version, asked offset, max bytes, isolation level.
type VerifFetchFunc func(version int16, offset int64, maxBytes int32, isolation int8) []byte

type verifFetchMock struct{ f VerifFetchFunc }

func (m *verifFetchMock) For(reqBody versionedDecoder) encoderWithHeader {
	req := reqBody.(*FetchRequest)
	blk := req.blocks["t"][0]
	if blk == nil {
		raw, _ := encode(&FetchResponse{Version: req.Version}, nil)
		return &verifRawResponse{raw: raw}
	}
	return &verifRawResponse{raw: m.f(req.Version, blk.fetchOffset, blk.maxBytes, int8(req.Isolation))}
}

// VerifReporter collects what the mock broker reports through its TestReporter.
type VerifReporter struct {
	mu   sync.Mutex
	Msgs []string
}

func (r *VerifReporter) add(s string) {
	r.mu.Lock()
	r.Msgs = append(r.Msgs, s)
	r.mu.Unlock()
}
func (r *VerifReporter) Error(a ...interface{})            { r.add(fmt.Sprint(a...)) }
func (r *VerifReporter) Errorf(f string, a ...interface{}) { r.add(fmt.Sprintf(f, a...)) }
func (r *VerifReporter) Fatal(a ...interface{})            { r.add(fmt.Sprint(a...)) }
func (r *VerifReporter) Fatalf(f string, a ...interface{}) { r.add(fmt.Sprintf(f, a...)) }
func (r *VerifReporter) Messages() []string {
	r.mu.Lock()
	defer r.mu.Unlock()
	return append([]string{}, r.Msgs...)
}

// VerifStartBroker starts a mock broker that leads t/0, reports [oldest, newest) as its offsets and answers
// fetches through f.
func VerifStartBroker(f VerifFetchFunc, oldest, newest int64, kv KafkaVersion) (*MockBroker, *VerifReporter) {
	var offVer int16
	if kv.IsAtLeast(V0_10_1_0) {
		offVer = 1 // the version client.getOffset asks with
	}
	rep := &VerifReporter{}
	b := NewMockBroker(rep, 1)
	b.SetHandlerByMap(map[string]MockResponse{
		"MetadataRequest": NewMockMetadataResponse(rep).SetBroker(b.Addr(), b.BrokerID()).SetLeader("t", 0, b.BrokerID()),
		"OffsetRequest":   NewMockOffsetResponse(rep).SetVersion(offVer).SetOffset("t", 0, OffsetOldest, oldest).SetOffset("t", 0, OffsetNewest, newest),
		"FetchRequest":    &verifFetchMock{f: f},
	})
	return b, rep
}
