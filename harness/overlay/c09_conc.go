//go:build verif
// +build verif

package sarama

// C09 overlay, part 6: a fixed corpus of valid encodings (legacy message sets magic 0/1 with and without
// compression, record batches with every codec, bodies that contain records) and one canonical decode of each,
// for the concurrent-decoders family.

import (
	"encoding/hex"
	"fmt"
	"time"
)

type VerifConcItem struct {
	Kind  string
	Bytes []byte
}

func concMessages(magic int8, n int, r VerifRand) *MessageSet {
	ms := &MessageSet{}
	for i := 0; i < n; i++ {
		m := &Message{Version: magic, Key: []byte{byte(i), byte(r.Intn(256))}, Value: VerifPayload(r.Intn(3), 10+r.Intn(200), r)}
		if magic == 1 {
			m.Timestamp = time.Unix(1600000000+int64(i), 0)
		}
		ms.Messages = append(ms.Messages, &MessageBlock{Offset: int64(i), Msg: m})
	}
	return ms
}

func concBatch(codec int8, n int, r VerifRand) *RecordBatch {
	b := &RecordBatch{Version: 2, Codec: CompressionCodec(codec), CompressionLevel: CompressionLevelDefault, FirstOffset: int64(r.Intn(1000)),
		FirstTimestamp: time.Unix(1600000000, 0), MaxTimestamp: time.Unix(1600000009, 0), ProducerID: -1, LastOffsetDelta: int32(n - 1)}
	for i := 0; i < n; i++ {
		b.Records = append(b.Records, &Record{OffsetDelta: int64(i), Key: []byte{byte(i)}, Value: VerifPayload(r.Intn(3), 10+r.Intn(200), r),
			Headers: []*RecordHeader{{Key: []byte("h"), Value: []byte{byte(r.Intn(256))}}}})
	}
	return b
}

// VerifConcCorpus builds the corpus (every entry encodes without error on the unchanged tree).
func VerifConcCorpus(r VerifRand) []VerifConcItem {
	var out []VerifConcItem
	add := func(kind string, e encoder) {
		if b, err := encode(e, nil); err == nil && len(b) > 0 {
			out = append(out, VerifConcItem{kind, b})
		}
	}
	for magic := int8(0); magic <= 1; magic++ {
		for rep := 0; rep < 2; rep++ {
			add(fmt.Sprintf("mset%d", magic), concMessages(magic, 1+r.Intn(4), r))
		}
		for codec := int8(1); codec <= 4; codec++ {
			inner := concMessages(magic, 1+r.Intn(4), r)
			raw, err := encode(inner, nil)
			if err != nil {
				continue
			}
			w := &Message{Version: magic, Codec: CompressionCodec(codec), CompressionLevel: CompressionLevelDefault, Value: raw}
			if magic == 1 {
				w.Timestamp = time.Unix(1600000100, 0)
			}
			add(fmt.Sprintf("mset%d-codec%d", magic, codec), &MessageSet{Messages: []*MessageBlock{{Offset: 7, Msg: w}}})
		}
	}
	for codec := int8(0); codec <= 4; codec++ {
		for rep := 0; rep < 2; rep++ {
			add(fmt.Sprintf("batch-codec%d", codec), concBatch(codec, 1+r.Intn(5), r))
		}
	}
	// bodies that contain records
	for _, ver := range []int16{1, 4, 11} {
		fr := &FetchResponse{Version: ver}
		if ver < 4 {
			fr.AddMessage("topic", 0, StringEncoder("k"), StringEncoder("legacy value"), 3)
			fr.AddMessage("topic", 0, nil, StringEncoder("second"), 4)
		} else {
			fr.AddRecord("topic", 0, StringEncoder("k"), StringEncoder("record value"), 3)
			fr.AddRecord("topic", 0, nil, StringEncoder("second"), 4)
			fr.AddRecord("other", 2, nil, StringEncoder("third"), 9)
		}
		add(fmt.Sprintf("FetchResponse-v%d", ver), fr)
	}
	for _, ver := range []int16{2, 7} {
		pr := &ProduceRequest{Version: ver, RequiredAcks: WaitForAll, Timeout: 10}
		if ver < 3 {
			pr.AddSet("topic", 1, concMessages(1, 3, r))
		} else {
			pr.AddBatch("topic", 1, concBatch(int8(1+r.Intn(4)), 3, r))
		}
		add(fmt.Sprintf("ProduceRequest-v%d", ver), pr)
	}
	return out
}

// VerifConcDecode decodes one corpus entry with the real decoder and returns a canonical rendering of the
// value (and, where the encoder is deterministic for it, of its re-encoding).
func VerifConcDecode(kind string, buf []byte) (string, error) {
	switch {
	case len(kind) >= 4 && kind[:4] == "mset":
		line, ms, err := VerifDecodeMessageSet(buf)
		if err != nil {
			return "", err
		}
		// inner sets of wrappers
		for _, mb := range ms.Messages {
			if mb.Msg.Set != nil {
				line += fmt.Sprintf(" inner(p=%v,o=%v)", mb.Msg.Set.PartialTrailingMessage, mb.Msg.Set.OverflowMessage)
				for _, ib := range mb.Msg.Set.Messages {
					line += " " + VerifBlockLine(ib, false)
				}
			}
		}
		return line, nil
	case len(kind) >= 5 && kind[:5] == "batch":
		line, _, b, err := VerifDecodeBatch(buf)
		if err != nil {
			return "", err
		}
		b.CompressionLevel = CompressionLevelDefault
		b.compressedRecords = nil
		again, err := encode(b, nil)
		if err != nil {
			return "", fmt.Errorf("re-encode: %v", err)
		}
		return line + " re=" + hex.EncodeToString(again), nil
	case len(kind) >= 13 && kind[:13] == "FetchResponse":
		var ver int16
		fmt.Sscanf(kind, "FetchResponse-v%d", &ver)
		fr := &FetchResponse{}
		if err := versionedDecode(buf, fr, ver); err != nil {
			return "", err
		}
		out := ""
		for _, topic := range []string{"topic", "other"} {
			for p := int32(0); p < 3; p++ {
				blk := fr.GetBlock(topic, p)
				if blk == nil {
					continue
				}
				n, _ := blk.numRecords()
				partial, _ := blk.isPartial()
				out += fmt.Sprintf("%s/%d:n=%d,partial=%v;", topic, p, n, partial)
				for _, rs := range blk.RecordsSet {
					if rs.RecordBatch != nil {
						for _, rec := range rs.RecordBatch.Records {
							out += VerifRecordLine(rec) + ";"
						}
					}
					if rs.MsgSet != nil {
						for _, mb := range rs.MsgSet.Messages {
							out += VerifBlockLine(mb, false) + ";"
						}
					}
				}
			}
		}
		return out, nil
	default:
		var ver int16
		fmt.Sscanf(kind, "ProduceRequest-v%d", &ver)
		pr := &ProduceRequest{}
		if err := versionedDecode(buf, pr, ver); err != nil {
			return "", err
		}
		VerifNormalizeLevels(pr)
		again, err := encode(pr, nil)
		if err != nil {
			return "", fmt.Errorf("re-encode: %v", err)
		}
		return "re=" + hex.EncodeToString(again), nil
	}
}
