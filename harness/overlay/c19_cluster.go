//go:build verif
// +build verif

package sarama

import (
	"fmt"
	"net"
	"sort"
	"strconv"
	"strings"
	"sync"
	"time"
)

// Scripted in-package mock cluster for the C19 harness: a few MockBrokers whose handler follows a
// per-case script (who is controller at which attempt, what the broker that receives attempt i answers,
// who leads which partition, who coordinates which group, what each broker answers to leader-/coordinator-
// bound requests) and records which broker received which request, in arrival order.

// VerifReply is the scripted answer to one attempt of a controller-bound operation.
type VerifReply struct {
	Transport bool            // answer with bytes the client cannot decode (the broker call returns an error)
	Top       int16           // top-level error code (AlterPartitionReassignments only)
	Items     map[int32]int16 // items present in the response: item -> error code (item 0 = the topic)
}

// VerifBReply is the scripted answer of one broker to a leader-/coordinator-bound request.
type VerifBReply struct {
	Transport bool
	NoTopic   bool            // DeleteRecords: response without the topic / DeleteGroups: without the group
	Top       int16           // OffsetFetch top-level code
	Items     map[int32]int16 // partition or group number -> error code
}

// VerifScript is the world of one case.
type VerifScript struct {
	Ctrls   []int32      // Ctrls[k]: controller id reported by metadata once k controller-bound requests have arrived
	Replies []VerifReply // Replies[k]: answer to the k-th controller-bound request (whoever receives it)
	Leaders map[int32]int32 // topic "t": partition -> leader id; -1: listed as leaderless (ErrLeaderNotAvailable)
	Coord   map[string]int32 // group -> coordinator id, or -code for a FindCoordinator error
	Broker  map[int32]VerifBReply
}

// VerifReq is one logged request.
type VerifReq struct {
	Broker  int32
	Kind    string // ct dt cp ar | dr dg delg lgo dld
	Version int16
	Items   []int32 // partitions / group numbers in the request, sorted
	Seq     int
}

type VerifCluster struct {
	Brokers []*MockBroker
	mu      sync.Mutex
	s       *VerifScript
	log     []VerifReq
	meta    int
	ctrlReq int
	seq     int
}

type verifNoT struct{}

func (verifNoT) Error(...interface{})          {}
func (verifNoT) Errorf(string, ...interface{}) {}
func (verifNoT) Fatal(a ...interface{})        { panic("mockbroker fatal: " + fmt.Sprint(a...)) }
func (verifNoT) Fatalf(f string, a ...interface{}) {
	panic("mockbroker fatal: " + f)
}

// verifGarbage is a response body no decoder accepts (one byte).
type verifGarbage struct{ hv int16 }

func (g *verifGarbage) encode(pe packetEncoder) error { return pe.putRawBytes([]byte{0x7f}) }
func (g *verifGarbage) headerVersion() int16         { return g.hv }

func NewVerifCluster(n int) *VerifCluster { return NewVerifClusterBase(n, 1) }

// NewVerifClusterBase: n brokers with ids base, base+1, … (Kafka's customary ids start at 0)
func NewVerifClusterBase(n int, base int) *VerifCluster {
	c := &VerifCluster{s: &VerifScript{}}
	for i := base; i < base+n; i++ {
		// the machine is shared with other network-heavy harnesses: a momentary failure to get a port is the
		// environment's, not the code's - wait and try again
		var ln net.Listener
		var err error
		for try := 0; try < 40; try++ {
			if ln, err = net.Listen("tcp", "127.0.0.1:0"); err == nil {
				break
			}
			time.Sleep(250 * time.Millisecond)
		}
		if err != nil {
			panic("cannot listen: " + err.Error())
		}
		b := NewMockBrokerListener(verifNoT{}, int32(i), ln)
		id := int32(i)
		b.setHandler(func(req *request) encoderWithHeader { return c.handle(id, req) })
		c.Brokers = append(c.Brokers, b)
	}
	return c
}

func (c *VerifCluster) Close() {
	for _, b := range c.Brokers {
		b.Close()
	}
}

func (c *VerifCluster) Addrs() []string {
	var a []string
	for _, b := range c.Brokers {
		a = append(a, b.Addr())
	}
	return a
}

// Arm installs the script of the next case and clears the log.
func (c *VerifCluster) Arm(s *VerifScript) {
	c.mu.Lock()
	c.s = s
	c.log = nil
	c.meta = 0
	c.ctrlReq = 0
	c.seq = 0
	c.mu.Unlock()
}

// ResetCounters clears the log and the metadata counter but keeps the script (called after the client is up).
func (c *VerifCluster) ResetCounters() {
	c.mu.Lock()
	c.log = nil
	c.meta = 0
	c.mu.Unlock()
}

func (c *VerifCluster) Log() []VerifReq {
	c.mu.Lock()
	defer c.mu.Unlock()
	return append([]VerifReq(nil), c.log...)
}

func (c *VerifCluster) MetaRequests() int {
	c.mu.Lock()
	defer c.mu.Unlock()
	return c.meta
}

func verifGroupNo(g string) int32 {
	n, _ := strconv.Atoi(strings.TrimPrefix(g, "g"))
	return int32(n)
}

func sortedI32(xs []int32) []int32 {
	sort.Slice(xs, func(i, j int) bool { return xs[i] < xs[j] })
	return xs
}

func (c *VerifCluster) record(b int32, kind string, ver int16, items []int32) {
	c.log = append(c.log, VerifReq{Broker: b, Kind: kind, Version: ver, Items: sortedI32(items), Seq: c.seq})
	c.seq++
}

func (c *VerifCluster) ctrlNow() int32 {
	if len(c.s.Ctrls) == 0 {
		return 1
	}
	k := c.ctrlReq
	if k >= len(c.s.Ctrls) {
		k = len(c.s.Ctrls) - 1
	}
	return c.s.Ctrls[k]
}

func (c *VerifCluster) nextReply() VerifReply {
	k := c.ctrlReq
	c.ctrlReq++
	if k < len(c.s.Replies) {
		return c.s.Replies[k]
	}
	return VerifReply{Transport: true}
}

func (c *VerifCluster) handle(id int32, req *request) encoderWithHeader {
	c.mu.Lock()
	defer c.mu.Unlock()
	switch r := req.body.(type) {
	case *MetadataRequest:
		c.meta++
		res := &MetadataResponse{Version: r.version(), ControllerID: c.ctrlNow()}
		var all []int32
		for _, b := range c.Brokers {
			res.AddBroker(b.Addr(), b.BrokerID())
			all = append(all, b.BrokerID())
		}
		want := len(r.Topics) == 0
		for _, t := range r.Topics {
			if t == "t" {
				want = true
			}
		}
		if want && c.s.Leaders != nil {
			res.AddTopic("t", ErrNoError)
			for p, l := range c.s.Leaders {
				if l < 0 {
					res.AddTopicPartition("t", p, -1, all, all, nil, ErrLeaderNotAvailable)
				} else {
					res.AddTopicPartition("t", p, l, all, all, nil, ErrNoError)
				}
			}
		}
		return res
	case *FindCoordinatorRequest:
		res := &FindCoordinatorResponse{Version: r.version()}
		co, ok := c.s.Coord[r.CoordinatorKey]
		switch {
		case !ok:
			res.Err = ErrInvalidGroupId
		case co < 0:
			res.Err = KError(-co)
		default:
			for _, b := range c.Brokers {
				if b.BrokerID() == co {
					res.Coordinator = &Broker{id: co, addr: b.Addr()}
				}
			}
		}
		return res
	case *CreateTopicsRequest:
		c.record(id, "ct", r.Version, nil)
		rp := c.nextReply()
		if rp.Transport {
			return &verifGarbage{0}
		}
		res := &CreateTopicsResponse{Version: r.Version, TopicErrors: map[string]*TopicError{}}
		if code, ok := rp.Items[0]; ok {
			for t := range r.TopicDetails {
				res.TopicErrors[t] = &TopicError{Err: KError(code)}
			}
		}
		return res
	case *DeleteTopicsRequest:
		c.record(id, "dt", r.Version, nil)
		rp := c.nextReply()
		if rp.Transport {
			return &verifGarbage{0}
		}
		res := &DeleteTopicsResponse{Version: r.Version, TopicErrorCodes: map[string]KError{}}
		if code, ok := rp.Items[0]; ok {
			for _, t := range r.Topics {
				res.TopicErrorCodes[t] = KError(code)
			}
		}
		return res
	case *CreatePartitionsRequest:
		c.record(id, "cp", 0, nil)
		rp := c.nextReply()
		if rp.Transport {
			return &verifGarbage{0}
		}
		res := &CreatePartitionsResponse{TopicPartitionErrors: map[string]*TopicPartitionError{}}
		if code, ok := rp.Items[0]; ok {
			for t := range r.TopicPartitions {
				res.TopicPartitionErrors[t] = &TopicPartitionError{Err: KError(code)}
			}
		}
		return res
	case *AlterPartitionReassignmentsRequest:
		var ps []int32
		for _, m := range r.blocks {
			for p := range m {
				ps = append(ps, p)
			}
		}
		c.record(id, "ar", r.Version, ps)
		rp := c.nextReply()
		if rp.Transport {
			return &verifGarbage{1}
		}
		res := &AlterPartitionReassignmentsResponse{Version: r.Version, ErrorCode: KError(rp.Top)}
		for p, code := range rp.Items {
			res.AddError("t", p, KError(code), nil)
		}
		return res
	case *DeleteRecordsRequest:
		var ps []int32
		for _, t := range r.Topics {
			for p := range t.PartitionOffsets {
				ps = append(ps, p)
			}
		}
		c.record(id, "dr", 0, ps)
		rp := c.s.Broker[id]
		if rp.Transport {
			return &verifGarbage{0}
		}
		res := &DeleteRecordsResponse{Topics: map[string]*DeleteRecordsResponseTopic{}}
		if !rp.NoTopic {
			t := &DeleteRecordsResponseTopic{Partitions: map[int32]*DeleteRecordsResponsePartition{}}
			for p, code := range rp.Items {
				t.Partitions[p] = &DeleteRecordsResponsePartition{LowWatermark: 1, Err: KError(code)}
			}
			res.Topics["t"] = t
		}
		return res
	case *DescribeGroupsRequest:
		var gs []int32
		for _, g := range r.Groups {
			gs = append(gs, verifGroupNo(g))
		}
		c.record(id, "dg", 0, gs)
		rp := c.s.Broker[id]
		if rp.Transport {
			return &verifGarbage{0}
		}
		res := &DescribeGroupsResponse{}
		var keys []int32
		for g := range rp.Items {
			keys = append(keys, g)
		}
		for _, g := range sortedI32(keys) {
			res.Groups = append(res.Groups, &GroupDescription{Err: KError(rp.Items[g]), GroupId: "g" + strconv.Itoa(int(g)), State: "Stable"})
		}
		return res
	case *DeleteGroupsRequest:
		var gs []int32
		for _, g := range r.Groups {
			gs = append(gs, verifGroupNo(g))
		}
		c.record(id, "delg", 0, gs)
		rp := c.s.Broker[id]
		if rp.Transport {
			return &verifGarbage{0}
		}
		res := &DeleteGroupsResponse{GroupErrorCodes: map[string]KError{}}
		if !rp.NoTopic {
			for g, code := range rp.Items {
				res.GroupErrorCodes["g"+strconv.Itoa(int(g))] = KError(code)
			}
		}
		return res
	case *OffsetFetchRequest:
		c.record(id, "lgo", r.Version, []int32{verifGroupNo(r.ConsumerGroup)})
		rp := c.s.Broker[id]
		if rp.Transport {
			return &verifGarbage{0}
		}
		res := &OffsetFetchResponse{Version: r.Version, Err: KError(rp.Top)}
		for p, code := range rp.Items {
			res.AddBlock("t", p, &OffsetFetchResponseBlock{Offset: 7, Err: KError(code)})
		}
		return res
	case *DescribeLogDirsRequest:
		c.record(id, "dld", r.Version, nil)
		rp := c.s.Broker[id]
		if rp.Transport {
			return &verifGarbage{0}
		}
		return &DescribeLogDirsResponse{Version: r.Version, LogDirs: []DescribeLogDirsResponseDirMetadata{{Path: "/d" + strconv.Itoa(int(id))}}}
	}
	return nil
}

// VerifRetryOnError runs the real clusterAdmin.retryOnError with Admin.Retry.Max = max over a script of
// attempt results: 'n' nil, 'r' an error the retryable predicate accepts, 'e' another error.
// Returns the number of calls of fn and the kind of the returned error.
func VerifRetryOnError(max int, script []byte) (calls int, kind byte) {
	conf := NewConfig()
	conf.Admin.Retry.Max = max
	conf.Admin.Retry.Backoff = 0
	ca := &clusterAdmin{conf: conf}
	errR := KError(ErrNotController)
	errE := ErrIncompleteResponse
	err := ca.retryOnError(func(e error) bool { return e == error(errR) }, func() error {
		k := byte('n')
		if calls < len(script) {
			k = script[calls]
		}
		calls++
		switch k {
		case 'r':
			return errR
		case 'e':
			return errE
		}
		return nil
	})
	switch err {
	case nil:
		return calls, 'n'
	case error(errR):
		return calls, 'r'
	case errE:
		return calls, 'e'
	}
	return calls, '?'
}

// VerifIsErrNoController exposes isErrNoController on the three error shapes plus a foreign error.
func VerifIsErrNoController(shape int, code int16) bool {
	switch shape {
	case 0:
		return isErrNoController(&TopicError{Err: KError(code)})
	case 1:
		return isErrNoController(&TopicPartitionError{Err: KError(code)})
	case 2:
		return isErrNoController(KError(code))
	}
	return isErrNoController(ErrIncompleteResponse)
}
