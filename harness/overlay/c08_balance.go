//go:build verif && c08pieces
// +build verif,c08pieces

package sarama

import "sort"

// Access to the unexported pieces of balance_strategy.go / sticky_assignor_user_data.go for the C08/C13
// harnesses.  Every helper only converts between exported plain types and the internal ones and calls the
// REAL function.

// VerifTP is topicPartitionAssignment with exported name.
type VerifTP struct {
	Topic     string
	Partition int32
}

func vtpIn(x []VerifTP) []topicPartitionAssignment {
	if x == nil {
		return nil
	}
	out := make([]topicPartitionAssignment, len(x))
	for i, p := range x {
		out[i] = topicPartitionAssignment{Topic: p.Topic, Partition: p.Partition}
	}
	return out
}

func vtpOut(x []topicPartitionAssignment) []VerifTP {
	out := make([]VerifTP, len(x))
	for i, p := range x {
		out[i] = VerifTP{Topic: p.Topic, Partition: p.Partition}
	}
	return out
}

func vasgIn(a map[string][]VerifTP) map[string][]topicPartitionAssignment {
	out := make(map[string][]topicPartitionAssignment, len(a))
	for m, l := range a {
		out[m] = vtpIn(l)
	}
	return out
}

func vasgOut(a map[string][]topicPartitionAssignment) map[string][]VerifTP {
	out := make(map[string][]VerifTP, len(a))
	for m, l := range a {
		out[m] = vtpOut(l)
	}
	return out
}

// vInvert builds partition2AllPotentialConsumers from consumer2AllPotentialPartitions the way Plan does
// (members visited in the given order), plus entries with no consumer for `extra`.
func vInvert(pot map[string][]VerifTP, order []string, extra []VerifTP) map[topicPartitionAssignment][]string {
	out := make(map[topicPartitionAssignment][]string)
	for _, p := range extra {
		out[topicPartitionAssignment{Topic: p.Topic, Partition: p.Partition}] = []string{}
	}
	for _, m := range order {
		for _, p := range pot[m] {
			k := topicPartitionAssignment{Topic: p.Topic, Partition: p.Partition}
			out[k] = append(out[k], m)
		}
	}
	return out
}

// VerifRangeCore runs BalanceStrategyRange.coreFn on the given (already ordered) member ids.
func VerifRangeCore(memberIDs []string, topic string, partitions []int32) BalanceStrategyPlan {
	plan := make(BalanceStrategyPlan)
	BalanceStrategyRange.coreFn(plan, memberIDs, topic, partitions)
	return plan
}

// VerifHashValue is balanceStrategyHashValue(topic, member): the sort key of the range strategy.
func VerifHashValue(topic, member string) uint32 { return balanceStrategyHashValue(topic, member) }

// VerifRRKey is the sort key of the round-robin strategy.
func VerifRRKey(topic string, partition int32) string {
	tp := topicAndPartition{topic: topic, partition: partition}
	return tp.comparedValue()
}

// VerifEncodeV0 encodes sticky user data in the old schema (no generation).
func VerifEncodeV0(topics map[string][]int32) ([]byte, error) {
	return encode(&StickyAssignorUserDataV0{Topics: topics}, nil)
}

// VerifEncodeV1 encodes sticky user data with a generation.
func VerifEncodeV1(topics map[string][]int32, gen int32) ([]byte, error) {
	return encode(&StickyAssignorUserDataV1{Topics: topics, Generation: gen}, nil)
}

// VerifPrev is consumerGenerationPair.
type VerifPrev struct {
	Member string
	Gen    int
}

// VerifPrepopulate runs prepopulateCurrentAssignments.
func VerifPrepopulate(members map[string]ConsumerGroupMemberMetadata) (map[string][]VerifTP, map[VerifTP]VerifPrev, error) {
	cur, prev, err := prepopulateCurrentAssignments(members)
	if err != nil {
		return nil, nil, err
	}
	p := make(map[VerifTP]VerifPrev, len(prev))
	for k, v := range prev {
		p[VerifTP{Topic: k.Topic, Partition: k.Partition}] = VerifPrev{Member: v.MemberID, Gen: v.Generation}
	}
	return vasgOut(cur), p, nil
}

// VerifIsBalanced runs isBalanced(currentAssignment, allSubscriptions).
func VerifIsBalanced(cur, pot map[string][]VerifTP) bool {
	return isBalanced(vasgIn(cur), vasgIn(pot))
}

// VerifBalanceScore runs getBalanceScore.
func VerifBalanceScore(cur map[string][]VerifTP) int { return getBalanceScore(vasgIn(cur)) }

// VerifSortMembers runs sortMemberIDsByPartitionAssignments.
func VerifSortMembers(cur map[string][]VerifTP) []string {
	return sortMemberIDsByPartitionAssignments(vasgIn(cur))
}

// VerifCanConsumerParticipate runs canConsumerParticipateInReassignment; partition2AllPotentialConsumers is
// the inversion of pot (plus `extra` partitions nobody can take).
func VerifCanConsumerParticipate(member string, cur, pot map[string][]VerifTP, order []string, extra []VerifTP) bool {
	return canConsumerParticipateInReassignment(member, vasgIn(cur), vasgIn(pot), vInvert(pot, order, extra))
}

// VerifAreSubscriptionsIdentical runs areSubscriptionsIdentical.
func VerifAreSubscriptionsIdentical(pot map[string][]VerifTP, order []string, extra []VerifTP) bool {
	return areSubscriptionsIdentical(vInvert(pot, order, extra), vasgIn(pot))
}

// VerifAssignPartition runs assignPartition with sortedCurrentSubscriptions = sortMemberIDsByPartitionAssignments(cur).
// Returns the new assignment, the owner recorded in currentPartitionConsumer ("" if none) and the returned order.
func VerifAssignPartition(p VerifTP, cur, pot map[string][]VerifTP) (map[string][]VerifTP, string, []string) {
	c := vasgIn(cur)
	owner := make(map[topicPartitionAssignment]string)
	k := topicPartitionAssignment{Topic: p.Topic, Partition: p.Partition}
	sorted := assignPartition(k, sortMemberIDsByPartitionAssignments(c), c, vasgIn(pot), owner)
	return vasgOut(c), owner[k], sorted
}

// VerifMove is one step of a movement script: move Partition to New (processPartitionMovement), or, when
// Query is set, ask getTheActualPartitionToBeMoved(Partition, Old, New) without moving.
type VerifMove struct {
	P        VerifTP
	Old, New string
	Query    bool
}

// VerifMovements runs a script against a fresh partitionMovements + currentAssignment/currentPartitionConsumer
// through the real processPartitionMovement / getTheActualPartitionToBeMoved.  For a query the answer is the
// partition returned and the number of candidates the map iteration could have chosen from.
func VerifMovements(cur map[string][]VerifTP, script []VerifMove) (map[string][]VerifTP, []VerifTP, []int, [][3]string) {
	s := &stickyBalanceStrategy{movements: partitionMovements{
		Movements:                 make(map[topicPartitionAssignment]consumerPair),
		PartitionMovementsByTopic: make(map[string]map[consumerPair]map[topicPartitionAssignment]bool),
	}}
	c := vasgIn(cur)
	owner := make(map[topicPartitionAssignment]string)
	for m, l := range c {
		for _, p := range l {
			owner[p] = m
		}
	}
	var answers []VerifTP
	var cands []int
	for _, st := range script {
		k := topicPartitionAssignment{Topic: st.P.Topic, Partition: st.P.Partition}
		if st.Query {
			got := s.movements.getTheActualPartitionToBeMoved(k, st.Old, st.New)
			answers = append(answers, VerifTP{Topic: got.Topic, Partition: got.Partition})
			old := st.Old
			if mv, ok := s.movements.Movements[k]; ok {
				old = mv.SrcMemberID
			}
			n := 0
			if byTopic, ok := s.movements.PartitionMovementsByTopic[k.Topic]; ok {
				n = len(byTopic[consumerPair{SrcMemberID: st.New, DstMemberID: old}])
			}
			cands = append(cands, n)
			continue
		}
		s.processPartitionMovement(k, st.New, c, nil, owner)
	}
	var recs [][3]string
	for p, pair := range s.movements.Movements {
		recs = append(recs, [3]string{p.Topic + "/" + itoaV(int(p.Partition)), pair.SrcMemberID, pair.DstMemberID})
	}
	sort.Slice(recs, func(i, j int) bool { return recs[i][0] < recs[j][0] })
	return vasgOut(c), answers, cands, recs
}

func itoaV(c int) string {
	neg := c < 0
	if neg {
		c = -c
	}
	s := ""
	if c == 0 {
		s = "0"
	}
	for c > 0 {
		s = string(rune('0'+c%10)) + s
		c /= 10
	}
	if neg {
		s = "-" + s
	}
	return s
}

// VerifNewSticky returns a fresh instance of the sticky strategy (BalanceStrategySticky is a shared singleton whose
// movement bookkeeping would be shared with a Plan call the harness has given up waiting for).
func VerifNewSticky() BalanceStrategy { return &stickyBalanceStrategy{} }

// ---- the call site: consumerGroup.balance

type verifBalClient struct {
	Client
	parts map[string][]int32
}

func (c *verifBalClient) Partitions(topic string) ([]int32, error) {
	p, ok := c.parts[topic]
	if !ok {
		return nil, ErrUnknownTopicOrPartition
	}
	return p, nil
}

type verifRecorder struct {
	topics map[string][]int32
}

func (r *verifRecorder) Name() string { return "verif-recorder" }
func (r *verifRecorder) Plan(members map[string]ConsumerGroupMemberMetadata, topics map[string][]int32) (BalanceStrategyPlan, error) {
	r.topics = topics
	return BalanceStrategyPlan{}, nil
}
func (r *verifRecorder) AssignmentData(memberID string, topics map[string][]int32, generationID int32) ([]byte, error) {
	return nil, nil
}

// VerifGroupBalanceTopics runs the real consumerGroup.balance with a recording strategy and a scripted client and
// returns the `topics` argument the strategy's Plan received.
func VerifGroupBalanceTopics(members map[string]ConsumerGroupMemberMetadata, parts map[string][]int32) (map[string][]int32, error) {
	rec := &verifRecorder{}
	cfg := NewConfig()
	cfg.Consumer.Group.Rebalance.Strategy = rec
	c := &consumerGroup{client: &verifBalClient{parts: parts}, config: cfg}
	if _, err := c.balance(members); err != nil {
		return nil, err
	}
	return rec.topics, nil
}
