//go:build verif
// +build verif

package sarama

import (
	"fmt"
	"sort"
	"strings"
)

// VerifC10Entry describes one decode entry point that reads bytes the client does not control.
type VerifC10Entry struct {
	Name    string
	MaxV    int16 // versions 0..MaxV are exercised
	Records bool  // carries records (the wrong-records oracle and the decompression allowance apply)
	resp    func() protocolBody
}

var verifC10Entries = []VerifC10Entry{
	{Name: "CreateAclsResponse", MaxV: 1, resp: func() protocolBody { return &CreateAclsResponse{} }},
	{Name: "DeleteAclsResponse", MaxV: 1, resp: func() protocolBody { return &DeleteAclsResponse{} }},
	{Name: "DescribeAclsResponse", MaxV: 1, resp: func() protocolBody { return &DescribeAclsResponse{} }},
	{Name: "AddOffsetsToTxnResponse", MaxV: 0, resp: func() protocolBody { return &AddOffsetsToTxnResponse{} }},
	{Name: "AddPartitionsToTxnResponse", MaxV: 0, resp: func() protocolBody { return &AddPartitionsToTxnResponse{} }},
	{Name: "AlterConfigsResponse", MaxV: 1, resp: func() protocolBody { return &AlterConfigsResponse{} }},
	{Name: "AlterPartitionReassignmentsResponse", MaxV: 0, resp: func() protocolBody { return &AlterPartitionReassignmentsResponse{} }},
	{Name: "AlterUserScramCredentialsResponse", MaxV: 0, resp: func() protocolBody { return &AlterUserScramCredentialsResponse{} }},
	{Name: "ApiVersionsResponse", MaxV: 2, resp: func() protocolBody { return &ApiVersionsResponse{} }},
	{Name: "ConsumerMetadataResponse", MaxV: 0, resp: func() protocolBody { return &ConsumerMetadataResponse{} }},
	{Name: "CreatePartitionsResponse", MaxV: 1, resp: func() protocolBody { return &CreatePartitionsResponse{} }},
	{Name: "CreateTopicsResponse", MaxV: 2, resp: func() protocolBody { return &CreateTopicsResponse{} }},
	{Name: "DeleteGroupsResponse", MaxV: 1, resp: func() protocolBody { return &DeleteGroupsResponse{} }},
	{Name: "DeleteRecordsResponse", MaxV: 1, resp: func() protocolBody { return &DeleteRecordsResponse{} }},
	{Name: "DeleteTopicsResponse", MaxV: 1, resp: func() protocolBody { return &DeleteTopicsResponse{} }},
	{Name: "DescribeConfigsResponse", MaxV: 2, resp: func() protocolBody { return &DescribeConfigsResponse{} }},
	{Name: "DescribeGroupsResponse", MaxV: 1, resp: func() protocolBody { return &DescribeGroupsResponse{} }},
	{Name: "DescribeLogDirsResponse", MaxV: 1, resp: func() protocolBody { return &DescribeLogDirsResponse{} }},
	{Name: "DescribeUserScramCredentialsResponse", MaxV: 0, resp: func() protocolBody { return &DescribeUserScramCredentialsResponse{} }},
	{Name: "EndTxnResponse", MaxV: 1, resp: func() protocolBody { return &EndTxnResponse{} }},
	{Name: "FetchResponse", MaxV: 11, Records: true, resp: func() protocolBody { return &FetchResponse{} }},
	{Name: "FindCoordinatorResponse", MaxV: 1, resp: func() protocolBody { return &FindCoordinatorResponse{} }},
	{Name: "HeartbeatResponse", MaxV: 1, resp: func() protocolBody { return &HeartbeatResponse{} }},
	{Name: "IncrementalAlterConfigsResponse", MaxV: 0, resp: func() protocolBody { return &IncrementalAlterConfigsResponse{} }},
	{Name: "InitProducerIDResponse", MaxV: 1, resp: func() protocolBody { return &InitProducerIDResponse{} }},
	{Name: "JoinGroupResponse", MaxV: 2, resp: func() protocolBody { return &JoinGroupResponse{} }},
	{Name: "LeaveGroupResponse", MaxV: 1, resp: func() protocolBody { return &LeaveGroupResponse{} }},
	{Name: "ListGroupsResponse", MaxV: 1, resp: func() protocolBody { return &ListGroupsResponse{} }},
	{Name: "ListPartitionReassignmentsResponse", MaxV: 0, resp: func() protocolBody { return &ListPartitionReassignmentsResponse{} }},
	{Name: "MetadataResponse", MaxV: 5, resp: func() protocolBody { return &MetadataResponse{} }},
	{Name: "OffsetCommitResponse", MaxV: 4, resp: func() protocolBody { return &OffsetCommitResponse{} }},
	{Name: "OffsetFetchResponse", MaxV: 7, resp: func() protocolBody { return &OffsetFetchResponse{} }},
	{Name: "OffsetResponse", MaxV: 2, resp: func() protocolBody { return &OffsetResponse{} }},
	{Name: "ProduceResponse", MaxV: 7, resp: func() protocolBody { return &ProduceResponse{} }},
	{Name: "SaslAuthenticateResponse", MaxV: 1, resp: func() protocolBody { return &SaslAuthenticateResponse{} }},
	{Name: "SaslHandshakeResponse", MaxV: 1, resp: func() protocolBody { return &SaslHandshakeResponse{} }},
	{Name: "SyncGroupResponse", MaxV: 1, resp: func() protocolBody { return &SyncGroupResponse{} }},
	{Name: "TxnOffsetCommitResponse", MaxV: 0, resp: func() protocolBody { return &TxnOffsetCommitResponse{} }},
	// not responses
	{Name: "responseHeader", MaxV: 1},
	{Name: "RecordBatch", MaxV: 0, Records: true},
	{Name: "Records", MaxV: 0, Records: true},
	{Name: "Record", MaxV: 0}, // a bare record carries no checksum
	{Name: "MessageSet", MaxV: 0, Records: true},
	{Name: "MessageBlock", MaxV: 0, Records: true},
	{Name: "Message", MaxV: 0, Records: true},
	// the blobs OTHER group members write; "version" is the Version field inside the blob
	{Name: "ConsumerGroupMemberMetadata", MaxV: 3},
	{Name: "ConsumerGroupMemberAssignment", MaxV: 3},
	// the same blobs reached through the responses that carry them
	{Name: "JoinGroupResponse.GetMembers", MaxV: 2},
	{Name: "DescribeGroupsResponse.members", MaxV: 1},
	{Name: "StickyAssignorUserDataV0", MaxV: 0},
	{Name: "StickyAssignorUserDataV1", MaxV: 0},
	{Name: "StickyUserData", MaxV: 0}, // deserializeTopicPartitionAssignment (balance_strategy.go)
}

// VerifC10Entries lists the entry points.
func VerifC10Entries() []VerifC10Entry { return verifC10Entries }

func verifC10Entry(name string) *VerifC10Entry {
	for i := range verifC10Entries {
		if verifC10Entries[i].Name == name {
			return &verifC10Entries[i]
		}
	}
	return nil
}

// ---- rendering of decoded records (only fields covered by the batch / message checksum) ----

func verifRenderRecord(r *Record) string {
	var h []string
	for _, x := range r.Headers {
		if x == nil {
			h = append(h, "nil")
		} else {
			h = append(h, fmt.Sprintf("%x=%x", x.Key, x.Value))
		}
	}
	return fmt.Sprintf("r/%d/%d/%d/%x/%x/%s", r.Attributes, int64(r.TimestampDelta), r.OffsetDelta, r.Key, r.Value, strings.Join(h, ","))
}

func verifRenderBatch(b *RecordBatch) []string {
	var out []string
	if b == nil {
		return out
	}
	for _, r := range b.Records {
		if r != nil {
			out = append(out, verifRenderRecord(r))
		}
	}
	return out
}

func verifRenderSet(ms *MessageSet) []string {
	var out []string
	if ms == nil {
		return out
	}
	for _, mb := range ms.Messages {
		if mb == nil || mb.Msg == nil {
			continue
		}
		if mb.Msg.Set != nil {
			out = append(out, verifRenderSet(mb.Msg.Set)...)
		} else {
			out = append(out, fmt.Sprintf("m/%d/%x/%x", mb.Msg.Version, mb.Msg.Key, mb.Msg.Value))
		}
	}
	return out
}

func verifRenderRecords(rs *Records) []string {
	if rs == nil {
		return nil
	}
	switch rs.recordsType {
	case legacyRecords:
		return verifRenderSet(rs.MsgSet)
	case defaultRecords:
		return verifRenderBatch(rs.RecordBatch)
	}
	return nil
}

func verifJoinBlocks(blocks [][]string) string {
	parts := make([]string, len(blocks))
	for i, b := range blocks {
		parts[i] = strings.Join(b, ";")
	}
	return strings.Join(parts, "|")
}

// VerifC10Decode runs the REAL decoder of the entry point on buf (through decode / versionedDecode, i.e. with the
// whole-buffer check) and returns the error plus, for record carrying entries, the decoded records
// (blocks separated by '|', records by ';').
func VerifC10Decode(entry string, version int16, buf []byte) (error, string) {
	e := verifC10Entry(entry)
	if e == nil {
		return fmt.Errorf("unknown entry %s", entry), ""
	}
	if e.resp != nil {
		r := e.resp()
		err := versionedDecode(buf, r, version)
		if err == nil {
			if fr, ok := r.(*FetchResponse); ok {
				return nil, verifRenderFetch(fr)
			}
		}
		return err, ""
	}
	switch entry {
	case "JoinGroupResponse.GetMembers":
		r := &JoinGroupResponse{}
		if err := versionedDecode(buf, r, version); err != nil {
			return err, ""
		}
		_, err := r.GetMembers()
		return err, ""
	case "DescribeGroupsResponse.members":
		r := &DescribeGroupsResponse{}
		if err := versionedDecode(buf, r, version); err != nil {
			return err, ""
		}
		for _, g := range r.Groups {
			if g == nil {
				continue
			}
			for _, m := range g.Members {
				if m == nil {
					continue
				}
				if _, err := m.GetMemberMetadata(); err != nil {
					return err, ""
				}
				if _, err := m.GetMemberAssignment(); err != nil {
					return err, ""
				}
			}
		}
		return nil, ""
	case "responseHeader":
		return versionedDecode(buf, &responseHeader{}, version), ""
	case "RecordBatch":
		b := &RecordBatch{}
		err := decode(buf, b)
		return err, verifJoinBlocks([][]string{verifRenderBatch(b)})
	case "Records":
		r := &Records{}
		err := decode(buf, r)
		return err, verifJoinBlocks([][]string{verifRenderRecords(r)})
	case "Record":
		r := &Record{}
		err := decode(buf, r)
		if err != nil {
			return err, ""
		}
		return nil, verifRenderRecord(r)
	case "MessageSet":
		ms := &MessageSet{}
		err := decode(buf, ms)
		return err, verifJoinBlocks([][]string{verifRenderSet(ms)})
	case "MessageBlock":
		mb := &MessageBlock{}
		err := decode(buf, mb)
		if err != nil {
			return err, ""
		}
		return nil, verifJoinBlocks([][]string{verifRenderSet(&MessageSet{Messages: []*MessageBlock{mb}})})
	case "Message":
		m := &Message{}
		err := decode(buf, m)
		if err != nil {
			return err, ""
		}
		return nil, verifJoinBlocks([][]string{verifRenderSet(&MessageSet{Messages: []*MessageBlock{{Msg: m}}})})
	case "ConsumerGroupMemberMetadata":
		return decode(buf, &ConsumerGroupMemberMetadata{}), ""
	case "ConsumerGroupMemberAssignment":
		return decode(buf, &ConsumerGroupMemberAssignment{}), ""
	case "StickyAssignorUserDataV0":
		return decode(buf, &StickyAssignorUserDataV0{}), ""
	case "StickyAssignorUserDataV1":
		return decode(buf, &StickyAssignorUserDataV1{}), ""
	case "StickyUserData":
		_, err := deserializeTopicPartitionAssignment(buf)
		return err, ""
	}
	return fmt.Errorf("unknown entry %s", entry), ""
}

func verifRenderFetch(fr *FetchResponse) string {
	var topics []string
	for t := range fr.Blocks {
		topics = append(topics, t)
	}
	sort.Strings(topics)
	var blocks [][]string
	for _, t := range topics {
		var ps []int
		for p := range fr.Blocks[t] {
			ps = append(ps, int(p))
		}
		sort.Ints(ps)
		for _, p := range ps {
			b := fr.Blocks[t][int32(p)]
			var recs []string
			if b != nil {
				for _, rs := range b.RecordsSet {
					recs = append(recs, verifRenderRecords(rs)...)
				}
			}
			blocks = append(blocks, recs)
		}
	}
	return verifJoinBlocks(blocks)
}
