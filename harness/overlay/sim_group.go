//go:build verif
// +build verif

package sarama

// Group coordinator of the simulated cluster: one real member per group plus scripted "ghost" members that
// only exist in join responses (so that the real member, as leader, plans for several members and may
// receive any share of the partitions, including none).  Broker 1 is the coordinator of every group.

import (
	"fmt"
	"sort"
)

// VerifSimGroupReq is one group-protocol request as seen by the coordinator.
type VerifSimGroupReq struct {
	Seq        int // global arrival number
	Kind       string // findcoord | join | sync | heartbeat | commit | offsetfetch | leave
	MemberID   string
	Generation int32
	Verdict    KError
	Dropped    bool
	// commit: committed offsets / metadata by "topic/partition"
	Offsets  map[string]int64
	Metadata map[string]string
	// join answer
	IssuedMember string
	IssuedGen    int32
	// sync answer: partitions assigned to the real member by "topic" -> partitions
	Assigned map[string][]int32
	// multi-member coordinator: client id of the connection, and when a held join / sync was answered
	ClientID    string
	AnsweredSeq int
}

type simGroup struct {
	member     string // current member id of the real member ("" = none)
	generation int32
	nextMember int
	store      map[string]int64
	storeMeta  map[string]string
	counts     map[string]int
}

// GroupFault: verdict for the n-th request of a kind (n from 1). ErrNoError = behave normally.
// Return code -2 (KError(-2)) closes the connection instead of answering.
type VerifSimGroupScript func(kind string, n int) KError

func (s *VerifSim) group(g string) *simGroup {
	if s.groups == nil {
		s.groups = map[string]*simGroup{}
	}
	gr := s.groups[g]
	if gr == nil {
		gr = &simGroup{store: map[string]int64{}, storeMeta: map[string]string{}, counts: map[string]int{}}
		s.groups[g] = gr
	}
	return gr
}

// GroupRequests returns a copy of the request log.
func (s *VerifSim) GroupRequests() []VerifSimGroupReq {
	s.mu.Lock()
	defer s.mu.Unlock()
	return append([]VerifSimGroupReq(nil), s.groupReqs...)
}

// GroupStore returns the committed offset of a partition (-1 if none).
func (s *VerifSim) GroupStore(group, topic string, p int32) (int64, string) {
	s.mu.Lock()
	defer s.mu.Unlock()
	gr := s.group(group)
	o, ok := gr.store[tpKey(topic, p)]
	if !ok {
		return -1, ""
	}
	return o, gr.storeMeta[tpKey(topic, p)]
}

// SetGroupStore pre-sets a committed offset.
func (s *VerifSim) SetGroupStore(group, topic string, p int32, off int64) {
	s.mu.Lock()
	defer s.mu.Unlock()
	s.group(group).store[tpKey(topic, p)] = off
}

// GroupSeq returns the current global sequence number (for ordering handler events against requests).
func (s *VerifSim) GroupSeq() int {
	s.mu.Lock()
	defer s.mu.Unlock()
	s.groupSeq++
	return s.groupSeq
}

func (s *VerifSim) groupVerdict(gr *simGroup, kind string) (KError, bool) {
	gr.counts[kind]++
	if s.GroupScript == nil {
		return ErrNoError, false
	}
	v := s.GroupScript(kind, gr.counts[kind])
	if v == KError(-2) {
		return ErrNoError, true
	}
	return v, false
}

func (s *VerifSim) logGroup(r VerifSimGroupReq) {
	s.groupSeq++
	r.Seq = s.groupSeq
	s.groupReqs = append(s.groupReqs, r)
}

// handleGroup answers the group-protocol requests; ok=false means "not a group request".
func (s *VerifSim) handleGroup(broker int32, body protocolBody) (res encoderWithHeader, closeConn bool, ok bool) {
	s.mu.Lock()
	defer s.mu.Unlock()
	coord := s.brokers[0]
	switch req := body.(type) {
	case *FindCoordinatorRequest:
		gr := s.group(req.CoordinatorKey)
		v, drop := s.groupVerdict(gr, "findcoord")
		s.logGroup(VerifSimGroupReq{Kind: "findcoord", Verdict: v, Dropped: drop})
		if drop {
			return nil, true, true
		}
		r := &FindCoordinatorResponse{Version: req.Version, Err: v}
		if v == ErrNoError {
			r.Coordinator = &Broker{id: coord.id, addr: coord.ln.Addr().String()}
		} else {
			r.Coordinator = &Broker{id: -1, addr: ":0"}
		}
		return r, false, true
	case *ConsumerMetadataRequest:
		gr := s.group(req.ConsumerGroup)
		v, drop := s.groupVerdict(gr, "findcoord")
		s.logGroup(VerifSimGroupReq{Kind: "findcoord", Verdict: v, Dropped: drop})
		if drop {
			return nil, true, true
		}
		r := &ConsumerMetadataResponse{Err: v}
		if v == ErrNoError {
			r.Coordinator = &Broker{id: coord.id, addr: coord.ln.Addr().String()}
		} else {
			r.Coordinator = &Broker{id: -1, addr: ":0"}
		}
		return r, false, true
	case *JoinGroupRequest:
		gr := s.group(req.GroupId)
		v, drop := s.groupVerdict(gr, "join")
		lg := VerifSimGroupReq{Kind: "join", MemberID: req.MemberId, Verdict: v, Dropped: drop}
		if drop {
			s.logGroup(lg)
			return nil, true, true
		}
		r := &JoinGroupResponse{Version: req.Version, Err: v}
		if v == ErrNoError && req.MemberId != "" && req.MemberId != gr.member {
			// a faithful coordinator fences a member id it does not know (never an empty one)
			v = ErrUnknownMemberId
			r.Err = v
			lg.Verdict = v
		}
		if v == ErrUnknownMemberId || v == ErrIllegalGeneration {
			gr.member = "" // the member is fenced: its id is forgotten
		}
		if v == ErrNoError {
			if req.MemberId == "" {
				gr.nextMember++
				gr.member = fmt.Sprintf("member-%d", gr.nextMember)
			}
			gr.generation++
			r.GenerationId = gr.generation
			r.MemberId = gr.member
			r.LeaderId = gr.member
			r.Members = map[string][]byte{}
			if s.GroupFollower {
				// another (ghost) member leads: the real member gets no member list and sends an empty plan;
				// its assignment is what the script says
				r.LeaderId = "ghost-leader"
			}
			var meta []byte
			for _, gp := range req.OrderedGroupProtocols {
				r.GroupProtocol = gp.Name
				meta = gp.Metadata
				break
			}
			if meta == nil {
				var names []string
				for n := range req.GroupProtocols {
					names = append(names, n)
				}
				sort.Strings(names)
				if len(names) > 0 {
					r.GroupProtocol = names[0]
					meta = req.GroupProtocols[names[0]]
				}
			}
			if !s.GroupFollower {
				r.Members[gr.member] = meta
				for i := 0; i < s.GroupGhosts; i++ {
					r.Members[fmt.Sprintf("ghost-%d", i)] = meta
				}
			}
			lg.IssuedMember, lg.IssuedGen = gr.member, gr.generation
		}
		s.logGroup(lg)
		return r, false, true
	case *SyncGroupRequest:
		gr := s.group(req.GroupId)
		v, drop := s.groupVerdict(gr, "sync")
		lg := VerifSimGroupReq{Kind: "sync", MemberID: req.MemberId, Generation: req.GenerationId, Verdict: v, Dropped: drop}
		if drop {
			s.logGroup(lg)
			return nil, true, true
		}
		r := &SyncGroupResponse{Err: v}
		if v == ErrNoError {
			if req.MemberId != gr.member {
				r.Err = ErrUnknownMemberId
			} else if req.GenerationId != gr.generation {
				r.Err = ErrIllegalGeneration
			} else {
				r.MemberAssignment = req.GroupAssignments[gr.member]
				if s.GroupFollower {
					r.MemberAssignment = nil
					if len(s.GroupFollowerParts) > 0 {
						b, _ := encode(&ConsumerGroupMemberAssignment{Version: 1, Topics: map[string][]int32{s.GroupFollowerTopic: s.GroupFollowerParts}}, nil)
						r.MemberAssignment = b
					}
				}
				if len(r.MemberAssignment) > 0 {
					a := new(ConsumerGroupMemberAssignment)
					if decode(r.MemberAssignment, a) == nil {
						lg.Assigned = a.Topics
					}
				}
			}
			lg.Verdict = r.Err
		}
		if r.Err == ErrUnknownMemberId || r.Err == ErrIllegalGeneration {
			gr.member = ""
		}
		s.logGroup(lg)
		return r, false, true
	case *HeartbeatRequest:
		gr := s.group(req.GroupId)
		v, drop := s.groupVerdict(gr, "heartbeat")
		if v == ErrNoError && !drop {
			if req.MemberId != gr.member {
				v = ErrUnknownMemberId
			} else if req.GenerationId != gr.generation {
				v = ErrIllegalGeneration
			}
		}
		if v == ErrUnknownMemberId || v == ErrIllegalGeneration {
			gr.member = ""
		}
		s.logGroup(VerifSimGroupReq{Kind: "heartbeat", MemberID: req.MemberId, Generation: req.GenerationId, Verdict: v, Dropped: drop})
		if drop {
			return nil, true, true
		}
		return &HeartbeatResponse{Err: v}, false, true
	case *LeaveGroupRequest:
		gr := s.group(req.GroupId)
		v, drop := s.groupVerdict(gr, "leave")
		s.logGroup(VerifSimGroupReq{Kind: "leave", MemberID: req.MemberId, Verdict: v, Dropped: drop})
		if req.MemberId == gr.member {
			gr.member = ""
		}
		if drop {
			return nil, true, true
		}
		return &LeaveGroupResponse{Err: v}, false, true
	case *OffsetFetchRequest:
		gr := s.group(req.ConsumerGroup)
		v, drop := s.groupVerdict(gr, "offsetfetch")
		s.logGroup(VerifSimGroupReq{Kind: "offsetfetch", Verdict: v, Dropped: drop})
		if drop {
			return nil, true, true
		}
		r := &OffsetFetchResponse{Version: req.Version}
		for t, parts := range req.partitions {
			for _, p := range parts {
				b := &OffsetFetchResponseBlock{Offset: -1, Err: v}
				if o, ok := gr.store[tpKey(t, p)]; ok && v == ErrNoError {
					b.Offset = o
					b.Metadata = gr.storeMeta[tpKey(t, p)]
				}
				r.AddBlock(t, p, b)
			}
		}
		return r, false, true
	case *OffsetCommitRequest:
		gr := s.group(req.ConsumerGroup)
		v, drop := s.groupVerdict(gr, "commit")
		lg := VerifSimGroupReq{Kind: "commit", MemberID: req.ConsumerID, Generation: req.ConsumerGroupGeneration, Verdict: v, Dropped: drop,
			Offsets: map[string]int64{}, Metadata: map[string]string{}}
		if v == ErrNoError && !drop && req.Version >= 1 {
			if req.ConsumerID != gr.member {
				v = ErrUnknownMemberId
			} else if req.ConsumerGroupGeneration != gr.generation {
				v = ErrIllegalGeneration
			}
			lg.Verdict = v
		}
		r := &OffsetCommitResponse{Version: req.Version}
		for t, parts := range req.blocks {
			for p, b := range parts {
				lg.Offsets[tpKey(t, p)] = b.offset
				lg.Metadata[tpKey(t, p)] = b.metadata
				if v == ErrNoError && !drop {
					gr.store[tpKey(t, p)] = b.offset
					gr.storeMeta[tpKey(t, p)] = b.metadata
				}
				r.AddError(t, p, v)
			}
		}
		s.logGroup(lg)
		if drop {
			return nil, true, true
		}
		return r, false, true
	}
	return nil, false, false
}
