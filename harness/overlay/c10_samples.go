//go:build verif
// +build verif

package sarama

import (
	"fmt"
	"reflect"
	"time"
)

// verifGen fills values of sarama's wire types with small random content (reflection over exported fields),
// so that `encode` yields a VALID encoding for every response type and version.
type verifGen struct {
	next    func() uint64
	version int16
	rich    bool // no empty collections, no nil pointers: every nested decode method is reached
}

// size of a generated collection
func (g *verifGen) count() int {
	if g.rich {
		return 1 + g.n(2)
	}
	return g.n(3)
}

func (g *verifGen) n(k int) int {
	if k <= 0 {
		return 0
	}
	return int(g.next() % uint64(k))
}

func (g *verifGen) str() string {
	l := g.n(6)
	b := make([]byte, l)
	for i := range b {
		b[i] = byte('a' + g.n(26))
	}
	return string(b)
}

func (g *verifGen) bytes(max int) []byte {
	l := g.n(max + 1)
	b := make([]byte, l)
	for i := range b {
		b[i] = byte(g.next())
	}
	return b
}

var (
	verifTimeT     = reflect.TypeOf(time.Time{})
	verifDurationT = reflect.TypeOf(time.Duration(0))
	verifBrokerT   = reflect.TypeOf(&Broker{})
	verifRecordsT  = reflect.TypeOf(Records{})
	verifAprErrT   = reflect.TypeOf(&alterPartitionReassignmentsErrorBlock{})
)

func (g *verifGen) fill(v reflect.Value, depth int) {
	t := v.Type()
	switch {
	case t == verifTimeT:
		if g.n(4) == 0 {
			return
		}
		v.Set(reflect.ValueOf(time.Unix(int64(1500000000+g.n(1000000)), int64(g.n(1000))*1000000)))
		return
	case t == verifDurationT:
		v.SetInt(int64(g.n(2000)) * int64(time.Millisecond))
		return
	case t == verifBrokerT:
		b := &Broker{id: int32(g.n(10)), addr: fmt.Sprintf("h%d:%d", g.n(5), 9000+g.n(100))}
		if g.n(2) == 0 {
			s := g.str()
			b.rack = &s
		}
		v.Set(reflect.ValueOf(b))
		return
	case t == verifAprErrT:
		b := &alterPartitionReassignmentsErrorBlock{errorCode: KError(g.n(80))}
		if g.n(2) == 0 {
			s := g.str()
			b.errorMessage = &s
		}
		v.Set(reflect.ValueOf(b))
		return
	case t == verifRecordsT:
		return
	}
	switch v.Kind() {
	case reflect.Bool:
		v.SetBool(g.n(2) == 0)
	case reflect.Int8:
		v.SetInt(int64(g.n(6)))
	case reflect.Int16:
		v.SetInt(int64(g.n(60)))
	case reflect.Int32, reflect.Int, reflect.Int64:
		v.SetInt(int64(g.n(1000)))
	case reflect.Uint8, reflect.Uint16, reflect.Uint32, reflect.Uint64:
		v.SetUint(uint64(g.n(100)))
	case reflect.String:
		v.SetString(g.str())
	case reflect.Ptr:
		if t.Elem().Kind() == reflect.String && !g.rich && g.n(4) == 0 {
			return // nullable string left nil
		}
		p := reflect.New(t.Elem())
		g.fill(p.Elem(), depth+1)
		v.Set(p)
	case reflect.Struct:
		for i := 0; i < v.NumField(); i++ {
			f := v.Field(i)
			if !f.CanSet() {
				continue
			}
			if t.Field(i).Name == "Version" && f.Kind() == reflect.Int16 {
				f.SetInt(int64(g.version))
				continue
			}
			g.fill(f, depth+1)
		}
	case reflect.Slice:
		if t.Elem().Kind() == reflect.Uint8 {
			if !g.rich && g.n(5) == 0 {
				return
			}
			v.SetBytes(append(g.bytes(7), byte(g.next())))
			return
		}
		l := g.count()
		if depth > 6 {
			l = 0
		}
		s := reflect.MakeSlice(t, l, l)
		for i := 0; i < l; i++ {
			g.fill(s.Index(i), depth+1)
		}
		v.Set(s)
	case reflect.Map:
		l := g.count()
		if depth > 6 {
			l = 0
		}
		m := reflect.MakeMap(t)
		for i := 0; i < l; i++ {
			k := reflect.New(t.Key()).Elem()
			g.fill(k, depth+1)
			e := reflect.New(t.Elem()).Elem()
			g.fill(e, depth+1)
			m.SetMapIndex(k, e)
		}
		v.Set(m)
	}
}

func (g *verifGen) record() *Record {
	r := &Record{Key: g.bytes(5), Value: g.bytes(9), OffsetDelta: int64(g.n(5)), TimestampDelta: time.Duration(g.n(50)) * time.Millisecond}
	if !g.rich && g.n(4) == 0 {
		r.Key = nil
	}
	nh := g.n(3)
	if g.rich && nh == 0 {
		nh = 1
	}
	for i := nh; i > 0; i-- {
		r.Headers = append(r.Headers, &RecordHeader{Key: g.bytes(3), Value: g.bytes(4)})
	}
	return r
}

func (g *verifGen) batch(codec CompressionCodec) *RecordBatch {
	b := &RecordBatch{
		Version: 2, Codec: codec, CompressionLevel: CompressionLevelDefault, FirstOffset: int64(g.n(1000)),
		PartitionLeaderEpoch: int32(g.n(10)), LastOffsetDelta: int32(g.n(4)),
		FirstTimestamp: time.Unix(1500000000, 0), MaxTimestamp: time.Unix(1500000100, 0),
		ProducerID: int64(g.n(100)), ProducerEpoch: int16(g.n(5)), FirstSequence: int32(g.n(20)),
		IsTransactional: g.n(4) == 0, LogAppendTime: g.n(4) == 0,
	}
	nrec := 1 + g.n(3)
	if g.rich {
		nrec = 3 // siblings: a record length can be made to land on another record's boundary
	}
	for i := nrec; i > 0; i-- {
		b.Records = append(b.Records, g.record())
	}
	return b
}

func (g *verifGen) message(version int8) *Message {
	m := &Message{Version: version, Key: g.bytes(4), Value: g.bytes(9), CompressionLevel: CompressionLevelDefault}
	if g.n(4) == 0 {
		m.Key = nil
	}
	if version == 1 {
		m.Timestamp = time.Unix(1500000000+int64(g.n(1000)), 0)
	}
	return m
}

// a message set of 1..3 plain messages; with codec != none one compressed wrapper message around them
func (g *verifGen) msgSet(codec CompressionCodec) (*MessageSet, error) {
	ver := int8(g.n(2))
	inner := &MessageSet{}
	nmsg := 1 + g.n(3)
	if g.rich {
		nmsg = 3
	}
	for i := nmsg; i > 0; i-- {
		inner.Messages = append(inner.Messages, &MessageBlock{Offset: int64(g.n(100)), Msg: g.message(ver)})
	}
	if codec == CompressionNone {
		return inner, nil
	}
	raw, err := encode(inner, nil)
	if err != nil {
		return nil, err
	}
	w := &Message{Version: ver, Codec: codec, CompressionLevel: CompressionLevelDefault, Value: raw}
	if ver == 1 {
		w.Timestamp = time.Unix(1500000000, 0)
	}
	return &MessageSet{Messages: []*MessageBlock{{Offset: int64(g.n(100)), Msg: w}}}, nil
}

func (g *verifGen) fetch(version int16, codec CompressionCodec) (*FetchResponse, error) {
	fr := &FetchResponse{Version: version, ThrottleTime: time.Duration(g.n(100)) * time.Millisecond, ErrorCode: int16(g.n(3)), SessionID: int32(g.n(100))}
	fr.Blocks = map[string]map[int32]*FetchResponseBlock{}
	for ti := 1 + g.n(2); ti > 0; ti-- {
		topic := g.str() + "t"
		fr.Blocks[topic] = map[int32]*FetchResponseBlock{}
		for pi := 1 + g.n(2); pi > 0; pi-- {
			blk := &FetchResponseBlock{Err: KError(g.n(3)), HighWaterMarkOffset: int64(g.n(1000)), LastStableOffset: int64(g.n(1000)), LogStartOffset: int64(g.n(10)), PreferredReadReplica: int32(g.n(3))}
			if version >= 4 && (g.rich || g.n(2) == 0) {
				blk.AbortedTransactions = []*AbortedTransaction{{ProducerID: int64(g.n(9)), FirstOffset: int64(g.n(99))}}
			}
			nsets := 1 + g.n(2)
			if g.rich {
				nsets = 2
			}
			for si := 0; si < nsets; si++ {
				var rs Records
				if version < 4 || g.n(5) == 0 {
					ms, err := g.msgSet(codec)
					if err != nil {
						return nil, err
					}
					rs = newLegacyRecords(ms)
				} else {
					rs = newDefaultRecords(g.batch(codec))
				}
				blk.RecordsSet = append(blk.RecordsSet, &rs)
			}
			fr.Blocks[topic][int32(g.n(8))] = blk
		}
	}
	return fr, nil
}

// VerifC10Sample builds a valid encoding for the entry point and version; codec selects the compression of
// record carrying samples (0 none, 1 gzip, 2 snappy, 3 lz4, 4 zstd); rich = no empty collections / nil pointers.
// The result has been checked to decode without error.  next is the random source.
func VerifC10Sample(entry string, version int16, codec int, rich bool, validate bool, next func() uint64) (buf []byte, err error) {
	defer func() {
		if p := recover(); p != nil {
			buf, err = nil, fmt.Errorf("panic while building sample: %v", p)
		}
	}()
	g := &verifGen{next: next, version: version, rich: rich}
	e := verifC10Entry(entry)
	if e == nil {
		return nil, fmt.Errorf("unknown entry")
	}
	cc := CompressionCodec(codec)
	var enc encoder
	switch {
	case entry == "FetchResponse":
		fr, err := g.fetch(version, cc)
		if err != nil {
			return nil, err
		}
		enc = fr
	case e.resp != nil:
		r := e.resp()
		g.fill(reflect.ValueOf(r).Elem(), 0)
		enc = r
	case entry == "responseHeader":
		b := []byte{0, 0, 0, byte(5 + g.n(100)), 0, 0, byte(g.n(256)), byte(g.n(256))}
		if version >= 1 {
			b = append(b, 0)
		}
		return b, nil
	case entry == "RecordBatch":
		enc = g.batch(cc)
	case entry == "Records":
		if g.n(2) == 0 {
			rs := newDefaultRecords(g.batch(cc))
			enc = &rs
		} else {
			ms, err := g.msgSet(cc)
			if err != nil {
				return nil, err
			}
			rs := newLegacyRecords(ms)
			enc = &rs
		}
	case entry == "Record":
		enc = g.record()
	case entry == "MessageSet":
		ms, err := g.msgSet(cc)
		if err != nil {
			return nil, err
		}
		enc = ms
	case entry == "MessageBlock":
		ms, err := g.msgSet(cc)
		if err != nil {
			return nil, err
		}
		enc = ms.Messages[0]
	case entry == "Message":
		ms, err := g.msgSet(cc)
		if err != nil {
			return nil, err
		}
		enc = ms.Messages[0].Msg
	case entry == "ConsumerGroupMemberMetadata":
		m := &ConsumerGroupMemberMetadata{}
		g.fill(reflect.ValueOf(m).Elem(), 0)
		m.Version = version
		enc = m
	case entry == "ConsumerGroupMemberAssignment":
		m := &ConsumerGroupMemberAssignment{}
		g.fill(reflect.ValueOf(m).Elem(), 0)
		m.Version = version
		enc = m
	case entry == "StickyAssignorUserDataV0":
		m := &StickyAssignorUserDataV0{}
		g.fill(reflect.ValueOf(m).Elem(), 0)
		enc = m
	case entry == "StickyAssignorUserDataV1" || entry == "StickyUserData":
		m := &StickyAssignorUserDataV1{}
		g.fill(reflect.ValueOf(m).Elem(), 0)
		enc = m
	default:
		return nil, fmt.Errorf("no sample generator for %s", entry)
	}
	buf, err = encode(enc, nil)
	if err != nil {
		return nil, err
	}
	if buf == nil {
		buf = []byte{}
	}
	if validate {
		if derr, _ := VerifC10Decode(entry, version, buf); derr != nil {
			return nil, fmt.Errorf("sample does not decode: %v", derr)
		}
	}
	return buf, nil
}

// VerifC10WrapMembers builds a JoinGroupResponse ("JoinGroupResponse.GetMembers") or DescribeGroupsResponse
// ("DescribeGroupsResponse.members") of the given version whose members carry the given metadata / assignment blobs.
func VerifC10WrapMembers(entry string, version int16, meta, assign []byte, next func() uint64) (buf []byte, err error) {
	defer func() {
		if p := recover(); p != nil {
			buf, err = nil, fmt.Errorf("panic while building sample: %v", p)
		}
	}()
	g := &verifGen{next: next, version: version, rich: true}
	var enc encoder
	switch entry {
	case "JoinGroupResponse.GetMembers":
		r := &JoinGroupResponse{}
		g.fill(reflect.ValueOf(r).Elem(), 0)
		r.Members = map[string][]byte{"m1": meta, "m2": meta}
		enc = r
	case "DescribeGroupsResponse.members":
		r := &DescribeGroupsResponse{}
		g.fill(reflect.ValueOf(r).Elem(), 0)
		for _, grp := range r.Groups {
			for _, m := range grp.Members {
				m.MemberMetadata, m.MemberAssignment = meta, assign
			}
		}
		enc = r
	default:
		return nil, fmt.Errorf("not a member carrying entry: %s", entry)
	}
	return encode(enc, nil)
}
