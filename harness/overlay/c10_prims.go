//go:build verif
// +build verif

package sarama

import (
	"encoding/hex"
	"strconv"
	"strings"
)

// ---- canonical text helpers (must match lean/SaramaVerif/Driver/C10.lean) ----

func verifC10Hex(b []byte) string {
	if len(b) == 0 {
		return "-"
	}
	return hex.EncodeToString(b)
}

// VerifC10ErrKind maps an error of the decoders to the model's error enum.
func VerifC10ErrKind(err error) string {
	switch err {
	case nil:
		return "nil"
	case ErrInsufficientData:
		return "insufficient"
	case errInvalidArrayLength:
		return "invalidArrayLength"
	case errInvalidByteSliceLength:
		return "invalidByteSliceLength"
	case errInvalidStringLength:
		return "invalidStringLength"
	case errVarintOverflow:
		return "varintOverflow"
	case errUVarintOverflow:
		return "uvarintOverflow"
	case errInvalidBool:
		return "invalidBool"
	case errUnsupportedTaggedFields:
		return "taggedFields"
	}
	if pde, ok := err.(PacketDecodingError); ok {
		switch {
		case pde.Info == "length field invalid":
			return "lengthField"
		case strings.HasPrefix(pde.Info, "CRC didn't match"):
			return "crc"
		case pde.Info == "invalid length":
			return "invalidLength"
		case strings.HasPrefix(pde.Info, "message of length"):
			return "headerLength"
		}
		return "other:" + strings.ReplaceAll(pde.Info, " ", "_")
	}
	return "other"
}

func verifC10Res(v string, err error, rd *realDecoder) string {
	if err != nil {
		return "err " + VerifC10ErrKind(err) + " " + strconv.Itoa(rd.off)
	}
	return "ok " + v + " " + strconv.Itoa(rd.off)
}

func verifC10Ints32(xs []int32) string {
	if len(xs) == 0 {
		return "-"
	}
	s := make([]string, len(xs))
	for i, x := range xs {
		s[i] = strconv.Itoa(int(x))
	}
	return strings.Join(s, ",")
}

func verifC10Ints64(xs []int64) string {
	if len(xs) == 0 {
		return "-"
	}
	s := make([]string, len(xs))
	for i, x := range xs {
		s[i] = strconv.FormatInt(x, 10)
	}
	return strings.Join(s, ",")
}

// VerifC10Prim runs one primitive getter of the REAL realDecoder on (buf, off) and renders the outcome.
// buf must have cap == len (the model's slice rule), the caller guarantees 0 <= off <= len(buf).
func VerifC10Prim(name string, buf []byte, off int, args []int64) string {
	rd := &realDecoder{raw: buf, off: off}
	arg := func(i int) int {
		if i < len(args) {
			return int(args[i])
		}
		return 0
	}
	optBytes := func(b []byte, err error) string {
		if err == nil && b == nil {
			return verifC10Res("nil", nil, rd)
		}
		return verifC10Res(verifC10Hex(b), err, rd)
	}
	optStr := func(s *string, err error) string {
		if err == nil && s == nil {
			return verifC10Res("nil", nil, rd)
		}
		if s == nil {
			return verifC10Res("", err, rd)
		}
		return verifC10Res(verifC10Hex([]byte(*s)), err, rd)
	}
	field := func(in pushDecoder) string {
		if err := rd.push(in); err != nil {
			return verifC10Res("", err, rd)
		}
		if _, err := rd.getRawBytes(arg(0)); err != nil {
			return verifC10Res("", err, rd)
		}
		return verifC10Res("-", rd.pop(), rd)
	}
	switch name {
	case "getInt8":
		v, err := rd.getInt8()
		return verifC10Res(strconv.Itoa(int(v)), err, rd)
	case "getInt16":
		v, err := rd.getInt16()
		return verifC10Res(strconv.Itoa(int(v)), err, rd)
	case "getInt32":
		v, err := rd.getInt32()
		return verifC10Res(strconv.Itoa(int(v)), err, rd)
	case "getInt64":
		v, err := rd.getInt64()
		return verifC10Res(strconv.FormatInt(v, 10), err, rd)
	case "getVarint":
		v, err := rd.getVarint()
		return verifC10Res(strconv.FormatInt(v, 10), err, rd)
	case "getUVarint":
		v, err := rd.getUVarint()
		return verifC10Res(strconv.FormatUint(v, 10), err, rd)
	case "getArrayLength":
		v, err := rd.getArrayLength()
		return verifC10Res(strconv.Itoa(v), err, rd)
	case "getCompactArrayLength":
		v, err := rd.getCompactArrayLength()
		return verifC10Res(strconv.Itoa(v), err, rd)
	case "getBool":
		v, err := rd.getBool()
		return verifC10Res(strconv.FormatBool(v), err, rd)
	case "getEmptyTaggedFieldArray":
		v, err := rd.getEmptyTaggedFieldArray()
		return verifC10Res(strconv.Itoa(v), err, rd)
	case "getBytes":
		return optBytes(rd.getBytes())
	case "getVarintBytes":
		return optBytes(rd.getVarintBytes())
	case "getCompactBytes":
		v, err := rd.getCompactBytes()
		return verifC10Res(verifC10Hex(v), err, rd)
	case "getStringLength":
		v, err := rd.getStringLength()
		return verifC10Res(strconv.Itoa(v), err, rd)
	case "getString":
		v, err := rd.getString()
		return verifC10Res(verifC10Hex([]byte(v)), err, rd)
	case "getNullableString":
		return optStr(rd.getNullableString())
	case "getCompactString":
		v, err := rd.getCompactString()
		return verifC10Res(verifC10Hex([]byte(v)), err, rd)
	case "getCompactNullableString":
		return optStr(rd.getCompactNullableString())
	case "getCompactInt32Array":
		v, err := rd.getCompactInt32Array()
		return verifC10Res(verifC10Ints32(v), err, rd)
	case "getInt32Array":
		v, err := rd.getInt32Array()
		return verifC10Res(verifC10Ints32(v), err, rd)
	case "getInt64Array":
		v, err := rd.getInt64Array()
		return verifC10Res(verifC10Ints64(v), err, rd)
	case "getStringArray":
		v, err := rd.getStringArray()
		s := "-"
		if len(v) > 0 {
			parts := make([]string, len(v))
			for i, x := range v {
				parts[i] = verifC10Hex([]byte(x))
			}
			s = strings.Join(parts, ",")
		}
		return verifC10Res(s, err, rd)
	case "getRawBytes":
		v, err := rd.getRawBytes(arg(0))
		return verifC10Res(verifC10Hex(v), err, rd)
	case "getSubset":
		v, err := rd.getSubset(arg(0))
		if err != nil {
			return verifC10Res("", err, rd)
		}
		return verifC10Res(verifC10Hex(v.(*realDecoder).raw), nil, rd)
	case "peek":
		v, err := rd.peek(arg(0), arg(1))
		if err != nil {
			return verifC10Res("", err, rd)
		}
		return verifC10Res(verifC10Hex(v.(*realDecoder).raw), nil, rd)
	case "peekInt8":
		v, err := rd.peekInt8(arg(0))
		return verifC10Res(strconv.Itoa(int(v)), err, rd)
	case "lengthField":
		return field(&lengthField{})
	case "varintLengthField":
		return field(&varintLengthField{})
	case "crcIEEE":
		return field(newCRC32Field(crcIEEE))
	case "crcCastagnoli":
		return field(newCRC32Field(crcCastagnoli))
	}
	return "bad-op"
}

// VerifC10Crc is the checksum the crc32Field computes over b.
func VerifC10Crc(castagnoli bool, b []byte) uint32 {
	c := newCRC32Field(crcIEEE)
	if castagnoli {
		c = newCRC32Field(crcCastagnoli)
	}
	c.saveOffset(0)
	buf := append(make([]byte, 4, 4+len(b)), b...)
	v, _ := c.crc(len(buf), buf)
	return v
}

// VerifC10Header runs versionedDecode on a response header with the given MaxResponseSize and renders
// (length, correlation id, size of the body buffer responseReceiver would allocate).
func VerifC10Header(maxResp int32, version int16, buf []byte) string {
	old := MaxResponseSize
	MaxResponseSize = maxResp
	defer func() { MaxResponseSize = old }()
	h := responseHeader{}
	if err := versionedDecode(buf, &h, version); err != nil {
		return "err " + VerifC10ErrKind(err)
	}
	body := h.length - int32(getHeaderLength(version)) + 4
	return "ok " + strconv.Itoa(int(h.length)) + " " + strconv.Itoa(int(h.correlationID)) + " " + strconv.Itoa(int(body))
}
