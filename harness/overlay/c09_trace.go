//go:build verif
// +build verif

package sarama

// C09 overlay, part 1: recording packetEncoder / packetDecoder.
//
// verifTraceEnc wraps the REAL realEncoder: every call an encode() method makes is recorded as one token and
// forwarded, so the bytes are the real ones and the token list is the call sequence that produced them.
// verifTraceDec does the same around the REAL realDecoder and also records what every getter returned.

import (
	"encoding/hex"
	"strconv"
	"strings"

	"github.com/rcrowley/go-metrics"
)

func vhex(b []byte) string {
	if b == nil {
		return "N"
	}
	if len(b) == 0 {
		return "-"
	}
	return hex.EncodeToString(b)
}

func vhexs(s string) string {
	if len(s) == 0 {
		return "-"
	}
	return hex.EncodeToString([]byte(s))
}

func vints32(xs []int32, nilForm string) string {
	if xs == nil {
		return nilForm
	}
	if len(xs) == 0 {
		return "-"
	}
	parts := make([]string, len(xs))
	for i, x := range xs {
		parts[i] = strconv.Itoa(int(x))
	}
	return strings.Join(parts, ",")
}

func vints64(xs []int64) string {
	if len(xs) == 0 {
		return "-"
	}
	parts := make([]string, len(xs))
	for i, x := range xs {
		parts[i] = strconv.FormatInt(x, 10)
	}
	return strings.Join(parts, ",")
}

func vstrs(ss []string) string {
	if len(ss) == 0 {
		return "-"
	}
	parts := make([]string, len(ss))
	for i, s := range ss {
		if s == "" {
			parts[i] = "_"
		} else {
			parts[i] = hex.EncodeToString([]byte(s))
		}
	}
	return strings.Join(parts, ",")
}

// ---------------------------------------------------------------------------------------------- encoder

type verifTraceEnc struct {
	inner realEncoder
	toks  []string
}

func (t *verifTraceEnc) add(s string) { t.toks = append(t.toks, s) }

func (t *verifTraceEnc) putInt8(in int8)   { t.add("i8:" + strconv.Itoa(int(in))); t.inner.putInt8(in) }
func (t *verifTraceEnc) putInt16(in int16) { t.add("i16:" + strconv.Itoa(int(in))); t.inner.putInt16(in) }
func (t *verifTraceEnc) putInt32(in int32) { t.add("i32:" + strconv.Itoa(int(in))); t.inner.putInt32(in) }
func (t *verifTraceEnc) putInt64(in int64) {
	t.add("i64:" + strconv.FormatInt(in, 10))
	t.inner.putInt64(in)
}
func (t *verifTraceEnc) putVarint(in int64) {
	t.add("vi:" + strconv.FormatInt(in, 10))
	t.inner.putVarint(in)
}
func (t *verifTraceEnc) putUVarint(in uint64) {
	t.add("uv:" + strconv.FormatUint(in, 10))
	t.inner.putUVarint(in)
}
func (t *verifTraceEnc) putCompactArrayLength(in int) {
	t.add("cal:" + strconv.Itoa(in))
	t.inner.putCompactArrayLength(in)
}
func (t *verifTraceEnc) putArrayLength(in int) error {
	t.add("al:" + strconv.Itoa(in))
	return t.inner.putArrayLength(in)
}
func (t *verifTraceEnc) putBool(in bool) {
	if in {
		t.add("bo:1")
	} else {
		t.add("bo:0")
	}
	t.inner.putBool(in)
}
func (t *verifTraceEnc) putBytes(in []byte) error { t.add("by:" + vhex(in)); return t.inner.putBytes(in) }
func (t *verifTraceEnc) putVarintBytes(in []byte) error {
	t.add("vb:" + vhex(in))
	return t.inner.putVarintBytes(in)
}
func (t *verifTraceEnc) putCompactBytes(in []byte) error {
	t.add("cb:" + vhex(append([]byte{}, in...)))
	return t.inner.putCompactBytes(in)
}
func (t *verifTraceEnc) putRawBytes(in []byte) error {
	t.add("rb:" + vhex(append([]byte{}, in...)))
	return t.inner.putRawBytes(in)
}
func (t *verifTraceEnc) putCompactString(in string) error {
	t.add("cs:" + vhexs(in))
	return t.inner.putCompactString(in)
}
func (t *verifTraceEnc) putNullableCompactString(in *string) error {
	if in == nil {
		t.add("ncs:N")
	} else {
		t.add("ncs:" + vhexs(*in))
	}
	return t.inner.putNullableCompactString(in)
}
func (t *verifTraceEnc) putString(in string) error { t.add("st:" + vhexs(in)); return t.inner.putString(in) }
func (t *verifTraceEnc) putNullableString(in *string) error {
	if in == nil {
		t.add("ns:N")
	} else {
		t.add("ns:" + vhexs(*in))
	}
	return t.inner.putNullableString(in)
}
func (t *verifTraceEnc) putStringArray(in []string) error {
	t.add("sa:" + vstrs(in))
	return t.inner.putStringArray(in)
}
func (t *verifTraceEnc) putCompactInt32Array(in []int32) error {
	t.add("ca4:" + vints32(in, "N"))
	return t.inner.putCompactInt32Array(in)
}
func (t *verifTraceEnc) putNullableCompactInt32Array(in []int32) error {
	t.add("nca4:" + vints32(in, "N"))
	return t.inner.putNullableCompactInt32Array(in)
}
func (t *verifTraceEnc) putInt32Array(in []int32) error {
	t.add("a4:" + vints32(in, "-"))
	return t.inner.putInt32Array(in)
}
func (t *verifTraceEnc) putInt64Array(in []int64) error {
	t.add("a8:" + vints64(in))
	return t.inner.putInt64Array(in)
}
func (t *verifTraceEnc) putEmptyTaggedFieldArray() { t.add("tg"); t.inner.putEmptyTaggedFieldArray() }
func (t *verifTraceEnc) offset() int               { return t.inner.offset() }
func (t *verifTraceEnc) push(in pushEncoder) {
	switch f := in.(type) {
	case *lengthField:
		t.add("pl")
	case *crc32Field:
		if f.polynomial == crcIEEE {
			t.add("pc0")
		} else {
			t.add("pc1")
		}
	case *varintLengthField:
		t.add("pv:" + strconv.FormatInt(f.length, 10))
	default:
		t.add("p?")
	}
	t.inner.push(in)
}
func (t *verifTraceEnc) pop() error                        { t.add("pop"); return t.inner.pop() }
func (t *verifTraceEnc) metricRegistry() metrics.Registry { return nil }

// VerifEnc is what one encoding of a value looks like from all sides.
type VerifEnc struct {
	Toks    string // call sequence of the recorded real pass
	Bytes   []byte // bytes of the recorded real pass
	PrepLen int    // prepEncoder.length
	RealOff int    // realEncoder.off at the end of the recorded real pass
	Direct  []byte // bytes returned by the package's own encode(e, nil)
	Err     error
}

// verifEncode runs: prep pass (for the length), recorded real pass into a buffer of that length, and the
// package's encode() as shipped.  The passes come in (prep, real) pairs because Message.encode alternates.
func verifEncode(e encoder) (res VerifEnc) {
	var p prepEncoder
	if res.Err = e.encode(&p); res.Err != nil {
		return
	}
	res.PrepLen = p.length
	if p.length < 0 || p.length > int(MaxRequestSize) {
		res.Err = PacketEncodingError{"invalid request size"}
		return
	}
	t := &verifTraceEnc{inner: realEncoder{raw: make([]byte, p.length)}}
	if res.Err = e.encode(t); res.Err != nil {
		return
	}
	res.Toks = strings.Join(t.toks, " ")
	res.Bytes = t.inner.raw
	res.RealOff = t.inner.off
	res.Direct, res.Err = encode(e, nil)
	return
}

// ---------------------------------------------------------------------------------------------- decoder

type verifTraceDec struct {
	inner *realDecoder
	toks  []string
	outs  []string
}

func (t *verifTraceDec) rec(tok, out string, err error) {
	t.toks = append(t.toks, tok)
	if err != nil {
		t.outs = append(t.outs, "ERR")
	} else {
		t.outs = append(t.outs, out)
	}
}

func (t *verifTraceDec) getInt8() (int8, error) {
	v, err := t.inner.getInt8()
	t.rec("i8", strconv.Itoa(int(v)), err)
	return v, err
}
func (t *verifTraceDec) getInt16() (int16, error) {
	v, err := t.inner.getInt16()
	t.rec("i16", strconv.Itoa(int(v)), err)
	return v, err
}
func (t *verifTraceDec) getInt32() (int32, error) {
	v, err := t.inner.getInt32()
	t.rec("i32", strconv.Itoa(int(v)), err)
	return v, err
}
func (t *verifTraceDec) getInt64() (int64, error) {
	v, err := t.inner.getInt64()
	t.rec("i64", strconv.FormatInt(v, 10), err)
	return v, err
}
func (t *verifTraceDec) getVarint() (int64, error) {
	v, err := t.inner.getVarint()
	t.rec("vi", strconv.FormatInt(v, 10), err)
	return v, err
}
func (t *verifTraceDec) getUVarint() (uint64, error) {
	v, err := t.inner.getUVarint()
	t.rec("uv", strconv.FormatUint(v, 10), err)
	return v, err
}
func (t *verifTraceDec) getArrayLength() (int, error) {
	v, err := t.inner.getArrayLength()
	t.rec("al", strconv.Itoa(v), err)
	return v, err
}
func (t *verifTraceDec) getCompactArrayLength() (int, error) {
	v, err := t.inner.getCompactArrayLength()
	t.rec("cal", strconv.Itoa(v), err)
	return v, err
}
func (t *verifTraceDec) getBool() (bool, error) {
	v, err := t.inner.getBool()
	o := "0"
	if v {
		o = "1"
	}
	t.rec("bo", o, err)
	return v, err
}
func (t *verifTraceDec) getEmptyTaggedFieldArray() (int, error) {
	v, err := t.inner.getEmptyTaggedFieldArray()
	t.rec("tg", "ok", err)
	return v, err
}
func (t *verifTraceDec) getBytes() ([]byte, error) {
	v, err := t.inner.getBytes()
	t.rec("by", vhex(v), err)
	return v, err
}
func (t *verifTraceDec) getVarintBytes() ([]byte, error) {
	v, err := t.inner.getVarintBytes()
	t.rec("vb", vhex(v), err)
	return v, err
}
func (t *verifTraceDec) getCompactBytes() ([]byte, error) {
	v, err := t.inner.getCompactBytes()
	t.rec("cb", vhex(append([]byte{}, v...)), err)
	return v, err
}
func (t *verifTraceDec) getRawBytes(length int) ([]byte, error) {
	v, err := t.inner.getRawBytes(length)
	t.rec("rw:"+strconv.Itoa(length), vhex(append([]byte{}, v...)), err)
	return v, err
}
func (t *verifTraceDec) getString() (string, error) {
	v, err := t.inner.getString()
	t.rec("st", vhexs(v), err)
	return v, err
}
func (t *verifTraceDec) getNullableString() (*string, error) {
	v, err := t.inner.getNullableString()
	o := "N"
	if v != nil {
		o = vhexs(*v)
	}
	t.rec("ns", o, err)
	return v, err
}
func (t *verifTraceDec) getCompactString() (string, error) {
	v, err := t.inner.getCompactString()
	t.rec("cs", vhexs(v), err)
	return v, err
}
func (t *verifTraceDec) getCompactNullableString() (*string, error) {
	v, err := t.inner.getCompactNullableString()
	o := "N"
	if v != nil {
		o = vhexs(*v)
	}
	t.rec("ncs", o, err)
	return v, err
}
func (t *verifTraceDec) getCompactInt32Array() ([]int32, error) {
	v, err := t.inner.getCompactInt32Array()
	t.rec("nca4", vints32(v, "N"), err)
	return v, err
}
func (t *verifTraceDec) getInt32Array() ([]int32, error) {
	v, err := t.inner.getInt32Array()
	t.rec("a4", vints32(v, "-"), err)
	return v, err
}
func (t *verifTraceDec) getInt64Array() ([]int64, error) {
	v, err := t.inner.getInt64Array()
	t.rec("a8", vints64(v), err)
	return v, err
}
func (t *verifTraceDec) getStringArray() ([]string, error) {
	v, err := t.inner.getStringArray()
	t.rec("sa", vstrs(v), err)
	return v, err
}
func (t *verifTraceDec) remaining() int {
	v := t.inner.remaining()
	t.rec("rem", strconv.Itoa(v), nil)
	return v
}

// getSubset: the sub-decoder is the real one and is not recorded (its content is one opaque token here)
func (t *verifTraceDec) getSubset(length int) (packetDecoder, error) {
	buf, err := t.inner.getRawBytes(length)
	t.rec("rw:"+strconv.Itoa(length), vhex(append([]byte{}, buf...)), err)
	if err != nil {
		return nil, err
	}
	return &realDecoder{raw: buf}, nil
}
func (t *verifTraceDec) peek(offset, length int) (packetDecoder, error) {
	return t.inner.peek(offset, length)
}
func (t *verifTraceDec) peekInt8(offset int) (int8, error) {
	v, err := t.inner.peekInt8(offset)
	t.rec("pk:"+strconv.Itoa(offset), strconv.Itoa(int(v)), err)
	return v, err
}
func (t *verifTraceDec) push(in pushDecoder) error {
	tok := "p?"
	switch f := in.(type) {
	case *lengthField:
		tok = "pl"
	case *crc32Field:
		if f.polynomial == crcIEEE {
			tok = "pc0"
		} else {
			tok = "pc1"
		}
	case *varintLengthField:
		tok = "pv"
	}
	err := t.inner.push(in)
	t.rec(tok, "ok", err)
	return err
}
func (t *verifTraceDec) pop() error {
	err := t.inner.pop()
	t.rec("pop", "ok", err)
	return err
}

// VerifDec is one recorded decode.
type VerifDec struct {
	Toks string
	Outs string
	Off  int
	Err  error
}

func verifDecodeTraced(buf []byte, f func(pd packetDecoder) error) (res VerifDec) {
	t := &verifTraceDec{inner: &realDecoder{raw: buf}}
	res.Err = f(t)
	res.Toks = strings.Join(t.toks, " ")
	res.Outs = strings.Join(t.outs, " ")
	res.Off = t.inner.off
	return
}
