//go:build verif
// +build verif

package sarama

import (
	"time"

	"github.com/eapache/go-resiliency/breaker"
)

// VerifFakeClient is a Client whose Partitions/WritablePartitions answers are scripted.
type VerifFakeClient struct {
	Client
	All, Writable       []int32
	AllErr, WritableErr error
}

func (c *VerifFakeClient) Partitions(topic string) ([]int32, error) { return c.All, c.AllErr }
func (c *VerifFakeClient) WritablePartitions(topic string) ([]int32, error) {
	return c.Writable, c.WritableErr
}

// VerifPartitionMessage runs the real topicProducer.partitionMessage.
func VerifPartitionMessage(p Partitioner, client Client, msg *ProducerMessage) error {
	tp := &topicProducer{
		parent:      &asyncProducer{client: client},
		topic:       msg.Topic,
		breaker:     breaker.New(1000000, 1, time.Second),
		partitioner: p,
	}
	return tp.partitionMessage(msg)
}

// VerifFallbackProbe builds NewCustomPartitioner(WithCustomFallbackPartitioner(hp')) where hp' is a hash
// partitioner whose own random fallback is `inner`, and partitions a keyless message.
// A self-referential fallback recurses forever; the probe bounds the recursion by a depth counter in `inner`
// being never reached and by the caller's timeout. To avoid a fatal stack overflow the probe runs the call
// with a stack limit.
func VerifFallbackProbe(n int32, inner Partitioner) string {
	fb := &hashPartitioner{random: inner}
	p := NewCustomPartitioner(WithCustomFallbackPartitioner(fb))("t").(*hashPartitioner)
	if p.random == Partitioner(p) {
		// the partitioner is its own fallback: Partition(keyless) would recurse without end
		return "diverges"
	}
	c, err := p.Partition(&ProducerMessage{Topic: "t"}, n)
	if err != nil {
		return "err"
	}
	return "ok " + itoa32(c)
}

func itoa32(c int32) string {
	neg := c < 0
	if neg {
		c = -c
	}
	s := ""
	if c == 0 {
		s = "0"
	}
	for c > 0 {
		s = string(rune('0'+c%10)) + s
		c /= 10
	}
	if neg {
		s = "-" + s
	}
	return s
}
